import ElvisVerif.Model.Frag
/-!
Helper lemmas for C10 (IPv4 fragmentation).

`Pieces h body l` is the recursive description of a faithful partition of the datagram
`(h, body)`: either the datagram itself, or a first piece of `n > 0` blocks (MF set, TL = 20+8n)
followed by a faithful partition of the rest (TL − 8n, FO + n, original flags).  It composes:
replacing every piece by a faithful partition of that piece gives a faithful partition of the
original (`Pieces.refine`), which is what re-fragmentation along a chain of MTUs does.
`Faithful` is the same fact spelled out index by index (what the property text says).
-/
namespace Elvis.Frag

/-- `MF <- 1` -/
def setMF (flags : Nat) : Nat := setIsLast flags false

theorem setMF_idem (f : Nat) : setMF (setMF f) = setMF f := by
  simp [setMF, setIsLast] <;> omega

theorem isLast_setMF (f : Nat) : isLast (setMF f) = false := by
  simp [setMF, setIsLast, isLast] <;> omega

theorem mayFragment_setMF (f : Nat) : mayFragment (setMF f) = mayFragment f := by
  have : (f / 2 % 2 * 2 + 1) / 2 % 2 = f / 2 % 2 := by omega
  simp [setMF, setIsLast, mayFragment, this]

/-- first piece after a cut at `n` blocks (basic 20-octet header) -/
def cutFirst (h : Hdr) (n : Nat) : Hdr :=
  { h with flags := setMF h.flags, totalLength := 20 + 8 * n }

/-- the remainder after a cut at `n` blocks -/
def cutRest (h : Hdr) (n : Nat) : Hdr :=
  { h with totalLength := h.totalLength - 8 * n, fragOffset := h.fragOffset + n }

theorem firstHdr_eq (h : Hdr) (n : Nat) (hi : h.ihl = 5) : firstHdr h n = cutFirst h n := by
  simp only [firstHdr, cutFirst, setMF, hi]
  congr 1; omega

theorem restHdr_eq (h : Hdr) (n : Nat) : restHdr h n = cutRest h n := by
  simp only [restHdr, cutRest]
  congr 1; omega

/-- faithful partitions, recursively -/
inductive Pieces : Hdr → List UInt8 → List Frag → Prop
  | single (h : Hdr) (body : List UInt8) :
      h.totalLength = 20 + body.length → Pieces h body [(h, body)]
  | cons (h : Hdr) (body : List UInt8) (n : Nat) (l : List Frag) :
      0 < n → 8 * n < body.length → h.totalLength = 20 + body.length →
      Pieces (cutRest h n) (body.drop (8 * n)) l →
      Pieces h body ((cutFirst h n, body.take (8 * n)) :: l)

theorem Pieces.ne_nil {h body l} (p : Pieces h body l) : l ≠ [] := by
  cases p <;> simp

theorem Pieces.tl {h body l} (p : Pieces h body l) : h.totalLength = 20 + body.length := by
  cases p <;> assumption

private theorem cutFirst_cutFirst (h : Hdr) (n m : Nat) :
    cutFirst (cutFirst h n) m = cutFirst h m := by
  simp [cutFirst, setMF_idem]

private theorem cutRest_cutFirst (h : Hdr) (n m : Nat) (hm : m ≤ n) :
    cutRest (cutFirst h n) m = cutFirst (cutRest h m) (n - m) := by
  simp only [cutRest, cutFirst]
  congr 1; omega

private theorem cutRest_cutRest (h : Hdr) (n m : Nat) (hm : m ≤ n) (hn : 8 * n ≤ h.totalLength) :
    cutRest (cutRest h m) (n - m) = cutRest h n := by
  simp only [cutRest]
  congr 1 <;> omega

/-- a faithful partition of the first piece followed by one of the rest is one of the whole -/
theorem Pieces.append_aux {h1 b1 l1} (p1 : Pieces h1 b1 l1) :
    ∀ (h : Hdr) (body : List UInt8) (n : Nat) (l2 : List Frag), 0 < n → 8 * n < body.length →
      h.totalLength = 20 + body.length → h1 = cutFirst h n → b1 = body.take (8 * n) →
      Pieces (cutRest h n) (body.drop (8 * n)) l2 → Pieces h body (l1 ++ l2) := by
  induction p1 with
  | single h1 b1 _ =>
    intro h body n l2 hn hlt htl e1 e2 p2
    subst e1 e2
    exact Pieces.cons h body n l2 hn hlt htl p2
  | cons h1 b1 m l hm hlt1 htl1 _ ih =>
    intro h body n l2 hn hlt htl e1 e2 p2
    subst e1 e2
    have hmn : m < n := by
      simp only [List.length_take] at hlt1; omega
    have e3 : (body.take (8 * n)).take (8 * m) = body.take (8 * m) := by
      rw [List.take_take]; congr 1; omega
    rw [List.cons_append, cutFirst_cutFirst, e3]
    refine Pieces.cons h body m (l ++ l2) hm (by omega) htl ?_
    refine ih (cutRest h m) (body.drop (8 * m)) (n - m) l2 (by omega) ?_ ?_ ?_ ?_ ?_
    · simp only [List.length_drop]; omega
    · simp only [cutRest, List.length_drop]; omega
    · exact cutRest_cutFirst h n m (by omega)
    · rw [List.drop_take]; congr 1; omega
    · rw [cutRest_cutRest h n m (by omega) (by omega), List.drop_drop]
      have : 8 * m + 8 * (n - m) = 8 * n := by omega
      rw [this]; exact p2

theorem Pieces.append {h body n l1 l2} (hn : 0 < n) (hlt : 8 * n < body.length)
    (htl : h.totalLength = 20 + body.length)
    (p1 : Pieces (cutFirst h n) (body.take (8 * n)) l1)
    (p2 : Pieces (cutRest h n) (body.drop (8 * n)) l2) : Pieces h body (l1 ++ l2) :=
  Pieces.append_aux p1 h body n l2 hn hlt htl rfl rfl p2

/-- **composition**: refine every piece by a faithful partition of that piece -/
theorem Pieces.refine {h body l} (p : Pieces h body l) (sub : Frag → List Frag)
    (hsub : ∀ f ∈ l, Pieces f.1 f.2 (sub f)) : Pieces h body (l.flatMap sub) := by
  induction p with
  | single h body _ =>
    have := hsub (h, body) (by simp)
    simpa using this
  | cons h body n l hn hlt htl _ ih =>
    rw [List.flatMap_cons]
    exact Pieces.append hn hlt htl (hsub (cutFirst h n, body.take (8 * n)) (by simp))
      (ih (fun f hf => hsub f (by simp [hf])))

/-! ### what `Pieces` says, index by index -/

/-- concatenated payloads -/
def payload (l : List Frag) : List UInt8 := l.flatMap (·.2)

@[simp] theorem payload_nil : payload [] = [] := rfl
@[simp] theorem payload_cons (f : Frag) (l : List Frag) : payload (f :: l) = f.2 ++ payload l := by
  simp [payload]

/-- the fields fragmentation must not touch -/
def SameFields (h g : Hdr) : Prop :=
  g.ihl = h.ihl ∧ g.tos = h.tos ∧ g.ident = h.ident ∧ g.ttl = h.ttl ∧ g.proto = h.proto ∧
  g.checksum = h.checksum ∧ g.src = h.src ∧ g.dst = h.dst ∧
  mayFragment g.flags = mayFragment h.flags

theorem SameFields.refl (h : Hdr) : SameFields h h := by simp [SameFields]

theorem SameFields.trans {a b c : Hdr} (x : SameFields a b) (y : SameFields b c) : SameFields a c := by
  obtain ⟨x1, x2, x3, x4, x5, x6, x7, x8, x9⟩ := x
  obtain ⟨y1, y2, y3, y4, y5, y6, y7, y8, y9⟩ := y
  exact ⟨y1.trans x1, y2.trans x2, y3.trans x3, y4.trans x4, y5.trans x5, y6.trans x6,
    y7.trans x7, y8.trans x8, y9.trans x9⟩

theorem sameFields_cutFirst (h : Hdr) (n : Nat) : SameFields h (cutFirst h n) := by
  simp [SameFields, cutFirst, mayFragment_setMF]

theorem sameFields_cutRest (h : Hdr) (n : Nat) : SameFields h (cutRest h n) := by
  simp [SameFields, cutRest]

theorem Pieces.lengths {h body l} (p : Pieces h body l) :
    ∀ f ∈ l, f.1.totalLength = 20 + f.2.length := by
  induction p with
  | single h body htl => intro f hf; simp at hf; subst hf; exact htl
  | cons h body n l hn hlt htl _ ih =>
    intro f hf
    simp only [List.mem_cons] at hf
    rcases hf with rfl | hf
    · simp only [cutFirst, List.length_take]; omega
    · exact ih f hf

theorem Pieces.concat {h body l} (p : Pieces h body l) : payload l = body := by
  induction p with
  | single h body _ => simp
  | cons h body n l _ _ _ _ ih => simp [ih]

theorem Pieces.fields {h body l} (p : Pieces h body l) : ∀ f ∈ l, SameFields h f.1 := by
  induction p with
  | single h body _ => intro f hf; simp at hf; subst hf; exact SameFields.refl _
  | cons h body n l _ _ _ _ ih =>
    intro f hf
    simp only [List.mem_cons] at hf
    rcases hf with rfl | hf
    · exact sameFields_cutFirst h n
    · exact (sameFields_cutRest h n).trans (ih f hf)

theorem Pieces.offsets {h body l} (p : Pieces h body l) :
    ∀ i (hi : i < l.length),
      8 * l[i].1.fragOffset = 8 * h.fragOffset + (payload (l.take i)).length := by
  induction p with
  | single h body _ =>
    intro i hi
    have : i = 0 := by simp at hi; omega
    subst this; simp
  | cons h body n l _ hlt _ _ ih =>
    intro i hi
    cases i with
    | zero => simp [cutFirst]
    | succ i =>
      have := ih i (by simpa using hi)
      simp only [List.getElem_cons_succ, List.take_succ_cons, payload_cons, List.length_append,
        List.length_take]
      simp only [cutRest] at this
      omega

theorem Pieces.blocks {h body l} (p : Pieces h body l) :
    ∀ i (hi : i + 1 < l.length), 0 < l[i].2.length ∧ l[i].2.length % 8 = 0 := by
  induction p with
  | single h body _ => intro i hi; simp at hi
  | cons h body n l hn hlt _ _ ih =>
    intro i hi
    cases i with
    | zero => simp only [List.getElem_cons_zero, List.length_take]; omega
    | succ i => simpa using ih i (by simpa using hi)

theorem Pieces.mf {h body l} (p : Pieces h body l) :
    ∀ i (hi : i < l.length),
      l[i].1.flags = if i + 1 = l.length then h.flags else setMF h.flags := by
  induction p with
  | single h body _ =>
    intro i hi
    have : i = 0 := by simp at hi; omega
    subst this; simp
  | cons h body n l _ _ _ p' ih =>
    intro i hi
    cases i with
    | zero =>
      have := p'.ne_nil
      have : l.length ≠ 0 := by simpa using this
      simp only [List.getElem_cons_zero, List.length_cons, cutFirst]
      rw [if_neg (by omega)]
    | succ i =>
      have := ih i (by simpa using hi)
      simp only [List.getElem_cons_succ, List.length_cons]
      simp only [cutRest] at this
      rw [this]
      congr 1
      simp

/-- every piece ends inside the original datagram -/
theorem Pieces.end_le {h body l} (p : Pieces h body l) :
    ∀ f ∈ l, 8 * f.1.fragOffset + f.2.length ≤ 8 * h.fragOffset + body.length := by
  induction p with
  | single h body _ => intro f hf; simp at hf; subst hf; simp
  | cons h body n l _ hlt _ _ ih =>
    intro f hf
    simp only [List.mem_cons] at hf
    rcases hf with rfl | hf
    · simp only [cutFirst, List.length_take]; omega
    · have := ih f hf
      simp only [cutRest, List.length_drop] at this
      omega

/-- no piece of a non-empty datagram is empty -/
theorem Pieces.pos {h body l} (p : Pieces h body l) (hb : 0 < body.length) :
    ∀ f ∈ l, 0 < f.2.length := by
  induction p with
  | single h body _ => intro f hf; simp at hf; subst hf; exact hb
  | cons h body n l hn hlt _ _ ih =>
    intro f hf
    simp only [List.mem_cons] at hf
    rcases hf with rfl | hf
    · simp only [List.length_take]; omega
    · exact ih (by simp only [List.length_drop]; omega) f hf

theorem payload_append (a b : List Frag) : payload (a ++ b) = payload a ++ payload b := by
  simp [payload]

/-- piece `i` of a concatenation sits right after the pieces before it -/
theorem payload_split (l : List Frag) (i : Nat) (hi : i < l.length) :
    payload l = payload (l.take i) ++ l[i].2 ++ payload (l.drop (i + 1)) := by
  have h1 : l = l.take i ++ l[i] :: l.drop (i + 1) := by
    rw [List.getElem_cons_drop, List.take_append_drop]
  conv => lhs; rw [h1]
  rw [payload_append, payload_cons, List.append_assoc]

/-! ### the recursive fragmenter produces `Pieces` -/

/-- what one datagram (or piece) must satisfy for `Fragmentation::fragment` to be safe:
    basic header, payload as long as the header says, everything inside the u16 ranges -/
structure PreG (h : Hdr) (body : List UInt8) : Prop where
  ihl : h.ihl = 5
  tl : h.totalLength = 20 + body.length
  tlmax : h.totalLength ≤ 65535
  fomax : 8 * h.fragOffset + body.length ≤ 131043

theorem fragRec_spec (mtu : Nat) (hmtu : 28 ≤ mtu) :
    ∀ (fuel : Nat) (h : Hdr) (body : List UInt8), PreG h body → h.totalLength < fuel →
      ∃ l, fragRec mtu fuel h body = .ok l ∧ Pieces h body l ∧ ∀ f ∈ l, f.1.totalLength ≤ mtu := by
  intro fuel
  induction fuel with
  | zero => intro h body _ hf; omega
  | succ fuel ih =>
    intro h body pre hf
    obtain ⟨hihl, htl, hmax, hfo⟩ := pre
    unfold fragRec
    by_cases hfit : h.totalLength ≤ mtu
    · simp only [if_pos hfit]
      exact ⟨_, rfl, Pieces.single h body htl, by intro f hf; simp at hf; subst hf; exact hfit⟩
    · simp only [if_neg hfit, hihl]
      have hn1 : 0 < (mtu - 5 * 4) / 8 := by omega
      generalize hnfb : (mtu - 5 * 4) / 8 = nfb at *
      have hn8 : nfb * 8 ≤ mtu - 20 := by omega
      rw [if_neg (by omega), if_neg (by omega), if_neg (by omega), if_neg (by omega),
        if_neg (by omega)]
      have hpre' : PreG (restHdr h nfb) (body.drop (nfb * 8)) := by
        refine ⟨by simp [restHdr, hihl], ?_, ?_, ?_⟩
        · simp only [restHdr, List.length_drop]; omega
        · simp only [restHdr]; omega
        · simp only [restHdr, List.length_drop]; omega
      obtain ⟨l, e, p, fits⟩ := ih (restHdr h nfb) (body.drop (nfb * 8)) hpre'
        (by simp only [restHdr]; omega)
      rw [e]
      refine ⟨_, rfl, ?_, ?_⟩
      · rw [firstHdr_eq h nfb hihl]
        rw [restHdr_eq] at p
        have e8 : nfb * 8 = 8 * nfb := by omega
        rw [e8] at p ⊢
        exact Pieces.cons h body nfb l hn1 (by omega) htl p
      · intro f hf
        simp only [List.mem_cons] at hf
        rcases hf with rfl | hf
        · simp only [firstHdr, hihl]; omega
        · exact fits f hf

/-- `fragment` on a piece that may be fragmented: never a panic, the travelling pieces are a
    faithful partition and fit -/
theorem fragment_spec (h : Hdr) (body : List UInt8) (mtu : Nat) (hmtu : 28 ≤ mtu)
    (pre : PreG h body) (hdf : mayFragment h.flags = true) :
    ∃ r, fragment h body mtu = .ok r ∧ Pieces h body r.pieces ∧
      ∀ f ∈ r.pieces, f.1.totalLength ≤ mtu := by
  unfold fragment
  by_cases hfit : h.totalLength ≤ mtu
  · simp only [if_pos hfit]
    exact ⟨_, rfl, Pieces.single h body pre.tl, by
      intro f hf; simp [Fragments.pieces] at hf; subst hf; exact hfit⟩
  · simp only [if_neg hfit, hdf]
    obtain ⟨l, e, p, fits⟩ := fragRec_spec mtu hmtu (fuelFor h) h body pre (by simp [fuelFor])
    simp only [Bool.not_true, Bool.false_eq_true, if_false, e]
    exact ⟨_, rfl, p, fits⟩

/-- pieces of a datagram satisfying `PreG` satisfy it again -/
theorem Pieces.piece_pre {h body l} (p : Pieces h body l) (pre : PreG h body) :
    ∀ f ∈ l, PreG f.1 f.2 := by
  intro f hf
  have hl := p.lengths f hf
  have he := p.end_le f hf
  have hs := (p.fields f hf).1
  have hc := p.concat
  obtain ⟨a, b, c, d⟩ := pre
  refine ⟨by rw [hs, a], hl, ?_, by omega⟩
  -- a piece is no longer than the whole
  have : f.2.length ≤ body.length := by
    rw [← hc]
    obtain ⟨i, hi, rfl⟩ := List.getElem_of_mem hf
    rw [payload_split l i hi]
    simp only [List.length_append]; omega
  omega

/-- one hop over a list of pieces, when no piece panics and none is discarded -/
theorem hop_eq_flatMap (mtu : Nat) (l : List Frag)
    (hok : ∀ f ∈ l, ∃ r, fragment f.1 f.2 mtu = .ok r) :
    hop mtu l = .ok (l.flatMap fun f =>
      match fragment f.1 f.2 mtu with | .ok r => r.pieces | .error _ => []) := by
  induction l with
  | nil => rfl
  | cons f fs ih =>
    obtain ⟨r, hr⟩ := hok f (by simp)
    have := ih (fun g hg => hok g (by simp [hg]))
    simp only [hop, hr, this, List.flatMap_cons]

/-! ### chains of hops -/

theorem chain_nil (mtus : List Nat) : chain mtus [] = .ok [] := by
  induction mtus with
  | nil => rfl
  | cons m ms ih => simp [chain, hop, ih]

theorem chain_pieces (h : Hdr) (body : List UInt8) (pre : PreG h body)
    (hdf : mayFragment h.flags = true) :
    ∀ (mtus : List Nat) (l : List Frag) (bound : Nat), (∀ m ∈ mtus, 28 ≤ m) → Pieces h body l →
      (∀ f ∈ l, f.1.totalLength ≤ bound) →
      ∃ l', chain mtus l = .ok l' ∧ Pieces h body l' ∧
        ∀ f ∈ l', f.1.totalLength ≤ mtus.getLast?.getD bound := by
  intro mtus
  induction mtus with
  | nil => intro l bound _ p hb; exact ⟨l, rfl, p, by simpa using hb⟩
  | cons m ms ih =>
    intro l bound hm p _
    have hpiece : ∀ f ∈ l, ∃ r, fragment f.1 f.2 m = .ok r ∧ Pieces f.1 f.2 r.pieces ∧
        ∀ g ∈ r.pieces, g.1.totalLength ≤ m := by
      intro f hf
      have hflag : mayFragment f.1.flags = true := by
        rw [(p.fields f hf).2.2.2.2.2.2.2.2, hdf]
      exact fragment_spec f.1 f.2 m (hm m (by simp)) (p.piece_pre pre f hf) hflag
    have hhop := hop_eq_flatMap m l (fun f hf => let ⟨r, e, _⟩ := hpiece f hf; ⟨r, e⟩)
    have p' := p.refine (fun f => match fragment f.1 f.2 m with | .ok r => r.pieces | .error _ => [])
      (by intro f hf; obtain ⟨r, e, q, _⟩ := hpiece f hf; simp only [e]; exact q)
    have hb' : ∀ g ∈ l.flatMap (fun f =>
        match fragment f.1 f.2 m with | .ok r => r.pieces | .error _ => []),
        g.1.totalLength ≤ m := by
      intro g hg
      obtain ⟨f, hf, hgf⟩ := List.mem_flatMap.1 hg
      obtain ⟨r, e, _, fits⟩ := hpiece f hf
      simp only [e] at hgf
      exact fits g hgf
    obtain ⟨l', e', q, fits⟩ := ih _ m (fun k hk => hm k (by simp [hk])) p' hb'
    refine ⟨l', by simp only [chain, hhop]; exact e', q, ?_⟩
    rw [List.getLast?_cons]
    simpa using fits

theorem chain_df (h : Hdr) (body : List UInt8) (hdf : mayFragment h.flags = false) :
    ∀ mtus : List Nat, chain mtus [(h, body)] =
      .ok (if mtus.all (fun m => decide (h.totalLength ≤ m)) then [(h, body)] else []) := by
  intro mtus
  induction mtus with
  | nil => rfl
  | cons m ms ih =>
    by_cases hfit : h.totalLength ≤ m
    · simp [chain, hop, fragment, hfit, Fragments.pieces, ih]
    · simp [chain, hop, fragment, hfit, hdf, Fragments.pieces, chain_nil]


end Elvis.Frag
