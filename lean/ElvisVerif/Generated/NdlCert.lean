-- GENERATED from /repo sources by tools/extract.py on every check; do not edit
namespace Elvis.Gen.Ndl
/-- alternatives of `get_type`'s `alt((..))`, in source order -/
def tagAlt : List (List Char) := [['T', 'e', 'm', 'p', 'l', 'a', 't', 'e'], ['N', 'e', 't', 'w', 'o', 'r', 'k', 's'], ['N', 'e', 't', 'w', 'o', 'r', 'k'], ['I', 'P'], ['M', 'a', 'c', 'h', 'i', 'n', 'e', 's'], ['M', 'a', 'c', 'h', 'i', 'n', 'e'], ['P', 'r', 'o', 't', 'o', 'c', 'o', 'l', 's'], ['P', 'r', 'o', 't', 'o', 'c', 'o', 'l'], ['A', 'p', 'p', 'l', 'i', 'c', 'a', 't', 'i', 'o', 'n', 's'], ['A', 'p', 'p', 'l', 'i', 'c', 'a', 't', 'i', 'o', 'n']]  -- Template Networks Network IP Machines Machine Protocols Protocol Applications Application
/-- the combinator applied to each alternative: nom's `tag_no_case` or the local `keyword` -/
def tagMatcher : String := "keyword"
/-- variants of `enum DecType`, in source order -/
def decTypeVariants : List (List Char) := [['T', 'e', 'm', 'p', 'l', 'a', 't', 'e'], ['N', 'e', 't', 'w', 'o', 'r', 'k', 's'], ['N', 'e', 't', 'w', 'o', 'r', 'k'], ['I', 'P'], ['M', 'a', 'c', 'h', 'i', 'n', 'e', 's'], ['M', 'a', 'c', 'h', 'i', 'n', 'e'], ['P', 'r', 'o', 't', 'o', 'c', 'o', 'l', 's'], ['P', 'r', 'o', 't', 'o', 'c', 'o', 'l'], ['A', 'p', 'p', 'l', 'i', 'c', 'a', 't', 'i', 'o', 'n', 's'], ['A', 'p', 'p', 'l', 'i', 'c', 'a', 't', 'i', 'o', 'n']]
/-- arms of `DecType::from` (`i.to_lowercase()` => variant); anything else hits the fall-through -/
def decTypeTable : List (List Char × List Char) := [(['t', 'e', 'm', 'p', 'l', 'a', 't', 'e'], ['T', 'e', 'm', 'p', 'l', 'a', 't', 'e']), (['n', 'e', 't', 'w', 'o', 'r', 'k', 's'], ['N', 'e', 't', 'w', 'o', 'r', 'k', 's']), (['n', 'e', 't', 'w', 'o', 'r', 'k'], ['N', 'e', 't', 'w', 'o', 'r', 'k']), (['i', 'p'], ['I', 'P']), (['m', 'a', 'c', 'h', 'i', 'n', 'e', 's'], ['M', 'a', 'c', 'h', 'i', 'n', 'e', 's']), (['m', 'a', 'c', 'h', 'i', 'n', 'e'], ['M', 'a', 'c', 'h', 'i', 'n', 'e']), (['p', 'r', 'o', 't', 'o', 'c', 'o', 'l', 's'], ['P', 'r', 'o', 't', 'o', 'c', 'o', 'l', 's']), (['p', 'r', 'o', 't', 'o', 'c', 'o', 'l'], ['P', 'r', 'o', 't', 'o', 'c', 'o', 'l']), (['a', 'p', 'p', 'l', 'i', 'c', 'a', 't', 'i', 'o', 'n', 's'], ['A', 'p', 'p', 'l', 'i', 'c', 'a', 't', 'i', 'o', 'n', 's']), (['a', 'p', 'p', 'l', 'i', 'c', 'a', 't', 'i', 'o', 'n'], ['A', 'p', 'p', 'l', 'i', 'c', 'a', 't', 'i', 'o', 'n'])]
def decTypeFallthrough : String := "unimplemented!"
/-- sections `machine_parser` requires exactly once each -/
def machineRequired : List (List Char) := [['N', 'e', 't', 'w', 'o', 'r', 'k', 's'], ['P', 'r', 'o', 't', 'o', 'c', 'o', 'l', 's'], ['A', 'p', 'p', 'l', 'i', 'c', 'a', 't', 'i', 'o', 'n', 's']]
end Elvis.Gen.Ndl
