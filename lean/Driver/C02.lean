import Driver.Common
/-! Line-protocol handlers for C02 (sub-commands `c02` / `c02-*`). -/
namespace Driver.C02

def dispatch (_sub : String) (_i _o : IO.FS.Stream) : Option (IO Unit) := none

end Driver.C02
