import ElvisVerif.Model.Link
import Driver.Common
/-! Line-protocol handler for C05 (sub-command `c05`): replays taps, `send_pci` calls and the
frames entering each network (in queue order) through `Elvis.Link` and prints who must receive
each frame and when. -/
namespace Driver.C05
open Elvis.Link

structure Pending where
  net : Nat
  smac : Nat
  dst : Option Nat
  len : Nat
  fnv : String
deriving BEq

structure NetSt where
  net : Net
  med : MediumI := {}
  /-- mac → (machine, slot) -/
  owner : List (Nat × Nat × Nat) := []

structure St where
  nets : List NetSt := []
  pending : List Pending := []

def kv (ws : List String) (key : String) : Option String :=
  ws.findSome? fun w => if w.startsWith (key ++ "=") then some ((w.drop (key.length + 1)).toString) else none

def pair (s : String) : Option (Nat × Nat) :=
  match s.splitOn "," with
  | [a, b] => do pure (← a.toNat?, ← b.toNat?)
  | _ => none

def parseMac (s : String) : Option (Option Nat) :=
  if s == "-" then some none else s.toNat?.map some

def setNet (l : List NetSt) (i : Nat) (x : NetSt) : List NetSt :=
  (List.range l.length).zip l |>.map fun (j, y) => if j = i then x else y

def removeFirst (p : Pending) : List Pending → Option (List Pending)
  | [] => none
  | x :: xs => if x == p then some xs else (removeFirst p xs).map (x :: ·)

def fmtTo (ns : NetSt) (macs : List Nat) : String :=
  if macs.isEmpty then "-" else
  let items := macs.map fun mac =>
    match ns.owner.find? (·.1 == mac) with
    | some (_, mi, slot) => s!"{mac}/m{mi}s{slot}"
    | none => s!"{mac}/m99s99"
  ",".intercalate (items.mergeSort (fun a b => !(b < a)))

def step (st : St) (ws : List String) : St × String :=
  match ws with
  | ["case", id] => ({}, s!"case {id}")
  | "cfg" :: "net" :: _ :: rest =>
    match kv rest "mtu", (kv rest "lat").bind pair, (kv rest "thr").bind pair with
    | some mtu, some (lb, lr), some (tb, tr) =>
      let m := if mtu == "-" then 65535 else mtu.toNat?.getD 0
      ({ st with nets := st.nets ++ [{ net := { mtu := m, latBase := lb, latRand := lr, thrBase := tb, thrRand := tr } }] }, "cfg")
    | _, _, _ => (st, "bad-op")
  | "cfg" :: _ => (st, "cfg")
  | ["tap", n, mi, slot] =>
    match n.toNat?, mi.toNat?, slot.toNat? with
    | some n, some mi, some slot =>
      match st.nets[n]? with
      | some ns =>
        let (net', mac) := attach ns.net
        ({ st with nets := setNet st.nets n { ns with net := net', owner := ns.owner ++ [(mac, mi, slot)] } }, s!"mac {mac}")
      | none => (st, "no-net")
    | _, _, _ => (st, "bad-op")
  | "sendpci" :: n :: rest =>
    match n.toNat?, (kv rest "smac").bind String.toNat?, (kv rest "dst").bind parseMac, (kv rest "len").bind String.toNat?, kv rest "fnv" with
    | some n, some smac, some dst, some len, some fnv =>
      match st.nets[n]? with
      | some ns =>
        match sendPci ns.net { sender := smac, dest := dst, msg := List.replicate len 0 } with
        | .ok _ => ({ st with pending := st.pending ++ [{ net := n, smac, dst, len, fnv }] }, "ok")
        | .error _ => (st, "err:mtu")
      | none => (st, "no-net")
    | _, _, _, _, _ => (st, "bad-op")
  | "wire" :: n :: rest =>
    match n.toNat?, (kv rest "t").bind String.toNat?, (kv rest "smac").bind String.toNat?, (kv rest "dst").bind parseMac,
          (kv rest "len").bind String.toNat?, kv rest "fnv", kv rest "obs" with
    | some n, some t0, some smac, some dst, some len, some fnv, some obs =>
      match st.nets[n]?, removeFirst { net := n, smac, dst, len, fnv } st.pending with
      | some ns, some pending' =>
        let (med', ti) := transmitI ns.net ns.med t0 len
        let to := recipients ns.net dst
        let isVar := ns.net.latRand > 0 || ns.net.thrRand > 0
        let tpart :=
          if to.isEmpty then "deliver=-"
          else if isVar then
            match obs.toNat? with
            | some o => if ti.deliverLo ≤ o && o ≤ ti.deliverHi then "deliver=within" else s!"deliver=outside:{ti.deliverLo}:{ti.deliverHi}"
            | none => s!"deliver=expected:{ti.deliverLo}:{ti.deliverHi}"
          else s!"deliver={ti.deliverLo}"
        ({ st with nets := setNet st.nets n { ns with med := med' }, pending := pending' }, s!"to={fmtTo ns to} {tpart}")
      | some _, none => (st, "unexpected-frame")
      | none, _ => (st, "no-net")
    | _, _, _, _, _, _, _ => (st, "bad-op")
  | ["end"] => (st, s!"end pending={st.pending.length}")
  | ["crash"] => (st, "no-crash")
  | _ => (st, "bad-op")

def dispatch (sub : String) (i o : IO.FS.Stream) : Option (IO Unit) :=
  if sub == "c05" then some (Driver.loop i o step {}) else none

end Driver.C05
