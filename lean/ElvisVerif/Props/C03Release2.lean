import ElvisVerif.Props.C03Release
import ElvisVerif.Props.C01Full
import ElvisVerif.Lemmas.TcpRelOrder
/-!
# C03 — release after both applications close, from ANY reachable state of the closed system (closes after quiescence)

`c03_release_after_convergence` composes `c01_converges_full_bound` (`Props/C01Full.lean`: from every reachable state of
the closed system without close at most 15 fair rounds end `Done`) with the two release theorems of
`Props/C03Release.lean`.  This removes the "from `Done` states" restriction of `c03_release_simultaneous_partial` /
`c03_release_sequential_partial` for closes issued after quiescence.  The general statement (closes issued at ANY
reachable state, with data queued or in flight) is `C03ReleaseStatement` (`Props/C03Release.lean`), still open.
-/
namespace Elvis.Tcp
open Tcb Elvis.Tcp.Fin

/-- **Release after convergence, from every reachable state.**  Let `s` be ANY state of the closed two-endpoint system
    reachable from `open A` + (`listen B` | `open B`) by a `PlainRun` (any ISNs, MTUs ≥ 100, any finite interleaving of
    writes, reads, ticks, `segments()` and deliveries of any history element to its addressee — loss, duplication,
    reordering, delay —; TCBs in SYN-SENT / SYN-RECEIVED / ESTABLISHED or the passive side still without TCB, anything on
    the retransmission queues, in the reorder heaps and in the receive buffers; H31).  Then there is an explicit list of at
    most 15 fair rounds (`fairRound k` = both retransmission timers expire — `RTO + 1` ms on each side —, then `k`
    exchange phases), in all at most `16 + 2⌈max |submitted| / 65535⌉` exchange phases, after which the state `s1` is
    `Done`, and from `s1`
    * **simultaneous close, either order**: `releaseRound` (close A, close B, two exchange phases, `2·MSL + 1` ms on each
      side) and `releaseRoundBA` (close B, close A, …) are defined and end in the same state `s2`;
    * **sequential close**: `releaseRoundSeq` (close A; two exchange phases: A FIN-WAIT-2, B has seen the end of the
      stream and is in CLOSE-WAIT; close B; two exchange phases: B's TCB deleted by A's ACK of its FIN; `2·MSL + 1` ms
      on A's side: A's TCB deleted by the TIME-WAIT timeout) is defined;
    and in each case **both TCBs are deleted**, the streams are complete and exact (`delivered = submitted` in both
    directions, `submitted` being the logs of the starting state `s`), exactly four more segments have been emitted, and
    the final state is reachable from `s` by a `FinRun`.  Virtual time spent on each side from `s` to the deletion:
    `rounds.length · (RTO + 1) + 2·MSL + 1 ≤ 15·(RTO + 1) + 2·MSL + 1` ms, of which `2·MSL + 1` after the second
    `close()` — within the bound `2·MSL + RTO` of DESIGN.md section 8 counted from the last (re)transmission, since no
    retransmission is needed after the closes. -/
theorem c03_release_after_convergence (ia ib : Seq) (ma mb : U16) (simultaneous : Bool) (sys0 s : Sys) (rs : List Res)
    (hma : 100 ≤ ma.toNat) (hmb : 100 ≤ mb.toNat)
    (h0 : Sys.run {} [.open .A ia ma, if simultaneous then .open .B ib mb else .listen .B ib mb] = .ok (sys0, rs))
    (hrun : PlainRun sys0 s) (h31 : RoomH s) :
    ∃ (rounds : List Nat) (s1 : Sys) (ta tb : Tcb),
      (rounds.foldlM (fun st k => fairRound k st) s = .ok s1) ∧ PlainRun s s1 ∧ Done s1 ta tb ∧
      rounds.length ≤ 15 ∧
      rounds.sum ≤ 16 + 2 * ((max s.a.submitted.length s.b.submitted.length + 65534) / 65535) ∧
      (∃ s2, releaseRound s1 = .ok s2 ∧ releaseRoundBA s1 = .ok s2 ∧ FinRun s s2 ∧
        s2.a.tcb = none ∧ s2.b.tcb = none ∧ s2.b.delivered = s2.a.submitted ∧ s2.a.delivered = s2.b.submitted ∧
        s2.a.submitted = s.a.submitted ∧ s2.b.submitted = s.b.submitted ∧ s2.historyLen = s1.historyLen + 4) ∧
      (∃ s2, releaseRoundSeq s1 = .ok s2 ∧ FinRun s s2 ∧
        s2.a.tcb = none ∧ s2.b.tcb = none ∧ s2.b.delivered = s2.a.submitted ∧ s2.a.delivered = s2.b.submitted ∧
        s2.a.submitted = s.a.submitted ∧ s2.b.submitted = s.b.submitted ∧ s2.historyLen = s1.historyLen + 4) := by
  have h50 : SPACE_FOR_HEADERS = 50 := rfl
  obtain ⟨rounds, s1, ta, tb, hfold, p1, hd, _, _, sa1, sb1, hlen, hsum, _, _⟩ :=
    c01_converges_full_bound ia ib ma mb simultaneous sys0 s rs hma hmb h0 hrun h31
  have h31' : RoomH s1 := by
    unfold RoomH
    rw [sa1, sb1]
    exact h31
  have hrun1 : PlainRun sys0 s1 := hrun.trans p1
  obtain ⟨s2, e2, r2, na, nb, d1, d2, sa, sb, hl⟩ := c03_release_simultaneous_partial ia ib ma mb simultaneous sys0 s1 rs
    (by omega) (by omega) h0 hrun1 h31' ta tb hd
  obtain ⟨s3, e3, r3, na3, nb3, d13, d23, sa3, sb3, hl3⟩ := c03_release_sequential_partial ia ib ma mb simultaneous sys0
    s1 rs (by omega) (by omega) h0 hrun1 h31' ta tb hd
  exact ⟨rounds, s1, ta, tb, hfold, p1, hd, hlen, hsum,
    ⟨s2, e2, releaseRoundBA_of_releaseRound s1 s2 e2, (FinRun.of_plain p1).trans r2, na, nb, d1, d2, sa.trans sa1,
      sb.trans sb1, hl⟩,
    ⟨s3, e3, (FinRun.of_plain p1).trans r3, na3, nb3, d13, d23, sa3.trans sa1, sb3.trans sb1, hl3⟩⟩

/-! ## non-vacuity -/

/-- the three pre-ESTABLISHED reachable states of `hsCheck` (`Props/C01Full.lean`: SYN lost; third handshake segment lost;
    simultaneous open with both SYNs lost) and the state of `roughCheck` (parked segments, lost data, a lost ACK): rounds as
    promised, then each of the three closing schedules deletes both TCBs with the streams complete -/
def afterConvCheck : Bool :=
  let fin (s' : Sys) (da db : List UInt8) : Bool :=
    (match releaseRound s' with
      | .ok s2 => s2.a.tcb.isNone && s2.b.tcb.isNone && s2.b.delivered == db && s2.a.delivered == da &&
          s2.historyLen == s'.historyLen + 4
      | .error _ => false) &&
    (match releaseRoundBA s' with
      | .ok s2 => s2.a.tcb.isNone && s2.b.tcb.isNone && s2.b.delivered == db && s2.a.delivered == da
      | .error _ => false) &&
    (match releaseRoundSeq s' with
      | .ok s2 => s2.a.tcb.isNone && s2.b.tcb.isNone && s2.b.delivered == db && s2.a.delivered == da &&
          s2.historyLen == s'.historyLen + 4
      | .error _ => false)
  (match Sys.run {} [.open .A 1000 1500, .listen .B 5000 1500] with
    | .ok (sys0, _) =>
      (match plainRunB sys0 [.emit .A, .write .A [1, 2, 3]] with
        | some s => s.b.tcb.isNone &&
            (match runRounds s [1, 1, 1, 1, 4] with
              | .ok s' => fin s' [] [1, 2, 3]
              | .error _ => false)
        | none => false) &&
      (match plainRunB sys0 roughOps with
        | some s =>
            (match runRounds s [1, 4] with
              | .ok s' => fin s' [9, 8] [1, 2, 3, 4, 5, 6]
              | .error _ => false)
        | none => false)
    | .error _ => false) &&
  (match Sys.run {} [.open .A 1000 1500, .open .B 5000 1500] with
    | .ok (sys0, _) =>
      (match plainRunB sys0 [.emit .A, .emit .B, .write .A [1], .write .B [2]] with
        | some s =>
            (match runRounds s [1, 1, 1, 1, 4] with
              | .ok s' => fin s' [2] [1]
              | .error _ => false)
        | none => false)
    | .error _ => false)

example : afterConvCheck = true := by decide

end Elvis.Tcp
