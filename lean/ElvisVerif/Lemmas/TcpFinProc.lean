import ElvisVerif.Lemmas.TcpFinBlocks
/-!
# The stream invariant with `close()`: block 6, `process_segment`, `segment_arrives`

`finBlock_invF`: a valid FIN that passed the heap gate.  While the state does not yet show FIN
received, `RCV.NXT ≤ SEG.SEQ` (the FIN sits behind every submitted byte, and what has been received
is a prefix of what was submitted) and `SEG.SEQ ≤ RCV.NXT` (the gate): the FIN sits exactly at
`RCV.NXT` and **everything submitted has been received**; the state then shows FIN received and
`RCV.NXT` steps over the FIN.  A retransmitted FIN (state already shows FIN received) changes nothing
the invariant reads.
-/
namespace Elvis.Tcp.Fin
open Elvis.ModCmp Elvis.Tcp.Tcb Elvis.Tcp.C01

/-- the state part of block 6 -/
def finState (s : Tcb) : B :=
  match s.state with
  | .SynReceived | .Established => .ok ({ s with state := .CloseWait }, none)
  | .FinWait1 =>
    if s.isFinAcked then
      .ok ({ s with state := .TimeWait, timeouts.timeWait := some TIME_WAIT }, none)
    else .ok ({ s with state := .Closing }, none)
  | .FinWait2 =>
    .ok ({ s with state := .TimeWait, timeouts.timeWait := some TIME_WAIT,
                  timeouts.retransmission := RTO }, none)
  | .TimeWait => .ok ({ s with timeouts.timeWait := some TIME_WAIT }, none)
  | _ => .ok (s, none)

/-- block 6 for a FIN at `RCV.NXT` or `RCV.NXT − 1`, outside SYN-SENT -/
theorem finBlock_fin_eq (t : Tcb) (seg : Hdr) (tl : Seq) (hfin : seg.ctl.fin = true) (hns : t.state ≠ .SynSent)
    (hc : t.rcv.nxt = seg.seq + tl ∨ t.rcv.nxt = seg.seq + tl + 1) :
    finBlock t seg tl =
      finState (({ t with rcv.nxt := seg.seq + tl + 1 } : Tcb).enqueueBuilt
        ({ t with rcv.nxt := seg.seq + tl + 1 } : Tcb).ackHdr.built) := by
  unfold finBlock finState
  rw [if_neg (by simp [hfin]), if_pos hns]
  have hcond : (decide (t.rcv.nxt = seg.seq + tl) || decide (t.rcv.nxt = seg.seq + tl + 1)) = true := by
    rcases hc with h | h <;> simp [h]
  dsimp only
  rw [if_pos hcond, enqueue_eq]
  rfl

theorem enqueueBuilt_ack (u : Tcb) :
    u.enqueueBuilt u.ackHdr.built = { u with outgoing.oneshot := u.outgoing.oneshot ++ [u.ackHdr.built] } := by
  unfold enqueueBuilt
  rw [if_neg (by rw [(ackHdr_plain u).1, (ackHdr_plain u).2.1]; simp)]

section
variable {port : U16} {issX issY : Seq} {subX subY delX : List UInt8} {finY : Bool}

/-- the TCB after the FIN has been taken in -/
theorem TInvG.fin_final {fx : Bool} {t t' : Tcb} (h : TInvG port issX issY subX subY delX fx finY t)
    (hall : delX ++ t.incoming.text = subY) (hfY : finY = true)
    (lp : t'.localPort = t.localPort) (iss : t'.snd.iss = t.snd.iss) (nxt : t'.snd.nxt = t.snd.nxt)
    (otext : t'.outgoing.text = t.outgoing.text)
    (rnxt : t'.rcv.nxt = issY + 1 + BitVec.ofNat 32 (delX.length + t.incoming.text.length + 1))
    (rirs : t'.rcv.irs = t.rcv.irs) (inc : t'.incoming = t.incoming) (hns : t.state ≠ .SynSent)
    (hst : finRcvd t'.state = true)
    (rtx : ∀ g ∈ t'.outgoing.retransmit.map (·.segment), g ∈ t.outgoing.retransmit.map (·.segment))
    (one : ∀ x ∈ t'.outgoing.oneshot, x ∈ t.outgoing.oneshot ∨
      (x.ctl.syn = false ∧ x.ctl.fin = false ∧ x.srcPort = t.localPort)) :
    TInvG port issX issY subX subY delX fx finY t' := by
  have hns' : t'.state ≠ .SynSent := by
    intro h0; rw [h0] at hst; cases hst
  refine ⟨lp.trans h.lp, iss.trans h.iss, ?_, fun g hg => h.rtx g (rtx g hg), fun x hx => ?_,
    by rw [inc]; exact h.heap, fun hs => absurd hs hns', fun _ => ⟨?_, ?_⟩, fun _ => ⟨?_, hfY⟩, fun _ => ?_⟩
  · rw [otext, nxt]; exact h.out
  · rcases one x hx with hx | ⟨a, b, c⟩
    · exact h.one x hx
    · exact ⟨a, b, c.trans h.lp⟩
  · rw [rnxt, inc, hst]; rfl
  · rw [inc, hall]; exact List.prefix_refl _
  · rw [inc]; exact hall
  · rw [rirs]; exact h.irs hns

theorem finBlock_invF {t t' : Tcb} {seg : Hdr} {text : List UInt8} {r : Option ProcessSegmentResult}
    (h : TInvF port issX issY subX subY delX finY t) (hns : t.state ≠ .SynSent)
    (hv : ValidF issY subY finY ⟨seg, text⟩) (h31 : subY.length < 2147483648)
    (hgate : modGt seg.seq t.rcv.nxt = false)
    (e : finBlock t seg (BitVec.ofNat 32 text.length) = .ok (t', r)) :
    TInvF port issX issY subX subY delX finY t' ∧ finSent t' = finSent t := by
  have fin : ∀ t'' : Tcb, TInvG port issX issY subX subY delX (finSent t) finY t'' → finSent t'' = finSent t →
      (TInvF port issX issY subX subY delX finY t'' ∧ finSent t'' = finSent t) := fun _ a b => ⟨TInvF.of_g a b, b⟩
  cases hfin : seg.ctl.fin with
  | false =>
    have := finBlock_eq hfin e
    subst this; exact ⟨h, rfl⟩
  | true =>
    obtain ⟨hfY, hsyn, htext, hseq⟩ := hv.fin hfin
    simp only at htext hseq
    subst htext
    obtain ⟨hnxt, hpre⟩ := h.rcv1 hns
    -- everything has been received
    have hall : delX ++ t.incoming.text = subY := by
      cases hfr : finRcvd t.state with
      | true => exact (h.eof hfr).1
      | false =>
        rw [hfr] at hnxt
        simp only [Bool.toNat_false, Nat.add_zero] at hnxt
        have hle := hpre.length_le
        rw [List.length_append] at hle
        rw [hseq, hnxt] at hgate
        have := gate_le (issY + 1) subY.length (delX.length + t.incoming.text.length) h31 (by omega) hgate
        exact hpre.eq_of_length (by rw [List.length_append]; omega)
    have hlen : delX.length + t.incoming.text.length = subY.length := by rw [← hall, List.length_append]
    have one1 : (1 : Seq) = BitVec.ofNat 32 1 := rfl
    have hnew : seg.seq + BitVec.ofNat 32 ([] : List UInt8).length + 1 =
        issY + 1 + BitVec.ofNat 32 (delX.length + t.incoming.text.length + 1) := by
      rw [hseq, hlen, List.length_nil, add_ofNat_zero, one1, add_ofNat_assoc]
    have hc : t.rcv.nxt = seg.seq + BitVec.ofNat 32 ([] : List UInt8).length ∨
        t.rcv.nxt = seg.seq + BitVec.ofNat 32 ([] : List UInt8).length + 1 := by
      cases hfr : finRcvd t.state with
      | true => right; rw [hnew, hnxt, hfr]; rfl
      | false => left; rw [hnxt, hfr, hseq, hlen, List.length_nil, add_ofNat_zero]; rfl
    rw [finBlock_fin_eq t seg _ hfin hns hc, enqueueBuilt_ack] at e
    have hone : ∀ x ∈ t.outgoing.oneshot ++
        [({ t with rcv.nxt := seg.seq + BitVec.ofNat 32 ([] : List UInt8).length + 1 } : Tcb).ackHdr.built],
        x ∈ t.outgoing.oneshot ∨ (x.ctl.syn = false ∧ x.ctl.fin = false ∧ x.srcPort = t.localPort) := by
      intro x hx
      rcases List.mem_append.1 hx with hx | hx
      · exact Or.inl hx
      · simp only [List.mem_singleton] at hx
        subst hx
        exact Or.inr ⟨rfl, rfl, rfl⟩
    unfold finState at e
    dsimp only at e
    cases hst : t.state <;> rw [hst] at e <;> dsimp only at e
    case SynSent => exact absurd hst hns
    case FinWait1 =>
      split at e
      · rename_i hfa
        cases e
        refine fin _ (TInvG.fin_final h hall hfY rfl rfl rfl rfl hnew rfl rfl hns rfl (fun _ h => h) hone) ?_
        have hft : finSent t = true := by
          have h1 := finSent_of_finAcked hfa (Or.inl rfl)
          unfold finSent at h1 ⊢
          rw [hst]; exact h1
        rw [hft]; rfl
      · cases e
        refine fin _ (TInvG.fin_final h hall hfY rfl rfl rfl rfl hnew rfl rfl hns rfl (fun _ h => h) hone) ?_
        unfold finSent; rw [hst]
    all_goals
      cases e
      refine fin _ (TInvG.fin_final h hall hfY rfl rfl rfl rfl hnew rfl rfl hns rfl (fun _ h => h) hone) ?_
      unfold finSent; rw [hst]

/-- `process_segment` keeps the invariant for a valid segment that passed the heap gate -/
theorem processSegment_invF {t t' : Tcb} {g : Segment} {r : ProcessSegmentResult}
    (h : TInvF port issX issY subX subY delX finY t) (hv : ValidF issY subY finY g) (h31 : subY.length < 2147483648)
    (hgate : t.state ≠ .SynSent → modGt g.hdr.seq t.rcv.nxt = false)
    (e : t.processSegment g = .ok (t', r)) :
    TInvF port issX issY subX subY delX finY t' ∧ finSent t' = finSent t := by
  unfold processSegment at e
  dsimp only at e
  have hv' : ValidF issY subY finY ⟨g.hdr, g.text⟩ := hv
  cases h1 : seqCheck t g.hdr (BitVec.ofNat 32 g.text.length) with
  | error x => rw [h1] at e; simp at e
  | ok p1 =>
    obtain ⟨t1, r1⟩ := p1
    rw [h1] at e
    have i1 := h.of_fr (seqCheck_frF h1)
    cases r1 with
    | some r1 =>
      simp only [andThen_some, Except.ok.injEq, Prod.mk.injEq] at e; rw [← e.1]; exact ⟨i1, (seqCheck_frF h1).fs⟩
    | none =>
      have e1 : t1 = t := seqCheck_none h1
      subst e1
      simp only [andThen_none] at e
      cases h2 : ackBlock t1 g.hdr with
      | error x => rw [h2] at e; simp at e
      | ok p2 =>
        obtain ⟨t2, r2⟩ := p2
        rw [h2] at e
        have f2 := ackBlock_frF h2
        have i2 := h.of_fr f2
        cases r2 with
        | some r2 => simp only [andThen_some, Except.ok.injEq, Prod.mk.injEq] at e; rw [← e.1]; exact ⟨i2, f2.fs⟩
        | none =>
          simp only [andThen_none] at e
          cases h3 : rstBlock t2 g.hdr with
          | error x => rw [h3] at e; simp at e
          | ok p3 =>
            obtain ⟨t3, r3⟩ := p3
            rw [h3] at e
            have e3 : t3 = t2 := rstBlock_eq h3
            subst e3
            cases r3 with
            | some r3 => simp only [andThen_some, Except.ok.injEq, Prod.mk.injEq] at e; rw [← e.1]; exact ⟨i2, f2.fs⟩
            | none =>
              simp only [andThen_none] at e
              cases h4 : synBlock t3 g.hdr with
              | error x => rw [h4] at e; simp at e
              | ok p4 =>
                obtain ⟨t4, r4⟩ := p4
                rw [h4] at e
                -- the invariant after block 4, and what blocks 5 and 6 need when block 4 falls through
                have k4 : TInvF port issX issY subX subY delX finY t4 ∧ finSent t4 = finSent t1 ∧
                    (r4 = none → t4.state ≠ .SynSent ∧
                      ((g.text ≠ [] ∨ g.hdr.ctl.fin = true) → modGt g.hdr.seq t4.rcv.nxt = false)) := by
                  by_cases hs : t3.state = .SynSent
                  · obtain ⟨i4, s4, n4⟩ := synBlock_synSentF i2 hs hv' h4
                    refine ⟨i4, s4.trans f2.fs, fun hr => ⟨(n4 hr).1, fun hne => ?_⟩⟩
                    rcases hne with hne | hne
                    · exact absurd (n4 hr).2.1 hne
                    · have := (hv.fin hne).2.1
                      rw [(n4 hr).2.2] at this
                      cases this
                  · have f4 := synBlock_frF hs h4
                    refine ⟨i2.of_fr f4, f4.fs.trans f2.fs, fun _ => ⟨fun h0 => hs (f4.ss.1 h0), fun _ => ?_⟩⟩
                    rw [f4.rcv, f2.rcv]
                    exact hgate (fun h0 => hs (f2.ss.2 h0))
                obtain ⟨i4, s4, n4⟩ := k4
                cases r4 with
                | some r4 => simp only [andThen_some, Except.ok.injEq, Prod.mk.injEq] at e; rw [← e.1]; exact ⟨i4, s4⟩
                | none =>
                  simp only [andThen_none] at e
                  obtain ⟨hns4, hg4⟩ := n4 rfl
                  cases h5 : textBlock t4 g.hdr g.text (BitVec.ofNat 32 g.text.length) with
                  | error x => rw [h5] at e; simp at e
                  | ok p5 =>
                    obtain ⟨t5, r5⟩ := p5
                    rw [h5] at e
                    obtain ⟨i5g, htxt, hfs5⟩ := textBlock_invF i4 hns4 hv' h31 (fun hne => hg4 (Or.inl hne)) h5
                    have i5 : TInvF port issX issY subX subY delX finY t5 := TInvF.of_g i5g hfs5
                    cases r5 with
                    | some r5 =>
                      simp only [andThen_some, Except.ok.injEq, Prod.mk.injEq] at e; rw [← e.1]
                      exact ⟨i5, hfs5.trans s4⟩
                    | none =>
                      simp only [andThen_none] at e
                      cases h6 : finBlock t5 g.hdr (BitVec.ofNat 32 g.text.length) with
                      | error x => rw [h6] at e; simp at e
                      | ok p6 =>
                        obtain ⟨t6, r6⟩ := p6
                        rw [h6] at e
                        have i6 : TInvF port issX issY subX subY delX finY t6 ∧ finSent t6 = finSent t1 := by
                          cases hfin : g.hdr.ctl.fin with
                          | false =>
                            have e6 : t6 = t5 := finBlock_eq hfin h6
                            rw [e6]; exact ⟨i5, hfs5.trans s4⟩
                          | true =>
                            have e5 : t5 = t4 := htxt (hv.fin hfin).2.2.1
                            subst e5
                            obtain ⟨a, b⟩ := finBlock_invF i4 hns4 hv' h31 (hg4 (Or.inr hfin)) h6
                            exact ⟨a, b.trans s4⟩
                        cases r6 <;>
                          (simp only [Except.ok.injEq, Prod.mk.injEq] at e; rw [← e.1]; exact i6)

/-- the processing loop of `segment_arrives` keeps the invariant -/
theorem drain_invF (fuel : Nat) {t t' : Tcb} {r : SegmentArrivesResult}
    (h : TInvF port issX issY subX subY delX finY t) (h31 : subY.length < 2147483648)
    (e : drain fuel t = .ok (t', r)) :
    TInvF port issX issY subX subY delX finY t' ∧ finSent t' = finSent t := by
  induction fuel generalizing t with
  | zero => unfold drain at e; cases e; exact ⟨h, rfl⟩
  | succ n ih =>
    unfold drain at e
    split at e
    · cases e; exact ⟨h, rfl⟩
    · rename_i top hpeek
      split at e
      · cases e; exact ⟨h, rfl⟩
      · rename_i hgate
        obtain ⟨rest, hpop⟩ := LHeap.pop_of_peek (le := segLe) hpeek
        rw [hpop] at e
        dsimp only at e
        have hmem := LHeap.mem_of_mem_pop hpop
        have h0 : TInvF port issX issY subX subY delX finY { t with incoming.segments := rest } :=
          ⟨h.lp, h.iss, h.out, h.rtx, h.one, fun g hg => h.heap g (hmem.2 g hg), h.rcv0, h.rcv1, h.eof, h.irs⟩
        have hg : ({ t with incoming.segments := rest } : Tcb).state ≠ .SynSent →
            modGt top.hdr.seq ({ t with incoming.segments := rest } : Tcb).rcv.nxt = false := by
          intro hne
          cases hm : modGt top.hdr.seq t.rcv.nxt with
          | false => rfl
          | true =>
            exfalso; apply hgate
            have hne' : t.state ≠ .SynSent := hne
            simp [hne', hm]
        cases hp : processSegment { t with incoming.segments := rest } top with
        | error x => rw [hp] at e; cases e
        | ok p =>
          obtain ⟨s1, r1⟩ := p
          rw [hp] at e
          dsimp only at e
          obtain ⟨i1, s1'⟩ := processSegment_invF h0 (h.heap top hmem.1) h31 hg hp
          have s1'' : finSent s1 = finSent t := s1'
          split at e
          · cases e; exact ⟨i1, s1''⟩
          · obtain ⟨a, b⟩ := ih i1 e
            exact ⟨a, b.trans s1''⟩

/-- **`segment_arrives` keeps the invariant** for every valid segment of the peer -/
theorem segmentArrives_invF {t t' : Tcb} {g : Segment} {r : SegmentArrivesResult}
    (h : TInvF port issX issY subX subY delX finY t) (hv : ValidF issY subY finY g) (h31 : subY.length < 2147483648)
    (e : t.segmentArrives g = .ok (t', r)) :
    TInvF port issX issY subX subY delX finY t' ∧ finSent t' = finSent t := by
  unfold segmentArrives at e
  dsimp only at e
  split at e
  · cases e
  · rw [enqueue_eq] at e
    cases e
    exact ⟨h.of_fr (FrF.enqAck _), (FrF.enqAck _).fs⟩
  · refine drain_invF (t := { t with incoming.segments := LHeap.push segLe t.incoming.segments g }) _ ?_ h31 e
    refine ⟨h.lp, h.iss, h.out, h.rtx, h.one, fun x hx => ?_, h.rcv0, h.rcv1, h.eof, h.irs⟩
    rcases LHeap.mem_push.1 hx with rfl | hx
    · exact hv
    · exact h.heap x hx

end
end Elvis.Tcp.Fin
