import ElvisVerif.Model.Checksum
import ElvisVerif.Model.Codec.Bytes
/-
Model of sim/elvis-core/src/protocols/udp/udp_parsing.rs:
`UdpHeader::from_bytes_ipv4`, `build_udp_header`.

Code order is kept (consumption of bytes, order of the `checksum.add_*` calls, order of the
checks: `LengthMismatch` before `Checksum`).  `packetLen` / `textLen` are the separate `usize`
arguments of the Rust functions (the callers pass the message length).  `ck` is the cargo
feature `compute_checksum`.  Only core imports (linked into the driver).
-/
namespace Elvis.Codec.Udp
open Elvis.Ck Elvis.Codec

/-- `UdpHeader` -/
structure Header where
  source : Nat
  destination : Nat
  length : Nat
  checksum : Nat
deriving DecidableEq, Repr

/-- `udp_parsing::ParseError` -/
inductive ParseError where
  | headerTooShort
  | checksum (actual expected : Nat)
  | lengthMismatch
deriving DecidableEq, Repr

/-- `udp_parsing::BuildHeaderError` -/
inductive BuildError where
  | overlyLongPayload
deriving DecidableEq, Repr

abbrev hts : Res ParseError Header := .error (.err .headerTooShort)

/-- `UdpHeader::from_bytes_ipv4(packet, packet_len, source_address, destination_address)` -/
def fromBytes (ck : Bool) (bs : List UInt8) (packetLen src dst : Nat) : Res ParseError Header :=
  match nextU16 bs with
  | none => hts
  | some (sourcePort, bs) =>
  let c := add16 ck 0 sourcePort
  match nextU16 bs with
  | none => hts
  | some (destinationPort, bs) =>
  let c := add16 ck c destinationPort
  match nextU16 bs with
  | none => hts
  | some (length, bs) =>
  let c := add16 ck c length
  -- "This is used a second time in the pseudo header"
  let c := add16 ck c length
  match nextU16 bs with
  | none => hts
  | some (expected, bs) =>
  let c := addWord32 ck c src
  let c := addWord32 ck c dst
  -- [zero, UDP protocol number]
  let c := addU8 ck c 0 17
  let c := accumulateRemainder ck c bs
  -- if packet_len != length as usize { LengthMismatch }
  if packetLen ≠ length then .error (.err .lengthMismatch) else
  -- fix of F-C18-1: if !checksum.matches(expected_checksum) { Checksum { actual, expected } }
  if ¬ matchesField ck c expected then .error (.err (.checksum (asU16 ck c) expected)) else
  .ok { source := sourcePort, destination := destinationPort, length := length, checksum := expected }

/-- `usize::MAX + 1` on the 64-bit targets the harness runs on -/
def usizeLimit : Nat := 18446744073709551616

/-- `build_udp_header(source_address, source_port, destination_address, destination_port, text,
    text_len)`.  `text_len + HEADER_OCTETS as usize` is a checked `usize` addition. -/
def build (ck : Bool) (src srcPort dst dstPort : Nat) (text : List UInt8) (textLen : Nat) :
    Res BuildError (List UInt8) :=
  let c := accumulateRemainder ck 0 text
  if textLen + 8 ≥ usizeLimit then .error (.panic "panic:add-overflow:build_udp_header") else
  -- .try_into().map_err(|_| OverlyLongPayload)?
  if textLen + 8 > 65535 then .error (.err .overlyLongPayload) else
  let length := textLen + 8
  let c := add16 ck c length
  let c := add16 ck c length
  let c := addWord32 ck c src
  let c := addWord32 ck c dst
  let c := addU8 ck c 0 17
  let c := add16 ck c srcPort
  let c := add16 ck c dstPort
  .ok (be16 srcPort ++ be16 dstPort ++ be16 length ++ be16 (asU16 ck c))

end Elvis.Codec.Udp
