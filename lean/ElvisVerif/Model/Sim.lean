import ElvisVerif.Generated.SimCert
/-
Model of simulation start-up and shut-down (sim/elvis-core/src/internet.rs, machine.rs,
shutdown.rs, protocol.rs).

* Start-up: `run_internet` creates `Barrier::new(total_protocols)`; `Machine::start` spawns one
  task per protocol calling `Protocol::start(shutdown, initialized, machine)`.  Every start
  routine has the shape `pre* ; initialized.wait().await ; post*` (certified from the source by
  tools/extract.py, see `Generated/SimCert.lean`).  Tasks interleave arbitrarily: the schedule
  is an explicit list of routine indices.
* Barrier semantics (tokio::sync::Barrier): the n-th arrival of a generation releases all
  waiters of that generation.
* Shut-down: a `broadcast::channel(cap)` of exit statuses; the receiver is created before the
  machines start; `get_status` returns the oldest value still retained (on `Lagged` it retries),
  `Exited` when the channel is closed and empty; `run_internet` then prefers the status stored
  in the set-once "first request" cell of `Shutdown` (fix of F-C13-1).
No imports: linked into the native driver.
-/
namespace Elvis.Sim

/-- a start routine: number of effects before and after the barrier -/
structure Routine where
  pre : Nat
  post : Nat
deriving Repr

structure RState where
  donePre : Nat := 0
  waiting : Bool := false
  released : Bool := false
  donePost : Nat := 0
deriving Repr

inductive Ev
  | pre (r : Nat)    -- an initialisation effect (listen, bind, table write) of routine r
  | post (r : Nat)   -- an effect after the barrier (may put a frame on the wire)
deriving Repr, DecidableEq

def Ev.isPre : Ev → Bool
  | .pre _ => true
  | .post _ => false

structure Sys where
  prog : List Routine
  st : List RState
  size : Nat            -- `Barrier::new(size)`
  log : List Ev
deriving Repr

def init (prog : List Routine) (size : Nat) : Sys :=
  { prog := prog, st := prog.map (fun _ => {}), size := size, log := [] }

def waitingCount (st : List RState) : Nat := (st.filter (·.waiting)).length

/-- release every waiter of the current generation -/
def releaseAll (st : List RState) : List RState :=
  st.map fun x => if x.waiting then { x with waiting := false, released := true } else x

/-- the scheduler lets routine `i` take its next step (a blocked or finished routine idles) -/
def step (s : Sys) (i : Nat) : Sys :=
  match s.prog[i]?, s.st[i]? with
  | some r, some x =>
    if x.donePre < r.pre then
      { s with st := s.st.set i { x with donePre := x.donePre + 1 }, log := s.log ++ [.pre i] }
    else if !x.waiting && !x.released then
      let st' := s.st.set i { x with waiting := true }
      if waitingCount st' = s.size then { s with st := releaseAll st' } else { s with st := st' }
    else if x.released && x.donePost < r.post then
      { s with st := s.st.set i { x with donePost := x.donePost + 1 }, log := s.log ++ [.post i] }
    else s
  | _, _ => s

def run (s : Sys) (sched : List Nat) : Sys := sched.foldl step s

/-! ### exit status -/

inductive Status
  | status (n : Nat)
  | exited
  | timedOut
deriving Repr, DecidableEq

/-- What `get_status` returns when `sent` values were broadcast before the receiver ran
    (`closed` = every sender dropped).  `none` = still pending. -/
def getStatus (cap : Nat) (sent : List Status) (closed : Bool) : Option Status :=
  if sent.isEmpty then (if closed then some .exited else none)
  else if sent.length ≤ cap then sent.head?
  else sent[sent.length - cap]?

/-- A request: virtual time (ms) and status.  Requests are listed in the order they were issued
    (times non-decreasing). -/
abbrev Req := Nat × Status

/-- the timeout task `sleep(d); shut_down_with_status(TimedOut)`: its request is issued at
    instant `d`, after every request issued before `d` (requests are listed in issue order) -/
def insertTimeout (d : Nat) : List Req → List Req
  | [] => [(d, .timedOut)]
  | r :: rs => if r.1 < d then r :: insertTimeout d rs else (d, .timedOut) :: r :: rs

def withTimeout (reqs : List Req) : Option Nat → List Req
  | none => reqs
  | some d => insertTimeout d reqs

/-- the burst the receiver sees when it first runs after a request: every request issued at the
    same virtual instant as the first one -/
def firstBurst : List Req → List Req
  | [] => []
  | r :: rs => r :: rs.takeWhile (fun x => x.1 == r.1)

/-- `run_internet(machines, timeout)`: (virtual time of return, status); `none` = never returns.
    Requests at exactly the timeout instant are excluded by the callers (their order relative to
    the timeout task is a scheduler matter). -/
def runInternet (cap : Nat) (reqs : List Req) (timeout : Option Nat) (closes : Bool) : Option (Nat × Status) :=
  let all := withTimeout reqs timeout
  match firstBurst all with
  | [] => if closes then some (0, .exited) else none
  | r :: rs =>
    match getStatus cap ((r :: rs).map (·.2)) false with
    | some s =>
      -- `first_status.get().cloned().unwrap_or(result)`: the set-once cell holds the status of
      -- the first request (whether the source uses it is extracted: `Gen.firstStatusCellUsed`)
      some (r.1, if Elvis.Gen.firstStatusCellUsed then r.2 else s)
    | none => none

/-- `run_internet_with_timeout(machines, d)`: the outer `timeout(d + 1 s)` guard -/
def runInternetWithTimeout (cap : Nat) (reqs : List Req) (d : Nat) (closes : Bool) : Nat × Status :=
  match runInternet cap reqs (some d) closes with
  | some (t, s) =>
    if t ≤ d + Elvis.Gen.outerTimeoutSlackMs then (t, s) else (d + Elvis.Gen.outerTimeoutSlackMs, .timedOut)
  | none => (d + Elvis.Gen.outerTimeoutSlackMs, .timedOut)

end Elvis.Sim
