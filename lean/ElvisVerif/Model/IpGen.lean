/-
Model of `elvis::ip_generator::{IpGenerator, IpRange, add, next}` (sim/elvis/src/ip_generator.rs)
and of the few pieces of `elvis_core::protocols::arp::subnetting::{Ipv4Mask, Ipv4Net}` it uses
(`from_bitcount`, `Ipv4Net::new`, `new_1`, `id`, `broadcast`, `From<Ipv4Net> for IpRange`).

Function by function, same branches, same order of effects.  `u32` values are `Nat` (range
predicate `Bounded` lives in the lemmas), `&mut self` methods return the new generator, every
checked `+` and every `expect` is an `Except` error (`panic:<kind>:<site>`).
`BTreeSet<IpRange>` = list sorted strictly by the derived lexicographic `(start, end)` order
(`insert` keeps it sorted and duplicate free; iteration order of the set = list order).

Quirks mirrored, not corrected:
* `return_*` is a plain set insert: free ranges may overlap and are never merged;
* `is_available(net)` answers `true` exactly when NO free range contains the net;
* `block_range` only creates the left/right remainder when `range.start > 0` /
  `range.end < 255.255.255.255` and drops empty remainders;
* empty ranges (`end < start`) may sit in the set (e.g. `new_sub_no_ends` of a /31 or /32).

No imports: this file is linked into the native driver.
-/
namespace Elvis.IpGen

/-- `u32::MAX` = 255.255.255.255 -/
def U32MAX : Nat := 4294967295

/-- `IpRange { start, end }`, inclusive. -/
abbrev Range := Nat × Nat

/-- `#[derive(PartialOrd, Ord)]` on `IpRange`: lexicographic on `(start, end)`;
    `Ipv4Address` orders like its big-endian `u32`. -/
def Range.lt (a b : Range) : Bool := a.1 < b.1 || (a.1 == b.1 && a.2 < b.2)

/-- `IpRange::overlaps` -/
def overlaps (s o : Range) : Bool := s.1 ≤ o.2 && s.2 ≥ o.1
/-- `IpRange::contains` -/
def contains (s o : Range) : Bool := s.1 ≤ o.1 && o.2 ≤ s.2
/-- `IpRange::is_empty` -/
def isEmpty (s : Range) : Bool := s.2 < s.1

/-- `fn add(ip, n: i32) -> Option<Ipv4Address>` = `ip.to_u32().checked_add_signed(n)` -/
def add (ip : Nat) (n : Int) : Option Nat :=
  match n with
  | Int.ofNat k => if ip + k ≤ U32MAX then some (ip + k) else none
  | Int.negSucc k => if k + 1 ≤ ip then some (ip - (k + 1)) else none

/-! ### subnetting pieces -/

/-- `Ipv4Mask::from_bitcount` (with its `clamp(size, 0, 32)`); result is the mask as `u32` -/
def fromBitcount (size : Nat) : Nat :=
  let size := if size > 32 then 32 else size
  if size == 0 then 0
  else if size == 32 then 0xFFFFFFFF
  else ((1 <<< size) - 1) <<< (32 - size)

/-- `Ipv4Net { network_id, mask }` -/
structure Net where
  id : Nat
  mask : Nat
deriving Repr, DecidableEq

/-- `Ipv4Net::new(ip, mask)`: `network_id = ip & mask` -/
def Net.new (ip mask : Nat) : Net := { id := ip &&& mask, mask := mask }
/-- `Ipv4Net::new_short(ip, len)` -/
def Net.newShort (ip len : Nat) : Net := Net.new ip (fromBitcount len)
/-- `Ipv4Net::new_1(ip)` -/
def Net.new1 (ip : Nat) : Net := { id := ip, mask := fromBitcount 32 }

/-- `Ipv4Net::broadcast`: `id + !mask`, a checked `u32` addition -/
def Net.broadcast (n : Net) : Except String Nat :=
  if n.id + (U32MAX - n.mask) > U32MAX then .error "panic:add-overflow:Ipv4Net::broadcast"
  else .ok (n.id + (U32MAX - n.mask))

/-- `impl From<Ipv4Net> for IpRange` -/
def Net.toRange (n : Net) : Except String Range :=
  match n.broadcast with
  | .error e => .error e
  | .ok b => .ok (n.id, b)

/-! ### the BTreeSet -/

/-- `BTreeSet::insert` -/
def insert (r : Range) : List Range → List Range
  | [] => [r]
  | x :: xs =>
    if Range.lt r x then r :: x :: xs
    else if r == x then x :: xs
    else x :: insert r xs

/-- `BTreeSet::remove` -/
def remove (r : Range) (l : List Range) : List Range := l.filter (fun x => x != r)

/-- `IpGenerator { available_ranges }` -/
abbrev Gen := List Range

/-- `IpGenerator::none` -/
def none_ : Gen := []

/-- `IpGenerator::return_range` -/
def returnRange (g : Gen) (r : Range) : Gen := insert r g

/-- `IpGenerator::new` -/
def new (r : Range) : Gen := returnRange none_ r

/-- `IpGenerator::new_sub` -/
def newSub (net : Net) : Except String Gen :=
  match net.broadcast with
  | .error e => .error e
  | .ok b => .ok (new (net.id, b))

/-- `IpGenerator::new_sub_no_ends` as of the `fix:` commit (`end = broadcast - 1`). -/
def newSubNoEnds (net : Net) : Except String Gen :=
  let start := add net.id 1
  match net.broadcast with
  | .error e => .error e
  | .ok b =>
    let end_ := add b (-1)
    match start, end_ with
    | some s, some e => .ok (new (s, e))
    | _, _ => .ok none_

/-- `IpGenerator::new_sub_no_ends` as it was before the fix (F-C15-1): `end = id - 1`. -/
def newSubNoEndsOrig (net : Net) : Except String Gen :=
  let start := add net.id 1
  let end_ := add net.id (-1)
  match start, end_ with
  | some s, some e => .ok (new (s, e))
  | _, _ => .ok none_

/-- `IpGenerator::all` -/
def all : Gen := new (0, U32MAX)

/-- body of the `for av_range in overlapping` loop of `block_range` -/
def splitStep (range : Range) (s : Gen) (av : Range) : Except String Gen :=
  let s0 := remove av s
  let left : Except String Gen :=
    if range.1 > 0 then
      match add range.1 (-1) with
      | none => .error "panic:expect:block_range.left_end"
      | some leftEnd =>
        let leftRange : Range := (av.1, leftEnd)
        .ok (if !isEmpty leftRange then insert leftRange s0 else s0)
    else .ok s0
  match left with
  | .error e => .error e
  | .ok s1 =>
    if range.2 < U32MAX then
      match add range.2 1 with
      | none => .error "panic:expect:block_range.right_start"
      | some rightStart =>
        let rightRange : Range := (rightStart, av.2)
        .ok (if !isEmpty rightRange then insert rightRange s1 else s1)
    else .ok s1

def foldSplit (range : Range) : Gen → List Range → Except String Gen
  | s, [] => .ok s
  | s, av :: rest =>
    match splitStep range s av with
    | .error e => .error e
    | .ok s' => foldSplit range s' rest

/-- `IpGenerator::block_range` -/
def blockRange (g : Gen) (range : Range) : Except String Gen :=
  let g1 := g.filter (fun av => !contains range av)          -- retain
  let overlapping := g1.filter (fun av => overlaps av range)  -- snapshot, set order
  foldSplit range g1 overlapping

/-- `IpGenerator::block_subnet` -/
def blockSubnet (g : Gen) (net : Net) : Except String Gen :=
  match net.toRange with
  | .error e => .error e
  | .ok r => blockRange g r

/-- `IpGenerator::return_subnet` -/
def returnSubnet (g : Gen) (net : Net) : Except String Gen :=
  match net.toRange with
  | .error e => .error e
  | .ok r => .ok (returnRange g r)

/-- `IpGenerator::return_ip` -/
def returnIp (g : Gen) (ip : Nat) : Except String Gen := returnSubnet g (Net.new1 ip)

/-- `fn next(ip, mask) -> Option<Ipv4Net>` -/
def next (ip mask : Nat) : Except String (Option Net) :=
  let net := Net.new ip mask
  if net.id == ip then .ok (some net)
  else
    match net.broadcast with
    | .error e => .error e
    | .ok b =>
      match add b 1 with
      | none => .ok none
      | some ip' => .ok (some (Net.new ip' mask))

/-- the `for av_range in ranges` loop of `fetch_net` (`ranges` = snapshot of the set) -/
def fetchLoop (g : Gen) (mask : Nat) : List Range → Except String (Gen × Option Net)
  | [] => .ok (g, none)
  | av :: rest =>
    match next av.1 mask with
    | .error e => .error e
    | .ok none => fetchLoop g mask rest
    | .ok (some newNet) =>
      match newNet.toRange with
      | .error e => .error e
      | .ok r =>
        if contains av r then
          match blockRange g r with
          | .error e => .error e
          | .ok g' => .ok (g', some newNet)
        else fetchLoop g mask rest

/-- `IpGenerator::fetch_net` -/
def fetchNet (g : Gen) (mask : Nat) : Except String (Gen × Option Net) := fetchLoop g mask g

/-- `IpGenerator::fetch_ip` -/
def fetchIp (g : Gen) : Except String (Gen × Option Nat) :=
  match fetchNet g (fromBitcount 32) with
  | .error e => .error e
  | .ok (g', r) => .ok (g', r.map (·.id))

/-- `IpGenerator::is_available` — as coded: `!any(contains)` -/
def isAvailable (g : Gen) (net : Net) : Except String Bool :=
  match net.toRange with
  | .error e => .error e
  | .ok r => .ok (!g.any (fun av => contains av r))

/-- the 17 calls of `block_reserved_ips`, as `(a.b.c.d as u32, bitcount)` -/
def reservedNets : List (Nat × Nat) :=
  [ (0x00000000, 8), (0x0A000000, 8), (0x64400000, 10), (0x7F000000, 8), (0xA9FE0000, 16),
    (0xAC100000, 12), (0xC0000000, 24), (0xC0000200, 24), (0xC0586300, 24), (0xC0A80000, 16),
    (0xC6120000, 15), (0xC6336400, 24), (0xCB007100, 24), (0xE0000000, 4), (0xE9FC0000, 24),
    (0xF0000000, 4), (0xFFFFFFFF, 32) ]

def blockMany : Gen → List (Nat × Nat) → Except String Gen
  | g, [] => .ok g
  | g, (ip, len) :: rest =>
    match blockSubnet g (Net.newShort ip len) with
    | .error e => .error e
    | .ok g' => blockMany g' rest

/-- `IpGenerator::block_reserved_ips` -/
def blockReservedIps (g : Gen) : Except String Gen := blockMany g reservedNets

/-- `IpGenerator::blocked_out` -/
def blockedOut : Except String Gen := blockReservedIps all

end Elvis.IpGen
