import ElvisVerif.Props.C03FinData
/-!
# C01 — stream safety and exactly-once when the applications call `close()`

`c01_safety` / `c01_exactly_once` (`Props/C01Safety.lean`) quantify over runs in which nobody closes (no FIN
is ever formed; every TCB stays in SYN-SENT / SYN-RECEIVED / ESTABLISHED).  The theorems here remove that
restriction: `Fin.FinRun` adds `close` by either side at any time.  Proof: the stream invariant
generalised to all eleven states (`Lemmas/TcpFinInv.lean` … `Lemmas/TcpFinRun.lean`).
-/
namespace Elvis.Tcp
open Elvis.ModCmp Elvis.Tcp.Tcb Elvis.Tcp.Fin

/-- **C01 safety with `close()`**: any run of C01 ops from the empty system (`C01.RunOk`: `open` / `listen`
    of a still unused side at any point, writes of any size in any state, reads, ticks, emits, drops,
    deliveries of ANY history element to the endpoint it is addressed to) followed by any `FinRun` (the
    same ops without `open` / `listen`, plus `close` by either side at any time), H31 on the final logs
    (fewer than 2^31 bytes submitted per direction): `delivered_B` is a prefix of `submitted_A` and
    `delivered_A` is a prefix of `submitted_B`; and when an endpoint's state shows FIN received
    (CLOSE-WAIT, LAST-ACK, CLOSING, TIME-WAIT), what it has delivered and buffered is ALL the peer
    submitted. -/
theorem c01_safety_with_close (iss : SideId → Seq) (ops : List Op) (hok : C01.RunOk iss {} ops)
    (sys0 sys : Sys) (rs : List Res) (e : Sys.run {} ops = .ok (sys0, rs)) (hrun : FinRun sys0 sys)
    (h31 : C01.Lt31 sys) :
    sys.b.delivered <+: sys.a.submitted ∧ sys.a.delivered <+: sys.b.submitted ∧
    ∀ x t, (sys.side x).tcb = some t → finRcvd t.state = true →
      (sys.side x).delivered ++ t.incoming.text = (sys.side x.peer).submitted := by
  have hi := InvF.of_inv (C01.run_inv (C01.Inv.init iss) hok e (Lt31.of_finRun hrun h31))
  obtain ⟨fin, h, _⟩ := finRun_inv hi hrun h31
  exact ⟨(h.side .B).pre, (h.side .A).pre, fun x t ht hf => (C03.eof_of_invF h x t ht hf).1⟩

/-- **exactly-once with `close()`** (same runs): for a TCB of side `x` out of SYN-SENT,
    `delivered_x ++ buffered` is a prefix of `submitted_peer` and
    `RCV.NXT = ISS_peer + 1 + |delivered_x ++ buffered| + [state shows FIN received]`: one sequence number per
    byte, each byte once, one for the SYN, one for the FIN. -/
theorem c01_exactly_once_with_close (iss : SideId → Seq) (ops : List Op) (hok : C01.RunOk iss {} ops)
    (sys0 sys : Sys) (rs : List Res) (e : Sys.run {} ops = .ok (sys0, rs)) (hrun : FinRun sys0 sys)
    (h31 : C01.Lt31 sys) (x : SideId) (t : Tcb) (ht : (sys.side x).tcb = some t) (hns : t.state ≠ .SynSent) :
    (sys.side x).delivered ++ t.incoming.text <+: (sys.side x.peer).submitted ∧
    t.rcv.nxt = iss x.peer + 1 + BitVec.ofNat 32
      ((sys.side x).delivered.length + t.incoming.text.length + (finRcvd t.state).toNat) := by
  have hi := InvF.of_inv (C01.run_inv (C01.Inv.init iss) hok e (Lt31.of_finRun hrun h31))
  obtain ⟨fin, h, _⟩ := finRun_inv hi hrun h31
  obtain ⟨i, _⟩ := (h.side x).tcb t ht
  exact ⟨(i.rcv1 hns).2, (i.rcv1 hns).1⟩

/-! ## non-vacuity -/

def closeCheck : Bool :=
  C01.runOkB (issOf 1000 5000) {} [.open .A 1000 1500, .listen .B 5000 1500] &&
  match Sys.run {} [.open .A 1000 1500, .listen .B 5000 1500] with
  | .ok (sys0, _) =>
    match finRunB sys0 (C03.finOps ++ [.deliver .B 3, .read .B, .close .B, .emit .B, .deliver .A 7]) with
    | some s =>
      decide (s.a.submitted.length < 2147483648) && decide (s.b.submitted.length < 2147483648) &&
      s.b.delivered == [1, 2, 3] && s.a.submitted == [1, 2, 3] &&
      (match s.a.tcb, s.b.tcb with
        | some ta, some tb => ta.state == .TimeWait && tb.state == .LastAck
        | _, _ => false)
    | none => false
  | .error _ => false

/-- the hypotheses of `c01_safety_with_close` on a run with closes on both sides: A writes `[1, 2, 3]` and closes,
    its FIN overtakes the data, B reads everything, closes, and its FIN (acknowledging A's) takes A to
    TIME-WAIT -/
example : ∃ sys0 s : Sys, ∃ rs, C01.RunOk (issOf 1000 5000) {} [.open .A 1000 1500, .listen .B 5000 1500] ∧
    Sys.run {} [.open .A 1000 1500, .listen .B 5000 1500] = .ok (sys0, rs) ∧ FinRun sys0 s ∧ C01.Lt31 s ∧
    s.b.delivered = [1, 2, 3] ∧ s.a.submitted = [1, 2, 3] := by
  have key : closeCheck = true := by decide
  unfold closeCheck at key
  rw [Bool.and_eq_true] at key
  obtain ⟨k0, key⟩ := key
  split at key
  · rename_i sys0 rs e0
    split at key
    · rename_i s e1
      simp only [Bool.and_eq_true, decide_eq_true_eq, beq_iff_eq] at key
      exact ⟨sys0, s, rs, C01.runOkB_sound k0, e0, finRunB_sound _ _ _ e1, ⟨key.1.1.1.1, key.1.1.1.2⟩, key.1.1.2, key.1.2⟩
    · simp at key
  · simp at key

end Elvis.Tcp
