#!/usr/bin/env python3
"""Source -> Lean extraction (run on every check).

Reads /repo's *current* Rust sources and (re)writes lean/ElvisVerif/Generated/*.lean:
numeric constants, the one-expression arithmetic kernels, and structural certificates.
Fails closed: anything it cannot translate is an error (reported by ./check as a broken tie).
Files are rewritten only when their content changes, so Lean's build cache stays valid.
"""
import os, re, sys

REPO = os.environ.get("ELVIS_REPO") or os.path.normpath(os.path.join(os.path.dirname(os.path.abspath(__file__)), "..", "..", "repo"))
CORE = os.path.join(REPO, "sim", "elvis-core", "src")
ELVIS = os.path.join(REPO, "sim", "elvis", "src")
OUT = os.path.join(os.path.dirname(os.path.abspath(__file__)), "..", "lean", "ElvisVerif", "Generated")


class ExtractError(Exception):
    pass


def read(path):
    with open(path) as f:
        return f.read()


def strip_comments(src):
    src = re.sub(r"/\*.*?\*/", "", src, flags=re.S)
    return re.sub(r"//[^\n]*", "", src)


def write_if_changed(name, text):
    p = os.path.join(OUT, name)
    os.makedirs(OUT, exist_ok=True)
    if os.path.exists(p) and read(p) == text:
        return
    with open(p, "w") as f:
        f.write(text)


def check_message_immutability():
    """C07 structural certificate: message/ holds no unsafe code, no in-place mutation of shared
    chunk storage and no interior mutability."""
    bad = []
    files = [os.path.join(CORE, "message.rs")] + [os.path.join(CORE, "message", f) for f in sorted(os.listdir(os.path.join(CORE, "message")))]
    for p in files:
        src = strip_comments(read(p)).split("#[cfg(test)]")[0]
        for tok in ("unsafe", "get_mut(", "make_mut(", "RefCell", "Cell<", "Mutex", "RwLock", "Atomic", "as_mut_ptr", "get_mut_unchecked"):
            if tok in src:
                bad.append(f"{os.path.relpath(p, REPO)}: `{tok}`")
    if bad:
        raise ExtractError("message/ is no longer evidently immutable-by-construction: " + "; ".join(bad))


def fn_body(src, start):
    """text of the brace-balanced block that starts at the first '{' at or after `start`"""
    j = src.index("{", start)
    d = 0
    for k in range(j, len(src)):
        if src[k] == "{":
            d += 1
        elif src[k] == "}":
            d -= 1
            if d == 0:
                return src[j:k + 1]
    raise ExtractError("unbalanced braces")


SEND_LIKE = ["send(", "send_pci(", ".open(", "open_and_listen(", "open_for_sending(", "connect(", "spawn(", "send_message(", "send_to(", "resolve("]


def gen_sim_cert():
    """C13: per `Protocol::start` implementation: number of barrier waits and whether a
    frame-producing call precedes the wait; barrier sizing; shutdown channel capacity; outer
    timeout slack."""
    import glob
    rows = []
    files = sorted(glob.glob(os.path.join(CORE, "**", "*.rs"), recursive=True) + glob.glob(os.path.join(ELVIS, "**", "*.rs"), recursive=True))
    for p in files:
        src = strip_comments(read(p))
        if "impl Protocol for" not in src:
            continue
        for m in re.finditer(r"impl\s+Protocol\s+for\s+([A-Za-z0-9_<>:, ]+?)\s*\{", src):
            impl = fn_body(src, m.end() - 1)
            sm = re.search(r"async\s+fn\s+start\s*\(", impl)
            if not sm:
                raise ExtractError(f"{p}: impl Protocol for {m.group(1)} has no async fn start")
            sig_end = impl.index(")", sm.end())
            # skip to the body: first '{' after the return type
            body = fn_body(impl, impl.index("StartError", sig_end))
            waits = len(re.findall(r"\.wait\(\)\s*\.await", body))
            pre = re.split(r"\.wait\(\)\s*\.await", body)[0] if waits else body
            send_before = any(t in pre for t in SEND_LIKE)
            name = os.path.relpath(p, os.path.join(REPO, "sim")) + "::" + re.sub(r"\s+", "", m.group(1))
            rows.append((name, waits, send_before))
    if len(rows) < 10:
        raise ExtractError("found suspiciously few Protocol implementations: %d" % len(rows))
    inet = re.sub(r"\s+", " ", strip_comments(read(os.path.join(CORE, "internet.rs"))))
    mach = re.sub(r"\s+", " ", strip_comments(read(os.path.join(CORE, "machine.rs"))))
    shut = re.sub(r"\s+", " ", strip_comments(read(os.path.join(CORE, "shutdown.rs"))))
    sized = bool(re.search(r"let total_protocols: usize = machines \.iter\(\) \.map\(\|machine\| machine\.protocol_count\(\)\) \.sum\(\);", inet)) \
        and "Barrier::new(total_protocols)" in inet \
        and bool(re.search(r"for machine in machines \{.*?handles\.spawn\(machine\.start\(shutdown, initialized\)\);", inet))
    per_proto = bool(re.search(r"for protocol in self\.iter\(\) \{.*?\.start\(shutdown_clone, initialized_clone, self_clone\).*?handles\.spawn\(fut\);", mach)) \
        and bool(re.search(r"pub fn protocol_count\(&self\) -> usize \{ self\.protocols\.len\(\) \}", mach)) \
        and bool(re.search(r"pub fn iter\(&self\).*?\{ self\.protocols\.values\(\)", mach))
    mcap = re.search(r"broadcast::channel\((\d+)\)", shut)
    if not mcap:
        raise ExtractError("shutdown.rs: broadcast::channel(<literal>) not found")
    mslack = re.search(r"tokio::time::timeout\(duration \+ Duration::from_secs\((\d+)\), future\)", inet)
    if not mslack:
        raise ExtractError("internet.rs: outer timeout(duration + Duration::from_secs(<literal>)) not found")
    receiver_first = inet.find("shutdown.clone().receiver()") != -1 and inet.find("shutdown.clone().receiver()") < inet.find("handles.spawn(machine.start")
    cell = ("let _ = self.first.set(ExitStatus::Exited);" in shut and "let _ = self.first.set(status.clone());" in shut
            and inet.count("first_status.get().cloned().unwrap_or(result)") >= 2
            and inet.find("let first_status = shutdown.first_status();") != -1
            and inet.find("let first_status = shutdown.first_status();") < inet.find("handles.spawn(machine.start"))
    lines = ["-- GENERATED from /repo sources by tools/extract.py on every check; do not edit",
             "namespace Elvis.Gen",
             "structure StartCert where", "  name : String", "  waits : Nat", "  sendBeforeWait : Bool", "deriving Repr, DecidableEq", "",
             "/-- one row per `impl Protocol for T`: barrier waits in `start`, frame-producing call before the wait -/",
             "def startRoutines : List StartCert := ["]
    lines.append(",\n".join(f'  ⟨"{n}", {w}, {"true" if sb else "false"}⟩' for n, w, sb in rows))
    lines += ["]", "",
              f"def barrierSizedByProtocolCount : Bool := {'true' if sized else 'false'}",
              f"def machineSpawnsStartPerProtocol : Bool := {'true' if per_proto else 'false'}",
              f"def shutdownReceiverCreatedBeforeStart : Bool := {'true' if receiver_first else 'false'}",
              "/-- run_internet returns the set-once first-request status when one exists -/",
              f"def firstStatusCellUsed : Bool := {'true' if cell else 'false'}",
              f"def shutdownChannelCapacity : Nat := {mcap.group(1)}",
              f"def outerTimeoutSlackMs : Nat := {int(mslack.group(1)) * 1000}",
              "end Elvis.Gen", ""]
    write_if_changed("SimCert.lean", "\n".join(lines))


def gen_router_cert():
    """C16: TTL handling of `ArpRouter::demux` translated statement by statement into a Lean
    kernel, structural facts about the forwarding path (one send site, no loop, lookup by
    destination, next hop = gateway or destination, ARP on the outgoing slot), the default TTL of
    `Ipv4HeaderBuilder::new`, header constants and the ARP retry budget.  Fails closed."""
    path = os.path.join(ELVIS, "applications", "arp_router.rs")
    src = strip_comments(read(path))
    m = re.search(r"impl\s+Protocol\s+for\s+ArpRouter\s*\{", src)
    if not m:
        raise ExtractError("arp_router.rs: impl Protocol for ArpRouter not found")
    impl = fn_body(src, m.end() - 1)
    dm = re.search(r"fn\s+demux\s*\(", impl)
    if not dm:
        raise ExtractError("arp_router.rs: fn demux not found")
    body = fn_body(impl, impl.index("DemuxError>", dm.end()))
    flat = re.sub(r"\s+", " ", body)
    # the header copy that is modified and re-serialised (any variable name)
    mh = re.search(r"let mut (\w+) = \*control\.get::<Ipv4Header>\(\)\.ok_or\(DemuxError::Other\)\?;", flat)
    if not mh:
        raise ExtractError("arp_router.rs: demux no longer copies the Ipv4Header out of the control block in the recognised form")
    var = mh.group(1)
    ser = flat.find(var + ".serialize()", mh.end())
    if ser < 0:
        raise ExtractError("arp_router.rs: demux no longer re-serialises the header")
    # the TTL zone ends where the statement containing `.serialize()` starts
    zone_end = max(flat.rfind(";", mh.end() - 1, ser), flat.rfind("}", mh.end() - 1, ser)) + 1
    ttl_part = flat[mh.end():zone_end].strip()
    V = re.escape(var)
    # statement grammar of the TTL handling
    stmts = []
    rest = ttl_part
    while rest:
        m0 = re.match(r"tracing::\w+!\([^;]*\); ?", rest)
        m1 = re.match(V + r"\.time_to_live -= (\d+); ?", rest) or re.match(V + r"\.time_to_live = " + V + r"\.time_to_live - (\d+); ?", rest)
        m2 = re.match(r"if " + V + r"\.time_to_live (==|<=|<) (\d+) \{ (?:tracing::\w+!\([^;]*\); )?return Ok\(\(\)\); \} ?", rest)
        m3 = re.match(V + r"\.time_to_live = " + V + r"\.time_to_live\.(saturating_sub|wrapping_sub)\((\d+)\); ?", rest)
        if m0:
            rest = rest[m0.end():]
        elif m1:
            stmts.append(("sub", int(m1.group(1))))
            rest = rest[m1.end():]
        elif m2:
            stmts.append(("drop", m2.group(1), int(m2.group(2))))
            rest = rest[m2.end():]
        elif m3:
            stmts.append((m3.group(1), int(m3.group(2))))
            rest = rest[m3.end():]
        else:
            raise ExtractError("arp_router.rs: TTL handling of ArpRouter::demux is outside the translatable statement grammar: `%s`" % rest[:120])
    lean_lines = []
    for st in stmts:
        if st[0] == "sub":
            lean_lines.append(f'  if ttl < {st[1]} then .error "panic:sub:ArpRouter::demux:time_to_live" else')
            lean_lines.append(f"  let ttl := ttl - {st[1]}")
        elif st[0] == "saturating_sub":
            lean_lines.append(f"  let ttl := ttl - {st[1]}")
        elif st[0] == "wrapping_sub":
            lean_lines.append(f"  let ttl := (ttl + 256 - {st[1]} % 256) % 256")
        else:
            op = {"==": "==", "<=": "≤", "<": "<"}[st[1]]
            cond = f"ttl == {st[2]}" if st[1] == "==" else f"decide (ttl {op} {st[2]})"
            lean_lines.append(f"  if {cond} then .ok none else")
    lean_lines.append("  .ok (some ttl)")
    after = flat[zone_end:]
    loops = len(re.findall(r"\b(for|while|loop)\b", flat))
    sends = flat.count("send_pci(")
    spawns = flat.count("tokio::spawn(")
    # structural facts, tolerant of local renames
    by_dest = bool(re.search(r"\.get_recipient\(\s*" + V + r"\.destination\s*\)", after))
    gw_or_dest = bool(re.search(r"match (\w+)\.0 \{ Some\((\w+)\) => \2, None => " + V + r"\.destination,? \}", after)) \
        or bool(re.search(r"\w+\.0\.unwrap_or\(\s*" + V + r"\.destination\s*\)", after))
    mres = re.findall(r"\.resolve\(\s*\w+\s*,\s*(\w+)\s*,", after)
    mopen = re.findall(r"\.open\(\s*(\w+)\s*\)", after)
    msend = re.findall(r"\.send_pci\(\s*\w+\s*,\s*Some\(\s*\w+\s*\)\s*,\s*TypeId::of::<Ipv4>\(\)\s*\)", after)
    mloc = re.findall(r"local: self\.local_ips\[(\w+) as usize\]", after)
    arp_on_slot = len(mres) == 1 and len(mopen) == 1 and len(msend) == 1 and len(mloc) == 1 and mres[0] == mopen[0] == mloc[0]
    start = re.sub(r"\s+", " ", fn_body(impl, impl.index("StartError>", re.search(r"async\s+fn\s+start\s*\(", impl).end())))
    wild = [pn for pn, name in ((6, "TCP"), (17, "UDP"))
            if re.search(r"ipv4\.listen\( self\.id\(\), Ipv4Address::CURRENT_NETWORK, machine(\.clone\(\))?, ProtocolNumber::%s, \)" % name, start)]
    arp_listens = "for ip in self.local_ips.iter() { arp.listen(*ip); }" in start
    # Ipv4 header constants and default TTL
    prs = strip_comments(read(os.path.join(CORE, "protocols", "ipv4", "ipv4_parsing.rs")))
    mw = re.search(r"const BASE_WORDS: u8 = (\d+);", prs)
    mo = re.search(r"const BASE_OCTETS: u16 = BASE_WORDS as u16 \* (\d+);", prs)
    mf = re.search(r"const FRAGMENT_OFFSET_MASK: u16 = (0x[0-9a-fA-F_]+|\d+);", prs)
    nb = re.search(r"pub fn new\( source: Ipv4Address, destination: Ipv4Address, protocol: u8, payload_length: u16, \) -> Self \{ Self \{(.*?)\} \}", re.sub(r"\s+", " ", prs))
    mt = nb and re.search(r"time_to_live: (\d+),", nb.group(1))
    ser = "payload_length: self.total_length - BASE_OCTETS," in re.sub(r"\s+", " ", prs)
    if not (mw and mo and mf and mt):
        raise ExtractError("ipv4_parsing.rs: BASE_WORDS / BASE_OCTETS / FRAGMENT_OFFSET_MASK / default time_to_live not found")
    arp = strip_comments(read(os.path.join(CORE, "protocols", "arp.rs")))
    mr = re.search(r"pub const RESEND_TRIES: u32 = (\d+);", arp)
    md = re.search(r"pub const RESEND_DELAY: Duration = Duration::from_millis\((\d+)\);", arp)
    if not (mr and md):
        raise ExtractError("arp.rs: RESEND_TRIES / RESEND_DELAY not found")
    b = lambda x: "true" if x else "false"
    lines = ["-- GENERATED from /repo sources by tools/extract.py on every check; do not edit",
             "namespace Elvis.Gen",
             "/-- TTL handling of `ArpRouter::demux`, statement by statement (dev profile: checked `-=`):",
             "    `.error` = panic, `.ok none` = `return Ok(())` (datagram dropped), `.ok (some t)` = forwarded with TTL t.",
             "    Source statements: " + "; ".join(" ".join(str(x) for x in st) for st in stmts) + " -/",
             "def routerTtlKernel (ttl : Nat) : Except String (Option Nat) :="] + lean_lines + ["",
             f"def routerDemuxSendSites : Nat := {sends}",
             f"def routerDemuxSpawns : Nat := {spawns}",
             f"def routerDemuxLoops : Nat := {loops}",
             f"def routerLooksUpDestination : Bool := {b(by_dest)}",
             f"def routerNextHopGatewayOrDestination : Bool := {b(gw_or_dest)}",
             f"def routerArpOnOutgoingSlotOneSend : Bool := {b(arp_on_slot)}",
             f"def routerWildcardListens : List Nat := [{', '.join(str(x) for x in wild)}]",
             f"def routerArpListensLocalIps : Bool := {b(arp_listens)}",
             f"def ipv4DefaultTtl : Nat := {mt.group(1)}",
             f"def ipv4BaseOctets : Nat := {int(mw.group(1)) * int(mo.group(1))}",
             f"def ipv4FragmentOffsetMask : Nat := {int(mf.group(1).replace('_', ''), 0)}",
             f"def ipv4SerializeSubtractsBaseOctets : Bool := {b(ser)}",
             f"def arpResendTries : Nat := {mr.group(1)}",
             f"def arpResendDelayMs : Nat := {md.group(1)}",
             "end Elvis.Gen", ""]
    write_if_changed("RouterCert.lean", "\n".join(lines))


def main():
    check_message_immutability()
    gen_sim_cert()
    gen_router_cert()
    consts = ["-- GENERATED from /repo sources by tools/extract.py on every check; do not edit", "namespace Elvis.Gen", "end Elvis.Gen", ""]
    write_if_changed("Consts.lean", "\n".join(consts))


if __name__ == "__main__":
    try:
        main()
    except ExtractError as e:
        print("EXTRACT-ERROR:", e)
        sys.exit(1)
