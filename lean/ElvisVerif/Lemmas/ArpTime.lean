import ElvisVerif.Lemmas.Arp
/-! Timing invariant of the retry loop of `Arp::resolve` (helper lemmas for C06). -/
namespace Elvis.Arp
open Elvis.Gen.Arp

/-- where a resolver stands in its retry budget -/
def TimeOk (neg : Bool) (mtu now : Nat) (r : Resolver) : Prop :=
  r.started ≤ now ∧
  match r.result with
  | none => now ≤ r.deadline ∧ r.deadline = r.started + r.sent * resendDelayUs ∧ 1 ≤ r.sent ∧ r.sent ≤ resendTries
  | some (st, t) => r.started ≤ t ∧ t ≤ now ∧ t ≤ r.started + resendTries * resendDelayUs ∧
      (st = .err → neg = false → packetSize ≤ mtu → t = r.started + resendTries * resendDelayUs ∧ r.sent = resendTries)

def TInv (s : Net) : Prop := ∀ r ∈ s.resolvers, TimeOk s.negCache s.mtu s.now r

theorem tableHit_err {neg : Bool} {e : Option Status} (h : tableHit neg e = some .err) : neg = true := by
  unfold tableHit at h
  split at h
  · simp at h
  · split at h
    · assumption
    · simp at h
  · simp at h

theorem Net.hit_err {s : Net} {k : Nat} {x : Ip} (h : s.hit k x = some .err) : s.negCache = true := by
  unfold Net.hit at h
  split at h
  · exact tableHit_err h
  · cases h

theorem Net.failMac_fields (s : Net) (k : Nat) (x : Ip) :
    (s.failMac k x).now = s.now ∧ (s.failMac k x).mtu = s.mtu ∧ (s.failMac k x).negCache = s.negCache ∧
    (s.failMac k x).resolvers = s.resolvers ∧ (s.failMac k x).wire = s.wire ∧ (s.failMac k x).panic = s.panic := by
  unfold Net.failMac; split <;> simp

theorem Net.roundOrFail_fields (s : Net) (r : Resolver) :
    (s.roundOrFail r).1.now = s.now ∧ (s.roundOrFail r).1.mtu = s.mtu ∧
    (s.roundOrFail r).1.negCache = s.negCache ∧ (s.roundOrFail r).1.resolvers = s.resolvers ∧
    (s.roundOrFail r).1.panic = s.panic ∧
    (s.roundOrFail r).2.started = r.started ∧ (s.roundOrFail r).2.mach = r.mach ∧
    (s.roundOrFail r).2.dest = r.dest ∧ (s.roundOrFail r).2.smac = r.smac ∧ (s.roundOrFail r).2.loc = r.loc := by
  unfold Net.roundOrFail
  split
  · split <;> simp
  · have := s.failMac_fields r.mach r.dest
    simp [this]

theorem mul_le_budget {n : Nat} (h : n ≤ resendTries) : n * resendDelayUs ≤ resendTries * resendDelayUs :=
  Nat.mul_le_mul_right _ h

/-- one iteration of the retry loop, started when the running time-out expires -/
theorem roundOrFail_time {s : Net} {r : Resolver} (h0 : r.started ≤ s.now) (hd : s.now = r.deadline)
    (he : r.deadline = r.started + r.sent * resendDelayUs) (hs : r.sent ≤ resendTries)
    (hr : r.result = none) :
    TimeOk s.negCache s.mtu s.now (s.roundOrFail r).2 := by
  have hb := mul_le_budget hs
  unfold Net.roundOrFail
  split
  · rename_i hlt
    split
    · refine ⟨h0, ?_⟩
      simp only [hr]
      refine ⟨by omega, ?_, by omega, by omega⟩
      rw [Nat.add_mul]; omega
    · rename_i hm
      refine ⟨h0, ?_⟩
      simp only
      exact ⟨h0, Nat.le_refl _, by omega, fun _ _ h => absurd h hm⟩
  · rename_i hge
    have hse : r.sent = resendTries := by omega
    refine ⟨h0, ?_⟩
    simp only
    refine ⟨h0, Nat.le_refl _, by omega, fun _ _ _ => ⟨?_, hse⟩⟩
    rw [← hse]; omega

theorem TInv.mono_fields {s s' : Net} (h : TInv s) (h1 : s'.resolvers = s.resolvers) (h2 : s'.now = s.now)
    (h3 : s'.mtu = s.mtu) (h4 : s'.negCache = s.negCache) : TInv s' := by
  intro r hr
  rw [h1] at hr
  rw [h2, h3, h4]
  exact h r hr

theorem TInv.listen {s : Net} (h : TInv s) (k : Nat) (ip : Ip) : TInv (s.listen k ip) := by
  unfold Net.listen; split
  · exact h.mono_fields rfl rfl rfl rfl
  · exact h

theorem TInv.setSubnet {s : Net} (h : TInv s) (k : Nat) (ip : Ip) (bits : Nat) (gw : Ip) :
    TInv (s.setSubnet k ip bits gw) := by
  unfold Net.setSubnet; split
  · exact h.mono_fields rfl rfl rfl rfl
  · exact h

theorem TInv.lose {s : Net} (h : TInv s) (fi : Nat) : TInv (s.lose fi) := by
  unfold Net.lose; split
  · exact h.mono_fields rfl rfl rfl rfl
  · exact h

theorem TInv.deliver {s : Net} (h : TInv s) (fi k slot : Nat) : TInv (s.deliver fi k slot) := by
  unfold Net.deliver
  split
  · split
    · split
      · exact h.mono_fields rfl rfl rfl rfl
      · exact h
    · exact h
  · exact h

theorem TInv.tick {s : Net} (h : TInv s) (dt : Nat) : TInv (s.tick dt) := by
  unfold Net.tick
  split
  · rename_i hc
    intro r hr
    have hr' : r ∈ s.resolvers := hr
    have h1 := h r hr'
    unfold Net.canTick at hc
    rw [List.all_eq_true] at hc
    have h2 := hc r hr'
    unfold TimeOk at h1 ⊢
    obtain ⟨h1a, h1b⟩ := h1
    refine ⟨by show r.started ≤ s.now + dt; omega, ?_⟩
    cases hres : r.result with
    | none =>
      simp only [hres] at h1b h2 ⊢
      simp only [Option.isSome_none, Bool.false_or, Bool.and_eq_true, decide_eq_true_eq] at h2
      exact ⟨h2.2, h1b.2⟩
    | some p =>
      obtain ⟨st, t⟩ := p
      simp only [hres] at h1b ⊢
      exact ⟨h1b.1, by show t ≤ s.now + dt; omega, h1b.2.2⟩
  · exact h

theorem TInv.setResolver {s : Net} (h : TInv s) (i : Nat) {r : Resolver}
    (hr : TimeOk s.negCache s.mtu s.now r) : TInv { s with resolvers := s.resolvers.set i r } := by
  intro r' hr'
  rcases List.mem_or_eq_of_mem_set hr' with h1 | h1
  · exact h r' h1
  · rw [h1]; exact hr

theorem TInv.wake {s : Net} (h : TInv s) (i : Nat) : TInv (s.wake i) := by
  unfold Net.wake
  split
  · rename_i r hr
    split
    · rename_i hres
      split
      · rename_i st hst
        refine h.setResolver i ?_
        have h1 := h r (List.mem_of_getElem? hr)
        unfold TimeOk at h1 ⊢
        simp only [hres] at h1
        obtain ⟨h1a, h1b, h1c, h1d, h1e⟩ := h1
        have hb := mul_le_budget h1e
        refine ⟨h1a, ?_⟩
        simp only
        refine ⟨h1a, Nat.le_refl _, by omega, fun he hn => ?_⟩
        subst he
        rw [Net.hit_err hst] at hn
        cases hn
      · exact h
    · exact h
  · exact h

theorem TInv.timeout {s : Net} (h : TInv s) (i : Nat) : TInv (s.timeout i) := by
  unfold Net.timeout
  split
  · rename_i r hr
    split
    · rename_i hc
      have h1 := h r (List.mem_of_getElem? hr)
      unfold TimeOk at h1
      simp only [hc.1] at h1
      obtain ⟨h1a, h1b, h1c, h1d, h1e⟩ := h1
      have ht := roundOrFail_time h1a hc.2.1 h1c h1e hc.1
      obtain ⟨f1, f2, f3, f4, _⟩ := s.roundOrFail_fields r
      intro r' hr'
      have hr'' : r' ∈ ((s.roundOrFail r).1.resolvers.set i (s.roundOrFail r).2) := hr'
      show TimeOk (s.roundOrFail r).1.negCache (s.roundOrFail r).1.mtu (s.roundOrFail r).1.now r'
      rw [f1, f2, f3]
      rw [f4] at hr''
      rcases List.mem_or_eq_of_mem_set hr'' with h2 | h2
      · exact h r' h2
      · rw [h2]; exact ht
    · exact h
  · exact h

theorem TInv.resolve {s : Net} (h : TInv s) (k : Nat) (loc remote : Ip) (slot : Nat) :
    TInv (s.resolve k loc remote slot) := by
  unfold Net.resolve
  split
  · exact h
  · rename_i m0 hm0
    dsimp only
    split
    · rename_i st hst
      intro r hr
      have hr' : r ∈ s.resolvers ++ [⟨k, 0, loc, destOf (m0.listen loc) loc remote, s.now, 0, s.now, some (st, s.now)⟩] := hr
      rcases List.mem_append.mp hr' with h1 | h1
      · exact h r h1
      · rw [List.mem_singleton.mp h1]
        refine ⟨Nat.le_refl _, Nat.le_refl _, Nat.le_refl _, by show s.now ≤ s.now + _; omega, fun he hn => ?_⟩
        subst he
        have : s.negCache = true := tableHit_err hst
        rw [this] at hn; cases hn
    · split
      · exact h.mono_fields rfl rfl rfl rfl
      · rename_i mac hmac
        let s1 : Net := { s with machines := s.machines.set k (m0.listen loc) }
        let r0 : Resolver := ⟨k, mac, loc, destOf (m0.listen loc) loc remote, s.now, 0, s.now, none⟩
        have ht : TimeOk s1.negCache s1.mtu s1.now (s1.roundOrFail r0).2 :=
          roundOrFail_time (s := s1) (r := r0) (Nat.le_refl _) rfl (by simp [r0]) (Nat.zero_le _) rfl
        obtain ⟨f1, f2, f3, f4, _⟩ := s1.roundOrFail_fields r0
        intro r' hr'
        have hr'' : r' ∈ (s1.roundOrFail r0).1.resolvers ++ [(s1.roundOrFail r0).2] := hr'
        show TimeOk (s1.roundOrFail r0).1.negCache (s1.roundOrFail r0).1.mtu (s1.roundOrFail r0).1.now r'
        rw [f1, f2, f3]
        rw [f4] at hr''
        rcases List.mem_append.mp hr'' with h2 | h2
        · exact h r' h2
        · rw [List.mem_singleton.mp h2]; exact ht

theorem TInv.step {s : Net} (h : TInv s) (l : Label) : TInv (step s l) := by
  unfold Elvis.Arp.step
  split
  · exact h
  · cases l with
    | listen k ip => exact h.listen k ip
    | setSubnet k ip bits gw => exact h.setSubnet k ip bits gw
    | resolve k loc remote slot => exact h.resolve k loc remote slot
    | deliver fi k slot => exact h.deliver fi k slot
    | lose fi => exact h.lose fi
    | wake i => exact h.wake i
    | timeout i => exact h.timeout i
    | tick dt => exact h.tick dt

theorem TInv.run {s : Net} (h : TInv s) (ls : List Label) : TInv (run s ls) := by
  induction ls generalizing s with
  | nil => exact h
  | cons l ls ih => exact ih (h.step l)

theorem TInv.init (neg : Bool) (slots : List Nat) (mtu : Nat) : TInv (initWith neg slots mtu) :=
  fun r hr => by simp [initWith] at hr

end Elvis.Arp
