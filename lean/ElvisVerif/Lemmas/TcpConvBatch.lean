import ElvisVerif.Lemmas.TcpConvEmit
/-!
# A loss-free, in-order batch of segments arrives at an ESTABLISHED endpoint

`InRun r gs`: every segment of `gs` is plain (ACK bit only) and is numbered exactly where the
previous one ended, starting at `r` — pure ACKs (no text) leave the number alone.  This is what a peer
emits in one `segments()` call when nothing is lost: its pure ACKs (numbered `SND.NXT`), then its new
data.

`arriveList_fwd`: delivered in order to an ESTABLISHED endpoint with an empty reorder heap whose
`RCV.NXT = r`, with room for all the text: every segment is taken at once; `RCV.NXT` advances by the
total text, the text is buffered, `SND.UNA` becomes the maximum of the ACK numbers seen, exactly the
segments beyond it stay on the retransmission queue, and (if text arrived) the last header queued is
a pure ACK for the new `RCV.NXT`.
-/
namespace Elvis.Tcp
open Elvis.ModCmp
namespace Tcb

/-- deliver a list of segments in order; `none`-like error if one of them panics or deletes the TCB -/
def arriveList (t : Tcb) : List Segment → Except String Tcb
  | [] => .ok t
  | g :: rest =>
    match t.segmentArrives g with
    | .error e => .error e
    | .ok (t1, .Ok) => arriveList t1 rest
    | .ok (_, .Close) => .error "closed"

/-- plain segments numbered contiguously from `r` -/
def InRun : Seq → List Segment → Prop
  | _, [] => True
  | r, g :: rest => g.hdr.seq = r ∧ g.hdr.ctl.rst = false ∧ g.hdr.ctl.syn = false ∧ g.hdr.ctl.fin = false ∧
      g.hdr.ctl.ack = true ∧ InRun (r + BitVec.ofNat 32 g.text.length) rest

/-- the largest ACK number (offset from `iss`) carried by the batch -/
def maxAck (iss : Seq) : List Segment → Nat
  | [] => 0
  | g :: rest => max (off iss g.hdr.ack) (maxAck iss rest)

theorem maxAck_le (iss : Seq) (R : Nat) (gs : List Segment) (h : ∀ g ∈ gs, off iss g.hdr.ack ≤ R) :
    maxAck iss gs ≤ R := by
  induction gs with
  | nil => simp [maxAck]
  | cons x xs ih =>
    simp only [maxAck]
    have := h x List.mem_cons_self
    have := ih (fun y hy => h y (List.mem_cons_of_mem _ hy))
    omega

/-- end of a queued segment -/
def txEnd (tr : Transmit) : Seq := tr.segment.hdr.seq + BitVec.ofNat 32 tr.segment.segLen

theorem keepFor_iff (iss una : Seq) (tr : Transmit) (N : Nat) (hN : N < 2147483648) (hu : off iss una ≤ N)
    (he : off iss (txEnd tr) ≤ N) : keepFor una tr = true ↔ off iss una < off iss (txEnd tr) := by
  unfold keepFor
  unfold txEnd at he ⊢
  exact modLt_iff_off iss una _ (by omega) (by omega)

/-- a later cumulative ACK subsumes an earlier one -/
theorem filter_keep_trans (iss : Seq) (l : List Transmit) (a a' : Seq) (N : Nat) (hN : N < 2147483648)
    (hl : ∀ tr ∈ l, off iss (txEnd tr) ≤ N) (ha : off iss a ≤ off iss a') (ha' : off iss a' ≤ N) :
    (l.filter (keepFor a)).filter (keepFor a') = l.filter (keepFor a') := by
  rw [List.filter_filter]
  apply List.filter_congr
  intro tr htr
  have h1 := keepFor_iff iss a tr N hN (by omega) (hl tr htr)
  have h2 := keepFor_iff iss a' tr N hN ha' (hl tr htr)
  cases hk : keepFor a' tr with
  | false => simp
  | true =>
    have := h2.1 hk
    have : keepFor a tr = true := h1.2 (by omega)
    simp [this]

theorem filter_keep_self (l : List Transmit) (una : Seq) (h : ∀ tr ∈ l, keepFor una tr = true) :
    l.filter (keepFor una) = l := List.filter_eq_self.2 h

/-- `mod_leq` in offsets below 2^31 -/
theorem modLeq_iff_off (base a b : Seq) (ha : off base a < 2147483648) (hb : off base b < 2147483648) :
    modLeq a b = true ↔ off base a ≤ off base b := by
  unfold modLeq
  rw [Bool.or_eq_true, modLt_iff_off base a b ha hb]
  constructor
  · rintro (h | h)
    · have : a = b := by simpa using h
      rw [this]; exact Nat.le_refl _
    · omega
  · intro h
    rcases Nat.lt_or_ge (off base a) (off base b) with hlt | hge
    · exact Or.inr hlt
    · left
      have he : off base a = off base b := Nat.le_antisymm h hge
      unfold off at he
      have : a - base = b - base := BitVec.eq_of_toNat_eq he
      have hab : a = b := by bv_omega
      rw [hab]; simp

structure BatchFx (iss : Seq) (t : Tcb) (gs : List Segment) (t' : Tcb) : Prop where
  st : t'.state = .Established
  heap : t'.incoming.segments = []
  nxt : t'.rcv.nxt = t.rcv.nxt + BitVec.ofNat 32 (segBytes gs)
  rwnd : t'.rcv.wnd = t.rcv.wnd
  text : t'.incoming.text = t.incoming.text ++ (gs.map (·.text)).flatten
  otext : t'.outgoing.text = t.outgoing.text
  snxt : t'.snd.nxt = t.snd.nxt
  mtu : t'.mtu = t.mtu
  una : off iss t'.snd.una = max (off iss t.snd.una) (maxAck iss gs)
  rtx : t'.outgoing.retransmit = t.outgoing.retransmit.filter (keepFor t'.snd.una)
  oneApp : ∃ L, t'.outgoing.oneshot = t.outgoing.oneshot ++ L
  oneSame : segBytes gs = 0 → t'.outgoing.oneshot = t.outgoing.oneshot
  oneLast : 0 < segBytes gs → ∃ h, t'.outgoing.oneshot.getLast? = some h ∧ h.ack = t'.rcv.nxt

theorem arriveList_fwd (iss : Seq) (R N : Nat) (hN : N < 2147483648) (hRN : R ≤ N) (gs : List Segment) :
    ∀ (t : Tcb), t.state = .Established → t.rcv.wnd = 65535#16 → t.incoming.segments = [] → t.snd.iss = iss →
      t.sent = N → off iss t.snd.una ≤ R → InRun t.rcv.nxt gs →
      (∀ g ∈ gs, 1 ≤ off iss g.hdr.ack ∧ off iss g.hdr.ack ≤ R) →
      t.incoming.text.length + segBytes gs ≤ 65535 →
      (∀ tr ∈ t.outgoing.retransmit, keepFor t.snd.una tr = true ∧ off iss (txEnd tr) ≤ N) →
      ∃ t', arriveList t gs = .ok t' ∧ BatchFx iss t gs t' := by
  induction gs with
  | nil =>
    intro t hst hw hheap hiss hsent hu hrun hack hfit hq
    refine ⟨t, rfl, hst, hheap, by simp, rfl, by simp, rfl, rfl, rfl, by simp [maxAck], ?_, ⟨[], by simp⟩, fun _ => rfl,
      fun h => by simp at h⟩
    exact (filter_keep_self _ _ (fun tr htr => (hq tr htr).1)).symm
  | cons g rest ih =>
    intro t hst hw hheap hiss hsent hu hrun hack hfit hq
    obtain ⟨hseq, hrst, hsyn, hfin, hackb, hrun'⟩ := hrun
    obtain ⟨ha1, ha2⟩ := hack g List.mem_cons_self
    have hsentN : off iss t.snd.nxt = N := by rw [← hsent, ← hiss]; rfl
    -- the ACK field is old or acceptable
    have hgood : modLeq g.hdr.ack t.snd.una = true ∨ modBounded t.snd.una .Lt g.hdr.ack .Leq t.snd.nxt = true := by
      rcases Nat.lt_or_ge (off iss t.snd.una) (off iss g.hdr.ack) with hlt | hge
      · exact Or.inr (bounded_of_off iss _ _ _ (by omega) hlt (by omega))
      · exact Or.inl ((modLeq_iff_off iss _ _ (by omega) (by omega)).2 hge)
    have hp : Plain t g.hdr := ⟨hrst, hsyn, hfin, hackb, hgood⟩
    -- the effect of the ACK field, in offsets
    have ackfx : ∀ t1, AckFx t g.hdr t1 →
        off iss t1.snd.una = max (off iss t.snd.una) (off iss g.hdr.ack) ∧
        t1.outgoing.retransmit = t.outgoing.retransmit.filter (keepFor t1.snd.una) := by
      intro t1 fx
      have hiff := modLeq_iff_off iss g.hdr.ack t.snd.una (by omega) (by omega)
      by_cases hle : modLeq g.hdr.ack t.snd.una = true
      · have hu1 : t1.snd.una = t.snd.una := by rw [fx.una, if_pos hle]
        have hr1 : t1.outgoing.retransmit = t.outgoing.retransmit := by rw [fx.rtx, if_pos hle]
        rw [hu1, hr1]
        exact ⟨by have := hiff.1 hle; omega, (filter_keep_self _ _ (fun tr htr => (hq tr htr).1)).symm⟩
      · have hu1 : t1.snd.una = g.hdr.ack := by rw [fx.una, if_neg hle]
        have hr1 : t1.outgoing.retransmit = t.outgoing.retransmit.filter (keepFor g.hdr.ack) := by
          rw [fx.rtx, if_neg hle]
        rw [hu1, hr1]
        have : ¬ off iss g.hdr.ack ≤ off iss t.snd.una := fun h => hle (hiff.2 h)
        exact ⟨by omega, rfl⟩
    -- the queue condition carries over
    have hq1 : ∀ t1, AckFx t g.hdr t1 → ∀ tr ∈ t1.outgoing.retransmit, keepFor t1.snd.una tr = true ∧ off iss (txEnd tr) ≤ N := by
      intro t1 fx tr htr
      rw [(ackfx t1 fx).2] at htr
      obtain ⟨h1, h2⟩ := List.mem_filter.1 htr
      exact ⟨h2, (hq tr h1).2⟩
    by_cases htext : g.text = []
    · -- a pure ACK
      obtain ⟨t1, e1, fx⟩ := arrive_ack_fwd t g hst hw hheap hp htext hseq
      have hrun1 : InRun t1.rcv.nxt rest := by
        rw [fx.rcv]
        have : t.rcv.nxt + BitVec.ofNat 32 g.text.length = t.rcv.nxt := by rw [htext]; simp
        rw [← this]; exact hrun'
      have hb0 : segBytes (g :: rest) = segBytes rest := by rw [segBytes_cons, htext]; simp
      obtain ⟨hu1, hr1⟩ := ackfx t1 fx
      obtain ⟨t', e', bf⟩ := ih t1 (by rw [fx.st, hst]) (by rw [fx.rcv, hw]) (by rw [fx.inc, hheap])
        (by have := fx.nxt; rw [← hiss]; exact (by
          have h := AckFx.nxt fx
          exact (show t1.snd.iss = t.snd.iss from by
            -- ISS is not touched by ACK processing
            have := segmentArrives_snd t g t1 .Ok e1
            exact this.iss)))
        (by
          have k := segmentArrives_snd t g t1 .Ok e1
          rw [sent_congr k.iss k.nxt]; exact hsent)
        (by rw [hu1]; omega) hrun1 (fun x hx => hack x (List.mem_cons_of_mem _ hx))
        (by rw [fx.inc, ← hb0]; exact hfit) (hq1 t1 fx)
      refine ⟨t', by simp only [arriveList, e1]; exact e', bf.st, bf.heap, ?_, by rw [bf.rwnd, fx.rcv], ?_,
        by rw [bf.otext, fx.otext], by rw [bf.snxt, fx.nxt], by rw [bf.mtu, fx.mtu], ?_, ?_, ?_, ?_, ?_⟩
      · rw [bf.nxt, fx.rcv, hb0]
      · rw [bf.text, fx.inc]
        simp [htext]
      · rw [bf.una, hu1]
        simp only [maxAck]
        omega
      · rw [bf.rtx, hr1]
        have hle : off iss t1.snd.una ≤ off iss t'.snd.una := by rw [bf.una]; omega
        have hmx : maxAck iss rest ≤ R := maxAck_le iss R rest (fun x hx => (hack x (List.mem_cons_of_mem _ hx)).2)
        exact filter_keep_trans iss _ _ _ N hN (fun tr htr => (hq tr htr).2) hle (by rw [bf.una, hu1]; omega)
      · obtain ⟨L, hL⟩ := bf.oneApp
        exact ⟨L, by rw [hL, fx.one]⟩
      · intro h0
        rw [bf.oneSame (by rw [← hb0]; exact h0), fx.one]
      · intro h0
        obtain ⟨h, e1', e2'⟩ := bf.oneLast (by rw [← hb0]; exact h0)
        exact ⟨h, e1', e2'⟩
    · -- data exactly at RCV.NXT
      have hpos : 0 < g.text.length := List.length_pos_iff.2 htext
      have hfit0 : t.incoming.text.length + g.text.length ≤ 65535 := by
        rw [segBytes_cons] at hfit; omega
      obtain ⟨t1, t2, e1, fx, tx⟩ := arrive_data_fwd t g hst hw hheap hp htext hseq hfit0
      have k := segmentArrives_snd t g t2 .Ok e1
      obtain ⟨hu1, hr1⟩ := ackfx t1 fx
      have hu2 : t2.snd.una = t1.snd.una := by rw [tx.snd]
      obtain ⟨t', e', bf⟩ := ih t2 (by rw [tx.st, fx.st, hst]) (by rw [tx.rwnd, fx.rcv, hw])
        (by rw [tx.heap, fx.inc, hheap]) (by rw [k.iss, hiss]) (by rw [sent_congr k.iss k.nxt]; exact hsent)
        (by rw [hu2, hu1]; omega) (by rw [tx.nxt, fx.rcv]; exact hrun')
        (fun x hx => hack x (List.mem_cons_of_mem _ hx))
        (by rw [tx.text, fx.inc, List.length_append]; rw [segBytes_cons] at hfit; omega)
        (by rw [tx.rtx, hu2]; exact hq1 t1 fx)
      have hmx : maxAck iss rest ≤ R := maxAck_le iss R rest (fun x hx => (hack x (List.mem_cons_of_mem _ hx)).2)
      refine ⟨t', by simp only [arriveList, e1]; exact e', bf.st, bf.heap, ?_, by rw [bf.rwnd, tx.rwnd, fx.rcv], ?_,
        by rw [bf.otext, tx.otext, fx.otext], by rw [bf.snxt, tx.snd, fx.nxt], by rw [bf.mtu, tx.mtu, fx.mtu], ?_, ?_, ?_,
        ?_, ?_⟩
      · rw [bf.nxt, tx.nxt, fx.rcv, segBytes_cons, BitVec.add_assoc, ← BitVec.ofNat_add]
      · rw [bf.text, tx.text, fx.inc]
        simp
      · rw [bf.una, hu2, hu1]
        simp only [maxAck]
        omega
      · rw [bf.rtx, tx.rtx, hr1]
        have hle : off iss t1.snd.una ≤ off iss t'.snd.una := by rw [bf.una, hu2]; omega
        exact filter_keep_trans iss _ _ _ N hN (fun tr htr => (hq tr htr).2) hle (by rw [bf.una, hu2, hu1]; omega)
      · obtain ⟨L, hL⟩ := bf.oneApp
        obtain ⟨h, hh, _⟩ := tx.one
        exact ⟨[h] ++ L, by rw [hL, hh, fx.one]; simp⟩
      · intro h0
        rw [segBytes_cons] at h0
        omega
      · intro _
        by_cases hr0 : segBytes rest = 0
        · -- the last data segment of the batch: its ACK is the last header queued
          obtain ⟨h, hh, hha⟩ := tx.one
          refine ⟨h, ?_, ?_⟩
          · rw [bf.oneSame hr0, hh]; simp
          · rw [hha, bf.nxt, hr0]; simp
        · exact bf.oneLast (Nat.pos_of_ne_zero hr0)

end Tcb
end Elvis.Tcp
