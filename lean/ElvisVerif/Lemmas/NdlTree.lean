import ElvisVerif.Lemmas.NdlLex
/-!
# NDL tree builder: what it returns on rendered (tab-indented) trees

Well-formedness of a description (`SimOk`), one-iteration lemmas for every `while` loop of the
builder on a rendered line, and from them the round trip `build (render .tabs s) = .ok s`.
-/
namespace Elvis.Ndl
open Elvis.Gen.Ndl

/-! ### well-formed descriptions -/

def LeafOk (exp : DecType) (l : Leaf) : Prop := l.dectype = exp ∧ LineOk l.options

/-- a `[Network]` entry: arguments in the grammar's classes, an `id` (its key in the map), at
    least one `[IP]` line -/
def NetworkOk (id : Text) (n : Network) : Prop :=
  n.dectype = .network ∧ LineOk n.options ∧ n.options.get? ['i', 'd'] = some id ∧
  n.ip ≠ [] ∧ ∀ l ∈ n.ip, LeafOk .ip l

/-- a `[Machine]` entry: each of the three required sections is non-empty -/
def MachineOk (m : Machine) : Prop :=
  m.dectype = .machine ∧ LineOk m.options ∧
  m.networks ≠ [] ∧ (∀ l ∈ m.networks, LeafOk .network l) ∧
  m.protocols ≠ [] ∧ (∀ l ∈ m.protocols, LeafOk .protocol l) ∧
  m.applications ≠ [] ∧ (∀ l ∈ m.applications, LeafOk .application l)

def Network.lines (n : Network) : Nat := 1 + n.ip.length
def Machine.lines (m : Machine) : Nat :=
  4 + m.networks.length + m.protocols.length + m.applications.length
/-- number of lines `render` produces -/
def Sim.lines (s : Sim) : Nat :=
  2 + (s.networks.map (·.2.lines)).sum + (s.machines.map (·.lines)).sum

/-- a well-formed description: what `render` can write and `parse` must read back -/
def SimOk (s : Sim) : Prop :=
  (∀ e ∈ s.networks, NetworkOk e.1 e.2) ∧ (s.networks.map (·.1)).Nodup ∧
  (∀ m ∈ s.machines, MachineOk m) ∧ s.lines < i32Max

/-! ### one rendered line at depth `d` -/

/-- `line .tabs d dt ps ++ tail`, re-associated -/
def tabLine (d : Nat) (dt : DecType) (ps : Params) (tail : Text) : Text :=
  List.replicate d '\t' ++ (renderLine dt ps ++ '\n' :: tail)

theorem line_tabs_append (d : Nat) (dt : DecType) (ps : Params) (tail : Text) :
    line .tabs d dt ps ++ tail = tabLine d dt ps tail := by
  simp [line, indent, eol, tabLine]

theorem renderLine_cons (dt : DecType) (ps : Params) :
    renderLine dt ps = '[' :: (dt.name ++ (renderArgs ps ++ [']'])) := rfl

theorem countTabs_replicate (d : Nat) (t : Text) (h : ∀ r, t ≠ '\t' :: r) :
    countTabs (List.replicate d '\t' ++ t) = d := by
  induction d with
  | zero =>
    cases t with
    | nil => simp [countTabs]
    | cons c r =>
      have : c ≠ '\t' := fun hc => h r (by rw [hc])
      simp [countTabs, this]
  | succ n ih => simp [List.replicate_succ, countTabs] at ih ⊢; exact ih

theorem countTabs_tabLine (d : Nat) (dt : DecType) (ps : Params) (tail : Text) :
    countTabs (tabLine d dt ps tail) = d := by
  unfold tabLine
  apply countTabs_replicate
  intro r h
  simp [renderLine_cons] at h

theorem tabLine_ne_nil (d : Nat) (dt : DecType) (ps : Params) (tail : Text) :
    tabLine d dt ps tail ≠ [] := by
  simp [tabLine, renderLine_cons]

theorem tabLine_not_nl (d : Nat) (dt : DecType) (ps : Params) (tail : Text) :
    ∀ r, tabLine d dt ps tail ≠ '\n' :: r := by
  intro r h
  cases d with
  | zero => simp [tabLine, renderLine_cons] at h
  | succ n => simp [tabLine, List.replicate_succ] at h

theorem byteDrop_tabLine (d : Nat) (dt : DecType) (ps : Params) (tail : Text) :
    byteDrop d (tabLine d dt ps tail) = some (renderLine dt ps ++ '\n' :: tail) := by
  have h := byteDrop_tabs (tabLine d dt ps tail) d (by rw [countTabs_tabLine]; exact Nat.le_refl _)
  rw [h]; simp [tabLine]

theorem lex_tabLine (dt : DecType) (ps : Params) (hps : LineOk ps) (tail : Text)
    (htail : ∀ r, tail ≠ '\n' :: r) (line : Nat) (hb : line + 1 ≤ i32Max) :
    generalParser (renderLine dt ps ++ '\n' :: tail) line = .ok ⟨dt, ps, tail, line + 1⟩ := by
  have := generalParser_render dt ps hps 1 tail htail line hb
  simpa using this

theorem tabLine_length (d : Nat) (dt : DecType) (ps : Params) (tail : Text) :
    tail.length < (tabLine d dt ps tail).length := by
  simp [tabLine, renderLine_cons]; omega

/-- what follows a block at depth `d`: a shallower line, or the end of the text -/
def After (d : Nat) (rest : Text) : Prop := countTabs rest < d ∧ ∀ r, rest ≠ '\n' :: r

/-! ### leaf lists -/

theorem leafLoop_step (exp : DecType) (d : Nat) (l : Leaf) (hl : LeafOk exp l) (tail : Text)
    (htail : ∀ r, tail ≠ '\n' :: r) (line fuel : Nat) (hb : line + 1 ≤ i32Max) :
    leafLoop exp d (fuel + 1) (tabLine d l.dectype l.options tail) line =
      if countTabs tail < d then .ok ([l], tail, line + 1)
      else if countTabs tail > d then .error (.err .tabs 0)
      else match leafLoop exp d fuel tail (line + 1) with
        | .error e => .error e
        | .ok (ls, rest, line') => .ok (l :: ls, rest, line') := by
  obtain ⟨dt, o⟩ := l
  obtain ⟨h1, h2⟩ := hl
  simp only at h1 h2 ⊢
  subst h1
  rw [leafLoop]
  simp only [tabLine_ne_nil, if_false, byteDrop_tabLine, lex_tabLine dt o h2 tail htail line hb]
  simp only [ne_eq, not_true_eq_false, if_false]
  rfl

theorem renderLeaves_cons (d : Nat) (l : Leaf) (ls : List Leaf) (rest : Text) :
    renderLeaves .tabs d (l :: ls) ++ rest =
      tabLine d l.dectype l.options (renderLeaves .tabs d ls ++ rest) := by
  simp [renderLeaves, ← line_tabs_append]

theorem renderLeaves_length (d : Nat) (ls : List Leaf) (rest : Text) :
    rest.length ≤ (renderLeaves .tabs d ls ++ rest).length := by simp

theorem leafLoop_render (exp : DecType) (d : Nat) (hd : 0 < d) : ∀ (ls : List Leaf) (rest : Text)
    (line fuel : Nat), ls ≠ [] → (∀ l ∈ ls, LeafOk exp l) → After d rest →
    line + ls.length ≤ i32Max → (renderLeaves .tabs d ls ++ rest).length < fuel →
    leafLoop exp d fuel (renderLeaves .tabs d ls ++ rest) line = .ok (ls, rest, line + ls.length)
  | [], _, _, _, h, _, _, _, _ => absurd rfl h
  | l :: ls, rest, line, fuel, _, hok, haft, hb, hf => by
    rw [renderLeaves_cons] at hf ⊢
    cases fuel with
    | zero => omega
    | succ fuel =>
      have hl := hok l List.mem_cons_self
      cases ls with
      | nil =>
        have ht : renderLeaves .tabs d [] ++ rest = rest := by simp [renderLeaves]
        rw [ht] at hf ⊢
        rw [leafLoop_step exp d l hl rest haft.2 line fuel (by simp at hb; omega)]
        simp [haft.1]
      | cons l2 ls' =>
        have hnext : renderLeaves .tabs d (l2 :: ls') ++ rest =
            tabLine d l2.dectype l2.options (renderLeaves .tabs d ls' ++ rest) := renderLeaves_cons ..
        have htl := tabLine_length d l.dectype l.options (renderLeaves .tabs d (l2 :: ls') ++ rest)
        have ih := leafLoop_render exp d hd (l2 :: ls') rest (line + 1) fuel (by simp)
          (fun x hx => hok x (List.mem_cons_of_mem _ hx)) haft (by simp at hb ⊢; omega) (by omega)
        rw [leafLoop_step exp d l hl _ (by rw [hnext]; exact tabLine_not_nl _ _ _ _) line fuel
          (by simp at hb; omega)]
        have hct : countTabs (renderLeaves .tabs d (l2 :: ls') ++ rest) = d := by
          rw [hnext]; exact countTabs_tabLine ..
        simp only [hct, Nat.lt_irrefl, if_false, gt_iff_lt, ih]
        simp; omega

theorem leafList_render (exp : DecType) (first : ErrKind) (d : Nat) (hd : 0 < d) (ls : List Leaf)
    (rest : Text) (line : Nat) (hne : ls ≠ []) (hok : ∀ l ∈ ls, LeafOk exp l) (haft : After d rest)
    (hb : line + ls.length ≤ i32Max) :
    leafList exp first d (renderLeaves .tabs d ls ++ rest) line = .ok (ls, rest, line + ls.length) := by
  unfold leafList
  have hct : countTabs (renderLeaves .tabs d ls ++ rest) = d := by
    cases ls with
    | nil => exact absurd rfl hne
    | cons l ls => rw [renderLeaves_cons]; exact countTabs_tabLine ..
  simp only [hct, ne_eq, not_true_eq_false, if_false]
  exact leafLoop_render exp d hd ls rest line _ hne hok haft hb (Nat.lt_succ_self _)

/-! ### `[Networks]` -/

theorem renderNetwork_append (n : Network) (rest : Text) :
    renderNetwork .tabs n ++ rest = tabLine 1 .network n.options (renderLeaves .tabs 2 n.ip ++ rest) := by
  simp [renderNetwork, ← line_tabs_append]

theorem after_mono {d e : Nat} (h : d ≤ e) {rest : Text} (ha : After d rest) : After e rest :=
  ⟨Nat.lt_of_lt_of_le ha.1 h, ha.2⟩

theorem leaves_not_nl (d : Nat) (ls : List Leaf) (rest : Text) (hne : ls ≠ []) :
    ∀ r, renderLeaves .tabs d ls ++ rest ≠ '\n' :: r := by
  cases ls with
  | nil => exact absurd rfl hne
  | cons l ls => rw [renderLeaves_cons]; exact tabLine_not_nl _ _ _ _

/-- one `[Network]` entry inside `networks_parser`'s loop -/
theorem networksLoop_step (id : Text) (n : Network) (hn : NetworkOk id n) (rest : Text)
    (haft : After 2 rest) (line fuel : Nat) (seen : List (Text × Network))
    (hb : line + n.lines ≤ i32Max) :
    networksLoop 1 (fuel + 1) (renderNetwork .tabs n ++ rest) line seen =
      if seen.any (fun e => e.1 == id) then .error (.err .dupId 0)
      else networksLoop 1 fuel rest (line + n.lines) (seen ++ [(id, n)]) := by
  obtain ⟨hdt, hopt, hid, hne, hips⟩ := hn
  rw [renderNetwork_append, networksLoop]
  have hnl := leaves_not_nl 2 n.ip rest hne
  unfold Network.lines at hb
  simp only [tabLine_ne_nil, if_false, countTabs_tabLine, Nat.lt_irrefl, gt_iff_lt, byteDrop_tabLine,
    lex_tabLine .network n.options hopt _ hnl line (by omega), if_true, networkParser]
  rw [leafList_render .ip .expectedTabs 2 (by omega) n.ip rest (line + 1) hne hips haft (by omega)]
  have he : (⟨DecType.network, n.options, n.ip⟩ : Network) = n := by
    cases n; simp at hdt; subst hdt; rfl
  simp only [he, hid, Network.lines]
  have : line + 1 + n.ip.length = line + (1 + n.ip.length) := by omega
  rw [this]

def netsText (nets : List (Text × Network)) : Text := nets.flatMap fun e => renderNetwork .tabs e.2

theorem netsText_cons (e : Text × Network) (nets : List (Text × Network)) (rest : Text) :
    netsText (e :: nets) ++ rest = renderNetwork .tabs e.2 ++ (netsText nets ++ rest) := by
  simp [netsText]

theorem netsText_after (nets : List (Text × Network)) (rest : Text) (haft : After 1 rest)
    (hok : ∀ e ∈ nets, NetworkOk e.1 e.2) : After 2 (netsText nets ++ rest) := by
  cases nets with
  | nil => simpa [netsText] using after_mono (by omega) haft
  | cons e nets =>
    rw [netsText_cons, renderNetwork_append]
    exact ⟨by rw [countTabs_tabLine]; omega, tabLine_not_nl _ _ _ _⟩

theorem networksLoop_render : ∀ (nets : List (Text × Network)) (rest : Text) (line fuel : Nat)
    (seen : List (Text × Network)), (∀ e ∈ nets, NetworkOk e.1 e.2) →
    (nets.map (·.1)).Nodup → (∀ e ∈ nets, seen.any (fun x => x.1 == e.1) = false) →
    After 1 rest → line + (nets.map (·.2.lines)).sum ≤ i32Max →
    (netsText nets ++ rest).length < fuel →
    networksLoop 1 fuel (netsText nets ++ rest) line seen =
      .ok (seen ++ nets, rest, line + (nets.map (·.2.lines)).sum)
  | [], rest, line, fuel, seen, _, _, _, haft, _, hf => by
    simp only [netsText, List.flatMap_nil, List.nil_append] at hf ⊢
    cases fuel with
    | zero => omega
    | succ fuel =>
      rw [networksLoop]
      split
      · simp
      · have := haft.1
        simp [this]
  | e :: nets, rest, line, fuel, seen, hok, hnd, hseen, haft, hb, hf => by
    rw [netsText_cons] at hf ⊢
    cases fuel with
    | zero => omega
    | succ fuel =>
      have he := hok e List.mem_cons_self
      have hok' : ∀ x ∈ nets, NetworkOk x.1 x.2 := fun x hx => hok x (List.mem_cons_of_mem _ hx)
      simp only [List.map_cons, List.sum_cons, List.nodup_cons] at hb hnd
      rw [networksLoop_step e.1 e.2 he _ (netsText_after nets rest haft hok') line fuel seen (by omega)]
      rw [hseen e List.mem_cons_self]
      simp only [Bool.false_eq_true, if_false]
      have hlen : (netsText nets ++ rest).length < fuel := by
        have := tabLine_length 1 .network e.2.options (renderLeaves .tabs 2 e.2.ip ++ (netsText nets ++ rest))
        rw [← renderNetwork_append] at this
        have h2 := renderLeaves_length 2 e.2.ip (netsText nets ++ rest)
        omega
      rw [networksLoop_render nets rest _ fuel (seen ++ [e]) hok' hnd.2 (by
        intro x hx
        have h1 := hseen x (List.mem_cons_of_mem _ hx)
        simp only [List.any_append, List.any_cons, List.any_nil, Bool.or_false, h1, Bool.false_or,
          beq_eq_false_iff_ne, ne_eq]
        intro heq
        exact hnd.1 (by rw [heq]; exact List.mem_map_of_mem hx)) haft (by omega) hlen]
      simp [List.map_cons, List.sum_cons]; omega

/-! ### `[Machines]` -/

def sectionsText (m : Machine) (rest : Text) : Text :=
  tabLine 2 .networks [] (renderLeaves .tabs 3 m.networks ++
  tabLine 2 .protocols [] (renderLeaves .tabs 3 m.protocols ++
  tabLine 2 .applications [] (renderLeaves .tabs 3 m.applications ++ rest)))

theorem renderMachine_append (m : Machine) (rest : Text) :
    renderMachine .tabs m ++ rest = tabLine 1 .machine m.options (sectionsText m rest) := by
  simp [renderMachine, sectionsText, ← line_tabs_append]

theorem lineOk_nil : LineOk [] := ⟨by simp, by simp⟩

theorem requiredSections_eq : requiredSections = [.networks, .protocols, .applications] := by decide

/-- one section header inside `machine_parser`'s loop (three instances of the same step) -/
theorem machineLoop_networks (ls : List Leaf) (tail : Text) (a : MAcc)
    (line fuel : Nat) (hne : ls ≠ []) (hb : line + 1 ≤ i32Max) (i : Nat)
    (hi : a.req.idxOf? .networks = some i) :
    machineLoop 2 (fuel + 1) (tabLine 2 .networks [] (renderLeaves .tabs 3 ls ++ tail)) line a =
      match leafList .network .formatting 3 (renderLeaves .tabs 3 ls ++ tail) (line + 1) with
      | .error e => .error e
      | .ok (ls, rest, line') =>
        machineLoop 2 fuel rest line' { a with req := a.req.eraseIdx i, nets := a.nets ++ ls } := by
  rw [machineLoop]
  have hnl := leaves_not_nl 3 ls tail hne
  have hc : a.req.contains .networks = true := by
    rw [List.contains_iff_mem]
    rw [List.idxOf?] at hi
    obtain ⟨_, hx⟩ := List.findIdx?_eq_some_iff_getElem.1 hi
    have := hx.1
    simp at this
    rw [← this]; exact List.getElem_mem _
  simp only [tabLine_ne_nil, if_false, countTabs_tabLine, Nat.lt_irrefl, gt_iff_lt, byteDrop_tabLine,
    lex_tabLine .networks [] lineOk_nil _ hnl line hb, hc, if_true, hi]
  rfl

theorem machineLoop_protocols (ls : List Leaf) (tail : Text) (a : MAcc)
    (line fuel : Nat) (hne : ls ≠ []) (hb : line + 1 ≤ i32Max) (i : Nat)
    (hi : a.req.idxOf? .protocols = some i) :
    machineLoop 2 (fuel + 1) (tabLine 2 .protocols [] (renderLeaves .tabs 3 ls ++ tail)) line a =
      match leafList .protocol .formatting 3 (renderLeaves .tabs 3 ls ++ tail) (line + 1) with
      | .error e => .error e
      | .ok (ls, rest, line') =>
        machineLoop 2 fuel rest line' { a with req := a.req.eraseIdx i, prots := a.prots ++ ls } := by
  rw [machineLoop]
  have hnl := leaves_not_nl 3 ls tail hne
  have hc : a.req.contains .protocols = true := by
    rw [List.contains_iff_mem]
    rw [List.idxOf?] at hi
    obtain ⟨_, hx⟩ := List.findIdx?_eq_some_iff_getElem.1 hi
    have := hx.1
    simp at this
    rw [← this]; exact List.getElem_mem _
  simp only [tabLine_ne_nil, if_false, countTabs_tabLine, Nat.lt_irrefl, gt_iff_lt, byteDrop_tabLine,
    lex_tabLine .protocols [] lineOk_nil _ hnl line hb, hc, if_true, hi]
  rfl

theorem machineLoop_applications (ls : List Leaf) (tail : Text) (a : MAcc)
    (line fuel : Nat) (hne : ls ≠ []) (hb : line + 1 ≤ i32Max) (i : Nat)
    (hi : a.req.idxOf? .applications = some i) :
    machineLoop 2 (fuel + 1) (tabLine 2 .applications [] (renderLeaves .tabs 3 ls ++ tail)) line a =
      match leafList .application .formatting 3 (renderLeaves .tabs 3 ls ++ tail) (line + 1) with
      | .error e => .error e
      | .ok (ls, rest, line') =>
        machineLoop 2 fuel rest line' { a with req := a.req.eraseIdx i, apps := a.apps ++ ls } := by
  rw [machineLoop]
  have hnl := leaves_not_nl 3 ls tail hne
  have hc : a.req.contains .applications = true := by
    rw [List.contains_iff_mem]
    rw [List.idxOf?] at hi
    obtain ⟨_, hx⟩ := List.findIdx?_eq_some_iff_getElem.1 hi
    have := hx.1
    simp at this
    rw [← this]; exact List.getElem_mem _
  simp only [tabLine_ne_nil, if_false, countTabs_tabLine, Nat.lt_irrefl, gt_iff_lt, byteDrop_tabLine,
    lex_tabLine .applications [] lineOk_nil _ hnl line hb, hc, if_true, hi]
  rfl

theorem machineLoop_end (rest : Text) (haft : After 2 rest) (line fuel : Nat) (a : MAcc) :
    machineLoop 2 (fuel + 1) rest line a = .ok (a, rest, line) := by
  rw [machineLoop]
  split
  · rfl
  · simp [haft.1]

theorem sections_render (m : Machine) (hm : MachineOk m) (rest : Text) (haft : After 2 rest)
    (line fuel : Nat) (hb : line + m.lines ≤ i32Max + 1) (hf : (sectionsText m rest).length < fuel) :
    machineLoop 2 fuel (sectionsText m rest) line ⟨requiredSections, [], [], []⟩ =
      .ok (⟨[], m.networks, m.protocols, m.applications⟩, rest, line + (m.lines - 1)) := by
  obtain ⟨_, _, hn0, hn, hp0, hp, ha0, ha⟩ := hm
  unfold Machine.lines at hb
  unfold sectionsText at hf ⊢
  -- three iterations and the final look at `rest`: the fuel covers four lines
  have l3 := tabLine_length 2 .applications [] (renderLeaves .tabs 3 m.applications ++ rest)
  have l3' := renderLeaves_length 3 m.applications rest
  have l2 := tabLine_length 2 .protocols [] (renderLeaves .tabs 3 m.protocols ++
    tabLine 2 .applications [] (renderLeaves .tabs 3 m.applications ++ rest))
  have l2' := renderLeaves_length 3 m.protocols
    (tabLine 2 .applications [] (renderLeaves .tabs 3 m.applications ++ rest))
  have l1 := tabLine_length 2 .networks [] (renderLeaves .tabs 3 m.networks ++
    tabLine 2 .protocols [] (renderLeaves .tabs 3 m.protocols ++
    tabLine 2 .applications [] (renderLeaves .tabs 3 m.applications ++ rest)))
  have l1' := renderLeaves_length 3 m.networks (tabLine 2 .protocols [] (renderLeaves .tabs 3 m.protocols ++
    tabLine 2 .applications [] (renderLeaves .tabs 3 m.applications ++ rest)))
  obtain ⟨f, rfl⟩ : ∃ f, fuel = f + 4 := ⟨fuel - 4, by omega⟩
  have aft3 : ∀ (dt : DecType) (t : Text), After 3 (tabLine 2 dt [] t) :=
    fun dt t => ⟨by rw [countTabs_tabLine]; omega, tabLine_not_nl _ _ _ _⟩
  rw [requiredSections_eq]
  rw [machineLoop_networks m.networks _ _ line (f + 3) hn0 (by omega) 0 (by rfl)]
  rw [leafList_render .network .formatting 3 (by omega) m.networks _ (line + 1) hn0 hn (aft3 _ _) (by omega)]
  simp only [List.eraseIdx_cons_zero, List.nil_append]
  rw [machineLoop_protocols m.protocols _ _ _ (f + 2) hp0 (by omega) 0 (by rfl)]
  rw [leafList_render .protocol .formatting 3 (by omega) m.protocols _ _ hp0 hp (aft3 _ _) (by omega)]
  simp only [List.eraseIdx_cons_zero, List.nil_append]
  rw [machineLoop_applications m.applications _ _ _ (f + 1) ha0 (by omega) 0 (by rfl)]
  rw [leafList_render .application .formatting 3 (by omega) m.applications _ _ ha0 ha
    (after_mono (by omega) haft) (by omega)]
  simp only [List.eraseIdx_cons_zero, List.nil_append]
  rw [machineLoop_end rest haft]
  simp [Machine.lines]; omega

/-- one `[Machine]` entry inside `machines_parser`'s loop -/
theorem machinesLoop_step (m : Machine) (hm : MachineOk m) (rest : Text) (haft : After 2 rest)
    (line fuel : Nat) (hb : line + m.lines ≤ i32Max) :
    machinesLoop 1 (fuel + 1) (renderMachine .tabs m ++ rest) line =
      match machinesLoop 1 fuel rest (line + m.lines) with
      | .error e => .error e
      | .ok (ms, rest', line') => .ok (m :: ms, rest', line') := by
  rw [renderMachine_append, machinesLoop]
  have hnl : ∀ r, sectionsText m rest ≠ '\n' :: r := tabLine_not_nl _ _ _ _
  simp only [tabLine_ne_nil, if_false, countTabs_tabLine, Nat.lt_irrefl, gt_iff_lt, byteDrop_tabLine,
    lex_tabLine .machine m.options hm.2.1 _ hnl line (by unfold Machine.lines at hb; omega), if_true,
    machineParser]
  rw [sections_render m hm rest haft (line + 1) _ (by omega) (Nat.lt_succ_self _)]
  have he : (⟨DecType.machine, m.options, m.networks, m.protocols, m.applications⟩ : Machine) = m := by
    obtain ⟨hdt, _⟩ := hm
    cases m; simp at hdt; subst hdt; rfl
  have hl : line + 1 + (m.lines - 1) = line + m.lines := by unfold Machine.lines; omega
  simp only [he, hl]
  rfl

def machsText (ms : List Machine) : Text := ms.flatMap (renderMachine .tabs)

theorem machsText_cons (m : Machine) (ms : List Machine) (rest : Text) :
    machsText (m :: ms) ++ rest = renderMachine .tabs m ++ (machsText ms ++ rest) := by
  simp [machsText]

theorem machsText_after (ms : List Machine) (rest : Text) (haft : After 1 rest) :
    After 2 (machsText ms ++ rest) := by
  cases ms with
  | nil => simpa [machsText] using after_mono (by omega) haft
  | cons m ms =>
    rw [machsText_cons, renderMachine_append]
    exact ⟨by rw [countTabs_tabLine]; omega, tabLine_not_nl _ _ _ _⟩

theorem machinesLoop_render : ∀ (ms : List Machine) (rest : Text) (line fuel : Nat),
    (∀ m ∈ ms, MachineOk m) → After 1 rest → line + (ms.map (·.lines)).sum ≤ i32Max →
    (machsText ms ++ rest).length < fuel →
    machinesLoop 1 fuel (machsText ms ++ rest) line = .ok (ms, rest, line + (ms.map (·.lines)).sum)
  | [], rest, line, fuel, _, haft, _, hf => by
    simp only [machsText, List.flatMap_nil, List.nil_append] at hf ⊢
    cases fuel with
    | zero => omega
    | succ fuel =>
      rw [machinesLoop]
      split
      · simp
      · have := haft.1
        simp [this]
  | m :: ms, rest, line, fuel, hok, haft, hb, hf => by
    rw [machsText_cons] at hf ⊢
    cases fuel with
    | zero => omega
    | succ fuel =>
      have hm := hok m List.mem_cons_self
      simp only [List.map_cons, List.sum_cons] at hb
      rw [machinesLoop_step m hm _ (machsText_after ms rest haft) line fuel (by omega)]
      have hlen : (machsText ms ++ rest).length < fuel := by
        have := tabLine_length 1 .machine m.options (sectionsText m (machsText ms ++ rest))
        rw [← renderMachine_append] at this
        have h1 : (machsText ms ++ rest).length ≤ (sectionsText m (machsText ms ++ rest)).length := by
          simp [sectionsText, tabLine]; omega
        omega
      rw [machinesLoop_render ms rest _ fuel (fun x hx => hok x (List.mem_cons_of_mem _ hx)) haft
        (by omega) hlen]
      simp [List.map_cons, List.sum_cons]; omega

/-! ### the whole file -/

theorem mergeNets_nil_left : ∀ (ns acc : List (Text × Network)), (ns.map (·.1)).Nodup →
    (∀ e ∈ ns, acc.any (fun x => x.1 == e.1) = false) → mergeNets acc ns = .ok (acc ++ ns)
  | [], acc, _, _ => by simp [mergeNets]
  | (id, n) :: ns, acc, hnd, hd => by
    simp only [List.map_cons, List.nodup_cons] at hnd
    rw [mergeNets, hd (id, n) List.mem_cons_self]
    simp only [Bool.false_eq_true, if_false]
    rw [mergeNets_nil_left ns (acc ++ [(id, n)]) hnd.2 (by
      intro x hx
      have h1 := hd x (List.mem_cons_of_mem _ hx)
      simp only [List.any_append, List.any_cons, List.any_nil, Bool.or_false, h1, Bool.false_or,
        beq_eq_false_iff_ne, ne_eq]
      intro heq
      exact hnd.1 (by rw [heq]; exact List.mem_map_of_mem hx))]
    simp

theorem render_tabs_eq (s : Sim) :
    render .tabs s = tabLine 0 .networks [] (netsText s.networks ++
      tabLine 0 .machines [] (machsText s.machines ++ [])) := by
  simp [render, netsText, machsText, ← line_tabs_append]

/-- `core_parser` (after normalisation) reads a rendered well-formed description back -/
theorem build_render (s : Sim) (hs : SimOk s) : build (render .tabs s) = .ok s := by
  obtain ⟨hn, hnd, hm, hl⟩ := hs
  unfold Sim.lines at hl
  unfold build
  rw [render_tabs_eq]
  -- top-level iteration 1: `[Networks]`
  have aft0 : ∀ (dt : DecType) (t : Text), After 1 (tabLine 0 dt [] t) :=
    fun dt t => ⟨by rw [countTabs_tabLine]; omega, tabLine_not_nl _ _ _ _⟩
  have aftEnd : After 1 ([] : Text) := ⟨by simp [countTabs], by simp⟩
  have hlen1 := tabLine_length 0 .networks [] (netsText s.networks ++
      tabLine 0 .machines [] (machsText s.machines ++ []))
  have hlen2 := tabLine_length 0 .machines [] (machsText s.machines ++ [])
  have top : ∀ (dt : DecType) (tail : Text) (line : Nat), (∀ r, tail ≠ '\n' :: r) → line + 1 ≤ i32Max →
      generalParser (tabLine 0 dt [] tail) line = .ok ⟨dt, [], tail, line + 1⟩ := by
    intro dt tail line h1 h2
    have := lex_tabLine dt [] lineOk_nil tail h1 line h2
    simpa [tabLine] using this
  have nl1 : ∀ r, netsText s.networks ++ tabLine 0 .machines [] (machsText s.machines ++ []) ≠ '\n' :: r :=
    (netsText_after s.networks _ (aft0 _ _) hn).2
  have nl2 : ∀ r, machsText s.machines ++ [] ≠ '\n' :: r := (machsText_after s.machines _ aftEnd).2
  have hlen3 : (tabLine 0 .machines [] (machsText s.machines ++ [])).length ≤
      (netsText s.networks ++ tabLine 0 .machines [] (machsText s.machines ++ [])).length := by simp
  generalize hF : (tabLine 0 .networks [] (netsText s.networks ++
      tabLine 0 .machines [] (machsText s.machines ++ []))).length + 1 = F
  obtain ⟨f, rfl⟩ : ∃ f, F = f + 3 := ⟨F - 3, by omega⟩
  rw [coreLoop]
  simp only [tabLine_ne_nil, if_false, top .networks _ 1 nl1 (by omega), networksParser]
  rw [networksLoop_render s.networks _ 2 _ [] hn hnd (by simp) (aft0 _ _) (by omega) (Nat.lt_succ_self _)]
  simp only [List.nil_append]
  rw [mergeNets_nil_left s.networks [] hnd (by simp)]
  simp only [List.nil_append]
  rw [coreLoop]
  have hl2 := top .machines (machsText s.machines ++ []) (2 + (s.networks.map (·.2.lines)).sum) nl2 (by omega)
  simp only [tabLine_ne_nil, if_false, hl2, machinesParser]
  rw [machinesLoop_render s.machines [] _ _ hm aftEnd (by omega) (Nat.lt_succ_self _)]
  simp only [List.nil_append]
  rw [coreLoop]
  simp

end Elvis.Ndl
