-- GENERATED from /repo sources by tools/extract.py on every check; do not edit
-- header-size / bit-position constants and one-expression kernels of the IPv4, UDP, TCP codecs
namespace Elvis.Gen.Codec
def ipv4_BASE_OCTETS : Nat := 20
def ipv4_BASE_WORDS : Nat := 5
def ipv4_FRAGMENT_OFFSET_MASK : Nat := 8191
def ipv4_build_flags_shift : Nat := 13
def ipv4_build_version : Nat := 4
def ipv4_flags_shift : Nat := 13
def ipv4_ihl_mask : Nat := 15
def ipv4_last_fragment_mask : Nat := 1
def ipv4_may_fragment_mask : Nat := 2
def ipv4_reserved_flag_mask : Nat := 4
def ipv4_tos_delay_shift : Nat := 4
def ipv4_tos_precedence_shift : Nat := 5
def ipv4_tos_reliability_shift : Nat := 2
def ipv4_tos_reserved_mask : Nat := 3
def ipv4_tos_throughput_shift : Nat := 3
def ipv4_version : Nat := 4
def ipv4_version_shift : Nat := 4
def tcp_BASE_HEADER_OCTETS : Nat := 20
def tcp_BASE_HEADER_WORDS : Nat := 5
def tcp_build_offset_shift : Nat := 4
def tcp_build_protocol_number : Nat := 6
def tcp_bytes_factor : Nat := 4
def tcp_control_mask : Nat := 63
def tcp_data_offset_shift : Nat := 4
def tcp_protocol_number : Nat := 6
def tcp_serialize_offset_shift : Nat := 4
def udp_HEADER_OCTETS : Nat := 8
def udp_build_protocol_number : Nat := 17
def udp_protocol_number : Nat := 17
/-- `Checksum::add_u16` (compute_checksum): the value assigned to `self.0`, before the overflow check of the `+` -/
def add_u16 (self_0 value : Nat) : Nat :=
  let sum := (self_0 + value) % 65536
  let carry := decide (self_0 + value ≥ 65536)
  (sum + (Bool.toNat carry))
/-- `Checksum::as_u16` (compute_checksum); `!x` on `u16` is `65535 - x` -/
def as_u16 (self_0 : Nat) : Nat :=
  if self_0 = 65535 then 65535 else 65535 - self_0
/-- `Checksum::as_u16` with the feature off -/
def as_u16_off : Nat := 0
/-- `Checksum::matches` -/
def matches_ (as_u16 self_0 expected : Nat) : Bool :=
  as_u16 == expected || (self_0 == 65535 && expected == 0)
/-- `Control::new` -/
def control_new (urg ack psh rst syn fin : Bool) : Nat :=
  ((((((Bool.toNat fin) ||| (((Bool.toNat syn) <<< 1) % 256)) ||| (((Bool.toNat rst) <<< 2) % 256)) ||| (((Bool.toNat psh) <<< 3) % 256)) ||| (((Bool.toNat ack) <<< 4) % 256)) ||| (((Bool.toNat urg) <<< 5) % 256))
/-- `ControlFlags::new` -/
def control_flags_new (may_fragment is_last_fragment : Bool) : Nat :=
  ((Bool.toNat (!is_last_fragment)) ||| (((Bool.toNat (!may_fragment)) <<< 1) % 256))
/-- `TypeOfService::new` -/
def type_of_service_new (precedence delay throughput reliability : Nat) : Nat :=
  ((((((reliability % 256) <<< 2) % 256) ||| (((throughput % 256) <<< 3) % 256)) ||| (((delay % 256) <<< 4) % 256)) ||| (((precedence % 256) <<< 5) % 256))
end Elvis.Gen.Codec
