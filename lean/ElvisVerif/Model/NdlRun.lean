import ElvisVerif.Model.Ndl
/-!
# What running a description is supposed to do (C19 run clause) — a *specification*, not a model

`expectedDeliveries : Sim → …` says, from the description alone, which messages every `capture`
application must end up with, and `expectedExit` whether the run must end by itself (`Exited`)
rather than by the timeout.  It is compared with real runs of the generator + simulator
(`hfull c19-run`); nothing is proved about the 900 lines of generator glue.

Reading of a description (what its author means):
* a machine with `count='c'` stands for `c` machines (`name-0 … name-(c-1)` when `c > 1`);
* `send_message` sends `message` once to `to`:`port`; `to` is an address, or the name of a
  machine, meaning the address of that machine's application (its `ip`);
* `forward` listening on `ip`:`local_port` passes every message on to `to`:`remote_port`;
* `capture` on `ip`:`port` receives what is sent to it; it finishes after `message_count`
  messages; the run ends (`Exited`) once every capture has finished;
* two `ping_pong` applications wired to each other bounce a counter down to zero, then the run ends;
* a message travels over the sender's first network: the receiver must be attached to it.
-/
namespace Elvis.Ndl.Run
open Elvis.Ndl

def digit? (c : Char) : Option Nat :=
  if '0' ≤ c ∧ c ≤ '9' then some (c.toNat - 48) else none

def hexDigit? (c : Char) : Option Nat :=
  if '0' ≤ c ∧ c ≤ '9' then some (c.toNat - 48)
  else if 'a' ≤ c ∧ c ≤ 'f' then some (c.toNat - 87)
  else if 'A' ≤ c ∧ c ≤ 'F' then some (c.toNat - 55)
  else none

def parseBase (base : Nat) (d : Char → Option Nat) (s : Text) : Option Nat :=
  if s = [] then none else s.foldlM (fun acc c => (d c).map (acc * base + ·)) 0

def parseDec (s : Text) : Option Nat := parseBase 10 digit? s

/-- `string_to_port`: `0x…` hexadecimal, else decimal -/
def parsePort (s : Text) : Option Nat :=
  match s with
  | '0' :: 'x' :: r => parseBase 16 hexDigit? r
  | _ => parseDec s

def splitOn (c : Char) : Text → List Text
  | [] => [[]]
  | x :: r =>
    match splitOn c r with
    | h :: t => if x = c then [] :: h :: t else (x :: h) :: t
    | [] => [[x]]

/-- dotted quad → four octets (`ip_or_name` / `ip_string_to_ip`) -/
def parseIp (s : Text) : Option (List Nat) :=
  let parts := splitOn '.' s
  if parts.length ≠ 4 then none else
  parts.mapM fun p => (parseDec p).bind fun n => if n < 256 then some n else none

def key (s : String) : Text := s.toList

def appName (l : Leaf) : Text := (l.options.get? (key "name")).getD []

def machineCount (m : Machine) : Nat :=
  match (m.options.get? (key "count")).bind parseDec with
  | some c => c
  | none => 1

def natText (n : Nat) : Text := (toString n).toList

/-- names of the machines one `[Machine]` entry stands for -/
def instanceNames (m : Machine) : List Text :=
  let name := (m.options.get? (key "name")).getD []
  let c := machineCount m
  if c > 1 then (List.range c).map fun i => name ++ '-' :: natText i else [name]

def localhost : List Nat := [127, 0, 0, 1]

/-- address of an application: its `ip` (`send_message` defaults to 127.0.0.1) -/
def appIp (l : Leaf) : Option (List Nat) :=
  match l.options.get? (key "ip") with
  | some t => parseIp t
  | none => if appName l = key "send_message" then some localhost else none

def hasAddress (l : Leaf) : Bool :=
  let n := appName l
  n = key "capture" || n = key "forward" || n = key "ping_pong" || n = key "send_message"

/-- machine name → address, later entries win (a `HashMap::insert` per application) -/
def nameTable (s : Sim) : List (Text × List Nat) :=
  s.machines.flatMap fun m =>
    (instanceNames m).flatMap fun nm =>
      m.applications.filterMap fun a =>
        if hasAddress a then (appIp a).map fun ip => (nm, ip) else none

def resolve (s : Sim) (to : Text) : Option (List Nat) :=
  match parseIp to with
  | some ip => some ip
  | none => ((nameTable s).reverse.find? (fun e => e.1 == to)).map (·.2)

def netIds (m : Machine) : List Text := m.networks.filterMap fun l => l.options.get? (key "id")

inductive Role
  | capture (count : Nat)
  | forward (to : Text) (port : Nat)
deriving Repr

structure Listener where
  machine : Text
  nets : List Text
  ip : List Nat
  port : Nat
  role : Role
deriving Repr

def listeners (s : Sim) : List Listener :=
  s.machines.flatMap fun m =>
    let name := (m.options.get? (key "name")).getD []
    m.applications.filterMap fun a =>
      if appName a = key "capture" then do
        let ip ← appIp a
        let port ← (a.options.get? (key "port")).bind parsePort
        let cnt := ((a.options.get? (key "message_count")).bind parseDec).getD 1
        pure ⟨name, netIds m, ip, port, .capture cnt⟩
      else if appName a = key "forward" then do
        let ip ← appIp a
        let port ← (a.options.get? (key "local_port")).bind parsePort
        let rport ← (a.options.get? (key "remote_port")).bind parsePort
        let to ← a.options.get? (key "to")
        pure ⟨name, netIds m, ip, port, .forward to rport⟩
      else none

/-- where a message put on network `net` for `ip:port` ends up: the capturing machine, if any -/
def deliver (s : Sim) (ls : List Listener) : Nat → Option Text → List Nat → Nat → Option Text
  | 0, _, _, _ => none
  | fuel + 1, net, ip, port =>
    match ls.find? (fun l => l.ip == ip && l.port == port && (match net with | some n => l.nets.contains n | none => false)) with
    | none => none
    | some l =>
      match l.role with
      | .capture _ => some l.machine
      | .forward to rport =>
        match resolve s to with
        | some ip' => deliver s ls fuel l.nets.head? ip' rport
        | none => none

/-- every (capturing machine, message) the description asks for, one entry per copy sent -/
def sends (s : Sim) : List (Text × Text) :=
  let ls := listeners s
  s.machines.flatMap fun m =>
    (List.range (machineCount m)).flatMap fun _ =>
      m.applications.filterMap fun a =>
        if appName a = key "send_message" then do
          let to ← a.options.get? (key "to")
          let ip ← resolve s to
          let port ← (a.options.get? (key "port")).bind parsePort
          let msg ← a.options.get? (key "message")
          let cap ← deliver s ls (ls.length + 1) (netIds m).head? ip port
          pure (cap, msg)
        else none

/-- per capturing machine (in description order): the messages it must have received -/
def expectedDeliveries (s : Sim) : List (Text × List Text) :=
  let d := sends s
  (listeners s).filterMap fun l =>
    match l.role with
    | .capture _ => some (l.machine, (d.filter fun e => e.1 == l.machine).map (·.2))
    | .forward .. => none

def pingPongs (s : Sim) : List Leaf :=
  s.machines.flatMap fun m => m.applications.filter fun a => appName a = key "ping_pong"

/-- must the run end by itself?  Yes when every capture gets at least the number of messages it
    waits for (and there is one), or when a started ping-pong pair is present. -/
def expectedExit (s : Sim) : Bool :=
  let caps := (listeners s).filterMap fun l =>
    match l.role with
    | .capture c => some (l.machine, c)
    | _ => none
  let d := sends s
  let capsDone := !caps.isEmpty && caps.all fun c => decide (c.2 ≤ (d.filter fun e => e.1 == c.1).length)
  let pp := pingPongs s
  let ppDone := pp.length == 2 && pp.any fun a =>
    ((a.options.get? (key "starter")).getD []).map Char.toLower ∈ [key "true", key "t"]
  capsDone || ppDone

end Elvis.Ndl.Run
