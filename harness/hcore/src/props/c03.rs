//! C03: correspondence + oracle runs (sub-commands `c03` / `c03-*`).
use hcommon::*;

pub fn run(args: &Args) {
    eprintln!("hcore: {} not implemented yet", args.prop);
    std::process::exit(2);
}
