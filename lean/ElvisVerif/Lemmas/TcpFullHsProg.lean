import ElvisVerif.Lemmas.TcpFullHsInv
/-!
# Progress of the handshake, one delivery at a time

`All`: all invariants of the development.  For a delivery of history element `σ` of the peer to side `y`:
* `deliver_listen` — `y` only listens, `σ` is a SYN: the TCB is created (rank 2);
* `deliver_ss` — `y` is in SYN-SENT, `σ` carries a SYN: `y` leaves SYN-SENT;
* `deliver_sr` — `y` is in SYN-RECEIVED, `σ` is a trigger (`Trig`: ACK bit, and either no SYN and `SEG.SEQ = ISS_peer + 1`,
  or a SYN-ACK): `y` becomes ESTABLISHED, whatever its reorder heap holds;
* `deliver_es_syn` — `y` is ESTABLISHED, `σ` carries a SYN (a retransmitted SYN-ACK): an ACK is queued.
What a side emits after its timer expired: `batch_syn` (SYN-SENT / SYN-RECEIVED: its SYN / SYN-ACK),
`batch_trig` (ESTABLISHED with the peer in SYN-RECEIVED: a trigger, unless it emits nothing).
-/
namespace Elvis.Tcp.Full
open Elvis.ModCmp Elvis.Tcp.Tcb

structure All (iss : SideId → Seq) (mt : SideId → U16) (s : Sys) : Prop where
  good : Good iss s
  f : FInv iss mt s
  u : UInv iss s
  h : HsInv s

variable {iss : SideId → Seq} {mt : SideId → U16}

theorem all_run {s s' : Sys} (a : All iss mt s) (r : PlainRun s s') (hb : RoomH s') : All iss mt s' :=
  ⟨good_of_run a.good r hb, finv_run a.good.conv a.good.ext a.f r hb, uinv_run a.good.conv a.good.ext a.u r hb,
    hsinv_run a.good.conv a.good.ext a.f a.h r hb⟩

/-- a trigger for the peer in SYN-RECEIVED -/
def Trig (base : Seq) (σ : Segment) : Prop :=
  σ.hdr.ctl.ack = true ∧ ((σ.hdr.ctl.syn = false ∧ off base σ.hdr.seq = 1) ∨
    (σ.hdr.ctl.syn = true ∧ off base σ.hdr.seq = 0))

/-! ## acceptability of a trigger -/

theorem isSeqOk_at_nxt (t : Tcb) (seq : Seq) (len : Nat) (hw : t.rcv.wnd = 65535#16) (hseq : seq = t.rcv.nxt)
    (hlen : len ≤ 65535) : t.isSeqOk (BitVec.ofNat 32 len) seq false false = .ok true := by
  by_cases h0 : len = 0
  · subst h0
    have h16 : (65535#16 : BitVec 16).toNat = 65535 := rfl
    have hw0 : ¬ t.rcv.wnd = 0 := by rw [hw]; decide
    have hin : t.isInRcvWindow t.rcv.nxt = true := by
      rw [isInRcvWindow_iff, hw, h16]
      left
      have : t.rcv.nxt - t.rcv.nxt = 0 := by bv_omega
      rw [this]; decide
    unfold isSeqOk
    rw [hseq]
    simp only [BitVec.toNat_ofNat, Nat.zero_mod, Bool.toNat_false, Nat.add_zero]
    rw [if_neg (by omega), if_pos trivial, if_neg hw0, hin]
  · exact C01.isSeqOk_cover (t := t) (base := t.rcv.nxt) (p := 0) (q := 0) seq hw (by rw [hseq]; simp) (by simp)
      (Nat.le_refl _) (by omega) hlen

theorem isSeqOk_synack (t : Tcb) (seq : Seq) (hw : t.rcv.wnd = 65535#16) (hseq : seq + 1 = t.rcv.nxt) :
    t.isSeqOk (BitVec.ofNat 32 0) seq true false = .ok true := by
  have hw0 : ¬ t.rcv.wnd = 0 := by rw [hw]; decide
  have hin : t.isInRcvWindow seq = true := by
    rw [isInRcvWindow_iff]
    right
    have : seq - t.rcv.nxt = 4294967295#32 := by rw [← hseq]; bv_omega
    rw [this]; rfl
  unfold isSeqOk
  simp only [BitVec.toNat_ofNat, Nat.zero_mod, Bool.toNat_false, Bool.toNat_true, Nat.add_zero, Nat.zero_add]
  rw [if_neg (by omega), if_neg (by omega), if_neg hw0, hin]
  rfl

/-! ## what the invariants say about the segments a side may process -/

theorem segok_of_all {s : Sys} (a : All iss mt s) (y : SideId) (t tp : Tcb) (ht : (s.side y).tcb = some t)
    (htp : (s.side y.peer).tcb = some tp) :
    (∀ σ ∈ s.history, σ.hdr.srcPort = y.peer.port → SegOk (iss y) t.sent σ) ∧
    (∀ g ∈ t.incoming.segments, SegOk (iss y) t.sent g) := by
  have hg := a.good
  have hissx := hg.iss_eq y t ht
  have hAz := hg.conv.full.ack y
  unfold AckLink at hAz
  rw [ht, htp] at hAz
  have r3 := ((hg.conv.full.inv.link y).rcv t tp ht htp).1
  have htop : top (iss y) tp ≤ t.sent := by rw [← hissx]; exact top_le r3
  have f := a.h.tcb y t ht
  refine ⟨fun σ hmem hsrc => ⟨hg.conv.nr.hist σ hmem, fun hab => ?_, a.h.hist σ hmem⟩,
    fun g hgm => ⟨(hg.conv.nr.tcb y t ht).heap g hgm, fun hab => ?_, f.ha g hgm⟩⟩
  · have := hAz.hist t tp rfl rfl σ hmem hsrc hab
    rw [hissx] at this
    exact ⟨this.1, by omega⟩
  · have := hAz.heap t tp rfl rfl g hgm hab
    rw [hissx] at this
    exact ⟨this.1, by omega⟩

/-- the shape of a delivery to a side that has a TCB -/
theorem deliver_tcb {s sb : Sys} {r : Res} (y : SideId) (i : Nat) (σ : Segment) (t : Tcb)
    (ht : (s.side y).tcb = some t) (hn : s.nth i = some σ) (e : s.step (.deliver y i) = .ok (sb, r))
    (gb : Good iss sb) :
    ∃ t', t.segmentArrives σ = .ok (t', .Ok) ∧ sb = s.setSide y { s.side y with tcb := some t' } := by
  simp only [Sys.step, Op.side, hn, Sys.arrive, ht] at e
  split at e
  · cases e
  · rename_i t' h1
    cases e
    exact ⟨t', h1, rfl⟩
  · exfalso
    cases e
    have ha := gb.conv.nr.alive y
    rw [side_setSide_same] at ha
    simp at ha

/-! ## the four deliveries -/

theorem deliver_listen {s sb : Sys} {r : Res} (a : All iss mt s) (y : SideId) (i : Nat) (σ : Segment)
    (hty : (s.side y).tcb = none) (hn : s.nth i = some σ) (hsrc : σ.hdr.srcPort = y.peer.port)
    (hsyn : σ.hdr.ctl.syn = true) (e : s.step (.deliver y i) = .ok (sb, r)) : rk sb y = 2 := by
  have hg := a.good
  have hmem : σ ∈ s.history := nth_mem s i σ hn
  obtain ⟨lis, hlis⟩ : ∃ l, (s.side y).listen = some l := by
    rcases hg.conv.nr.alive y with ha | ha
    · rw [hty] at ha; cases ha
    · exact Option.isSome_iff_exists.1 ha
  obtain ⟨issl, mtu⟩ := lis
  have hlis' : (s.side y).listen.isSome = true := by rw [hlis]; rfl
  -- the peer is in SYN-SENT: nothing it sent has the ACK bit
  obtain ⟨tp, htp⟩ : ∃ tp, (s.side y.peer).tcb = some tp := by
    cases hq : (s.side y.peer).tcb with
    | some tp => exact ⟨tp, rfl⟩
    | none => exact absurd hsrc ((a.f.none y.peer hq).1 σ hmem)
  have hnoack : σ.hdr.ctl.ack = false := by
    have hA := hg.conv.full.ack y.peer
    unfold AckLink at hA
    rw [SideId.peer_peer, hty, hlis', htp] at hA
    exact (hA.fresh tp rfl rfl rfl).1 σ hmem
  have hl := listen_eq σ issl mtu (hg.conv.nr.hist σ hmem) hnoack hsyn
  simp only [Sys.step, Op.side, hn, Sys.arrive, hty, hlis, hl] at e
  cases e
  rw [rk_some (t := listenT σ issl mtu) (by rw [side_setSide_same])]
  rfl

theorem deliver_ss {s sb : Sys} {r : Res} (a : All iss mt s) (y : SideId) (i : Nat) (σ : Segment) (t : Tcb)
    (hty : (s.side y).tcb = some t) (hst : t.state = .SynSent) (hn : s.nth i = some σ)
    (hsrc : σ.hdr.srcPort = y.peer.port) (hsyn : σ.hdr.ctl.syn = true)
    (e : s.step (.deliver y i) = .ok (sb, r)) (gb : Good iss sb) : 2 ≤ rk sb y := by
  have hg := a.good
  have hmem : σ ∈ s.history := nth_mem s i σ hn
  have hval : C01.Valid (iss y.peer) (s.side y.peer).submitted σ := hg.conv.c01.hist σ hmem y.peer hsrc
  obtain ⟨t', e1, rfl⟩ := deliver_tcb y i σ t hty hn e gb
  have hidle := ((hg.ext.wf.side y).1 t hty).2.1
  have hsb : ((s.setSide y { s.side y with tcb := some t' }).side y).tcb = some t' := by rw [side_setSide_same]
  rcases segmentArrives_ss t σ t' e1 hst (hidle hst) hsyn (hg.conv.nr.hist σ hmem) hval.fin with h | ⟨h, hh, hr⟩
  · rw [rk_some hsb]
    rcases (gb.tinv y t' hsb).st.cases with h0 | h0 | h0
    · exact absurd h0 h
    · rw [h0]; decide
    · rw [h0]; decide
  · have := (gb.conv.nr.tcb y t' hsb).one h hh
    rw [hr] at this; cases this

theorem deliver_sr {s sb : Sys} {r : Res} (a : All iss mt s) (y : SideId) (i : Nat) (σ : Segment) (t : Tcb)
    (hty : (s.side y).tcb = some t) (hst : t.state = .SynReceived) (hn : s.nth i = some σ)
    (hsrc : σ.hdr.srcPort = y.peer.port) (htr : Trig (iss y.peer) σ)
    (e : s.step (.deliver y i) = .ok (sb, r)) (gb : Good iss sb) : rk sb y = 3 := by
  have hg := a.good
  have hmem : σ ∈ s.history := nth_mem s i σ hn
  have hval : C01.Valid (iss y.peer) (s.side y.peer).submitted σ := hg.conv.c01.hist σ hmem y.peer hsrc
  obtain ⟨tp, htp⟩ : ∃ tp, (s.side y.peer).tcb = some tp := by
    cases hq : (s.side y.peer).tcb with
    | some tp => exact ⟨tp, rfl⟩
    | none => exact absurd hsrc ((a.f.none y.peer hq).1 σ hmem)
  obtain ⟨t', e1, rfl⟩ := deliver_tcb y i σ t hty hn e gb
  obtain ⟨so1, so2⟩ := segok_of_all a y t tp hty htp
  have ti := hg.tinv y t hty
  have hns : t.state ≠ .SynSent := by rw [hst]; simp
  have h31 : (s.side y.peer).submitted.length < 2147483648 := by have := hg.room.side y.peer; omega
  obtain ⟨r1, _⟩ := (a.h.tcb y t hty).r hst
  have hirs := ti.irs hns
  have hnx : t.rcv.nxt = iss y.peer + 1 := by rw [r1, hirs]
  have hq : off (iss y.peer) t.rcv.nxt = 1 := by
    rw [hnx, off_add_one _ _ (by rw [off_self]; omega), off_self]
  have hw := hg.wnd y t hty
  obtain ⟨hab, hshape⟩ := htr
  have hpay : σ.text.length ≤ 65535 := by
    have := hg.ext.wf.hist σ hmem
    have : MAX_PAYLOAD = 65515 := rfl
    omega
  have hok : t.isSeqOk (BitVec.ofNat 32 σ.text.length) σ.hdr.seq σ.hdr.ctl.syn σ.hdr.ctl.fin = .ok true := by
    rw [hval.fin]
    rcases hshape with ⟨hsyn, ho⟩ | ⟨hsyn, ho⟩
    · rw [hsyn]
      exact isSeqOk_at_nxt t σ.hdr.seq σ.text.length hw (off_inj (base := iss y.peer) (by rw [ho, hq])) hpay
    · rw [hsyn, (hval.syn hsyn).2]
      have hseq : σ.hdr.seq = iss y.peer := (hval.syn hsyn).1
      exact isSeqOk_synack t σ.hdr.seq hw (by rw [hseq, hnx])
  have hoff : off (iss y.peer) σ.hdr.seq ≤ 1 := by
    rcases hshape with ⟨_, ho⟩ | ⟨_, ho⟩ <;> omega
  have hes := segmentArrives_trig (hg.sent_lt y t hty) t σ t' e1 ti h31 hval (early_of_conv hg.conv y t hty) rfl
    (so1 σ hmem hsrc) so2 (a.f.tcb y t hty).hk hst hq hab hoff hok
  rw [rk_some (t := t') (by rw [side_setSide_same]), hes]
  rfl

/-- the one-shot queue of side `x` is not empty -/
def NE (s : Sys) (x : SideId) : Prop := ∃ t, (s.side x).tcb = some t ∧ t.outgoing.oneshot ≠ []

theorem oneshot_grows (t : Tcb) (g : Segment) (t' : Tcb) (r : SegmentArrivesResult)
    (e : t.segmentArrives g = .ok (t', r)) : ∃ L, t'.outgoing.oneshot = t.outgoing.oneshot ++ L := by
  have ht : t = pre t.outgoing.oneshot { t with outgoing.oneshot := [] } := by
    unfold pre
    simp
  rw [ht, pre_segmentArrives] at e
  cases h0 : ({ t with outgoing.oneshot := [] } : Tcb).segmentArrives g with
  | error x => rw [h0] at e; cases e
  | ok p =>
    obtain ⟨t0, r0⟩ := p
    rw [h0] at e
    simp only [mapT_ok, Except.ok.injEq, Prod.mk.injEq] at e
    rw [← e.1]
    exact ⟨t0.outgoing.oneshot, rfl⟩

theorem drain_oneshot_grows (fuel : Nat) (t t' : Tcb) (r : SegmentArrivesResult)
    (e : drain fuel t = .ok (t', r)) : ∃ L, t'.outgoing.oneshot = t.outgoing.oneshot ++ L := by
  have ht : t = pre t.outgoing.oneshot { t with outgoing.oneshot := [] } := by
    unfold pre
    simp
  rw [ht, pre_drain] at e
  cases h0 : drain fuel ({ t with outgoing.oneshot := [] } : Tcb) with
  | error x => rw [h0] at e; cases e
  | ok p =>
    obtain ⟨t0, r0⟩ := p
    rw [h0] at e
    simp only [mapT_ok, Except.ok.injEq, Prod.mk.injEq] at e
    rw [← e.1]
    exact ⟨t0.outgoing.oneshot, rfl⟩

/-- `process_segment` in ESTABLISHED on a SYN-bearing segment (no RST) with an ACK field in range: an ACK is queued -/
theorem proc_est_syn {issx : Seq} {N : Nat} (hN : N < 2147483648) (t : Tcb) (g : Segment) (t' : Tcb)
    (r : ProcessSegmentResult) (e : t.processSegment g = .ok (t', r)) (hst : t.state = .Established)
    (hiss : t.snd.iss = issx) (hsent : t.sent = N) (hu : off issx t.snd.una ≤ N) (hsyn : g.hdr.ctl.syn = true)
    (hrst : g.hdr.ctl.rst = false) (ha : g.hdr.ctl.ack = true → 1 ≤ off issx g.hdr.ack ∧ off issx g.hdr.ack ≤ N) :
    t'.outgoing.oneshot ≠ [] := by
  unfold processSegment at e
  dsimp only at e
  cases h1 : seqCheck t g.hdr (BitVec.ofNat 32 g.text.length) with
  | error x => rw [h1] at e; simp [B.andThen] at e
  | ok p1 =>
    obtain ⟨t1, r1⟩ := p1
    rw [h1] at e
    cases r1 with
    | some r1 =>
      simp only [andThen_some, Except.ok.injEq, Prod.mk.injEq] at e
      rw [← e.1]
      unfold seqCheck at h1
      rw [hst] at h1
      dsimp only at h1
      split at h1
      · cases h1
      · cases h1
      · rw [enqueueThen_eq] at h1
        cases h1
        rw [enqueueBuilt_plain _ _ rfl rfl]
        simp
    | none =>
      have e1 : t1 = t := C01.seqCheck_none h1
      subst e1
      simp only [andThen_none] at e
      have key : ∃ t2, ackBlock t1 g.hdr = .ok (t2, none) ∧ t2.state = .Established := by
        cases hab : g.hdr.ctl.ack with
        | false =>
          refine ⟨t1, ?_, hst⟩
          unfold ackBlock
          rw [if_pos (by simp [hab])]
        | true =>
          obtain ⟨t2, e2, fx⟩ := ackEst_k hN t1 g.hdr hiss hsent hu (ha hab)
          refine ⟨t2, ?_, by rw [fx.st]; exact hst⟩
          unfold ackBlock
          rw [if_neg (by simp [hab]), hst]
          dsimp only
          unfold afterAckEstablished
          rw [e2]
          simp
      obtain ⟨t2, h2, st2⟩ := key
      rw [h2] at e
      simp only [andThen_none] at e
      have h3 : rstBlock t2 g.hdr = .ok (t2, none) := by
        unfold rstBlock
        rw [if_pos (by simp [hrst])]
      rw [h3] at e
      simp only [andThen_none] at e
      have h4 : synBlock t2 g.hdr = .ok (t2.enqueueBuilt t2.ackHdr.built, some .DiscardSegment) := by
        unfold synBlock
        rw [if_neg (by simp [hsyn]), st2]
        dsimp only
        rw [enqueueThen_eq]
      rw [h4] at e
      simp only [andThen_some, Except.ok.injEq, Prod.mk.injEq] at e
      rw [← e.1, enqueueBuilt_plain _ _ rfl rfl]
      simp

theorem deliver_es_syn {s sb : Sys} {r : Res} (a : All iss mt s) (y : SideId) (i : Nat) (σ : Segment) (t : Tcb)
    (hty : (s.side y).tcb = some t) (hst : t.state = .Established) (hn : s.nth i = some σ)
    (hsrc : σ.hdr.srcPort = y.peer.port) (hsyn : σ.hdr.ctl.syn = true)
    (e : s.step (.deliver y i) = .ok (sb, r)) (gb : Good iss sb) : NE sb y := by
  have hg := a.good
  have hmem : σ ∈ s.history := nth_mem s i σ hn
  have hval : C01.Valid (iss y.peer) (s.side y.peer).submitted σ := hg.conv.c01.hist σ hmem y.peer hsrc
  obtain ⟨tp, htp⟩ : ∃ tp, (s.side y.peer).tcb = some tp := by
    cases hq : (s.side y.peer).tcb with
    | some tp => exact ⟨tp, rfl⟩
    | none => exact absurd hsrc ((a.f.none y.peer hq).1 σ hmem)
  obtain ⟨t', e1, rfl⟩ := deliver_tcb y i σ t hty hn e gb
  obtain ⟨so1, so2⟩ := segok_of_all a y t tp hty htp
  refine ⟨t', by rw [side_setSide_same], ?_⟩
  have hns : t.state ≠ .SynSent := by rw [hst]; simp
  rcases arrive_unfold t σ t' e1 with ⟨_, rfl, _⟩ | ⟨_, e2⟩
  · rw [enqueueBuilt_plain _ _ rfl rfl]; simp
  · -- the SYN-bearing segment sits at `ISS_peer`, before `RCV.NXT`: it is the root and is popped at once
    have ft := a.f.tcb y t hty
    have ti := hg.tinv y t hty
    have hseq0 : off (iss y.peer) σ.hdr.seq = 0 := by rw [(hval.syn hsyn).1, off_self]
    have h31 : (s.side y.peer).submitted.length + 1 < 2147483648 := by have := hg.room.side y.peer; omega
    obtain ⟨hq, _⟩ := tinv_rcv_off ti hns h31
    have hwin : ∀ x ∈ t.incoming.segments ++ [σ], InWin (iss y.peer) x := by
      intro x hx
      rcases List.mem_append.1 hx with hx | hx
      · exact ft.hk.win x hx
      · simp only [List.mem_singleton] at hx
        rw [hx]; unfold InWin; omega
    have hheapP := LHeap.push_isHeap (leK_tp (iss y.peer)) _ σ (agree_of_win (iss y.peer) _ hwin) ft.hk.heap
    rcases drain_unfold _ _ t' e2 with ⟨_, hpk⟩ | ⟨top, rest, s1, r1, hpeek, hpop, _, hp, hd, e3⟩
    · exfalso
      rcases hpk with hpk | ⟨top, hpeek, _, hgt⟩
      · have hm : σ ∈ LHeap.push segLe t.incoming.segments σ := LHeap.mem_push.2 (Or.inl rfl)
        cases hl : LHeap.push segLe t.incoming.segments σ with
        | nil => rw [hl] at hm; cases hm
        | cons a u =>
          have : LHeap.peek (LHeap.push segLe t.incoming.segments σ) = none := hpk
          rw [hl] at this; simp [LHeap.peek] at this
      · have hpeek' : LHeap.peek (LHeap.push segLe t.incoming.segments σ) = some top := hpeek
        have hmax := LHeap.peek_max (leK_tp (iss y.peer)) _ top hpeek' hheapP σ (LHeap.mem_push.2 (Or.inl rfl))
        unfold leK at hmax
        simp only [decide_eq_true_eq] at hmax
        have hgt' : modGt top.hdr.seq t.rcv.nxt = true := hgt
        have := (modGt_iff_off (iss y.peer) top.hdr.seq t.rcv.nxt (by omega) (by omega)).1 hgt'
        omega
    · have hpeek' : LHeap.peek (LHeap.push segLe t.incoming.segments σ) = some top := hpeek
      have hmax := LHeap.peek_max (leK_tp (iss y.peer)) _ top hpeek' hheapP σ (LHeap.mem_push.2 (Or.inl rfl))
      unfold leK at hmax
      simp only [decide_eq_true_eq] at hmax
      have hpop' : LHeap.pop segLe (LHeap.push segLe t.incoming.segments σ) = (some top, rest) := hpop
      have htopm := (LHeap.mem_of_mem_pop hpop').1
      have htop : top = σ := by
        rcases LHeap.mem_push.1 htopm with h | h
        · exact h
        · have := ft.ahead hst top h
          omega
      subst htop
      have hu := una_le_sent_of_conv hg.conv y t hty
      rw [hg.iss_eq y t hty] at hu
      have hne := proc_est_syn (hg.sent_lt y t hty) _ top s1 r1 hp hst (hg.iss_eq y t hty) rfl hu hsyn
        (hg.conv.nr.hist top hmem) (so1 top hmem hsrc).ack
      obtain ⟨L, hL⟩ := drain_oneshot_grows _ s1 t' .Ok e3
      rw [hL]
      intro h0
      exact hne (List.append_eq_nil_iff.1 h0).1

end Elvis.Tcp.Full
