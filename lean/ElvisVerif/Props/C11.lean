import ElvisVerif.Model.Reasm
/-!
# C11 — IPv4 reassembly rebuilds exactly the datagrams that were fragmented

Stage 1: the two defects of the code as found (`Cfg.orig`), as concrete witnesses.
-/
namespace Elvis.Reasm
open Elvis.Frag

/-- a 16-octet datagram and its two 8-octet fragments -/
def exH : Hdr :=
  { ihl := 5, tos := 0, totalLength := 36, ident := 7, fragOffset := 0, flags := 0, ttl := 64,
    proto := 17, checksum := 0, src := 1, dst := 2 }
def exB : List UInt8 := [1, 2, 3, 4, 5, 6, 7, 8, 9, 10, 11, 12, 13, 14, 15, 16]
def exF1 : Hdr := { exH with totalLength := 28, flags := 1 }
def exF2 : Hdr := { exH with totalLength := 28, fragOffset := 1 }
def exId : BufId := BufId.ofHdr exH

/-- payload lengths of the datagrams returned by a run (0 for anything else) -/
def returnedLengths (os : List Out) : List Nat :=
  os.map fun o => match o with | .res (.complete _ b) => b.length | _ => 0

/-- **F-C11-1** (code as found): the first fragment delivered twice is appended twice — a
    24-octet payload is returned for a 16-octet datagram. -/
theorem c11_duplicate_counterexample :
    returnedLengths (run Cfg.orig Reassembly.new
      [.pkt exF1 (exB.take 8), .pkt exF1 (exB.take 8), .pkt exF2 (exB.drop 8)]).2 = [0, 0, 24] := by
  decide

/-- buffer presence reported by the culls of a run -/
def cullEffects (os : List Out) : List (Bool × Bool) :=
  os.filterMap fun o => match o with | .culled a b => some (a, b) | _ => none

/-- **F-C11-2** (code as found): datagram A completes (its first arrival issued the token
    `(id, 1)`); datagram B reuses the identification, its first arrival gets epoch 1 again; A's
    stale timer frees B's buffer, and B is never returned although all of it arrived. -/
theorem c11_stale_token_counterexample :
    let os := (run Cfg.orig Reassembly.new
      [.pkt exF2 (exB.drop 8), .pkt exF1 (exB.take 8),          -- A: token (id,1), then complete
       .pkt exF2 (exB.drop 8),                                  -- B: epoch 1 again
       .cull exId 1,                                            -- A's timer
       .pkt exF1 (exB.take 8)]).2                               -- rest of B
    cullEffects os = [(true, false)] ∧ returnedLengths os = [0, 16, 0, 0, 0] := by
  decide

end Elvis.Reasm
