import ElvisVerif.Props.C03Release
import ElvisVerif.Props.C01Full
import ElvisVerif.Lemmas.TcpRelOrder
import ElvisVerif.Lemmas.TcpRelMirror
import ElvisVerif.Lemmas.TcpRelData
import ElvisVerif.Lemmas.TcpRelData2
import ElvisVerif.Lemmas.TcpRelLoss
import ElvisVerif.Lemmas.TcpRelRough
import ElvisVerif.Lemmas.TcpRelStmt
import ElvisVerif.Lemmas.TcpRelNone
import ElvisVerif.Props.C03FinData
/-!
# C03 — release after both applications close, from ANY reachable state of the closed system (closes after quiescence)

`c03_release_after_convergence` composes `c01_converges_full_bound` (`Props/C01Full.lean`: from every reachable state of
the closed system without close at most 15 fair rounds end `Done`) with the two release theorems of
`Props/C03Release.lean`.  This removes the "from `Done` states" restriction of `c03_release_simultaneous_partial` /
`c03_release_sequential_partial` for closes issued after quiescence.  The general statement (closes issued at ANY
reachable state, with data queued or in flight) is `C03ReleaseStatement` (`Props/C03Release.lean`), still open.
-/
namespace Elvis.Tcp
open Tcb Elvis.Tcp.Fin

/-- **Release after convergence, from every reachable state.**  Let `s` be ANY state of the closed two-endpoint system
    reachable from `open A` + (`listen B` | `open B`) by a `PlainRun` (any ISNs, MTUs ≥ 100, any finite interleaving of
    writes, reads, ticks, `segments()` and deliveries of any history element to its addressee — loss, duplication,
    reordering, delay —; TCBs in SYN-SENT / SYN-RECEIVED / ESTABLISHED or the passive side still without TCB, anything on
    the retransmission queues, in the reorder heaps and in the receive buffers; H31).  Then there is an explicit list of at
    most 15 fair rounds (`fairRound k` = both retransmission timers expire — `RTO + 1` ms on each side —, then `k`
    exchange phases), in all at most `16 + 2⌈max |submitted| / 65535⌉` exchange phases, after which the state `s1` is
    `Done`, and from `s1`
    * **simultaneous close, either order**: `releaseRound` (close A, close B, two exchange phases, `2·MSL + 1` ms on each
      side) and `releaseRoundBA` (close B, close A, …) are defined and end in the same state `s2`;
    * **sequential close**: `releaseRoundSeq` (close A; two exchange phases: A FIN-WAIT-2, B has seen the end of the
      stream and is in CLOSE-WAIT; close B; two exchange phases: B's TCB deleted by A's ACK of its FIN; `2·MSL + 1` ms
      on A's side: A's TCB deleted by the TIME-WAIT timeout) is defined, and so is its mirror image `releaseRoundSeqBA`
      (B's application closes first, A's after it has seen the end of the stream; A's TCB deleted by B's ACK of its FIN,
      B's by the TIME-WAIT timeout);
    and in each case **both TCBs are deleted**, the streams are complete and exact (`delivered = submitted` in both
    directions, `submitted` being the logs of the starting state `s`), exactly four more segments have been emitted, and
    the final state is reachable from `s` by a `FinRun`.  Virtual time spent on each side from `s` to the deletion:
    `rounds.length · (RTO + 1) + 2·MSL + 1 ≤ 15·(RTO + 1) + 2·MSL + 1` ms, of which `2·MSL + 1` after the second
    `close()` — within the bound `2·MSL + RTO` of DESIGN.md section 8 counted from the last (re)transmission, since no
    retransmission is needed after the closes. -/
theorem c03_release_after_convergence (ia ib : Seq) (ma mb : U16) (simultaneous : Bool) (sys0 s : Sys) (rs : List Res)
    (hma : 100 ≤ ma.toNat) (hmb : 100 ≤ mb.toNat)
    (h0 : Sys.run {} [.open .A ia ma, if simultaneous then .open .B ib mb else .listen .B ib mb] = .ok (sys0, rs))
    (hrun : PlainRun sys0 s) (h31 : RoomH s) :
    ∃ (rounds : List Nat) (s1 : Sys) (ta tb : Tcb),
      (rounds.foldlM (fun st k => fairRound k st) s = .ok s1) ∧ PlainRun s s1 ∧ Done s1 ta tb ∧
      rounds.length ≤ 15 ∧
      rounds.sum ≤ 16 + 2 * ((max s.a.submitted.length s.b.submitted.length + 65534) / 65535) ∧
      (∃ s2, releaseRound s1 = .ok s2 ∧ releaseRoundBA s1 = .ok s2 ∧ FinRun s s2 ∧
        s2.a.tcb = none ∧ s2.b.tcb = none ∧ s2.b.delivered = s2.a.submitted ∧ s2.a.delivered = s2.b.submitted ∧
        s2.a.submitted = s.a.submitted ∧ s2.b.submitted = s.b.submitted ∧ s2.historyLen = s1.historyLen + 4) ∧
      (∃ s2, releaseRoundSeq s1 = .ok s2 ∧ FinRun s s2 ∧
        s2.a.tcb = none ∧ s2.b.tcb = none ∧ s2.b.delivered = s2.a.submitted ∧ s2.a.delivered = s2.b.submitted ∧
        s2.a.submitted = s.a.submitted ∧ s2.b.submitted = s.b.submitted ∧ s2.historyLen = s1.historyLen + 4) ∧
      (∃ s2, releaseRoundSeqBA s1 = .ok s2 ∧ FinRun s s2 ∧
        s2.a.tcb = none ∧ s2.b.tcb = none ∧ s2.b.delivered = s2.a.submitted ∧ s2.a.delivered = s2.b.submitted ∧
        s2.a.submitted = s.a.submitted ∧ s2.b.submitted = s.b.submitted ∧ s2.historyLen = s1.historyLen + 4) := by
  have h50 : SPACE_FOR_HEADERS = 50 := rfl
  obtain ⟨rounds, s1, ta, tb, hfold, p1, hd, _, _, sa1, sb1, hlen, hsum, _, _⟩ :=
    c01_converges_full_bound ia ib ma mb simultaneous sys0 s rs hma hmb h0 hrun h31
  have h31' : RoomH s1 := by
    unfold RoomH
    rw [sa1, sb1]
    exact h31
  have hrun1 : PlainRun sys0 s1 := hrun.trans p1
  obtain ⟨s2, e2, r2, na, nb, d1, d2, sa, sb, hl⟩ := c03_release_simultaneous_partial ia ib ma mb simultaneous sys0 s1 rs
    (by omega) (by omega) h0 hrun1 h31' ta tb hd
  obtain ⟨s3, e3, r3, na3, nb3, d13, d23, sa3, sb3, hl3⟩ := c03_release_sequential_partial ia ib ma mb simultaneous sys0
    s1 rs (by omega) (by omega) h0 hrun1 h31' ta tb hd
  refine ⟨rounds, s1, ta, tb, hfold, p1, hd, hlen, hsum,
    ⟨s2, e2, releaseRoundBA_of_releaseRound s1 s2 e2, (FinRun.of_plain p1).trans r2, na, nb, d1, d2, sa.trans sa1,
      sb.trans sb1, hl⟩,
    ⟨s3, e3, (FinRun.of_plain p1).trans r3, na3, nb3, d13, d23, sa3.trans sa1, sb3.trans sb1, hl3⟩, ?_⟩
  have hg := good_of_reach ia ib ma mb simultaneous sys0 s1 rs (by omega) (by omega) h0 hrun1 h31'
  obtain ⟨qa, qb⟩ := quiet_of_done hg ta tb hd
  obtain ⟨x1, x2⟩ := done_stream hg ta tb hd
  obtain ⟨s4, e4, r4, na4, nb4, ya, yb, za, zb, hl4⟩ := release_sequential_BA s1 ta tb hd.steady.ha hd.steady.hb qa qb
  have ya' : s4.a.submitted = s1.a.submitted := ya
  have yb' : s4.b.submitted = s1.b.submitted := yb
  have za' : s4.a.delivered = s1.a.delivered := za
  have zb' : s4.b.delivered = s1.b.delivered := zb
  exact ⟨s4, e4, (FinRun.of_plain p1).trans r4, na4, nb4, by rw [zb', ya']; exact x1, by rw [za', yb']; exact x2,
    ya'.trans sa1, yb'.trans sb1, hl4⟩

/-! ## non-vacuity -/

/-- the three pre-ESTABLISHED reachable states of `hsCheck` (`Props/C01Full.lean`: SYN lost; third handshake segment lost;
    simultaneous open with both SYNs lost) and the state of `roughCheck` (parked segments, lost data, a lost ACK): rounds as
    promised, then each of the three closing schedules deletes both TCBs with the streams complete -/
def afterConvCheck : Bool :=
  let fin (s' : Sys) (da db : List UInt8) : Bool :=
    (match releaseRound s' with
      | .ok s2 => s2.a.tcb.isNone && s2.b.tcb.isNone && s2.b.delivered == db && s2.a.delivered == da &&
          s2.historyLen == s'.historyLen + 4
      | .error _ => false) &&
    (match releaseRoundBA s' with
      | .ok s2 => s2.a.tcb.isNone && s2.b.tcb.isNone && s2.b.delivered == db && s2.a.delivered == da
      | .error _ => false) &&
    (match releaseRoundSeq s' with
      | .ok s2 => s2.a.tcb.isNone && s2.b.tcb.isNone && s2.b.delivered == db && s2.a.delivered == da &&
          s2.historyLen == s'.historyLen + 4
      | .error _ => false) &&
    (match releaseRoundSeqBA s' with
      | .ok s2 => s2.a.tcb.isNone && s2.b.tcb.isNone && s2.b.delivered == db && s2.a.delivered == da &&
          s2.historyLen == s'.historyLen + 4
      | .error _ => false)
  (match Sys.run {} [.open .A 1000 1500, .listen .B 5000 1500] with
    | .ok (sys0, _) =>
      (match plainRunB sys0 [.emit .A, .write .A [1, 2, 3]] with
        | some s => s.b.tcb.isNone &&
            (match runRounds s [1, 1, 1, 1, 4] with
              | .ok s' => fin s' [] [1, 2, 3]
              | .error _ => false)
        | none => false) &&
      (match plainRunB sys0 roughOps with
        | some s =>
            (match runRounds s [1, 4] with
              | .ok s' => fin s' [9, 8] [1, 2, 3, 4, 5, 6]
              | .error _ => false)
        | none => false)
    | .error _ => false) &&
  (match Sys.run {} [.open .A 1000 1500, .open .B 5000 1500] with
    | .ok (sys0, _) =>
      (match plainRunB sys0 [.emit .A, .emit .B, .write .A [1], .write .B [2]] with
        | some s =>
            (match runRounds s [1, 1, 1, 1, 4] with
              | .ok s' => fin s' [2] [1]
              | .error _ => false)
        | none => false)
    | .error _ => false)

example : afterConvCheck = true := by decide

/-! ## close issued while unsent text is still queued -/

/-- **Close with data queued** (`_partial`: the starting states are the steady states of `Props/C01Converge.lean` with at
    most one window of unsent text on the closing side and a quiet peer; the schedule is fixed).  Let `s` be a reachable
    *steady* state of the closed system (both ESTABLISHED, MTU > SPACE_FOR_HEADERS, reorder heaps and receive buffers
    empty, `RCV.NXT_peer = SND.NXT` both ways; any ISNs, MTUs, history) with empty retransmission and one-shot queues in
    which A's application has written text that has not been segmentized yet (`0 < |unsent| ≤ 65535`) and B has nothing
    to send.  A's application calls `close()` — FIN-WAIT-1, but NO FIN is formed (`queue_fin` while text is queued:
    `fin_pending`).  Under `closeDataFront` (= `close A`, two exchange phases):
    * phase 1: `segments()` in FIN-WAIT-1 cuts exactly the segments the ESTABLISHED endpoint would have cut
      (`Tcb.segments_twin`), `fin_if_pending` then numbers the FIN **behind the last text byte** and it leaves in the same
      batch; B takes the data in order and only then the FIN (CLOSE-WAIT); B's application reads: at that point
      **everything A submitted has been handed to B's application** (`delivered_B = submitted_A`, by `c03_fin_after_data`);
    * phase 2: B's ACKs (one per data segment, then the ACK of the FIN) empty A's retransmission queue and take A to
      **FIN-WAIT-2**; B is in CLOSE-WAIT; nothing is queued, unsent, buffered or parked on either side (`RestX`).
    When B's application then closes (`releaseTail` = `close B`, two exchange phases, `2·MSL + 1` ms on A's side): LAST-ACK,
    A TIME-WAIT, **B's TCB is deleted by A's ACK of its FIN and A's by the TIME-WAIT timeout**; both streams are complete
    and exact.  No step panics; the whole schedule is a `FinRun`.  NOT covered: more than one window of unsent text (the
    closer keeps segmentizing in FIN-WAIT-1 over several phases), text unsent on both sides, retransmission queues
    non-empty at the close (`C03ReleaseStatement`, `Props/C03Release.lean`). -/
theorem c03_close_with_data_queued_partial (ia ib : Seq) (ma mb : U16) (simultaneous : Bool) (sys0 s : Sys)
    (rs : List Res) (hma : SPACE_FOR_HEADERS ≤ ma.toNat) (hmb : SPACE_FOR_HEADERS ≤ mb.toNat)
    (h0 : Sys.run {} [.open .A ia ma, if simultaneous then .open .B ib mb else .listen .B ib mb] = .ok (sys0, rs))
    (hrun : PlainRun sys0 s) (h31 : RoomH s) (ta tb : Tcb) (hs : Steady s ta tb)
    (qa : ta.outgoing.retransmit = []) (qb : tb.outgoing.retransmit = [])
    (oa : ta.outgoing.oneshot = []) (ob : tb.outgoing.oneshot = []) (tbt : tb.outgoing.text = [])
    (hne : ta.outgoing.text ≠ []) (hlen : ta.outgoing.text.length ≤ 65535) :
    ∃ s1 ta1 tb1 s2, closeDataFront s = .ok s1 ∧ FinRun s s1 ∧ s1.a.tcb = some ta1 ∧ s1.b.tcb = some tb1 ∧
      ta1.state = .FinWait2 ∧ tb1.state = .CloseWait ∧ RestX .A ta1 tb1 ∧ RestX .B tb1 ta1 ∧
      s1.b.delivered = s1.a.submitted ∧ s1.a.submitted = s.a.submitted ∧
      releaseTail s1 = .ok s2 ∧ closeDataRound s = .ok s2 ∧ FinRun s s2 ∧ s2.a.tcb = none ∧ s2.b.tcb = none ∧
      s2.b.delivered = s2.a.submitted ∧ s2.a.delivered = s2.b.submitted ∧
      s2.a.submitted = s.a.submitted ∧ s2.b.submitted = s.b.submitted := by
  have hg := good_of_reach ia ib ma mb simultaneous sys0 s rs hma hmb h0 hrun h31
  obtain ⟨s1, ta1, tb1, s2, e1, r1, h1a, h1b, sa, sb, ca, cb, u1, u2, u3, e12, e2, r2, na, nb, v1, v2, v3, v4, _⟩ :=
    close_data_release s hg ta tb hs qa qb oa ob tbt hne hlen
  -- everything A submitted has reached B's application when B is in CLOSE-WAIT
  have hfr : FinRun sys0 s1 := (FinRun.of_plain hrun).trans r1
  have hlt : C01.Lt31 s1 := by
    have := h31.lt31
    exact ⟨by show (s1.side .A).submitted.length < _; rw [u1]; exact this.1,
      by show (s1.side .B).submitted.length < _; rw [u2]; exact this.2⟩
  have hfin := (C03.c03_fin_after_data ia ib ma mb simultaneous sys0 s1 ⟨rs, h0⟩ hfr hlt .B tb1 h1b (by rw [sb]; rfl)).1
  rw [cb.buf, List.append_nil] at hfin
  have hdB : (s1.side .B).delivered = (s1.side .A).submitted := hfin
  -- B had nothing unsent: A's application already holds everything B submitted
  have hdA : (s.side .A).delivered = (s.side .B).submitted :=
    steady_stream hg .B tb ta hs.hb hs.ha hs.b hs.a tbt
  exact ⟨s1, ta1, tb1, s2, e1, r1, h1a, h1b, sa, sb, ca, cb, hdB, u1, e2, e12, r1.trans r2, na, nb,
    by show (s2.side .B).delivered = (s2.side .A).submitted; rw [v4, hdB, u1, v1],
    by show (s2.side .A).delivered = (s2.side .B).submitted; rw [v3, hdA, v2], v1, v2⟩

/-- handshake completed, A's application has written [1, 2, 3] (nothing emitted yet), B is idle -/
def dataOps : List Op :=
  [.emit .A, .deliver .B 0, .emit .B, .deliver .A 1, .emit .A, .deliver .B 2, .write .A [1, 2, 3]]

def closeDataCheck : Bool :=
  match Sys.run {} [.open .A 1000 1500, .listen .B 5000 1500] with
  | .ok (sys0, _) =>
    match plainRunB sys0 dataOps with
    | some s =>
      decide (s.a.submitted.length + 2 < 2147483648) && decide (s.b.submitted.length + 2 < 2147483648) &&
      (match s.a.tcb, s.b.tcb with
        | some ta, some tb => steadyXB ta tb && steadyXB tb ta && ta.outgoing.retransmit.isEmpty &&
            tb.outgoing.retransmit.isEmpty && ta.outgoing.oneshot.isEmpty && tb.outgoing.oneshot.isEmpty &&
            tb.outgoing.text.isEmpty && ta.outgoing.text == [1, 2, 3]
        | _, _ => false) &&
      (match closeDataFront s with
        | .ok s1 =>
          (match s1.a.tcb, s1.b.tcb with
            | some ta1, some tb1 => ta1.state == .FinWait2 && tb1.state == .CloseWait
            | _, _ => false) && s1.b.delivered == [1, 2, 3] && s1.historyLen == 7 &&
          (match releaseTail s1 with
            | .ok s2 => s2.a.tcb.isNone && s2.b.tcb.isNone && s2.b.delivered == [1, 2, 3] && s2.a.delivered == [] &&
                s2.historyLen == 9
            | .error _ => false)
        | .error _ => false)
    | none => false
  | .error _ => false

/-- the hypotheses of `c03_close_with_data_queued_partial` hold in that reachable state, and the schedule, evaluated:
    data segment, FIN, two ACKs (A in FIN-WAIT-2, B in CLOSE-WAIT holding [1, 2, 3]), then FIN and ACK: both TCBs deleted;
    9 segments in all (3 handshake, 6 data / closing) -/
example : ∃ sys0 s : Sys, ∃ rs, ∃ ta tb : Tcb,
    Sys.run {} [.open .A 1000 1500, if false then .open .B 5000 1500 else .listen .B 5000 1500] = .ok (sys0, rs) ∧
    PlainRun sys0 s ∧ RoomH s ∧ Steady s ta tb ∧ ta.outgoing.retransmit = [] ∧ tb.outgoing.retransmit = [] ∧
    ta.outgoing.oneshot = [] ∧ tb.outgoing.oneshot = [] ∧ tb.outgoing.text = [] ∧ ta.outgoing.text ≠ [] ∧
    ta.outgoing.text.length ≤ 65535 := by
  have key : closeDataCheck = true := by decide
  unfold closeDataCheck at key
  split at key
  · rename_i sys0 rs e0
    split at key
    · rename_i s e1
      simp only [Bool.and_eq_true, decide_eq_true_eq] at key
      obtain ⟨⟨⟨r1, r2⟩, k1⟩, _⟩ := key
      split at k1
      · rename_i ta tb hta htb
        simp only [Bool.and_eq_true, List.isEmpty_iff, beq_iff_eq] at k1
        obtain ⟨⟨⟨⟨⟨⟨⟨x1, x2⟩, x3⟩, x4⟩, x5⟩, x6⟩, x7⟩, x8⟩ := k1
        exact ⟨sys0, s, rs, ta, tb, e0, plainRunB_sound _ _ _ e1, ⟨r1, r2⟩,
          ⟨hta, htb, steadyXB_sound _ _ x1, steadyXB_sound _ _ x2⟩, x3, x4, x5, x6, x7, by rw [x8]; simp,
          by rw [x8]; decide⟩
      · simp at k1
    · simp at key
  · simp at key

example : closeDataCheck = true := by decide

/-- **Close with ANY amount of data queued** (`_partial`: steady starting states with a quiet peer; fair loss-free
    schedule).  As `c03_close_with_data_queued_partial`, but: either retransmission queue may hold data the other side has
    received and acknowledged by a pure ACK still waiting on its one-shot queue (the steady states a fair exchange passes
    through: B need not be idle, it only has nothing UNSENT), and
    A's unsent text is only bounded by `65535·n` bytes for some `n ≥ 1` (H31 apart; NO unsent text is allowed: then `close()`
    itself numbers the FIN, behind the data in flight, `close_data_none`).  After `close A` the closer **keeps
    segmentizing in FIN-WAIT-1**: in every exchange phase it cuts exactly what the window admits — the segments its
    ESTABLISHED twin would cut (`Tcb.segments_twin_more`) — and processes B's pure ACKs exactly as in ESTABLISHED
    (`is_fin_acked` is false while `fin_pending`, `Tcb.ackList_twin`), so the close-free twin system, for which all
    invariants of C01's convergence proof hold, can be run alongside (`phase_twin`); after at most `2n − 1` such phases the
    window admits all the remaining text: it leaves followed by the FIN, numbered behind the last text byte; B reaches
    CLOSE-WAIT holding **everything A submitted**; one more phase: B's ACKs take A to FIN-WAIT-2 (`phase_final`); further
    phases change nothing (`rest_phase`).  `closeDataFrontN n` = `close A`, `2n + 1` exchange phases.  When B's
    application then closes (`releaseTail`) both TCBs are deleted (B's by A's ACK of its FIN, A's by the TIME-WAIT
    timeout, `2·MSL + 1` ms after it received B's FIN) and both streams are complete and exact. -/
theorem c03_close_with_any_data_queued_partial (ia ib : Seq) (ma mb : U16) (simultaneous : Bool) (sys0 s : Sys)
    (rs : List Res) (hma : SPACE_FOR_HEADERS ≤ ma.toNat) (hmb : SPACE_FOR_HEADERS ≤ mb.toNat)
    (h0 : Sys.run {} [.open .A ia ma, if simultaneous then .open .B ib mb else .listen .B ib mb] = .ok (sys0, rs))
    (hrun : PlainRun sys0 s) (h31 : RoomH s) (ta tb : Tcb) (hs : Steady s ta tb)
    (tbt : tb.outgoing.text = [])
    (n : Nat) (hn : 1 ≤ n) (hlen : ta.outgoing.text.length ≤ 65535 * n) :
    ∃ s1 ta1 tb1 s2, closeDataFrontN n s = .ok s1 ∧ FinRun s s1 ∧ s1.a.tcb = some ta1 ∧ s1.b.tcb = some tb1 ∧
      ta1.state = .FinWait2 ∧ tb1.state = .CloseWait ∧ RestX .A ta1 tb1 ∧ RestX .B tb1 ta1 ∧
      s1.b.delivered = s1.a.submitted ∧ s1.a.submitted = s.a.submitted ∧
      releaseTail s1 = .ok s2 ∧ closeDataRoundN n s = .ok s2 ∧ FinRun s s2 ∧ s2.a.tcb = none ∧ s2.b.tcb = none ∧
      s2.b.delivered = s2.a.submitted ∧ s2.a.delivered = s2.b.submitted ∧
      s2.a.submitted = s.a.submitted ∧ s2.b.submitted = s.b.submitted := by
  have hg := good_of_reach ia ib ma mb simultaneous sys0 s rs hma hmb h0 hrun h31
  have hmain : ∃ s1 ta1 tb1 s2, closeDataFrontN n s = .ok s1 ∧ FinRun s s1 ∧
      (s1.side .A).tcb = some ta1 ∧ (s1.side .B).tcb = some tb1 ∧
      ta1.state = .FinWait2 ∧ tb1.state = .CloseWait ∧ RestX .A ta1 tb1 ∧ RestX .B tb1 ta1 ∧
      (s1.side .A).submitted = (s.side .A).submitted ∧ (s1.side .B).submitted = (s.side .B).submitted ∧
      (s1.side .A).delivered = (s.side .A).delivered ∧
      closeDataRoundN n s = .ok s2 ∧ releaseTail s1 = .ok s2 ∧ FinRun s1 s2 ∧
      (s2.side .A).tcb = none ∧ (s2.side .B).tcb = none ∧
      (s2.side .A).submitted = (s.side .A).submitted ∧ (s2.side .B).submitted = (s.side .B).submitted ∧
      (s2.side .A).delivered = (s.side .A).delivered ∧ (s2.side .B).delivered = (s1.side .B).delivered := by
    by_cases hne : ta.outgoing.text = []
    · exact close_data_none n hn s hg ta tb hs ⟨tbt⟩ hne
    · exact close_data_any n s hg ta tb hs ⟨tbt⟩ hne hlen
  obtain ⟨s1, ta1, tb1, s2, e1, r1, h1a, h1b, sa, sb, ca, cb, u1, u2, u3, e12, e2, r2, na, nb, v1, v2, v3, v4⟩ := hmain
  have hfr : FinRun sys0 s1 := (FinRun.of_plain hrun).trans r1
  have hlt : C01.Lt31 s1 := by
    have := h31.lt31
    exact ⟨by show (s1.side .A).submitted.length < _; rw [u1]; exact this.1,
      by show (s1.side .B).submitted.length < _; rw [u2]; exact this.2⟩
  have hfin := (C03.c03_fin_after_data ia ib ma mb simultaneous sys0 s1 ⟨rs, h0⟩ hfr hlt .B tb1 h1b (by rw [sb]; rfl)).1
  rw [cb.buf, List.append_nil] at hfin
  have hdB : (s1.side .B).delivered = (s1.side .A).submitted := hfin
  have hdA : (s.side .A).delivered = (s.side .B).submitted :=
    steady_stream hg .B tb ta hs.hb hs.ha hs.b hs.a tbt
  exact ⟨s1, ta1, tb1, s2, e1, r1, h1a, h1b, sa, sb, ca, cb, hdB, u1, e2, e12, r1.trans r2, na, nb,
    by show (s2.side .B).delivered = (s2.side .A).submitted; rw [v4, hdB, u1, v1],
    by show (s2.side .A).delivered = (s2.side .B).submitted; rw [v3, hdA, v2], v1, v2⟩

/-- handshake completed; A has sent [1, 2, 3] (history element 3), B has received and read them, its ACK still waits on
    its one-shot queue, A's retransmission queue still holds the segment; A's application has written [4, 5] -/
def dataOps2 : List Op :=
  [.emit .A, .deliver .B 0, .emit .B, .deliver .A 1, .emit .A, .deliver .B 2, .write .A [1, 2, 3], .emit .A,
   .deliver .B 3, .read .B, .write .A [4, 5]]

def closeDataCheck2 : Bool :=
  match Sys.run {} [.open .A 1000 1500, .listen .B 5000 1500] with
  | .ok (sys0, _) =>
    match plainRunB sys0 dataOps2 with
    | some s =>
      decide (s.a.submitted.length + 2 < 2147483648) && decide (s.b.submitted.length + 2 < 2147483648) &&
      (match s.a.tcb, s.b.tcb with
        | some ta, some tb => steadyXB ta tb && steadyXB tb ta && ta.outgoing.oneshot.isEmpty &&
            tb.outgoing.retransmit.isEmpty && tb.outgoing.text.isEmpty && ta.outgoing.text == [4, 5] &&
            ta.outgoing.retransmit.length == 1 && tb.outgoing.oneshot.length == 1
        | _, _ => false) &&
      (match closeDataFrontN 1 s with
        | .ok s1 =>
          (match s1.a.tcb, s1.b.tcb with
            | some ta1, some tb1 => ta1.state == .FinWait2 && tb1.state == .CloseWait
            | _, _ => false) && s1.b.delivered == [1, 2, 3, 4, 5] &&
          (match releaseTail s1 with
            | .ok s2 => s2.a.tcb.isNone && s2.b.tcb.isNone && s2.b.delivered == [1, 2, 3, 4, 5] && s2.a.delivered == []
            | .error _ => false)
        | .error _ => false)
    | none => false
  | .error _ => false

/-- the hypotheses of `c03_close_with_any_data_queued_partial` hold in that reachable state (`n = 1`; A's retransmission
    queue and B's one-shot queue are NOT empty), and the schedule, evaluated, ends as promised -/
example : ∃ sys0 s : Sys, ∃ rs, ∃ ta tb : Tcb,
    Sys.run {} [.open .A 1000 1500, if false then .open .B 5000 1500 else .listen .B 5000 1500] = .ok (sys0, rs) ∧
    PlainRun sys0 s ∧ RoomH s ∧ Steady s ta tb ∧
    tb.outgoing.text = [] ∧ ta.outgoing.text.length ≤ 65535 * 1 ∧
    ta.outgoing.retransmit.length = 1 ∧ tb.outgoing.oneshot.length = 1 := by
  have key : closeDataCheck2 = true := by decide
  unfold closeDataCheck2 at key
  split at key
  · rename_i sys0 rs e0
    split at key
    · rename_i s e1
      simp only [Bool.and_eq_true, decide_eq_true_eq] at key
      obtain ⟨⟨⟨r1, r2⟩, k1⟩, _⟩ := key
      split at k1
      · rename_i ta tb hta htb
        simp only [Bool.and_eq_true, List.isEmpty_iff, beq_iff_eq] at k1
        obtain ⟨⟨⟨⟨⟨⟨⟨x1, x2⟩, x3⟩, x4⟩, x5⟩, x6⟩, x7⟩, x8⟩ := k1
        exact ⟨sys0, s, rs, ta, tb, e0, plainRunB_sound _ _ _ e1, ⟨r1, r2⟩,
          ⟨hta, htb, steadyXB_sound _ _ x1, steadyXB_sound _ _ x2⟩, x5,
          by rw [x6]; decide, x7, x8⟩
      · simp at k1
    · simp at key
  · simp at key

/-- the same state without the last write: nothing unsent, [1, 2, 3] in flight (delivered and read, the ACK still on B's
    one-shot queue): `close()` numbers the FIN at once; `n = 1` -/
def closeDataCheck3 : Bool :=
  match Sys.run {} [.open .A 1000 1500, .listen .B 5000 1500] with
  | .ok (sys0, _) =>
    match plainRunB sys0 (dataOps2.take 10) with
    | some s =>
      (match s.a.tcb, s.b.tcb with
        | some ta, some tb => steadyXB ta tb && steadyXB tb ta && tb.outgoing.text.isEmpty && ta.outgoing.text.isEmpty &&
            ta.outgoing.retransmit.length == 1 && tb.outgoing.oneshot.length == 1
        | _, _ => false) &&
      (match closeDataFrontN 1 s with
        | .ok s1 =>
          (match s1.a.tcb, s1.b.tcb with
            | some ta1, some tb1 => ta1.state == .FinWait2 && tb1.state == .CloseWait
            | _, _ => false) && s1.b.delivered == [1, 2, 3] &&
          (match releaseTail s1 with
            | .ok s2 => s2.a.tcb.isNone && s2.b.tcb.isNone && s2.b.delivered == [1, 2, 3] && s2.a.delivered == []
            | .error _ => false)
        | .error _ => false)
    | none => false
  | .error _ => false

example : closeDataCheck3 = true := by decide

/-! ## close issued after loss, with data in flight and unsent text queued -/

/-- **Close after loss** (`_partial`: idle peer, receive buffers read, one fair round).  Let `s` be ANY reachable state
    of the closed system (MTUs ≥ 100) in which both endpoints are ESTABLISHED and both receive buffers are empty (the
    applications have read) — NOTHING else is assumed about the closer's queues, the timers, the one-shot queues or **B's
    reorder heap (segments parked behind the lost data)** (these are the *rough* states of `Lemmas/TcpFullPhase.lean`: SYN
    acknowledged and timers ≤ RTO hold in every reachable ESTABLISHED state; the closer's own reorder heap is empty because
    the idle peer has nothing outstanding: invariants (a), (b) of `Props/C01Full.lean`) — in which the closer A has **ANYTHING on its retransmission queue** — data segments lost in any number, or received but their ACKs
    lost, or both — and ANY amount of unsent text (`|unsent| ≤ 65535·n`; none at all is allowed: then `close()` itself
    numbers the FIN, behind the unacknowledged data), and B is idle (`SND.UNA = SND.NXT`, nothing unsent).  A's
    application calls `close()` (FIN-WAIT-1), then the network is fair: `closeLossFrontN n` = `close A`,
    `fairRound (2n + 2)` (= both retransmission timers expire, `2n + 2` exchange phases).  The closer **retransmits in
    FIN-WAIT-1** (`advance_time` flags the whole queue whatever the state, `Tcb.advanceTime_fw`; the first `segments()`
    re-sends the queue whole, then cuts what the window still admits), B takes what it has not received yet in order and
    acknowledges the duplicates; the FIN is numbered behind the last text byte when the text is exhausted and leaves in the
    batch of the last data; B reaches CLOSE-WAIT holding **everything A submitted**, A FIN-WAIT-2, both at rest.  When B's
    application then closes (`releaseTail`), both TCBs are deleted and both streams are complete and exact.  Virtual time
    per side from the close to the deletion: `RTO + 1` (the retransmission) `+ 2·MSL + 1` ms — the bound `2·MSL + RTO` of
    DESIGN.md section 8 after the last needed retransmission holds. -/
theorem c03_close_after_loss_partial (ia ib : Seq) (ma mb : U16) (simultaneous : Bool) (sys0 s : Sys)
    (rs : List Res) (hma : 100 ≤ ma.toNat) (hmb : 100 ≤ mb.toNat)
    (h0 : Sys.run {} [.open .A ia ma, if simultaneous then .open .B ib mb else .listen .B ib mb] = .ok (sys0, rs))
    (hrun : PlainRun sys0 s) (h31 : RoomH s) (ta tb : Tcb) (hta : s.a.tcb = some ta) (htb : s.b.tcb = some tb)
    (ea : ta.state = .Established) (eb : tb.state = .Established)
    (ba : ta.incoming.text = []) (bb : tb.incoming.text = [])
    (hub : tb.snd.una = tb.snd.nxt) (tbt : tb.outgoing.text = [])
    (n : Nat) (hlen : ta.outgoing.text.length ≤ 65535 * n) :
    ∃ s1 ta1 tb1 s2, closeLossFrontN n s = .ok s1 ∧ FinRun s s1 ∧ s1.a.tcb = some ta1 ∧ s1.b.tcb = some tb1 ∧
      ta1.state = .FinWait2 ∧ tb1.state = .CloseWait ∧ RestX .A ta1 tb1 ∧ RestX .B tb1 ta1 ∧
      s1.b.delivered = s1.a.submitted ∧ s1.a.submitted = s.a.submitted ∧
      releaseTail s1 = .ok s2 ∧ closeLossRoundN n s = .ok s2 ∧ FinRun s s2 ∧ s2.a.tcb = none ∧ s2.b.tcb = none ∧
      s2.b.delivered = s2.a.submitted ∧ s2.a.delivered = s2.b.submitted ∧
      s2.a.submitted = s.a.submitted ∧ s2.b.submitted = s.b.submitted := by
  have h50 : SPACE_FOR_HEADERS = 50 := rfl
  have hma' : SPACE_FOR_HEADERS ≤ ma.toNat := by omega
  have hmb' : SPACE_FOR_HEADERS ≤ mb.toNat := by omega
  have hg := good_of_reach ia ib ma mb simultaneous sys0 s rs hma' hmb' h0 hrun h31
  have hf := finv_of_reach ia ib ma mb simultaneous sys0 s rs hma' hmb' h0 hrun h31
  have fa := hf.tcb .A ta hta
  have fb := hf.tcb .B tb htb
  have ua := (c01_established_syn_acked ia ib ma mb simultaneous sys0 s rs hma' hmb' h0 hrun h31 .A ta hta ea).2.1
  have ub := (c01_established_syn_acked ia ib ma mb simultaneous sys0 s rs hma' hmb' h0 hrun h31 .B tb htb eb).2.1
  have hc : Full.Rough s ta tb :=
    ⟨hta, htb, ⟨ea, ba, ua, by rw [fa.mtu]; show 50 < ma.toNat; omega, fa.tmo⟩,
      ⟨eb, bb, ub, by rw [fb.mtu]; show 50 < mb.toNat; omega, fb.tmo⟩⟩
  have hsyncB0 : ta.rcv.nxt = tb.snd.nxt := by
    have sq := squeeze_facts hg .B tb ta hc.hb hc.ha hc.a.st
    apply off_inj (base := issOf ia ib .B)
    have : tb.sent = off (issOf ia ib .B) tb.snd.nxt := by unfold sent; rw [hg.iss_eq .B tb hc.hb]
    rw [hub] at sq
    omega
  have hheapA : ta.incoming.segments = [] := by
    apply List.eq_nil_iff_forall_not_mem.2
    intro g hgm
    have h1 := fa.ahead ea g hgm
    have h2 := hf.heapSeq .B tb ta htb hta g hgm
    have h3 : off (issOf ia ib .B) ta.rcv.nxt = tb.sent := by
      rw [hsyncB0]; unfold sent; rw [hg.iss_eq .B tb hc.hb]
    have h1' : off (issOf ia ib .B) ta.rcv.nxt < off (issOf ia ib .B) g.hdr.seq := h1
    have h2' : off (issOf ia ib .B) g.hdr.seq ≤ tb.sent := h2
    omega
  have hmain : ∃ s1 ta1 tb1 s2, closeLossFrontN n s = .ok s1 ∧ FinRun s s1 ∧
      (s1.side .A).tcb = some ta1 ∧ (s1.side .B).tcb = some tb1 ∧
      ta1.state = .FinWait2 ∧ tb1.state = .CloseWait ∧ RestX .A ta1 tb1 ∧ RestX .B tb1 ta1 ∧
      (s1.side .A).submitted = (s.side .A).submitted ∧ (s1.side .B).submitted = (s.side .B).submitted ∧
      (s1.side .A).delivered = (s.side .A).delivered ∧
      closeLossRoundN n s = .ok s2 ∧ releaseTail s1 = .ok s2 ∧ FinRun s1 s2 ∧
      (s2.side .A).tcb = none ∧ (s2.side .B).tcb = none ∧
      (s2.side .A).submitted = (s.side .A).submitted ∧ (s2.side .B).submitted = (s.side .B).submitted ∧
      (s2.side .A).delivered = (s.side .A).delivered ∧ (s2.side .B).delivered = (s1.side .B).delivered := by
    by_cases hne : ta.outgoing.text = []
    · exact close_inflight_rough n s hg hf ta tb hc hheapA hub tbt hne
    · exact close_after_loss_rough n s hg hf ta tb hc hheapA hub tbt hne hlen
  obtain ⟨s1, ta1, tb1, s2, e1, r1, h1a, h1b, sa, sb, ca, cb, u1, u2, u3, e12, e2, r2, na, nb, v1, v2, v3, v4⟩ := hmain
  have hfr : FinRun sys0 s1 := (FinRun.of_plain hrun).trans r1
  have hlt : C01.Lt31 s1 := by
    have := h31.lt31
    exact ⟨by show (s1.side .A).submitted.length < _; rw [u1]; exact this.1,
      by show (s1.side .B).submitted.length < _; rw [u2]; exact this.2⟩
  have hfin := (C03.c03_fin_after_data ia ib ma mb simultaneous sys0 s1 ⟨rs, h0⟩ hfr hlt .B tb1 h1b (by rw [sb]; rfl)).1
  rw [cb.buf, List.append_nil] at hfin
  have hdB : (s1.side .B).delivered = (s1.side .A).submitted := hfin
  have hsyncB : ta.rcv.nxt = tb.snd.nxt := by
    have sq := squeeze_facts hg .B tb ta hc.hb hc.ha hc.a.st
    apply off_inj (base := issOf ia ib .B)
    have : tb.sent = off (issOf ia ib .B) tb.snd.nxt := by unfold sent; rw [hg.iss_eq .B tb hc.hb]
    rw [hub] at sq
    omega
  have hdA : (s.side .A).delivered = (s.side .B).submitted :=
    idle_stream hg .B tb ta hc.hb hc.ha hsyncB (by rw [hc.a.st]; simp) hc.a.buf tbt
  exact ⟨s1, ta1, tb1, s2, e1, r1, h1a, h1b, sa, sb, ca, cb, hdB, u1, e2, e12, r1.trans r2, na, nb,
    by show (s2.side .B).delivered = (s2.side .A).submitted; rw [v4, hdB, u1, v1],
    by show (s2.side .A).delivered = (s2.side .B).submitted; rw [v3, hdA, v2], v1, v2⟩

/-- handshake completed; A writes [1, 2, 3] and emits them (history element 3) — LOST, never delivered; A writes [4, 5]
    and emits them (element 4) — LOST as well; A's application writes [6]: two lost segments on A's retransmission queue,
    one byte unsent; B idle, it has received nothing -/
def lossDataOps : List Op :=
  [.emit .A, .deliver .B 0, .emit .B, .deliver .A 1, .emit .A, .deliver .B 2,
   .write .A [1, 2, 3], .emit .A, .write .A [4, 5], .emit .A, .write .A [6]]

def closeLossCheck : Bool :=
  match Sys.run {} [.open .A 1000 1500, .listen .B 5000 1500] with
  | .ok (sys0, _) =>
    match plainRunB sys0 lossDataOps with
    | some s =>
      decide (s.a.submitted.length + 2 < 2147483648) && decide (s.b.submitted.length + 2 < 2147483648) &&
      (match s.a.tcb, s.b.tcb with
        | some ta, some tb => calmXB ta && calmXB tb && tb.snd.una == tb.snd.nxt && tb.outgoing.text.isEmpty &&
            ta.outgoing.text == [6] && ta.outgoing.retransmit.length == 2 && s.b.delivered == []
        | _, _ => false) &&
      (match closeLossFrontN 1 s with
        | .ok s1 =>
          (match s1.a.tcb, s1.b.tcb with
            | some ta1, some tb1 => ta1.state == .FinWait2 && tb1.state == .CloseWait
            | _, _ => false) && s1.b.delivered == [1, 2, 3, 4, 5, 6] &&
          (match releaseTail s1 with
            | .ok s2 => s2.a.tcb.isNone && s2.b.tcb.isNone && s2.b.delivered == [1, 2, 3, 4, 5, 6] && s2.a.delivered == []
            | .error _ => false)
        | .error _ => false)
    | none => false
  | .error _ => false

/-- the same with nothing unsent at the close: A's only data segment [1, 2, 3] is LOST and still on its retransmission
    queue; `close()` numbers the FIN at once; `n = 0`: the fair round has two phases -/
def closeLossCheck0 : Bool :=
  match Sys.run {} [.open .A 1000 1500, .listen .B 5000 1500] with
  | .ok (sys0, _) =>
    match plainRunB sys0 [.emit .A, .deliver .B 0, .emit .B, .deliver .A 1, .emit .A, .deliver .B 2,
        .write .A [1, 2, 3], .emit .A] with
    | some s =>
      (match s.a.tcb, s.b.tcb with
        | some ta, some tb => calmXB ta && calmXB tb && tb.snd.una == tb.snd.nxt && tb.outgoing.text.isEmpty &&
            ta.outgoing.text.isEmpty && ta.outgoing.retransmit.length == 1 && s.b.delivered == []
        | _, _ => false) &&
      (match closeLossFrontN 0 s with
        | .ok s1 =>
          (match s1.a.tcb, s1.b.tcb with
            | some ta1, some tb1 => ta1.state == .FinWait2 && tb1.state == .CloseWait
            | _, _ => false) && s1.b.delivered == [1, 2, 3] &&
          (match releaseTail s1 with
            | .ok s2 => s2.a.tcb.isNone && s2.b.tcb.isNone && s2.b.delivered == [1, 2, 3] && s2.a.delivered == []
            | .error _ => false)
        | .error _ => false)
    | none => false
  | .error _ => false

example : closeLossCheck0 = true := by decide

/-- handshake completed; A writes [1, 2, 3] and emits them (history element 3) — LOST; A writes [4, 5] and emits them
    (element 4) — delivered: PARKED in B's reorder heap behind the gap; A's application writes [6] -/
def roughDataOps : List Op :=
  [.emit .A, .deliver .B 0, .emit .B, .deliver .A 1, .emit .A, .deliver .B 2,
   .write .A [1, 2, 3], .emit .A, .write .A [4, 5], .emit .A, .deliver .B 4, .write .A [6]]

def closeRoughCheck : Bool :=
  match Sys.run {} [.open .A 1000 1500, .listen .B 5000 1500] with
  | .ok (sys0, _) =>
    match plainRunB sys0 roughDataOps with
    | some s =>
      decide (s.a.submitted.length + 2 < 2147483648) && decide (s.b.submitted.length + 2 < 2147483648) &&
      (match s.a.tcb, s.b.tcb with
        | some ta, some tb => ta.state == .Established && tb.state == .Established &&
            ta.incoming.text.isEmpty && tb.incoming.text.isEmpty && ta.incoming.segments.isEmpty &&
            tb.snd.una == tb.snd.nxt && tb.outgoing.text.isEmpty &&
            ta.outgoing.text == [6] && ta.outgoing.retransmit.length == 2 && tb.incoming.segments.length == 1 &&
            s.b.delivered == []
        | _, _ => false) &&
      (match closeLossFrontN 1 s with
        | .ok s1 =>
          (match s1.a.tcb, s1.b.tcb with
            | some ta1, some tb1 => ta1.state == .FinWait2 && tb1.state == .CloseWait
            | _, _ => false) && s1.b.delivered == [1, 2, 3, 4, 5, 6] &&
          (match releaseTail s1 with
            | .ok s2 => s2.a.tcb.isNone && s2.b.tcb.isNone && s2.b.delivered == [1, 2, 3, 4, 5, 6] && s2.a.delivered == []
            | .error _ => false)
        | .error _ => false)
    | none => false
  | .error _ => false

/-- the hypotheses of `c03_close_after_loss_partial` hold in that reachable state (`n = 1`; one LOST data segment and one
    delivered out of order on A's retransmission queue, the latter PARKED in B's reorder heap, B has received nothing in
    order), and the schedule, evaluated, ends as promised -/
example : ∃ sys0 s : Sys, ∃ rs, ∃ ta tb : Tcb,
    Sys.run {} [.open .A 1000 1500, if false then .open .B 5000 1500 else .listen .B 5000 1500] = .ok (sys0, rs) ∧
    PlainRun sys0 s ∧ RoomH s ∧ s.a.tcb = some ta ∧ s.b.tcb = some tb ∧
    ta.state = .Established ∧ tb.state = .Established ∧ ta.incoming.text = [] ∧ tb.incoming.text = [] ∧
    tb.snd.una = tb.snd.nxt ∧
    tb.outgoing.text = [] ∧ ta.outgoing.text.length ≤ 65535 * 1 ∧ ta.outgoing.retransmit.length = 2 ∧
    tb.incoming.segments.length = 1 ∧ s.b.delivered = [] := by
  have key : closeRoughCheck = true := by decide
  unfold closeRoughCheck at key
  split at key
  · rename_i sys0 rs e0
    split at key
    · rename_i s e1
      simp only [Bool.and_eq_true, decide_eq_true_eq] at key
      obtain ⟨⟨⟨r1, r2⟩, k1⟩, _⟩ := key
      split at k1
      · rename_i ta tb hta htb
        simp only [Bool.and_eq_true, List.isEmpty_iff, beq_iff_eq] at k1
        obtain ⟨⟨⟨⟨⟨⟨⟨⟨⟨⟨x1, x2⟩, y1⟩, y2⟩, x3⟩, x4⟩, x5⟩, x6⟩, x7⟩, x8⟩, x9⟩ := k1
        exact ⟨sys0, s, rs, ta, tb, e0, plainRunB_sound _ _ _ e1, ⟨r1, r2⟩,
          hta, htb, x1, x2, y1, y2, x4, x5, by rw [x6]; decide, x7, x8, x9⟩
      · simp at k1
    · simp at key
  · simp at key

/-- the two calm states above (two lost segments + one unsent byte; one lost segment, nothing unsent), evaluated -/
example : closeLossCheck = true := by decide

/-- both applications read what has arrived, `close A`, a fair round of `2n + 2` phases -/
def closeLossFrontR (n : Nat) (s : Sys) : Except String Sys :=
  match s.step (.read .A) with
  | .error e => .error e
  | .ok (s1, _) =>
  match s1.step (.read .B) with
  | .error e => .error e
  | .ok (s2, _) => closeLossFrontN n s2

/-- **Close after loss, receive buffers arbitrary**: `c03_close_after_loss_partial` without the hypothesis that the
    receive buffers are empty — the schedule starts with both applications reading what has arrived.  From EVERY
    reachable state (MTUs ≥ 100) in which both endpoints are ESTABLISHED and the peer B is idle (`SND.UNA = SND.NXT`,
    nothing unsent) — anything on the closer's retransmission queue, any amount of unsent text, any reorder heap on B's
    side, any receive buffers, one-shot queues and timers —: `closeLossFrontR n` (= `read A`, `read B`, `close A`,
    `fairRound (2n + 2)`) ends with A in FIN-WAIT-2, B in CLOSE-WAIT holding everything A submitted, both at rest;
    `releaseTail` then deletes both TCBs with both streams complete and exact. -/
theorem c03_close_after_loss_read_partial (ia ib : Seq) (ma mb : U16) (simultaneous : Bool) (sys0 s : Sys)
    (rs : List Res) (hma : 100 ≤ ma.toNat) (hmb : 100 ≤ mb.toNat)
    (h0 : Sys.run {} [.open .A ia ma, if simultaneous then .open .B ib mb else .listen .B ib mb] = .ok (sys0, rs))
    (hrun : PlainRun sys0 s) (h31 : RoomH s) (ta tb : Tcb) (hta : s.a.tcb = some ta) (htb : s.b.tcb = some tb)
    (ea : ta.state = .Established) (eb : tb.state = .Established)
    (hub : tb.snd.una = tb.snd.nxt) (tbt : tb.outgoing.text = [])
    (n : Nat) (hlen : ta.outgoing.text.length ≤ 65535 * n) :
    ∃ s1 ta1 tb1 s2, closeLossFrontR n s = .ok s1 ∧ FinRun s s1 ∧ s1.a.tcb = some ta1 ∧ s1.b.tcb = some tb1 ∧
      ta1.state = .FinWait2 ∧ tb1.state = .CloseWait ∧ RestX .A ta1 tb1 ∧ RestX .B tb1 ta1 ∧
      s1.b.delivered = s1.a.submitted ∧ s1.a.submitted = s.a.submitted ∧
      releaseTail s1 = .ok s2 ∧ FinRun s s2 ∧ s2.a.tcb = none ∧ s2.b.tcb = none ∧
      s2.b.delivered = s2.a.submitted ∧ s2.a.delivered = s2.b.submitted ∧
      s2.a.submitted = s.a.submitted ∧ s2.b.submitted = s.b.submitted := by
  have hsa : (s.side .A).tcb = some ta := hta
  have hsb : (s.side .B).tcb = some tb := htb
  obtain ⟨r1, q1, st1, h1a, h1p, h1sub, _, _⟩ := read_facts_gen s .A ta hsa
  have h1pb : r1.side .B = s.side .B := h1p
  have h1b : (r1.side .B).tcb = some tb := by rw [h1pb]; exact hsb
  obtain ⟨r2, q2, st2, h2b, h2p, h2sub, _, _⟩ := read_facts_gen r1 .B tb h1b
  have h2pa : r2.side .A = r1.side .A := h2p
  have h2a : (r2.side .A).tcb = some ta.receive.1 := by rw [h2pa]; exact h1a
  rw [receive_established ta ea] at h2a
  rw [receive_established tb eb] at h2b
  have p02 : PlainRun s r2 :=
    (PlainRun.step (op := .read .A) (.refl _) trivial st1).trans (.step (op := .read .B) (.refl _) trivial st2)
  have hsubA : (r2.side .A).submitted = (s.side .A).submitted := by rw [h2pa, h1sub]
  have hsubB : (r2.side .B).submitted = (s.side .B).submitted := by rw [h2sub, h1pb]
  have h31' : RoomH r2 := ⟨by show (r2.side .A).submitted.length + 2 < _; rw [hsubA]; exact h31.1,
    by show (r2.side .B).submitted.length + 2 < _; rw [hsubB]; exact h31.2⟩
  obtain ⟨s1, ta1, tb1, s2, e1, f1, k1a, k1b, sa, sb, qa, qb, d1, u1, e2, _, f2, na, nb, d2, d3, v1, v2⟩ :=
    c03_close_after_loss_partial ia ib ma mb simultaneous sys0 r2 rs hma hmb h0 (hrun.trans p02) h31'
      ({ ta with incoming.text := [] } : Tcb) ({ tb with incoming.text := [] } : Tcb) h2a h2b ea eb rfl rfl hub tbt n hlen
  refine ⟨s1, ta1, tb1, s2, ?_, (FinRun.of_plain p02).trans f1, k1a, k1b, sa, sb, qa, qb, d1, u1.trans hsubA, e2,
    (FinRun.of_plain p02).trans f2, na, nb, d2, d3, v1.trans hsubA, v2.trans hsubB⟩
  unfold closeLossFrontR
  rw [st1]
  dsimp only
  rw [st2]
  exact e1

/-- as `roughDataOps`, but B's application has NOT read: B first receives [1, 2, 3] (history element 3) and keeps them in
    its receive buffer; [4, 5] (element 4) is LOST; A's application writes [6] -/
def unreadOps : List Op :=
  [.emit .A, .deliver .B 0, .emit .B, .deliver .A 1, .emit .A, .deliver .B 2,
   .write .A [1, 2, 3], .emit .A, .deliver .B 3, .emit .B, .write .A [4, 5], .emit .A, .write .A [6]]

def closeUnreadCheck : Bool :=
  match Sys.run {} [.open .A 1000 1500, .listen .B 5000 1500] with
  | .ok (sys0, _) =>
    match plainRunB sys0 unreadOps with
    | some s =>
      decide (s.a.submitted.length + 2 < 2147483648) && decide (s.b.submitted.length + 2 < 2147483648) &&
      (match s.a.tcb, s.b.tcb with
        | some ta, some tb => ta.state == .Established && tb.state == .Established &&
            tb.snd.una == tb.snd.nxt && tb.outgoing.text.isEmpty && tb.incoming.text == [1, 2, 3] &&
            ta.outgoing.text == [6] && ta.outgoing.retransmit.length == 2 && s.b.delivered == []
        | _, _ => false) &&
      (match closeLossFrontR 1 s with
        | .ok s1 =>
          (match s1.a.tcb, s1.b.tcb with
            | some ta1, some tb1 => ta1.state == .FinWait2 && tb1.state == .CloseWait
            | _, _ => false) && s1.b.delivered == [1, 2, 3, 4, 5, 6] &&
          (match releaseTail s1 with
            | .ok s2 => s2.a.tcb.isNone && s2.b.tcb.isNone && s2.b.delivered == [1, 2, 3, 4, 5, 6] && s2.a.delivered == []
            | .error _ => false)
        | .error _ => false)
    | none => false
  | .error _ => false

/-- the hypotheses of `c03_close_after_loss_read_partial` hold in that reachable state (`n = 1`; B's receive buffer holds
    [1, 2, 3] unread, its ACK of them was emitted but never delivered, [4, 5] was lost), and the schedule, evaluated -/
example : ∃ sys0 s : Sys, ∃ rs, ∃ ta tb : Tcb,
    Sys.run {} [.open .A 1000 1500, if false then .open .B 5000 1500 else .listen .B 5000 1500] = .ok (sys0, rs) ∧
    PlainRun sys0 s ∧ RoomH s ∧ s.a.tcb = some ta ∧ s.b.tcb = some tb ∧
    ta.state = .Established ∧ tb.state = .Established ∧ tb.snd.una = tb.snd.nxt ∧ tb.outgoing.text = [] ∧
    tb.incoming.text = [1, 2, 3] ∧ ta.outgoing.text.length ≤ 65535 * 1 ∧ ta.outgoing.retransmit.length = 2 := by
  have key : closeUnreadCheck = true := by decide
  unfold closeUnreadCheck at key
  split at key
  · rename_i sys0 rs e0
    split at key
    · rename_i s e1
      simp only [Bool.and_eq_true, decide_eq_true_eq] at key
      obtain ⟨⟨⟨r1, r2⟩, k1⟩, _⟩ := key
      split at k1
      · rename_i ta tb hta htb
        simp only [Bool.and_eq_true, List.isEmpty_iff, beq_iff_eq] at k1
        obtain ⟨⟨⟨⟨⟨⟨⟨x1, x2⟩, x3⟩, x4⟩, x5⟩, x6⟩, x7⟩, _⟩ := k1
        exact ⟨sys0, s, rs, ta, tb, e0, plainRunB_sound _ _ _ e1, ⟨r1, r2⟩,
          hta, htb, x1, x2, x3, x4, x5, by rw [x6]; decide, x7⟩
      · simp at k1
    · simp at key
  · simp at key

/-- **From ANY reachable state to release, with a last message**: from every reachable state `s` of the closed system
    without close (hypothesis of `c01_converges_full`: TCBs in SYN-SENT / SYN-RECEIVED / ESTABLISHED or the passive side
    still without TCB, anything queued, parked, buffered, lost), the fair rounds of `c01_converges_full_bound` (≤ 15) end
    `Done`; A's application then writes ANY message `d` (`|d| ≤ 65535·n`, H31) and calls `close()` AT ONCE, with all of
    `d` still unsent: `closeLossFrontN n` (`close A`, a fair round of `2n + 2` phases) delivers all of `d` to B's
    application before B sees the end of the stream (B CLOSE-WAIT, A FIN-WAIT-2), and when B's application closes
    (`releaseTail`) both TCBs are deleted; B has been handed everything A ever submitted (the log of `s` followed by `d`),
    A everything B submitted. -/
theorem c03_converge_write_close_partial (ia ib : Seq) (ma mb : U16) (simultaneous : Bool) (sys0 s : Sys)
    (rs : List Res) (hma : 100 ≤ ma.toNat) (hmb : 100 ≤ mb.toNat)
    (h0 : Sys.run {} [.open .A ia ma, if simultaneous then .open .B ib mb else .listen .B ib mb] = .ok (sys0, rs))
    (hrun : PlainRun sys0 s) (h31 : RoomH s) (d : List UInt8) (n : Nat) (hd : d.length ≤ 65535 * n)
    (hroom : s.a.submitted.length + d.length + 2 < 2147483648) :
    ∃ (rounds : List Nat) (s1 sw s2 s3 : Sys) (ta tb : Tcb) (r : Res),
      (rounds.foldlM (fun st k => fairRound k st) s = .ok s1) ∧ Done s1 ta tb ∧ rounds.length ≤ 15 ∧
      s1.step (.write .A d) = .ok (sw, r) ∧ closeLossFrontN n sw = .ok s2 ∧ releaseTail s2 = .ok s3 ∧ FinRun s s3 ∧
      s2.b.delivered = s.a.submitted ++ d ∧
      s3.a.tcb = none ∧ s3.b.tcb = none ∧ s3.a.submitted = s.a.submitted ++ d ∧ s3.b.submitted = s.b.submitted ∧
      s3.b.delivered = s3.a.submitted ∧ s3.a.delivered = s3.b.submitted := by
  have h50 : SPACE_FOR_HEADERS = 50 := rfl
  obtain ⟨rounds, s1, ta, tb, hfold, p1, hdone, _, _, sa1, sb1, hlen, _, _, _⟩ :=
    c01_converges_full_bound ia ib ma mb simultaneous sys0 s rs hma hmb h0 hrun h31
  have hta : s1.a.tcb = some ta := hdone.steady.ha
  have htb : s1.b.tcb = some tb := hdone.steady.hb
  have ea := hdone.steady.a.st
  have eb := hdone.steady.b.st
  -- the write
  have hacc : sendAccepts ta.state = true := by rw [ea]; rfl
  have hw : s1.step (.write .A d) = .ok (s1.setSide .A
      ⟨some (ta.send d), (s1.side .A).listen, (s1.side .A).submitted ++ d, (s1.side .A).delivered⟩, .ok) := by
    have hsa : (s1.side .A).tcb = some ta := hta
    simp only [Sys.step, Op.side, hsa, hacc, if_true]
  generalize hsw : s1.setSide .A
      ⟨some (ta.send d), (s1.side .A).listen, (s1.side .A).submitted ++ d, (s1.side .A).delivered⟩ = sw at hw
  have hsend : ta.send d = ({ ta with outgoing.text := ta.outgoing.text ++ d } : Tcb) := by
    unfold Tcb.send; rw [ea]
  have wa : sw.a.tcb = some ({ ta with outgoing.text := ta.outgoing.text ++ d } : Tcb) := by rw [← hsw, hsend]; rfl
  have wb : sw.b.tcb = some tb := by rw [← hsw]; exact htb
  have wsa : sw.a.submitted = s.a.submitted ++ d := by
    rw [← hsw]
    show s1.a.submitted ++ d = _
    rw [sa1]
  have wsb : sw.b.submitted = s.b.submitted := by rw [← hsw]; exact sb1
  have pw : PlainRun s1 sw := .step (op := .write .A d) (.refl _) trivial hw
  have h31w : RoomH sw := by
    unfold RoomH
    rw [wsa, wsb, List.length_append]
    exact ⟨by omega, h31.2⟩
  -- B is idle
  have hub : tb.snd.una = tb.snd.nxt := by
    rcases hdone.steady.b.lastack with h | ⟨h, hl, _⟩
    · exact h
    · rw [hdone.a.one] at hl; cases hl
  obtain ⟨s2, ta2, tb2, s3, e2, f2, _, _, _, _, _, _, d2, u2, e3, _, f3, na, nb, d3, d4, v1, v2⟩ :=
    c03_close_after_loss_partial ia ib ma mb simultaneous sys0 sw rs hma hmb h0 ((hrun.trans p1).trans pw) h31w
      ({ ta with outgoing.text := ta.outgoing.text ++ d } : Tcb) tb wa wb ea eb hdone.steady.a.buf hdone.steady.b.buf hub
      hdone.b.text n (by
        show (ta.outgoing.text ++ d).length ≤ _
        rw [hdone.a.text]; exact hd)
  exact ⟨rounds, s1, sw, s2, s3, ta, tb, .ok, hfold, hdone, hlen, hw, e2, e3,
    ((FinRun.of_plain p1).trans (FinRun.of_plain pw)).trans f3, by rw [d2, u2, wsa], na, nb, v1.trans wsa, v2.trans wsb,
    d3, d4⟩

/-- the SYN was lost and A's application had already written [1, 2, 3] (A in SYN-SENT, B without TCB): five fair rounds end
    `Done`; A writes [7, 8] and closes at once; B's application ends up with [1, 2, 3, 7, 8]; both TCBs are deleted -/
def convergeWriteCloseCheck : Bool :=
  match Sys.run {} [.open .A 1000 1500, .listen .B 5000 1500] with
  | .ok (sys0, _) =>
    (match plainRunB sys0 [.emit .A, .write .A [1, 2, 3]] with
      | some s => s.b.tcb.isNone &&
          (match runRounds s [1, 1, 1, 1, 4] with
            | .ok s1 =>
              (match s1.step (.write .A [7, 8]) with
                | .ok (sw, _) =>
                  (match closeLossFrontN 1 sw with
                    | .ok s2 => s2.b.delivered == [1, 2, 3, 7, 8] &&
                        (match releaseTail s2 with
                          | .ok s3 => s3.a.tcb.isNone && s3.b.tcb.isNone && s3.b.delivered == [1, 2, 3, 7, 8]
                          | .error _ => false)
                    | .error _ => false)
                | .error _ => false)
            | .error _ => false)
      | none => false)
  | .error _ => false

example : convergeWriteCloseCheck = true := by decide

/-! ## the schedule of `C03ReleaseStatement` itself -/

/-- **`C03ReleaseStatement`'s own schedule, after convergence**: the conclusion of `C03ReleaseStatement`
    (`Props/C03Release.lean`) — literally its schedule: `close A`, `close B`, `fairRound k` (both retransmission timers
    expire, `k` exchange phases), `tick A (2·MSL + RTO + 1)`, `tick B (2·MSL + RTO + 1)`, with `k = 2` — holds in every
    reachable `Done` state, hence (first part) after the ≤ 15 fair rounds of `c01_converges_full_bound` from ANY reachable
    state of the closed system without close.  (The expiry of the retransmission timers right after the closes only flags
    the two FINs again, `Tcb.advanceTime_closedT`; `2·MSL + RTO` of virtual time after the last exchange delete both
    TCBs.)  `C03ReleaseStatement` itself quantifies over every `FinRun`-reachable state with both TCBs out of SYN-SENT and
    stays open. -/
theorem c03_release_statement_after_convergence (ia ib : Seq) (ma mb : U16) (simultaneous : Bool) (sys0 s : Sys)
    (rs : List Res) (hma : 100 ≤ ma.toNat) (hmb : 100 ≤ mb.toNat)
    (h0 : Sys.run {} [.open .A ia ma, if simultaneous then .open .B ib mb else .listen .B ib mb] = .ok (sys0, rs))
    (hrun : PlainRun sys0 s) (h31 : RoomH s) :
    ∃ (rounds : List Nat) (s1 : Sys) (ta tb : Tcb),
      (rounds.foldlM (fun st k => fairRound k st) s = .ok s1) ∧ Done s1 ta tb ∧ rounds.length ≤ 15 ∧
      ∃ s', (do
        let c1 ← Prod.fst <$> s1.step (.close .A)
        let c2 ← Prod.fst <$> c1.step (.close .B)
        let c3 ← fairRound 2 c2
        let c4 ← Prod.fst <$> c3.step (.tick .A (TIME_WAIT + RTO + 1))
        Prod.fst <$> c4.step (.tick .B (TIME_WAIT + RTO + 1))) = .ok s' ∧
      s'.a.tcb = none ∧ s'.b.tcb = none := by
  have h50 : SPACE_FOR_HEADERS = 50 := rfl
  obtain ⟨rounds, s1, ta, tb, hfold, p1, hd, _, _, sa1, sb1, hlen, _, _, _⟩ :=
    c01_converges_full_bound ia ib ma mb simultaneous sys0 s rs hma hmb h0 hrun h31
  have h31' : RoomH s1 := by
    unfold RoomH
    rw [sa1, sb1]
    exact h31
  have hrun1 : PlainRun sys0 s1 := hrun.trans p1
  have hg := good_of_reach ia ib ma mb simultaneous sys0 s1 rs (by omega) (by omega) h0 hrun1 h31'
  have hf := finv_of_reach ia ib ma mb simultaneous sys0 s1 rs (by omega) (by omega) h0 hrun1 h31'
  obtain ⟨qa, qb⟩ := quiet_of_done hg ta tb hd
  have notw : ∀ (x : SideId) (t : Tcb), (s1.side x).tcb = some t → t.state = .Established →
      t.timeouts.timeWait = none := by
    intro x t ht hst
    have := (hg.conv.nr.tcb x t ht).tw
    cases h : t.timeouts.timeWait with
    | none => rfl
    | some v =>
      have := this (by rw [h]; rfl)
      rw [hst] at this; cases this
  obtain ⟨s', e, na, nb⟩ := release_statement_quiet s1 ta tb hd.steady.ha hd.steady.hb qa qb
    (hf.tcb .A ta hd.steady.ha).tmo (hf.tcb .B tb hd.steady.hb).tmo
    (notw .A ta hd.steady.ha hd.steady.a.st) (notw .B tb hd.steady.hb hd.steady.b.st)
  exact ⟨rounds, s1, ta, tb, hfold, hd, hlen, s', e, na, nb⟩

/-- the schedule of `C03ReleaseStatement` (`k = 2`) evaluated after the rounds of `hsCheck`'s first state (SYN lost) -/
def statementCheck : Bool :=
  match Sys.run {} [.open .A 1000 1500, .listen .B 5000 1500] with
  | .ok (sys0, _) =>
    (match plainRunB sys0 [.emit .A, .write .A [1, 2, 3]] with
      | some s =>
          (match runRounds s [1, 1, 1, 1, 4] with
            | .ok s1 =>
              (match statementRound 2 s1 with
                | .ok s' => s'.a.tcb.isNone && s'.b.tcb.isNone && s'.b.delivered == [1, 2, 3]
                | .error _ => false)
            | .error _ => false)
      | none => false)
  | .error _ => false

example : statementCheck = true := by decide

end Elvis.Tcp
