import ElvisVerif.Lemmas.RouterDeliveryArp
/-!
# The invariant of the concrete ARP layer (`CInv`) and the derivation of `FaithfulRun`

`CInv` holds in the initial state and is kept by every `cstep` of a well-formed topology
(`cstep_cinv`, all five kinds of choices, whatever else is going on in the system).  With it, every
MAC a resolve task of the tracked datagram reads from its machine's table is the faithful one
(`absChoices_faithful`), so the abstract schedule that simulates a concrete run is a `FaithfulRun`
as soon as no task of the datagram gives up (`ArpInTime`): `faithful_of_concrete`.
-/
namespace Elvis.Router

/-! ### the ARP table -/

theorem find_filter_ne (c : Cache) (ip ip' : Addr) (h : ip' ≠ ip) :
    (c.filter (fun e => e.1 != ip)).find? (fun e => e.1 == ip') = c.find? (fun e => e.1 == ip') := by
  induction c with
  | nil => rfl
  | cons a l ih =>
    by_cases ha : a.1 = ip
    · have hb : ¬ a.1 = ip' := by rw [ha]; exact fun e => h e.symm
      have e1 : (a.1 != ip) = false := by simp [ha]
      have e2 : (a.1 == ip') = false := by simp [hb]
      simp only [List.filter_cons, e1, Bool.false_eq_true, if_false, List.find?_cons, e2]
      exact ih
    · have e1 : (a.1 != ip) = true := by simp [ha]
      simp only [List.filter_cons, e1, if_true, List.find?_cons]
      cases hb : (a.1 == ip') with
      | true => rfl
      | false => exact ih

theorem cache_get_set (c : Cache) (ip ip' : Addr) (v : Option Mac) :
    (c.set ip v).get ip' = if ip' = ip then some v else c.get ip' := by
  unfold Cache.set Cache.get
  by_cases h : ip' = ip
  · subst h
    simp
  · rw [if_neg h]
    have e : (ip == ip') = false := by
      have : ¬ ip = ip' := fun e => h e.symm
      simp [this]
    simp only [List.find?_cons, e]
    rw [find_filter_ne c ip ip' h]

theorem answer_some {c : Cache} {ip : Addr} {r : Option Mac} (h : c.answer ip = some r) :
    ∃ mac, r = some mac ∧ c.get ip = some (some mac) := by
  unfold Cache.answer at h
  split at h
  · rename_i mac hg
    simp only [Option.some.injEq] at h
    exact ⟨mac, h.symm, hg⟩
  · simp [Elvis.Gen.Arp.cachedFailureIsAnswer] at h
  · cases h

/-- entries of the tables after one `set_mac` / `fail_mac` on machine `n` -/
theorem setCache_get {cs : List Cache} {n : Nat} {ip : Addr} {v : Option Mac} {n' : Nat} {c' : Cache}
    {ip' : Addr} {mac : Mac}
    (h : (setCache cs n ip v)[n']? = some c') (hg : c'.get ip' = some (some mac)) :
    (n' = n ∧ ip' = ip ∧ v = some mac) ∨ ∃ c, cs[n']? = some c ∧ c.get ip' = some (some mac) := by
  unfold setCache at h
  split at h
  · exact .inr ⟨c', h, hg⟩
  · rename_i c hc
    rw [List.getElem?_set] at h
    split at h
    · rename_i hn
      split at h
      · simp only [Option.some.injEq] at h
        subst h
        rw [cache_get_set] at hg
        split at hg
        · rename_i hip
          simp only [Option.some.injEq] at hg
          exact .inl ⟨hn.symm, hip, hg⟩
        · exact .inr ⟨c, by rw [← hn]; exact hc, hg⟩
      · cases h
    · exact .inr ⟨c', h, hg⟩

/-! ### the invariant -/

structure CInv (topo : Topo) (s : CState) : Prop where
  /-- every `Ok` entry of a machine's ARP table is the MAC a tap answering for that address has on
      some network of the machine -/
  caches : ∀ n c ip mac, s.caches[n]? = some c → c.get ip = some (some mac) → Learnable topo n ip mac
  /-- every ARP frame in flight carries an (address, MAC) pair of a tap of its network whose
      machine answers for the address -/
  arps : ∀ fr ∈ s.arpFlight, Claims topo fr.net fr.sip fr.sha
  /-- a waiting forward asks from the local address of the slot it leaves on -/
  tasks : ∀ t ∈ s.tasks, ∀ nd, topo.nodes[t.p.node]? = some nd → nd.localIps[t.p.slot]? = some t.p.loc

theorem cinv_init (topo : Topo) : CInv topo (CState.init topo) := by
  refine ⟨?_, (fun _ h => by simp [CState.init] at h), (fun _ h => by simp [CState.init] at h)⟩
  intro n c ip mac hc hg
  simp only [CState.init, List.getElem?_map] at hc
  cases hn : topo.nodes[n]? with
  | none => simp [hn] at hc
  | some nd =>
    simp only [hn, Option.map_some, Option.some.injEq] at hc
    subst hc
    simp [Cache.get] at hg

/-- new forwards ask from the local address of their slot -/
theorem deliver_tasks_ok {topo : Topo} {fl fl' : List Frame} {i : Nat} {ps : List Pending} {evs : List Ev}
    (hc : deliverCore topo fl i = .ok (fl', ps, evs)) :
    ∀ p ∈ ps, ∀ nd, topo.nodes[p.node]? = some nd → nd.localIps[p.slot]? = some p.loc := by
  intro p hp nd hn
  cases deliverCore_spec hc with
  | noFrame _ => cases hp
  | gone _ _ => cases hp
  | app _ _ _ _ _ _ _ _ _ => cases hp
  | hopDrop _ _ _ => cases hp
  | hopFwd f n nd' σ q hfi ho hd hr =>
    simp only [List.mem_singleton] at hp
    subst hp
    obtain ⟨v, _, _, _, _, hnode, e, _, hslot, hloc, _⟩ := routerDemux_some hr
    have := (tapOwner_spec ho).1
    rw [hnode] at hn
    rw [this] at hn
    cases hn
    rw [hslot]; exact hloc

theorem send_tasks_ok (topo : Topo) (h : Nat) (pkt : Pkt) :
    ∀ p ∈ sendCore topo h pkt, ∀ nd, topo.nodes[p.node]? = some nd → nd.localIps[p.slot]? = some p.loc := by
  intro p hp nd hn
  rcases sendCore_spec topo h pkt with e | ⟨q, nd', e, hn', hs, _, hnode, _⟩
  · rw [e] at hp; cases hp
  · rw [e] at hp
    simp only [List.mem_singleton] at hp
    subst hp
    rw [hnode, hn'] at hn
    cases hn
    unfold hostSend at hs
    split at hs
    · cases hs
    · rename_i loc hl
      simp only [Option.some.injEq] at hs
      subst hs
      exact hl

/-- one tap receives an ARP frame that carries a rightful (address, MAC) pair -/
theorem arpReceive_inv {topo : Topo} {fr : ArpFrame} (hfr : Claims topo fr.net fr.sip fr.sha)
    {acc : List Cache × List ArpFrame} {tap : Nat × Node × Mac} (htap : tap ∈ tapsOn topo fr.net)
    (h1 : ∀ n c ip mac, acc.1[n]? = some c → c.get ip = some (some mac) → Learnable topo n ip mac)
    (h2 : ∀ g ∈ acc.2, Claims topo g.net g.sip g.sha) :
    (∀ n c ip mac, (arpReceive fr acc tap).1[n]? = some c → c.get ip = some (some mac) → Learnable topo n ip mac) ∧
    (∀ g ∈ (arpReceive fr acc tap).2, Claims topo g.net g.sip g.sha) := by
  obtain ⟨n0, nd0, mac0⟩ := tap
  have hc : ∀ n c ip mac, (setCache acc.1 n0 fr.sip (some fr.sha))[n]? = some c →
      c.get ip = some (some mac) → Learnable topo n ip mac := by
    intro n c ip mac hn hg
    rcases setCache_get hn hg with ⟨rfl, rfl, hv⟩ | ⟨c0, hc0, hg0⟩
    · simp only [Option.some.injEq] at hv
      subst hv
      exact ⟨fr.net, ⟨nd0, mac0, htap⟩, hfr⟩
    · exact h1 n c0 ip mac hc0 hg0
  unfold arpReceive
  dsimp only
  split
  · rename_i hcond
    refine ⟨hc, ?_⟩
    intro g hg
    simp only [List.mem_append, List.mem_singleton] at hg
    rcases hg with hg | rfl
    · exact h2 g hg
    · simp only [Bool.and_eq_true] at hcond
      exact ⟨n0, nd0, htap, hcond.2⟩
  · exact ⟨hc, h2⟩

theorem foldl_arpReceive_inv {topo : Topo} {fr : ArpFrame} (hfr : Claims topo fr.net fr.sip fr.sha) :
    ∀ (taps : List (Nat × Node × Mac)) (acc : List Cache × List ArpFrame),
      (∀ t ∈ taps, t ∈ tapsOn topo fr.net) →
      (∀ n c ip mac, acc.1[n]? = some c → c.get ip = some (some mac) → Learnable topo n ip mac) →
      (∀ g ∈ acc.2, Claims topo g.net g.sip g.sha) →
      (∀ n c ip mac, (taps.foldl (arpReceive fr) acc).1[n]? = some c → c.get ip = some (some mac) →
        Learnable topo n ip mac) ∧
      (∀ g ∈ (taps.foldl (arpReceive fr) acc).2, Claims topo g.net g.sip g.sha)
  | [], acc, _, h1, h2 => ⟨h1, h2⟩
  | t :: rest, acc, ht, h1, h2 => by
    simp only [List.foldl_cons]
    obtain ⟨a, b⟩ := arpReceive_inv hfr (ht t (by simp)) h1 h2
    exact foldl_arpReceive_inv hfr rest _ (fun x hx => ht x (by simp [hx])) a b

theorem mem_set_of {α : Type} {l : List α} {i : Nat} {a x : α} (h : x ∈ l.set i a) : x = a ∨ x ∈ l := by
  induction l generalizing i with
  | nil => simp at h
  | cons b l ih =>
    cases i with
    | zero =>
      simp only [List.set_cons_zero, List.mem_cons] at h
      rcases h with h | h
      · exact .inl h
      · exact .inr (by simp [h])
    | succ i =>
      simp only [List.set_cons_succ, List.mem_cons] at h
      rcases h with h | h
      · exact .inr (by simp [h])
      · rcases ih h with h | h
        · exact .inl h
        · exact .inr (by simp [h])

/-- every step of the concrete system keeps the invariant -/
theorem cstep_cinv {topo : Topo} (wf : TopoWf topo) {s s' : CState} {c : CChoice}
    (h : cstep topo s c = .ok s') (inv : CInv topo s) : CInv topo s' := by
  cases c with
  | deliver i =>
    simp only [cstep] at h
    split at h
    · cases h
    · rename_i fl ps evs hc
      simp only [Except.ok.injEq] at h
      subst h
      refine ⟨inv.caches, inv.arps, ?_⟩
      intro t ht
      simp only [List.mem_append, List.mem_map] at ht
      rcases ht with ht | ⟨p, hp, rfl⟩
      · exact inv.tasks t ht
      · exact deliver_tasks_ok hc p hp
  | send hh pkt =>
    simp only [cstep, Except.ok.injEq] at h
    subst h
    refine ⟨inv.caches, inv.arps, ?_⟩
    intro t ht
    simp only [List.mem_append, List.mem_map] at ht
    rcases ht with ht | ⟨p, hp, rfl⟩
    · exact inv.tasks t ht
    · exact send_tasks_ok topo hh pkt p hp
  | inject f =>
    simp only [cstep, Except.ok.injEq] at h
    subst h
    exact ⟨inv.caches, inv.arps, inv.tasks⟩
  | task j =>
    simp only [cstep] at h
    split at h
    · simp only [Except.ok.injEq] at h; subst h; exact inv
    · rename_i t ht
      have htm : t ∈ s.tasks := List.mem_of_getElem? ht
      split at h
      · split at h
        · cases h
        · simp only [Except.ok.injEq] at h
          subst h
          exact ⟨inv.caches, inv.arps, fun t' ht' => inv.tasks t' (List.mem_of_mem_eraseIdx ht')⟩
      · simp only [Except.ok.injEq] at h
        subst h
        exact ⟨inv.caches, inv.arps, fun t' ht' => inv.tasks t' (List.mem_of_mem_eraseIdx ht')⟩
      · split at h
        · simp only [Except.ok.injEq] at h
          subst h
          refine ⟨?_, inv.arps, fun t' ht' => inv.tasks t' (List.mem_of_mem_eraseIdx ht')⟩
          intro n c ip mac hn hg
          rcases setCache_get hn hg with ⟨_, _, hv⟩ | ⟨c0, hc0, hg0⟩
          · cases hv
          · exact inv.caches n c0 ip mac hc0 hg0
        · split at h
          · cases h
          · rename_i net smac hslot
            simp only [Except.ok.injEq] at h
            subst h
            refine ⟨inv.caches, ?_, ?_⟩
            · intro fr hfr
              simp only [List.mem_append, List.mem_singleton] at hfr
              rcases hfr with hfr | rfl
              · exact inv.arps fr hfr
              · -- the request carries (local address of the slot, MAC of the slot)
                cases hn : topo.nodes[t.p.node]? with
                | none => simp [hn] at hslot
                | some nd =>
                  simp only [hn, Option.bind_some] at hslot
                  have hloc := inv.tasks t htm nd hn
                  have hmem : (net, smac) ∈ nd.slots := List.mem_of_getElem? hslot
                  exact ⟨t.p.node, nd, mem_tapsOn.2 ⟨hn, hmem⟩, wf.localClaimed _ nd _ _ hn hloc⟩
            · intro t' ht'
              rcases mem_set_of ht' with rfl | ht'
              · exact inv.tasks t htm
              · exact inv.tasks t' ht'
  | arp a =>
    simp only [cstep] at h
    split at h
    · simp only [Except.ok.injEq] at h; subst h; exact inv
    · rename_i fr hfr
      simp only [Except.ok.injEq] at h
      subst h
      have hfrm : fr ∈ s.arpFlight := List.mem_of_getElem? hfr
      have hcl := inv.arps fr hfrm
      have hsub : ∀ t ∈ (match fr.dmac with
          | none => tapsOn topo fr.net
          | some m => ((tapsOn topo fr.net).filter (fun (t : Nat × Node × Mac) => t.2.2 == m)).take 1),
          t ∈ tapsOn topo fr.net := by
        intro t ht
        split at ht
        · exact ht
        · exact (List.mem_filter.1 (List.mem_of_mem_take ht)).1
      obtain ⟨r1, r2⟩ := foldl_arpReceive_inv hcl _ (s.caches, []) hsub inv.caches (fun _ hg => by cases hg)
      refine ⟨r1, ?_, inv.tasks⟩
      intro g hg
      simp only [List.mem_append] at hg
      rcases hg with hg | hg
      · exact inv.arps g (List.mem_of_mem_eraseIdx hg)
      · exact r2 g hg

/-- a network losing an ARP frame (`dropArp`, the fault schedules of the differential runs) keeps
    the invariant as well: nothing is learned from a frame that reaches nobody -/
theorem dropArp_cinv {topo : Topo} {s : CState} (inv : CInv topo s) (a : Nat) : CInv topo (dropArp s a) :=
  ⟨inv.caches, (fun fr h => inv.arps fr (List.mem_of_mem_eraseIdx h)), inv.tasks⟩

theorem crun_cinv {topo : Topo} (wf : TopoWf topo) : ∀ (cs : List CChoice) (s s' : CState),
    crun topo s cs = .ok s' → CInv topo s → CInv topo s'
  | [], s, s', h, inv => by simp [crun] at h; subst h; exact inv
  | c :: cs, s, s', h, inv => by
    simp only [crun] at h
    split at h
    · cases h
    · rename_i s1 h1
      exact crun_cinv wf cs s1 s' h (cstep_cinv wf h1 inv)

/-! ### from the concrete schedule to `FaithfulRun` -/

/-- what is asked of one concrete choice: nothing else carries token `k`, and no resolve task of
    token `k` is polled with an exhausted retry budget while the table has no answer -/
def CChoiceOk (k : Nat) (s : CState) : CChoice → Prop
  | .send _ pkt => pkt.tok ≠ k
  | .inject f => f.pkt.tok ≠ k
  | .task j => ∀ t, s.tasks[j]? = some t → t.p.pkt.tok = k →
      ((s.caches[t.p.node]?).getD []).answer t.p.nextHop = none → t.tries ≠ 0
  | _ => True

/-- the ARP exchanges made for datagram `k` complete within the retry budget, along the whole run -/
def ArpInTime (topo : Topo) (k : Nat) : CState → List CChoice → Prop
  | _, [] => True
  | s, c :: cs => CChoiceOk k s c ∧ ∀ s', cstep topo s c = .ok s' → ArpInTime topo k s' cs

/-- the abstract choices that simulate a concrete choice are faithful -/
theorem absChoices_faithful {topo : Topo} (wf : TopoWf topo) {k : Nat} {s : CState} {c : CChoice}
    (inv : CInv topo s) (tw : TrackW topo k s.abs) (ok : CChoiceOk k s c) :
    ∀ a ∈ absChoices s c, ChoiceFaithful topo k s.abs a := by
  intro a ha
  cases c with
  | deliver i => simp only [absChoices, List.mem_singleton] at ha; subst ha; trivial
  | send hh pkt => simp only [absChoices, List.mem_singleton] at ha; subst ha; exact ok
  | inject f => simp only [absChoices, List.mem_singleton] at ha; subst ha; exact ok
  | arp _ => simp [absChoices] at ha
  | task j =>
    simp only [absChoices] at ha
    split at ha
    · cases ha
    · rename_i t ht
      have hp : s.abs.pend[j]? = some t.p := by simp [CState.abs, ht]
      split at ha
      · rename_i mac hm
        simp only [List.mem_singleton] at ha
        subst ha
        intro p hpj hk
        rw [hp] at hpj
        cases hpj
        obtain ⟨mac', hr, hg⟩ := answer_some hm
        cases hr
        cases hcn : s.caches[t.p.node]? with
        | none => simp [hcn, Cache.get] at hg
        | some c =>
          simp only [hcn, Option.getD_some] at hg
          have hl := inv.caches _ c _ _ hcn hg
          have hw : HopsWf topo t.p := tw.pd t.p (List.mem_of_getElem? hp) hk
          exact hop_faithful wf hw.shared hl
      · rename_i hm
        obtain ⟨mac', hr, _⟩ := answer_some hm
        cases hr
      · rename_i hm
        split at ha
        · rename_i h0
          simp only [List.mem_singleton] at ha
          subst ha
          intro p hpj hk
          rw [hp] at hpj
          cases hpj
          exact ok t ht hk hm h0
        · cases ha

theorem faithfulRun_append {topo : Topo} {k : Nat} : ∀ (a b : List Choice) (s : State),
    (∀ x ∈ a, True) → FaithfulRun topo k s a →
    (∀ s1, run topo s a = .ok s1 → FaithfulRun topo k s1 b) → FaithfulRun topo k s (a ++ b)
  | [], b, s, _, _, hb => hb s rfl
  | c :: a, b, s, _, ha, hb => by
    simp only [List.cons_append, FaithfulRun]
    refine ⟨ha.1, ?_⟩
    intro s' hs
    refine faithfulRun_append a b s' (fun _ _ => trivial) (ha.2 s' hs) ?_
    intro s1 h1
    exact hb s1 (by simp only [run, hs]; exact h1)

/-- a run of the concrete system in which the ARP exchanges of datagram `k` complete in time
    is, seen abstractly, a `FaithfulRun` for `k` -/
theorem faithful_of_concrete {topo : Topo} (wf : TopoWf topo) {k : Nat} :
    ∀ (cs : List CChoice) (s : CState), CInv topo s → TrackW topo k s.abs → ArpInTime topo k s cs →
      FaithfulRun topo k s.abs (absSched topo s cs)
  | [], _, _, _, _ => trivial
  | c :: cs, s, inv, tw, tm => by
    simp only [absSched]
    have hfa := absChoices_faithful wf inv tw tm.1
    -- the abstract choices of this step, one by one
    have hone : FaithfulRun topo k s.abs (absChoices s c) := by
      have hlen : absChoices s c = [] ∨ ∃ a, absChoices s c = [a] := by
        cases c with
        | deliver i => exact .inr ⟨_, rfl⟩
        | send _ _ => exact .inr ⟨_, rfl⟩
        | inject _ => exact .inr ⟨_, rfl⟩
        | arp _ => exact .inl rfl
        | task j =>
          simp only [absChoices]
          split
          · exact .inl rfl
          · split
            · exact .inr ⟨_, rfl⟩
            · exact .inr ⟨_, rfl⟩
            · split
              · exact .inr ⟨_, rfl⟩
              · exact .inl rfl
      rcases hlen with e | ⟨a, e⟩
      · rw [e]; trivial
      · rw [e] at hfa ⊢
        exact ⟨hfa a (by simp), fun _ _ => trivial⟩
    refine faithfulRun_append _ _ _ (fun _ _ => trivial) hone ?_
    intro s1 h1
    cases hs : cstep topo s c with
    | error e => trivial
    | ok s' =>
      have href := cstep_refines topo s s' c hs
      rw [href] at h1
      cases h1
      dsimp only
      have tw' : TrackW topo k s'.abs := by
        -- replay the abstract choices of this step
        have : ∀ (l : List Choice) (st st' : State), (∀ a ∈ l, ChoiceFaithful topo k st a) → l.length ≤ 1 →
            run topo st l = .ok st' → TrackW topo k st → TrackW topo k st' := by
          intro l st st' hf hl hr htw
          match l, hl with
          | [], _ => simp [run] at hr; subst hr; exact htw
          | [a], _ =>
            rw [run_single] at hr
            exact step_trackW hr htw (hf a (by simp))
        refine this (absChoices s c) s.abs s'.abs hfa ?_ href tw
        cases c with
        | deliver i => simp [absChoices]
        | send _ _ => simp [absChoices]
        | inject _ => simp [absChoices]
        | arp _ => simp [absChoices]
        | task j =>
          simp only [absChoices]
          split
          · simp
          · split
            · simp
            · simp
            · split <;> simp
      exact faithful_of_concrete wf cs s' (cstep_cinv wf hs inv) tw' (tm.2 s' hs)

end Elvis.Router
