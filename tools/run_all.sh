#!/bin/bash
# Run every claimed check (quick tier, or $1) on the unchanged tree; evidence files are rewritten.
# Refuses to run when /repo has uncommitted changes (evidence must come from the unchanged tree).
cd "$(dirname "$0")/.."
if [ -n "$(git -C ../repo status --porcelain --untracked-files=no)" ]; then echo "repo has uncommitted changes"; exit 2; fi
TIER=${1:-quick}
FAIL=0
for P in $(python3 -c "import sys; sys.path.insert(0,'tools'); from propcfg import PROPS; print(' '.join(sorted(PROPS)))"); do
  echo "=== $P ($TIER)"
  ./check $P --tier $TIER 2>/dev/null | grep -E "^(OK|VIOLATION|KNOWN-FINDING)" || { echo "!!! $P produced no verdict"; FAIL=1; }
  [ "${PIPESTATUS[0]}" != "0" ] && FAIL=1
done
python3-vt - <<'PY'
import json,glob,jsonschema
s=json.load(open('/root/.vp/EVIDENCE.schema.json'))
for f in sorted(glob.glob('evidence/*.json')):
    d=json.load(open(f)); jsonschema.validate(d,s)
    c=d['coverage']; assert c['discharged']==c['obligations']>=1, (f,c['discharged'],c['obligations'])
    assert d.get('violations',0)==0, f
print("evidence files valid:", len(glob.glob('evidence/*.json')))
PY
exit $FAIL
