import ElvisVerif.Lemmas.TcpConvInv
/-!
# C01 — towards convergence: the closed system nobody closes

System: `Model/TcpSys.lean`.  Quantification: `PlainRun` (`Lemmas/TcpConvInv.lean`) from the state after
`open A` + (`listen B` | `open B`) — any ISNs, any MTUs: any finite interleaving of `write`, `read`,
`tick`, `emit` and deliveries of ANY element of the history of everything ever emitted (loss,
duplication, reordering, arbitrary delay) to the side it is addressed to; no `close`, `abort`,
`drop`, raw `inject`.  H31 as `RoomH`: fewer than 2^31 − 2 bytes submitted per direction.
-/
namespace Elvis.Tcp
open Tcb

/-- **No RST is ever emitted between the two endpoints of a closed system nobody closes.**  In
    every reachable state (see the file header): no segment in the history of everything ever
    emitted has the RST bit — neither a TCB (for an unacceptable ACK in SYN-SENT / SYN-RECEIVED) nor
    the LISTEN / CLOSED handlers ever formed one —; no RST waits on a queue or in a reorder heap;
    neither side has lost its TCB or LISTEN binding; every TCB is in SYN-SENT, SYN-RECEIVED or
    ESTABLISHED.  (Proof: the acknowledgment invariant — every ACK number ever issued lies in
    `[ISS_peer + 1, RCV.NXT] ⊆ [ISS_peer + 1, SND.NXT_peer]` — makes the ACK test of block 2 succeed
    in SYN-SENT and SYN-RECEIVED; without RST nothing deletes a TCB; with both sides alive the CLOSED
    handler never runs, and the LISTEN handler sees only the peer's SYN.) -/
theorem c01_no_rst_in_closed_system (ia ib : Seq) (ma mb : U16) (simultaneous : Bool) (sys0 sys : Sys)
    (rs : List Res)
    (h0 : Sys.run {} [.open .A ia ma, if simultaneous then .open .B ib mb else .listen .B ib mb] = .ok (sys0, rs))
    (hrun : PlainRun sys0 sys) (h31 : RoomH sys) :
    (∀ σ ∈ sys.history, σ.hdr.ctl.rst = false) ∧
    (∀ x, (sys.side x).tcb.isSome = true ∨ (sys.side x).listen.isSome = true) ∧
    (∀ x t, (sys.side x).tcb = some t → C01.Ok3 t.state ∧ (∀ h ∈ t.outgoing.oneshot, h.ctl.rst = false) ∧
      (∀ tr ∈ t.outgoing.retransmit, tr.segment.hdr.ctl.rst = false) ∧
      (∀ σ ∈ t.incoming.segments, σ.hdr.ctl.rst = false)) := by
  have hc := conv_run (conv_init ia ib ma mb simultaneous sys0 rs h0) hrun h31
  refine ⟨hc.nr.hist, hc.nr.alive, fun x t ht => ?_⟩
  have n := hc.nr.tcb x t ht
  exact ⟨((hc.c01.side x).tcb t ht).st, n.one, n.rtx, n.heap⟩

/-! ### non-vacuity -/

/-- an executable form of `Op.Plain` / `PlainRun` for concrete runs -/
def plainB (s : Sys) : Op → Bool
  | .deliver x i =>
    match s.nth i with
    | none => true
    | some σ => σ.hdr.srcPort == x.peer.port && σ.hdr.dstPort == x.port
  | .write .. => true
  | .read _ => true
  | .tick .. => true
  | .emit _ => true
  | _ => false

theorem plainB_sound (s : Sys) (op : Op) (h : plainB s op = true) : Op.Plain s op := by
  cases op <;> simp only [plainB, Op.Plain] at h ⊢ <;> try trivial
  · intro σ hσ
    rw [hσ] at h
    simpa using h
  all_goals exact absurd h (by simp)

def plainRunB : Sys → List Op → Option Sys
  | s, [] => some s
  | s, op :: ops =>
    if plainB s op then
      match s.step op with
      | .ok (s', _) => plainRunB s' ops
      | .error _ => none
    else none

theorem PlainRun.head {s s1 s2 : Sys} {op : Op} {r : Res} (hp : Op.Plain s op)
    (e : s.step op = .ok (s1, r)) (h : PlainRun s1 s2) : PlainRun s s2 := by
  induction h with
  | refl => exact .step (.refl _) hp e
  | step _ hp' e' ih => exact .step ih hp' e'

theorem plainRunB_sound (s s' : Sys) (ops : List Op) (h : plainRunB s ops = some s') : PlainRun s s' := by
  induction ops generalizing s with
  | nil => simp only [plainRunB, Option.some.injEq] at h; subst h; exact .refl _
  | cons op ops ih =>
    unfold plainRunB at h
    split at h
    · rename_i hc
      split at h
      · rename_i s1 r e
        exact PlainRun.head (plainB_sound s op hc) e (ih s1 h)
      · simp at h
    · simp at h

/-- simultaneous open with crossing SYNs, data in both directions, a duplicate and a reordering:
    a plain run; 7 + 2 history elements, none of them a RST -/
def noRstRun : Bool :=
  match Sys.run {} [.open .A 7 1500, .open .B 4294967295 100] with
  | .ok (sys0, _) =>
    match plainRunB sys0 [.write .A [9, 8], .emit .A, .emit .B, .deliver .B 0, .deliver .A 1, .emit .A, .emit .B,
        .deliver .A 4, .deliver .B 2, .deliver .B 3, .write .B [5], .emit .B, .deliver .A 7, .deliver .A 7,
        .read .A, .read .B] with
    | some sys => sys.history.length == 8 && sys.history.all (fun σ => !σ.hdr.ctl.rst) &&
        decide (sys.a.submitted.length + 2 < 2147483648) && decide (sys.b.submitted.length + 2 < 2147483648)
    | none => false
  | .error _ => false

example : ∃ sys0 sys : Sys, ∃ rs, Sys.run {} [.open .A 7 1500, if true then .open .B 4294967295 100 else .listen .B 4294967295 100]
      = .ok (sys0, rs) ∧ PlainRun sys0 sys ∧ RoomH sys ∧ sys.history.length = 8 := by
  have key : noRstRun = true := by decide
  unfold noRstRun at key
  split at key
  · rename_i sys0 rs e0
    split at key
    · rename_i sys e1
      simp only [Bool.and_eq_true, beq_iff_eq, decide_eq_true_eq] at key
      exact ⟨sys0, sys, rs, e0, plainRunB_sound _ _ _ e1, ⟨key.1.2, key.2⟩, key.1.1.1⟩
    · simp at key
  · simp at key

end Elvis.Tcp
