import ElvisVerif.Model.Codec.Arp
import ElvisVerif.Model.Codec.Dns
import ElvisVerif.Model.Codec.Dhcp
/-!
Helper lemmas for the ARP / DNS / DHCP codec models (`Props/C08b.lean`, `Props/C14b.lean`):
reader/writer inversions, the `NoPanic` calculus over `Except DecErr`, `readUntil`, `rdataLoop`.
-/
namespace Elvis.CodecB

/-- "google.com" query as the client builds it -/
def Dns.example1 : Dns.DnsMessage :=
  { header := Dns.newHeader 1337 false,
    question := Dns.newQuestion [0x67, 0x6f, 0x6f, 0x67, 0x6c, 0x65, 0x2e, 0x63, 0x6f, 0x6d],
    answer := Dns.newRecord [0x67, 0x6f, 0x6f, 0x67, 0x6c, 0x65, 0x2e, 0x63, 0x6f, 0x6d] 1600 168496141 }

/-! ### bytes -/

theorem ofNat_of_mod {a : UInt8} {n : Nat} (h : n % 256 = a.toNat) : UInt8.ofNat n = a := by
  apply UInt8.toNat_inj.1; simp [h]

theorem nextU8_put (v : Nat) (r : Bytes) (h : v < 256) : nextU8 (putU8 v ++ r) = some (v, r) := by
  simp [putU8, nextU8]; omega

theorem nextU16_put (v : Nat) (r : Bytes) (h : v < 65536) :
    nextU16 (putU16 v ++ r) = some (v, r) := by
  simp [putU16, nextU16]; omega

theorem nextU32_put (v : Nat) (r : Bytes) (h : v < 4294967296) :
    nextU32 (putU32 v ++ r) = some (v, r) := by
  simp [putU32, nextU32]; omega

theorem nextU48_put (v : Nat) (r : Bytes) (h : v < 281474976710656) :
    nextU48 (putU48 v ++ r) = some (v, r) := by
  simp [putU48, nextU48]; omega

theorem nextIpv4_put (v : Nat) (r : Bytes) (h : v < 4294967296) :
    nextIpv4 (putU32 v ++ r) = some (v, r) := nextU32_put v r h

theorem nextU8_inv {bs r : Bytes} {v : Nat} (h : nextU8 bs = some (v, r)) :
    bs = putU8 v ++ r ∧ v < 256 := by
  match bs, h with
  | a :: t, h =>
    simp only [nextU8, Option.some.injEq, Prod.mk.injEq] at h
    obtain ⟨rfl, rfl⟩ := h
    have ha := a.toNat_lt
    refine ⟨?_, by omega⟩
    simp only [putU8, List.cons_append, List.nil_append]
    rw [ofNat_of_mod (a := a) (by omega)]

theorem nextU16_inv {bs r : Bytes} {v : Nat} (h : nextU16 bs = some (v, r)) :
    bs = putU16 v ++ r ∧ v < 65536 := by
  match bs, h with
  | a :: b :: t, h =>
    simp only [nextU16, Option.some.injEq, Prod.mk.injEq] at h
    obtain ⟨rfl, rfl⟩ := h
    have ha := a.toNat_lt; have hb := b.toNat_lt
    refine ⟨?_, by omega⟩
    simp only [putU16, List.cons_append, List.nil_append]
    rw [ofNat_of_mod (a := a) (by omega), ofNat_of_mod (a := b) (by omega)]

theorem nextU32_inv {bs r : Bytes} {v : Nat} (h : nextU32 bs = some (v, r)) :
    bs = putU32 v ++ r ∧ v < 4294967296 := by
  match bs, h with
  | a :: b :: c :: d :: t, h =>
    simp only [nextU32, Option.some.injEq, Prod.mk.injEq] at h
    obtain ⟨rfl, rfl⟩ := h
    have ha := a.toNat_lt; have hb := b.toNat_lt; have hc := c.toNat_lt; have hd := d.toNat_lt
    refine ⟨?_, by omega⟩
    simp only [putU32, List.cons_append, List.nil_append]
    rw [ofNat_of_mod (a := a) (by omega), ofNat_of_mod (a := b) (by omega),
      ofNat_of_mod (a := c) (by omega), ofNat_of_mod (a := d) (by omega)]

theorem nextU48_inv {bs r : Bytes} {v : Nat} (h : nextU48 bs = some (v, r)) :
    bs = putU48 v ++ r ∧ v < 281474976710656 := by
  match bs, h with
  | a :: b :: c :: d :: e :: f :: t, h =>
    simp only [nextU48, Option.some.injEq, Prod.mk.injEq] at h
    obtain ⟨rfl, rfl⟩ := h
    have ha := a.toNat_lt; have hb := b.toNat_lt; have hc := c.toNat_lt; have hd := d.toNat_lt
    have he := e.toNat_lt; have hf := f.toNat_lt
    refine ⟨?_, by omega⟩
    simp only [putU48, List.cons_append, List.nil_append]
    rw [ofNat_of_mod (a := a) (by omega), ofNat_of_mod (a := b) (by omega),
      ofNat_of_mod (a := c) (by omega), ofNat_of_mod (a := d) (by omega),
      ofNat_of_mod (a := e) (by omega), ofNat_of_mod (a := f) (by omega)]

theorem nextIpv4_inv {bs r : Bytes} {v : Nat} (h : nextIpv4 bs = some (v, r)) :
    bs = putU32 v ++ r ∧ v < 4294967296 := nextU32_inv h

/-! ### `readUntil` -/

theorem readUntil_append (d : UInt8) (n r : Bytes) (h : d ∉ n) :
    readUntil d (n ++ d :: r) = some (n, r) := by
  induction n with
  | nil => simp [readUntil]
  | cons b t ih =>
    have hb : b ≠ d := fun e => h (by simp [e])
    have ht : d ∉ t := fun e => h (by simp [e])
    simp [readUntil, hb, ih ht]

theorem readUntil_inv (d : UInt8) {bs n r : Bytes} (h : readUntil d bs = some (n, r)) :
    bs = n ++ d :: r ∧ d ∉ n := by
  induction bs generalizing n with
  | nil => simp [readUntil] at h
  | cons b t ih =>
    unfold readUntil at h
    by_cases hb : b = d
    · simp only [hb, if_true, Option.some.injEq, Prod.mk.injEq] at h
      obtain ⟨rfl, rfl⟩ := h
      simp [hb]
    · simp only [hb, if_false] at h
      cases hr : readUntil d t with
      | none => simp [hr] at h
      | some p =>
        obtain ⟨n', r'⟩ := p
        simp only [hr, Option.some.injEq, Prod.mk.injEq] at h
        obtain ⟨rfl, rfl⟩ := h
        obtain ⟨e, hn⟩ := ih hr
        refine ⟨by simp [e], ?_⟩
        intro hm
        rcases List.mem_cons.1 hm with h1 | h1
        · exact hb h1.symm
        · exact hn h1

/-! ### `Except DecErr` -/

deriving instance DecidableEq for Except

theorem orShort_ok {α : Type} {o : Option α} {a : α} : orShort o = .ok a ↔ o = some a := by
  cases o <;> simp [orShort]

theorem bind_ok_inv {α β : Type} {x : Except DecErr α} {f : α → Except DecErr β} {b : β}
    (h : (x >>= f) = .ok b) : ∃ a, x = .ok a ∧ f a = .ok b := by
  cases x with
  | error e => simp [bind, Except.bind] at h
  | ok a => exact ⟨a, rfl, h⟩

/-- the outcome is not a panic -/
def NoPanic {α : Type} (r : Except DecErr α) : Prop := ∀ s, r ≠ .error (.panic s)

theorem noPanic_ok {α : Type} (a : α) : NoPanic (.ok a : Except DecErr α) := by
  intro s h; cases h

theorem noPanic_pure {α : Type} (a : α) : NoPanic (pure a : Except DecErr α) := noPanic_ok a

theorem noPanic_orShort {α : Type} (o : Option α) : NoPanic (orShort o) := by
  intro s h; cases o <;> simp [orShort] at h

theorem noPanic_bind {α β : Type} {x : Except DecErr α} {f : α → Except DecErr β}
    (hx : NoPanic x) (hf : ∀ a, x = .ok a → NoPanic (f a)) : NoPanic (x >>= f) := by
  cases x with
  | error e => intro s h; exact hx s (by simpa [bind, Except.bind] using h)
  | ok a => exact hf a rfl

/-! ### DNS `rdataLoop` -/

theorem rdataLoop_noPanic (rdlength : Nat) (hl : rdlength ≤ 65535) :
    ∀ fuel i bs, NoPanic (Dns.rdataLoop rdlength fuel i bs) := by
  intro fuel
  induction fuel with
  | zero => intro i bs; exact noPanic_ok _
  | succ k ih =>
    intro i bs
    unfold Dns.rdataLoop
    by_cases hi : i < rdlength
    · simp only [hi, if_true]
      cases bs with
      | nil => intro s h; cases h
      | cons b r =>
        have : ¬ (i + 1 > 65535) := by omega
        simp only [this, if_false]
        have := ih (i + 1) r
        cases hr : Dns.rdataLoop rdlength k (i + 1) r with
        | ok p => intro s h; cases h
        | error e =>
          intro s h
          simp only [Except.error.injEq] at h
          exact this s (by rw [hr, h])
    · simp only [hi, if_false]; exact noPanic_ok _

/-- the loop reads exactly `rdlength - i` bytes when given enough fuel -/
theorem rdataLoop_append (rdlength : Nat) (hl : rdlength ≤ 65535) :
    ∀ fuel i (d r : Bytes), i + d.length = rdlength → rdlength - i ≤ fuel →
      Dns.rdataLoop rdlength fuel i (d ++ r) = .ok (d, r) := by
  intro fuel
  induction fuel with
  | zero =>
    intro i d r h1 h2
    have : d.length = 0 := by omega
    have : d = [] := List.eq_nil_of_length_eq_zero this
    subst this; simp [Dns.rdataLoop]
  | succ k ih =>
    intro i d r h1 h2
    unfold Dns.rdataLoop
    cases d with
    | nil =>
      have : ¬ i < rdlength := by simp at h1; omega
      simp [this]
    | cons b t =>
      have hi : i < rdlength := by simp at h1; omega
      have h3 : ¬ (i + 1 > 65535) := by omega
      simp only [hi, if_true, List.cons_append, h3, if_false]
      rw [ih (i + 1) t r (by simp at h1; omega) (by omega)]

theorem rdataLoop_inv (rdlength : Nat) :
    ∀ fuel i (bs d r : Bytes), i ≤ rdlength → rdlength - i ≤ fuel →
      Dns.rdataLoop rdlength fuel i bs = .ok (d, r) → bs = d ++ r ∧ i + d.length = rdlength := by
  intro fuel
  induction fuel with
  | zero =>
    intro i bs d r h0 h2 h
    simp only [Dns.rdataLoop, Except.ok.injEq, Prod.mk.injEq] at h
    obtain ⟨rfl, rfl⟩ := h
    simp; omega
  | succ k ih =>
    intro i bs d r h0 h2 h
    unfold Dns.rdataLoop at h
    by_cases hi : i < rdlength
    · simp only [hi, if_true] at h
      cases bs with
      | nil => cases h
      | cons b t =>
        simp only at h
        by_cases ho : i + 1 > 65535
        · simp [ho] at h
        · simp only [ho, if_false] at h
          cases hr : Dns.rdataLoop rdlength k (i + 1) t with
          | error e => simp [hr] at h
          | ok p =>
            obtain ⟨d', r'⟩ := p
            simp only [hr, Except.ok.injEq, Prod.mk.injEq] at h
            obtain ⟨rfl, rfl⟩ := h
            obtain ⟨e, hl⟩ := ih (i + 1) t d' r' (by omega) (by omega) hr
            refine ⟨by simp [e], ?_⟩
            simp; omega
    · simp only [hi, if_false, Except.ok.injEq, Prod.mk.injEq] at h
      obtain ⟨rfl, rfl⟩ := h
      simp; omega

/-! ### DHCP message type / strings -/

theorem noPanic_msgTypeTryFrom (t : Nat) : NoPanic (Dhcp.msgTypeTryFrom t) := by
  intro s h
  unfold Dhcp.msgTypeTryFrom at h
  repeat' split at h
  all_goals cases h

theorem noPanic_stringFromUtf8 (v : Bytes) : NoPanic (Dhcp.stringFromUtf8 v) := by
  intro s h
  unfold Dhcp.stringFromUtf8 at h
  split at h <;> cases h

theorem msgTypeTryFrom_toNat (t : Dhcp.MessageType) : Dhcp.msgTypeTryFrom t.toNat = .ok t := by
  cases t <;> rfl

theorem msgTypeTryFrom_inv {n : Nat} {t : Dhcp.MessageType} (h : Dhcp.msgTypeTryFrom n = .ok t) :
    n = t.toNat := by
  unfold Dhcp.msgTypeTryFrom at h
  repeat' split at h
  all_goals first | (cases h; simp [Dhcp.MessageType.toNat, *]) | cases h

end Elvis.CodecB
