import ElvisVerif.Lemmas.TcpAckBlocks
/-!
# Every ACK number an endpoint issues lies in `[ISS_peer + 1, RCV.NXT]`

Single endpoint, `base` = the peer's ISS, `N` = how many sequence numbers the peer has consumed
(as in `Lemmas/TcbSeq.lean`).  `top base s` is the upper bound for ACK numbers issued by `s`:
`RCV.NXT − base` outside SYN-SENT, `0` (= no ACK bit at all) in SYN-SENT.

`AStep base N bad A s s'` — what `process_segment` / `segment_arrives` do: the receive side moves
as `RcvStep` says, `RCV.NXT` is past the peer's SYN outside SYN-SENT, every header newly queued
acknowledges at most `top base s'` and is a RST only if `bad`, `SND.UNA` moved only to a value
satisfying `A`.
-/
namespace Elvis.Tcp
open Elvis.ModCmp
namespace Tcb

/-- bound for the ACK numbers `s` has issued so far, as an offset from the peer's ISS -/
def top (base : Seq) (s : Tcb) : Nat := if s.state = .SynSent then 0 else off base s.rcv.nxt

/-- the header's ACK number (if it has the ACK bit) lies in `[base + 1, base + R]` -/
def AckLe (base : Seq) (R : Nat) (h : Hdr) : Prop :=
  h.ctl.ack = true → 1 ≤ off base h.ack ∧ off base h.ack ≤ R

theorem AckLe.mono {base : Seq} {R R' : Nat} {h : Hdr} (a : AckLe base R h) (hr : R ≤ R') : AckLe base R' h :=
  fun hf => ⟨(a hf).1, Nat.le_trans (a hf).2 hr⟩

theorem ackLe_of_noack {base : Seq} {R : Nat} {h : Hdr} (hf : h.ctl.ack = false) : AckLe base R h :=
  fun h' => by rw [hf] at h'; cases h'

/-- with bound 0 there is no ACK bit -/
theorem AckLe.zero {base : Seq} {h : Hdr} (a : AckLe base 0 h) : h.ctl.ack = false := by
  cases hf : h.ctl.ack with
  | false => rfl
  | true => have := a hf; omega

theorem top_of_synSent {base : Seq} {s : Tcb} (h : s.state = .SynSent) : top base s = 0 := by
  unfold top; rw [if_pos h]

theorem top_of_ne {base : Seq} {s : Tcb} (h : s.state ≠ .SynSent) : top base s = off base s.rcv.nxt := by
  unfold top; rw [if_neg h]

theorem top_mono {base : Seq} {N : Nat} {a b : Tcb} (h : RcvStep base N a b) : top base a ≤ top base b := by
  by_cases ha : a.state = .SynSent
  · rw [top_of_synSent ha]; exact Nat.zero_le _
  · rw [top_of_ne ha, top_of_ne (h.notBack ha)]
    exact h.mono ha

theorem top_le {base : Seq} {N : Nat} {s : Tcb} (h : RcvBelow base N s) : top base s ≤ N := by
  by_cases hs : s.state = .SynSent
  · rw [top_of_synSent hs]; exact Nat.zero_le _
  · rw [top_of_ne hs]; exact h hs

/-- what is asked of a queued header: ACK number bounded by `top`, RST only if `bad` -/
def AckP (base : Seq) (bad : Prop) (c : Tcb) (h : Hdr) : Prop :=
  AckLe base (top base c) h ∧ (h.ctl.rst = true → bad)

theorem ackP_new {base : Seq} {bad : Prop} {c : Tcb} {h : Hdr} (hn : NewHdr c h)
    (hpos : c.state ≠ .SynSent → 1 ≤ off base c.rcv.nxt) : AckP base bad c h := by
  refine ⟨fun hf => ?_, fun hr => by rw [hn.1] at hr; cases hr⟩
  obtain ⟨e, hs⟩ := hn.2.2.1 hf
  rw [top_of_ne hs, e]
  exact ⟨hpos hs, Nat.le_refl _⟩

theorem ackP_ackBlock {base : Seq} {s c : Tcb} {seg h : Hdr} (hn : AckBlockHdr s c seg h)
    (hpos : c.state ≠ .SynSent → 1 ≤ off base c.rcv.nxt) : AckP base (¬ GoodAck s seg) c h := by
  rcases hn with hn | ⟨hf, hb⟩
  · exact ackP_new hn hpos
  · exact ⟨ackLe_of_noack hf, fun _ => hb⟩

structure AStep (base : Seq) (N : Nat) (bad : Prop) (A : Seq → Prop) (s s' : Tcb) : Prop where
  rcv : RcvStep base N s s'
  pos : s'.state ≠ .SynSent → 1 ≤ off base s'.rcv.nxt
  q : QStep (AckP base bad s') A s s'

theorem AStep.trans {base : Seq} {N : Nat} {bad : Prop} {A : Seq → Prop} {a b c : Tcb}
    (h1 : AStep base N bad A a b) (h2 : AStep base N bad A b c) : AStep base N bad A a c :=
  ⟨h1.rcv.trans h2.rcv, h2.pos,
    (h1.q.mono (fun _ hx => ⟨hx.1.mono (top_mono h2.rcv), hx.2⟩) (fun _ hx => hx)).trans h2.q⟩

/-- a block that leaves the receive side alone -/
theorem AStep.of_same {base : Seq} {N : Nat} {bad : Prop} {A : Seq → Prop} {s s' : Tcb}
    (hb : RcvBelow base N s) (hpos : s.state ≠ .SynSent → 1 ≤ off base s.rcv.nxt)
    (hr : s'.rcv = s.rcv) (hs : s'.state = .SynSent ↔ s.state = .SynSent)
    (q : QStep (AckP base bad s') A s s') : AStep base N bad A s s' :=
  ⟨RcvStep.of_same hb hr hs, fun h => by rw [hr]; exact hpos (fun hx => h (hs.2 hx)), q⟩

theorem AStep.refl {base : Seq} {N : Nat} {bad : Prop} {A : Seq → Prop} {s : Tcb}
    (hb : RcvBelow base N s) (hpos : s.state ≠ .SynSent → 1 ≤ off base s.rcv.nxt) : AStep base N bad A s s :=
  AStep.of_same hb hpos rfl Iff.rfl (QStep.refl _)

/-- weaken the RST condition -/
theorem AStep.imp {base : Seq} {N : Nat} {bad bad' : Prop} {A : Seq → Prop} {s s' : Tcb}
    (h : AStep base N bad A s s') (hb : bad → bad') : AStep base N bad' A s s' :=
  ⟨h.rcv, h.pos, h.q.mono (fun _ hx => ⟨hx.1, fun hr => hb (hx.2 hr)⟩) (fun _ hx => hx)⟩

/-! ## `process_segment` -/

/-- **one segment.**  Hypotheses as in `processSegment_rcv` (the segment lies below `base + N`
    and passed the reorder gate) plus: RCV.NXT is past the peer's SYN.  Then every header queued
    meanwhile acknowledges a number in `[base + 1, RCV.NXT']`, a RST is queued only for an ACK
    field that fails `GoodAck`, and SND.UNA moves only to the segment's ACK field. -/
theorem processSegment_ack (s : Tcb) (segment : Segment) (s' : Tcb) (r : ProcessSegmentResult)
    (e : s.processSegment segment = .ok (s', r))
    (base : Seq) (N : Nat) (hN : N < 2147483648) (hb : RcvBelow base N s)
    (hpos : s.state ≠ .SynSent → 1 ≤ off base s.rcv.nxt) (hσ : SegBelow base N segment)
    (hgate : s.state ≠ .SynSent → modGt segment.hdr.seq s.rcv.nxt = false)
    (A : Seq → Prop) (hA : segment.hdr.ctl.ack = true → A segment.hdr.ack) :
    AStep base N (¬ GoodAck s segment.hdr) A s s' := by
  unfold processSegment at e
  dsimp only at e
  cases h1 : seqCheck s segment.hdr (BitVec.ofNat 32 segment.text.length) with
  | error err => rw [h1] at e; simp [B.andThen] at e
  | ok p1 =>
    obtain ⟨s1, r1⟩ := p1
    have g1 := seqCheck_irs _ _ _ _ _ h1
    have k1 := (seqCheck_edges _ _ _ _ _ h1).1
    have pos1 : s1.state ≠ .SynSent → 1 ≤ off base s1.rcv.nxt := by
      rw [g1, k1.state]; exact hpos
    have a1 : AStep base N (¬ GoodAck s segment.hdr) A s s1 :=
      AStep.of_same hb hpos g1 (by rw [k1.state])
        ((seqCheck_q (A := A) _ _ _ _ _ h1).mono (fun _ hx => ackP_new hx pos1) (fun _ hx => hx))
    rw [h1] at e
    cases r1 with
    | some x => simp only [andThen_some] at e; cases e; exact a1
    | none =>
      simp only [andThen_none] at e
      -- block 1 fell through: the TCB is unchanged
      have hs1 : s1 = s := by
        unfold seqCheck at h1
        split at h1
        · cases h1; rfl
        · split at h1
          · simp at h1
          · cases h1; rfl
          · rw [enqueueThen_eq] at h1; cases h1
      subst hs1
      obtain ⟨s2, r2, e2, q2, rc2, iff2⟩ := ackBlock_q (A := A) s1 segment.hdr hA
      have pos2 : s2.state ≠ .SynSent → 1 ≤ off base s2.rcv.nxt := by
        intro h; rw [rc2]; exact hpos (fun hx => h (iff2.2 hx))
      have a2 : AStep base N (¬ GoodAck s1 segment.hdr) A s1 s2 :=
        AStep.of_same hb hpos rc2 iff2 (q2.mono (fun _ hx => ackP_ackBlock hx pos2) (fun _ hx => hx))
      rw [e2] at e
      cases r2 with
      | some x => simp only [andThen_some] at e; cases e; exact a2
      | none =>
        simp only [andThen_none] at e
        obtain ⟨r3, e3⟩ := rstBlock_spec s2 segment.hdr
        rw [e3] at e
        cases r3 with
        | some x => simp only [andThen_some] at e; cases e; exact a2
        | none =>
          simp only [andThen_none] at e
          have rcv2 : s2.rcv = s1.rcv := rc2
          have st2 : s2.state = .SynSent ↔ s1.state = .SynSent := iff2
          cases h4 : synBlock s2 segment.hdr with
          | error err => rw [h4] at e; simp [B.andThen] at e
          | ok p4 =>
            obtain ⟨s4, r4⟩ := p4
            rw [h4] at e
            have q4 := synBlock_q (A := A) _ _ _ _ h4
            -- after block 4 (as in `processSegment_rcv`), plus: RCV.NXT is past the SYN
            have key4 : RcvStep base N s2 s4 ∧ (s4.state ≠ .SynSent → 1 ≤ off base s4.rcv.nxt) ∧
                (s4.state ≠ .SynSent → off base s4.rcv.nxt ≤ N ∧
                  (0 < segment.segLen → off base segment.hdr.seq ≤ off base s4.rcv.nxt)) := by
              rcases (synBlock_rcv _ _ _ _ h4).1 with ⟨hr4, hs4⟩ | ⟨hss, hsyn, hnxt, hns⟩
              · have t4 : RcvStep base N s2 s4 := RcvStep.of_same a2.rcv.below hr4 (by rw [hs4])
                refine ⟨t4, fun hne => by rw [hr4]; exact pos2 (by rw [← hs4]; exact hne),
                  fun hne => ⟨t4.below hne, fun hl => ?_⟩⟩
                have hns : s1.state ≠ .SynSent := fun hx => hne (by rw [hs4]; exact st2.2 hx)
                have hg := hgate hns
                have hbs := hb hns
                have hlen := hσ.len hl
                rw [hr4, rcv2]
                have hiff := modGt_iff_off base segment.hdr.seq s1.rcv.nxt (by omega) (by omega)
                rw [hg] at hiff
                rcases Nat.lt_or_ge (off base s1.rcv.nxt) (off base segment.hdr.seq) with hlt | hge
                · exact absurd (hiff.2 hlt) (by simp)
                · exact hge
              · have hbase := hσ.syn hsyn
                have hsl : 0 < segment.segLen := by
                  unfold Segment.segLen; rw [hsyn]; simp only [Bool.toNat_true]; omega
                have hlen := hσ.len hsl
                have o1 : off base s4.rcv.nxt = 1 := by
                  rw [hnxt, hbase, off_add_one base base (by rw [off_self]; omega), off_self]
                have o0 : off base segment.hdr.seq = 0 := by rw [hbase, off_self]
                refine ⟨⟨fun _ => by rw [o1]; omega, fun h => absurd hss h, fun h => absurd hss h⟩,
                  fun _ => by rw [o1]; exact Nat.le_refl _,
                  fun _ => ⟨by rw [o1]; omega, fun _ => by rw [o0, o1]; omega⟩⟩
            obtain ⟨t4, pos4', below4⟩ := key4
            have a4 : AStep base N (¬ GoodAck s1 segment.hdr) A s1 s4 :=
              a2.trans ⟨t4, pos4', q4.mono (fun _ hx => ackP_new hx pos4') (fun _ hx => hx)⟩
            cases r4 with
            | some x => simp only [andThen_some] at e; cases e; exact a4
            | none =>
              simp only [andThen_none] at e
              have hne : s4.state ≠ .SynSent := (synBlock_rcv _ _ _ _ h4).2 rfl
              cases h5 : textBlock s4 segment.hdr segment.text (BitVec.ofNat 32 segment.text.length) with
              | error err => rw [h5] at e; simp [B.andThen] at e
              | ok p5 =>
                obtain ⟨s5, r5⟩ := p5
                obtain ⟨k5, hr5⟩ := textBlock_edges _ _ _ _ _ _ h5
                subst hr5
                have q5 := textBlock_q (A := A) _ _ _ _ _ _ h5 hne
                rw [h5] at e
                simp only [andThen_none] at e
                cases h6 : finBlock s5 segment.hdr (BitVec.ofNat 32 segment.text.length) with
                | error err => rw [h6] at e; simp at e
                | ok p6 =>
                  obtain ⟨s6, r6⟩ := p6
                  rw [h6] at e
                  have hs' : s' = s6 := by cases r6 <;> (cases e; rfl)
                  subst hs'
                  have q6 := finBlock_q (A := A) _ _ _ _ _ h6
                  obtain ⟨s6', r6', e6, rx6⟩ := finBlock_spec s5 segment.hdr (BitVec.ofNat 32 segment.text.length)
                  rw [e6] at h6
                  cases h6
                  obtain ⟨hb4, hpos4⟩ := below4 hne
                  have htextpos : segment.text ≠ [] → 0 < segment.segLen := by
                    intro h; unfold Segment.segLen
                    have := List.length_pos_iff.2 h; omega
                  have tb := textBlock_rcv s4 segment.hdr segment.text s5 none h5 base N hN hb4
                    (fun hne' => by
                      have hl := htextpos hne'
                      have := hσ.len hl
                      unfold Segment.segLen at this
                      exact ⟨by omega, hpos4 hl⟩)
                  have fb := finBlock_rcv s5 segment.hdr segment.text.length s' _ e6 base N hN tb.2
                    (fun hfin => by
                      have hl : 0 < segment.segLen := by unfold Segment.segLen; rw [hfin]; simp
                      have := hσ.len hl
                      unfold Segment.segLen at this
                      rw [hfin] at this
                      simp only [Bool.toNat_true] at this
                      have hs : segment.hdr.ctl.syn.toNat ≤ 1 := by cases segment.hdr.ctl.syn <;> simp
                      omega)
                  have n5 : s5.state ≠ .SynSent := by rw [k5.state]; exact hne
                  have n6 : s'.state ≠ .SynSent := fun hx => n5 (rx6.synsent hx)
                  have p4 := pos4' hne
                  have pos5 : s5.state ≠ .SynSent → 1 ≤ off base s5.rcv.nxt := fun _ => Nat.le_trans p4 tb.1
                  have pos6 : s'.state ≠ .SynSent → 1 ≤ off base s'.rcv.nxt :=
                    fun _ => Nat.le_trans p4 (Nat.le_trans tb.1 fb.1)
                  have a5 : AStep base N (¬ GoodAck s1 segment.hdr) A s4 s5 :=
                    ⟨⟨fun _ => tb.2, fun _ => tb.1, fun _ => n5⟩, pos5,
                      q5.mono (fun _ hx => ackP_new hx pos5) (fun _ hx => hx)⟩
                  have a6 : AStep base N (¬ GoodAck s1 segment.hdr) A s5 s' :=
                    ⟨⟨fun _ => fb.2, fun _ => fb.1, fun _ => n6⟩, pos6,
                      q6.mono (fun _ hx => ackP_new hx pos6) (fun _ hx => hx)⟩
                  exact (a4.trans a5).trans a6

end Tcb
end Elvis.Tcp
