import ElvisVerif.Model.Reasm
import ElvisVerif.Lemmas.Heap
import ElvisVerif.Lemmas.Frag
/-!
Helper lemmas for C11 (IPv4 reassembly): the bit vector, putting the pieces together
(`assemble_correct`), the association list, the invariant of one reassembly buffer
(`SegInv`) and what one `Segment::receive_packet` does to it (`Segment.receive_spec`).
-/
namespace Elvis.Reasm
open Elvis.Frag Elvis.Heap

/-! ### bit vector -/
theorem bitGet_zero (b : Nat) : bitGet 0 b = false := by simp [bitGet]

theorem bitGet_setRange (m s e b : Nat) :
    bitGet (setRange m s e) b = (bitGet m b || (decide (s ≤ b) && decide (b < e))) := by
  unfold setRange bitGet
  split
  · rename_i h
    simp only [Nat.testBit_or, Nat.testBit_shiftLeft, Nat.testBit_two_pow_sub_one]
    congr 1
    by_cases h1 : s ≤ b <;> by_cases h2 : b < e <;> simp [h1, h2] <;> omega
  · rename_i h
    have : (decide (s ≤ b) && decide (b < e)) = false := by
      by_cases h1 : s ≤ b <;> by_cases h2 : b < e <;> simp [h1, h2]; omega
    simp [this]

theorem complete_iff (m len : Nat) : complete m len = true ↔ ∀ b, b < len → bitGet m b = true := by
  unfold complete bitGet
  simp only [beq_iff_eq]
  constructor
  · intro h b hb
    have := congrArg (fun x => x.testBit b) h
    simp only [Nat.testBit_and, Nat.testBit_two_pow_sub_one, hb, decide_true, Bool.and_true] at this
    exact this
  · intro h
    apply Nat.eq_of_testBit_eq
    intro i
    simp only [Nat.testBit_and, Nat.testBit_two_pow_sub_one]
    by_cases hi : i < len
    · simp [hi, h i hi]
    · simp [hi]

/-! ### putting the pieces together -/

/-- a buffered piece that agrees with the datagram payload `B` -/
structure Consistent (B : List UInt8) (p : Piece) : Prop where
  inside : 8 * p.offset + p.body.length ≤ B.length
  content : p.body = (B.drop (8 * p.offset)).take p.body.length
  aligned : p.body.length % 8 = 0 ∨ 8 * p.offset + p.body.length = B.length

/-- one round of the loop that puts the datagram together (fixed code) -/
def appendPiece (msg : List UInt8) (p : Piece) : List UInt8 :=
  msg ++ p.body.drop (min (msg.length - p.offset * 8) p.body.length)

theorem assemble_fixed (ps : List Piece) : assemble Cfg.fixed ps = ps.foldl appendPiece [] := by
  simp only [assemble, Cfg.fixed, if_true]
  rfl

theorem assemble_aux (B : List UInt8) : ∀ (ps : List Piece) (n : Nat), n ≤ B.length →
    (n % 8 = 0 ∨ n = B.length) →
    ps.Pairwise (fun a b => a.offset ≤ b.offset) → (∀ p ∈ ps, Consistent B p) →
    (∀ b, n ≤ 8 * b → 8 * b < B.length →
      ∃ p ∈ ps, p.offset ≤ b ∧ 8 * b < 8 * p.offset + p.body.length) →
    ps.foldl appendPiece (B.take n) = B := by
  intro ps
  induction ps with
  | nil =>
    intro n hn hal _ _ hcov
    by_cases hlt : n < B.length
    · obtain ⟨p, hp, _⟩ := hcov (n / 8) (by omega) (by omega)
      simp at hp
    · have : n = B.length := by omega
      subst this; simp
  | cons p ps ih =>
    intro n hn hal hsort hcons hcov
    have hp := hcons p (by simp)
    obtain ⟨hin, hcontent, halign⟩ := hp
    have hsort' := (List.pairwise_cons.1 hsort)
    have hstart : 8 * p.offset ≤ n := by
      by_cases hlt : n < B.length
      · obtain ⟨q, hq, hqb, _⟩ := hcov (n / 8) (by omega) (by omega)
        simp only [List.mem_cons] at hq
        rcases hq with rfl | hq
        · omega
        · have := hsort'.1 q hq; omega
      · omega
    simp only [List.foldl_cons]
    have hlen : (B.take n).length = n := by simp; omega
    by_cases hcase : 8 * p.offset + p.body.length ≤ n
    · -- nothing new in this piece
      have : appendPiece (B.take n) p = B.take n := by
        unfold appendPiece
        rw [hlen, Nat.min_eq_right (by omega), List.drop_length, List.append_nil]
      rw [this]
      apply ih n hn hal hsort'.2 (fun q hq => hcons q (by simp [hq]))
      intro b hb1 hb2
      obtain ⟨q, hq, hq1, hq2⟩ := hcov b hb1 hb2
      simp only [List.mem_cons] at hq
      rcases hq with rfl | hq
      · omega
      · exact ⟨q, hq, hq1, hq2⟩
    · have hn' : 8 * p.offset + p.body.length ≤ B.length := hin
      have : appendPiece (B.take n) p = B.take (8 * p.offset + p.body.length) := by
        unfold appendPiece
        rw [hlen, Nat.min_eq_left (by omega)]
        have e1 : p.body.drop (n - p.offset * 8) =
            (B.drop n).take (8 * p.offset + p.body.length - n) := by
          conv => lhs; rw [hcontent]
          rw [List.drop_take, List.drop_drop]
          congr 1
          · omega
          · congr 1; omega
        rw [e1]
        have e2 : 8 * p.offset + p.body.length = n + (8 * p.offset + p.body.length - n) := by omega
        conv => rhs; rw [e2, List.take_add]
      rw [this]
      apply ih _ hn' (by omega) hsort'.2 (fun q hq => hcons q (by simp [hq]))
      intro b hb1 hb2
      obtain ⟨q, hq, hq1, hq2⟩ := hcov b (by omega) hb2
      simp only [List.mem_cons] at hq
      rcases hq with rfl | hq
      · omega
      · exact ⟨q, hq, hq1, hq2⟩

/-- **putting the pieces together**: pieces in offset order, each agreeing with `B`, together
    covering every block of `B` — the result is `B`, whatever overlaps or repetitions there are -/
theorem assemble_correct (B : List UInt8) (ps : List Piece)
    (hsort : ps.Pairwise (fun a b => a.offset ≤ b.offset)) (hcons : ∀ p ∈ ps, Consistent B p)
    (hcov : ∀ b, 8 * b < B.length →
      ∃ p ∈ ps, p.offset ≤ b ∧ 8 * b < 8 * p.offset + p.body.length) :
    assemble Cfg.fixed ps = B := by
  rw [assemble_fixed]
  have := assemble_aux B ps 0 (by omega) (by omega) hsort hcons (fun b _ h => hcov b h)
  simpa using this

/-! ### association list -/

theorem erase_cons (id : BufId) (p : BufId × Segment) (l : List (BufId × Segment)) :
    erase id (p :: l) = if p.1 = id then erase id l else p :: erase id l := by
  simp only [erase, List.filter_cons]
  by_cases h : p.1 = id <;> simp [h]

theorem lookup_erase_self (id : BufId) (l : List (BufId × Segment)) : lookup id (erase id l) = none := by
  induction l with
  | nil => rfl
  | cons p l ih =>
    rw [erase_cons]
    by_cases h : p.1 = id
    · rw [if_pos h]; exact ih
    · rw [if_neg h]; obtain ⟨k, v⟩ := p; simp only [lookup]; rw [if_neg h]; exact ih

theorem lookup_erase_ne (id k : BufId) (l : List (BufId × Segment)) (hne : k ≠ id) :
    lookup id (erase k l) = lookup id l := by
  induction l with
  | nil => rfl
  | cons p l ih =>
    rw [erase_cons]
    obtain ⟨k', v⟩ := p
    by_cases h : k' = k
    · rw [if_pos h]; simp only [lookup]; rw [if_neg (by rw [h]; exact hne)]; exact ih
    · rw [if_neg h]; simp only [lookup]; rw [ih]

theorem lookup_insert_self (id : BufId) (s : Segment) (l : List (BufId × Segment)) :
    lookup id (insert id s l) = some s := by simp [insert, lookup]

theorem lookup_insert_ne (id k : BufId) (s : Segment) (l : List (BufId × Segment)) (hne : k ≠ id) :
    lookup id (insert k s l) = lookup id l := by
  simp [insert, lookup, hne, lookup_erase_ne id k l hne]

/-! ### `free` -/

theorem free_lookup_self (cfg : Cfg) (r : Reassembly) (id : BufId) :
    lookup id (r.free cfg id).segments = none := by
  unfold Reassembly.free
  cases h : lookup id r.segments with
  | none => simp [h]
  | some s => simp [lookup_erase_self]

theorem free_lookup_ne (cfg : Cfg) (r : Reassembly) (id k : BufId) (hne : k ≠ id) :
    lookup id (r.free cfg k).segments = lookup id r.segments := by
  unfold Reassembly.free
  cases h : lookup k r.segments with
  | none => simp
  | some s => simp [lookup_erase_ne id k _ hne]

theorem free_floor_le (cfg : Cfg) (r : Reassembly) (id : BufId) : r.floor ≤ (r.free cfg id).floor := by
  unfold Reassembly.free
  cases h : lookup id r.segments with
  | none => simp
  | some s => simp only []; split <;> omega

theorem free_floor_ge (r : Reassembly) (id : BufId) (s : Segment) (h : lookup id r.segments = some s) :
    s.epoch ≤ (r.free Cfg.fixed id).floor := by
  unfold Reassembly.free
  simp only [h, Cfg.fixed, if_true]
  omega

/-! ### one reassembly buffer -/

theorem pieceLe_tp : TotalPreorder Piece.le := by
  constructor
  · intro a b; simp only [Piece.le, decide_eq_true_eq]; omega
  · intro a b c; simp only [Piece.le, decide_eq_true_eq]; omega

/-- what the heap stores of a fragment -/
def toPiece (f : Frag) : Piece := ⟨f.2, f.1.fragOffset⟩

/-- fragment `f` contains (all or part of) block `b` -/
def Covers (f : Frag) (b : Nat) : Prop :=
  f.1.fragOffset ≤ b ∧ 8 * b < 8 * f.1.fragOffset + f.2.length

/-- the fragments `l` include a last fragment (MF = 0) and every block of an `n`-octet datagram -/
def Covered (n : Nat) (l : List Frag) : Prop :=
  (∃ f ∈ l, isLast f.1.flags = true) ∧ ∀ b, 8 * b < n → ∃ f ∈ l, Covers f b

/-- an original (unfragmented) datagram with a basic header and a non-empty payload -/
structure Datagram (H : Hdr) (B : List UInt8) : Prop where
  ihl : H.ihl = 5
  tl : H.totalLength = 20 + B.length
  pos : 0 < B.length
  max : B.length ≤ 65515
  fo : H.fragOffset = 0
  flags : H.flags = 0 ∨ H.flags = 2

/-- `f` is a fragment of the datagram `(H, B)`: the header fields of `H`, the octets of `B` at
    its offset, MF clear exactly on the piece that ends `B`, whole blocks otherwise -/
structure PieceOf (H : Hdr) (B : List UInt8) (f : Frag) : Prop where
  fields : SameFields H f.1
  tl : f.1.totalLength = 20 + f.2.length
  pos : 0 < f.2.length
  inside : 8 * f.1.fragOffset + f.2.length ≤ B.length
  content : f.2 = (B.drop (8 * f.1.fragOffset)).take f.2.length
  last : isLast f.1.flags = true ↔ 8 * f.1.fragOffset + f.2.length = B.length
  blocks : isLast f.1.flags = false → f.2.length % 8 = 0
  flagsRange : f.1.flags < 4

theorem PieceOf.consistent {H B f} (p : PieceOf H B f) : Consistent B (toPiece f) := by
  refine ⟨p.inside, p.content, ?_⟩
  simp only [toPiece]
  cases h : isLast f.1.flags with
  | true => exact Or.inr (p.last.1 h)
  | false => exact Or.inl (p.blocks h)

/-- the state of one reassembly buffer after the fragments `hist` arrived (none completing) -/
structure SegInv (B : List UInt8) (s : Segment) (hist : List Frag) : Prop where
  heap : IsHeap Piece.le s.frags
  perm : s.frags.toList.Perm (hist.map toPiece)
  bits : ∀ b, bitGet s.blocks b = true ↔ ∃ f ∈ hist, Covers f b
  tdlLast : (∃ f ∈ hist, isLast f.1.flags = true) → s.tdl = B.length
  tdlNone : (¬ ∃ f ∈ hist, isLast f.1.flags = true) → s.tdl = 0
  hdr : ∀ g, s.header = some g → g.fragOffset = 0 ∧ ∃ b, (g, b) ∈ hist
  hdrSome : (∃ f ∈ hist, f.1.fragOffset = 0) → s.header.isSome = true

theorem segInv_new (B : List UInt8) (e : Nat) : SegInv B (Segment.newAt e) [] := by
  refine ⟨?_, ?_, ?_, ?_, ?_, ?_, ?_⟩
  · exact isHeap_empty _
  · simp [Segment.newAt]
  · intro b; simp [Segment.newAt, bitGet_zero]
  · simp
  · simp [Segment.newAt]
  · simp [Segment.newAt]
  · simp

/-- the header that is returned: the FO = 0 fragment's header with the total length of the whole
    datagram and MF cleared is the original header -/
theorem header_restore {H B g b} (dg : Datagram H B) (p : PieceOf H B (g, b)) (h0 : g.fragOffset = 0) :
    { g with totalLength := B.length + g.ihl * 4, flags := setIsLast g.flags true } = H := by
  obtain ⟨f1, f2, f3, f4, f5, f6, f7, f8, f9⟩ := p.fields
  have hfl := p.flagsRange
  obtain ⟨d1, d2, _, _, d5, d6⟩ := dg
  cases H
  cases g
  simp only [Hdr.mk.injEq] at *
  simp only [mayFragment] at f9
  subst f1 f2 f3 f4 f5 f6 f7 f8 h0 d5 d1
  refine ⟨rfl, rfl, by omega, rfl, rfl, ?_, rfl, rfl, rfl, rfl, rfl⟩
  simp only [setIsLast]
  rcases d6 with rfl | rfl <;> simp at f9 ⊢ <;> omega

/-- **one arrival into a buffer** that holds fragments of `(H, B)`: never a panic; a datagram is
    returned iff the fragments now cover it, and it is `(H, B)`; otherwise the invariant goes on -/
theorem Segment.receive_spec {H : Hdr} {B : List UInt8} {s : Segment} {hist : List Frag} {f : Frag}
    (dg : Datagram H B) (inv : SegInv B s hist) (hh : ∀ g ∈ hist, PieceOf H B g)
    (pf : PieceOf H B f) :
    ∃ s' res, Segment.receive Cfg.fixed s f.1 f.2 = .ok (s', res) ∧
      (res.isSome = true ↔ Covered B.length (hist ++ [f])) ∧
      (res = none → SegInv B s' (hist ++ [f]) ∧ s'.epoch = s.epoch + 1) ∧
      (∀ hd msg, res = some (hd, msg) → hd = H ∧ msg = B ∧ s'.epoch = s.epoch) := by
  obtain ⟨h, body⟩ := f
  have hihl : h.ihl = 5 := by rw [pf.fields.1, dg.ihl]
  have htl : h.totalLength = 20 + body.length := pf.tl
  have hpos : 0 < body.length := pf.pos
  have hin : 8 * h.fragOffset + body.length ≤ B.length := pf.inside
  have hmax := dg.max
  have hBpos := dg.pos
  -- the new components
  have heap' : IsHeap Piece.le (push Piece.le s.frags ⟨body, h.fragOffset⟩) :=
    push_heap pieceLe_tp _ _ inv.heap
  have perm' : (push Piece.le s.frags ⟨body, h.fragOffset⟩).toList.Perm
      ((hist ++ [(h, body)]).map toPiece) := by
    have := Array.perm_iff_toList_perm.1 (push_perm Piece.le s.frags ⟨body, h.fragOffset⟩)
    simp only [Array.toList_push] at this
    refine this.trans ?_
    simp only [List.map_append, List.map_cons, List.map_nil, toPiece]
    exact List.Perm.append_right _ inv.perm
  have bits' : ∀ b, bitGet (setRange s.blocks h.fragOffset (h.fragOffset + (body.length + 7) / 8)) b = true ↔
      ∃ g ∈ hist ++ [(h, body)], Covers g b := by
    intro b
    rw [bitGet_setRange]
    simp only [Bool.or_eq_true, Bool.and_eq_true, decide_eq_true_eq, inv.bits b, List.mem_append,
      List.mem_singleton]
    constructor
    · rintro (⟨g, hg, hc⟩ | ⟨h1, h2⟩)
      · exact ⟨g, Or.inl hg, hc⟩
      · exact ⟨(h, body), Or.inr rfl, ⟨h1, by simp only; omega⟩⟩
    · rintro ⟨g, hg | rfl, hc⟩
      · exact Or.inl ⟨g, hg, hc⟩
      · right; obtain ⟨c1, c2⟩ := hc; simp only at c1 c2; constructor <;> omega
  have hlastf : isLast h.flags = true → body.length + h.fragOffset * 8 = B.length := by
    intro hl; have := pf.last.1 hl; simp only at this; omega
  have tdlLast' : (∃ g ∈ hist ++ [(h, body)], isLast g.1.flags = true) →
      (if isLast h.flags = true then body.length + h.fragOffset * 8 else s.tdl) = B.length := by
    rintro ⟨g, hg, hl⟩
    split
    · rename_i hl'; exact hlastf hl'
    · rename_i hl'
      simp only [List.mem_append, List.mem_singleton] at hg
      rcases hg with hg | rfl
      · exact inv.tdlLast ⟨g, hg, hl⟩
      · exact absurd hl hl'
  have tdlNone' : (¬ ∃ g ∈ hist ++ [(h, body)], isLast g.1.flags = true) →
      (if isLast h.flags = true then body.length + h.fragOffset * 8 else s.tdl) = 0 := by
    intro hn
    split
    · rename_i hl'; exact absurd ⟨(h, body), by simp, hl'⟩ hn
    · apply inv.tdlNone
      rintro ⟨g, hg, hl⟩
      exact hn ⟨g, by simp [hg], hl⟩
  have hdr' : ∀ g, (if h.fragOffset = 0 then some h else s.header) = some g →
      g.fragOffset = 0 ∧ ∃ b, (g, b) ∈ hist ++ [(h, body)] := by
    intro g hg
    split at hg
    · rename_i h0; cases hg; exact ⟨h0, body, by simp⟩
    · obtain ⟨a, b, hb⟩ := inv.hdr g hg; exact ⟨a, b, by simp [hb]⟩
  have hdrSome' : (∃ g ∈ hist ++ [(h, body)], g.1.fragOffset = 0) →
      (if h.fragOffset = 0 then some h else s.header).isSome = true := by
    rintro ⟨g, hg, h0⟩
    split
    · rfl
    · rename_i hne
      simp only [List.mem_append, List.mem_singleton] at hg
      rcases hg with hg | rfl
      · exact inv.hdrSome ⟨g, hg, h0⟩
      · exact absurd h0 hne
  have e1 : 20 + body.length - 5 * 4 = body.length := by omega
  unfold Segment.receive
  simp only [Cfg.fixed, hihl, htl, e1]
  generalize (if isLast h.flags = true then body.length + h.fragOffset * 8 else s.tdl) = tdl' at *
  generalize (if h.fragOffset = 0 then some h else s.header) = header' at *
  generalize hbl : setRange s.blocks h.fragOffset (h.fragOffset + (body.length + 7) / 8) = blocks' at *
  generalize hfr : push Piece.le s.frags { body := body, offset := h.fragOffset } = frags' at *
  have tdlB : tdl' = B.length ∨ tdl' = 0 := by
    by_cases hex : ∃ g ∈ hist ++ [(h, body)], isLast g.1.flags = true
    · exact Or.inl (tdlLast' hex)
    · exact Or.inr (tdlNone' hex)
  -- completion test = coverage
  have hcomp : (decide (tdl' ≠ 0) && complete blocks' ((tdl' + 7) / 8)) = true ↔
      Covered B.length (hist ++ [(h, body)]) := by
    simp only [Bool.and_eq_true, decide_eq_true_eq, complete_iff]
    constructor
    · rintro ⟨hne, hc⟩
      have hex : ∃ g ∈ hist ++ [(h, body)], isLast g.1.flags = true := by
        apply Classical.byContradiction; intro hn; exact hne (tdlNone' hn)
      have ht := tdlLast' hex
      refine ⟨hex, ?_⟩
      intro b hb
      exact (bits' b).1 (hc b (by omega))
    · rintro ⟨hex, hcov⟩
      have ht := tdlLast' hex
      refine ⟨by omega, ?_⟩
      intro b hb
      exact (bits' b).2 (hcov b (by omega))
  rw [if_neg (by omega), if_neg (by omega), if_neg (by omega)]
  rw [if_neg (by simp only [Bool.and_eq_true, decide_eq_true_eq]; rintro ⟨hl, hx⟩; have := hlastf hl; omega)]
  rw [if_neg (by simp only [Bool.and_eq_true, decide_eq_true_eq]; rintro ⟨hl, hx⟩; have := hlastf hl; omega)]
  rw [if_neg (by simp only [Bool.and_eq_true, decide_eq_true_eq]; rintro ⟨_, hx⟩; omega)]
  have hall : ∀ g ∈ hist ++ [(h, body)], PieceOf H B g := by
    intro g hg
    simp only [List.mem_append, List.mem_singleton] at hg
    rcases hg with hg | rfl
    · exact hh g hg
    · exact pf
  by_cases hc : (decide (tdl' ≠ 0) && complete blocks' ((tdl' + 7) / 8)) = true
  · have cov := hcomp.1 hc
    have ht : tdl' = B.length := tdlLast' cov.1
    rw [if_pos hc]
    -- block 0 is covered, so a fragment with offset 0 arrived and the header is there
    obtain ⟨g0, hg0, c0⟩ := cov.2 0 (by omega)
    have hsome := hdrSome' ⟨g0, hg0, by have := c0.1; omega⟩
    cases hhd : header' with
    | none => rw [hhd] at hsome; simp at hsome
    | some hd =>
      obtain ⟨hd0, b0, hmem⟩ := hdr' hd hhd
      have pd := hall (hd, b0) hmem
      have hdihl : hd.ihl = 5 := by rw [pd.fields.1, dg.ihl]
      simp only []
      rw [if_neg (by omega)]
      refine ⟨_, _, rfl, ?_, ?_, ?_⟩
      · simp only [Option.isSome_some, true_iff]; exact cov
      · intro hn; cases hn
      · intro hd' msg hres
        simp only [Option.some.injEq, Prod.mk.injEq] at hres
        obtain ⟨rfl, rfl⟩ := hres
        refine ⟨?_, ?_, rfl⟩
        · subst ht
          exact header_restore dg pd hd0
        · obtain ⟨dperm, dsort⟩ := drain_spec pieceLe_tp frags' heap'
          apply assemble_correct B
          · exact dsort.imp (fun {a b} hab => by simpa [Piece.le] using hab)
          · intro p hp
            have hp' : p ∈ List.map toPiece (hist ++ [(h, body)]) := perm'.mem_iff.1 (dperm.mem_iff.1 hp)
            obtain ⟨g, hg, rfl⟩ := List.mem_map.1 hp'
            exact (hall g hg).consistent
          · intro b hb
            obtain ⟨g, hg, cg⟩ := cov.2 b hb
            refine ⟨toPiece g, ?_, cg.1, cg.2⟩
            exact dperm.mem_iff.2 (perm'.mem_iff.2 (List.mem_map.2 ⟨g, hg, rfl⟩))
  · rw [if_neg hc, if_neg (by simp)]
    refine ⟨_, _, rfl, ?_, ?_, ?_⟩
    · simp only [Option.isSome_none, Bool.false_eq_true, false_iff]
      exact fun hcv => hc (hcomp.2 hcv)
    · intro _
      exact ⟨⟨heap', perm', bits', tdlLast', tdlNone', hdr', hdrSome'⟩, rfl⟩
    · intro hd msg hres; cases hres

/-! ### buffers of other identifiers are not touched -/

/-- does the operation address the buffer `id`? -/
def Op.concerns (id : BufId) : Op → Prop
  | .pkt h _ => BufId.ofHdr h = id
  | .cull k _ => k = id

theorem receive_lookup_ne (cfg : Cfg) (r : Reassembly) (h : Hdr) (b : List UInt8) (id : BufId)
    (hne : BufId.ofHdr h ≠ id) (r' : Reassembly) (o : Result)
    (e : r.receive cfg h b = .ok (r', o)) : lookup id r'.segments = lookup id r.segments := by
  unfold Reassembly.receive at e
  simp only [] at e
  split at e
  · cases e; exact free_lookup_ne cfg r id _ hne
  · unfold Reassembly.receiveInto at e
    split at e
    · cases e
    · cases e
      rw [free_lookup_ne cfg _ id _ hne]
      exact lookup_insert_ne id _ _ _ hne
    · cases e
      exact lookup_insert_ne id _ _ _ hne

theorem maybeCull_lookup_ne (cfg : Cfg) (r : Reassembly) (k id : BufId) (e : Nat) (hne : k ≠ id) :
    lookup id (r.maybeCull cfg k e).segments = lookup id r.segments := by
  unfold Reassembly.maybeCull
  split
  · split
    · exact free_lookup_ne cfg r id k hne
    · rfl
  · rfl

/-- **isolation, one step**: an operation that does not address `id` leaves the buffer of `id`
    exactly as it was (fragments keyed by another (src, dst, protocol, identification) are never
    put into it, and nothing is taken out of it) -/
theorem step_lookup_ne (cfg : Cfg) (r : Reassembly) (op : Op) (id : BufId) (hne : ¬ op.concerns id) :
    lookup id (step cfg r op).1.segments = lookup id r.segments := by
  cases op with
  | pkt h b =>
    simp only [Op.concerns] at hne
    simp only [step]
    cases e : r.receive cfg h b with
    | error _ => rfl
    | ok p => obtain ⟨r', o⟩ := p; exact receive_lookup_ne cfg r h b id hne r' o e
  | cull k ep =>
    simp only [Op.concerns] at hne
    exact maybeCull_lookup_ne cfg r k id ep hne

/-! ### the reassembler, one identifier observed -/

/-- a fragment of `(H, B)` that starts at 0 and ends the datagram is the datagram itself -/
theorem PieceOf.whole {H : Hdr} {B : List UInt8} {h : Hdr} {b : List UInt8} (dg : Datagram H B)
    (p : PieceOf H B (h, b)) (hl : isLast h.flags = true) (h0 : h.fragOffset = 0) :
    h = H ∧ b = B := by
  have hlen : b.length = B.length := by have := p.last.1 hl; simp only [h0] at this; omega
  have hb : b = B := by
    have := p.content
    simp only [h0, Nat.mul_zero, List.drop_zero, hlen, List.take_length] at this
    exact this
  refine ⟨?_, hb⟩
  have hr := header_restore dg p h0
  have hihl : h.ihl = 5 := by rw [p.fields.1, dg.ihl]
  have htl := p.tl
  have hfl := p.flagsRange
  simp only at htl hfl
  rw [← hr]
  cases h
  simp only [Hdr.mk.injEq, true_and, and_true] at *
  subst hihl
  simp only [isLast, beq_iff_eq] at hl
  refine ⟨by omega, ?_⟩
  simp only [setIsLast]; simp; omega

/-- the fragments of `(H, B)` received for `id` since its buffer was last freed, as the run itself
    shows it (results and buffer presence): grows with every `Incomplete`, emptied by `Complete`
    and by an expiry that frees the buffer -/
def trackStep (id : BufId) (rg : Reassembly × List Frag) (op : Op) : Reassembly × List Frag :=
  let ro := step Cfg.fixed rg.1 op
  (ro.1,
   match op, ro.2 with
   | .pkt h b, .res (.incomplete _ _ _) => if BufId.ofHdr h = id then rg.2 ++ [(h, b)] else rg.2
   | .pkt h _, .res (.complete _ _) => if BufId.ofHdr h = id then [] else rg.2
   | .cull k _, _ => if k = id ∧ ro.1.contains id = false then [] else rg.2
   | _, _ => rg.2)

def track (id : BufId) (rg : Reassembly × List Frag) (ops : List Op) : Reassembly × List Frag :=
  ops.foldl (trackStep id) rg

/-- every packet addressed to `id` is a fragment of `(H, B)`; anything else is arbitrary -/
def GoodOp (H : Hdr) (B : List UInt8) (id : BufId) : Op → Prop
  | .pkt h b => BufId.ofHdr h = id → PieceOf H B (h, b)
  | .cull _ _ => True

structure RInv (H : Hdr) (B : List UInt8) (id : BufId) (r : Reassembly) (g : List Frag) : Prop where
  pieces : ∀ f ∈ g, PieceOf H B f
  seg : ∀ s, lookup id r.segments = some s → SegInv B s g
  none : lookup id r.segments = none → g = []

theorem rinv_new (H : Hdr) (B : List UInt8) (id : BufId) : RInv H B id Reassembly.new [] :=
  ⟨by simp, by simp [Reassembly.new, lookup], fun _ => rfl⟩

/-- what a packet addressed to `id` does -/
theorem receive_id {H : Hdr} {B : List UInt8} {id : BufId} {r : Reassembly} {g : List Frag}
    (dg : Datagram H B) (inv : RInv H B id r g) (h : Hdr) (b : List UInt8)
    (hid : BufId.ofHdr h = id) (pf : PieceOf H B (h, b)) :
    (∃ r', r.receive Cfg.fixed h b = .ok (r', .complete H B) ∧ Covered B.length (g ++ [(h, b)]) ∧
        lookup id r'.segments = none) ∨
    (∃ r' t e, r.receive Cfg.fixed h b = .ok (r', .incomplete t id e) ∧
        ¬ Covered B.length (g ++ [(h, b)]) ∧ RInv H B id r' (g ++ [(h, b)])) := by
  unfold Reassembly.receive
  simp only [hid]
  by_cases hs : (isLast h.flags && decide (h.fragOffset = 0)) = true
  · -- the whole datagram
    left
    simp only [Bool.and_eq_true, decide_eq_true_eq] at hs
    obtain ⟨e1, e2⟩ := pf.whole dg hs.1 hs.2
    subst e1 e2
    simp only [hs.1, hs.2, decide_true, Bool.and_self, if_true]
    refine ⟨_, rfl, ⟨⟨(h, b), by simp, hs.1⟩, ?_⟩, free_lookup_self _ _ _⟩
    intro blk hblk
    exact ⟨(h, b), by simp, by simp only [Covers, hs.2]; omega⟩
  · rw [if_neg hs]
    -- the buffer the fragment goes into, with its history
    have hseg : SegInv B (r.bufferFor Cfg.fixed id) g := by
      unfold Reassembly.bufferFor
      cases hl : lookup id r.segments with
      | some s => exact inv.seg s hl
      | none => simp only []; rw [inv.none hl]; exact segInv_new B _
    unfold Reassembly.receiveInto
    obtain ⟨s', res, e, hiff, hnone, hsome⟩ := Segment.receive_spec dg hseg inv.pieces pf
    dsimp only at e
    simp only [e]
    cases res with
    | none =>
      right
      obtain ⟨si, _⟩ := hnone rfl
      refine ⟨_, _, _, rfl, ?_, ?_⟩
      · intro hc; have := hiff.2 hc; simp at this
      · refine ⟨?_, ?_, ?_⟩
        · intro f hf
          simp only [List.mem_append, List.mem_singleton] at hf
          rcases hf with hf | rfl
          · exact inv.pieces f hf
          · exact pf
        · intro s hs'
          rw [lookup_insert_self] at hs'
          cases hs'; exact si
        · intro hn; rw [lookup_insert_self] at hn; cases hn
    | some q =>
      left
      obtain ⟨hd, msg⟩ := q
      obtain ⟨e1, e2, _⟩ := hsome hd msg rfl
      subst e1 e2
      exact ⟨_, rfl, hiff.1 rfl, free_lookup_self _ _ _⟩

theorem RInv.transfer {H : Hdr} {B : List UInt8} {id : BufId} {r r' : Reassembly} {g : List Frag}
    (inv : RInv H B id r g) (e : lookup id r'.segments = lookup id r.segments) : RInv H B id r' g :=
  ⟨inv.pieces, fun s hs => inv.seg s (e ▸ hs), fun hn => inv.none (e ▸ hn)⟩

theorem rinv_empty (H : Hdr) (B : List UInt8) (id : BufId) (r : Reassembly)
    (hl : lookup id r.segments = none) : RInv H B id r [] :=
  ⟨by simp, fun s hs => (by rw [hl] at hs; cases hs), fun _ => rfl⟩

theorem trackStep_inv {H : Hdr} {B : List UInt8} {id : BufId} {r : Reassembly} {g : List Frag}
    (dg : Datagram H B) (inv : RInv H B id r g) (op : Op) (good : GoodOp H B id op) :
    RInv H B id (trackStep id (r, g) op).1 (trackStep id (r, g) op).2 := by
  cases op with
  | pkt h b =>
    by_cases hid : BufId.ofHdr h = id
    · have pf := good hid
      rcases receive_id dg inv h b hid pf with ⟨r', e, _, hl⟩ | ⟨r', t, ep, e, _, inv'⟩
      · simp only [trackStep, step, e, hid, if_true]
        exact rinv_empty H B id r' hl
      · simp only [trackStep, step, e, hid, if_true]
        exact inv'
    · have hl := step_lookup_ne Cfg.fixed r (.pkt h b) id (by simpa [Op.concerns] using hid)
      have hg : (trackStep id (r, g) (.pkt h b)).2 = g := by
        simp only [trackStep]
        split <;> simp_all
      rw [hg]
      exact inv.transfer hl
  | cull k ep =>
    by_cases hk : k = id
    · subst hk
      simp only [trackStep, step, Reassembly.maybeCull, Reassembly.contains]
      cases hl : lookup k r.segments with
      | none =>
        simp only [hl, Option.isSome_none, and_self, if_true]
        exact rinv_empty H B k r hl
      | some s =>
        simp only []
        by_cases he : s.epoch = ep
        · simp only [he, if_true, free_lookup_self, Option.isSome_none, and_self]
          exact rinv_empty H B k _ (free_lookup_self _ _ _)
        · simp only [he, if_false, hl, Option.isSome_some, Bool.true_eq_false, and_false]
          exact inv
    · have hl := step_lookup_ne Cfg.fixed r (.cull k ep) id (by simpa [Op.concerns] using hk)
      have hg : (trackStep id (r, g) (.cull k ep)).2 = g := by
        simp only [trackStep, hk, false_and, if_false]
      rw [hg]
      exact inv.transfer hl

theorem track_inv {H : Hdr} {B : List UInt8} {id : BufId} (dg : Datagram H B) :
    ∀ (ops : List Op) (rg : Reassembly × List Frag), RInv H B id rg.1 rg.2 →
      (∀ op ∈ ops, GoodOp H B id op) → RInv H B id (track id rg ops).1 (track id rg ops).2 := by
  intro ops
  induction ops with
  | nil => intro rg inv _; exact inv
  | cons op ops ih =>
    intro rg inv good
    simp only [track, List.foldl_cons]
    exact ih _ (trackStep_inv dg inv op (good op (by simp))) (fun o ho => good o (by simp [ho]))


/-- `track` follows the run: its reassembler is the one `run` computes -/
theorem track_fst (id : BufId) : ∀ (ops : List Op) (rg : Reassembly × List Frag),
    (track id rg ops).1 = (run Cfg.fixed rg.1 ops).1 := by
  intro ops
  induction ops with
  | nil => intro rg; rfl
  | cons op ops ih =>
    intro rg
    simp only [track, List.foldl_cons, run]
    exact ih _


/-! ### epochs and expiry tokens (fixed code) -/

theorem Segment.receive_epoch (cfg : Cfg) (s : Segment) (h : Hdr) (b : List UInt8) (s' : Segment)
    (res : Option (Hdr × List UInt8)) (e : Segment.receive cfg s h b = .ok (s', res)) :
    (res = none → s'.epoch = s.epoch + 1) ∧ (res ≠ none → s'.epoch = s.epoch) := by
  unfold Segment.receive at e
  simp only [] at e
  repeat' (split at e)
  all_goals first | (cases e; done) | (cases e; simp)

/-- the expiry token `(id, e)` would free the buffer now -/
def Live (r : Reassembly) (id : BufId) (e : Nat) : Prop :=
  ∃ s, lookup id r.segments = some s ∧ s.epoch = e

/-- the expiry token `(id, e)` can never free a buffer again -/
def Dead (r : Reassembly) (id : BufId) (e : Nat) : Prop :=
  (lookup id r.segments = none ∧ e ≤ r.floor) ∨ (∃ s, lookup id r.segments = some s ∧ e < s.epoch)

theorem Dead.not_live {r id e} (d : Dead r id e) : ¬ Live r id e := by
  rintro ⟨s, hs, he⟩
  rcases d with ⟨hn, _⟩ | ⟨s', hs', hlt⟩
  · rw [hn] at hs; cases hs
  · rw [hs] at hs'; cases hs'; omega

theorem receiveInto_floor (r : Reassembly) (id : BufId) (seg : Segment) (h : Hdr) (b : List UInt8)
    (r' : Reassembly) (o : Result) (e : r.receiveInto Cfg.fixed id seg h b = .ok (r', o)) :
    r.floor ≤ r'.floor := by
  unfold Reassembly.receiveInto at e
  split at e
  · cases e
  · rename_i seg' _ _ _
    cases e
    exact free_floor_le Cfg.fixed ({ r with segments := insert id seg' r.segments } : Reassembly) id
  · cases e; exact Nat.le_refl _

theorem step_floor_le (r : Reassembly) (op : Op) : r.floor ≤ (step Cfg.fixed r op).1.floor := by
  cases op with
  | pkt h b =>
    simp only [step]
    cases e : r.receive Cfg.fixed h b with
    | error _ => exact Nat.le_refl _
    | ok p =>
      obtain ⟨r', o⟩ := p
      unfold Reassembly.receive at e
      simp only [] at e
      split at e
      · cases e; exact free_floor_le _ _ _
      · exact receiveInto_floor r _ _ h b r' o e
  | cull k ep =>
    simp only [step, Reassembly.maybeCull]
    split
    · split
      · exact free_floor_le _ _ _
      · exact Nat.le_refl _
    · exact Nat.le_refl _

/-- what a packet addressed to `id` does to the buffer of `id`, whatever the packet is:
    the buffer is freed (and the floor covers its epoch), or it has counted one arrival more -/
theorem receive_shape (r : Reassembly) (h : Hdr) (b : List UInt8) (r' : Reassembly) (o : Result)
    (e : r.receive Cfg.fixed h b = .ok (r', o)) :
    (lookup (BufId.ofHdr h) r'.segments = none ∧
      (∀ s, lookup (BufId.ofHdr h) r.segments = some s → s.epoch ≤ r'.floor) ∧ r.floor ≤ r'.floor ∧
      ∃ hd msg, o = .complete hd msg) ∨
    (∃ s', lookup (BufId.ofHdr h) r'.segments = some s' ∧
      s'.epoch = (r.bufferFor Cfg.fixed (BufId.ofHdr h)).epoch + 1 ∧ r'.floor = r.floor ∧
      o = .incomplete s'.timeout (BufId.ofHdr h) s'.epoch) := by
  unfold Reassembly.receive at e
  simp only [] at e
  split at e
  · cases e
    left
    exact ⟨free_lookup_self _ _ _, fun s hs => free_floor_ge r _ s hs, free_floor_le _ _ _, _, _, rfl⟩
  · unfold Reassembly.receiveInto at e
    split at e
    · cases e
    · rename_i seg' hd msg hrec
      cases e
      left
      have hep := (Segment.receive_epoch _ _ _ _ _ _ hrec).2 (by simp)
      refine ⟨free_lookup_self _ _ _, ?_, free_floor_le Cfg.fixed
        ({ r with segments := insert (BufId.ofHdr h) seg' r.segments } : Reassembly) (BufId.ofHdr h),
        _, _, rfl⟩
      intro s hs
      have hb : r.bufferFor Cfg.fixed (BufId.ofHdr h) = s := by simp [Reassembly.bufferFor, hs]
      have := free_floor_ge ({ r with segments := insert (BufId.ofHdr h) seg' r.segments } : Reassembly)
        (BufId.ofHdr h) seg' (lookup_insert_self _ _ _)
      rw [hb] at hep
      omega
    · rename_i seg' hrec
      cases e
      right
      have hep := (Segment.receive_epoch _ _ _ _ _ _ hrec).1 rfl
      exact ⟨seg', lookup_insert_self _ _ _, hep, rfl, rfl⟩

/-- operations after which the token `(id, e)` must not free anything any more: an arrival for
    `id` (one that did not panic), or the expiry of this very token -/
def Disturbs (id : BufId) (e : Nat) (op : Op) (o : Out) : Prop :=
  match op, o with
  | .pkt h _, .res _ => BufId.ofHdr h = id
  | .cull k e', _ => k = id ∧ e' = e
  | _, _ => False

theorem Dead.transfer {r r' : Reassembly} {id : BufId} {e : Nat} (d : Dead r id e)
    (hl : lookup id r'.segments = lookup id r.segments) (hf : r.floor ≤ r'.floor) : Dead r' id e := by
  rcases d with ⟨hn, hle⟩ | ⟨s, hs, hlt⟩
  · exact Or.inl ⟨by rw [hl, hn], by omega⟩
  · exact Or.inr ⟨s, by rw [hl, hs], hlt⟩

theorem bufferFor_some {r : Reassembly} {id : BufId} {s : Segment} (h : lookup id r.segments = some s) :
    r.bufferFor Cfg.fixed id = s := by simp [Reassembly.bufferFor, h]

theorem bufferFor_none {r : Reassembly} {id : BufId} (h : lookup id r.segments = none) :
    (r.bufferFor Cfg.fixed id).epoch = r.floor := by
  simp [Reassembly.bufferFor, h, Segment.newAt, Cfg.fixed]

/-- a dead token stays dead -/
theorem dead_step {r : Reassembly} {id : BufId} {e : Nat} (d : Dead r id e) (op : Op) :
    Dead (step Cfg.fixed r op).1 id e := by
  cases op with
  | pkt h b =>
    simp only [step]
    cases hr : r.receive Cfg.fixed h b with
    | error _ => exact d
    | ok p =>
      obtain ⟨r', o⟩ := p
      by_cases hid : BufId.ofHdr h = id
      · subst hid
        rcases receive_shape r h b r' o hr with ⟨hn, hfl, hmono, _⟩ | ⟨s', hs', hep, _, _⟩
        · left
          refine ⟨hn, ?_⟩
          rcases d with ⟨_, hle⟩ | ⟨s, hs, hlt⟩
          · simp only; omega
          · have := hfl s hs; simp only; omega
        · right
          refine ⟨s', hs', ?_⟩
          rcases d with ⟨hn, hle⟩ | ⟨s, hs, hlt⟩
          · rw [bufferFor_none hn] at hep; omega
          · rw [bufferFor_some hs] at hep; omega
      · have hfl := step_floor_le r (.pkt h b)
        simp only [step, hr] at hfl
        exact d.transfer (receive_lookup_ne _ r h b id hid r' o hr) hfl
  | cull k ep =>
    by_cases hk : k = id
    · subst hk
      simp only [step, Reassembly.maybeCull]
      cases hl : lookup k r.segments with
      | none => exact d
      | some s =>
        simp only []
        by_cases he : s.epoch = ep
        · simp only [he, if_true]
          left
          refine ⟨free_lookup_self _ _ _, ?_⟩
          have := free_floor_ge r k s hl
          rcases d with ⟨hn, _⟩ | ⟨s2, hs2, hlt⟩
          · rw [hn] at hl; cases hl
          · rw [hl] at hs2; cases hs2; omega
        · simp only [he, if_false]; exact d
    · exact d.transfer (step_lookup_ne Cfg.fixed r (.cull k ep) id (by simpa [Op.concerns] using hk))
        (step_floor_le r _)

/-- an undisturbed live token stays live -/
theorem live_quiet {r : Reassembly} {id : BufId} {e : Nat} (l : Live r id e) (op : Op)
    (hq : ¬ Disturbs id e op (step Cfg.fixed r op).2) : Live (step Cfg.fixed r op).1 id e := by
  obtain ⟨s, hs, he⟩ := l
  cases op with
  | pkt h b =>
    simp only [step] at hq ⊢
    cases hr : r.receive Cfg.fixed h b with
    | error _ => exact ⟨s, hs, he⟩
    | ok p =>
      obtain ⟨r', o⟩ := p
      simp only [hr, Disturbs] at hq
      exact ⟨s, by rw [receive_lookup_ne _ r h b id hq r' o hr]; exact hs, he⟩
  | cull k ep =>
    simp only [Disturbs] at hq
    by_cases hk : k = id
    · subst hk
      have hne : ¬ ep = e := fun h => hq ⟨rfl, h⟩
      simp only [step, Reassembly.maybeCull, hs]
      rw [if_neg (by omega)]
      exact ⟨s, hs, he⟩
    · exact ⟨s, by rw [step_lookup_ne Cfg.fixed r (.cull k ep) id (by simpa [Op.concerns] using hk)]; exact hs, he⟩

/-- a disturbed live token is dead -/
theorem live_disturbed {r : Reassembly} {id : BufId} {e : Nat} (l : Live r id e) (op : Op)
    (hd : Disturbs id e op (step Cfg.fixed r op).2) : Dead (step Cfg.fixed r op).1 id e := by
  obtain ⟨s, hs, he⟩ := l
  cases op with
  | pkt h b =>
    simp only [step] at hd ⊢
    cases hr : r.receive Cfg.fixed h b with
    | error _ => simp only [hr, Disturbs] at hd
    | ok p =>
      obtain ⟨r', o⟩ := p
      simp only [hr, Disturbs] at hd
      subst hd
      show Dead r' (BufId.ofHdr h) e
      rcases receive_shape r h b r' o hr with ⟨hn, hfl, _, _⟩ | ⟨s', hs', hep, _, _⟩
      · exact Or.inl ⟨hn, by have := hfl s hs; omega⟩
      · rw [bufferFor_some hs] at hep
        exact Or.inr ⟨s', hs', by omega⟩
  | cull k ep =>
    simp only [Disturbs] at hd
    obtain ⟨rfl, rfl⟩ := hd
    simp only [step, Reassembly.maybeCull, hs, he, if_true]
    exact Or.inl ⟨free_lookup_self _ _ _, by have := free_floor_ge r k s hs; omega⟩

theorem dead_run {id : BufId} {e : Nat} : ∀ (ops : List Op) (r : Reassembly), Dead r id e →
    Dead (run Cfg.fixed r ops).1 id e := by
  intro ops
  induction ops with
  | nil => intro r d; exact d
  | cons op ops ih => intro r d; simp only [run]; exact ih _ (dead_step d op)

/-- **a token after any further operations**: it still frees its buffer iff none of them
    disturbed it -/
theorem live_run {id : BufId} {e : Nat} : ∀ (ops : List Op) (r : Reassembly), Live r id e →
    (Live (run Cfg.fixed r ops).1 id e ↔
      ∀ p ∈ ops.zip (run Cfg.fixed r ops).2, ¬ Disturbs id e p.1 p.2) := by
  intro ops
  induction ops with
  | nil => intro r l; simp [run, l]
  | cons op ops ih =>
    intro r l
    simp only [run, List.zip_cons_cons, List.mem_cons, forall_eq_or_imp]
    by_cases hd : Disturbs id e op (step Cfg.fixed r op).2
    · have dd := dead_run ops _ (live_disturbed l op hd)
      constructor
      · intro hl; exact absurd hl dd.not_live
      · intro h; exact absurd hd h.1
    · rw [ih _ (live_quiet l op hd)]
      constructor
      · intro h; exact ⟨hd, h⟩
      · intro h; exact h.2

/-! ### from C10 to C11 -/

/-- what C10's faithful partitions say about each piece, relative to the datagram they came from -/
theorem pieces_rel {h : Hdr} {body : List UInt8} {l : List Frag} (p : Pieces h body l)
    (hb : 0 < body.length) : ∀ f ∈ l,
    SameFields h f.1 ∧ f.1.totalLength = 20 + f.2.length ∧ 0 < f.2.length ∧
    h.fragOffset ≤ f.1.fragOffset ∧
    8 * f.1.fragOffset + f.2.length ≤ 8 * h.fragOffset + body.length ∧
    f.2 = (body.drop (8 * (f.1.fragOffset - h.fragOffset))).take f.2.length ∧
    ((f.1.flags = h.flags ∧ 8 * f.1.fragOffset + f.2.length = 8 * h.fragOffset + body.length) ∨
     (f.1.flags = setMF h.flags ∧ f.2.length % 8 = 0 ∧
      8 * f.1.fragOffset + f.2.length < 8 * h.fragOffset + body.length)) := by
  induction p with
  | single h body htl =>
    intro f hf
    simp only [List.mem_singleton] at hf
    subst hf
    refine ⟨SameFields.refl _, htl, hb, Nat.le_refl _, Nat.le_refl _, by simp, Or.inl ⟨rfl, rfl⟩⟩
  | cons h body n l hn hlt htl _ ih =>
    intro f hf
    simp only [List.mem_cons] at hf
    rcases hf with rfl | hf
    · have hl : (body.take (8 * n)).length = 8 * n := by simp only [List.length_take]; omega
      refine ⟨sameFields_cutFirst h n, ?_, ?_, Nat.le_refl _, ?_, ?_, Or.inr ⟨rfl, ?_, ?_⟩⟩
      · simp only [cutFirst, hl]
      · simp only [hl]; omega
      · simp only [cutFirst, hl]; omega
      · simp [cutFirst, hl]
      · simp only [hl]; omega
      · simp only [cutFirst, hl]; omega
    · obtain ⟨a1, a2, a3, a4, a5, a6, a7⟩ := ih (by simp only [List.length_drop]; omega) f hf
      simp only [cutRest, List.length_drop] at a4 a5 a7
      refine ⟨(sameFields_cutRest h n).trans a1, a2, a3, by omega, by omega, ?_, ?_⟩
      · have e : (body.drop (8 * n)).drop (8 * (f.1.fragOffset - (cutRest h n).fragOffset)) =
            body.drop (8 * (f.1.fragOffset - h.fragOffset)) := by
          rw [List.drop_drop]; simp only [cutRest]; congr 1; omega
        rw [e] at a6; exact a6
      · rcases a7 with ⟨b1, b2⟩ | ⟨b1, b2, b3⟩
        · exact Or.inl ⟨b1, by omega⟩
        · exact Or.inr ⟨b1, b2, by omega⟩

/-- **C10 ⟶ C11**: every piece of a faithful partition of an original datagram is a `PieceOf` it -/
theorem Pieces.pieceOf {H : Hdr} {B : List UInt8} {l : List Frag} (dg : Datagram H B)
    (p : Pieces H B l) : ∀ f ∈ l, PieceOf H B f := by
  intro f hf
  obtain ⟨a1, a2, a3, a4, a5, a6, a7⟩ := pieces_rel p dg.pos f hf
  have hfo := dg.fo
  have hfl : H.flags < 4 ∧ isLast H.flags = true := by
    rcases dg.flags with h | h <;> simp [h, isLast]
  rw [hfo] at a5 a6 a7
  simp only [Nat.mul_zero, Nat.zero_add, Nat.sub_zero] at a5 a6 a7
  refine ⟨a1, a2, a3, a5, a6, ?_, ?_, ?_⟩
  · rcases a7 with ⟨b1, b2⟩ | ⟨b1, b2, b3⟩
    · rw [b1]; simp [hfl.2, b2]
    · rw [b1, isLast_setMF]; simp; omega
  · intro hnl
    rcases a7 with ⟨b1, b2⟩ | ⟨b1, b2, b3⟩
    · rw [b1, hfl.2] at hnl; cases hnl
    · exact b2
  · rcases a7 with ⟨b1, _⟩ | ⟨b1, _, _⟩
    · rw [b1]; exact hfl.1
    · rw [b1]; simp only [setMF, setIsLast]; simp; omega

end Elvis.Reasm
