import ElvisVerif.Generated.SubnetKernels
import ElvisVerif.Model.IpTable
import ElvisVerif.Lemmas.Subnet
/-!
Tie between the hand-written model (`Model/Subnet.lean`, `Model/IpTable.lean`) and the kernels
that `tools/extract_subnet.py` translates mechanically from the Rust source on every check
(`Generated/SubnetKernels.lean`, all in `Except String` with every checked `u32` operation able
to fail).  Each hand definition equals the generated one — in particular the generated
`from_bitcount`, `new`, `contains`, `id`, `Obm::cmp` never take a panic branch, and `broadcast` /
`overlaps` panic exactly where the model says.  Editing one of these Rust functions changes the
generated definition and breaks the corresponding lemma here.
-/
namespace Elvis.Subnet
open Elvis.Gen.Subnet

def Mask.toGen (m : Mask) : Ipv4Mask := ⟨m.bits⟩
def Net.toGen (n : Net) : Ipv4Net := ⟨n.id, n.mask.toGen⟩

theorem gen_clamp (size : BitVec 32) :
    Elvis.Gen.Subnet.clamp size 0 32 = .ok (BitVec.ofNat 32 (min size.toNat 32)) := by
  unfold Elvis.Gen.Subnet.clamp
  simp only [bind, Except.bind, pure, Except.pure]
  have h0 : decide ((0 : BitVec 32) ≤ 32) = true := by decide
  have h1 : decide (size < (0 : BitVec 32)) = false := by
    rw [decide_eq_false_iff_not, BitVec.lt_def]; simp
  simp only [h0, h1, if_true]
  by_cases h : size > (32 : BitVec 32)
  · have hn : 32 < size.toNat := by
      rw [gt_iff_lt, BitVec.lt_def] at h; exact h
    have hmin : min size.toNat 32 = 32 := by omega
    rw [hmin]
    simp
    intro hle
    rw [BitVec.le_def] at hle
    have : (32#32 : BitVec 32).toNat = 32 := rfl
    omega
  · have hn : size.toNat ≤ 32 := by
      rw [gt_iff_lt, BitVec.lt_def] at h
      have : (32 : BitVec 32).toNat = 32 := rfl
      omega
    have hmin : min size.toNat 32 = size.toNat := by omega
    have hof : BitVec.ofNat 32 size.toNat = size := by
      apply BitVec.eq_of_toNat_eq
      rw [BitVec.toNat_ofNat]
      have := size.isLt
      omega
    rw [hmin, hof]
    simp
    intro hlt
    exact absurd hlt h

theorem gen_table_from_bitcount : ∀ k : Fin 33,
    Ipv4Mask.from_bitcount (BitVec.ofNat 32 k.val) = .ok (Mask.fromBitcount k.val).toGen := by
  decide +kernel

theorem gen_from_bitcount (size : BitVec 32) :
    Ipv4Mask.from_bitcount size = .ok (Mask.fromBitcount size.toNat).toGen := by
  have hidem : Ipv4Mask.from_bitcount size =
      Ipv4Mask.from_bitcount (BitVec.ofNat 32 (min size.toNat 32)) := by
    unfold Ipv4Mask.from_bitcount
    simp only [bind, Except.bind, pure, Except.pure]
    rw [gen_clamp, gen_clamp]
    have : min (BitVec.ofNat 32 (min size.toNat 32)).toNat 32 = min size.toNat 32 := by
      rw [BitVec.toNat_ofNat]; omega
    rw [this]
  rw [hidem, fromBitcount_clamp]
  exact gen_table_from_bitcount ⟨min size.toNat 32, by omega⟩

theorem gen_to_u32 (m : Mask) : Ipv4Mask.to_u32 m.toGen = .ok m.toU32 := rfl

theorem gen_new (ip : Addr) (m : Mask) : Ipv4Net.new ip m.toGen = .ok (Net.new ip m).toGen := rfl

theorem gen_new_1 (ip : Addr) : Ipv4Net.new_1 ip = .ok (Net.new1 ip).toGen := by
  unfold Ipv4Net.new_1
  simp only [bind, Except.bind, pure, Except.pure]
  have := gen_from_bitcount 32
  have h32 : (32 : BitVec 32).toNat = 32 := rfl
  rw [h32] at this
  rw [this]
  rfl

theorem gen_id (n : Net) : Ipv4Net.id n.toGen = .ok n.id := rfl

theorem gen_mask (n : Net) : Ipv4Net.mask n.toGen = .ok n.mask.toGen := rfl

theorem gen_broadcast (n : Net) : Ipv4Net.broadcast n.toGen = n.broadcast := by
  unfold Ipv4Net.broadcast Net.broadcast
  simp only [bind, Except.bind, pure, Except.pure, Ipv4Net.id, ToU32.to_u32, Ipv4Mask.to_u32,
    U32.add, U32.to_be_bytes, Ipv4Address.new, Net.toGen, Mask.toGen]
  by_cases hc : n.id.toNat + (~~~ n.mask.bits).toNat < 2 ^ 32
  · simp only [hc, if_true]
  · simp only [hc, if_false]; rfl

theorem gen_contains (n : Net) (a : Addr) : Ipv4Net.contains n.toGen a = .ok (n.contains a) := rfl

theorem gen_overlaps (a b : Net) : Ipv4Net.overlaps a.toGen b.toGen = a.overlaps b := by
  unfold Ipv4Net.overlaps Net.overlaps
  simp only [bind, Except.bind, pure, Except.pure, gen_broadcast, gen_id]
  cases b.broadcast with
  | error e => rfl
  | ok ob =>
    simp only
    by_cases h : a.id ≤ ob
    · simp only [h, decide_true, if_true]
      all_goals (try (cases a.broadcast <;> rfl))
    · simp [h]

end Elvis.Subnet

namespace Elvis.IpTable
open Elvis.Subnet Elvis.Gen.Subnet

theorem gen_obm_cmp (a b : Net) : Obm.cmp ⟨a.toGen⟩ ⟨b.toGen⟩ = .ok (obmCmp a b) := by
  unfold Obm.cmp obmCmp cmpU32
  simp only [bind, Except.bind, pure, Except.pure, Ipv4Net.mask, Ipv4Net.id, Cmp.cmp, Net.toGen,
    Mask.toGen, Ordering.reverse]
  by_cases h1 : a.mask.bits < b.mask.bits
  · simp only [h1, if_true]; rfl
  · by_cases h2 : a.mask.bits = b.mask.bits
    · have h3 : ¬ b.mask.bits < b.mask.bits := by rw [BitVec.lt_def]; omega
      simp only [h2, h3, if_false, if_true]
    · simp only [h1, h2, if_false]; rfl

end Elvis.IpTable
