/-!
# Exact model of `std::collections::BinaryHeap` (`push` / `pop` / `peek`)

Mirrors `library/alloc/src/collections/binary_heap/mod.rs` (read from the installed `rust-src`,
rustc 1.95):

* `push`  = `data.push(item)` ; `sift_up(0, old_len)`
* `pop`   = `data.pop()`, swap the removed last item with `data[0]`, `sift_down_to_bottom(0)`
  (walk the hole down to a leaf, always taking the right child when `left <= right`, then
  `sift_up(start, pos)`)
* `peek`  = `data[0]`

The heap is the backing array in array order (`List α`, index = array index).  The comparison
is a parameter `le : α → α → Bool` (`a <= b` of the element's `PartialOrd`), nothing is assumed
about it — the TCB uses a circular, non-transitive order, the IPv4 reassembler an order with
ties — so the pop order is *whatever std's algorithm produces*, and this file reproduces it
(validated differentially: the internal array is compared after every operation).

std moves a "hole" (`Hole::move_to`); here every move is a `swap` of the moving element with
the element that std moves into the hole.  The final array is the same because std's
comparisons never read the hole position again before it is filled, and a swap keeps every
intermediate list a permutation of the input (see `Lemmas/Heap.lean`).

Import-free and total: all recursion is structural on a fuel argument that the entry points
instantiate with a sufficient bound (`pos` for `siftUp`, `length` for `siftDown`), so the
kernel can evaluate the functions (`decide`, `rfl`) and theorems can unfold them.
-/
namespace Elvis.LHeap
variable {α : Type}

/-- exchange positions `i` and `j` (no-op when either is out of range) -/
def swap (l : List α) (i j : Nat) : List α :=
  if h : i < l.length ∧ j < l.length then (l.set i l[j]).set j l[i] else l

/-- `sift_up(start, pos)`: while `pos > start` and not `data[pos] <= data[parent]`, move up.
    `fuel ≥ pos` suffices. -/
def siftUpAux (le : α → α → Bool) (start : Nat) : Nat → List α → Nat → List α
  | 0, l, _ => l
  | fuel + 1, l, pos =>
    if pos > start then
      let parent := (pos - 1) / 2
      match l[pos]?, l[parent]? with
      | some e, some p => if le e p then l else siftUpAux le start fuel (swap l pos parent) parent
      | _, _ => l
    else l

def siftUp (le : α → α → Bool) (l : List α) (start pos : Nat) : List α :=
  siftUpAux le start pos l pos

/-- the `while child <= end.saturating_sub(2)` loop of `sift_down_to_bottom` followed by the
    `if child == end - 1` step; returns the array and the final hole position.
    `fuel ≥ length` suffices (the position at least doubles each round). -/
def siftDownAux (le : α → α → Bool) : Nat → List α → Nat → List α × Nat
  | 0, l, pos => (l, pos)
  | fuel + 1, l, pos =>
    let end_ := l.length
    let child := 2 * pos + 1
    if child ≤ end_ - 2 then
      match l[child]?, l[child + 1]? with
      | some c0, some c1 =>
        let child := if le c0 c1 then child + 1 else child
        siftDownAux le fuel (swap l pos child) child
      | _, _ => (l, pos)
    else if child = end_ - 1 then (swap l pos child, child)
    else (l, pos)

/-- `sift_down_to_bottom(pos)` -/
def siftDownToBottom (le : α → α → Bool) (l : List α) (pos : Nat) : List α :=
  let r := siftDownAux le l.length l pos
  siftUp le r.1 pos r.2

/-- `BinaryHeap::push` -/
def push (le : α → α → Bool) (l : List α) (x : α) : List α :=
  siftUp le (l ++ [x]) 0 l.length

/-- `BinaryHeap::peek` -/
def peek (l : List α) : Option α := l.head?

/-- `BinaryHeap::pop`: the removed maximum (if any) and the remaining heap -/
def pop (le : α → α → Bool) (l : List α) : Option α × List α :=
  match l.getLast? with
  | none => (none, l)
  | some last =>
    match l.dropLast with
    | [] => (some last, [])
    | top :: rest => (some top, siftDownToBottom le (last :: rest) 0)

end Elvis.LHeap
