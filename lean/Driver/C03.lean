import Driver.C01
import ElvisVerif.Spec.Rfc9293
/-!
Line-protocol handlers for C03.

* `c03`, `c03-*` (except `c03-edges`): the two-endpoint TCP system of `Driver/C01.lean` (same
  ops, same answers) with the **transition log** appended to every answer:
  ` | tr <from>><to> <0|1>` — the connection state of the addressed side before and after the op
  (`-` = no TCB) and whether RFC 9293 allows that move for the events the op stands for
  (`Spec/Rfc9293.lean`: `rfcReach` over `rfcCause`).  Events: `open` = user OPEN, `close` = user
  CLOSE, `abort` = user ABORT, `tick` = the TIME-WAIT timeout, `deliver`/`inject` = the arriving
  segment's control bits and those of every segment waiting in the reorder queue (any of them
  may be processed by this call), everything else = no event (the state must not change).
  `drop` is the harness deleting a TCB, not a TCB operation: `tr - - 1`.
* `c03-edges`: the RFC table itself — `edge F T` answers `rfcEdges`, `cause EV F T` answers
  `rfcCause` (`EV` = `open` `close` `abort` `timeout` `seg<n>`, `n = 8·ack + 4·rst + 2·syn + fin`),
  so that the harness' Rust copy of the table is checked against the Lean one on every run.
-/
namespace Driver.C03
open Elvis.Tcp Elvis.Rfc9293

def stName : Option State → String
  | none => "-"
  | some s => Driver.C01.stateStr s

def parseSt : String → Option (Option State)
  | "-" => some none
  | "SynSent" => some (some .SynSent)
  | "SynReceived" => some (some .SynReceived)
  | "Established" => some (some .Established)
  | "FinWait1" => some (some .FinWait1)
  | "FinWait2" => some (some .FinWait2)
  | "CloseWait" => some (some .CloseWait)
  | "Closing" => some (some .Closing)
  | "LastAck" => some (some .LastAck)
  | "TimeWait" => some (some .TimeWait)
  | _ => none

def evOfSeg (seg : Segment) : Event :=
  .segment seg.hdr.ctl.ack seg.hdr.ctl.rst seg.hdr.ctl.syn seg.hdr.ctl.fin

def parseEv (s : String) : Option Event :=
  match s with
  | "open" => some .userOpen
  | "close" => some .userClose
  | "abort" => some .userAbort
  | "timeout" => some .timeWaitTimeout
  | _ =>
    if s.startsWith "seg" then
      match (s.drop 3).toNat? with
      | some n => if n < 16 then some (.segment (n / 8 % 2 == 1) (n / 4 % 2 == 1) (n / 2 % 2 == 1) (n % 2 == 1)) else none
      | none => none
    else none

/-- the events an op stands for (`none`: not a TCB operation) -/
def eventsOf (sys : Sys) (op : Op) : Option (List Event) :=
  let arriving (x : SideId) (seg : Segment) : List Event :=
    evOfSeg seg :: (match (sys.side x).tcb with
      | some t => t.incoming.segments.map evOfSeg
      | none => [])
  match op with
  | .open .. => some [.userOpen]
  | .close _ => some [.userClose]
  | .abort _ => some [.userAbort]
  | .tick .. => some [.timeWaitTimeout]
  | .deliver x i =>
    match sys.nth i with
    | none => some []
    | some seg => some (arriving x seg)
  | .inject x seg => some (arriving x seg)
  | .drop _ => none
  | _ => some []

def step (st : Driver.C01.St) (ws : List String) : Driver.C01.St × String :=
  match ws with
  | ["case", _] => Driver.C01.step st ws
  | _ =>
    if st.dead then Driver.C01.step st ws else
    match Driver.C01.parseOp ws with
    | none => Driver.C01.step st ws
    | some op =>
      let x := op.side
      let before := (st.sys.side x).tcb.map (·.state)
      let evs := eventsOf st.sys op
      let (st', ans) := Driver.C01.step st ws
      if st'.dead then (st', ans) else
      let after := (st'.sys.side x).tcb.map (·.state)
      match evs with
      | none => (st', ans ++ " | tr - - 1")
      | some evs =>
        (st', ans ++ s!" | tr {stName before}>{stName after} {if rfcReach evs before after then 1 else 0}")

def edgeStep (_ : Unit) (ws : List String) : Unit × String :=
  let b (x : Bool) : String := if x then "1" else "0"
  match ws with
  | ["case", id] => ((), s!"case {id}")
  | ["edge", f, t] =>
    match parseSt f, parseSt t with
    | some f, some t => ((), b (rfcEdges f t))
    | _, _ => ((), "bad-op")
  | ["cause", ev, f, t] =>
    match parseEv ev, parseSt f, parseSt t with
    | some ev, some f, some t => ((), b (rfcCause ev f t))
    | _, _, _ => ((), "bad-op")
  | _ => ((), "bad-op")

def dispatch (sub : String) (i o : IO.FS.Stream) : Option (IO Unit) :=
  if sub.startsWith "c03-edges" then some (Driver.loop i o edgeStep ())
  else if sub.startsWith "c03" then some (Driver.loop i o step {})
  else none

end Driver.C03
