import ElvisVerif.Lemmas.ModCmp
/-!
# C12 — TCP behaviour is independent of absolute sequence numbers (mod 2^32)

Stage 1 (state of the code BEFORE the repair of F-C12-1): the primitives that hold, and the
counterexample for `mod_leq` / `mod_geq`.
-/
namespace Elvis.Tcp
open Elvis.ModCmp

theorem sub_add_cancel_left (a d : BitVec 32) : (a + d) - a = d := by bv_omega
theorem sub_add_left_neg (a d : BitVec 32) : a - (a + d) = -d := by bv_omega
theorem add_sub_add_right (a b k : BitVec 32) : (b + k) - (a + k) = b - a := by bv_omega

theorem gen_mod_lt_iff (a b : BitVec 32) :
    Elvis.Gen.ModCmp.mod_lt a b = true ↔ 0 < (b - a).toNat ∧ (b - a).toNat < 2147483648 := by
  rw [← modLt_eq_generated]; exact modLt_iff a b

theorem c12_mod_lt_iff (a d : BitVec 32) (hd : d.toNat < 2147483648) :
    Elvis.Gen.ModCmp.mod_lt a (a + d) = true ↔ 0 < d.toNat := by
  rw [gen_mod_lt_iff, sub_add_cancel_left]; omega

theorem c12_mod_lt_asymm (a d : BitVec 32) (hd : d.toNat < 2147483648) :
    Elvis.Gen.ModCmp.mod_lt (a + d) a = false := by
  rw [Bool.eq_false_iff]; intro h
  rw [gen_mod_lt_iff, sub_add_left_neg, BitVec.toNat_neg] at h
  omega

theorem c12_mod_lt_shift (a b k : BitVec 32) :
    Elvis.Gen.ModCmp.mod_lt (a + k) (b + k) = Elvis.Gen.ModCmp.mod_lt a b := by
  rw [Bool.eq_iff_iff, gen_mod_lt_iff, gen_mod_lt_iff, add_sub_add_right]

/-- F-C12-1: at distance exactly `2^31 − 1` the strict comparison holds and the non-strict one
    does not (`mod_leq a b` is coded as `mod_lt a (b+1)`, and `b + 1` is `2^31` ahead of `a`);
    the mirror image for `mod_geq`. -/
theorem c12_mod_leq_counterexample :
    Elvis.Gen.ModCmp.mod_lt 0#32 (0#32 + 2147483647#32) = true ∧
    Elvis.Gen.ModCmp.mod_leq 0#32 (0#32 + 2147483647#32) = false ∧
    Elvis.Gen.ModCmp.mod_gt (0#32 + 2147483647#32) 0#32 = true ∧
    Elvis.Gen.ModCmp.mod_geq (0#32 + 2147483647#32) 0#32 = false := by decide

end Elvis.Tcp
