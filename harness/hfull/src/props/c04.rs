//! C04: correspondence + oracle runs (sub-commands `c04` / `c04-*`).
use hcommon::*;

pub fn run(args: &Args) {
    eprintln!("hfull: {} not implemented yet", args.prop);
    std::process::exit(2);
}
