//! `c15-dhcp`: the real `DhcpServer::demux` and `DhcpClient::demux`, driven one datagram at a time.
//! The harness is the network: replies are captured by a recording `Session`, kept in a bag, and
//! delivered / duplicated / dropped in the order the seeded schedule says.  Same op lines drive the
//! Lean model (`Model/Dhcp.lean`); the oracle checks the property on what the real code did.
//!
//! `start c` pushes what `DhcpClient::start` sends after the barrier (`DhcpMessage::default()`,
//! a Discover) — `start` itself needs a full machine (UDP/IPv4/PCI) and is exercised by `c15-sim`.
//! `release c` is the environment action of the model: the client forgets its address and a
//! `Release(your_ip)` datagram is put on the wire (the shipped client never releases).
use elvis::{applications::dhcp_server::DhcpServer, ip_generator::IpRange};
use elvis_core::{
    protocols::{
        dhcp::{
            dhcp_client::DhcpClient,
            dhcp_parsing::{DhcpMessage, MessageType},
        },
        ipv4::Ipv4Address,
    },
    session::SendError,
    Control, Machine, Message, Protocol, Session,
};
use hcommon::*;
use std::collections::{BTreeMap, BTreeSet};
use std::sync::{Arc, Mutex};

type Sink = Arc<Mutex<Vec<(usize, bool, Message)>>>;

struct Rec {
    client: usize,
    to_server: bool,
    sink: Sink,
}

impl Session for Rec {
    fn send(&self, message: Message, _machine: Arc<Machine>) -> Result<(), SendError> {
        self.sink.lock().unwrap().push((self.client, self.to_server, message));
        Ok(())
    }
}

#[derive(Clone)]
struct Pkt {
    to_server: bool,
    client: usize,
    msg: Message,
}

fn type_name(t: &MessageType) -> &'static str {
    match t {
        MessageType::Discover => "discover",
        MessageType::Offer => "offer",
        MessageType::Request => "request",
        MessageType::Decline => "decline",
        MessageType::Ack => "ack",
        MessageType::Nack => "nack",
        MessageType::Release => "release",
    }
}

fn parse(m: &Message) -> (String, u32) {
    match catch(|| DhcpMessage::from_bytes(m.iter())) {
        Ok(Ok(d)) => (type_name(&d.msg_type).to_string(), d.your_ip.to_u32()),
        _ => ("unparsable".into(), 0),
    }
}

pub struct Exec {
    server: Option<DhcpServer>,
    clients: Vec<DhcpClient>,
    machine: Arc<Machine>,
    net: Vec<Pkt>,
    sink: Sink,
    pool: (u32, u32),
    // ---- oracle state (the property's vocabulary only) ----
    /// addresses offered and not yet given back, with the client they were offered to
    leased: BTreeMap<u32, usize>,
    offers: BTreeSet<(usize, u32)>,
    released: BTreeSet<u32>,
    /// false once the schedule did something the property does not promise to survive
    /// (duplicated Release, Release while datagrams naming the address are still in flight)
    pub promised: bool,
    pub dead: bool,
    exhausted: bool,
    pending: Vec<(String, String)>,
    pub acks: u32,
    pub reoffers: u32,
}

impl Exec {
    pub fn new() -> Self {
        Exec {
            server: None,
            clients: vec![],
            machine: Machine::new().arc(),
            net: vec![],
            sink: Arc::new(Mutex::new(vec![])),
            pool: (1, 0),
            leased: BTreeMap::new(),
            offers: BTreeSet::new(),
            released: BTreeSet::new(),
            promised: true,
            dead: false,
            exhausted: false,
            pending: vec![],
            acks: 0,
            reoffers: 0,
        }
    }

    fn summary(&self) -> String {
        let cs: Vec<String> = self
            .clients
            .iter()
            .map(|c| match *c.ip_address.read().unwrap() {
                Some(a) => a.to_u32().to_string(),
                None => "-".into(),
            })
            .collect();
        let ps: Vec<String> = self
            .net
            .iter()
            .map(|p| {
                let (t, y) = parse(&p.msg);
                format!("{}{}:{}:{}", if p.to_server { "S" } else { "C" }, p.client, t, y)
            })
            .collect();
        let next = match self.server.as_ref().map(|s| catch(|| s.ip_generator.read().map(|g| g.clone().fetch_ip()))) {
            Some(Ok(Ok(Some(a)))) => a.to_u32().to_string(),
            Some(Ok(Ok(None))) => "none".into(),
            _ => (if self.exhausted { "none" } else { "poisoned" }).into(),
        };
        format!("clients=[{}] net=[{}] next={}", cs.join(","), ps.join(","), next)
    }

    fn stored(&self) -> Vec<Option<u32>> {
        self.clients.iter().map(|c| c.ip_address.read().unwrap().map(|a| a.to_u32())).collect()
    }

    fn fail(&mut self, what: String, ident: &str) {
        self.pending.push((what, ident.to_string()));
    }

    /// the property, evaluated on the observable state after every step
    fn judge_state(&mut self, line: &str) {
        if !self.promised {
            return;
        }
        let st = self.stored();
        for i in 0..st.len() {
            if let Some(a) = st[i] {
                if a < self.pool.0 || a > self.pool.1 {
                    self.fail(format!("after `{}` client {} holds {} outside the pool {}..={}", line, i, a, self.pool.0, self.pool.1), "dhcp outside-pool");
                }
                if !self.offers.contains(&(i, a)) {
                    self.fail(format!("after `{}` client {} holds {} which the server never offered to it", line, i, a), "dhcp not-offered");
                }
                for j in 0..i {
                    if st[j] == Some(a) {
                        self.fail(format!("after `{}` clients {} and {} both hold address {}", line, j, i, a), "dhcp double-lease");
                    }
                }
            }
        }
    }

    pub fn apply(&mut self, line: &str, out: &mut Out) {
        self.apply_inner(line, out);
        for (w, i) in std::mem::take(&mut self.pending) {
            out.fail(&w, &i);
        }
    }

    fn apply_inner(&mut self, line: &str, out: &mut Out) {
        let w: Vec<&str> = line.split_whitespace().collect();
        let num = |s: &str| s.parse::<u32>().ok();
        if let ["world", a, b, n] = w.as_slice() {
            let (Some(a), Some(b), Some(n)) = (num(a), num(b), num(n)) else { return out.line(line, "bad-op") };
            *self = Exec::new();
            self.pool = (a, b);
            self.server = Some(DhcpServer::new(Ipv4Address::new([123, 123, 123, 123]), IpRange::new(a.into(), b.into())));
            self.clients = (0..n).map(|_| DhcpClient::new(Ipv4Address::new([123, 123, 123, 123]))).collect();
            out.count(&format!("clients.{:02}", n));
            return out.line(line, &format!("ok {}", self.summary()));
        }
        if self.server.is_none() || self.dead {
            return out.line(line, "bad-op");
        }
        out.count(&format!("act.{}", w[0]));
        let mut err: Option<String> = None;
        match w.as_slice() {
            ["start", c] => {
                let Some(c) = num(c).map(|c| c as usize) else { return out.line(line, "bad-op") };
                if c < self.clients.len() {
                    let m = DhcpMessage::to_message(DhcpMessage::default()).unwrap();
                    self.net.push(Pkt { to_server: true, client: c, msg: m });
                } else {
                    err = Some("bad-client".into());
                }
            }
            ["deliver", i] => {
                let Some(i) = num(i).map(|i| i as usize) else { return out.line(line, "bad-op") };
                if i >= self.net.len() {
                    err = Some("bad-index".into());
                } else {
                    let p = self.net.remove(i);
                    let (t, y) = parse(&p.msg);
                    out.count(&format!("deliver.{}.{}", if p.to_server { "server" } else { "client" }, t));
                    let caller: Arc<dyn Session> = Arc::new(Rec { client: p.client, to_server: !p.to_server, sink: self.sink.clone() });
                    let machine = self.machine.clone();
                    let r = if p.to_server {
                        let s = self.server.as_ref().unwrap();
                        catch(|| s.demux(p.msg.clone(), caller, Control::new(), machine).is_ok())
                    } else if p.client < self.clients.len() {
                        let c = &self.clients[p.client];
                        catch(|| c.demux(p.msg.clone(), caller, Control::new(), machine).is_ok())
                    } else {
                        Ok(false)
                    };
                    let sent: Vec<(usize, bool, Message)> = std::mem::take(&mut *self.sink.lock().unwrap());
                    match r {
                        Ok(_) => {
                            // ---- oracle bookkeeping on what was observed ----
                            if p.to_server && t == "release" {
                                if self.leased.remove(&y).is_none() {
                                    // a Release for something not leased: outside what the property promises
                                    self.promised = false;
                                }
                                self.released.insert(y);
                            }
                            for (c, ts, m) in sent {
                                let (t2, y2) = parse(&m);
                                if !ts && t2 == "offer" {
                                    if self.promised {
                                        if let Some(o) = self.leased.get(&y2) {
                                            let o = *o;
                                            self.fail(format!("`{}`: server offers {} to client {} while it is still leased to client {}", line, y2, c, o), "dhcp double-offer");
                                        }
                                        if y2 < self.pool.0 || y2 > self.pool.1 {
                                            self.fail(format!("`{}`: server offers {} outside its pool", line, y2), "dhcp offer-outside-pool");
                                        }
                                    }
                                    if self.released.contains(&y2) {
                                        self.reoffers += 1;
                                        out.count("offer.of_released_address");
                                    }
                                    self.leased.insert(y2, c);
                                    self.offers.insert((c, y2));
                                }
                                if !ts && t2 == "ack" {
                                    self.acks += 1;
                                }
                                self.net.push(Pkt { to_server: ts, client: c, msg: m });
                            }
                        }
                        Err(pi) => {
                            let text = source_line_text(&pi.file, pi.line);
                            let free = (self.pool.1 as i64 - self.pool.0 as i64 + 1).max(0) - self.leased.len() as i64;
                            if text.contains("fetch_ip().unwrap()") {
                                err = Some("panic:unwrap:DhcpServer::demux.fetch_ip".into());
                                out.count("server.exhausted_panic");
                                self.exhausted = true;
                                if free > 0 && self.promised {
                                    self.fail(format!("`{}`: server ran out of addresses although {} of its pool are not leased", line, free), "dhcp exhaustion-wrong");
                                }
                            } else {
                                err = Some(format!("panic:other:{}:{}", pi.file.rsplit('/').next().unwrap_or(""), text.replace(' ', "_")));
                                self.fail(format!("`{}` panicked: {} ({})", line, pi.msg, text), &format!("panic dhcp {}", text));
                            }
                            // the RwLock around the generator is poisoned now: the server is gone
                            self.net.insert(i, p);
                            self.dead = true;
                        }
                    }
                }
            }
            ["dup", i] => {
                let Some(i) = num(i).map(|i| i as usize) else { return out.line(line, "bad-op") };
                if i >= self.net.len() {
                    err = Some("bad-index".into());
                } else {
                    let p = self.net[i].clone();
                    if parse(&p.msg).0 == "release" {
                        self.promised = false;
                        out.count("schedule.unpromised.dup_release");
                    }
                    self.net.push(p);
                }
            }
            ["drop", i] => {
                let Some(i) = num(i).map(|i| i as usize) else { return out.line(line, "bad-op") };
                if i >= self.net.len() {
                    err = Some("bad-index".into());
                } else {
                    self.net.remove(i);
                }
            }
            ["release", c] => {
                let Some(c) = num(c).map(|c| c as usize) else { return out.line(line, "bad-op") };
                let cur = self.clients.get(c).and_then(|cl| *cl.ip_address.read().unwrap());
                match cur {
                    Some(a) => {
                        let a32 = a.to_u32();
                        if self.net.iter().any(|p| {
                            let (t, y) = parse(&p.msg);
                            t != "discover" && y == a32
                        }) {
                            self.promised = false;
                            out.count("schedule.unpromised.release_not_quiescent");
                        }
                        *self.clients[c].ip_address.write().unwrap() = None;
                        let mut m = DhcpMessage::default();
                        m.msg_type = MessageType::Release;
                        m.your_ip = a;
                        self.net.push(Pkt { to_server: true, client: c, msg: DhcpMessage::to_message(m).unwrap() });
                    }
                    None => err = Some("nothing-to-release".into()),
                }
            }
            _ => return out.line(line, "bad-op"),
        }
        let s = self.summary();
        match err {
            None => out.line(line, &format!("ok {}", s)),
            Some(e) => out.line(line, &format!("err {} {}", e, s)),
        }
        self.judge_state(line);
    }

    /// next schedule step
    pub fn gen(&self, rng: &mut Rng, started: &mut Vec<bool>, misbehave: bool) -> String {
        let n = self.clients.len();
        // clients not yet started: start them early ("started together"), in random order
        let pending: Vec<usize> = (0..n).filter(|c| !started[*c]).collect();
        if !pending.is_empty() && (self.net.is_empty() || rng.chance(2, 3)) {
            let c = *rng.pick(&pending);
            started[c] = true;
            return format!("start {}", c);
        }
        if self.net.is_empty() {
            // everything delivered: release somebody or restart somebody
            let holders: Vec<usize> = (0..n).filter(|c| self.clients[*c].ip_address.read().unwrap().is_some()).collect();
            if !holders.is_empty() && rng.chance(2, 3) {
                return format!("release {}", rng.pick(&holders));
            }
            return format!("start {}", rng.below(n as u64));
        }
        let i = rng.below(self.net.len() as u64) as usize;
        let is_release = parse(&self.net[i].msg).0 == "release";
        match rng.below(100) {
            0..=69 => format!("deliver {}", i),
            70..=81 if !is_release || misbehave => format!("dup {}", i),
            70..=81 => format!("deliver {}", i),
            82..=85 => format!("drop {}", i),
            86..=95 => {
                let holders: Vec<usize> = (0..n)
                    .filter(|c| match *self.clients[*c].ip_address.read().unwrap() {
                        Some(a) => {
                            misbehave
                                || !self.net.iter().any(|p| {
                                    let (t, y) = parse(&p.msg);
                                    t != "discover" && y == a.to_u32()
                                })
                        }
                        None => false,
                    })
                    .collect();
                if holders.is_empty() {
                    format!("deliver {}", i)
                } else {
                    format!("release {}", rng.pick(&holders))
                }
            }
            _ => format!("start {}", rng.below(n as u64)),
        }
    }
}

pub fn run(args: &Args) {
    let mut out = Out::new(&args.out);
    let rule = "one real DhcpServer and 1..16 real DhcpClients, demux called datagram by datagram; schedule = seeded choice of start / deliver any in-flight datagram / duplicate / drop / release; pools smaller than, equal to and larger than the number of clients, pools touching 0.0.0.0 and 255.255.255.255; 1 schedule in 12 deliberately duplicates a Release or releases while datagrams still name the address (not promised by the property: counted, not judged); a case is non-trivial if >= 2 clients were acknowledged and something was duplicated or released; distinct = hash of its op lines";
    if let Some(rp) = &args.replay {
        let mut ex = Exec::new();
        out.begin_case(0);
        out.mark_nontrivial();
        for l in read_ops(rp) {
            if l.starts_with("case ") {
                continue;
            }
            ex.apply(&l, &mut out);
        }
        out.end_case();
        out.finish(rule);
        return;
    }
    let mut rng = Rng::new(args.seed);
    // fixed schedules first: the two concrete witnesses proved in Props/C15Dhcp.lean
    let cycle = "world 167772165 167772165 2;start 0;deliver 0;deliver 0;deliver 0;deliver 0;release 0;deliver 0;start 1;deliver 0;deliver 0;deliver 0;deliver 0";
    let dup_release = "world 5 5 3;start 0;deliver 0;deliver 0;deliver 0;deliver 0;release 0;dup 0;deliver 0;start 1;deliver 1;deliver 1;deliver 1;deliver 1;deliver 0;start 2;deliver 0;deliver 0;deliver 0;deliver 0";
    let mut base = 0u64;
    for (k, sched) in [cycle, dup_release].iter().enumerate() {
        let mut ex = Exec::new();
        out.begin_case(k as u64);
        for l in sched.split(';') {
            ex.apply(l, &mut out);
        }
        let st = ex.stored();
        if k == 0 && (st != vec![None, Some(167772165)] || ex.reoffers != 1) {
            out.fail(&format!("release cycle: expected the released address to be leased to client 1, got {:?}", st), "dhcp released-not-reoffered");
        }
        if k == 1 {
            // not promised by the property; recorded so that the evidence shows what happens
            out.count(if st[1].is_some() && st[1] == st[2] { "witness.dup_release_double_lease.reproduced" } else { "witness.dup_release_double_lease.not_reproduced" });
        }
        out.count("cases.fixed");
        out.mark_nontrivial();
        out.end_case();
        base += 1;
    }
    for c in 0..args.cases {
        let mut r = rng.fork();
        let n = if c < 16 { c + 1 } else { r.range(1, 16) };
        let size = match r.below(10) {
            0 => n.saturating_sub(1).max(1),
            1 | 2 => n,
            3 | 4 => n + 1,
            5 | 6 => n + r.range(2, 8),
            _ => 255,
        };
        let start: u64 = match r.below(6) {
            0 => 0,
            1 => 0xFFFF_FFFF - (size - 1),
            2 => 1,
            _ => 0x0A00_0000 + r.below(1000),
        };
        let misbehave = r.chance(1, 12);
        let mut ex = Exec::new();
        out.begin_case(base + c);
        ex.apply(&format!("world {} {} {}", start, start + size - 1, n), &mut out);
        let mut started = vec![false; n as usize];
        let steps = 8 * n + 12;
        let mut dups_or_releases = 0;
        for _ in 0..steps {
            if ex.dead {
                break;
            }
            let op = ex.gen(&mut r, &mut started, misbehave);
            if op.starts_with("dup") || op.starts_with("release") {
                dups_or_releases += 1;
            }
            ex.apply(&op, &mut out);
        }
        // drain: deliver what is left, oldest first
        let mut guard = 0;
        while !ex.dead && !ex.net.is_empty() && guard < 400 {
            ex.apply("deliver 0", &mut out);
            guard += 1;
        }
        if !ex.promised {
            out.count("cases.unpromised_schedule");
        }
        if ex.dead {
            out.count("cases.ended_by_exhaustion_panic");
        }
        if ex.acks >= 2 && dups_or_releases >= 1 {
            out.mark_nontrivial();
        }
        out.end_case();
    }
    out.finish(rule);
}
