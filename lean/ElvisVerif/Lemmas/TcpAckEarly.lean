import ElvisVerif.Lemmas.TcpAckBlocks
/-!
# Before the connection is established nothing is acknowledged

`Early s` — block-stable facts about the two pre-synchronised states:

* SYN-SENT: only the SYN has been numbered (`SND.NXT = ISS + 1`) and `SND.UNA` is `ISS`, or —
  between block 2 and block 4 of the segment that completes the handshake — `ISS + 1`;
* SYN-RECEIVED: our SYN is unacknowledged (`SND.UNA = ISS`).

Every block of `process_segment` keeps `Early`.  It is what makes the ACK test of block 2 succeed
for every ACK number in `[ISS + 1, SND.NXT]` (`goodAck_of_le`): no RST "for an unacceptable ACK".
-/
namespace Elvis.Tcp
open Elvis.ModCmp
namespace Tcb

structure Early (s : Tcb) : Prop where
  synSent : s.state = .SynSent →
    s.snd.nxt = s.snd.iss + 1 ∧ (s.snd.una = s.snd.iss ∨ s.snd.una = s.snd.iss + 1)
  synRcvd : s.state = .SynReceived → s.snd.una = s.snd.iss

/-- same state, same SND.* -/
theorem Early.congr {s s' : Tcb} (h : Early s) (h1 : s'.state = s.state) (h2 : s'.snd = s.snd) : Early s' :=
  ⟨fun hs => by rw [h2]; exact h.synSent (h1 ▸ hs), fun hs => by rw [h2]; exact h.synRcvd (h1 ▸ hs)⟩

/-- a state that is neither SYN-SENT nor SYN-RECEIVED -/
theorem Early.of_late {s : Tcb} (h1 : s.state ≠ .SynSent) (h2 : s.state ≠ .SynReceived) : Early s :=
  ⟨fun h => absurd h h1, fun h => absurd h h2⟩

theorem early_enqueueBuilt {s : Tcb} (h : Early s) (hd : Hdr) : Early (s.enqueueBuilt hd) :=
  h.congr (state_enqueueBuilt _ _) (enqueueBuilt_frame _ _).2.2.1

/-! ## arithmetic -/

theorem modGt_succ (iss : Seq) : modGt (iss + 1) iss = true := by
  unfold modGt
  rw [modLt_iff]
  have : iss + 1 - iss = 1 := by bv_omega
  rw [this]
  decide

/-- in SYN-SENT with only the SYN sent, an acceptable ACK acknowledges exactly the SYN -/
theorem ack_of_bounded_syn (iss ack : Seq) (h : modBounded iss .Lt ack .Leq (iss + 1) = true) : ack = iss + 1 := by
  unfold modBounded at h
  rw [cyc_iff] at h
  simp only [Cmp.offset] at h
  have e0 : iss - 0 = iss := by bv_omega
  have e1 : iss + 1 + 1 - iss = 2 := by bv_omega
  rw [e0, e1] at h
  have h2 : (2 : BitVec 32).toNat = 2 := rfl
  rw [h2] at h
  have : (ack - iss).toNat = 1 := by omega
  have e : ack - iss = 1 := by
    apply BitVec.eq_of_toNat_eq
    rw [this]; rfl
  bv_omega

theorem not_bounded_self (a c : Seq) : modBounded a .Lt a .Leq c = false := by
  cases h : modBounded a .Lt a .Leq c with
  | false => rfl
  | true =>
    unfold modBounded at h
    rw [cyc_iff] at h
    simp only [Cmp.offset] at h
    have e0 : a - (a - 0) = 0 := by bv_omega
    rw [e0] at h
    simp at h

/-! ## the blocks -/

theorem seqCheck_early (s : Tcb) (seg : Hdr) (tl : Seq) (s' : Tcb) (r : Option ProcessSegmentResult)
    (e : seqCheck s seg tl = .ok (s', r)) (h : Early s) : Early s' := by
  unfold seqCheck at e
  split at e
  · cases e; exact h
  · split at e
    · simp at e
    · cases e; exact h
    · rw [enqueueThen_eq] at e
      cases e
      exact early_enqueueBuilt h _

theorem ackEstablished_early (s : Tcb) (seg : Hdr) :
    ∃ s' r, s.ackEstablishedProcessing seg = .ok (s', r) ∧ s'.state = s.state := by
  unfold ackEstablishedProcessing
  split
  · exact ⟨_, _, rfl, rfl⟩
  · split
    · rw [enqueue_eq]
      exact ⟨_, _, rfl, state_enqueueBuilt _ _⟩
    · dsimp only
      split <;> exact ⟨_, _, rfl, rfl⟩

theorem ackBlock_early (s : Tcb) (seg : Hdr) (h : Early s) :
    ∃ s' r, ackBlock s seg = .ok (s', r) ∧ Early s' := by
  -- the states that run `ack_established_processing` on a TCB that is neither SYN-SENT nor SYN-RECEIVED
  have late : ∀ (t : Tcb) (k : Tcb → ProcessSegmentResult → B), t.state ≠ .SynSent → t.state ≠ .SynReceived →
      (∀ s1 r1, ∃ s2 r2, k s1 r1 = .ok (s2, r2) ∧ (s1.state ≠ .SynSent → s2.state ≠ .SynSent) ∧
        (s1.state ≠ .SynReceived → s2.state ≠ .SynReceived)) →
      ∃ s' r, afterAckEstablished (t.ackEstablishedProcessing seg) k = .ok (s', r) ∧ Early s' := by
    intro t k n1 n2 hk
    obtain ⟨s1, r1, e1, st1⟩ := ackEstablished_early t seg
    unfold afterAckEstablished
    rw [e1]
    obtain ⟨s2, r2, e2, a, b⟩ := hk s1 r1
    exact ⟨s2, r2, e2, Early.of_late (a (by rw [st1]; exact n1)) (b (by rw [st1]; exact n2))⟩
  unfold ackBlock
  split
  · exact ⟨_, _, rfl, h⟩
  · split
    · -- SYN-SENT
      rename_i hst
      obtain ⟨hn, hu⟩ := h.synSent hst
      split
      · split
        · exact ⟨_, _, rfl, h⟩
        · simp only [enqueueThen_eq]
          exact ⟨_, _, rfl, early_enqueueBuilt h _⟩
      · split
        · rename_i hb
          split
          · refine ⟨_, _, rfl, ⟨fun _ => ⟨hn, ?_⟩, fun hs => ?_⟩⟩
            · -- the new SND.UNA is `ISS + 1`
              right
              show seg.ack = s.snd.iss + 1
              rcases hu with hu | hu
              · rw [hu, hn] at hb
                exact ack_of_bounded_syn _ _ hb
              · rw [hu, hn] at hb
                have hb' : modBounded (s.snd.iss + 1) .Lt seg.ack .Leq (s.snd.iss + 1) = true := hb
                -- `UNA = NXT`: nothing is strictly between
                exfalso
                unfold modBounded at hb'
                rw [cyc_iff] at hb'
                simp only [Cmp.offset] at hb'
                have e0 : s.snd.iss + 1 - 0 = s.snd.iss + 1 := by bv_omega
                have e1 : s.snd.iss + 1 + 1 - (s.snd.iss + 1) = 1 := by bv_omega
                rw [e0, e1] at hb'
                have h1 : (1 : BitVec 32).toNat = 1 := rfl
                rw [h1] at hb'
                omega
            · have : (({ s with snd.una := seg.ack } : Tcb).removeAckedFromRetransmission seg.ack).state = .SynSent := hst
              rw [this] at hs; cases hs
          · exact ⟨_, _, rfl, h⟩
        · simp only [enqueueThen_eq]
          exact ⟨_, _, rfl, early_enqueueBuilt h _⟩
    · -- SYN-RECEIVED
      split
      · dsimp only
        refine late _ _ (by simp) (by simp) (fun s1 r1 => ?_)
        split <;> exact ⟨_, _, rfl, id, id⟩
      · simp only [enqueueThen_eq]
        exact ⟨_, _, rfl, early_enqueueBuilt h _⟩
    iterate 3
      · rename_i hst
        refine late s _ (by rw [hst]; simp) (by rw [hst]; simp) (fun s1 r1 => ?_)
        split <;> exact ⟨_, _, rfl, id, id⟩
    iterate 2
      · rename_i hst
        refine late s _ (by rw [hst]; simp) (by rw [hst]; simp) (fun s1 r1 => ?_)
        dsimp only
        split <;> split <;> refine ⟨_, _, rfl, fun _ => ?_, fun _ => ?_⟩ <;> first | assumption | simp
    · rename_i hst
      refine late s _ (by rw [hst]; simp) (by rw [hst]; simp) (fun s1 r1 => ?_)
      split
      · exact ⟨_, _, rfl, id, id⟩
      · split <;> exact ⟨_, _, rfl, id, id⟩
    · exact ⟨_, _, rfl, h⟩

theorem synBlock_early (s : Tcb) (seg : Hdr) (s' : Tcb) (r : Option ProcessSegmentResult)
    (e : synBlock s seg = .ok (s', r)) (h : Early s) : Early s' := by
  unfold synBlock at e
  split at e
  · split at e <;> (cases e; exact h)
  · split at e
    · rename_i hst
      obtain ⟨hn, hu⟩ := h.synSent hst
      dsimp only at e
      split at e
      · rw [enqueueThen_eq] at e
        cases e
        exact Early.of_late (by rw [state_enqueueBuilt]; simp) (by rw [state_enqueueBuilt]; simp)
      · rename_i hgt
        rw [enqueueThen_eq] at e
        cases e
        refine ⟨fun hs => ?_, fun _ => ?_⟩
        · rw [state_enqueueBuilt] at hs; cases hs
        · rw [(enqueueBuilt_frame _ _).2.2.1]
          show s.snd.una = s.snd.iss
          rcases hu with hu | hu
          · exact hu
          · exfalso
            apply hgt
            show modGt s.snd.una s.snd.iss = true
            rw [hu]; exact modGt_succ _
    · rw [enqueueThen_eq] at e
      cases e
      exact early_enqueueBuilt h _

theorem textBlock_early (s : Tcb) (seg : Hdr) (text : List UInt8) (tl : Seq) (s' : Tcb)
    (r : Option ProcessSegmentResult) (e : textBlock s seg text tl = .ok (s', r)) (h : Early s) : Early s' := by
  unfold textBlock at e
  split at e
  · cases e; exact h
  · split at e
    all_goals first
      | (cases e; exact h)
      | (dsimp only at e
         repeat' (split at e)
         all_goals first
           | (simp at e; done)
           | (rw [enqueueThen_eq] at e
              cases e
              exact (h.congr (s' := _) rfl rfl).congr (state_enqueueBuilt _ _) (enqueueBuilt_frame _ _).2.2.1))

theorem finBlock_early (s : Tcb) (seg : Hdr) (tl : Seq) (s' : Tcb) (r : Option ProcessSegmentResult)
    (e : finBlock s seg tl = .ok (s', r)) (h : Early s) : Early s' := by
  unfold finBlock at e
  split at e
  · cases e; exact h
  · dsimp only at e
    have key : ∀ s1, (if s.state ≠ .SynSent then
          if (decide (s.rcv.nxt = seg.seq + tl) || decide (s.rcv.nxt = seg.seq + tl + 1)) = true then
            ({ s with rcv.nxt := seg.seq + tl + 1 } : Tcb).enqueue
              ({ s with rcv.nxt := seg.seq + tl + 1 } : Tcb).ackHdr
          else Except.ok s
        else Except.ok s) = .ok s1 → Early s1 := by
      intro s1 h1
      split at h1
      · split at h1
        · rw [enqueue_eq] at h1
          cases h1
          exact (h.congr (s' := _) rfl rfl).congr (state_enqueueBuilt _ _) (enqueueBuilt_frame _ _).2.2.1
        · cases h1; exact h
      · cases h1; exact h
    split at e
    · simp at e
    · rename_i s1 h1
      have k := key s1 h1
      split at e
      all_goals first
        | (cases e; exact k)
        | (cases e; exact k.congr rfl rfl)
        | (cases e; exact Early.of_late (by simp) (by simp))
        | (split at e <;> (cases e; exact Early.of_late (by simp) (by simp)))

theorem processSegment_early (s : Tcb) (segment : Segment) (s' : Tcb) (r : ProcessSegmentResult)
    (e : s.processSegment segment = .ok (s', r)) (h : Early s) : Early s' := by
  unfold processSegment at e
  dsimp only at e
  cases h1 : seqCheck s segment.hdr (BitVec.ofNat 32 segment.text.length) with
  | error err => rw [h1] at e; simp [B.andThen] at e
  | ok p1 =>
    obtain ⟨s1, r1⟩ := p1
    have k1 := seqCheck_early _ _ _ _ _ h1 h
    rw [h1] at e
    cases r1 with
    | some x => simp only [andThen_some] at e; cases e; exact k1
    | none =>
      simp only [andThen_none] at e
      obtain ⟨s2, r2, e2, k2⟩ := ackBlock_early s1 segment.hdr k1
      rw [e2] at e
      cases r2 with
      | some x => simp only [andThen_some] at e; cases e; exact k2
      | none =>
        simp only [andThen_none] at e
        obtain ⟨r3, e3⟩ := rstBlock_spec s2 segment.hdr
        rw [e3] at e
        cases r3 with
        | some x => simp only [andThen_some] at e; cases e; exact k2
        | none =>
          simp only [andThen_none] at e
          cases h4 : synBlock s2 segment.hdr with
          | error err => rw [h4] at e; simp [B.andThen] at e
          | ok p4 =>
            obtain ⟨s4, r4⟩ := p4
            have k4 := synBlock_early _ _ _ _ h4 k2
            rw [h4] at e
            cases r4 with
            | some x => simp only [andThen_some] at e; cases e; exact k4
            | none =>
              simp only [andThen_none] at e
              cases h5 : textBlock s4 segment.hdr segment.text (BitVec.ofNat 32 segment.text.length) with
              | error err => rw [h5] at e; simp [B.andThen] at e
              | ok p5 =>
                obtain ⟨s5, r5⟩ := p5
                have k5 := textBlock_early _ _ _ _ _ _ h5 k4
                rw [h5] at e
                cases r5 with
                | some x => simp only [andThen_some] at e; cases e; exact k5
                | none =>
                  simp only [andThen_none] at e
                  cases h6 : finBlock s5 segment.hdr (BitVec.ofNat 32 segment.text.length) with
                  | error err => rw [h6] at e; simp at e
                  | ok p6 =>
                    obtain ⟨s6, r6⟩ := p6
                    have k6 := finBlock_early _ _ _ _ _ h6 k5
                    rw [h6] at e
                    cases r6 <;> (cases e; exact k6)

end Tcb
end Elvis.Tcp
