import Driver.Common
/-! Line-protocol handlers for C08 (sub-commands `c08` / `c08-*`). -/
namespace Driver.C08

def dispatch (_sub : String) (_i _o : IO.FS.Stream) : Option (IO Unit) := none

end Driver.C08
