import ElvisVerif.Lemmas.Codec
import ElvisVerif.Lemmas.Checksum
/-!
Bit corruption and the plain word sum (C18): flipping bit `k` of byte `i` moves the sum of the
big-endian 16-bit words by exactly `±2^k · (256 or 1)`; which single and double moves vanish
modulo 65535 is a finite table.
-/
namespace Elvis.Ck
open Elvis.Codec Elvis.Rfc1071

/-- plain sum of the big-endian words of a byte string (odd last byte padded with zero) -/
def wsum (bs : List UInt8) : Nat := (wordsOf bs).sum

/-- weight of byte `i` inside its 16-bit word -/
def weight (i : Nat) : Nat := if i % 2 = 0 then 256 else 1

/-- bit `k` (0 = least significant) of byte `i`; `false` out of range -/
def bitAt (bs : List UInt8) (i k : Nat) : Bool :=
  match bs[i]? with
  | some b => b.toNat / 2 ^ k % 2 == 1
  | none => false

/-- flip bit `k` of byte `i` (xor with `1 << k`); out of range = unchanged -/
def flipAt (bs : List UInt8) (i k : Nat) : List UInt8 :=
  match bs[i]? with
  | some b => bs.set i (b ^^^ ((1 : UInt8) <<< (UInt8.ofNat k)))
  | none => bs

/-- how far one flipped bit moves the word sum -/
def delta (i k : Nat) : Nat := weight i * 2 ^ k

theorem flip_table : ∀ n, n < 256 → ∀ k, k < 8 →
    ((UInt8.ofNat n) ^^^ ((1 : UInt8) <<< (UInt8.ofNat k))).toNat =
      if n / 2 ^ k % 2 = 1 then n - 2 ^ k else n + 2 ^ k := by
  decide +kernel

theorem flip_toNat (b : UInt8) (k : Nat) (hk : k < 8) :
    (b ^^^ ((1 : UInt8) <<< (UInt8.ofNat k))).toNat =
      if b.toNat / 2 ^ k % 2 = 1 then b.toNat - 2 ^ k else b.toNat + 2 ^ k := by
  have := flip_table b.toNat b.toNat_lt k hk
  simpa using this

/-- a set bit contributes at least its value -/
theorem bit_le_table : ∀ n, n < 256 → ∀ k, k < 8 → n / 2 ^ k % 2 = 1 → 2 ^ k ≤ n := by
  decide +kernel

theorem wsum_cons2 (a b : UInt8) (r : List UInt8) :
    wsum (a :: b :: r) = a.toNat * 256 + b.toNat + wsum r := by
  simp [wsum, wordsOf]

/-- replacing byte `i` moves the word sum by the weighted difference -/
theorem wsum_set (bs : List UInt8) (i : Nat) (b' : UInt8) (hi : i < bs.length) :
    wsum (bs.set i b') + weight i * (bs[i]).toNat = wsum bs + weight i * b'.toNat := by
  induction bs using wordsOf.induct generalizing i with
  | case1 a b rest ih =>
    match i, hi with
    | 0, _ => simp [wsum_cons2, weight]; omega
    | 1, _ => simp [wsum_cons2, weight]; omega
    | j + 2, hj =>
      have hj' : j < rest.length := by simpa using hj
      have := ih j hj'
      have hw : weight (j + 2) = weight j := by simp [weight, Nat.add_mod]
      simp only [List.set_cons_succ, wsum_cons2, List.getElem_cons_succ, hw]
      omega
  | case2 a =>
    have : i = 0 := by simpa using hi
    subst this
    simp [wsum, wordsOf, weight]; omega
  | case3 => simp at hi

/-- **one flipped bit** moves the word sum up by `delta` when the bit was clear, down when set -/
theorem wsum_flipAt (bs : List UInt8) (i k : Nat) (hi : i < bs.length) (hk : k < 8) :
    if bitAt bs i k then wsum (flipAt bs i k) + delta i k = wsum bs
    else wsum (flipAt bs i k) = wsum bs + delta i k := by
  have hget : bs[i]? = some bs[i] := List.getElem?_eq_getElem hi
  have hs := wsum_set bs i (bs[i] ^^^ ((1 : UInt8) <<< (UInt8.ofNat k))) hi
  rw [flip_toNat _ k hk] at hs
  simp only [bitAt, flipAt, hget, delta, beq_iff_eq]
  by_cases hb : bs[i].toNat / 2 ^ k % 2 = 1
  · have hle := bit_le_table bs[i].toNat bs[i].toNat_lt k hk hb
    simp only [hb, if_true] at hs ⊢
    rw [Nat.mul_sub] at hs
    have : weight i * 2 ^ k ≤ weight i * bs[i].toNat := Nat.mul_le_mul_left _ hle
    omega
  · simp only [hb, if_false] at hs ⊢
    rw [Nat.mul_add] at hs
    omega

/-- flipping bit `k` leaves every other bit of the byte alone -/
theorem other_bit_table : ∀ n, n < 256 → ∀ k, k < 8 → ∀ l, l < 8 → k = l ∨
    ((UInt8.ofNat n) ^^^ ((1 : UInt8) <<< (UInt8.ofNat k))).toNat / 2 ^ l % 2 = n / 2 ^ l % 2 := by
  decide +kernel

/-- a flip at another position does not change the bit at `(j, l)` -/
theorem bitAt_flipAt_other (bs : List UInt8) (i k j l : Nat) (hk : k < 8) (hl : l < 8)
    (hne : ¬ (i = j ∧ k = l)) : bitAt (flipAt bs i k) j l = bitAt bs j l := by
  unfold flipAt
  cases hi : bs[i]? with
  | none => rfl
  | some b =>
    simp only
    unfold bitAt
    by_cases hij : i = j
    · subst hij
      have hlt : i < bs.length := by
        cases h : bs[i]? with
        | none => simp [h] at hi
        | some _ => exact (List.getElem?_eq_some_iff.mp h).1
      have hkl : k ≠ l := fun h => hne ⟨rfl, h⟩
      have hb : b = UInt8.ofNat b.toNat := by simp
      have t := other_bit_table b.toNat b.toNat_lt k hk l hl
      rcases t with t | t
      · exact absurd t hkl
      · rw [← hb] at t
        simp only [List.getElem?_set_self hlt, hi]
        rw [t]
    · simp [List.getElem?_set_ne hij]

theorem flipAt_length (bs : List UInt8) (i k : Nat) : (flipAt bs i k).length = bs.length := by
  unfold flipAt; split <;> simp

/-- `delta` only takes the 16 values `2^j`, by parity of the byte index and bit number -/
theorem delta_eq (i k : Nat) : delta i k = (if i % 2 = 0 then 256 else 1) * 2 ^ k := rfl

/-- no single power of two below 2^16 is a multiple of 65535 -/
theorem single_table : ∀ p, p < 2 → ∀ k, k < 8 →
    ((if p = 0 then 256 else 1) * 2 ^ k) % 65535 ≠ 0 ∧ (if p = 0 then 256 else 1) * 2 ^ k < 65536 := by
  decide

/-- the 16 possible moves: `2^k` times 256 (even byte index) or 1 (odd) -/
def pw (p k : Nat) : Nat := (if p = 0 then 256 else 1) * 2 ^ k

/-- two powers of two below 2^16: their sum is never a multiple of 65535; their difference only
    when they are equal -/
theorem double_table : ∀ p, p < 2 → ∀ k, k < 8 → ∀ q, q < 2 → ∀ l, l < 8 →
    (pw p k + pw q l) % 65535 ≠ 0 ∧ (pw p k = pw q l ∨ (pw p k + 65535 - pw q l) % 65535 ≠ 0) := by
  decide +kernel

theorem delta_facts (i k : Nat) (hk : k < 8) : delta i k % 65535 ≠ 0 ∧ delta i k < 65536 := by
  have := single_table (i % 2) (Nat.mod_lt _ (by omega)) k hk
  simpa [delta, weight] using this

/-- **single-bit corruption always changes the sum modulo 65535** -/
theorem single_flip_changes (bs : List UInt8) (i k : Nat) (hi : i < bs.length) (hk : k < 8) :
    wsum (flipAt bs i k) % 65535 ≠ wsum bs % 65535 := by
  have h := wsum_flipAt bs i k hi hk
  obtain ⟨h1, h2⟩ := delta_facts i k hk
  split at h <;> omega

theorem arith_same_dir_up (s s1 s2 d e : Nat) (h1 : s1 = s + d) (h2 : s2 = s1 + e)
    (t1 : (d + e) % 65535 ≠ 0) : s2 % 65535 ≠ s % 65535 := by omega

theorem arith_same_dir_down (s s1 s2 d e : Nat) (h1 : s1 + d = s) (h2 : s2 + e = s1)
    (t1 : (d + e) % 65535 ≠ 0) : s2 % 65535 ≠ s % 65535 := by omega

theorem arith_up_down (s s1 s2 d e : Nat) (h1 : s1 = s + d) (h2 : s2 + e = s1)
    (_hd : d < 65536) (_he : e < 65536)
    (t2 : d = e ∨ (d + 65535 - e) % 65535 ≠ 0) : s2 % 65535 = s % 65535 ↔ d = e := by
  constructor
  · intro h; omega
  · intro hde; omega

theorem arith_down_up (s s1 s2 d e : Nat) (h1 : s1 + d = s) (h2 : s2 = s1 + e)
    (_hd : d < 65536) (_he : e < 65536)
    (t2 : e = d ∨ (e + 65535 - d) % 65535 ≠ 0) : s2 % 65535 = s % 65535 ↔ d = e := by
  constructor
  · intro h; omega
  · intro hde; omega

/-- **double-bit corruption**: two successive flips leave the sum unchanged modulo 65535 exactly
    when they hit the same bit position of (possibly different) 16-bit words in opposite
    directions -/
theorem double_flip_unchanged_iff (bs : List UInt8) (i k j l : Nat) (hi : i < bs.length)
    (hk : k < 8) (hj : j < bs.length) (hl : l < 8) :
    wsum (flipAt (flipAt bs i k) j l) % 65535 = wsum bs % 65535 ↔
      (delta i k = delta j l ∧ bitAt bs i k ≠ bitAt (flipAt bs i k) j l) := by
  have h1 := wsum_flipAt bs i k hi hk
  have h2 := wsum_flipAt (flipAt bs i k) j l (by rw [flipAt_length]; exact hj) hl
  have t := double_table (i % 2) (Nat.mod_lt _ (by omega)) k hk (j % 2) (Nat.mod_lt _ (by omega)) l hl
  have t' := double_table (j % 2) (Nat.mod_lt _ (by omega)) l hl (i % 2) (Nat.mod_lt _ (by omega)) k hk
  have e1 : pw (i % 2) k = delta i k := rfl
  have e2 : pw (j % 2) l = delta j l := rfl
  rw [e1, e2] at t t'
  obtain ⟨_, d1⟩ := delta_facts i k hk
  obtain ⟨_, d2⟩ := delta_facts j l hl
  cases hb1 : bitAt bs i k <;> cases hb2 : bitAt (flipAt bs i k) j l <;>
    simp only [hb1, hb2, if_true, if_false, Bool.false_eq_true] at h1 h2
  · have := arith_same_dir_up _ _ _ _ _ h1 h2 t.1
    simp [this]
  · have := arith_up_down _ _ _ _ _ h1 h2 d1 d2 t.2
    simp [this]
  · have := arith_down_up _ _ _ _ _ h1 h2 d1 d2 t'.2
    simp [this]
  · have := arith_same_dir_down _ _ _ _ _ h1 h2 t.1
    simp [this]

end Elvis.Ck
