//! C12: correspondence + oracle runs (sub-commands `c12` / `c12-*`).
use hcommon::*;

pub fn run(args: &Args) {
    eprintln!("hcore: {} not implemented yet", args.prop);
    std::process::exit(2);
}
