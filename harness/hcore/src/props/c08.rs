//! C08 (IPv4 / UDP / TCP part): generators for the header codecs.  Sub-commands `c08-ipv4`,
//! `c08-udp`, `c08-tcp`.  The same generators, with another op mix, drive C18 (`c18-*`, built
//! with `compute_checksum`) and the decoder-totality part of C14 (`c14-ipv4/udp/tcp`).
//! Executor + oracle: `c08_exec.rs`; independent reference: `c08_ref.rs`.
use super::c08_exec::{self as ex, Ip4B, TcpRef, CK};
use super::c08_ref as rf;
use super::c08_exec::hex;
use hcommon::{catch, read_ops, Args, Out, Rng};

#[derive(Clone, Copy, PartialEq, Eq)]
pub enum Mode {
    /// round trips, RFC comparison, some malformed input
    C08,
    /// + crafted sums, single/double bit corruption, accumulator sequences
    C18,
    /// malformed stream only: random bytes, truncations, field mutations, extreme lengths
    C14,
}

// ---------------- boundary-biased values ----------------

/// random bytes of a random length below `n`
pub fn rbytes(r: &mut Rng, n: u64) -> Vec<u8> {
    let l = r.below(n) as usize;
    r.bytes(l)
}
pub fn v8(r: &mut Rng) -> u8 {
    if r.chance(1, 2) { *r.pick(&[0u8, 1, 2, 0x3f, 0x40, 0x7f, 0x80, 0xfe, 0xff]) } else { r.next() as u8 }
}
pub fn v16(r: &mut Rng) -> u16 {
    if r.chance(1, 2) { *r.pick(&[0u16, 1, 2, 0xff, 0x100, 0x1fff, 0x2000, 0x7fff, 0x8000, 0xfffe, 0xffff]) } else { r.next() as u16 }
}
pub fn v32(r: &mut Rng) -> u32 {
    if r.chance(1, 2) {
        *r.pick(&[0u32, 1, 0xffff, 0x10000, 0x7fff_ffff, 0x8000_0000, 0xffff_fffe, 0xffff_ffff, 0x7f00_0001, 0x0a00_0001, 0xc0a8_0101])
    } else {
        r.next() as u32
    }
}
/// payload length: small, odd/even, MTU-sized, and the 16-bit limits (`limit` = largest that fits)
pub fn vlen(r: &mut Rng, limit: usize) -> usize {
    match r.below(50) {
        0..=19 => *r.pick(&[0usize, 1, 2, 3, 7, 8, 9, 19, 20, 21, 64, 65]),
        20..=39 => r.below(200) as usize,
        40..=47 => *r.pick(&[1460usize, 1472, 1480, 1499, 1500]),
        48 => r.below(limit as u64 + 1) as usize,
        _ => *r.pick(&[limit, limit - 1, limit - 2]),
    }
}

// ---------------- IPv4 ----------------

fn ip4_fields(r: &mut Rng) -> Ip4B {
    let plen = match r.below(10) {
        0 => 65515,
        1 => *r.pick(&[65514u16, 65513, 0, 1]),
        2 => v16(r).min(65515),
        _ => r.below(1600) as u16,
    };
    Ip4B {
        tos: v8(r) & 0xfc,
        plen,
        id: v16(r),
        fo: v16(r) & 0x1fff,
        flags: r.below(4) as u8,
        ttl: v8(r),
        proto: *r.pick(&[6u8, 17, 1, 0, 255, 89]),
        src: v32(r),
        dst: v32(r),
    }
}

/// choose `id` so that the one's-complement sum of the header words is 0xffff (RFC checksum 0)
fn ip4_craft_sum_ffff(b: &mut Ip4B) {
    b.id = 0;
    let s = rf::fold(rf::word_sum(&b.reference_bytes(false)));
    b.id = 0xffff - s;
}

/// malformed inputs derived from a valid header
fn ip4_malformed(r: &mut Rng, valid: &[u8]) -> Vec<u8> {
    let mut v = valid.to_vec();
    match r.below(10) {
        0 => rbytes(r, 41),
        1 | 2 => {
            v.truncate(r.below(v.len() as u64 + 1) as usize);
            v
        }
        3 => {
            // extreme / inconsistent total length
            let tl = *r.pick(&[0u16, 1, 4, 19, 20, 21, 0xffff]);
            v[2..4].copy_from_slice(&tl.to_be_bytes());
            v
        }
        4 => {
            v[0] = *r.pick(&[0x44u8, 0x46, 0x4f, 0x40, 0x55, 0x65, 0x05, 0xff]);
            v
        }
        5 => {
            v[1] |= 1 + r.below(3) as u8;
            v
        }
        6 => {
            v[6] |= 0x80;
            v
        }
        7 => {
            // a non-zero / wrong checksum field
            let c = v16(r);
            v[10..12].copy_from_slice(&c.to_be_bytes());
            v
        }
        8 => {
            let i = r.below(v.len() as u64) as usize;
            v[i] = r.next() as u8;
            v
        }
        _ => {
            let i = r.below(v.len() as u64 * 8) as usize;
            rf::flip(&mut v, i);
            v
        }
    }
}

pub fn gen_ipv4(r: &mut Rng, mode: Mode, case: u64, out: &mut Out) {
    let mut b = ip4_fields(r);
    if mode == Mode::C18 && r.chance(1, 4) {
        ip4_craft_sum_ffff(&mut b);
        out.count("gen.ip4.crafted_sum_ffff");
    }
    let pl = *r.pick(&[0usize, 1, 4, 13]);
    let payload = r.bytes(pl);
    let valid = b.reference_bytes(CK);
    if mode != Mode::C14 {
        ex::apply(&format!("ip4build {}", b.line()), out);
        ex::apply(&format!("ip4rt {} {}", b.line(), hex(&payload)), out);
        // the independent implementation's output (for checksums on: the RFC representation)
        let mut pkt = valid.clone();
        pkt.extend_from_slice(&payload);
        ex::apply(&format!("ip4dec {}", hex(&pkt)), out);
        if CK && valid[10] == 0 && valid[11] == 0 {
            // the other representation of zero must be accepted as well
            let mut alt = pkt.clone();
            alt[10] = 0xff;
            alt[11] = 0xff;
            ex::apply(&format!("ip4dec {}", hex(&alt)), out);
        }
        let ck = u16::from_be_bytes([valid[10], valid[11]]);
        ex::apply(&format!("ip4ser 5 {} {} {} {} {} {} {} {} {} {}", b.tos, b.plen as u32 + 20, b.id, b.fo, b.flags, b.ttl, b.proto, ck, b.src, b.dst), out);
        out.mark_nontrivial();
    }
    if mode == Mode::C08 {
        // builder / struct misuse: out-of-range inputs (error kinds and the panic site are compared
        // with the model only)
        if r.chance(1, 6) {
            let mut x = b;
            match r.below(3) {
                0 => x.plen = 65516 + r.below(20) as u16,
                1 => x.fo = 0x2000 + (v16(r) & 0xdfff).min(0xdfff),
                _ => x.flags = 4 + r.below(252) as u8,
            }
            ex::apply(&format!("ip4build {}", x.line()), out);
        }
        if r.chance(1, 8) {
            ex::apply(&format!("ip4ser {} {} {} {} {} {} {} {} {} {} {}", v8(r) & 15, v8(r), *r.pick(&[0u16, 19, 20, 21, 65535]), b.id, v16(r), v8(r), b.ttl, b.proto, v16(r), b.src, b.dst), out);
        }
        // exhaustive small tables, spread over the cases
        ex::apply(&format!("ip4tos {}", case % 256), out);
        let k = case % 64;
        ex::apply(&format!("ip4tosnew {} {} {} {}", k / 8, (k / 4) % 2, (k / 2) % 2, k % 2), out);
        ex::apply(&format!("ip4flags {} {}", (case / 2) % 2, case % 2), out);
    }
    if mode == Mode::C18 {
        // every single-bit corruption of the emitted header, and sampled double-bit ones
        if let Some(emitted) = emitted_ip4(&b) {
            if case % 8 == 0 {
                for i in 0..160 {
                    ex::apply(&format!("ip4flip {} {}", i, hex(&emitted)), out);
                }
            } else {
                for _ in 0..6 {
                    ex::apply(&format!("ip4flip {} {}", r.below(160), hex(&emitted)), out);
                }
            }
            for _ in 0..6 {
                let a = r.below(160);
                // half of the pairs share the bit position within the word (the cancelling shape)
                let c = if r.chance(1, 2) { (a + 16 * (1 + r.below(9))) % 160 } else { r.below(160) };
                ex::apply(&format!("ip4flip {},{} {}", a, c, hex(&emitted)), out);
            }
        }
        gen_cksum(r, out);
    }
    // malformed stream
    let n = match mode {
        Mode::C14 => 12,
        _ => 2,
    };
    for _ in 0..n {
        let m = ip4_malformed(r, &valid);
        ex::apply(&format!("ip4dec {}", hex(&m)), out);
    }
    if mode == Mode::C14 {
        // every truncation length of a valid packet
        if case % 16 == 0 {
            for l in 0..=valid.len() {
                ex::apply(&format!("ip4dec {}", hex(&valid[..l])), out);
            }
        }
        out.mark_nontrivial();
    }
}

fn emitted_ip4(b: &Ip4B) -> Option<Vec<u8>> {
    use elvis_core::protocols::ipv4::ipv4_parsing as ip;
    use elvis_core::protocols::ipv4::Ipv4Address;
    let b = *b;
    catch(move || ip::verif_build_header(b.tos, b.plen, b.id, b.fo, b.flags, b.ttl, b.proto, Ipv4Address::from(b.src), Ipv4Address::from(b.dst))).ok()?.ok()
}

/// sequences of accumulator operations with carries, odd tails and crafted totals
pub fn gen_cksum(r: &mut Rng, out: &mut Out) {
    let n = r.below(6) as usize;
    let mut items: Vec<String> = vec![];
    let mut data: Vec<u8> = vec![];
    for _ in 0..n {
        match r.below(4) {
            0 => {
                let v = v16(r);
                items.push(format!("h:{}", v));
                data.extend_from_slice(&v.to_be_bytes());
            }
            1 => {
                let (a, b) = (v8(r), v8(r));
                items.push(format!("b:{}:{}", a, b));
                data.push(a);
                data.push(b);
            }
            2 => {
                let v = v32(r);
                items.push(format!("w:{}", v));
                data.extend_from_slice(&v.to_be_bytes());
            }
            _ => {
                let l = *r.pick(&[0usize, 1, 2, 3, 5, 8]);
                let b = if r.chance(1, 3) { vec![0xffu8; l] } else { r.bytes(l) };
                items.push(format!("r:{}", hex(&b)));
                data.extend_from_slice(&b);
                if l % 2 == 1 {
                    data.push(0);
                }
            }
        }
    }
    // crafted: complete the running total to 0xffff, to 0x0000 (only from zeros) or to one past
    match r.below(4) {
        0 => items.push(format!("h:{}", 0xffff - rf::fold(rf::word_sum(&data)))),
        1 => items.push(format!("h:{}", (0xffffu16 - rf::fold(rf::word_sum(&data))).wrapping_add(1))),
        2 => {
            items.clear();
            items.push(format!("r:{}", hex(&vec![0u8; r.below(5) as usize])));
            items.push("h:0".into());
        }
        _ => {}
    }
    ex::apply(&format!("cksum {}", items.join(" ")), out);
}

// ---------------- UDP ----------------

fn udp_text(r: &mut Rng, mode: Mode) -> Vec<u8> {
    let l = if mode == Mode::C14 { r.below(40) as usize } else { vlen(r, 65527) };
    if r.chance(1, 6) { vec![*r.pick(&[0u8, 0xff]); l] } else { r.bytes(l) }
}

fn udp_malformed(r: &mut Rng, valid: &[u8]) -> (Vec<u8>, usize) {
    let mut v = valid.to_vec();
    let plen = v.len();
    match r.below(9) {
        0 => {
            let b = rbytes(r, 30);
            let l = b.len();
            (b, l)
        }
        1 | 2 => {
            v.truncate(r.below(v.len() as u64 + 1) as usize);
            let l = if r.chance(1, 2) { v.len() } else { plen };
            (v, l)
        }
        3 => {
            let l = *r.pick(&[0u16, 1, 7, 8, 9, 0xffff]);
            v[4..6].copy_from_slice(&l.to_be_bytes());
            (v, plen)
        }
        4 => (v, *r.pick(&[0usize, 7, 8, plen + 1, plen.saturating_sub(1), 65535, 65536, usize::MAX])),
        5 => {
            let c = v16(r);
            v[6..8].copy_from_slice(&c.to_be_bytes());
            (v, plen)
        }
        6 => {
            let i = r.below(v.len() as u64) as usize;
            v[i] = r.next() as u8;
            (v, plen)
        }
        7 => {
            v.push(r.next() as u8);
            (v, plen)
        }
        _ => {
            let i = r.below(v.len() as u64 * 8) as usize;
            rf::flip(&mut v, i);
            (v, plen)
        }
    }
}

pub fn gen_udp(r: &mut Rng, mode: Mode, case: u64, out: &mut Out) {
    let (src, dst, mut sport, dport) = (v32(r), v32(r), v16(r), v16(r));
    let text = udp_text(r, mode);
    if mode == Mode::C18 && r.chance(1, 4) {
        // source port such that the one's-complement sum over everything is 0xffff
        let h = ex::udp_reference(src, 0, dst, dport, &text, false);
        let mut seg = h.clone();
        seg.extend_from_slice(&text);
        let s = rf::fold(rf::word_sum(&rf::with_pseudo(src, dst, 17, seg.len() as u16, &seg)));
        sport = 0xffff - s;
        out.count("gen.udp.crafted_sum_ffff");
    }
    let mut valid = ex::udp_reference(src, sport, dst, dport, &text, CK);
    valid.extend_from_slice(&text);
    let small = text.len() <= 64;
    if mode != Mode::C14 {
        ex::apply(&format!("udpbuild {} {} {} {} {} {}", src, sport, dst, dport, text.len(), hex(&text)), out);
        if text.len() <= 4096 {
            ex::apply(&format!("udprt {} {} {} {} {}", src, sport, dst, dport, hex(&text)), out);
        }
        ex::apply(&format!("udpdec {} {} {} {}", valid.len(), src, dst, hex(&valid)), out);
        if CK {
            // a conforming sender that does not compute the checksum (RFC 768: field zero)
            let mut nock = valid.clone();
            nock[6] = 0;
            nock[7] = 0;
            if r.chance(1, 8) {
                ex::apply(&format!("udpdec {} {} {} {}", nock.len(), src, dst, hex(&nock)), out);
            }
        }
        out.mark_nontrivial();
    }
    if mode == Mode::C08 && r.chance(1, 6) {
        // length limits of the builder: first length that does not fit, inconsistent text_len,
        // usize overflow
        let tl = *r.pick(&[65527usize, 65528, 65529, 100000, usize::MAX - 8, usize::MAX - 7, usize::MAX]);
        let t = rbytes(r, 6);
        ex::apply(&format!("udpbuild {} {} {} {} {} {}", src, sport, dst, dport, tl, hex(&t)), out);
    }
    if mode == Mode::C18 {
        let nbits = valid.len() * 8;
        if small && case % 4 == 0 {
            for i in 0..nbits {
                ex::apply(&format!("udpflip {} {} {} {} {}", i, valid.len(), src, dst, hex(&valid)), out);
            }
        } else if valid.len() <= 4096 {
            for _ in 0..4 {
                ex::apply(&format!("udpflip {} {} {} {} {}", r.below(nbits as u64), valid.len(), src, dst, hex(&valid)), out);
            }
        }
        if valid.len() <= 4096 {
            for _ in 0..4 {
                let a = r.below(nbits as u64);
                let c = if r.chance(1, 2) { (a + 16 * (1 + r.below(nbits as u64 / 16))) % nbits as u64 } else { r.below(nbits as u64) };
                ex::apply(&format!("udpflip {},{} {} {} {} {}", a, c, valid.len(), src, dst, hex(&valid)), out);
            }
        }
    }
    let n = if mode == Mode::C14 { 12 } else { 2 };
    let base: Vec<u8> = if valid.len() > 200 { valid[..200].to_vec() } else { valid.clone() };
    for _ in 0..n {
        let (m, plen) = udp_malformed(r, &base);
        ex::apply(&format!("udpdec {} {} {} {}", plen, src, dst, hex(&m)), out);
    }
    if mode == Mode::C14 {
        if case % 16 == 0 {
            for l in 0..=base.len().min(24) {
                ex::apply(&format!("udpdec {} {} {} {}", l, src, dst, hex(&base[..l])), out);
            }
        }
        out.mark_nontrivial();
    }
}

// ---------------- TCP ----------------

fn tcp_setters(r: &mut Rng, case: u64, rf_: &mut TcpRef) -> String {
    // all 64 flag combinations, spread over the cases; order of the setters shuffled
    let k = case % 64;
    let mut s: Vec<String> = vec![];
    if r.chance(3, 4) {
        rf_.wnd = v16(r);
        s.push(format!("wnd={}", rf_.wnd));
    }
    if k & 32 != 0 {
        rf_.urgp = v16(r);
        rf_.urg = true;
        s.push(format!("urg={}", rf_.urgp));
    }
    if k & 16 != 0 {
        rf_.ack = v32(r);
        rf_.ackf = true;
        s.push(format!("ack={}", rf_.ack));
    }
    if k & 8 != 0 {
        rf_.psh = true;
        s.push("psh".into());
    }
    if k & 4 != 0 {
        rf_.rst = true;
        s.push("rst".into());
    }
    if k & 2 != 0 {
        rf_.syn = true;
        s.push("syn".into());
    }
    if k & 1 != 0 {
        rf_.fin = true;
        s.push("fin".into());
    }
    for i in (1..s.len()).rev() {
        let j = r.below(i as u64 + 1) as usize;
        s.swap(i, j);
    }
    if s.is_empty() { "-".into() } else { s.join(",") }
}

fn tcp_malformed(r: &mut Rng, valid: &[u8]) -> (Vec<u8>, usize) {
    let mut v = valid.to_vec();
    let plen = v.len();
    match r.below(10) {
        0 => {
            let b = rbytes(r, 50);
            let l = b.len();
            (b, l)
        }
        1 | 2 => {
            v.truncate(r.below(v.len() as u64 + 1) as usize);
            let l = if r.chance(1, 2) { v.len() } else { plen };
            (v, l)
        }
        3 => {
            // data offset other than 5, reserved bits
            v[12] = *r.pick(&[0x00u8, 0x40, 0x60, 0xf0, 0x51, 0x5f, 0x05]);
            (v, plen)
        }
        4 => (v, *r.pick(&[0usize, 19, 20, plen + 1, 65535, 65536, 1 << 32, usize::MAX])),
        5 => {
            let c = v16(r);
            v[16..18].copy_from_slice(&c.to_be_bytes());
            (v, plen)
        }
        6 => {
            // ECN / reserved control bits (RFC 9293: CWR, ECE)
            v[13] |= *r.pick(&[0x40u8, 0x80, 0xc0]);
            (v, plen)
        }
        7 => {
            let i = r.below(v.len() as u64) as usize;
            v[i] = r.next() as u8;
            (v, plen)
        }
        8 => {
            v.push(r.next() as u8);
            (v, plen)
        }
        _ => {
            let i = r.below(v.len() as u64 * 8) as usize;
            rf::flip(&mut v, i);
            (v, plen)
        }
    }
}

pub fn gen_tcp(r: &mut Rng, mode: Mode, case: u64, out: &mut Out) {
    let (src, dst) = (v32(r), v32(r));
    let mut t = TcpRef { sp: v16(r), dp: v16(r), seq: v32(r), doff: 5, ..Default::default() };
    let setters = tcp_setters(r, case, &mut t);
    let l = if mode == Mode::C14 { r.below(40) as usize } else { vlen(r, 65515) };
    let text = if r.chance(1, 6) { vec![*r.pick(&[0u8, 0xff]); l] } else { r.bytes(l) };
    let mut setters = setters;
    if mode == Mode::C18 && r.chance(1, 4) && !setters.contains("wnd=") {
        // window such that the one's-complement sum over everything is 0xffff
        t.wnd = 0;
        let mut seg = t.bytes();
        seg.extend_from_slice(&text);
        let s = rf::fold(rf::word_sum(&rf::with_pseudo(src, dst, 6, seg.len() as u16, &seg)));
        t.wnd = 0xffff - s;
        setters = if setters == "-" { format!("wnd={}", t.wnd) } else { format!("{},wnd={}", setters, t.wnd) };
        out.count("gen.tcp.crafted_sum_ffff");
    }
    let refh = if CK { t.with_checksum(src, dst, &text) } else { t };
    let mut valid = refh.bytes();
    valid.extend_from_slice(&text);
    let small = text.len() <= 44;
    if mode != Mode::C14 {
        ex::apply(&format!("tcpbuild {} {} {} {} {} {} {} {}", t.sp, t.dp, t.seq, setters, src, dst, text.len(), hex(&text)), out);
        if text.len() <= 4096 {
            ex::apply(&format!("tcprt {} {} {} {} {} {} {}", t.sp, t.dp, t.seq, setters, src, dst, hex(&text)), out);
        }
        // the independent implementation's output
        ex::apply(&format!("tcpdec {} {} {} {}", valid.len(), src, dst, hex(&valid)), out);
        if CK && refh.cksum == 0 {
            let mut alt = valid.clone();
            alt[16] = 0xff;
            alt[17] = 0xff;
            ex::apply(&format!("tcpdec {} {} {} {}", alt.len(), src, dst, hex(&alt)), out);
        }
        out.mark_nontrivial();
    }
    if mode == Mode::C08 {
        ex::apply(&format!("tcpser {} {} {} {} {} {} {} {} {}", t.sp, t.dp, t.seq, t.ack, if r.chance(1, 4) { v8(r) } else { 5 }, case % 256, t.wnd, t.urgp, v16(r)), out);
        let k = case % 64;
        ex::apply(&format!("tcpctl {} {} {} {} {} {}", k >> 5 & 1, k >> 4 & 1, k >> 3 & 1, k >> 2 & 1, k >> 1 & 1, k & 1), out);
        ex::apply(&format!("tcpbits {}", case % 256), out);
        if r.chance(1, 6) {
            let tl = *r.pick(&[65515usize, 65516, 65517, 100000, usize::MAX - 20, usize::MAX - 19, usize::MAX]);
            let tx = rbytes(r, 6);
            ex::apply(&format!("tcpbuild {} {} {} {} {} {} {} {}", t.sp, t.dp, t.seq, setters, src, dst, tl, hex(&tx)), out);
        }
        // a conforming peer may set the reserved / ECN bits: accepted, re-encoding loses them
        if r.chance(1, 5) && !CK {
            let mut e = valid.clone();
            if r.chance(1, 2) {
                e[13] |= *r.pick(&[0x40u8, 0x80, 0xc0]);
            } else {
                e[12] |= 1 + r.below(15) as u8;
            }
            ex::apply(&format!("tcpdec {} {} {} {}", e.len(), src, dst, hex(&e)), out);
        }
    }
    if mode == Mode::C18 {
        let nbits = valid.len() * 8;
        if small && case % 4 == 0 {
            for i in 0..nbits {
                ex::apply(&format!("tcpflip {} {} {} {} {}", i, valid.len(), src, dst, hex(&valid)), out);
            }
        } else if valid.len() <= 4096 {
            for _ in 0..4 {
                ex::apply(&format!("tcpflip {} {} {} {} {}", r.below(nbits as u64), valid.len(), src, dst, hex(&valid)), out);
            }
        }
        if valid.len() <= 4096 {
            for _ in 0..4 {
                let a = r.below(nbits as u64);
                let c = if r.chance(1, 2) { (a + 16 * (1 + r.below(nbits as u64 / 16))) % nbits as u64 } else { r.below(nbits as u64) };
                ex::apply(&format!("tcpflip {},{} {} {} {} {}", a, c, valid.len(), src, dst, hex(&valid)), out);
            }
        }
    }
    let n = if mode == Mode::C14 { 12 } else { 2 };
    let base: Vec<u8> = if valid.len() > 200 { valid[..200].to_vec() } else { valid.clone() };
    for _ in 0..n {
        let (m, plen) = tcp_malformed(r, &base);
        ex::apply(&format!("tcpdec {} {} {} {}", plen, src, dst, hex(&m)), out);
    }
    if mode == Mode::C14 {
        if case % 16 == 0 {
            for l in 0..=base.len().min(30) {
                ex::apply(&format!("tcpdec {} {} {} {}", l, src, dst, hex(&base[..l])), out);
            }
        }
        out.mark_nontrivial();
    }
}

// ---------------- entry points ----------------

pub const RULE: &str = "one case = one random header (every field over its full range, boundary biased; payload lengths 0/odd/even/MTU/16-bit limit; all 64 TCP flag combinations, 256 TOS bytes and 4 IPv4 flag values cycled by case number) pushed through build, build+decode, decode of the independent RFC encoding, re-serialisation, plus malformed variants (random bytes, truncations, single-field mutations, extreme lengths); C18 adds crafted one's-complement sums 0xffff/0x0000, every single-bit and sampled double-bit corruption and accumulator op sequences; every case with a valid header is non-trivial; distinct = hash of its op lines";

pub fn run_proto(args: &Args, proto: &str, mode: Mode) {
    let mut out = Out::new(&args.out);
    out.max_samples = 2;
    ex::REENCODE_ORACLE.store(mode == Mode::C08, std::sync::atomic::Ordering::Relaxed);
    if let Some(rp) = &args.replay {
        out.begin_case(0);
        out.mark_nontrivial();
        for l in read_ops(rp) {
            if l.starts_with("case ") {
                continue;
            }
            ex::apply(&l, &mut out);
        }
        out.end_case();
        out.finish(RULE);
        return;
    }
    let mut rng = Rng::new(args.seed);
    for c in 0..args.cases {
        let mut r = rng.fork();
        out.begin_case(c);
        ex::apply("ck", &mut out);
        match proto {
            "ipv4" => gen_ipv4(&mut r, mode, c, &mut out),
            "udp" => gen_udp(&mut r, mode, c, &mut out),
            "tcp" => gen_tcp(&mut r, mode, c, &mut out),
            _ => {}
        }
        out.end_case();
    }
    out.finish(RULE);
}

pub fn run(args: &Args) {
    match args.prop.as_str() {
        "c08-ipv4" => run_proto(args, "ipv4", Mode::C08),
        "c08-udp" => run_proto(args, "udp", Mode::C08),
        "c08-tcp" => run_proto(args, "tcp", Mode::C08),
        p => {
            eprintln!("hcore: {} not implemented (another builder owns the ARP/DNS/DHCP sub-commands)", p);
            std::process::exit(2);
        }
    }
}
