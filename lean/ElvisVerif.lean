import ElvisVerif.Model.Message
