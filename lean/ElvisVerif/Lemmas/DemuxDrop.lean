import ElvisVerif.Model.RecvPath
import ElvisVerif.Props.C14a
import ElvisVerif.Lemmas.Ipv4
import ElvisVerif.Lemmas.Udp
import ElvisVerif.Lemmas.Tcp
import ElvisVerif.Lemmas.Tcb
import ElvisVerif.Lemmas.Reasm
/-!
# Lemmas for the composed receive path (`Model/RecvPath.lean`)

* what an accepting decoder says about the length of its input (the `remove_front`
  preconditions);
* the fresh reassembler of `Ipv4::demux` cannot panic behind the fragment guard;
* `segment_arrives_listen` cannot panic;
* shapes of `Demux.udpDemux`.
-/
namespace Elvis.Recv
open Elvis.Codec Elvis.Demux

/-! ## decoders: a decoder error is never a panic -/

theorem ipv4_error_is_err {ck : Bool} {bs : Bytes} {e : Fail Ipv4.ParseError}
    (h : Ipv4.fromBytes ck bs = .error e) : ∃ k, e = .err k := by
  cases e with
  | err k => exact ⟨k, rfl⟩
  | panic s => have := c14_ipv4_total ck bs; rw [h] at this; cases this

theorem udp_error_is_err {ck : Bool} {bs : Bytes} {n a b : Nat} {e : Fail Udp.ParseError}
    (h : Udp.fromBytes ck bs n a b = .error e) : ∃ k, e = .err k := by
  cases e with
  | err k => exact ⟨k, rfl⟩
  | panic s => have := c14_udp_total ck bs n a b; rw [h] at this; cases this

theorem tcp_error_is_err {ck : Bool} {bs : Bytes} {n a b : Nat} {e : Fail Codec.Tcp.ParseError}
    (h : Codec.Tcp.fromBytes ck bs n a b = .error e) : ∃ k, e = .err k := by
  cases e with
  | err k => exact ⟨k, rfl⟩
  | panic s => have := c14_tcp_total ck bs n a b; rw [h] at this; cases this

/-! ## decoders: what acceptance says about the input -/

/-- an accepted IPv4 header: 20 octets were there, IHL is 5, `20 ≤ total length < 2^16`,
    fragment offset `< 2^13` -/
theorem ipv4_ok_facts {ck : Bool} {bs : Bytes} {h : Ipv4.Header} (e : Ipv4.fromBytes ck bs = .ok h) :
    h.ihl = 5 ∧ 20 ≤ bs.length ∧ 20 ≤ h.totalLength ∧ h.totalLength < 65536 ∧ h.fragmentOffset < 8192 := by
  obtain ⟨b0, b1, b2, b3, b4, b5, b6, b7, b8, b9, b10, b11, b12, b13, b14, b15, b16, b17, b18, b19,
    rest, rfl, _, _, h20, _, _, rfl⟩ := Ipv4.fromBytes_ok_inv e
  refine ⟨rfl, by simp, h20, Codec.W_lt b2 b3, ?_⟩
  exact Nat.mod_lt _ (by decide)

theorem udp_ok_len {ck : Bool} {bs : Bytes} {n a b : Nat} {h : Udp.Header}
    (e : Udp.fromBytes ck bs n a b = .ok h) : 8 ≤ bs.length := by
  obtain ⟨b0, b1, b2, b3, b4, b5, b6, b7, rest, rfl, _⟩ := Udp.fromBytes_ok_inv e
  simp

theorem tcp_ok_len {ck : Bool} {bs : Bytes} {n a b : Nat} {h : Codec.Tcp.Header}
    (e : Codec.Tcp.fromBytes ck bs n a b = .ok h) : 20 ≤ bs.length ∧ h.dataOffset = 5 := by
  obtain ⟨b0, b1, b2, b3, b4, b5, b6, b7, b8, b9, b10, b11, b12, b13, b14, b15, b16, b17, b18, b19,
    rest, rfl, _, _, _, rfl⟩ := Codec.Tcp.fromBytes_ok_inv e
  exact ⟨by simp, rfl⟩

/-! ## the fresh reassembler behind the fragment guard -/

open Elvis.Reasm in
/-- a lone fragment that starts beyond block 0 leaves block 0 unset: the buffer cannot be complete -/
theorem not_complete_of_offset_pos (fo e n : Nat) (hfo : 0 < fo) (hn : 0 < n) :
    complete (setRange 0 fo e) n = false := by
  cases hc : complete (setRange 0 fo e) n with
  | false => rfl
  | true =>
    have := (complete_iff _ _).1 hc 0 hn
    rw [bitGet_setRange, bitGet_zero] at this
    simp at this
    omega

open Elvis.Reasm Elvis.Frag in
/-- `Reassembly::receive_packet` on the reassembler `Ipv4::demux` has just created, for a header
    the decoder accepted (`IHL = 5`, `20 ≤ TL`) and the guard of fix 2a82fb5c let through:
    no checked operation of `reassembly/segment.rs` overflows, no `unwrap` fails -/
theorem fresh_receive_ok (h : Elvis.Frag.Hdr) (body : Bytes) (hihl : h.ihl = 5) (htl : 20 ≤ h.totalLength)
    (hguard : h.fragOffset * 8 + (h.totalLength - 20) ≤ 65515) :
    ∃ r res, Reassembly.receive Cfg.fixed Reassembly.new h body = .ok (r, res) := by
  unfold Reassembly.receive
  dsimp only
  split
  · exact ⟨_, _, rfl⟩
  · rename_i hnw
    have hb : Reassembly.bufferFor Cfg.fixed Reassembly.new (BufId.ofHdr h) = Segment.newAt 0 := by
      simp [Reassembly.bufferFor, Reassembly.new, Elvis.Reasm.lookup, Cfg.fixed]
    rw [hb]
    unfold Reassembly.receiveInto
    have key : ∃ s' o, Segment.receive Cfg.fixed (Segment.newAt 0) h body = .ok (s', o) := by
      unfold Segment.receive
      dsimp only
      rw [hihl]
      have a1 : ¬ h.totalLength < 5 * 4 := by omega
      have a2 : ¬ 65535 < h.totalLength - 5 * 4 + 7 := by omega
      have a3 : ¬ 65535 < h.fragOffset + (h.totalLength - 5 * 4 + 7) / 8 := by omega
      rw [if_neg a1, if_neg a2, if_neg a3]
      have a4 : (isLast h.flags && decide (65535 < h.fragOffset * 8)) = false := by
        have : ¬ 65535 < h.fragOffset * 8 := by omega
        simp [this]
      have a5 : (isLast h.flags && decide (65535 < h.totalLength - 5 * 4 + h.fragOffset * 8)) = false := by
        have : ¬ 65535 < h.totalLength - 5 * 4 + h.fragOffset * 8 := by omega
        simp [this]
      simp only [a4, a5, Bool.false_eq_true, if_false]
      -- the total data length known so far
      generalize htdl : (if isLast h.flags = true then h.totalLength - 5 * 4 + h.fragOffset * 8
        else (Segment.newAt 0).tdl) = tdl
      have htd : tdl ≤ 65515 := by
        rw [← htdl]; split
        · omega
        · simp [Segment.newAt]
      have a6 : (decide (tdl ≠ 0) && decide (65535 < tdl + 7)) = false := by
        have : ¬ 65535 < tdl + 7 := by omega
        simp [this]
      simp only [a6, Bool.false_eq_true, if_false]
      by_cases hc : (decide (tdl ≠ 0) && complete (setRange (Segment.newAt 0).blocks h.fragOffset
          (h.fragOffset + (h.totalLength - 5 * 4 + 7) / 8)) ((tdl + 7) / 8)) = true
      · -- complete: only possible with offset 0, then the header is there
        rw [if_pos hc]
        simp only [Bool.and_eq_true, decide_eq_true_eq, ne_eq] at hc
        by_cases hfo : h.fragOffset = 0
        · simp only [hfo, if_true]
          have a7 : ¬ 65535 < tdl + 5 * 4 := by omega
          rw [hihl, if_neg a7]
          exact ⟨_, _, rfl⟩
        · exfalso
          have hpos : 0 < (tdl + 7) / 8 := by omega
          have := not_complete_of_offset_pos h.fragOffset
            (h.fragOffset + (h.totalLength - 5 * 4 + 7) / 8) ((tdl + 7) / 8) (by omega) hpos
          have hblk : (Segment.newAt 0).blocks = 0 := rfl
          rw [hblk] at hc
          rw [this] at hc
          exact absurd hc.2 (by simp)
      · rw [if_neg hc]
        have a8 : (decide (65535 ≤ (Segment.newAt 0).epoch) && !Cfg.fixed.floor) = false := by
          simp [Cfg.fixed]
        simp only [a8, Bool.false_eq_true, if_false]
        exact ⟨_, _, rfl⟩
    obtain ⟨s', o, hk⟩ := key
    rw [hk]
    cases o with
    | none => exact ⟨_, _, rfl⟩
    | some v => obtain ⟨hd, msg⟩ := v; exact ⟨_, _, rfl⟩

open Elvis.Reasm Elvis.Frag in
/-- an unfragmented datagram goes straight through the fresh reassembler -/
theorem fresh_receive_whole (h : Elvis.Frag.Hdr) (body : Bytes)
    (hw : (isLast h.flags && h.fragOffset == 0) = true) :
    ∃ r, Reassembly.receive Cfg.fixed Reassembly.new h body = .ok (r, .complete h body) := by
  have hw' : isLast h.flags = true ∧ h.fragOffset = 0 := by simpa using hw
  unfold Reassembly.receive
  dsimp only
  rw [if_pos (by simp [hw'.1, hw'.2])]
  exact ⟨_, rfl⟩

/-! ## LISTEN never panics -/

theorem listen_ok (seg : Elvis.Tcp.Segment) (iss : Elvis.Tcp.Seq) (mtu : Elvis.Tcp.U16) :
    ∃ r, Elvis.Tcp.segmentArrivesListen seg iss mtu = .ok r := by
  unfold Elvis.Tcp.segmentArrivesListen
  dsimp only
  split
  · exact ⟨_, rfl⟩
  · split
    · exact ⟨_, rfl⟩
    · split
      · rw [Elvis.Tcp.Tcb.enqueue_eq]
        exact ⟨_, rfl⟩
      · exact ⟨_, rfl⟩

/-! ## `Demux.udpDemux` with a decoded header -/

theorem udpDemux_some_cases (m : Demux.Machine) (ih : IpHdr) (u : UdpHdr) (body : Bytes) (slot : Nat) :
    (∃ d, Demux.udpDemux m ih (some u) body slot = .ok d) ∨
    Demux.udpDemux m ih (some u) body slot = .error .udpMissingSession ∨
    (Demux.udpDemux m ih (some u) body slot = .error .panicNoUpstream ∧
      ∃ e app, lookup e m.udp = some app ∧ app ∉ m.protocols) := by
  unfold Demux.udpDemux
  dsimp only
  split
  · rename_i app hl
    unfold udpSessionReceive
    by_cases hp : app ∈ m.protocols
    · left; rw [if_pos hp]; exact ⟨_, rfl⟩
    · right; right; rw [if_neg hp]; exact ⟨rfl, _, _, hl, hp⟩
  · split
    · rename_i app hl
      unfold udpSessionReceive
      by_cases hp : app ∈ m.protocols
      · left; rw [if_pos hp]; exact ⟨_, rfl⟩
      · right; right; rw [if_neg hp]; exact ⟨rfl, _, _, hl, hp⟩
    · right; left; rfl

end Elvis.Recv
