import Driver.Common
/-! Line-protocol handlers for C06 (sub-commands `c06` / `c06-*`). -/
namespace Driver.C06

def dispatch (_sub : String) (_i _o : IO.FS.Stream) : Option (IO Unit) := none

end Driver.C06
