import ElvisVerif.Lemmas.TcpConvCalm
/-!
# After loss: one fair round from a calm state

`phase_first`: both sides calm with every queue entry flagged (the state right after both retransmission
timers expired): the exchange phase succeeds and ends in a steady state (`Lemmas/TcpConvSteady.lean`) —
each side re-sends its whole retransmission queue plus what the window admits of new data, the
receiver answers old segments with ACKs, takes the rest in order, and everything sent is received.

`fairRound_calm`: from a calm state, one fair round of `2n + 2` phases ends `Done` when at most
`65535 · n` bytes are unsent on either side.
-/
namespace Elvis.Tcp
open Tcb Elvis.ModCmp

structure CalmX (t : Tcb) : Prop where
  st : t.state = .Established
  heap : t.incoming.segments = []
  buf : t.incoming.text = []
  one : t.outgoing.oneshot = []
  una : t.snd.una ≠ t.snd.iss
  mtu : SPACE_FOR_HEADERS < t.mtu.toNat
  tmo : t.timeouts.retransmission ≤ RTO

structure Calm (s : Sys) (ta tb : Tcb) : Prop where
  ha : s.a.tcb = some ta
  hb : s.b.tcb = some tb
  a : CalmX ta
  b : CalmX tb

section
variable {iss : SideId → Seq} {s : Sys}

/-- in ESTABLISHED with the SYN acknowledged every queue entry is plain data -/
theorem rtx_entry_facts (hg : Good iss s) (x : SideId) (t : Tcb) (ht : (s.side x).tcb = some t) (hu : t.snd.una ≠ t.snd.iss) :
    ∀ tr ∈ t.outgoing.retransmit, tr.segment.text ≠ [] ∧ tr.segment.text.length ≤ 65535 ∧
      tr.segment.hdr.ctl.rst = false ∧ tr.segment.hdr.ctl.ack = true := by
  intro tr htr
  obtain ⟨v, _⟩ := (hg.tinv x t ht).rtx tr.segment (List.mem_map.2 ⟨tr, htr, rfl⟩)
  obtain ⟨hpos, hk⟩ := (hg.ext.tcb x t ht).keep tr htr
  have hN := hg.sent_lt x t ht
  have hiss := hg.iss_eq x t ht
  have hule := una_le_sent_of_conv hg.conv x t ht
  have hsyn : tr.segment.hdr.ctl.syn = false := by
    cases h : tr.segment.hdr.ctl.syn with
    | false => rfl
    | true =>
      exfalso
      obtain ⟨hseq, htext⟩ := v.syn h
      have hsl : tr.segment.segLen = 1 := by unfold Segment.segLen; rw [htext, h, v.fin]; rfl
      unfold keepFor at hk
      rw [hsl, hseq, ← hiss] at hk
      have o1 : off t.snd.iss (t.snd.iss + BitVec.ofNat 32 1) = 1 := by
        rw [off_add _ _ _ (by rw [off_self]; omega), off_self]
      have := (modLt_iff_off t.snd.iss t.snd.una _ (by omega) (by rw [o1]; omega)).1 hk
      rw [o1] at this
      exact hu (off_inj (base := t.snd.iss) (by rw [off_self]; omega))
  have htext : tr.segment.text ≠ [] := by
    intro h0
    unfold Segment.segLen at hpos
    rw [h0, hsyn, v.fin] at hpos
    simp at hpos
  have hlen := ((hg.ext.wf.side x).1 t ht).2.2 tr htr
  have hlen' : tr.segment.text.length ≤ 65535 := by
    have : MAX_PAYLOAD = 65515 := rfl
    omega
  refine ⟨htext, hlen', (hg.conv.nr.tcb x t ht).rtx tr htr, ?_⟩
  rcases (hg.ext.tcb x t ht).rtxa tr htr with h | h
  · exact h
  · rw [hsyn] at h; cases h

/-- the whole queue starts at or before `SND.UNA`, `rtxBytes` before `SND.NXT` -/
theorem queue_start (hg : Good iss s) (x : SideId) (t : Tcb) (ht : (s.side x).tcb = some t) (hst : t.state = .Established)
    (hu : t.snd.una ≠ t.snd.iss) :
    off (iss x) (t.snd.nxt - BitVec.ofNat 32 (rtxBytes t.outgoing.retransmit)) + rtxBytes t.outgoing.retransmit = t.sent ∧
    off (iss x) (t.snd.nxt - BitVec.ofNat 32 (rtxBytes t.outgoing.retransmit)) ≤ off (iss x) t.snd.una ∧
    rtxBytes t.outgoing.retransmit ≤ 65535 := by
  have hN := hg.sent_lt x t ht
  have hiss := hg.iss_eq x t ht
  have si : SndInv t := (hg.ext.tcb x t ht).snd (seg_of_established hst)
  have hule := una_le_sent_of_conv hg.conv x t ht
  rw [hiss] at hule
  have hB := si.bytes
  have hsum : off (iss x) (t.snd.nxt - BitVec.ofNat 32 (rtxBytes t.outgoing.retransmit)) + rtxBytes t.outgoing.retransmit = t.sent := by
    cases hl : t.outgoing.retransmit with
    | nil =>
      simp only [rtxBytes_nil, BitVec.sub_zero, Nat.add_zero]
      unfold sent; rw [hiss]
    | cons tr rest =>
      have facts := rtx_entry_facts hg x t ht hu
      have cr := chain_catchRun t.snd.nxt t.outgoing.retransmit si.chain facts
      rw [hl] at cr
      simp only [List.map_cons, CatchRun] at cr
      have hm : tr ∈ t.outgoing.retransmit := by rw [hl]; exact List.mem_cons_self
      obtain ⟨hpos, _⟩ := (hg.ext.tcb x t ht).keep tr hm
      have hb := (((hg.conv.full.inv.link x).snd t ht).1.queue tr hm).len hpos
      rw [hiss, cr.1] at hb
      rw [← hl]
      have e : t.snd.nxt - BitVec.ofNat 32 (rtxBytes t.outgoing.retransmit) + BitVec.ofNat 32 (rtxBytes t.outgoing.retransmit)
          = t.snd.nxt := by
        generalize BitVec.ofNat 32 (rtxBytes t.outgoing.retransmit) = y
        bv_omega
      have := off_add (iss x) (t.snd.nxt - BitVec.ofNat 32 (rtxBytes t.outgoing.retransmit)) (rtxBytes t.outgoing.retransmit)
        (by rw [hl] at hB ⊢; omega)
      rw [e] at this
      unfold sent
      rw [hiss, this]
  refine ⟨hsum, ?_, hB⟩
  have hc := si.cover
  have hsp : synPending t = 0 := by unfold synPending; rw [if_neg hu]
  rw [hsp, sub_toNat_off (iss x) t.snd.nxt t.snd.una (by unfold sent at hule; rw [hiss] at hule; exact hule)] at hc
  have : off (iss x) t.snd.nxt = t.sent := by unfold sent; rw [hiss]
  omega

end

/-- **what one side gets out of the first phase after loss** -/
theorem side_outcome_first {iss : SideId → Seq} {s s2 : Sys} (hg : Good iss s) (hg2 : Good iss s2) (y : SideId)
    (ty ty1 tx tx1 : Tcb) (newY newX : List Transmit) (outY outX : List Segment)
    (hty : (s.side y).tcb = some ty) (htx : (s.side y.peer).tcb = some tx)
    (hty1 : (s2.side y).tcb = some ty1)
    (fY : EmitFx ty newY ty1 outY) (fX : EmitFx tx newX tx1 outX) (CY : CalmX ty) (CX : CalmX tx)
    (hflag : ∀ tr ∈ tx.outgoing.retransmit, tr.needsTransmit = true) :
    ∃ ty2, ty1.arriveList outX = .ok ty2 ∧ ty2.state = .Established ∧ ty2.incoming.segments = [] ∧
      ty2.rcv.nxt = tx1.snd.nxt ∧ ty2.snd.nxt = ty1.snd.nxt ∧ ty2.mtu = ty.mtu ∧
      (∀ tr ∈ ty2.outgoing.retransmit, tr.needsTransmit = false) ∧
      ty2.outgoing.text = ty.outgoing.text.drop (emitAmount ty) ∧
      off (iss y) ty1.snd.una ≤ off (iss y) ty2.snd.una ∧ off (iss y) ty2.snd.una ≤ ty1.sent ∧
      (outX ≠ [] → ∃ h, ty2.outgoing.oneshot.getLast? = some h ∧ h.ack = ty2.rcv.nxt) ∧
      (outX = [] → tx.snd.una = tx.snd.nxt ∧ tx1.snd.nxt = tx.snd.nxt) := by
  have hxx : (s.side y.peer.peer).tcb = some ty := by rw [SideId.peer_peer]; exact hty
  -- the peer's batch: its whole queue, then its new data
  have houtX : outX = (tx.outgoing.retransmit ++ newX).map (·.segment) := by
    rw [fX.out, CX.one]
    simp only [List.map_nil, List.nil_append]
    congr 1
    exact List.filter_eq_self.2 (fun tr htr => by
      rcases List.mem_append.1 htr with h | h
      · exact hflag tr h
      · exact fX.flagged tr h)
  have hwndX : tx.snd.wnd = 65535#16 := (hg.ext.tcb y.peer tx htx).swnd (by rw [CX.st]; simp)
  obtain ⟨qsum, qle, qB⟩ := queue_start hg y.peer tx htx CX.st CX.una
  have hΔX : rtxBytes tx.outgoing.retransmit + emitAmount tx ≤ 65535 := by
    unfold emitAmount
    rw [hwndX]
    have : (65535#16 : BitVec 16).toNat = 65535 := rfl
    omega
  have factsX := rtx_entry_facts hg y.peer tx htx CX.una
  have siX : SndInv tx := (hg.ext.tcb y.peer tx htx).snd (seg_of_established CX.st)
  -- the batch as a contiguous run
  have hnewlen : ∀ g ∈ newX.map (·.segment), g.text.length ≤ 65535 := by
    intro g hg'
    have := le_segBytes _ g hg'
    rw [fX.bytes] at this
    omega
  have hrun : CatchRun (tx.snd.nxt - BitVec.ofNat 32 (rtxBytes tx.outgoing.retransmit)) outX := by
    rw [houtX, List.map_append]
    refine catchRun_append _ _ _ (chain_catchRun tx.snd.nxt tx.outgoing.retransmit siX.chain factsX) ?_
    rw [← rtxBytes_eq_segBytes]
    have e : tx.snd.nxt - BitVec.ofNat 32 (rtxBytes tx.outgoing.retransmit) + BitVec.ofNat 32 (rtxBytes tx.outgoing.retransmit)
        = tx.snd.nxt := by
      generalize BitVec.ofNat 32 (rtxBytes tx.outgoing.retransmit) = z
      bv_omega
    rw [e]
    exact catchRun_of_dataRun _ _ _ _ _ _ fX.run hnewlen
  have hsb : segBytes outX = rtxBytes tx.outgoing.retransmit + emitAmount tx := by
    rw [houtX, List.map_append, segBytes_append, ← rtxBytes_eq_segBytes, fX.bytes]
  -- where the receiver stands
  have sqX := squeeze_facts hg y.peer tx ty htx hxx CY.st
  have hrcv1 : ty1.rcv.nxt = ty.rcv.nxt := by rw [fY.rcv]
  have hsentX := hg.sent_lt y.peer tx htx
  have hseq0 : tx.snd.nxt - BitVec.ofNat 32 (rtxBytes tx.outgoing.retransmit) +
      BitVec.ofNat 32 (off (iss y.peer) ty.rcv.nxt - off (iss y.peer) (tx.snd.nxt - BitVec.ofNat 32 (rtxBytes tx.outgoing.retransmit)))
        = ty1.rcv.nxt := by
    rw [hrcv1]
    apply off_inj (base := iss y.peer)
    rw [off_add _ _ _ (by omega)]
    omega
  -- ACK numbers of the batch
  have hN1 := hg2.sent_lt y ty1 hty1
  have hsent1 : ty1.sent = ty.sent + emitAmount ty := by
    unfold sent
    rw [show ty1.snd.iss = ty.snd.iss from by
      rw [hg2.iss_eq y ty1 hty1, hg.iss_eq y ty hty], fY.nxt]
    have hwY : emitAmount ty ≤ 65535 := by
      unfold emitAmount
      have := ty.snd.wnd.isLt
      omega
    exact off_add _ _ _ (by have := hg.sent_lt y ty hty; unfold sent at this; omega)
  have sqY := squeeze_facts hg y ty tx hty htx CX.st
  have hacks : ∀ g ∈ outX, 1 ≤ off (iss y) g.hdr.ack ∧ off (iss y) g.hdr.ack ≤ ty1.sent := by
    have hA := hg.conv.full.ack y
    unfold AckLink at hA
    rw [hty, htx] at hA
    have q := hA.q ty tx rfl rfl
    rw [hg.iss_eq y ty hty] at q
    have hns : tx.state ≠ .SynSent := by rw [CX.st]; simp
    intro g hg'
    rw [houtX, List.map_append] at hg'
    rcases List.mem_append.1 hg' with h | h
    · obtain ⟨tr, htr, rfl⟩ := List.mem_map.1 h
      have := q.rtx tr htr (factsX tr htr).2.2.2
      rw [top_of_ne hns] at this
      exact ⟨this.1, by omega⟩
    · have := ackLe_dataRun (iss y) (off (iss y) tx.rcv.nxt) _ _ _ _ (q.pos hns) (Nat.le_refl _) _ _ fX.run g h
      exact ⟨this.1, by omega⟩
  obtain ⟨ty2, e2, bf⟩ := catchList_fwd (iss y) ty1.sent hN1 outX ty1 _ _ (by rw [fY.st]; exact CY.st)
    (hg2.wnd y ty1 hty1) (by rw [fY.inc]; exact CY.heap) (hg2.iss_eq y ty1 hty1) rfl
    (by have := una_le_sent_of_conv hg2.conv y ty1 hty1; rw [hg2.iss_eq y ty1 hty1] at this; exact this)
    hrun hseq0 (by omega) hacks (by rw [fY.inc, CY.buf, hsb]; simp only [List.length_nil]; omega)
  refine ⟨ty2, e2, bf.st, bf.heap, ?_, bf.snxt, by rw [bf.mtu, fY.mtu], ?_, by rw [bf.otext, fY.text], bf.umono, bf.una,
    bf.oneLast, ?_⟩
  · -- RCV.NXT reaches the peer's SND.NXT
    apply off_inj (base := iss y.peer)
    rw [bf.nxt, hrcv1, off_add _ _ _ (by omega), hsb, fX.nxt, off_add _ _ _ (by unfold sent at hsentX; rw [hg.iss_eq y.peer tx htx] at hsentX; omega)]
    have : off (iss y.peer) tx.snd.nxt = tx.sent := by unfold sent; rw [hg.iss_eq y.peer tx htx]
    omega
  · intro tr htr
    have := bf.sub tr htr
    rw [fY.rtx] at this
    obtain ⟨t0, _, rfl⟩ := List.mem_map.1 this
    rfl
  · intro h0
    rw [houtX] at h0
    have hl : tx.outgoing.retransmit ++ newX = [] := List.map_eq_nil_iff.1 h0
    obtain ⟨l1, l2⟩ := List.append_eq_nil_iff.1 hl
    rw [l1] at qsum qle
    simp only [rtxBytes_nil, BitVec.sub_zero, Nat.add_zero] at qsum qle
    have hux : off (iss y.peer) tx.snd.una = off (iss y.peer) tx.snd.nxt := by
      have := sqX.1
      have := sqX.2
      omega
    have hb0 : emitAmount tx = 0 := by
      rw [← fX.bytes, l2]; rfl
    exact ⟨off_inj hux, by rw [fX.nxt, hb0]; simp⟩

end Elvis.Tcp
