import ElvisVerif.Lemmas.TcpConvBatch
/-!
# One loss-free exchange phase of the closed system: definitions and bookkeeping

`phase s`: `emit A`, `emit B`, then every element A just emitted is delivered to B and every
element B just emitted to A, each batch in emission order (by history index), then `read A`,
`read B`.  `phases k` iterates it; `fairRound k` = `tick A (RTO + 1)`, `tick B (RTO + 1)`, `phases k`.

Bookkeeping: `HL` (`historyLen` is the length of the history), what `Sys.nth` returns after `record`,
and `deliverRange_arriveList`: delivering the history elements `lo … lo + n − 1` to a side that has a
TCB is `Tcb.arriveList` on that TCB.
-/
namespace Elvis.Tcp
open Tcb

/-! ## the history as an array -/

/-- `historyLen` is the number of elements of the history -/
def HL (s : Sys) : Prop := s.historyLen = s.history.length

theorem hl_setSide {s : Sys} (h : HL s) (x : SideId) (v : Side) : HL (s.setSide x v) := by
  cases x <;> exact h

theorem hl_record {s : Sys} (h : HL s) (segs : List Segment) : HL (s.record segs) := by
  unfold HL Sys.record at *
  simp only [List.length_append, List.length_reverse]
  omega

theorem hl_arrive {s s' : Sys} {x : SideId} {g : Segment} {r : Res} (h : HL s) (e : s.arrive x g = .ok (s', r)) :
    HL s' := by
  unfold Sys.arrive at e
  dsimp only at e
  repeat' split at e
  all_goals cases e
  all_goals first
    | exact h
    | exact hl_setSide h _ _
    | exact hl_record h _

theorem hl_step {s s' : Sys} {op : Op} {r : Res} (h : HL s) (e : s.step op = .ok (s', r)) : HL s' := by
  cases op
  case deliver x i =>
    simp only [Sys.step, Op.side] at e
    split at e
    · cases e; exact h
    · exact hl_arrive h e
  case inject x g =>
    simp only [Sys.step, Op.side] at e
    exact hl_arrive h e
  all_goals
    simp only [Sys.step, Op.side] at e
    repeat' split at e
    all_goals cases e
    all_goals first
      | exact h
      | exact hl_setSide h _ _
      | exact hl_record (hl_setSide h _ _) _

theorem hl_plainRun {s s' : Sys} (h : HL s) (r : PlainRun s s') : HL s' := by
  induction r with
  | refl => exact h
  | step _ _ e ih => exact hl_step ih e

theorem nth_setSide (s : Sys) (x : SideId) (v : Side) (i : Nat) : (s.setSide x v).nth i = s.nth i := by
  cases x <;> rfl

theorem historyLen_setSide (s : Sys) (x : SideId) (v : Side) : (s.setSide x v).historyLen = s.historyLen := by
  cases x <;> rfl

theorem historyLen_record (s : Sys) (segs : List Segment) : (s.record segs).historyLen = s.historyLen + segs.length :=
  rfl

/-- the elements just recorded, by index -/
theorem nth_record_new (s : Sys) (segs : List Segment) (j : Nat) (hj : j < segs.length) :
    (s.record segs).nth (s.historyLen + j) = some segs[j] := by
  unfold Sys.nth
  rw [historyLen_record, if_pos (by omega)]
  show (segs.reverse ++ s.history)[s.historyLen + segs.length - 1 - (s.historyLen + j)]? = _
  have e : s.historyLen + segs.length - 1 - (s.historyLen + j) = segs.length - 1 - j := by omega
  rw [e, List.getElem?_append_left (by rw [List.length_reverse]; omega), List.getElem?_reverse (by omega)]
  have e2 : segs.length - 1 - (segs.length - 1 - j) = j := by omega
  rw [e2]
  exact List.getElem?_eq_getElem hj

/-- older elements keep their index -/
theorem nth_record_old (s : Sys) (segs : List Segment) (i : Nat) (hi : i < s.historyLen) :
    (s.record segs).nth i = s.nth i := by
  unfold Sys.nth
  rw [historyLen_record, if_pos (by omega), if_pos hi]
  show (segs.reverse ++ s.history)[s.historyLen + segs.length - 1 - i]? = _
  rw [List.getElem?_append_right (by rw [List.length_reverse]; omega), List.length_reverse]
  congr 1
  omega

theorem setSide_setSide (s : Sys) (x : SideId) (v w : Side) : (s.setSide x v).setSide x w = s.setSide x w := by
  cases x <;> rfl

theorem setSide_tcb_eta (s : Sys) (x : SideId) (t : Tcb) (ht : (s.side x).tcb = some t) :
    s.setSide x { s.side x with tcb := some t } = s := by
  cases x <;> (cases s; simp only [Sys.setSide, Sys.side] at ht ⊢; rw [← ht])

/-! ## deliveries by index -/

/-- deliver history elements `lo`, `lo + 1`, …, `lo + n − 1` to side `x`, in this order -/
def deliverRange (s : Sys) (x : SideId) (lo : Nat) : Nat → Except String Sys
  | 0 => .ok s
  | n + 1 =>
    match s.step (.deliver x lo) with
    | .error e => .error e
    | .ok (s', _) => deliverRange s' x (lo + 1) n

theorem PlainRun.trans {a b c : Sys} (h1 : PlainRun a b) (h2 : PlainRun b c) : PlainRun a c := by
  induction h2 with
  | refl => exact h1
  | step _ hp e ih => exact .step ih hp e

/-- delivering a range to a side that has a TCB is `arriveList` on that TCB; the rest of the system
    and the history are untouched; when the elements are addressed to `x` it is a run of plain ops -/
theorem deliverRange_arriveList (gs : List Segment) :
    ∀ (s : Sys) (x : SideId) (lo : Nat) (t t' : Tcb), (s.side x).tcb = some t →
      (∀ j (hj : j < gs.length), s.nth (lo + j) = some gs[j]) → t.arriveList gs = .ok t' →
      (∀ g ∈ gs, g.hdr.srcPort = x.peer.port ∧ g.hdr.dstPort = x.port) →
      deliverRange s x lo gs.length = .ok (s.setSide x { s.side x with tcb := some t' }) ∧
        PlainRun s (s.setSide x { s.side x with tcb := some t' }) := by
  induction gs with
  | nil =>
    intro s x lo t t' ht _ e _
    simp only [arriveList, Except.ok.injEq] at e
    subst e
    simp only [List.length_nil, deliverRange]
    rw [setSide_tcb_eta s x t ht]
    exact ⟨rfl, .refl _⟩
  | cons g rest ih =>
    intro s x lo t t' ht hn e ha
    have h0 : s.nth lo = some g := by
      have := hn 0 (by simp)
      simpa using this
    simp only [arriveList] at e
    cases hs : t.segmentArrives g with
    | error err => rw [hs] at e; cases e
    | ok p =>
      obtain ⟨t1, r1⟩ := p
      rw [hs] at e
      cases r1 with
      | Close => cases e
      | Ok =>
        dsimp only at e
        have hstep : s.step (.deliver x lo) = .ok (s.setSide x { s.side x with tcb := some t1 }, .arrived .Ok) := by
          simp only [Sys.step, Op.side, h0, Sys.arrive, ht, hs]
        have hp : Op.Plain s (.deliver x lo) := by
          intro σ hσ
          rw [h0] at hσ
          cases hσ
          exact ha g List.mem_cons_self
        simp only [List.length_cons, deliverRange, hstep]
        have := ih (s.setSide x { s.side x with tcb := some t1 }) x (lo + 1) t1 t' (by rw [side_setSide_same])
          (fun j hj => by
            rw [nth_setSide]
            have := hn (j + 1) (by simp; omega)
            rw [show lo + (j + 1) = lo + 1 + j by omega] at this
            simpa using this) e (fun g' hg' => ha g' (List.mem_cons_of_mem _ hg'))
        rw [setSide_setSide, side_setSide_same] at this
        exact ⟨this.1, (PlainRun.step (.refl _) hp hstep).trans this.2⟩

/-! ## the phase and the fair round -/

/-- one exchange phase: both sides emit, everything just emitted is delivered to its addressee in
    emission order, both applications read -/
def phase (s : Sys) : Except String Sys :=
  match s.step (.emit .A) with
  | .error e => .error e
  | .ok (s1, _) =>
    match s1.step (.emit .B) with
    | .error e => .error e
    | .ok (s2, _) =>
      match deliverRange s2 .B s.historyLen (s1.historyLen - s.historyLen) with
      | .error e => .error e
      | .ok s3 =>
        match deliverRange s3 .A s1.historyLen (s2.historyLen - s1.historyLen) with
        | .error e => .error e
        | .ok s4 =>
          match s4.step (.read .A) with
          | .error e => .error e
          | .ok (s5, _) =>
            match s5.step (.read .B) with
            | .error e => .error e
            | .ok (s6, _) => .ok s6

def phases : Nat → Sys → Except String Sys
  | 0, s => .ok s
  | k + 1, s =>
    match phase s with
    | .error e => .error e
    | .ok s' => phases k s'

/-- a fair round: both retransmission timers expire, then `k` exchange phases -/
def fairRound (k : Nat) (s : Sys) : Except String Sys :=
  match s.step (.tick .A (RTO + 1)) with
  | .error e => .error e
  | .ok (s1, _) =>
    match s1.step (.tick .B (RTO + 1)) with
    | .error e => .error e
    | .ok (s2, _) => phases k s2

end Elvis.Tcp
