import ElvisVerif.Lemmas.TcpConvFwd2
/-!
# A retransmitted queue arrives, in order, at an ESTABLISHED endpoint

`CatchRun seq gs`: plain data segments (ACK bit only, non-empty text of at most 65535 bytes) numbered
contiguously from `seq`.  `catchList_fwd`: delivered in order to an ESTABLISHED endpoint with an empty
reorder heap whose `RCV.NXT` is `d` ahead of `seq` (the first segments are old), with room for the new
bytes: every segment is answered or taken at once, the heap stays empty, `RCV.NXT` advances by
`total − d` (not at all when the whole run is old), and the last header queued is a pure ACK for the new
`RCV.NXT`.
-/
namespace Elvis.Tcp
open Elvis.ModCmp
namespace Tcb

def CatchRun : Seq → List Segment → Prop
  | _, [] => True
  | seq, g :: rest => g.hdr.seq = seq ∧ g.hdr.ctl.rst = false ∧ g.hdr.ctl.syn = false ∧ g.hdr.ctl.fin = false ∧
      g.hdr.ctl.ack = true ∧ g.text ≠ [] ∧ g.text.length ≤ 65535 ∧
      CatchRun (seq + BitVec.ofNat 32 g.text.length) rest

structure CatchBatchFx (iss : Seq) (N : Nat) (t : Tcb) (gs : List Segment) (d : Nat) (t' : Tcb) : Prop where
  st : t'.state = .Established
  heap : t'.incoming.segments = []
  nxt : t'.rcv.nxt = t.rcv.nxt + BitVec.ofNat 32 (segBytes gs - d)
  rwnd : t'.rcv.wnd = t.rcv.wnd
  buf : t'.incoming.text.length = t.incoming.text.length + (segBytes gs - d)
  otext : t'.outgoing.text = t.outgoing.text
  snxt : t'.snd.nxt = t.snd.nxt
  mtu : t'.mtu = t.mtu
  sub : ∀ tr ∈ t'.outgoing.retransmit, tr ∈ t.outgoing.retransmit
  una : off iss t'.snd.una ≤ N
  umono : off iss t.snd.una ≤ off iss t'.snd.una
  oneApp : ∃ L, t'.outgoing.oneshot = t.outgoing.oneshot ++ L
  oneLast : gs ≠ [] → ∃ h, t'.outgoing.oneshot.getLast? = some h ∧ h.ack = t'.rcv.nxt

theorem catchList_fwd (iss : Seq) (N : Nat) (hN : N < 2147483648) (gs : List Segment) :
    ∀ (t : Tcb) (seq : Seq) (d : Nat), t.state = .Established → t.rcv.wnd = 65535#16 → t.incoming.segments = [] →
      t.snd.iss = iss → t.sent = N → off iss t.snd.una ≤ N → CatchRun seq gs →
      seq + BitVec.ofNat 32 d = t.rcv.nxt → d < 2147483648 →
      (∀ g ∈ gs, 1 ≤ off iss g.hdr.ack ∧ off iss g.hdr.ack ≤ N) →
      t.incoming.text.length + (segBytes gs - d) ≤ 65535 →
      ∃ t', arriveList t gs = .ok t' ∧ CatchBatchFx iss N t gs d t' := by
  induction gs with
  | nil =>
    intro t seq d hst hw hheap hiss hsent hu _ _ _ _ _
    exact ⟨t, rfl, hst, hheap, by simp, rfl, by simp, rfl, rfl, rfl, fun _ h => h, hu, Nat.le_refl _, ⟨[], by simp⟩,
      fun h => absurd rfl h⟩
  | cons g rest ih =>
    intro t seq d hst hw hheap hiss hsent hu hrun hseq hd31 hack hfit
    obtain ⟨hs, hrst, hsyn, hfin, hackb, hne, hlen, hrun'⟩ := hrun
    obtain ⟨ha1, ha2⟩ := hack g List.mem_cons_self
    have hsentN : off iss t.snd.nxt = N := by rw [← hsent, ← hiss]; rfl
    have hpos : 0 < g.text.length := List.length_pos_iff.2 hne
    rw [segBytes_cons] at hfit
    by_cases hold : g.text.length < d
    · -- entirely old
      have e1 := arrive_old_fwd t g d hst hw hsyn hfin (by rw [hs]; exact hseq) hold hd31 hne
      obtain ⟨t', e', bf⟩ := ih ({ t with outgoing.oneshot := t.outgoing.oneshot ++ [t.ackHdr.built] })
        (seq + BitVec.ofNat 32 g.text.length) (d - g.text.length) hst hw hheap hiss hsent hu hrun'
        (by
          show seq + BitVec.ofNat 32 g.text.length + BitVec.ofNat 32 (d - g.text.length) = t.rcv.nxt
          rw [← hseq, BitVec.add_assoc, ← BitVec.ofNat_add]
          congr 2; omega)
        (by omega) (fun x hx => hack x (List.mem_cons_of_mem _ hx))
        (by show t.incoming.text.length + (segBytes rest - (d - g.text.length)) ≤ 65535; omega)
      have hsb : segBytes (g :: rest) - d = segBytes rest - (d - g.text.length) := by rw [segBytes_cons]; omega
      refine ⟨t', by simp only [arriveList, e1]; exact e', bf.st, bf.heap, by rw [bf.nxt, hsb], bf.rwnd,
        by rw [bf.buf, hsb], bf.otext, bf.snxt, bf.mtu, bf.sub, bf.una, bf.umono, ?_, fun _ => ?_⟩
      · obtain ⟨L, hL⟩ := bf.oneApp
        exact ⟨[t.ackHdr.built] ++ L, by rw [hL]; simp⟩
      · by_cases hr : rest = []
        · subst hr
          simp only [arriveList, Except.ok.injEq] at e'
          subst e'
          exact ⟨t.ackHdr.built, by simp, rfl⟩
        · exact bf.oneLast hr
    · -- partly old, or in order
      have hdl : d ≤ g.text.length := by omega
      have hgood : modLeq g.hdr.ack t.snd.una = true ∨ modBounded t.snd.una .Lt g.hdr.ack .Leq t.snd.nxt = true := by
        rcases Nat.lt_or_ge (off iss t.snd.una) (off iss g.hdr.ack) with hlt | hge
        · exact Or.inr (bounded_of_off iss _ _ _ (by omega) hlt (by omega))
        · exact Or.inl ((modLeq_iff_off iss _ _ (by omega) (by omega)).2 hge)
      have hp : Plain t g.hdr := ⟨hrst, hsyn, hfin, hackb, hgood⟩
      obtain ⟨t1, t2, e1, fx, cx⟩ := arrive_catch_fwd t g d hst hw hheap hp hne (by rw [hs]; exact hseq) hdl hlen (by omega)
      have k := segmentArrives_snd t g t2 .Ok e1
      have hu1 : off iss t1.snd.una ≤ N ∧ off iss t.snd.una ≤ off iss t1.snd.una := by
        rw [fx.una]
        split
        · exact ⟨hu, Nat.le_refl _⟩
        · rename_i hle
          have := (modLeq_iff_off iss g.hdr.ack t.snd.una (by omega) (by omega)).2
          refine ⟨ha2, ?_⟩
          rcases Nat.lt_or_ge (off iss t.snd.una) (off iss g.hdr.ack) with h | h
          · omega
          · exact absurd (this h) hle
      obtain ⟨t', e', bf⟩ := ih t2 (seq + BitVec.ofNat 32 g.text.length) 0 (by rw [cx.st, fx.st, hst])
        (by rw [cx.rwnd, fx.rcv, hw]) (by rw [cx.heap, fx.inc, hheap]) (by rw [k.iss, hiss])
        (by rw [sent_congr k.iss k.nxt]; exact hsent) (by rw [cx.snd]; exact hu1.1) hrun'
        (by
          rw [cx.nxt, fx.rcv, ← hseq]
          simp only [BitVec.add_zero]
          obtain ⟨j, hj⟩ : ∃ j, g.text.length = d + j := ⟨g.text.length - d, by omega⟩
          have hj' : g.text.length - d = j := by omega
          rw [hj', hj, BitVec.ofNat_add]
          generalize BitVec.ofNat 32 d = x
          generalize BitVec.ofNat 32 j = y
          bv_omega)
        (by omega) (fun x hx => hack x (List.mem_cons_of_mem _ hx))
        (by rw [cx.text, fx.inc, List.length_append, List.length_drop]; omega)
      have hsb : segBytes (g :: rest) - d = (g.text.length - d) + (segBytes rest - 0) := by rw [segBytes_cons]; omega
      refine ⟨t', by simp only [arriveList, e1]; exact e', bf.st, bf.heap, ?_, by rw [bf.rwnd, cx.rwnd, fx.rcv], ?_,
        by rw [bf.otext, cx.otext, fx.otext], by rw [bf.snxt, cx.snd, fx.nxt], by rw [bf.mtu, cx.mtu, fx.mtu], ?_, bf.una,
        ?_, ?_, fun _ => ?_⟩
      · rw [bf.nxt, cx.nxt, fx.rcv, hsb, BitVec.add_assoc, ← BitVec.ofNat_add]
      · rw [bf.buf, cx.text, fx.inc, List.length_append, List.length_drop, hsb]; omega
      · intro tr htr
        have := bf.sub tr htr
        rw [cx.rtx, fx.rtx] at this
        split at this
        · exact this
        · exact (List.mem_filter.1 this).1
      · have := bf.umono
        rw [cx.snd] at this
        exact Nat.le_trans hu1.2 this
      · obtain ⟨L, hL⟩ := bf.oneApp
        obtain ⟨h, hh, _⟩ := cx.one
        exact ⟨[h] ++ L, by rw [hL, hh, fx.one]; simp⟩
      · by_cases hr : rest = []
        · subst hr
          simp only [arriveList, Except.ok.injEq] at e'
          subst e'
          obtain ⟨h, hh, hha⟩ := cx.one
          exact ⟨h, by rw [hh]; simp, hha⟩
        · exact bf.oneLast hr

end Tcb
end Elvis.Tcp
