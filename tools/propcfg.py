"""Per-property configuration of ./check: one JSON file per property in tools/props/
(MANIFEST.json is generated from them by tools/gen_manifest.py)."""
import json, os, glob

COMMON_TRUST = ("Lean 4.33.0 kernel (axioms of every theorem audited on every run: must be within propext, "
                "Classical.choice, Quot.sound); tools/extract.py; the correspondence harness (sampling); "
                "rustc/std/tokio as compiled. ")

PROPS = {}
for _p in sorted(glob.glob(os.path.join(os.path.dirname(os.path.abspath(__file__)), "props", "C*.json"))):
    _c = json.load(open(_p))
    _c["level_note"] = COMMON_TRUST + _c.get("level_note", "")
    PROPS[os.path.basename(_p)[:-5]] = _c
