import ElvisVerif.Lemmas.TcpRelSys
import ElvisVerif.Lemmas.TcpRelChain2
/-!
# Release after a sequential close from a quiet state

`releaseRoundSeq`: `close A`; two exchange phases (A: FIN-WAIT-1 → FIN-WAIT-2, B: CLOSE-WAIT); `close B`; two exchange
phases (A: TIME-WAIT; B: LAST-ACK, deleted by A's ACK — `FinalizeClose`); `tick A (2·MSL + 1)`: A is deleted.
-/
namespace Elvis.Tcp
open Tcb Elvis.ModCmp Elvis.Tcp.Fin

/-- an exchange phase in which A emits one segment, B emits nothing, and the segment makes B's TCB
    tell its caller to delete it -/
theorem phase_eval_closeB (s : Sys) (ta tb ta1 tb1 : Tcb) (g : Segment)
    (ha : (s.side .A).tcb = some ta) (hb : (s.side .B).tcb = some tb)
    (eA : ta.segments = .ok (ta1, [g])) (eB : tb.segments = .ok (tb1, []))
    (cB : ∃ t', tb1.segmentArrives g = .ok (t', .Close))
    (pA : g.hdr.srcPort = SideId.A.port ∧ g.hdr.dstPort = SideId.B.port) :
    ∃ s6, phase s = .ok s6 ∧ FinRun s s6 ∧
      (s6.side .A).tcb = some ta1.receive.1 ∧ (s6.side .B).tcb = none ∧
      (s6.side .A).submitted = (s.side .A).submitted ∧ (s6.side .B).submitted = (s.side .B).submitted ∧
      (s6.side .A).delivered = (s.side .A).delivered ++ ta1.receive.2 ∧
      (s6.side .B).delivered = (s.side .B).delivered ∧
      s6.historyLen = s.historyLen + 1 := by
  obtain ⟨t', cB⟩ := cB
  obtain ⟨s1, r1, st1, h1a, h1p, h1sub, h1del, h1len, h1new, h1old⟩ := emit_facts s .A ta ta1 [g] ha eA
  have h1pb : s1.side .B = s.side .B := h1p
  have h1b : (s1.side .B).tcb = some tb := by rw [h1pb]; exact hb
  obtain ⟨s2, r2, st2, h2b, h2p, h2sub, h2del, h2len, h2new, h2old⟩ := emit_facts s1 .B tb tb1 [] h1b eB
  have h2pa : s2.side .A = s1.side .A := h2p
  have h2a : (s2.side .A).tcb = some ta1 := by rw [h2pa]; exact h1a
  have hn : s2.nth s.historyLen = some g := by
    rw [h2old _ (by rw [h1len]; simp)]
    have := h1new 0 (by simp)
    simpa using this
  -- the delivery that deletes B's TCB
  have st3 : s2.step (.deliver .B s.historyLen) =
      .ok (s2.setSide .B { s2.side .B with tcb := none, listen := none }, .arrived .Close) := by
    simp only [Sys.step, Op.side, hn, Sys.arrive, h2b, cB]
  have d3 : deliverRange s2 .B s.historyLen 1 = .ok (s2.setSide .B { s2.side .B with tcb := none, listen := none }) := by
    simp only [deliverRange, st3]
  generalize hs3 : s2.setSide .B { s2.side .B with tcb := none, listen := none } = s3 at st3 d3
  have h3a : (s3.side .A).tcb = some ta1 := by rw [← hs3]; exact h2a
  have h3b : (s3.side .B).tcb = none := by rw [← hs3]; rfl
  have h3sa : (s3.side .A).submitted = (s2.side .A).submitted := by rw [← hs3]; rfl
  have h3sb : (s3.side .B).submitted = (s2.side .B).submitted := by rw [← hs3]; rfl
  have h3da : (s3.side .A).delivered = (s2.side .A).delivered := by rw [← hs3]; rfl
  have h3db : (s3.side .B).delivered = (s2.side .B).delivered := by rw [← hs3]; rfl
  have h3len : s3.historyLen = s2.historyLen := by rw [← hs3]; rfl
  have d4 : deliverRange s3 .A s1.historyLen 0 = .ok s3 := rfl
  obtain ⟨s5, r5, st5, h5a, h5p, h5sub, h5del, h5len⟩ := read_facts_gen s3 .A ta1 h3a
  have h5pb : s5.side .B = s3.side .B := h5p
  have h5b : (s5.side .B).tcb = none := by rw [h5pb]; exact h3b
  have st6 : s5.step (.read .B) = .ok (s5, .noTcb) := by
    simp only [Sys.step, Op.side, h5b]
  refine ⟨s5, ?_, ?_, h5a, h5b, ?_, ?_, ?_, ?_, ?_⟩
  · unfold phase
    rw [st1]
    dsimp only
    rw [st2]
    dsimp only
    have l1 : s1.historyLen - s.historyLen = 1 := by rw [h1len]; simp
    have l2 : s2.historyLen - s1.historyLen = 0 := by rw [h2len]; simp
    rw [l1, d3]
    dsimp only
    rw [l2, d4]
    dsimp only
    rw [st5]
    dsimp only
    rw [st6]
  · have hop : OpOkF s2 (.deliver .B s.historyLen) := by
      intro g' hg'
      rw [hn] at hg'
      cases hg'
      exact pA
    exact ((((FinRun.step (op := .emit .A) (.refl _) trivial st1).trans
      (.step (op := .emit .B) (.refl _) trivial st2)).trans (.step (.refl _) hop st3)).trans
      (.step (op := .read .A) (.refl _) trivial st5)).trans (.step (op := .read .B) (.refl _) trivial st6)
  · rw [h5sub, h3sa, h2pa, h1sub]
  · rw [h5pb, h3sb, h2sub, h1pb]
  · rw [h5del, h3da, h2pa, h1del]
  · rw [h5pb, h3db, h2del, h1pb]
  · rw [h5len, h3len, h2len, h1len]; simp

/-- A closes; two exchange phases; B closes; two exchange phases; `2·MSL + 1 ms` pass on A's side -/
def releaseRoundSeq (s : Sys) : Except String Sys :=
  match s.step (.close .A) with
  | .error e => .error e
  | .ok (s1, _) =>
  match phase s1 with
  | .error e => .error e
  | .ok s2 =>
  match phase s2 with
  | .error e => .error e
  | .ok s3 =>
  match s3.step (.close .B) with
  | .error e => .error e
  | .ok (s4, _) =>
  match phase s4 with
  | .error e => .error e
  | .ok s5 =>
  match phase s5 with
  | .error e => .error e
  | .ok s6 =>
  match s6.step (.tick .A (TIME_WAIT + 1)) with
  | .error e => .error e
  | .ok (s7, _) => .ok s7

/-- **release after a sequential close** from a quiet state -/
theorem release_sequential (s : Sys) (ta tb : Tcb) (ha : (s.side .A).tcb = some ta) (hb : (s.side .B).tcb = some tb)
    (qa : QuietX .A ta tb) (qb : QuietX .B tb ta) :
    ∃ s', releaseRoundSeq s = .ok s' ∧ FinRun s s' ∧ (s'.side .A).tcb = none ∧ (s'.side .B).tcb = none ∧
      (s'.side .A).submitted = (s.side .A).submitted ∧ (s'.side .B).submitted = (s.side .B).submitted ∧
      (s'.side .A).delivered = (s.side .A).delivered ∧ (s'.side .B).delivered = (s.side .B).delivered ∧
      s'.historyLen = s.historyLen + 4 := by
  -- the segments
  have hF1 : IsFin (finSeg ta) tb.rcv.nxt tb.snd.nxt := by rw [qa.sync, ← qb.sync]; exact isFin_finSeg ta
  obtain ⟨a1, a2, a3, a4⟩ := act_close .A ta tb qa
  obtain ⟨b1, b2, b3, b4, b5, b6, b7, b8⟩ := pas_fin .B tb ta qb (finSeg ta) hF1
  have hA1 : IsAck ⟨(pasB1 tb).finAckHdr, []⟩ ta.rcv.nxt (ta.snd.nxt + 1) := by
    rw [qb.sync, ← qa.sync]; exact b5
  obtain ⟨a5, a6, a7⟩ := act_ack .A ta tb qa _ hA1
  -- close A
  have st1 : s.step (.close .A) = .ok (s.setSide .A { s.side .A with tcb := some (closedT ta) }, .closed .Ok) := by
    simp only [Sys.step, Op.side, ha, a1]
  generalize hs1 : s.setSide .A { s.side .A with tcb := some (closedT ta) } = s1 at st1
  have h1a : (s1.side .A).tcb = some (closedT ta) := by rw [← hs1]; rfl
  have h1b : (s1.side .B).tcb = some tb := by rw [← hs1]; exact hb
  have h1sa : (s1.side .A).submitted = (s.side .A).submitted := by rw [← hs1]; rfl
  have h1sb : (s1.side .B).submitted = (s.side .B).submitted := by rw [← hs1]; rfl
  have h1da : (s1.side .A).delivered = (s.side .A).delivered := by rw [← hs1]; rfl
  have h1db : (s1.side .B).delivered = (s.side .B).delivered := by rw [← hs1]; rfl
  have h1len : s1.historyLen = s.historyLen := by rw [← hs1]; rfl
  -- phase 1: A's FIN
  obtain ⟨s2, ph1, r12, h2a, h2b, h2sa, h2sb, h2da, h2db, h2len⟩ :=
    phase_eval s1 (closedT ta) tb (actA1 ta) (pasB1 tb) (actA1 ta) (pasB2 tb) [finSeg ta] []
      h1a h1b a2 b1 b2 rfl
      (fun g hg => by
        simp only [List.mem_singleton] at hg; subst hg
        exact ⟨qa.lp, qa.rp⟩)
      (fun g hg => by cases hg)
  rw [a3] at h2a h2da
  rw [b3] at h2b h2db
  -- phase 2: B's ACK
  obtain ⟨s3, ph2, r23, h3a, h3b, h3sa, h3sb, h3da, h3db, h3len⟩ :=
    phase_eval s2 (actA1 ta) (pasB2 tb) (actA2 ta) (pasB3 tb) (actA3 ta ⟨(pasB1 tb).finAckHdr, []⟩) (pasB3 tb)
      [] [⟨(pasB1 tb).finAckHdr, []⟩] h2a h2b a4 b4 rfl a5
      (fun g hg => by cases hg)
      (fun g hg => by
        simp only [List.mem_singleton] at hg; subst hg
        exact ⟨b6.trans qb.lp, b7.trans qb.rp⟩)
  rw [a6] at h3a h3da
  rw [b8] at h3b h3db
  -- close B
  have hA2 : ∀ gA, IsAck gA (tb.rcv.nxt + 1) (tb.snd.nxt + 1) →
      (pasB3 tb).close = .ok (pasB4 tb, .Ok) ∧ (pasB4 tb).segments = .ok (pasB5 tb, [pasFin tb]) ∧
      IsFin (pasFin tb) tb.snd.nxt (tb.rcv.nxt + 1) ∧
      (pasFin tb).hdr.srcPort = tb.localPort ∧ (pasFin tb).hdr.dstPort = tb.remotePort ∧
      (pasB5 tb).receive = (pasB5 tb, []) ∧ (pasB5 tb).segments = .ok (pasB6 tb, []) ∧
      ∃ t', (pasB6 tb).segmentArrives gA = .ok (t', .Close) := fun gA h => pas_close .B tb ta qb gA h
  have hF2 : IsFin (pasFin tb) ta.rcv.nxt (ta.snd.nxt + 1) := by
    have : IsFin (pasFin tb) tb.snd.nxt (tb.rcv.nxt + 1) := ⟨rfl, rfl, rfl, rfl, rfl, rfl, rfl⟩
    rw [qb.sync, ← qa.sync]; exact this
  obtain ⟨a8, a9, a10, a11, a12, a13, a14, a15⟩ := act_fin .A ta tb qa _ (pasFin tb) hA1 hF2
  have hA3 : IsAck ⟨(actA4 ta ⟨(pasB1 tb).finAckHdr, []⟩).finAckHdr, []⟩ (tb.rcv.nxt + 1) (tb.snd.nxt + 1) := by
    rw [qa.sync, ← qb.sync]; exact a11
  obtain ⟨c1, c2, c3, c4, c5, c6, c7, c8⟩ := hA2 _ hA3
  have st4 : s3.step (.close .B) = .ok (s3.setSide .B { s3.side .B with tcb := some (pasB4 tb) }, .closed .Ok) := by
    simp only [Sys.step, Op.side, h3b, c1]
  generalize hs4 : s3.setSide .B { s3.side .B with tcb := some (pasB4 tb) } = s4 at st4
  have h4a : (s4.side .A).tcb = some (actA3 ta ⟨(pasB1 tb).finAckHdr, []⟩) := by rw [← hs4]; exact h3a
  have h4b : (s4.side .B).tcb = some (pasB4 tb) := by rw [← hs4]; rfl
  have h4sa : (s4.side .A).submitted = (s3.side .A).submitted := by rw [← hs4]; rfl
  have h4sb : (s4.side .B).submitted = (s3.side .B).submitted := by rw [← hs4]; rfl
  have h4da : (s4.side .A).delivered = (s3.side .A).delivered := by rw [← hs4]; rfl
  have h4db : (s4.side .B).delivered = (s3.side .B).delivered := by rw [← hs4]; rfl
  have h4len : s4.historyLen = s3.historyLen := by rw [← hs4]; rfl
  -- phase 3: B's FIN
  obtain ⟨s5, ph3, r45, h5a, h5b, h5sa, h5sb, h5da, h5db, h5len⟩ :=
    phase_eval s4 (actA3 ta ⟨(pasB1 tb).finAckHdr, []⟩) (pasB4 tb) (actA4 ta ⟨(pasB1 tb).finAckHdr, []⟩) (pasB5 tb)
      (actA5 ta ⟨(pasB1 tb).finAckHdr, []⟩) (pasB5 tb) [] [pasFin tb] h4a h4b a7 c2 rfl a8
      (fun g hg => by cases hg)
      (fun g hg => by
        simp only [List.mem_singleton] at hg; subst hg
        exact ⟨c4.trans qb.lp, c5.trans qb.rp⟩)
  rw [a9] at h5a h5da
  rw [c6] at h5b h5db
  -- phase 4: A's ACK deletes B's TCB
  obtain ⟨s6, ph4, r56, h6a, h6b, h6sa, h6sb, h6da, h6db, h6len⟩ :=
    phase_eval_closeB s5 (actA5 ta ⟨(pasB1 tb).finAckHdr, []⟩) (pasB5 tb) (actA6 ta ⟨(pasB1 tb).finAckHdr, []⟩) (pasB6 tb)
      ⟨(actA4 ta ⟨(pasB1 tb).finAckHdr, []⟩).finAckHdr, []⟩ h5a h5b a10 c7 c8 ⟨a12.trans qa.lp, a13.trans qa.rp⟩
  rw [a14] at h6a h6da
  -- 2·MSL pass on A's side
  obtain ⟨ta7, tA⟩ := (advanceTime_timeWait (actA6 ta ⟨(pasB1 tb).finAckHdr, []⟩) (TIME_WAIT + 1) TIME_WAIT a15).1 (by omega)
  have st7 : s6.step (.tick .A (TIME_WAIT + 1)) =
      .ok (s6.setSide .A { s6.side .A with tcb := none, listen := none }, .tick .CloseConnection) := by
    simp only [Sys.step, Op.side, h6a, tA]
  refine ⟨s6.setSide .A { s6.side .A with tcb := none, listen := none }, ?_, ?_, rfl, h6b, ?_, ?_, ?_, ?_, ?_⟩
  · unfold releaseRoundSeq
    rw [st1]
    dsimp only
    rw [ph1]
    dsimp only
    rw [ph2]
    dsimp only
    rw [st4]
    dsimp only
    rw [ph3]
    dsimp only
    rw [ph4]
    dsimp only
    rw [st7]
  · exact ((((((FinRun.step (op := .close .A) (.refl _) trivial st1).trans (FinRun.of_plain r12)).trans
      (FinRun.of_plain r23)).trans (.step (op := .close .B) (.refl _) trivial st4)).trans (FinRun.of_plain r45)).trans
      r56).trans (.step (op := .tick .A (TIME_WAIT + 1)) (.refl _) trivial st7)
  · show (s6.side .A).submitted = _
    rw [h6sa, h5sa, h4sa, h3sa, h2sa, h1sa]
  · show (s6.side .B).submitted = _
    rw [h6sb, h5sb, h4sb, h3sb, h2sb, h1sb]
  · show (s6.side .A).delivered = _
    rw [h6da, h5da, h4da, h3da, h2da, h1da]; simp
  · show (s6.side .B).delivered = _
    rw [h6db, h5db, h4db, h3db, h2db, h1db]; simp
  · show s6.historyLen = _
    rw [h6len, h5len, h4len, h3len, h2len, h1len]; rfl

end Elvis.Tcp
