import ElvisVerif.Model.Socket
import Driver.Common
/-!
Line-protocol handlers for C02.

* `c02`        — recv / recv_msg unit correspondence over one connected datagram socket:
                 `snd <hex>` · `recv <n> <blocking>` · `recvmsg <blocking>`
* `c02-stack`  — the server's socket-layer event sequence of a full-stack run:
                 `listen <ep> <backlog>` · `notify <local> <remote>` · `arr <local> <remote> <chunk>` ·
                 `activate <listen-ep> <local-addr>` · `replay <local> <remote>` · `recv <local> <remote> <n>` ·
                 `recvmsg <local> <remote>` · `handoff <k> <perm>` ·
                 `close <local> <remote>` (an active socket is closed / dropped) ·
                 `closel <listen-ep>` (a listening socket is closed / dropped)
-/
namespace Driver.C02
open Elvis.Sock

def cap : Nat := Elvis.Gen.socketChannelCapacity

/-! ### unit -/

structure UState where
  sess : Session := { active := true }
  stored : Option Msg := none

def showRx : RxResult → String
  | .queued => "queued"
  | .stored => "stored"
  | .full => "full"
  | .closed => "closed"

def ustep (s : UState) (ws : List String) : UState × String :=
  match ws with
  | ["case", id] => ({}, s!"case {id}")
  | "cfg" :: _ => (s, "cfg")
  | ["snd", h] =>
    match parseHex h with
    | none => (s, "bad-op")
    | some b =>
      let r := s.sess.receive cap b
      ({ s with sess := r.1 }, showRx r.2)
  | ["recv", n, b] =>
    match n.toNat? with
    | none => (s, "bad-op")
    | some n =>
      let r := recv s.stored s.sess.chan n (b == "1")
      -- a call that ends up waiting has already swallowed the empty messages in front of it
      let s' : UState := { stored := r.stored, sess := { s.sess with chan := r.queue } }
      if r.blocked then (s', "blocked") else (s', s!"r {toHex r.out}")
  | ["recvmsg", b] =>
    match recvMsg s.stored s.sess.chan (b == "1") with
    | .msg m st q => ({ stored := st, sess := { s.sess with chan := q } }, s!"m {toHex m}")
    | .blocked => (s, "blocked")
    | .error => (s, "error")
  | _ => (s, "bad-op")

/-! ### full stack -/

def parseAddr (s : String) : Option Nat :=
  match s.splitOn "." with
  | [a, b, c, d] => do
    let a ← a.toNat?
    let b ← b.toNat?
    let c ← c.toNat?
    let d ← d.toNat?
    pure (((a * 256 + b) * 256 + c) * 256 + d)
  | _ => none

def parseEp (s : String) : Option Endpoint :=
  match s.splitOn ":" with
  | [a, p] => do pure ⟨(← parseAddr a), (← p.toNat?)⟩
  | _ => none

def showAddr (a : Nat) : String :=
  s!"{a / 16777216 % 256}.{a / 65536 % 256}.{a / 256 % 256}.{a % 256}"

def showEp (e : Endpoint) : String := s!"{showAddr e.addr}:{e.port}"

def parseChunk (s : String) : Option Bytes :=
  match s.splitOn ":" with
  | ["p", c, off, len] => do pure (patRange (← c.toNat?) (← off.toNat?) (← len.toNat?))
  | ["x", h] => parseHex h
  | _ => none

structure SState where
  api : Api := {}
  /-- `stored_message` of the socket of each session -/
  stored : List (Endpoints × Msg) := []

def SState.storedOf (s : SState) (id : Endpoints) : Option Msg :=
  (s.stored.find? (·.1 == id)).map (·.2)

def SState.setStored (s : SState) (id : Endpoints) (m : Option Msg) : SState :=
  let rest := s.stored.filter (fun e => !(e.1 == id))
  match m with
  | none => { s with stored := rest }
  | some m => { s with stored := rest ++ [(id, m)] }

def showDemux : DemuxResult → String
  | .delivered r => showRx r
  | .newSession => "norx"
  | .missingSession => "norx"
  | .backlogFull => "norx"

/-- is the observed order in which writes reached `Tcb::send` a behaviour of the hand-off model
under the discipline extracted from the source? -/
def reachable (k : Nat) (perm : List Nat) : Bool :=
  let d := codeDiscipline
  if !d.socketSendSpawns && !d.tcpSendSpawns then perm == List.range perm.length && perm.length ≤ k
  else perm.all (· < k) && perm.eraseDups.length == perm.length

/-- `SocketAPI::close_socket` of a listening socket bound to `ep`: its listen binding goes, and
so do the sessions keyed `(ep, r)` for the connection requests `r` still waiting in its backlog
(a socket that listened on 0.0.0.0 has none under that key: its sessions carry the address the
peer sent to).  Sessions of sockets that were already accepted stay.  (Op-language helper of the
driver; built from the model's own `Api` fields, no model definition is involved.) -/
def closeListener (a : Api) (ep : Endpoint) : Api :=
  match a.bindings.find? (·.ep == ep) with
  | none => a
  | some b =>
    { a with
      bindings := a.bindings.filter (fun x => !(x.ep == ep)),
      sessions := a.sessions.filter (fun e => !(e.1.loc == ep && b.pending.any (· == e.1.rem))) }

def sstep (s : SState) (ws : List String) : SState × String :=
  match ws with
  | ["case", id] => ({}, s!"case {id}")
  | "scn" :: _ => (s, "scn")
  | "crash" :: rest => (s, " ".intercalate ("crash" :: rest))
  | ["listen", ep, backlog] =>
    match parseEp ep, backlog.toNat? with
    | some e, some b =>
      match s.api.listen e b with
      | some a => ({ s with api := a }, "ok")
      | none => (s, "existing")
    | _, _ => (s, "bad-op")
  | ["notify", l, r] =>
    match parseEp l, parseEp r with
    | some l, some r => ({ s with api := s.api.notify ⟨l, r⟩ }, "ok")
    | _, _ => (s, "bad-op")
  | ["arr", l, r, c] =>
    match parseEp l, parseEp r, parseChunk c with
    | some l, some r, some b =>
      let res := s.api.demux cap ⟨l, r⟩ b
      ({ s with api := res.1 }, showDemux res.2)
    | _, _, _ => (s, "unknown")
  | ["activate", lep, addr] =>
    match parseEp lep, parseAddr addr with
    | some lep, some a =>
      match s.api.acceptActivate lep a with
      | some (api, id) => ({ s with api := api }, s!"activated {showEp id.rem}")
      | none => (s, "none")
    | _, _ => (s, "bad-op")
  | ["replay", l, r] =>
    match parseEp l, parseEp r with
    | some l, some r =>
      let res := s.api.acceptReplay cap ⟨l, r⟩
      ({ s with api := res.1 }, if res.2 then "replayed ok" else "replayed overflow")
    | _, _ => (s, "bad-op")
  | ["recv", l, r, n] =>
    match parseEp l, parseEp r, n.toNat? with
    | some l, some r, some n =>
      let id : Endpoints := ⟨l, r⟩
      match s.api.session? id with
      | none => (s, "nosession")
      | some se =>
        let out := recv (s.storedOf id) se.chan n false
        (({ s with api := s.api.setChan id out.queue }).setStored id out.stored,
          s!"r {out.out.length} {digest out.out}")
    | _, _, _ => (s, "bad-op")
  | ["recvmsg", l, r] =>
    match parseEp l, parseEp r with
    | some l, some r =>
      let id : Endpoints := ⟨l, r⟩
      match s.api.session? id with
      | none => (s, "nosession")
      | some se =>
        match recvMsg (s.storedOf id) se.chan false with
        | .msg m st q => (({ s with api := s.api.setChan id q }).setStored id st, s!"m {m.length} {digest m}")
        | .blocked => (s, "blocked")
        | .error => (s, "error")
    | _, _ => (s, "bad-op")
  | ["close", l, r] =>
    match parseEp l, parseEp r with
    | some l, some r =>
      let id : Endpoints := ⟨l, r⟩
      (({ s with api := s.api.removeSession id }).setStored id none, "closed")
    | _, _ => (s, "bad-op")
  | ["closel", ep] =>
    match parseEp ep with
    | some e => ({ s with api := closeListener s.api e }, "closed")
    | none => (s, "bad-op")
  | ["handoff", k, perm] =>
    match k.toNat?, (if perm == "-" then some [] else (perm.splitOn ",").mapM (·.toNat?)) with
    | some k, some p => (s, if reachable k p then "reachable" else "unreachable")
    | _, _ => (s, "bad-op")
  | _ => (s, "bad-op")

def dispatch (sub : String) (i o : IO.FS.Stream) : Option (IO Unit) :=
  if sub == "c02" then some (Driver.loop i o ustep {})
  else if sub == "c02-stack" then some (Driver.loop i o sstep {})
  else none

end Driver.C02
