import ElvisVerif.Lemmas.TcpConvCalm3
/-!
# C01 — towards convergence: the closed system nobody closes

System: `Model/TcpSys.lean`.  Quantification: `PlainRun` (`Lemmas/TcpConvInv.lean`) from the state after
`open A` + (`listen B` | `open B`) — any ISNs, any MTUs: any finite interleaving of `write`, `read`,
`tick`, `emit` and deliveries of ANY element of the history of everything ever emitted (loss,
duplication, reordering, arbitrary delay) to the side it is addressed to; no `close`, `abort`,
`drop`, raw `inject`.  H31 as `RoomH`: fewer than 2^31 − 2 bytes submitted per direction.
-/
namespace Elvis.Tcp
open Tcb

/-- **No RST is ever emitted between the two endpoints of a closed system nobody closes.**  In
    every reachable state (see the file header): no segment in the history of everything ever
    emitted has the RST bit — neither a TCB (for an unacceptable ACK in SYN-SENT / SYN-RECEIVED) nor
    the LISTEN / CLOSED handlers ever formed one —; no RST waits on a queue or in a reorder heap;
    neither side has lost its TCB or LISTEN binding; every TCB is in SYN-SENT, SYN-RECEIVED or
    ESTABLISHED.  (Proof: the acknowledgment invariant — every ACK number ever issued lies in
    `[ISS_peer + 1, RCV.NXT] ⊆ [ISS_peer + 1, SND.NXT_peer]` — makes the ACK test of block 2 succeed
    in SYN-SENT and SYN-RECEIVED; without RST nothing deletes a TCB; with both sides alive the CLOSED
    handler never runs, and the LISTEN handler sees only the peer's SYN.) -/
theorem c01_no_rst_in_closed_system (ia ib : Seq) (ma mb : U16) (simultaneous : Bool) (sys0 sys : Sys)
    (rs : List Res)
    (h0 : Sys.run {} [.open .A ia ma, if simultaneous then .open .B ib mb else .listen .B ib mb] = .ok (sys0, rs))
    (hrun : PlainRun sys0 sys) (h31 : RoomH sys) :
    (∀ σ ∈ sys.history, σ.hdr.ctl.rst = false) ∧
    (∀ x, (sys.side x).tcb.isSome = true ∨ (sys.side x).listen.isSome = true) ∧
    (∀ x t, (sys.side x).tcb = some t → C01.Ok3 t.state ∧ (∀ h ∈ t.outgoing.oneshot, h.ctl.rst = false) ∧
      (∀ tr ∈ t.outgoing.retransmit, tr.segment.hdr.ctl.rst = false) ∧
      (∀ σ ∈ t.incoming.segments, σ.hdr.ctl.rst = false)) := by
  have hc := conv_run (conv_init ia ib ma mb simultaneous sys0 rs h0) hrun h31
  refine ⟨hc.nr.hist, hc.nr.alive, fun x t ht => ?_⟩
  have n := hc.nr.tcb x t ht
  exact ⟨((hc.c01.side x).tcb t ht).st, n.one, n.rtx, n.heap⟩

/-! ### non-vacuity -/

/-- an executable form of `Op.Plain` / `PlainRun` for concrete runs -/
def plainB (s : Sys) : Op → Bool
  | .deliver x i =>
    match s.nth i with
    | none => true
    | some σ => σ.hdr.srcPort == x.peer.port && σ.hdr.dstPort == x.port
  | .write .. => true
  | .read _ => true
  | .tick .. => true
  | .emit _ => true
  | _ => false

theorem plainB_sound (s : Sys) (op : Op) (h : plainB s op = true) : Op.Plain s op := by
  cases op <;> simp only [plainB, Op.Plain] at h ⊢ <;> try trivial
  · intro σ hσ
    rw [hσ] at h
    simpa using h
  all_goals exact absurd h (by simp)

def plainRunB : Sys → List Op → Option Sys
  | s, [] => some s
  | s, op :: ops =>
    if plainB s op then
      match s.step op with
      | .ok (s', _) => plainRunB s' ops
      | .error _ => none
    else none

theorem PlainRun.head {s s1 s2 : Sys} {op : Op} {r : Res} (hp : Op.Plain s op)
    (e : s.step op = .ok (s1, r)) (h : PlainRun s1 s2) : PlainRun s s2 := by
  induction h with
  | refl => exact .step (.refl _) hp e
  | step _ hp' e' ih => exact .step ih hp' e'

theorem plainRunB_sound (s s' : Sys) (ops : List Op) (h : plainRunB s ops = some s') : PlainRun s s' := by
  induction ops generalizing s with
  | nil => simp only [plainRunB, Option.some.injEq] at h; subst h; exact .refl _
  | cons op ops ih =>
    unfold plainRunB at h
    split at h
    · rename_i hc
      split at h
      · rename_i s1 r e
        exact PlainRun.head (plainB_sound s op hc) e (ih s1 h)
      · simp at h
    · simp at h

/-- simultaneous open with crossing SYNs, data in both directions, a duplicate and a reordering:
    a plain run; 7 + 2 history elements, none of them a RST -/
def noRstRun : Bool :=
  match Sys.run {} [.open .A 7 1500, .open .B 4294967295 100] with
  | .ok (sys0, _) =>
    match plainRunB sys0 [.write .A [9, 8], .emit .A, .emit .B, .deliver .B 0, .deliver .A 1, .emit .A, .emit .B,
        .deliver .A 4, .deliver .B 2, .deliver .B 3, .write .B [5], .emit .B, .deliver .A 7, .deliver .A 7,
        .read .A, .read .B] with
    | some sys => sys.history.length == 8 && sys.history.all (fun σ => !σ.hdr.ctl.rst) &&
        decide (sys.a.submitted.length + 2 < 2147483648) && decide (sys.b.submitted.length + 2 < 2147483648)
    | none => false
  | .error _ => false

example : ∃ sys0 sys : Sys, ∃ rs, Sys.run {} [.open .A 7 1500, if true then .open .B 4294967295 100 else .listen .B 4294967295 100]
      = .ok (sys0, rs) ∧ PlainRun sys0 sys ∧ RoomH sys ∧ sys.history.length = 8 := by
  have key : noRstRun = true := by decide
  unfold noRstRun at key
  split at key
  · rename_i sys0 rs e0
    split at key
    · rename_i sys e1
      simp only [Bool.and_eq_true, beq_iff_eq, decide_eq_true_eq] at key
      exact ⟨sys0, sys, rs, e0, plainRunB_sound _ _ _ e1, ⟨key.1.2, key.2⟩, key.1.1.1⟩
    · simp at key
  · simp at key

/-! ## convergence -/

/-- every invariant of this development holds in every reachable state of the closed system nobody
    closes (MTUs leave room for the headers; H31) -/
theorem good_of_reach (ia ib : Seq) (ma mb : U16) (simultaneous : Bool) (sys0 s : Sys) (rs : List Res)
    (hma : SPACE_FOR_HEADERS ≤ ma.toNat) (hmb : SPACE_FOR_HEADERS ≤ mb.toNat)
    (h0 : Sys.run {} [.open .A ia ma, if simultaneous then .open .B ib mb else .listen .B ib mb] = .ok (sys0, rs))
    (hrun : PlainRun sys0 s) (h31 : RoomH s) : Good (issOf ia ib) s :=
  have h := ext_run (conv_init ia ib ma mb simultaneous sys0 rs h0)
    (ext_init ia ib ma mb simultaneous sys0 rs hma hmb h0) hrun h31
  ⟨h.1, h.2, h31⟩

/-- **C01 convergence, from a synchronised quiescent-network state** (`_partial`: the starting state is
    restricted, see below; everything else is as in DESIGN.md section 8).

    Starting state `s`: any reachable state (file header; MTUs ≥ `SPACE_FOR_HEADERS` at `open`/`listen`,
    H31) that is *steady* (`Lemmas/TcpConvSteady.lean`: both endpoints ESTABLISHED with more than
    `SPACE_FOR_HEADERS` of MTU, reorder heaps and receive buffers empty, `RCV.NXT_peer = SND.NXT` both
    ways, nothing flagged for retransmission, every byte acknowledged or its ACK waiting on the peer's
    one-shot queue) with empty retransmission queues — and ANY amount of text the applications have
    submitted and `segments()` has not yet cut into segments (`outgoing.text`, on both sides).

    `fairRound k` = `tick A (RTO + 1)`, `tick B (RTO + 1)`, then `k` exchange phases (`emit A`, `emit B`,
    delivery of everything just emitted to its addressee in emission order, `read A`, `read B`;
    `Lemmas/TcpConvPhase.lean`).  With `n = ⌈max unsent / 65535⌉` (given as `unsent ≤ 65535 · n`), ONE
    fair round of `2n + 1` phases ends in a state where
    * everything submitted has been handed to the peer's application (`delivered = submitted`, both
      directions; the receive buffers are empty, so nothing is merely "readable"),
    * both retransmission queues, both one-shot queues and both unsent texts are empty (`Done`),
    * `segments()` returns `[]` on both sides,
    * and every further fair round (any number of phases) ends in such a state again with the history
      of emitted segments unchanged: silence, for ever.

    The bound is explicit: `2⌈max unsent / 65535⌉ + 1` phases — two phases per window of 65535 bytes (one
    sends until the peer's window is full, the next brings the acknowledgment that reopens it), plus one
    for the last acknowledgment. -/
theorem c01_converges_partial (ia ib : Seq) (ma mb : U16) (simultaneous : Bool) (sys0 s : Sys) (rs : List Res)
    (hma : SPACE_FOR_HEADERS ≤ ma.toNat) (hmb : SPACE_FOR_HEADERS ≤ mb.toNat)
    (h0 : Sys.run {} [.open .A ia ma, if simultaneous then .open .B ib mb else .listen .B ib mb] = .ok (sys0, rs))
    (hrun : PlainRun sys0 s) (h31 : RoomH s) (ta tb : Tcb) (hs : Steady s ta tb)
    (qa : ta.outgoing.retransmit = []) (qb : tb.outgoing.retransmit = [])
    (n : Nat) (wa : ta.outgoing.text.length ≤ 65535 * n) (wb : tb.outgoing.text.length ≤ 65535 * n) :
    ∃ s' ta' tb', fairRound (2 * n + 1) s = .ok s' ∧ PlainRun s s' ∧ Done s' ta' tb' ∧
      s'.b.delivered = s'.a.submitted ∧ s'.a.delivered = s'.b.submitted ∧
      s.a.submitted <+: s'.a.submitted ∧ s.b.submitted <+: s'.b.submitted ∧
      (∀ x, ∃ s1, s'.step (.emit x) = .ok (s1, .emitted s'.historyLen []) ∧ s1.history = s'.history) ∧
      (∀ k, ∃ s'' ta'' tb'', fairRound k s' = .ok s'' ∧ Done s'' ta'' tb'' ∧ s''.historyLen = s'.historyLen ∧
        s''.b.delivered = s''.a.submitted ∧ s''.a.delivered = s''.b.submitted) := by
  have hg := good_of_reach ia ib ma mb simultaneous sys0 s rs hma hmb h0 hrun h31
  obtain ⟨s', ta', tb', hf, hr, hg', hd⟩ := fairRound_done n s ta tb hg hs qa qb wa wb
  obtain ⟨d1, d2⟩ := done_stream hg' ta' tb' hd
  refine ⟨s', ta', tb', hf, hr, hd, d1, d2, hr.sub .A, hr.sub .B, fun x => done_silent hg' ta' tb' hd x, fun k => ?_⟩
  obtain ⟨s'', ta'', tb'', hf', _, hg'', hd', hl⟩ := done_fairRound k s' ta' tb' hg' hd
  obtain ⟨e1, e2⟩ := done_stream hg'' ta'' tb'' hd'
  exact ⟨s'', ta'', tb'', hf', hd', hl, e1, e2⟩

/-- the same with the bound computed: `n = ⌈max (unsent_A, unsent_B) / 65535⌉` -/
theorem c01_converges_bound_partial (ia ib : Seq) (ma mb : U16) (simultaneous : Bool) (sys0 s : Sys) (rs : List Res)
    (hma : SPACE_FOR_HEADERS ≤ ma.toNat) (hmb : SPACE_FOR_HEADERS ≤ mb.toNat)
    (h0 : Sys.run {} [.open .A ia ma, if simultaneous then .open .B ib mb else .listen .B ib mb] = .ok (sys0, rs))
    (hrun : PlainRun sys0 s) (h31 : RoomH s) (ta tb : Tcb) (hs : Steady s ta tb)
    (qa : ta.outgoing.retransmit = []) (qb : tb.outgoing.retransmit = []) :
    ∃ s' ta' tb',
      fairRound (2 * ((max ta.outgoing.text.length tb.outgoing.text.length + 65534) / 65535) + 1) s = .ok s' ∧
      Done s' ta' tb' ∧ s'.b.delivered = s'.a.submitted ∧ s'.a.delivered = s'.b.submitted := by
  obtain ⟨s', ta', tb', hf, _, hd, d1, d2, _⟩ := c01_converges_partial ia ib ma mb simultaneous sys0 s rs hma hmb h0 hrun h31
    ta tb hs qa qb ((max ta.outgoing.text.length tb.outgoing.text.length + 65534) / 65535) (by omega) (by omega)
  exact ⟨s', ta', tb', hf, hd, d1, d2⟩

/-- **One exchange phase strictly makes progress** (from ANY reachable steady state — data may be in
    flight, acknowledged or not, as long as the ACK for it is waiting at the peer).  The phase succeeds,
    ends in a steady state, and on each side `X` (TCB `t` before, `t'` after), with
    `Δ = min |unsent| (SND.WND − queued bytes)` (`emitAmount t`):
    * the unsent text shrinks by exactly `Δ` bytes (`Δ > 0` unless nothing is unsent or 65535 bytes
      are queued);
    * everything that was unacknowledged is acknowledged: `SND.UNA' = SND.NXT` (old), so at most the `Δ`
      new bytes stay on the retransmission queue;
    * everything sent has been received: `RCV.NXT_peer' = SND.NXT'` (part of `Steady`).
    Hence the measure `(unsent, unacknowledged)` decreases in the sense that two phases retire
    `min |unsent| 65535` unsent bytes (`c01_converges_two_phases_partial`) and a phase with nothing unsent
    leaves nothing unacknowledged (`Done`). -/
theorem c01_converges_one_round_partial (ia ib : Seq) (ma mb : U16) (simultaneous : Bool) (sys0 s : Sys) (rs : List Res)
    (hma : SPACE_FOR_HEADERS ≤ ma.toNat) (hmb : SPACE_FOR_HEADERS ≤ mb.toNat)
    (h0 : Sys.run {} [.open .A ia ma, if simultaneous then .open .B ib mb else .listen .B ib mb] = .ok (sys0, rs))
    (hrun : PlainRun sys0 s) (h31 : RoomH s) (ta tb : Tcb) (hs : Steady s ta tb) :
    ∃ s' ta' tb', phase s = .ok s' ∧ PlainRun s s' ∧ Steady s' ta' tb' ∧
      ta'.outgoing.text = ta.outgoing.text.drop (emitAmount ta) ∧ ta'.snd.una = ta.snd.nxt ∧
      rtxBytes ta'.outgoing.retransmit ≤ emitAmount ta ∧
      tb'.outgoing.text = tb.outgoing.text.drop (emitAmount tb) ∧ tb'.snd.una = tb.snd.nxt ∧
      rtxBytes tb'.outgoing.retransmit ≤ emitAmount tb ∧
      emitAmount ta = min ta.outgoing.text.length (65535 - rtxBytes ta.outgoing.retransmit) ∧
      emitAmount tb = min tb.outgoing.text.length (65535 - rtxBytes tb.outgoing.retransmit) := by
  have hg := good_of_reach ia ib ma mb simultaneous sys0 s rs hma hmb h0 hrun h31
  obtain ⟨s', ta', tb', hp, hr, _, hs', pa, pb⟩ := phase_steady s hg ta tb hs
  exact ⟨s', ta', tb', hp, hr, hs', pa.text, pa.una, pa.bytes, pb.text, pb.una, pb.bytes,
    emitAmount_eq hg .A ta hs.ha hs.a.st, emitAmount_eq hg .B tb hs.hb hs.b.st⟩

/-- two phases retire a window: the unsent text of each side shrinks by `min |unsent| 65535` -/
theorem c01_converges_two_phases_partial (ia ib : Seq) (ma mb : U16) (simultaneous : Bool) (sys0 s : Sys)
    (rs : List Res) (hma : SPACE_FOR_HEADERS ≤ ma.toNat) (hmb : SPACE_FOR_HEADERS ≤ mb.toNat)
    (h0 : Sys.run {} [.open .A ia ma, if simultaneous then .open .B ib mb else .listen .B ib mb] = .ok (sys0, rs))
    (hrun : PlainRun sys0 s) (h31 : RoomH s) (ta tb : Tcb) (hs : Steady s ta tb) :
    ∃ s' ta' tb', phases 2 s = .ok s' ∧ PlainRun s s' ∧ Steady s' ta' tb' ∧
      ta'.outgoing.text.length ≤ ta.outgoing.text.length - min ta.outgoing.text.length 65535 ∧
      tb'.outgoing.text.length ≤ tb.outgoing.text.length - min tb.outgoing.text.length 65535 := by
  have hg := good_of_reach ia ib ma mb simultaneous sys0 s rs hma hmb h0 hrun h31
  obtain ⟨s', ta', tb', hp, hr, _, hs', la, lb⟩ := phase_two s hg ta tb hs
  exact ⟨s', ta', tb', hp, hr, hs', la, lb⟩

/-- **Silence when done.**  In a reachable `Done` state (steady; no unsent text, empty retransmission and
    one-shot queues on both sides): the stream is complete (`delivered = submitted` both ways),
    `segments()` returns `[]` on both sides, and under ANY further fair round (timers expire, any number
    of exchange phases) the system stays `Done`, the stream stays complete and the history of emitted
    segments does not grow: both sides emit nothing, for ever. -/
theorem c01_silence_when_done (ia ib : Seq) (ma mb : U16) (simultaneous : Bool) (sys0 s : Sys) (rs : List Res)
    (hma : SPACE_FOR_HEADERS ≤ ma.toNat) (hmb : SPACE_FOR_HEADERS ≤ mb.toNat)
    (h0 : Sys.run {} [.open .A ia ma, if simultaneous then .open .B ib mb else .listen .B ib mb] = .ok (sys0, rs))
    (hrun : PlainRun sys0 s) (h31 : RoomH s) (ta tb : Tcb) (hd : Done s ta tb) :
    s.b.delivered = s.a.submitted ∧ s.a.delivered = s.b.submitted ∧
    (∀ x, ∃ s1, s.step (.emit x) = .ok (s1, .emitted s.historyLen []) ∧ s1.history = s.history) ∧
    (∀ k, ∃ s' ta' tb', fairRound k s = .ok s' ∧ PlainRun s s' ∧ Done s' ta' tb' ∧ s'.historyLen = s.historyLen ∧
      s'.b.delivered = s'.a.submitted ∧ s'.a.delivered = s'.b.submitted) := by
  have hg := good_of_reach ia ib ma mb simultaneous sys0 s rs hma hmb h0 hrun h31
  obtain ⟨d1, d2⟩ := done_stream hg ta tb hd
  refine ⟨d1, d2, fun x => done_silent hg ta tb hd x, fun k => ?_⟩
  obtain ⟨s', ta', tb', hf, hr, hg', hd', hl⟩ := done_fairRound k s ta tb hg hd
  obtain ⟨e1, e2⟩ := done_stream hg' ta' tb' hd'
  exact ⟨s', ta', tb', hf, hr, hd', hl, e1, e2⟩

/-- The convergence clause from ANY reachable state (NOT proved): "from every reachable state of the
    closed system nobody closes, some number of fair rounds — bounded by a function of the unsent,
    unacknowledged and undelivered byte counts and the window — leads to a `Done` state".
    `c01_converges_partial` proves it for steady starting states with empty retransmission queues, and
    `c01_converges_one_round_partial` shows the progress of one phase from every steady state.  Missing
    for arbitrary reachable states:
    1. the heap order.  After loss or reordering the reorder heap holds parked segments, and a pure ACK
       emitted before retransmitted data is parked when it arrives first.  `segment_arrives` takes the
       heap's root and stops when it is ahead of `RCV.NXT`; that the root is the segment with the least
       sequence number needs the binary-heap invariant of `std::BinaryHeap` for the list model
       (`Base/ListHeap.lean`; proved only for the array model, `Lemmas/Heap.lean`, and only for total
       preorders — `Segment::cmp` is one only on a window of 2^31 sequence numbers);
    2. (done for *calm* states, `c01_converges_after_loss_partial`: heaps, receive buffers and one-shot
       queues empty, anything on the retransmission queues) retransmission after loss;
    3. the handshake states (SYN-SENT / SYN-RECEIVED), non-empty receive buffers and non-empty one-shot
       queues at the start. -/
def C01ConvergesFullStatement : Prop :=
  ∀ (ia ib : Seq) (ma mb : U16) (simultaneous : Bool) (sys0 s : Sys) (rs : List Res),
    100 ≤ ma.toNat → 100 ≤ mb.toNat →
    Sys.run {} [.open .A ia ma, if simultaneous then .open .B ib mb else .listen .B ib mb] = .ok (sys0, rs) →
    PlainRun sys0 s → RoomH s →
    ∃ (rounds : List Nat) (s' : Sys) (ta' tb' : Tcb),
      (rounds.foldlM (fun st k => fairRound k st) s = .ok s') ∧ Done s' ta' tb'

/-! ### non-vacuity of the convergence theorems -/

/-- executable form of `SteadyX` -/
def steadyXB (t u : Tcb) : Bool :=
  t.state == .Established && t.incoming.segments.isEmpty && t.incoming.text.isEmpty && u.rcv.nxt == t.snd.nxt &&
  t.outgoing.retransmit.all (fun tr => !tr.needsTransmit) &&
  (t.snd.una == t.snd.nxt || match u.outgoing.oneshot.getLast? with
    | some h => h.ack == u.rcv.nxt
    | none => false) &&
  decide (SPACE_FOR_HEADERS < t.mtu.toNat)

theorem steadyXB_sound (t u : Tcb) (h : steadyXB t u = true) : SteadyX t u := by
  unfold steadyXB at h
  simp only [Bool.and_eq_true, beq_iff_eq, List.isEmpty_iff, List.all_eq_true, Bool.not_eq_true', Bool.or_eq_true,
    decide_eq_true_eq] at h
  obtain ⟨⟨⟨⟨⟨⟨h1, h2⟩, h3⟩, h4⟩, h5⟩, h6⟩, h7⟩ := h
  refine ⟨h1, h2, h3, h4, h5, ?_, h7⟩
  rcases h6 with h6 | h6
  · exact Or.inl h6
  · right
    split at h6
    · rename_i hd hl
      exact ⟨hd, hl, by simpa using h6⟩
    · cases h6

/-- handshake A → B completed (SYN, SYN-ACK, ACK all delivered), then A's application writes 3 bytes
    and B's writes 2: nothing has been segmentized yet -/
def convOps : List Op :=
  [.emit .A, .deliver .B 0, .emit .B, .deliver .A 1, .emit .A, .deliver .B 2, .write .A [1, 2, 3], .write .B [9, 8]]

def convCheck : Bool :=
  match Sys.run {} [.open .A 1000 1500, .listen .B 5000 1500] with
  | .ok (sys0, _) =>
    match plainRunB sys0 convOps with
    | some s =>
      decide (s.a.submitted.length + 2 < 2147483648) && decide (s.b.submitted.length + 2 < 2147483648) &&
      (match s.a.tcb, s.b.tcb with
        | some ta, some tb => steadyXB ta tb && steadyXB tb ta && ta.outgoing.retransmit.isEmpty &&
            tb.outgoing.retransmit.isEmpty && ta.outgoing.text == [1, 2, 3] && tb.outgoing.text == [9, 8]
        | _, _ => false) &&
      (match fairRound 3 s with
        | .ok s' => s'.b.delivered == [1, 2, 3] && s'.a.delivered == [9, 8] && s'.historyLen == 7
        | .error _ => false)
    | none => false
  | .error _ => false

/-- the hypotheses of `c01_converges_partial` hold in that reachable state (with `n = 1`), and the round it
    promises, evaluated, hands `[1, 2, 3]` to B's application and `[9, 8]` to A's (4 segments exchanged) -/
example : ∃ sys0 s : Sys, ∃ rs, ∃ ta tb : Tcb,
    Sys.run {} [.open .A 1000 1500, if false then .open .B 5000 1500 else .listen .B 5000 1500] = .ok (sys0, rs) ∧
    PlainRun sys0 s ∧ RoomH s ∧ Steady s ta tb ∧ ta.outgoing.retransmit = [] ∧ tb.outgoing.retransmit = [] ∧
    ta.outgoing.text.length ≤ 65535 * 1 ∧ tb.outgoing.text.length ≤ 65535 * 1 ∧
    ∃ s', fairRound (2 * 1 + 1) s = .ok s' ∧ s'.b.delivered = [1, 2, 3] ∧ s'.a.delivered = [9, 8] := by
  have key : convCheck = true := by decide
  unfold convCheck at key
  split at key
  · rename_i sys0 rs e0
    split at key
    · rename_i s e1
      simp only [Bool.and_eq_true, decide_eq_true_eq] at key
      obtain ⟨⟨⟨r1, r2⟩, k1⟩, k2⟩ := key
      split at k1
      · rename_i ta tb hta htb
        simp only [Bool.and_eq_true, List.isEmpty_iff, beq_iff_eq] at k1
        obtain ⟨⟨⟨⟨⟨x1, x2⟩, x3⟩, x4⟩, x5⟩, x6⟩ := k1
        split at k2
        · rename_i s' e2
          simp only [Bool.and_eq_true, beq_iff_eq] at k2
          exact ⟨sys0, s, rs, ta, tb, e0, plainRunB_sound _ _ _ e1, ⟨r1, r2⟩,
            ⟨hta, htb, steadyXB_sound _ _ x1, steadyXB_sound _ _ x2⟩, x3, x4, by rw [x5]; decide, by rw [x6]; decide,
            s', e2, k2.1.1, k2.1.2⟩
        · simp at k2
      · simp at k1
    · simp at key
  · simp at key

/-! ## convergence after loss -/

/-- **C01 convergence after loss** (`_partial`: the starting state is restricted to *calm* states).

    Starting state `s`: any reachable state (file header; MTUs ≥ `SPACE_FOR_HEADERS`, H31) that is *calm*
    (`Lemmas/TcpConvCalm2.lean`): both endpoints ESTABLISHED with their SYN acknowledged
    (`SND.UNA ≠ ISS`) and more than `SPACE_FOR_HEADERS` of MTU; reorder heaps, receive buffers and one-shot
    queues empty; retransmission timers at most RTO.  NOTHING is assumed about what the network did:
    ANY segments may wait on the retransmission queues, acknowledged by the peer or not, received by the
    peer or not — data segments and acknowledgments may have been lost, in any number, in both
    directions —, and ANY amount of text may be unsent on both sides.

    With `unsent ≤ 65535 · n` on both sides, ONE fair round of `2n + 2` phases (`fairRound`: both timers
    expire, which flags every queue entry for retransmission; the first phase re-sends both queues
    whole, followed by what the window admits of new data, and the receivers answer what they already
    have with an ACK and take the rest, in order; then `2n + 1` phases as in `c01_converges_partial`)
    ends in a `Done` state: everything submitted has been delivered to the peer's application (both
    directions), all queues and unsent texts are empty, `segments()` returns `[]` on both sides, and
    every further fair round ends `Done` again with the history unchanged. -/
theorem c01_converges_after_loss_partial (ia ib : Seq) (ma mb : U16) (simultaneous : Bool) (sys0 s : Sys)
    (rs : List Res) (hma : SPACE_FOR_HEADERS ≤ ma.toNat) (hmb : SPACE_FOR_HEADERS ≤ mb.toNat)
    (h0 : Sys.run {} [.open .A ia ma, if simultaneous then .open .B ib mb else .listen .B ib mb] = .ok (sys0, rs))
    (hrun : PlainRun sys0 s) (h31 : RoomH s) (ta tb : Tcb) (hc : Calm s ta tb)
    (n : Nat) (wa : ta.outgoing.text.length ≤ 65535 * n) (wb : tb.outgoing.text.length ≤ 65535 * n) :
    ∃ s' ta' tb', fairRound (2 * n + 2) s = .ok s' ∧ PlainRun s s' ∧ Done s' ta' tb' ∧
      s'.b.delivered = s'.a.submitted ∧ s'.a.delivered = s'.b.submitted ∧
      s.a.submitted <+: s'.a.submitted ∧ s.b.submitted <+: s'.b.submitted ∧
      (∀ x, ∃ s1, s'.step (.emit x) = .ok (s1, .emitted s'.historyLen []) ∧ s1.history = s'.history) ∧
      (∀ k, ∃ s'' ta'' tb'', fairRound k s' = .ok s'' ∧ Done s'' ta'' tb'' ∧ s''.historyLen = s'.historyLen ∧
        s''.b.delivered = s''.a.submitted ∧ s''.a.delivered = s''.b.submitted) := by
  have hg := good_of_reach ia ib ma mb simultaneous sys0 s rs hma hmb h0 hrun h31
  obtain ⟨s', ta', tb', hf, hr, hg', hd⟩ := fairRound_calm n s ta tb hg hc wa wb
  obtain ⟨d1, d2⟩ := done_stream hg' ta' tb' hd
  refine ⟨s', ta', tb', hf, hr, hd, d1, d2, hr.sub .A, hr.sub .B, fun x => done_silent hg' ta' tb' hd x, fun k => ?_⟩
  obtain ⟨s'', ta'', tb'', hf', _, hg'', hd', hl⟩ := done_fairRound k s' ta' tb' hg' hd
  obtain ⟨e1, e2⟩ := done_stream hg'' ta'' tb'' hd'
  exact ⟨s'', ta'', tb'', hf', hd', hl, e1, e2⟩

/-- executable form of `CalmX` -/
def calmXB (t : Tcb) : Bool :=
  t.state == .Established && t.incoming.segments.isEmpty && t.incoming.text.isEmpty && t.outgoing.oneshot.isEmpty &&
  t.snd.una != t.snd.iss && decide (SPACE_FOR_HEADERS < t.mtu.toNat) && decide (t.timeouts.retransmission ≤ RTO)

theorem calmXB_sound (t : Tcb) (h : calmXB t = true) : CalmX t := by
  unfold calmXB at h
  simp only [Bool.and_eq_true, beq_iff_eq, List.isEmpty_iff, bne_iff_ne, ne_eq, decide_eq_true_eq] at h
  obtain ⟨⟨⟨⟨⟨⟨h1, h2⟩, h3⟩, h4⟩, h5⟩, h6⟩, h7⟩ := h
  exact ⟨h1, h2, h3, h4, h5, h6, h7⟩

/-- handshake completed; A writes 3 bytes and emits them — LOST (history element 3 is never delivered);
    B writes 2 bytes, emits them (element 4), A receives and reads them and emits its ACK (element 5) —
    LOST; A's application writes one more byte.  Both retransmission queues are non-empty. -/
def lossOps : List Op :=
  [.emit .A, .deliver .B 0, .emit .B, .deliver .A 1, .emit .A, .deliver .B 2,
   .write .A [1, 2, 3], .emit .A, .write .B [9, 8], .emit .B, .deliver .A 4, .read .A, .emit .A, .write .A [4]]

def lossCheck : Bool :=
  match Sys.run {} [.open .A 1000 1500, .listen .B 5000 1500] with
  | .ok (sys0, _) =>
    match plainRunB sys0 lossOps with
    | some s =>
      decide (s.a.submitted.length + 2 < 2147483648) && decide (s.b.submitted.length + 2 < 2147483648) &&
      (match s.a.tcb, s.b.tcb with
        | some ta, some tb => calmXB ta && calmXB tb && ta.outgoing.retransmit.length == 1 &&
            tb.outgoing.retransmit.length == 1 && ta.outgoing.text == [4] && tb.outgoing.text == [] &&
            s.b.delivered == [] && s.a.delivered == [9, 8]
        | _, _ => false) &&
      (match fairRound 4 s with
        | .ok s' => s'.b.delivered == [1, 2, 3, 4] && s'.a.delivered == [9, 8]
        | .error _ => false)
    | none => false
  | .error _ => false

/-- the hypotheses of `c01_converges_after_loss_partial` hold in that reachable state (`n = 1`): B has received
    nothing of A's stream, B's data is unacknowledged; the promised round, evaluated, completes both streams -/
example : ∃ sys0 s : Sys, ∃ rs, ∃ ta tb : Tcb,
    Sys.run {} [.open .A 1000 1500, if false then .open .B 5000 1500 else .listen .B 5000 1500] = .ok (sys0, rs) ∧
    PlainRun sys0 s ∧ RoomH s ∧ Calm s ta tb ∧ ta.outgoing.retransmit ≠ [] ∧ tb.outgoing.retransmit ≠ [] ∧
    s.b.delivered = [] ∧
    ta.outgoing.text.length ≤ 65535 * 1 ∧ tb.outgoing.text.length ≤ 65535 * 1 ∧
    ∃ s', fairRound (2 * 1 + 2) s = .ok s' ∧ s'.b.delivered = [1, 2, 3, 4] ∧ s'.a.delivered = [9, 8] := by
  have key : lossCheck = true := by decide
  unfold lossCheck at key
  split at key
  · rename_i sys0 rs e0
    split at key
    · rename_i s e1
      simp only [Bool.and_eq_true, decide_eq_true_eq] at key
      obtain ⟨⟨⟨r1, r2⟩, k1⟩, k2⟩ := key
      split at k1
      · rename_i ta tb hta htb
        simp only [Bool.and_eq_true, beq_iff_eq] at k1
        obtain ⟨⟨⟨⟨⟨⟨⟨x1, x2⟩, x3⟩, x4⟩, x5⟩, x6⟩, x7⟩, x8⟩ := k1
        split at k2
        · rename_i s' e2
          simp only [Bool.and_eq_true, beq_iff_eq] at k2
          exact ⟨sys0, s, rs, ta, tb, e0, plainRunB_sound _ _ _ e1, ⟨r1, r2⟩,
            ⟨hta, htb, calmXB_sound _ x1, calmXB_sound _ x2⟩,
            (fun h => by rw [h] at x3; cases x3), (fun h => by rw [h] at x4; cases x4), x7,
            by rw [x5]; decide, by rw [x6]; decide, s', e2, k2.1, k2.2⟩
        · simp at k2
      · simp at k1
    · simp at key
  · simp at key

end Elvis.Tcp
