import ElvisVerif.Model.Dhcp
import ElvisVerif.Props.C15
/-!
Helper lemmas for the DHCP clause of C15: the invariant `DInv` of the message-level transition
system and its preservation by every kind of world update.
-/
namespace Elvis.Dhcp
open Elvis.IpGen

/-- datagrams that name a leased address: Offer, Request, Ack -/
def isLeaseMsg (t : MsgType) : Prop := t = .offer ∨ t = .request ∨ t = .ack

/-- two Release datagrams never name the same address -/
def relDistinct (p q : Packet) : Prop := p.typ = .release → q.typ = .release → p.yourIp ≠ q.yourIp

/-- what holds in every reachable world.  `owner` (ghost) lists the outstanding leases
    `(ip, client, release under way)`. -/
structure DInv (pool : Range) (w : World) : Prop where
  sorted : Sorted w.gen
  bounded : Bounded w.gen
  availPool : ∀ a, avail w.gen a → inR pool a
  /-- one lease per address -/
  ownDistinct : w.owner.Pairwise (fun x y => x.1 ≠ y.1)
  /-- a leased address is not on offer, and came from the pool -/
  ownNotAvail : ∀ e ∈ w.owner, ¬ avail w.gen e.1 ∧ e.1 < 2 ^ 32 ∧ inR pool e.1
  /-- every lease started with an Offer to that client -/
  ownOffered : ∀ e ∈ w.owner, (e.2.1, e.1) ∈ w.offered
  /-- Offer/Request/Ack in flight belong to a live lease of the client whose session carries them -/
  pktLease : ∀ p ∈ w.net, isLeaseMsg p.typ → (p.yourIp, p.client, false) ∈ w.owner
  /-- a Release in flight belongs to a lease marked as being released -/
  pktRelease : ∀ p ∈ w.net, p.typ = .release → (p.yourIp, p.client, true) ∈ w.owner
  relOnce : w.net.Pairwise relDistinct
  /-- an address a client stores is a live lease of that client -/
  stored : ∀ c a, w.clients[c]? = some (some a) → (a, c, false) ∈ w.owner

/-! equation lemmas (`simp only [serverDemux]` loops on the wildcard arm; these are `rfl`) -/
theorem serverDemux_discover (w : World) (c y : Nat) :
    serverDemux w c .discover y =
      (match fetchIp w.gen with
       | .error e => .error e
       | .ok (_, none) => .error exhaustedPanic
       | .ok (g', some ip) =>
         .ok { w with gen := g', net := w.net ++ [⟨false, c, .offer, ip⟩], offered := (c, ip) :: w.offered, owner := (ip, c, false) :: w.owner }) := by
  unfold serverDemux; rfl
theorem serverDemux_request (w : World) (c y : Nat) :
    serverDemux w c .request y = .ok { w with net := w.net ++ [⟨false, c, .ack, y⟩] } := rfl
theorem serverDemux_release (w : World) (c y : Nat) :
    serverDemux w c .release y =
      (match returnIp w.gen y with
       | .error e => .error e
       | .ok g' => .ok { w with gen := g', owner := w.owner.filter (fun e => e.1 != y) }) := by
  unfold serverDemux; rfl
theorem serverDemux_offer (w : World) (c y : Nat) : serverDemux w c .offer y = .ok w := rfl
theorem serverDemux_decline (w : World) (c y : Nat) : serverDemux w c .decline y = .ok w := rfl
theorem serverDemux_ack (w : World) (c y : Nat) : serverDemux w c .ack y = .ok w := rfl
theorem serverDemux_nack (w : World) (c y : Nat) : serverDemux w c .nack y = .ok w := rfl

theorem own_unique {l : List (Nat × Nat × Bool)} (hp : l.Pairwise (fun x y => x.1 ≠ y.1))
    {e1 e2 : Nat × Nat × Bool} (h1 : e1 ∈ l) (h2 : e2 ∈ l) (he : e1.1 = e2.1) : e1 = e2 := by
  induction l with
  | nil => cases h1
  | cons z zs ih =>
    rw [List.pairwise_cons] at hp
    rcases List.mem_cons.1 h1 with a1 | a1
    · rcases List.mem_cons.1 h2 with a2 | a2
      · rw [a1, a2]
      · rw [a1] at he; exact absurd he (hp.1 e2 a2)
    · rcases List.mem_cons.1 h2 with a2 | a2
      · rw [a2] at he; exact absurd he.symm (hp.1 e1 a1)
      · exact ih hp.2 a1 a2

/-- picking datagram `i` out of the bag -/
theorem net_split {l : List Packet} {i : Nat} {p : Packet} (h : l[i]? = some p) :
    ∃ l1 l2, l = l1 ++ p :: l2 ∧ l.eraseIdx i = l1 ++ l2 := by
  induction l generalizing i with
  | nil => simp at h
  | cons x xs ih =>
    cases i with
    | zero => simp at h; subst h; exact ⟨[], xs, rfl, rfl⟩
    | succ j =>
      simp at h
      obtain ⟨l1, l2, e1, e2⟩ := ih h
      exact ⟨x :: l1, l2, by rw [e1]; rfl, by simp [e2]⟩

/-- removing datagrams keeps the invariant -/
theorem dinv_sub {pool : Range} {w : World} (h : DInv pool w) (l : List Packet) (hl : l.Sublist w.net) :
    DInv pool { w with net := l } :=
  { h with
    pktLease := fun p hp => h.pktLease p (hl.subset hp)
    pktRelease := fun p hp => h.pktRelease p (hl.subset hp)
    relOnce := h.relOnce.sublist hl }

/-- putting one more datagram on the wire -/
theorem dinv_app {pool : Range} {w : World} (h : DInv pool w) (q : Packet)
    (h1 : isLeaseMsg q.typ → (q.yourIp, q.client, false) ∈ w.owner)
    (h2 : q.typ = .release → (q.yourIp, q.client, true) ∈ w.owner ∧
          ∀ p ∈ w.net, p.typ = .release → p.yourIp ≠ q.yourIp) :
    DInv pool { w with net := w.net ++ [q] } :=
  { h with
    pktLease := by
      intro p hp
      rcases List.mem_append.1 hp with hp | hp
      · exact h.pktLease p hp
      · rw [List.mem_singleton] at hp; subst hp; exact h1
    pktRelease := by
      intro p hp
      rcases List.mem_append.1 hp with hp | hp
      · exact h.pktRelease p hp
      · rw [List.mem_singleton] at hp; subst hp; exact fun hr => (h2 hr).1
    relOnce := by
      show (w.net ++ [q]).Pairwise relDistinct
      rw [List.pairwise_append]
      refine ⟨h.relOnce, List.pairwise_singleton _ _, ?_⟩
      intro a ha b hb
      rw [List.mem_singleton] at hb; subst hb
      exact fun hra hrb => (h2 hrb).2 a ha hra }

/-- server answers a Discover: `fetch_ip` handed out `ip`, Offer goes to client `c` -/
theorem dinv_offer {pool : Range} {w : World} (h : DInv pool w) (c ip : Nat) (g' : Gen)
    (hs : Sorted g') (hb : Bounded g') (hlt : ip < 2 ^ 32) (hav : avail w.gen ip)
    (hg : ∀ a, avail g' a ↔ avail w.gen a ∧ a ≠ ip) :
    DInv pool { w with gen := g', net := w.net ++ [⟨false, c, .offer, ip⟩],
                       offered := (c, ip) :: w.offered, owner := (ip, c, false) :: w.owner } := by
  refine ⟨hs, hb, ?_, ?_, ?_, ?_, ?_, ?_, ?_, ?_⟩
  · intro a ha; exact h.availPool a ((hg a).1 ha).1
  · refine List.pairwise_cons.2 ⟨?_, h.ownDistinct⟩
    intro e he heq
    exact (h.ownNotAvail e he).1 (by rw [← heq]; exact hav)
  · intro e he
    rcases List.mem_cons.1 he with rfl | he
    · exact ⟨fun ha => ((hg ip).1 ha).2 rfl, hlt, h.availPool ip hav⟩
    · have := h.ownNotAvail e he
      exact ⟨fun ha => this.1 ((hg _).1 ha).1, this.2⟩
  · intro e he
    rcases List.mem_cons.1 he with rfl | he
    · exact List.mem_cons_self
    · exact List.mem_cons_of_mem _ (h.ownOffered e he)
  · intro p hp hl
    rcases List.mem_append.1 hp with hp | hp
    · exact List.mem_cons_of_mem _ (h.pktLease p hp hl)
    · rw [List.mem_singleton] at hp; subst hp; exact List.mem_cons_self
  · intro p hp hr
    rcases List.mem_append.1 hp with hp | hp
    · exact List.mem_cons_of_mem _ (h.pktRelease p hp hr)
    · rw [List.mem_singleton] at hp; subst hp; cases hr
  · show (w.net ++ [_]).Pairwise relDistinct
    rw [List.pairwise_append]
    refine ⟨h.relOnce, List.pairwise_singleton _ _, ?_⟩
    intro a _ b hb
    rw [List.mem_singleton] at hb; subst hb
    intro _ hrb; cases hrb
  · intro c' a hc
    exact List.mem_cons_of_mem _ (h.stored c' a hc)

/-- server handles `Release(y)` of a lease that is marked as being released, the last datagram
    naming `y`: the address goes back, the lease ends -/
theorem dinv_server_release {pool : Range} {w : World} (h : DInv pool w) (c y : Nat) (g' : Gen)
    (hown : (y, c, true) ∈ w.owner)
    (hrel : ∀ q ∈ w.net, q.typ = .release → q.yourIp ≠ y)
    (hs : Sorted g') (hb : Bounded g') (hg : ∀ a, avail g' a ↔ avail w.gen a ∨ a = y) :
    DInv pool { w with gen := g', owner := w.owner.filter (fun e => e.1 != y) } := by
  have keep : ∀ e ∈ w.owner, e.1 ≠ y → e ∈ w.owner.filter (fun e => e.1 != y) := by
    intro e he hne; exact List.mem_filter.2 ⟨he, by simpa using hne⟩
  have notlive : ∀ c', (y, c', false) ∉ w.owner := by
    intro c' hm
    have := own_unique h.ownDistinct hm hown rfl
    simp at this
  refine ⟨hs, hb, ?_, ?_, ?_, ?_, ?_, ?_, h.relOnce, ?_⟩
  · intro a ha
    rcases (hg a).1 ha with ha | rfl
    · exact h.availPool a ha
    · exact (h.ownNotAvail _ hown).2.2
  · exact h.ownDistinct.sublist List.filter_sublist
  · intro e he
    obtain ⟨he, hne⟩ := List.mem_filter.1 he
    have hne : e.1 ≠ y := by simpa using hne
    have := h.ownNotAvail e he
    refine ⟨fun ha => ?_, this.2⟩
    rcases (hg _).1 ha with ha | ha
    · exact this.1 ha
    · exact hne ha
  · intro e he; exact h.ownOffered e (List.mem_filter.1 he).1
  · intro p hp hl
    have hm := h.pktLease p hp hl
    refine keep _ hm ?_
    intro heq
    exact notlive p.client (by rw [← heq]; exact hm)
  · intro p hp hr
    exact keep _ (h.pktRelease p hp hr) (hrel p hp hr)
  · intro c' a hc
    have hm := h.stored c' a hc
    refine keep _ hm ?_
    intro heq
    exact notlive c' (by rw [← heq]; exact hm)

/-- client `c` stores the address of an Ack that belongs to one of its live leases -/
theorem dinv_client_ack {pool : Range} {w : World} (h : DInv pool w) (c y : Nat)
    (hown : (y, c, false) ∈ w.owner) :
    DInv pool { w with clients := w.clients.set c (some y) } :=
  { h with
    stored := by
      intro c' a hc
      by_cases hcc : c = c'
      · subst hcc
        rw [List.getElem?_set] at hc
        simp only [if_true] at hc
        split at hc
        · cases hc; exact hown
        · cases hc
      · rw [List.getElem?_set_ne hcc] at hc
        exact h.stored c' a hc }

/-- client `c` releases address `a` while no datagram naming `a` is in flight -/
theorem dinv_release {pool : Range} {w : World} (h : DInv pool w) (c a : Nat)
    (hc : w.clients[c]? = some (some a))
    (hq : ∀ p ∈ w.net, p.typ ≠ .discover → p.yourIp ≠ a) :
    DInv pool { w with clients := w.clients.set c none, net := w.net ++ [⟨true, c, .release, a⟩],
                       owner := w.owner.map (fun e => if e.1 == a then (e.1, e.2.1, true) else e) } := by
  have hlive := h.stored c a hc
  have fst_eq : ∀ e : Nat × Nat × Bool, (if e.1 == a then (e.1, e.2.1, true) else e).1 = e.1 := by
    intro e; split <;> rfl
  have keep : ∀ e ∈ w.owner, e.1 ≠ a → e ∈ w.owner.map (fun e => if e.1 == a then (e.1, e.2.1, true) else e) := by
    intro e he hne
    refine List.mem_map.2 ⟨e, he, ?_⟩
    have : (e.1 == a) = false := by simpa using hne
    simp [this]
  refine ⟨h.sorted, h.bounded, h.availPool, ?_, ?_, ?_, ?_, ?_, ?_, ?_⟩
  · show (w.owner.map _).Pairwise _
    rw [List.pairwise_map]
    exact h.ownDistinct.imp (fun {x y} hxy => by rw [fst_eq, fst_eq]; exact hxy)
  · intro e he
    obtain ⟨e0, he0, rfl⟩ := List.mem_map.1 he
    rw [fst_eq]; exact h.ownNotAvail e0 he0
  · intro e he
    obtain ⟨e0, he0, rfl⟩ := List.mem_map.1 he
    have := h.ownOffered e0 he0
    split
    · exact this
    · exact this
  · intro p hp hl
    rcases List.mem_append.1 hp with hp | hp
    · refine keep _ (h.pktLease p hp hl) (hq p hp ?_)
      intro hd; rcases hl with hl | hl | hl <;> rw [hd] at hl <;> cases hl
    · rw [List.mem_singleton] at hp; subst hp
      rcases hl with hl | hl | hl <;> cases hl
  · intro p hp hr
    rcases List.mem_append.1 hp with hp | hp
    · have hm := h.pktRelease p hp hr
      refine List.mem_map.2 ⟨_, hm, ?_⟩
      split <;> rfl
    · rw [List.mem_singleton] at hp; subst hp
      refine List.mem_map.2 ⟨_, hlive, ?_⟩
      simp
  · show (w.net ++ [_]).Pairwise relDistinct
    rw [List.pairwise_append]
    refine ⟨h.relOnce, List.pairwise_singleton _ _, ?_⟩
    intro p hp b hb
    rw [List.mem_singleton] at hb; subst hb
    intro hrp _
    exact hq p hp (by rw [hrp]; intro hd; cases hd)
  · intro c' a' hc'
    by_cases hcc : c = c'
    · subst hcc
      rw [List.getElem?_set] at hc'
      simp only [if_true] at hc'
      split at hc' <;> cases hc'
    · rw [List.getElem?_set_ne hcc] at hc'
      have hm := h.stored c' a' hc'
      refine keep _ hm ?_
      intro heq
      have := own_unique h.ownDistinct hm hlive heq
      simp at this
      exact hcc this.2.symm

end Elvis.Dhcp
