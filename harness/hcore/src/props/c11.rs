//! C11: IPv4 reassembly.  Sub-commands
//!   `c11`          datagrams through MTU chains, fragments shuffled/interleaved, expiry callbacks
//!   `c11-dup`      the same with fragments delivered more than once
//!   `c11-overlap`  a second copy of a datagram fragmented along a different chain is mixed in
//!   `c11-raw`      arbitrary (malformed) fragments: correspondence of the panic sites only
//!
//! Op lines (the same lines drive the Lean model):
//!   dgram <ihl> <tos> <tl> <ident> <fo> <flags> <ttl> <proto> <cksum> <src> <dst> <body>
//!   pkt <ihl> <tos> <tl> <ident> <fo> <flags> <ttl> <proto> <cksum> <src> <dst> <body>
//!   cull <src> <dst> <proto> <ident> <epoch> <token#>
//! `dgram` only tells the oracle which original datagram travels under that identifier from now
//! on (the model answers `ok`); `pkt` = receive_packet; `cull` = maybe_cull_segment.
//! `token#` = ordinal (within the case) of the Incomplete result that issued the token.
//!
//! Oracle = the property, from the ORIGINAL datagrams: a datagram is returned exactly when the
//! octets received for its identifier since the last completion / flush / expiry cover it, and
//! then it is the original header and payload; an expiry callback frees the buffer iff its token
//! is the one issued by the latest arrival for a buffer that is still pending.
use super::c10::{compress, digest, gen_body, parse_body};
use elvis_core::protocols::ipv4::fragmentation::{fragment, Fragments};
use elvis_core::protocols::ipv4::ipv4_parsing::Ipv4Header;
use elvis_core::protocols::ipv4::verif::{BufId, Epoch, ReceivePacketResult, Reassembly};
use elvis_core::Message;
use hcommon::*;
use std::collections::HashMap;

type Key = (u32, u32, u8, u16);

fn mk_header(f: &[u64]) -> Ipv4Header {
    Ipv4Header {
        ihl: f[0] as u8,
        type_of_service: (f[1] as u8).into(),
        total_length: f[2] as u16,
        identification: f[3] as u16,
        fragment_offset: f[4] as u16,
        flags: (f[5] as u8).into(),
        time_to_live: f[6] as u8,
        protocol: f[7] as u8,
        checksum: f[8] as u16,
        source: (f[9] as u32).into(),
        destination: (f[10] as u32).into(),
    }
}

fn show_hdr(h: &Ipv4Header) -> String {
    format!(
        "{},{},{},{},{},{},{},{},{},{},{}",
        h.ihl,
        h.type_of_service.as_u8(),
        h.total_length,
        h.identification,
        h.fragment_offset,
        h.flags.as_u8(),
        h.time_to_live,
        h.protocol,
        h.checksum,
        h.source.to_u32(),
        h.destination.to_u32()
    )
}

fn key_of(h: &Ipv4Header) -> Key {
    (h.source.to_u32(), h.destination.to_u32(), h.protocol, h.identification)
}

fn classify(p: &PanicInfo) -> String {
    let text = source_line_text(&p.file, p.line);
    let t = text.as_str();
    let file = p.file.rsplit('/').next().unwrap_or("");
    let (sub, add, mul) = (p.msg.contains("subtract with overflow"), p.msg.contains("add with overflow"), p.msg.contains("multiply with overflow"));
    if file == "segment.rs" {
        if sub && t.contains("total_length") {
            return "panic:sub-overflow:data_length".into();
        } else if mul && t.contains("fragment_offset") {
            return "panic:mul-overflow:tdl".into();
        } else if add && t.contains("total_data_length + 7") {
            return "panic:add-overflow:tdl_round".into();
        } else if add && t.contains("fragment_offset *") {
            return "panic:add-overflow:tdl".into();
        } else if add && t.contains("fragment_offset +") {
            return "panic:add-overflow:block_end".into();
        } else if add && t.contains("total_data_length +") {
            return "panic:add-overflow:total_length".into();
        } else if add && t.contains("epoch") {
            return "panic:add-overflow:epoch".into();
        } else if t.contains("unwrap") {
            return "panic:unwrap:header".into();
        }
    }
    format!("panic:other:{}:{}", file, t.replace(' ', "_"))
}

/// one original datagram known to the oracle
struct Dg {
    header: Ipv4Header,
    body: Vec<u8>,
}

#[derive(Default)]
struct KeyState {
    /// index of the datagram whose fragments are travelling under this identifier
    dg: Option<usize>,
    /// octet ranges received since the last completion / flush / expiry
    covered: Vec<(usize, usize)>,
    /// a buffer should be allocated
    pending: bool,
    /// ordinal of the token issued by the latest arrival into the pending buffer
    latest: Option<usize>,
    /// an arrival was repeated or overlapped since the last reset (for finding identities)
    dup_seen: bool,
}

fn covers(cov: &[(usize, usize)], len: usize) -> bool {
    let mut v = cov.to_vec();
    v.sort();
    let mut pos = 0;
    for (a, b) in v {
        if a > pos {
            return false;
        }
        pos = pos.max(b);
    }
    pos >= len
}

pub struct Token {
    key: Key,
    epoch: Epoch,
    fired: bool,
}

pub struct Exec {
    r: Reassembly,
    dgs: Vec<Dg>,
    keys: HashMap<Key, KeyState>,
    pub tokens: Vec<Token>,
    oracle_on: bool,
    /// `c11-raw`, in-bounds cases: every fragment is one `Ipv4::demux` would hand to the reassembler
    /// (IHL 5, total length = 20 + data, data ends at or below octet 65515), so a panic is a failure
    pub strict_panic: bool,
    pub completed_multi: u32,
    pub dup_before_completion: u32,
    pub culls_removed: u32,
}

impl Exec {
    pub fn new(oracle_on: bool) -> Self {
        Exec { r: Reassembly::new(), dgs: vec![], keys: HashMap::new(), tokens: vec![], oracle_on, strict_panic: false, completed_multi: 0, dup_before_completion: 0, culls_removed: 0 }
    }

    /// tell the oracle that `header/body` is an original datagram about to be fragmented
    fn register(&mut self, header: Ipv4Header, body: Vec<u8>) -> usize {
        let k = key_of(&header);
        self.dgs.push(Dg { header, body });
        let i = self.dgs.len() - 1;
        let st = self.keys.entry(k).or_default();
        st.dg = Some(i);
        i
    }

    fn key_clean(&self, k: &Key) -> bool {
        self.keys.get(k).map(|s| !s.pending).unwrap_or(true)
    }

    pub fn apply(&mut self, line: &str, out: &mut Out) {
        let w: Vec<&str> = line.split_whitespace().collect();
        match w.as_slice() {
            ["dgram", f @ .., body] if f.len() == 11 => {
                let n: Vec<u64> = f.iter().filter_map(|s| s.parse::<u64>().ok()).collect();
                let (Some(b), 11) = (parse_body(body), n.len()) else { return out.line(line, "bad-op") };
                self.register(mk_header(&n), b);
                out.line(line, "ok");
            }
            ["pkt", f @ .., body] if f.len() == 11 => {
                let n: Vec<u64> = f.iter().filter_map(|s| s.parse::<u64>().ok()).collect();
                let (Some(b), 11) = (parse_body(body), n.len()) else { return out.line(line, "bad-op") };
                let h = mk_header(&n);
                let backup = self.r.clone();
                let msg = Message::new(b.clone());
                let r = &mut self.r;
                let res = catch(|| r.receive_packet(h, msg));
                let shown = match &res {
                    Err(p) => {
                        self.r = backup;
                        let c = classify(p);
                        out.count(&format!("result.{}", c));
                        if self.oracle_on {
                            out.fail(&format!("receive_packet panicked on a genuine fragment: {} ({})", c, p.msg), &format!("panic receive_packet {}", source_line_text(&p.file, p.line)));
                        } else if self.strict_panic {
                            out.fail(
                                &format!("receive_packet panicked on a fragment within the bounds of IPv4 (IHL 5, total length {} = 20 + {} data octets, offset {}, flags {}): {} ({})", h.total_length, b.len(), h.fragment_offset, h.flags.as_u8(), c, p.msg),
                                &format!("panic receive_packet {}", source_line_text(&p.file, p.line)),
                            );
                        }
                        format!("P:{}", c)
                    }
                    Ok(ReceivePacketResult::Complete(rh, rm)) => {
                        out.count("result.complete");
                        format!("C{{{}|{}}}", show_hdr(rh), digest(&rm.to_vec()))
                    }
                    Ok(ReceivePacketResult::Incomplete(d, id, e)) => {
                        out.count("result.incomplete");
                        let idtxt = if *id == BufId::from_header(&h) {
                            let k = key_of(&h);
                            format!("{},{},{},{}", k.0, k.1, k.2, k.3)
                        } else {
                            "foreign-bufid".to_string()
                        };
                        self.tokens.push(Token { key: key_of(&h), epoch: *e, fired: false });
                        format!("I {} {} {}", d.as_secs(), idtxt, e)
                    }
                };
                out.line(line, &compress(&format!("{} n={}", shown, self.r.verif_len())));
                if self.oracle_on {
                    if let Ok(v) = &res {
                        self.oracle_pkt(&h, &b, v, out);
                    }
                }
            }
            ["cull", src, dst, proto, ident, epoch, tok] => {
                let (Ok(s), Ok(d), Ok(p), Ok(i), Ok(e), Ok(t)) =
                    (src.parse::<u32>(), dst.parse::<u32>(), proto.parse::<u8>(), ident.parse::<u16>(), epoch.parse::<Epoch>(), tok.parse::<usize>())
                else {
                    return out.line(line, "bad-op");
                };
                // a BufId can only be made from a header
                let id = BufId::from_header(&mk_header(&[5, 0, 20, i as u64, 0, 0, 0, p as u64, 0, s as u64, d as u64]));
                let before = self.r.verif_contains(&id);
                self.r.maybe_cull_segment(id, e);
                let after = self.r.verif_contains(&id);
                out.count(if before && !after { "cull.removed" } else if before { "cull.kept" } else { "cull.absent" });
                if before && !after {
                    self.culls_removed += 1;
                }
                out.line(line, &format!("cull {} {} n={}", before as u8, after as u8, self.r.verif_len()));
                if self.oracle_on {
                    let k: Key = (s, d, p, i);
                    let st = self.keys.entry(k).or_default();
                    let should_remove = st.pending && st.latest == Some(t);
                    if should_remove && after {
                        out.fail(
                            &format!("expiry with the token of the latest arrival ({}) did not free the buffer of {:?}", t, k),
                            "cull kept the buffer although no fragment arrived since the token was issued",
                        );
                    } else if !should_remove && before && !after {
                        out.fail(
                            &format!("expiry with stale token #{} (epoch {}) freed the buffer of {:?} although its latest arrival issued token {:?}", t, e, k, st.latest),
                            "stale expiry token freed a buffer that received fragments since",
                        );
                    } else if !should_remove && !before && st.pending {
                        out.fail("a pending buffer is missing", "pending buffer missing");
                    }
                    if !after {
                        st.pending = false;
                        st.latest = None;
                        st.covered.clear();
                        st.dup_seen = false;
                    }
                }
            }
            _ => out.line(line, "bad-op"),
        }
    }

    fn oracle_pkt(&mut self, h: &Ipv4Header, b: &[u8], res: &ReceivePacketResult, out: &mut Out) {
        let k = key_of(h);
        let tok = self.tokens.len();
        let st = self.keys.entry(k).or_default();
        let Some(di) = st.dg else { return };
        let dg = &self.dgs[di];
        let whole = h.fragment_offset == 0 && h.flags.is_last_fragment();
        let start = h.fragment_offset as usize * 8;
        let range = (start, start + b.len());
        if !whole {
            if st.covered.iter().any(|(a, e)| *a < range.1 && range.0 < *e) {
                st.dup_seen = true;
                if st.pending {
                    self.dup_before_completion += 1;
                }
            }
            st.covered.push(range);
        }
        let expect_complete = whole || covers(&st.covered, dg.body.len());
        let dup = if st.dup_seen { "with repeated/overlapping fragments" } else { "no fragment repeated" };
        match res {
            ReceivePacketResult::Complete(rh, rm) => {
                let rv = rm.to_vec();
                let nfrag = st.covered.len();
                if !expect_complete {
                    out.fail(
                        &format!("a datagram was returned although the octets received since the last completion do not cover it ({})", dup),
                        &format!("returned before covered ({})", dup),
                    );
                } else {
                    let (eh, eb): (&Ipv4Header, &[u8]) = if whole { (h, b) } else { (&dg.header, &dg.body) };
                    if rv != eb || rm.len() != eb.len() {
                        out.fail(
                            &format!("returned payload ({} octets, {}) is not the original ({} octets, {}); {}", rv.len(), digest(&rv), eb.len(), digest(eb), dup),
                            &format!("returned payload differs from the original ({})", dup),
                        );
                    } else if rh != eh {
                        out.fail(&format!("returned header {} is not the original {}", show_hdr(rh), show_hdr(eh)), &format!("returned header differs from the original ({})", dup));
                    } else if nfrag >= 2 {
                        self.completed_multi += 1;
                    }
                }
                st.covered.clear();
                st.pending = false;
                st.latest = None;
                st.dup_seen = false;
            }
            ReceivePacketResult::Incomplete(_, id, _) => {
                if expect_complete {
                    out.fail(
                        &format!("all octets of the datagram arrived since the last completion but nothing was returned ({})", dup),
                        &format!("covered but not returned ({})", dup),
                    );
                }
                if *id != BufId::from_header(h) {
                    out.fail("Incomplete names a foreign BufId", "foreign bufid");
                }
                st.pending = true;
                st.latest = Some(tok - 1); // the token pushed for this very result
            }
        }
    }
}

// ------------------------------------------------------------------------------------------
// generation
// ------------------------------------------------------------------------------------------

fn gen_mtu(rng: &mut Rng) -> u16 {
    (match rng.below(10) {
        0 => 68,
        1 => *rng.pick(&[69u64, 70, 76, 576, 1500, 1280]),
        2..=5 => rng.range(68, 400),
        6..=8 => rng.range(68, 2000),
        _ => rng.range(68, 65535),
    }) as u16
}

struct Piece {
    header: Ipv4Header,
    /// body = gen_body(seed, len) (a slice of the datagram's generated body)
    seed: u64,
    len: usize,
}

/// fragments of (header, gen_body(seed,len)) along a chain of MTUs, by the real fragmenter
fn fragments_of(header: Ipv4Header, seed: u64, len: usize, mtus: &[u16]) -> Vec<Piece> {
    let mut cur = vec![(header, Message::new(gen_body(seed, len)))];
    for m in mtus {
        let mut next = vec![];
        for (h, b) in cur {
            match fragment(h, b, *m) {
                Fragments::Fragmented(l) => next.extend(l),
                Fragments::DontFragment(f) => next.push(f),
                Fragments::Discard => {}
            }
        }
        cur = next;
    }
    cur.into_iter()
        .map(|(h, b)| Piece { header: h, seed: seed + (h.fragment_offset as u64 - header.fragment_offset as u64) * 8, len: b.len() })
        .collect()
}

fn pkt_line(p: &Piece, rng: &mut Rng) -> String {
    let body = if p.len <= 24 && rng.chance(1, 2) { format!("h:{}", hex(&gen_body(p.seed, p.len))) } else { format!("g:{}:{}", p.seed, p.len) };
    format!("pkt {} {}", show_hdr(&p.header).replace(',', " "), body)
}

fn gen_len(rng: &mut Rng) -> usize {
    (match rng.below(40) {
        0..=1 => rng.range(1, 9),
        2 => 65515,
        3 => rng.range(60000, 65515),
        4..=6 => rng.range(1, 20000),
        7..=24 => rng.range(40, 1500),
        _ => rng.range(1, 5000),
    }) as usize
}

/// an identifier that differs from `k` but would collide with it under a careless packing or hash
fn confusable(k: Key, rng: &mut Rng) -> Key {
    let (s, d, p, id) = k;
    let p2: u8 = *rng.pick(&[1u8, 6, 17, 16, 0]);
    match rng.below(12) {
        0 => (d, s, p, id),                                             // endpoints swapped
        1 => (s, d, p2, id),                                            // protocol only
        2 => (s, d, p, id ^ 0x0100),                                    // high byte of the identification
        3 => (s, d, p, id ^ 0x0001),                                    // low bit of the identification
        4 => (s, d, p, id.swap_bytes()),                                // byte order
        5 => (s, d, p2, id ^ (((p ^ p2) as u16) << 8)),                 // (p << 8) ^ id collides
        6 => (s, d, p2, id ^ ((p ^ p2) as u16)),                        // p ^ id collides
        7 => (s, d, p2, id.wrapping_add(p as u16).wrapping_sub(p2 as u16)), // p + id collides
        8 => (s, d, p2, (((p as u16) << 8) | id) & !((p2 as u16) << 8) | (id & ((p2 as u16) << 8))), // (p << 8) | id collides when bits allow
        9 => (s ^ 0x0100, d, p, id),                                    // one address byte
        10 => (s, d ^ 0x01000000, p, id),
        _ => (s, d, p2, id.wrapping_sub(((p2 as u16).wrapping_sub(p as u16)) << 8)), // (p << 8) + id collides
    }
}

#[derive(Clone, Copy, PartialEq)]
enum Stream {
    Plain,
    Dup,
    Overlap,
}

/// one case: rounds of 1..5 datagrams in total; inside a round the identifiers are distinct and
/// the fragments of all its datagrams are interleaved; a later round may reuse the identifier of
/// a datagram that is no longer pending
fn run_case(stream: Stream, rng: &mut Rng, out: &mut Out) -> Exec {
    let mut ex = Exec::new(true);
    let total = rng.range(1, 5) as usize;
    let mut made = 0;
    let mut used: Vec<Key> = vec![];
    let small_space = rng.chance(1, 2); // few identifiers: reuse is likely
    // "confusable" identifiers: the second and later datagrams of a round get an identifier derived
    // from the first one by a transform under which a sloppy key packing / hash would collide
    // (fields swapped, protocol folded into the identification by shift / xor / sum, one byte changed)
    let confuse = rng.chance(2, 5);
    while made < total {
        let in_round = if confuse && total - made >= 2 { rng.range(2, (total - made) as u64) as usize } else { rng.range(1, (total - made) as u64) as usize };
        let mut arrivals: Vec<(usize, String)> = vec![]; // (datagram ordinal in round, op line)
        let mut round_keys: Vec<Key> = vec![];
        for d in 0..in_round {
            // a fresh or recycled identifier
            let mut key: Key;
            let mut tries = 0;
            loop {
                key = if confuse && d >= 1 && tries < 10 {
                    confusable(round_keys[0], rng)
                } else if confuse && d == 0 && tries < 10 {
                    let rid = rng.below(65536) as u16;
                    (0x0a000001 + rng.below(2) as u32, 0x0a000002 + 256 * rng.below(2) as u32, *rng.pick(&[1u8, 6, 17]),
                     *rng.pick(&[0u16, 1, 6, 17, 0x0600, 0x1100, 0x1000, 0x0102, 0x0611, 0x1706, rid]))
                } else if !used.is_empty() && rng.chance(1, 2) {
                    *rng.pick(&used)
                } else if small_space {
                    (0x0a000001 + rng.below(2) as u32, 0x0a000002 + 256 * rng.below(2) as u32, *rng.pick(&[6u8, 17]), rng.below(2) as u16)
                } else {
                    (rng.below(1 << 32) as u32, rng.below(1 << 32) as u32, rng.below(256) as u8, rng.below(65536) as u16)
                };
                tries += 1;
                if (ex.key_clean(&key) && !round_keys.contains(&key)) || tries > 20 {
                    break;
                }
            }
            if !(ex.key_clean(&key) && !round_keys.contains(&key)) {
                key = (rng.below(1 << 32) as u32, rng.below(1 << 32) as u32, 200, 40000 + made as u16 * 7 + d as u16);
            }
            round_keys.push(key);
            if !used.contains(&key) {
                used.push(key);
            }
            let len = gen_len(rng);
            let seed = rng.below(1 << 32);
            let header = mk_header(&[5, rng.below(64) * 4, 20 + len as u64, key.3 as u64, 0, 0, rng.below(256), key.2 as u64, rng.below(65536), key.0 as u64, key.1 as u64]);
            ex.apply(&format!("dgram {} g:{}:{}", show_hdr(&header).replace(',', " "), seed, len), out);
            let hops = rng.range(1, 3) as usize;
            let mut mtus: Vec<u16> = (0..hops).map(|_| gen_mtu(rng)).collect();
            if len > 8000 && rng.chance(4, 5) {
                // keep the number of fragments of the big datagrams moderate most of the time
                mtus = mtus.into_iter().map(|m| m.max(1000)).collect();
            }
            mtus.sort_by(|a, b| b.cmp(a));
            let mut pieces = fragments_of(header, seed, len, &mtus);
            out.count(&format!("fragments.{}", match pieces.len() { 1 => "1", 2 => "2", 3..=9 => "3-9", 10..=99 => "10-99", _ => ">=100" }));
            // arrival order
            match rng.below(4) {
                0 => {}
                1 => pieces.reverse(),
                _ => shuffle(&mut pieces, rng),
            }
            let mut lines: Vec<String> = pieces.iter().map(|p| pkt_line(p, rng)).collect();
            if stream == Stream::Dup && !lines.is_empty() {
                let copies = rng.range(1, 3.min(lines.len() as u64));
                for _ in 0..copies {
                    let c = lines[rng.below(lines.len() as u64) as usize].clone();
                    let at = rng.below(lines.len() as u64 + 1) as usize;
                    lines.insert(at, c);
                }
            }
            if stream == Stream::Overlap {
                let mut mt2: Vec<u16> = (0..rng.range(1, 2)).map(|_| gen_mtu(rng)).collect();
                mt2.sort_by(|a, b| b.cmp(a));
                let other = fragments_of(header, seed, len, &mt2);
                if other.len() >= 2 {
                    let take = rng.range(1, other.len() as u64) as usize;
                    for _ in 0..take {
                        let p = &other[rng.below(other.len() as u64) as usize];
                        let at = rng.below(lines.len() as u64 + 1) as usize;
                        lines.insert(at, pkt_line(p, rng));
                    }
                }
            }
            for l in lines {
                arrivals.push((d, l));
            }
        }
        made += in_round;
        // interleave the datagrams of the round, keeping each datagram's own order
        let order = interleave(&arrivals, in_round, rng);
        let den = (order.len() as u64).max(6) * if rng.chance(1, 3) { 4 } else { 1 };
        for l in order {
            maybe_fire(&mut ex, rng, out, den);
            ex.apply(&l, out);
        }
        maybe_fire(&mut ex, rng, out, 3);
    }
    // finally a sample of the outstanding timers fires (oldest first, as the real timers would)
    let open: Vec<usize> = (0..ex.tokens.len()).filter(|t| !ex.tokens[*t].fired).collect();
    let step = (open.len() / 6).max(1);
    for t in open.into_iter().step_by(step) {
        if rng.chance(2, 3) {
            fire(&mut ex, t, out);
        }
    }
    ex
}

fn shuffle<T>(v: &mut [T], rng: &mut Rng) {
    for i in (1..v.len()).rev() {
        let j = rng.below(i as u64 + 1) as usize;
        v.swap(i, j);
    }
}

fn interleave(arr: &[(usize, String)], n: usize, rng: &mut Rng) -> Vec<String> {
    let mut queues: Vec<std::collections::VecDeque<String>> = vec![Default::default(); n];
    for (d, l) in arr {
        queues[*d].push_back(l.clone());
    }
    let sequential = rng.chance(1, 4);
    let mut res = vec![];
    loop {
        let live: Vec<usize> = (0..n).filter(|i| !queues[*i].is_empty()).collect();
        if live.is_empty() {
            break;
        }
        let q = if sequential { live[0] } else { *rng.pick(&live) };
        res.push(queues[q].pop_front().unwrap());
    }
    res
}

fn fire(ex: &mut Exec, t: usize, out: &mut Out) {
    let (k, e) = (ex.tokens[t].key, ex.tokens[t].epoch);
    ex.tokens[t].fired = true;
    let line = format!("cull {} {} {} {} {} {}", k.0, k.1, k.2, k.3, e, t);
    ex.apply(&line, out);
}

/// with probability 1/den fire one outstanding timer: half of the time the newest token of some
/// identifier, otherwise any older one
fn maybe_fire(ex: &mut Exec, rng: &mut Rng, out: &mut Out, den: u64) {
    if !rng.chance(1, den) {
        return;
    }
    let open: Vec<usize> = (0..ex.tokens.len()).filter(|t| !ex.tokens[*t].fired).collect();
    if open.is_empty() {
        return;
    }
    let t = if rng.chance(1, 2) { *open.last().unwrap() } else { *rng.pick(&open) };
    fire(ex, t, out);
}

/// `c11-raw`, second family: header-only and 1..7-octet fragments that are WITHIN the bounds of IPv4
/// (IHL 5, total length = 20 + data, the data ends at or below octet 65515 — what `Ipv4::demux` lets
/// through to the reassembler): MF set / last fragment; offsets 0, 1, around the byte boundaries of
/// the block bit vector (7, 8, 9, 63, 64, 65 ...), the largest possible ones; few identifiers, so
/// that they meet in one buffer; exact duplicates, the same offset with another length or the other
/// MF value, neighbours that overlap; now and then a fragment that carries whole blocks, so that
/// buffers complete through (and around) empty ranges.  Model/implementation correspondence, and no
/// such fragment may make the reassembler panic.
fn run_raw_tiny(rng: &mut Rng, out: &mut Out) {
    let mut ex = Exec::new(false);
    ex.strict_panic = true;
    let n = rng.range(4, 16);
    let mut prev: Option<(u64, u64, u64, usize)> = None; // ident, offset, flags, data octets
    let src = 1 + rng.below(2);
    for _ in 0..n {
        if !ex.tokens.is_empty() && rng.chance(1, 8) {
            let t = rng.below(ex.tokens.len() as u64) as usize;
            fire(&mut ex, t, out);
            continue;
        }
        let (ident, fo, flags, blen) = match prev {
            Some((id, fo, fl, bl)) if rng.chance(2, 5) => match rng.below(5) {
                0 => (id, fo, fl, bl),                          // exact duplicate
                1 => (id, fo, fl, rng.below(8) as usize),       // same place, other length
                2 => (id, fo, fl ^ 1, bl),                      // same place, MF flipped
                3 => (id, fo.saturating_sub(1), fl, *rng.pick(&[8usize, 9, 15, 16])), // the block before, reaching into this one
                _ => (id, fo + 1, fl, bl),                      // the next block
            },
            _ => {
                let ro = rng.below(8190);
                let fo = *rng.pick(&[0u64, 0, 0, 1, 1, 2, 7, 8, 9, 15, 16, 63, 64, 65, 512, 8184, 8188, 8189, ro]);
                let rb = rng.below(8) as usize;
                let blen = if rng.chance(1, 6) { *rng.pick(&[8usize, 16, 24, 64]) } else { *rng.pick(&[0usize, 0, 0, 1, 2, 7, rb]) };
                (rng.below(2), fo, rng.below(4), blen)
            }
        };
        // keep it inside IPv4's bounds: the data ends at or below octet 65515
        let fo = fo.min(8189);
        let blen = blen.min(65515 - fo as usize * 8);
        prev = Some((ident, fo, flags, blen));
        let line = format!("pkt 5 {} {} {} {} {} {} 17 {} {} 2 h:{}", rng.below(256), 20 + blen, ident, fo, flags, rng.below(256), rng.below(65536), src, hex(&rng.bytes(blen)));
        ex.apply(&line, out);
        out.count(if blen == 0 { "raw.tiny.empty" } else if blen < 8 { "raw.tiny.1-7" } else { "raw.tiny.blocks" });
    }
}

/// arbitrary fragments (possibly malformed): only model/implementation correspondence
fn run_raw(rng: &mut Rng, out: &mut Out) {
    if rng.chance(2, 5) {
        return run_raw_tiny(rng, out);
    }
    let mut ex = Exec::new(false);
    let n = rng.range(3, 14);
    for _ in 0..n {
        if !ex.tokens.is_empty() && rng.chance(1, 6) {
            let t = rng.below(ex.tokens.len() as u64) as usize;
            fire(&mut ex, t, out);
            continue;
        }
        let blen = *rng.pick(&[0usize, 1, 7, 8, 9, 16, 24, 40]);
        let ihl = if rng.chance(5, 6) { 5 } else { *rng.pick(&[0u64, 4, 6, 15]) };
        let tl = match rng.below(6) {
            0 => rng.below(24),
            1 => 65535 - rng.below(30),
            2 => rng.below(65536),
            _ => 20 + blen as u64,
        };
        let fo = match rng.below(8) {
            0 => 8191,
            1 => 8188 + rng.below(4),
            2 => 65535 - rng.below(9000),
            3 => rng.below(65536),
            _ => rng.below(6),
        };
        let flags = rng.below(4);
        let line = format!(
            "pkt {} {} {} {} {} {} {} {} {} {} {} h:{}",
            ihl, rng.below(256), tl, rng.below(2), fo, flags, rng.below(256), 17, rng.below(65536), 1, 2, hex(&rng.bytes(blen))
        );
        ex.apply(&line, out);
    }
}

pub fn run(args: &Args) {
    let mut out = Out::new(&args.out);
    let stream = match args.prop.as_str() {
        "c11-dup" => Stream::Dup,
        "c11-overlap" => Stream::Overlap,
        _ => Stream::Plain,
    };
    let rule = "1..5 datagrams (payload 1..65515) per case in rounds, each through a chain of 1..3 MTUs by the real fragmenter; fragments in order / reversed / shuffled, datagrams of a round interleaved, identifiers recycled once clean; expiry callbacks with current and stale tokens at random points; c11-dup repeats 1..3 fragments, c11-overlap mixes in fragments of the same datagram from a second chain; c11-raw feeds arbitrary (also malformed) fragments and, in 2 of 5 cases, header-only and 1..7-octet fragments within IPv4's bounds (MF set / last; offsets 0, 1, around multiples of 8 and 64, the largest possible; duplicates, same offset with another length or MF value, overlapping neighbours, block-sized fragments in between) which must never make the reassembler panic; every ReceivePacketResult (header, payload digest, timeout, BufId, epoch), buffer presence around every cull and the buffer count are compared; a case is non-trivial if a datagram of >= 2 fragments was returned (dup/overlap: and a repeated/overlapping fragment arrived while pending); distinct = hash of its op lines";
    if let Some(rp) = &args.replay {
        let mut ex = Exec::new(true);
        out.begin_case(0);
        out.mark_nontrivial();
        let ops: Vec<String> = read_ops(rp).into_iter().filter(|l| !l.starts_with("case ")).collect();
        for l in &ops {
            ex.apply(l, &mut out);
        }
        out.end_case();
        out.finish(rule);
        return;
    }
    let mut rng = Rng::new(args.seed);
    for c in 0..args.cases {
        let mut r = rng.fork();
        out.begin_case(c);
        if args.prop == "c11-raw" {
            run_raw(&mut r, &mut out);
            out.mark_nontrivial();
        } else {
            let ex = run_case(stream, &mut r, &mut out);
            let ok = ex.completed_multi >= 1 && (stream == Stream::Plain || ex.dup_before_completion >= 1);
            if ok {
                out.mark_nontrivial();
            }
            out.count(&format!("completed_from_fragments.{}", ex.completed_multi.min(5)));
            if ex.culls_removed > 0 {
                out.count("cases_with_effective_cull");
            }
        }
        out.end_case();
    }
    out.finish(rule);
}

