import ElvisVerif.Model.Tcb
/-!
# The closed two-endpoint TCP system (plus raw injection)

Two sides `A` and `B`, each with an optional TCB and an optional passive-open binding, and the
**history of every segment ever emitted** (monotone: an element may be delivered any number of
times, at any later point, to either side — this subsumes loss, duplication, reordering and
arbitrary delay).  A side without a TCB handles an arriving segment as `Tcp::demux` does:
`segment_arrives_listen` when it has a binding, `segment_arrives_closed` otherwise.

`submitted` / `delivered` are ghost logs (bytes handed to `send`, bytes returned by `receive`)
for the C01 statements; the transition function never reads them.

The op set is exactly the line protocol of `Driver/C01.lean` and `harness/hcore/src/props/c01.rs`.
-/
namespace Elvis.Tcp

inductive SideId
  | A | B
  deriving DecidableEq, Repr, Inhabited

/-- the fixed ports of the two endpoints (`0xcafe`, `0xdead`) -/
def SideId.port : SideId → U16
  | .A => 0xcafe#16
  | .B => 0xdead#16

def SideId.peer : SideId → SideId
  | .A => .B
  | .B => .A

structure Side where
  tcb : Option Tcb := none
  /-- passive open: `(iss, mtu)` used for the next connection attempt -/
  listen : Option (Seq × U16) := none
  submitted : List UInt8 := []
  delivered : List UInt8 := []
  deriving Repr, Inhabited

structure Sys where
  a : Side := {}
  b : Side := {}
  /-- newest first; element with index `i` (as printed) is `history[historyLen - 1 - i]` -/
  history : List Segment := []
  historyLen : Nat := 0
  deriving Repr, Inhabited

def Sys.side (s : Sys) : SideId → Side
  | .A => s.a
  | .B => s.b

def Sys.setSide (s : Sys) (x : SideId) (v : Side) : Sys :=
  match x with
  | .A => { s with a := v }
  | .B => { s with b := v }

/-- append emitted segments to the history (in emission order) -/
def Sys.record (s : Sys) (segs : List Segment) : Sys :=
  { s with history := segs.reverse ++ s.history, historyLen := s.historyLen + segs.length }

def Sys.nth (s : Sys) (i : Nat) : Option Segment :=
  if i < s.historyLen then s.history[s.historyLen - 1 - i]? else none

inductive Op
  | open (x : SideId) (iss : Seq) (mtu : U16)
  | listen (x : SideId) (iss : Seq) (mtu : U16)
  | write (x : SideId) (bytes : List UInt8)
  | read (x : SideId)
  | tick (x : SideId) (ms : Nat)
  | emit (x : SideId)
  | deliver (x : SideId) (i : Nat)
  | inject (x : SideId) (seg : Segment)
  | close (x : SideId)
  | abort (x : SideId)
  | drop (x : SideId)
  deriving Repr

/-- what an op answers (everything the harness prints apart from the state dump) -/
inductive Res
  | ok
  | noTcb
  | noSeg
  | read (bytes : List UInt8)
  | tick (r : AdvanceTimeResult)
  | emitted (first : Nat) (segs : List Segment)
  | arrived (r : SegmentArrivesResult)
  | listenTcb
  | response (index : Nat) (hdr : Hdr)
  | nothing
  | closed (r : CloseResult)
  deriving Repr

def Op.side : Op → SideId
  | .open x .. | .listen x .. | .write x .. | .read x | .tick x .. | .emit x | .deliver x ..
  | .inject x .. | .close x | .abort x | .drop x => x

/-- the states in which `Tcb::send` queues the message (ghost bookkeeping only) -/
def sendAccepts : State → Bool
  | .SynSent | .SynReceived | .Established => true
  | _ => false

/-- a segment arrives at side `x` (`Tcp::demux`: session, else listen binding, else closed) -/
def Sys.arrive (s : Sys) (x : SideId) (seg : Segment) : Except String (Sys × Res) :=
  let sd := s.side x
  match sd.tcb with
  | some tcb =>
    match tcb.segmentArrives seg with
    | .error e => .error e
    | .ok (tcb, .Ok) => .ok (s.setSide x { sd with tcb := some tcb }, .arrived .Ok)
    | .ok (_, .Close) => .ok (s.setSide x { sd with tcb := none, listen := none }, .arrived .Close)
  | none =>
    match sd.listen with
    | some (iss, mtu) =>
      match segmentArrivesListen seg iss mtu with
      | .error e => .error e
      | .ok none => .ok (s, .nothing)
      | .ok (some (.Tcb tcb)) => .ok (s.setSide x { sd with tcb := some tcb }, .listenTcb)
      | .ok (some (.Response h)) => .ok (s.record [⟨h, []⟩], .response s.historyLen h)
    | none =>
      match segmentArrivesClosed seg.hdr (BitVec.ofNat 32 seg.text.length) with
      | none => .ok (s, .nothing)
      | some h => .ok (s.record [⟨h, []⟩], .response s.historyLen h)

/-- one step of the system -/
def Sys.step (s : Sys) (op : Op) : Except String (Sys × Res) :=
  let x := op.side
  let sd := s.side x
  match op with
  | .open _ iss mtu =>
    match Tcb.open x.port x.peer.port iss mtu with
    | .error e => .error e
    | .ok tcb => .ok (s.setSide x { sd with tcb := some tcb }, .ok)
  | .listen _ iss mtu => .ok (s.setSide x { sd with listen := some (iss, mtu) }, .ok)
  | .deliver _ i =>
    match s.nth i with
    | none => .ok (s, .noSeg)
    | some seg => s.arrive x seg
  | .inject _ seg => s.arrive x seg
  | .drop _ => .ok (s.setSide x { sd with tcb := none, listen := none }, .ok)
  | _ =>
    match sd.tcb with
    | none => .ok (s, .noTcb)
    | some tcb =>
      match op with
      | .write _ bytes =>
        .ok (s.setSide x { sd with tcb := some (tcb.send bytes),
                                   submitted := sd.submitted ++ (if sendAccepts tcb.state then bytes else []) }, .ok)
      | .read _ =>
        let (tcb, bytes) := tcb.receive
        .ok (s.setSide x { sd with tcb := some tcb, delivered := sd.delivered ++ bytes }, .read bytes)
      | .tick _ ms =>
        match tcb.advanceTime ms with
        | .error e => .error e
        | .ok (tcb, .Ignore) => .ok (s.setSide x { sd with tcb := some tcb }, .tick .Ignore)
        | .ok (_, .CloseConnection) =>
          .ok (s.setSide x { sd with tcb := none, listen := none }, .tick .CloseConnection)
      | .emit _ =>
        match tcb.segments with
        | .error e => .error e
        | .ok (tcb, segs) =>
          .ok ((s.setSide x { sd with tcb := some tcb }).record segs, .emitted s.historyLen segs)
      | .close _ =>
        match tcb.close with
        | .error e => .error e
        | .ok (tcb, r) => .ok (s.setSide x { sd with tcb := some tcb }, .closed r)
      | .abort _ =>
        match tcb.abort with
        | .error e => .error e
        | .ok tcb => .ok (s.setSide x { sd with tcb := some tcb }, .ok)
      | _ => .ok (s, .ok)

/-- run a list of ops from `s`; the results of all ops, or the first panic -/
def Sys.run (s : Sys) : List Op → Except String (Sys × List Res)
  | [] => .ok (s, [])
  | op :: ops =>
    match s.step op with
    | .error e => .error e
    | .ok (s, r) =>
      match s.run ops with
      | .error e => .error e
      | .ok (s, rs) => .ok (s, r :: rs)

/-- a forged segment addressed to side `x` (source port = the peer's port), as `inject` builds it -/
def forge (x : SideId) (ctl seq ack wnd : Nat) (text : List UInt8) : Segment :=
  { hdr := { srcPort := x.peer.port, dstPort := x.port, seq := BitVec.ofNat 32 seq,
             ack := BitVec.ofNat 32 ack, dataOffset := 5, ctl := Ctl.ofNat ctl,
             wnd := BitVec.ofNat 16 wnd, urg := 0, checksum := 0 },
    text := text }

end Elvis.Tcp
