import ElvisVerif.Model.Codec.Ipv4
import ElvisVerif.Model.Codec.Udp
import ElvisVerif.Model.Codec.Tcp
import ElvisVerif.Model.Demux
import ElvisVerif.Model.Reasm
import ElvisVerif.Model.Tcb
import ElvisVerif.Generated.Consts
import ElvisVerif.Generated.RecvCert
/-!
# The composed receive path, over BYTES

`PciSession::receive → Ipv4::demux → Ipv4Session::receive → Udp::demux / Tcp::demux`
(pci/pci_session.rs, ipv4.rs, ipv4/ipv4_session.rs, udp.rs, udp/udp_session.rs, tcp.rs) with every
error branch and every panic site of the dev profile, composed from the pieces that already exist:

* the byte-level decoders `Codec.Ipv4.fromBytes`, `Codec.Udp.fromBytes`, `Codec.Tcp.fromBytes`
  (properties C08 / C14a / C18) — here they are *called*, the frame is a byte string;
* the table logic of `Model/Demux.lean` (`ipv4Upstream`, `udpDemux`: exact binding, then
  `0.0.0.0`; property C04) on the machine's UDP / IPv4 tables;
* the reassembler of `Model/Reasm.lean` (`Reassembly.receive`, property C11) on the FRESH
  `Reassembly` that `Ipv4::demux` creates for every frame (`reassembly: Default::default()`);
* `segmentArrivesClosed` / `segmentArrivesListen` of `Model/Tcb.lean` for a segment without session
  (the logic `Sys.arrive` of `Model/TcpSys.lean` has for one connection, here over the session and
  listen-binding tables keyed by socket pairs / endpoints).

What one call may do besides returning: change the machine (`Result.machine`), call an
application / hand a datagram to a protocol this model does not follow, put a reply on the wire,
spawn a task (`Result.effects`); `Result.calls` lists the `demux` functions entered, in order.
A panic of the dev profile is `.error "panic:…"`.

`Ipv4::demux` takes the datagram to be the first `total length` octets of the frame (fix F-C14-S3:
a shorter frame is dropped with `Header`, octets behind the datagram are link padding and are cut
off before anything is handed up).

Fixed by the path itself (so not modelled as a branch): `PciSession::receive` inserts
`pci::DemuxInfo` into the control block before it calls anybody, hence `Ipv4::demux`'s
`.ok_or(MissingContext)` on it and `Tcp::demux`'s `.unwrap()` on it cannot fail below a tap;
`Pci::open(slot)` is called with the tap's own slot.  Applications are outside: their `demux` is
taken to return `Ok(())`.

Only core imports: linked into the native driver (`elvis_model c14-path`).
-/
namespace Elvis.Recv
open Elvis.Codec Elvis.Demux

abbrev Bytes := List UInt8

/-- protocol ids: `pidIpv4 = 0`, `pidUdp = 1` (Model/Demux.lean) and -/
def pidTcp : Pid := 2

/-- `message.remove_front(N)` in `Tcp::demux` (extracted) -/
abbrev tcpStrip : Nat := Elvis.Gen.Recv.tcpDemuxStrip
/-- `message.remove_front(N)` in `Udp::demux` (extracted) -/
abbrev udpStripN : Nat := Elvis.Gen.udpDemuxStrip
/-- `header.ihl as usize * N` in `Ipv4::demux` (extracted) -/
abbrev ipStripFactor : Nat := Elvis.Gen.ipv4DemuxStripFactor
/-- the two factors of the fragment guard (extracted) -/
abbrev guardWord : Nat := Elvis.Gen.Recv.fragGuardWord
abbrev guardUnit : Nat := Elvis.Gen.Recv.fragGuardUnit

/-- `Endpoints { local, remote }` -/
structure Endpoints where
  loc : Endpoint
  rem : Endpoint
deriving DecidableEq, Repr

/-- a `TcpSession`: the upstream it reports to, the TCB its task owns, and the channel
`Tcp::demux` writes to (`Instruction::Incoming(segment)`, oldest first).  The task takes segments
off the channel and runs `Tcb::segment_arrives` (Model/Tcb.lean) — that is not part of `demux`. -/
structure Session where
  upstream : Pid
  tcb : Elvis.Tcp.Tcb
  inbox : List Elvis.Tcp.Segment
deriving Repr

/-- everything on a machine the receive path reads or writes -/
structure Machine where
  /-- protocols of the machine, `Udp.listen_bindings`, `Ipv4.listen_bindings` -/
  dm : Demux.Machine
  /-- `Tcp.listen_bindings : Endpoint → upstream` -/
  tcpListen : List (Endpoint × Pid)
  /-- `Tcp.sessions : Endpoints → TcpSession` -/
  tcpSessions : List (Endpoints × Session)
deriving Repr

/-- `pci::DemuxInfo` as `PciSession::receive` fills it in -/
structure Link where
  slot : Nat
  /-- `delivery.sender` -/
  source : Nat
  mtu : Nat
deriving DecidableEq, Repr

/-- inputs that are not part of the frame: the `compute_checksum` feature, the ISS `rand::random()`
yields, and what the inner `PciSession::receive` answers when a reply to a loop-back source address
(127.0.0.0/8) is fed straight back into the own tap (`Ipv4Session::send`; that inner call is
another run of this very path, which the model does not unfold) -/
structure Env where
  ck : Bool
  iss : Elvis.Tcp.Seq
  loopInnerOk : Bool
deriving Repr

/-- `DemuxError` / `ReceiveError::Protocol` -/
inductive Err
  | protocol          -- ReceiveError::Protocol: the machine has no such protocol
  | header            -- DemuxError::Header
  | missingSession    -- DemuxError::MissingSession
  | missingContext    -- DemuxError::MissingContext
  | missingProtocol (p : Pid)  -- DemuxError::MissingProtocol
  | other             -- DemuxError::Other
deriving DecidableEq, Repr

inductive Effect
  /-- `UdpSession::receive` calls the application's `demux` -/
  | appDemux (d : Delivered)
  /-- `Ipv4Session::receive` / `PciSession::receive` hands the message to a protocol of the machine
      that this model does not follow (ARP, a router, an application bound on IPv4, …) -/
  | handUp (pid : Pid) (body : Bytes)
  /-- `caller.send(Message::new(response.serialize()))` put a TCP header on the wire:
      destination MAC, source and destination address of the IPv4 header, the 20 octets -/
  | reply (dstMac : Nat) (src dst : Nat) (tcp : Bytes)
  /-- the same, but for a loop-back destination: handed to the own tap -/
  | loopReply (src dst : Nat) (tcp : Bytes)
  /-- `TcpSession::new` spawned the task of a new session -/
  | spawnSession (ep : Endpoints)
  /-- `Ipv4Session::receive` spawned the expiry timer of a lone fragment (the reassembler it
      belongs to is dropped with the session: nothing of it survives the call) -/
  | reassemblyTimer (seconds : Nat)
deriving Repr

structure Result where
  machine : Machine
  /-- what `PciSession::receive` (or the `demux` function asked about) returns -/
  ret : Except Err Unit
  effects : List Effect
  /-- the `demux` functions entered, in call order (`pidIpv4`, `pidUdp`, `pidTcp`) -/
  calls : List Pid
deriving Repr

/-- a call that ends with an error at this layer: nothing changed, nothing done -/
def dropped (m : Machine) (e : Err) (calls : List Pid) : Result :=
  { machine := m, ret := .error e, effects := [], calls := calls }

/-- record that `p`'s `demux` was entered before what `r` describes; errors propagate (`?`) -/
def entered (p : Pid) : Except String Result → Except String Result
  | .error e => .error e
  | .ok r => .ok { r with calls := p :: r.calls }

/-! ## header conversions -/

/-- the fields `Model/Demux.lean` looks at -/
def absIp (h : Ipv4.Header) : IpHdr :=
  ⟨h.ihl, h.protocol, h.source, h.destination, Ipv4.flagsIsLastFragment h.flags, h.fragmentOffset⟩

/-- the same header for `Model/Reasm.lean` -/
def fragHdr (h : Ipv4.Header) : Elvis.Frag.Hdr :=
  { ihl := h.ihl, tos := h.tos, totalLength := h.totalLength, ident := h.identification,
    fragOffset := h.fragmentOffset, flags := h.flags, ttl := h.ttl, proto := h.protocol,
    checksum := h.checksum, src := h.source, dst := h.destination }

/-- decoded TCP header → the `TcpHeader` of `Model/Tcb.lean` (fixed-width fields) -/
def toHdr (h : Codec.Tcp.Header) : Elvis.Tcp.Hdr :=
  { srcPort := BitVec.ofNat 16 h.srcPort, dstPort := BitVec.ofNat 16 h.dstPort,
    seq := BitVec.ofNat 32 h.seq, ack := BitVec.ofNat 32 h.ack,
    dataOffset := BitVec.ofNat 8 h.dataOffset, ctl := Elvis.Tcp.Ctl.ofNat h.ctl,
    wnd := BitVec.ofNat 16 h.wnd, urg := BitVec.ofNat 16 h.urg,
    checksum := BitVec.ofNat 16 h.checksum }

/-- and back, for `TcpHeader::serialize` of a response -/
def ofHdr (h : Elvis.Tcp.Hdr) : Codec.Tcp.Header :=
  { srcPort := h.srcPort.toNat, dstPort := h.dstPort.toNat, seq := h.seq.toNat, ack := h.ack.toNat,
    dataOffset := h.dataOffset.toNat, ctl := h.ctl.toNat, wnd := h.wnd.toNat, urg := h.urg.toNat,
    checksum := h.checksum.toNat }

/-! ## `Udp::demux` -/

/-- `Udp::demux(message, caller, control, machine)`; `ip` = `control.get::<Ipv4Header>()` -/
def udpDemux (env : Env) (m : Machine) (lk : Link) (ip : Option Ipv4.Header) (msg : Bytes) :
    Except String Result :=
  match ip with
  -- fix bdf9f0be: `.ok_or(DemuxError::MissingContext)?`
  | none => .ok (dropped m .missingContext [pidUdp])
  | some ih =>
    match Codec.Udp.fromBytes env.ck msg msg.length ih.source ih.destination with
    | .error (.panic s) => .error s
    | .error (.err _) => .ok (dropped m .header [pidUdp])
    | .ok uh =>
      -- message.remove_front(8): assert!(len <= self.len)
      if msg.length < udpStripN then .error "panic:assert:Message::remove_front:Udp::demux" else
      -- binding lookup and `UdpSession::receive`: Model/Demux.lean
      match Demux.udpDemux m.dm (absIp ih) (some ⟨uh.source, uh.destination⟩) msg lk.slot with
      | .ok d => .ok { machine := m, ret := .ok (), effects := [.appDemux d], calls := [pidUdp] }
      | .error .udpMissingSession => .ok (dropped m .missingSession [pidUdp])
      | .error _ => .error "panic:expect:UdpSession::receive:No such protocol"

/-! ## `Tcp::demux` -/

def lookupSession (ep : Endpoints) : List (Endpoints × Session) → Option Session
  | [] => none
  | (k, v) :: rest => if k = ep then some v else lookupSession ep rest

/-- `entry.get().receive(segment)`: the segment goes into that session's channel -/
def pushInbox (ep : Endpoints) (seg : Elvis.Tcp.Segment) :
    List (Endpoints × Session) → List (Endpoints × Session)
  | [] => []
  | (k, v) :: rest =>
    if k = ep then (k, { v with inbox := v.inbox ++ [seg] }) :: rest
    else (k, v) :: pushInbox ep seg rest

/-- listen binding of `Tcp::demux`: `(address, port)`, then (fix 2e38457a: after releasing the
vacant entry) `(0.0.0.0, port)` -/
def tcpBinding (m : Machine) (loc : Endpoint) : Option Pid :=
  match lookup loc m.tcpListen with
  | some u => some u
  | none => lookup (⟨anyAddr, loc.port⟩ : Endpoint) m.tcpListen

/-- `Ipv4Address::SUBNET` and `Ipv4Net::LOOPBACK.contains` -/
def isBroadcastAddr (a : Nat) : Bool := a == Elvis.Gen.ipv4SubnetBroadcast
def isLoopback (a : Nat) : Bool := a / 16777216 == 127

/-- `caller.send(Message::new(response.serialize()), machine)` where `caller` is the
`Ipv4Session` that `Ipv4::demux` made for this frame (`local` = the frame's destination, `remote` =
its source, recipient MAC = the frame's sender): 20 octets of TCP header behind a 20-octet IPv4
header through `PciSession::send_pci` (refused when 40 exceeds the MTU), broadcast for a
255.255.255.255 source, straight back into the own tap for a loop-back source.
`none` = `Err(_)` (which `Tcp::demux` turns into `DemuxError::Other`). -/
def sendReply (env : Env) (lk : Link) (ih : Ipv4.Header) (resp : Elvis.Tcp.Hdr) : Option Effect :=
  let tcp := Codec.Tcp.serialize (ofHdr resp)
  if isBroadcastAddr ih.source then
    if lk.mtu < 40 then none else some (.reply Elvis.Gen.broadcastMac ih.destination ih.source tcp)
  else if isLoopback ih.source then
    if env.loopInnerOk then some (.loopReply ih.destination ih.source tcp) else none
  else
    if lk.mtu < 40 then none else some (.reply lk.source ih.destination ih.source tcp)

/-- `Tcp::demux(message, caller, control, machine)`; `ip` = `control.get::<Ipv4Header>()` -/
def tcpDemux (env : Env) (m : Machine) (lk : Link) (ip : Option Ipv4.Header) (msg : Bytes) :
    Except String Result :=
  match ip with
  | none => .ok (dropped m .missingContext [pidTcp])
  | some ih =>
    -- `.map_err(|_| DemuxError::Header)?`
    match Codec.Tcp.fromBytes env.ck msg msg.length ih.source ih.destination with
    | .error (.panic s) => .error s
    | .error (.err _) => .ok (dropped m .header [pidTcp])
    | .ok th =>
      -- message.remove_front(20): assert!(len <= self.len)
      if msg.length < tcpStrip then .error "panic:assert:Message::remove_front:Tcp::demux" else
      let text := msg.drop tcpStrip
      let ep : Endpoints := ⟨⟨ih.destination, th.dstPort⟩, ⟨ih.source, th.srcPort⟩⟩
      let seg : Elvis.Tcp.Segment := ⟨toHdr th, text⟩
      match lookupSession ep m.tcpSessions with
      | some _ =>
        .ok { machine := { m with tcpSessions := pushInbox ep seg m.tcpSessions }, ret := .ok (),
              effects := [], calls := [pidTcp] }
      | none =>
        match tcpBinding m ep.loc with
        | none =>
          -- no session, no binding: CLOSED
          match Elvis.Tcp.segmentArrivesClosed seg.hdr (BitVec.ofNat 32 text.length) with
          | none => .ok (dropped m .missingSession [pidTcp])
          | some resp =>
            match sendReply env lk ih resp with
            | none => .ok (dropped m .other [pidTcp])
            | some eff =>
              .ok { machine := m, ret := .error .missingSession, effects := [eff], calls := [pidTcp] }
        | some up =>
          -- LISTEN (`control.get::<pci::DemuxInfo>().unwrap().mtu`: present below a tap)
          match Elvis.Tcp.segmentArrivesListen seg env.iss (BitVec.ofNat 16 lk.mtu) with
          | .error e => .error e
          | .ok none => .ok { machine := m, ret := .ok (), effects := [], calls := [pidTcp] }
          | .ok (some (.Response resp)) =>
            match sendReply env lk ih resp with
            | none => .ok (dropped m .other [pidTcp])
            | some eff => .ok { machine := m, ret := .ok (), effects := [eff], calls := [pidTcp] }
          | .ok (some (.Tcb tcb)) =>
            -- machine.get(upstream).ok_or(DemuxError::MissingProtocol(upstream))?
            if up ∈ m.dm.protocols then
              .ok { machine := { m with tcpSessions := (ep, ⟨up, tcb, []⟩) :: m.tcpSessions },
                    ret := .ok (), effects := [.spawnSession ep], calls := [pidTcp] }
            else .ok (dropped m (.missingProtocol up) [pidTcp])

/-! ## `Ipv4::demux` and `Ipv4Session::receive` -/

/-- the guard of fix 2a82fb5c: `fragment_offset * 8 + data_octets > u16::MAX − header_octets`
(u32 arithmetic on u16/u8 operands: no overflow is possible) -/
def fragmentBeyondMax (h : Ipv4.Header) : Bool :=
  decide (h.fragmentOffset * guardUnit + (h.totalLength - h.ihl * guardWord) > 65535 - h.ihl * guardWord)

/-- `Ipv4::demux(message, caller, control, machine)` followed by `Ipv4Session::receive` -/
def ipv4Demux (env : Env) (m : Machine) (lk : Link) (bytes : Bytes) : Except String Result :=
  match Ipv4.fromBytes env.ck bytes with
  | .error (.panic s) => .error s
  | .error (.err _) => .ok (dropped m .header [pidIpv4])
  | .ok h =>
    -- let data_octets = header.total_length as u32 - header_octets  (checked subtraction)
    if h.totalLength < h.ihl * guardWord then .error "panic:sub-overflow:Ipv4::demux:data_octets" else
    if fragmentBeyondMax h then .ok (dropped m .header [pidIpv4]) else
    -- fix F-C14-S3: the datagram is the first `total_length` octets of the frame.  A frame that ends
    -- before that carries a datagram cut short in transit (`Err(Header)`); whatever follows the
    -- datagram is link padding and is cut off (`message.slice(..header.total_length as usize)`)
    if bytes.length < h.totalLength then .ok (dropped m .header [pidIpv4]) else
    let dgram := bytes.take h.totalLength
    -- message.remove_front(header.ihl as usize * 4): assert!(len <= self.len)
    if dgram.length < h.ihl * ipStripFactor then .error "panic:assert:Message::remove_front:Ipv4::demux" else
    let body := dgram.drop (h.ihl * ipStripFactor)
    match ipv4Upstream m.dm h.destination (protoNumber h.protocol) with
    | none => .ok (dropped m .missingSession [pidIpv4])
    | some up =>
      -- Ipv4Session { reassembly: Default::default(), .. }.receive(header, message, control, machine)
      match Elvis.Reasm.Reassembly.receive .fixed .new (fragHdr h) body with
      | .error e => .error e
      | .ok (_, .incomplete timeout _ _) =>
        .ok { machine := m, ret := .ok (), effects := [.reassemblyTimer timeout], calls := [pidIpv4] }
      | .ok (_, .complete _ body') =>
        -- machine.get(self.upstream).expect("No such protocol").demux(message, self, control, machine)?
        -- (`control` still carries the header `Ipv4::demux` inserted, i.e. `h`)
        if up ∈ m.dm.protocols then
          if up = pidUdp then entered pidIpv4 (udpDemux env m lk (some h) body')
          else if up = pidTcp then entered pidIpv4 (tcpDemux env m lk (some h) body')
          else .ok { machine := m, ret := .ok (), effects := [.handUp up body'], calls := [pidIpv4] }
        else .error "panic:expect:Ipv4Session::receive:No such protocol"

/-! ## `PciSession::receive` -/

/-- a frame as the network hands it to a tap: the protocol it names and its bytes -/
structure Frame where
  target : Pid
  bytes : Bytes
deriving DecidableEq, Repr

/-- `PciSession::receive(delivery)` -/
def receive (env : Env) (m : Machine) (lk : Link) (f : Frame) : Except String Result :=
  if f.target ∈ m.dm.protocols then
    if f.target = pidIpv4 then ipv4Demux env m lk f.bytes
    -- a frame that names a transport protocol at the link layer: no IPv4 header in the control block
    else if f.target = pidUdp then udpDemux env m lk none f.bytes
    else if f.target = pidTcp then tcpDemux env m lk none f.bytes
    else .ok { machine := m, ret := .ok (), effects := [.handUp f.target f.bytes], calls := [] }
  else .ok (dropped m .protocol [])

/-! ## a sequence of frames (for the statements about "every later frame") -/

def runFrames (env : Env) (lk : Link) : Machine → List Frame → Except String (Machine × List Result)
  | m, [] => .ok (m, [])
  | m, f :: fs =>
    match receive env m lk f with
    | .error e => .error e
    | .ok r =>
      match runFrames env lk r.machine fs with
      | .error e => .error e
      | .ok (m', rs) => .ok (m', r :: rs)

end Elvis.Recv
