//! C18: checksums.  Sub-commands `c18-ipv4`, `c18-udp`, `c18-tcp`, run with the cargo feature
//! `compute_checksum` (run config `"features": ["compute_checksum"]`).  Generators, executor and
//! oracle are shared with C08 (`c08.rs`, `c08_exec.rs`, `c08_ref.rs`): here the op mix adds
//! crafted one's-complement sums, every single-bit and sampled double-bit corruption of emitted
//! packets, the independent implementation's checksums (both zero representations) and
//! accumulator op sequences.
use super::c08::{run_proto, Mode};
use super::c08_exec::CK;
use hcommon::*;

pub fn run(args: &Args) {
    if !CK {
        eprintln!("hcore: {} needs the cargo feature compute_checksum (features: [\"compute_checksum\"] in the run config)", args.prop);
        std::process::exit(2);
    }
    match args.prop.as_str() {
        "c18-ipv4" => run_proto(args, "ipv4", Mode::C18),
        "c18-udp" => run_proto(args, "udp", Mode::C18),
        "c18-tcp" => run_proto(args, "tcp", Mode::C18),
        p => {
            eprintln!("hcore: unknown C18 sub-command {}", p);
            std::process::exit(2);
        }
    }
}
