import ElvisVerif.Model.Dns
import Driver.Common
/-! Line-protocol handler for C20 (sub-command `c20`): replays the op lines the harness derived
from a real run (see harness/hfull/src/props/c20.rs) through `Elvis.Dns.step`. -/
namespace Driver.C20
open Elvis.Dns

structure St where
  rogue : String := "none"
  /-- registrations, latest first -/
  recordsRev : List (Bytes × Addr) := []
  nclients : Nat := 0
  /-- planned lookups, latest first -/
  planRev : List (Nat × Bytes) := []
  /-- `sys` has been initialised from the configuration lines -/
  ready : Bool := false
  sys : Sys := init [] 0

def St.records (st : St) : List (Bytes × Addr) := st.recordsRev.reverse
def St.plan (st : St) : List (Nat × Bytes) := st.planRev.reverse

/-- initialise the system from the configuration lines at the first operation line -/
def St.ensure (st : St) : St :=
  if st.ready then st else { st with ready := true, sys := init (serverTable st.records) st.nclients }

def parseAddr (s : String) : Option Addr :=
  match (s.splitOn ".").mapM (·.toNat?) with
  | some [a, b, c, d] =>
    if a < 256 ∧ b < 256 ∧ c < 256 ∧ d < 256 then some ⟨UInt8.ofNat a, UInt8.ofNat b, UInt8.ofNat c, UInt8.ofNat d⟩ else none
  | _ => none

def showAddr (x : Addr) : String := s!"{x.a.toNat}.{x.b.toNat}.{x.c.toNat}.{x.d.toNat}"

def kvOf (ws : List String) (k : String) : Option String :=
  ws.findSome? fun w => if w.startsWith (k ++ "=") then some ((w.drop (k.length + 1)).toString) else none

/-- insertion sort of (key, value) strings by key -/
def insertS (x : String × String) : List (String × String) → List (String × String)
  | [] => [x]
  | y :: r => if x.1 ≤ y.1 then x :: y :: r else y :: insertS x r
def sortS (l : List (String × String)) : List (String × String) := l.foldr insertS []

def distinctKeys : Table → List (Bytes × Addr)
  | [] => []
  | (k, v) :: t => (k, v) :: (distinctKeys t).filter (fun e => e.1 ≠ k)

def cacheDump (t : Table) : String :=
  let es := sortS ((distinctKeys t).map fun e => (Driver.toHex e.1, showAddr e.2))
  if es.isEmpty then "-" else ",".intercalate (es.map fun e => e.1 ++ "=" ++ e.2)

/-- the harness' rogue responder (not part of the model of the code under test) -/
def replyBytes (id : Nat) (qname aname : Bytes) (a : Addr) : Bytes :=
  ({ header := Header.new id .response, question := Question.new qname, answer := Record.new aname 0 a } : DnsMsg).build

def otherName : Bytes := "other.example".toUTF8.toList

def splitQuery (q : Bytes) : Option (Nat × Bytes) :=
  match takeU16 q with
  | some (id, _) => if q.length < 13 then none else
    match takeName (q.drop 12) with
    | some (n, _) => some (id, n)
    | none => none
  | none => none

def rogueReply (kind : String) (q : Bytes) : Option Bytes :=
  match splitQuery q with
  | none => none
  | some (id, name) =>
    let six : Addr := ⟨6, 6, 6, 6⟩
    if kind == "id" then some (replyBytes ((id + 1) % 65536) name name six)
    else if kind == "qname" then some (replyBytes id otherName name six)
    else if kind == "name" then some (replyBytes id name otherName six)
    else if kind == "short" then some (q.take 20)
    else some (replyBytes id name name six)

/-- deliver the oldest datagram in flight until nothing is left (bounded) -/
def settle (s : Sys) : Nat → Sys
  | 0 => s
  | fuel + 1 => if s.net.isEmpty || s.crashed.isSome then s else settle (Elvis.Dns.step s (.deliver 0)) fuel

/-- `expect-died` (the real process died): which planned lookup ends the process, and how?
    The planned lookups are run through the model one after the other, each to completion
    (which panic a lookup leads to does not depend on the interleaving: names that end the
    process are never cached, and the port counter only counts misses). -/
def expectLine (st : St) (table : Table) : String :=
  if st.rogue == "none" then
    let s := st.plan.foldl (fun s p =>
      if s.crashed.isSome then s else
        -- the log and the sockets that are done are not read by later steps: drop them (keeps
        -- long plans linear)
        let s' := settle (Elvis.Dns.step s (.lookup p.1 p.2 0)) 8
        { s' with events := [], socks := s'.socks.filter (fun so => !so.done) }) (init table st.nclients)
    match s.crashed with
    | some e => "died " ++ e
    | none => "alive"
  else "alive"   -- whatever a rogue responder sends, the client reports an error, it does not panic

def findIdx (net : List Datagram) (p : Datagram → Bool) : Option Nat :=
  let rec go (i : Nat) : List Datagram → Option Nat
    | [] => none
    | d :: r => if p d then some i else go (i + 1) r
  go 0 net

def step (st0 : St) (ws : List String) : St × String :=
  let st := match ws with
    | "lookup" :: _ | "deliver" :: _ | "drop" :: _ | "end" :: _ => st0.ensure
    | _ => st0
  match ws with
  | ["case", id] => ({}, s!"case {id}")
  | "cfg" :: rest => ({ st with rogue := (kvOf rest "rogue").getD "none" }, "cfg")
  | ["rec", n, a] =>
    match Driver.parseHex n, parseAddr a with
    | some nb, some ad => ({ st with recordsRev := (nb, ad) :: st.recordsRev, ready := false }, "rec")
    | _, _ => (st, "bad-op")
  | ["clients", n] =>
    ({ st with nclients := n.toNat?.getD 0, ready := false }, "clients")
  | ["plan", c, _t, n] =>
    match c.toNat?, Driver.parseHex n with
    | some cc, some nb => ({ st with planRev := (cc, nb) :: st.planRev }, "plan")
    | _, _ => (st, "bad-op")
  | ["expect-died"] => (st, expectLine st (serverTable st.records))
  | ["lookup", c, n, id] =>
    match c.toNat?, Driver.parseHex n with
    | some cc, some nb =>
      let idn := id.toNat?.getD 0
      let s' := Elvis.Dns.step st.sys (.lookup cc nb idn)
      let out :=
        match s'.crashed with
        | some e => "crash " ++ e
        | none =>
          match s'.events.getLast? with
          | some (.resolved _ _ a true) => "hit " ++ showAddr a
          | some (.sent d) =>
            (match d.src with
             | .client _ p => s!"miss {p} {Driver.toHex d.payload}"
             | .server => "bad-state")
          | _ => "bad-state"
      ({ st with sys := s' }, out)
    | _, _ => (st, "bad-op")
  | ["deliver", "q", c, p] =>
    match c.toNat?, p.toNat? with
    | some cc, some pp =>
      match findIdx st.sys.net (fun d => d.dst == .server && d.src == .client cc pp) with
      | none => (st, "no-such-datagram")
      | some k =>
        if st.rogue == "none" then
          let s' := Elvis.Dns.step st.sys (.deliver k)
          let out :=
            match s'.crashed with
            | some e => "crash " ++ e
            | none =>
              match s'.events.getLast? with
              | some (.sent d) => "reply " ++ Driver.toHex d.payload
              | some (.unanswered _ _) => "reply none"   -- the responder logged an error and sent nothing
              | _ => "bad-state"
          ({ st with sys := s' }, out)
        else
          match st.sys.net[k]? with
          | none => (st, "no-such-datagram")
          | some d =>
            match rogueReply st.rogue d.payload with
            | none => ({ st with sys := { st.sys with net := st.sys.net.eraseIdx k } }, "reply none")
            | some r =>
              let d' : Datagram := { src := .server, dst := d.src, payload := r }
              ({ st with sys := { st.sys with net := st.sys.net.eraseIdx k ++ [d'], events := st.sys.events ++ [.sent d'] } },
               "reply " ++ Driver.toHex r)
    | _, _ => (st, "bad-op")
  | ["drop", "q", c, p] =>
    -- the harness saw this query reach the server machine and be discarded there (listen backlog
    -- full, finding F-C20-3): it leaves the network unanswered
    match c.toNat?, p.toNat? with
    | some cc, some pp =>
      match findIdx st.sys.net (fun d => d.dst == .server && d.src == .client cc pp) with
      | none => (st, "no-such-datagram")
      | some k => ({ st with sys := { st.sys with net := st.sys.net.eraseIdx k } }, "dropped")
    | _, _ => (st, "bad-op")
  | ["deliver", "r", c, p] =>
    match c.toNat?, p.toNat? with
    | some cc, some pp =>
      match findIdx st.sys.net (fun d => d.dst == .client cc pp) with
      | none => (st, "no-such-datagram")
      | some k =>
        let s' := Elvis.Dns.step st.sys (.deliver k)
        let out :=
          match s'.crashed with
          | some e => "crash " ++ e
          | none =>
            match s'.events.reverse with
            | .resolved _ _ a false :: .accepted _ _ _ m :: _ =>
              s!"ok {showAddr a} id={m.header.id} q={Driver.toHex m.question.qname} an={Driver.toHex m.answer.name}"
            | .failed _ _ e :: _ => "fail " ++ e
            | _ => "bad-state"
        ({ st with sys := s' }, out)
    | _, _ => (st, "bad-op")
  | ["end"] =>
    let parts := (List.range st.nclients).map fun c =>
      let sent := (st.sys.events.filter fun e =>
        match e with
        | .sent d => (match d.src with | .client c' _ => c' == c | .server => false)
        | _ => false).length
      let cache := match st.sys.clients[c]? with | some cl => cacheDump cl.cache | none => "-"
      s!"c{c} sent={sent} cache={cache}"
    (st, " ; ".intercalate parts)
  | _ => (st, "bad-op")

def dispatch (sub : String) (i o : IO.FS.Stream) : Option (IO Unit) :=
  if sub == "c20" || sub == "c20-ports" then some (Driver.loop i o step {}) else none

end Driver.C20
