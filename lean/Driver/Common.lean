/-! Shared helpers for the line-protocol driver (no imports beyond core). -/
namespace Driver

def hexDigit (n : Nat) : Char :=
  if n < 10 then Char.ofNat (48 + n) else Char.ofNat (87 + n)

def toHex (b : List UInt8) : String :=
  if b.isEmpty then "-" else
  String.ofList (b.flatMap fun x => [hexDigit (x.toNat / 16), hexDigit (x.toNat % 16)])

def hexVal (c : Char) : Option Nat :=
  if '0' ≤ c ∧ c ≤ '9' then some (c.toNat - 48)
  else if 'a' ≤ c ∧ c ≤ 'f' then some (c.toNat - 87)
  else none

def parseHexChars : List Char → Option (List UInt8)
  | [] => some []
  | a :: b :: rest => do
    let x ← hexVal a
    let y ← hexVal b
    let r ← parseHexChars rest
    pure (UInt8.ofNat (x * 16 + y) :: r)
  | _ => none

def parseHex (s : String) : Option (List UInt8) :=
  if s == "-" then some [] else parseHexChars s.toList

def words (line : String) : List String :=
  (line.trimAscii.toString.splitOn " ").filter (· ≠ "")

/-- generic loop: one line in, one line out, state threaded -/
partial def loop {σ : Type} (h : IO.FS.Stream) (out : IO.FS.Stream)
    (step : σ → List String → σ × String) (s : σ) : IO Unit := do
  let line ← h.getLine
  if line.isEmpty then return ()
  let (s', o) := step s (words line)
  out.putStrLn o
  loop h out step s'

end Driver
