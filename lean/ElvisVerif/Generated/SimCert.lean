-- GENERATED from /repo sources by tools/extract.py on every check; do not edit
namespace Elvis.Gen
structure StartCert where
  name : String
  waits : Nat
  sendBeforeWait : Bool
deriving Repr, DecidableEq

/-- one row per `impl Protocol for T`: barrier waits in `start`, frame-producing call before the wait -/
def startRoutines : List StartCert := [
  ⟨"elvis-core/src/protocols/arp.rs::Arp", 1, false⟩,
  ⟨"elvis-core/src/protocols/dhcp/dhcp_client.rs::DhcpClient", 1, false⟩,
  ⟨"elvis-core/src/protocols/dns/dns_client.rs::DnsClient", 1, false⟩,
  ⟨"elvis-core/src/protocols/dns/dns_server.rs::DnsServer", 1, false⟩,
  ⟨"elvis-core/src/protocols/ipv4.rs::Ipv4", 1, false⟩,
  ⟨"elvis-core/src/protocols/pci.rs::Pci", 1, false⟩,
  ⟨"elvis-core/src/protocols/socket_api.rs::SocketAPI", 1, false⟩,
  ⟨"elvis-core/src/protocols/tcp.rs::Tcp", 1, false⟩,
  ⟨"elvis-core/src/protocols/udp.rs::Udp", 1, false⟩,
  ⟨"elvis/src/applications/arp_router.rs::ArpRouter", 1, false⟩,
  ⟨"elvis/src/applications/barebones_client.rs::BareBonesClient", 1, false⟩,
  ⟨"elvis/src/applications/barebones_server.rs::BareBonesServer", 1, false⟩,
  ⟨"elvis/src/applications/basic_client.rs::BasicClient", 1, false⟩,
  ⟨"elvis/src/applications/basic_server.rs::BasicServer", 1, false⟩,
  ⟨"elvis/src/applications/capture.rs::Capture", 1, false⟩,
  ⟨"elvis/src/applications/dhcp_server.rs::DhcpServer", 1, false⟩,
  ⟨"elvis/src/applications/dns_test_client.rs::DnsTestClient", 1, false⟩,
  ⟨"elvis/src/applications/dns_test_server.rs::DnsTestServer", 1, false⟩,
  ⟨"elvis/src/applications/forward.rs::Forward", 1, true⟩,
  ⟨"elvis/src/applications/on_receive.rs::OnReceive", 1, false⟩,
  ⟨"elvis/src/applications/ping_pong.rs::PingPong", 1, false⟩,
  ⟨"elvis/src/applications/send_message.rs::SendMessage", 1, false⟩,
  ⟨"elvis/src/applications/simple_web_client.rs::SimpleWebClient", 1, false⟩,
  ⟨"elvis/src/applications/socket_client.rs::SocketClient", 1, false⟩,
  ⟨"elvis/src/applications/socket_server.rs::SocketServer", 1, false⟩,
  ⟨"elvis/src/applications/streaming_client.rs::StreamingClient", 1, false⟩,
  ⟨"elvis/src/applications/streaming_server.rs::VideoServer", 1, false⟩,
  ⟨"elvis/src/applications/tcp_listener_server.rs::TcpListenerServer", 1, false⟩,
  ⟨"elvis/src/applications/tcp_stream_client.rs::TcpStreamClient", 1, false⟩,
  ⟨"elvis/src/applications/throughput_tester.rs::ThroughputTester", 1, false⟩,
  ⟨"elvis/src/applications/user_behavior.rs::UserBehavior", 1, false⟩,
  ⟨"elvis/src/applications/web_server.rs::WebServer", 1, false⟩,
  ⟨"elvis/src/simulations/arp_sims.rs::WaitToListen", 1, false⟩,
  ⟨"elvis/src/simulations/subnet_sims.rs::MockGateway", 1, false⟩
]

def barrierSizedByProtocolCount : Bool := true
def machineSpawnsStartPerProtocol : Bool := true
def shutdownReceiverCreatedBeforeStart : Bool := true
/-- run_internet returns the set-once first-request status when one exists -/
def firstStatusCellUsed : Bool := true
def shutdownChannelCapacity : Nat := 16
def outerTimeoutSlackMs : Nat := 1000
end Elvis.Gen
