import ElvisVerif.Model.TcpSys
import ElvisVerif.Spec.Rfc9293
/-!
# C03 — TCP connections open, synchronise and close as RFC 9293 prescribes

(stage 3: the witnesses of the three repaired close defects as regression theorems)
-/
namespace Elvis.Tcp
namespace C03
open Elvis.Rfc9293

/-! ## helpers for concrete runs -/

def tcbOf (x : SideId) (r : Except String (Sys × List Res)) : Option Tcb :=
  match r with
  | .ok (s, _) => (s.side x).tcb
  | .error _ => none

def stateOf (x : SideId) (r : Except String (Sys × List Res)) : Option State := (tcbOf x r).map (·.state)

/-- the segments returned by the last op when it was an `emit` -/
def lastEmit (r : Except String (Sys × List Res)) : Option (List Segment) :=
  match r with
  | .ok (_, rs) => match rs.getLast? with
    | some (.emitted _ segs) => some segs
    | _ => none
  | .error _ => none

/-- three-way handshake: A opens (ISS 1000), B listens (ISS 5000); history 0 = SYN, 1 = SYN-ACK,
    2 = ACK; both ESTABLISHED -/
def handshake : List Op :=
  [.open .A 1000 1500, .listen .B 5000 1500, .emit .A, .deliver .B 0, .emit .B, .deliver .A 1,
   .emit .A, .deliver .B 2]

/-- simultaneous close after the handshake: history 3 = A's FIN, 4 = B's FIN, 5 = A's ACK of
    B's FIN, 6 = B's ACK of A's FIN; both sides end in TIME-WAIT with nothing in flight -/
def simultaneousClose : List Op :=
  handshake ++ [.close .A, .emit .A, .close .B, .emit .B, .deliver .B 3, .deliver .A 4,
    .emit .A, .emit .B, .deliver .B 5, .deliver .A 6]

example : stateOf .A (Sys.run {} simultaneousClose) = some .TimeWait ∧
    stateOf .B (Sys.run {} simultaneousClose) = some .TimeWait := by decide

/-! ## F-C03-1 (fixed): TIME-WAIT answered any ACK-bearing segment; the exchange never stopped -/

/-- one duplicate of B's last ACK (history 6) reaches A in TIME-WAIT -/
def stormStart : List Op := simultaneousClose ++ [.deliver .A 6, .emit .A]

/-- F-C03-1 (fixed, repo 03eeee69).  Both sides are in TIME-WAIT and the network is empty; a
    duplicate ACK arrives.  Before the repair A answered `ACK(SEG.SEQ+1) = 5003` — an
    acknowledgment of something B never sent —, B (TIME-WAIT) answered that, and after every
    round trip both TCBs were exactly what they had been a round trip earlier, 2·MSL timers
    restarted (this theorem was `c03_timewait_ack_storm_counterexample`, proved by `decide` on the
    model of the unrepaired code in commit 6ee4231).  Now the duplicate changes nothing and
    nothing is sent. -/
theorem c03_regression_timewait_quiet :
    lastEmit (Sys.run {} stormStart) = some [] ∧
    tcbOf .A (Sys.run {} (simultaneousClose ++ [.deliver .A 6])) = tcbOf .A (Sys.run {} simultaneousClose) := by
  decide

/-! ## F-C03-2 (fixed): `close()` numbered the FIN before text that was still unsegmentized -/

/-- A writes three bytes and closes before `segments()` ran -/
def strandOps : List Op := handshake ++ [.write .A [1, 2, 3], .close .A, .emit .A]

/-- F-C03-2 (fixed, repo e2119c13).  Before the repair the FIN took `SND.NXT = 1001`, the three
    bytes stayed in `outgoing.text` of a FIN-WAIT-1 endpoint for ever, the peer went to CLOSE-WAIT
    holding none of them and the connection closed "cleanly"
    (`c03_close_strands_text_counterexample` in commit 6ee4231).  Now FIN-WAIT-1 is entered at once,
    the text is segmentized first and the FIN follows it with sequence number 1004; the peer
    holds the three bytes when it shows FIN received. -/
theorem c03_regression_close_after_text :
    (lastEmit (Sys.run {} strandOps)).map (·.map fun s => (s.hdr.ctl.toNat, s.hdr.seq.toNat, s.text))
      = some [(16, 1001, [1, 2, 3]), (17, 1004, [])] ∧
    (tcbOf .A (Sys.run {} strandOps)).map (fun t => (t.state, t.outgoing.text)) = some (.FinWait1, []) ∧
    (tcbOf .B (Sys.run {} (strandOps ++ [.deliver .B 3, .deliver .B 4]))).map (fun t => (t.state, t.incoming.text))
      = some (.CloseWait, [1, 2, 3]) := by
  decide

/-! ## F-C03-3 (fixed): LAST-ACK did no ACK processing: the queue was never cleaned, the window never reopened -/

/-- B's send window is 2 (the third segment of the handshake advertises it); B writes five
    bytes, two go out; A closes, B goes to CLOSE-WAIT and closes: LAST-ACK with three bytes still
    to be segmentized.  A acknowledges the two bytes (history 5) advertising 65535. -/
def lastAckOps : List Op :=
  [.open .A 1000 1500, .listen .B 5000 1500, .emit .A, .deliver .B 0, .emit .B, .deliver .A 1, .emit .A,
   .inject .B (forge .B 16 1001 5001 2 []), .write .B [1, 2, 3, 4, 5], .emit .B, .close .A, .emit .A,
   .deliver .B 4, .close .B, .deliver .A 3, .emit .A, .emit .B, .deliver .B 5, .emit .B]

/-- F-C03-3 (fixed, repo 815f3de2).  Before the repair an acknowledgment arriving in LAST-ACK
    only overwrote `SND.UNA`: with everything sent acknowledged and the peer advertising 65535,
    B still held the acknowledged two bytes on its retransmission queue, counted them against
    the old window of 2, sent nothing, retransmitted the acknowledged segment at every timeout
    and stayed in LAST-ACK — the peer in FIN-WAIT-2 — for ever
    (`c03_lastack_stall_counterexample`, proved by `decide` in commit eaf6dd5 on the model of the
    code with only the first two repairs).  Now the ACK empties the queue and opens the window,
    the three bytes and the FIN (sequence number 5006) go out, the peer delivers all five bytes
    before it sees the FIN, and B is released by the final ACK. -/
theorem c03_regression_lastack_progress :
    (lastEmit (Sys.run {} lastAckOps)).map (·.map fun s => (s.hdr.ctl.toNat, s.hdr.seq.toNat, s.text))
      = some [(16, 5003, [3, 4, 5]), (17, 5006, [])] ∧
    (tcbOf .A (Sys.run {} (lastAckOps ++ [.deliver .A 6, .deliver .A 7, .deliver .A 8]))).map
      (fun t => (t.state, t.incoming.text)) = some (.TimeWait, [1, 2, 3, 4, 5]) ∧
    stateOf .B (Sys.run {} (lastAckOps ++ [.deliver .A 6, .deliver .A 7, .deliver .A 8, .emit .A,
      .deliver .B 9, .deliver .B 10])) = none := by
  decide

/-! ## F-C03-4 (fixed): SYN-SENT was deleted by a RST that carries no ACK -/

/-- F-C03-4 (fixed).  RFC 9293 3.10.7.3, second: "If the ACK was acceptable, then signal …
    connection reset …, enter CLOSED state, delete TCB, and return.  Otherwise (no ACK), drop the
    segment and return."  The code deleted the TCB for every RST that reached the RST check — an
    old duplicate RST, or a blind one with ANY sequence number, killed a connection attempt
    (`c03_synsent_rst_without_ack_counterexample` in commit d266f20).  Now the segment is dropped
    and the TCB is what it was; a RST with an acceptable ACK still resets the attempt. -/
theorem c03_regression_synsent_rst_without_ack :
    tcbOf .A (Sys.run {} [.open .A 1000 1500, .inject .A (forge .A 4 77777 0 0 [])])
      = tcbOf .A (Sys.run {} [.open .A 1000 1500]) ∧
    stateOf .A (Sys.run {} [.open .A 1000 1500, .inject .A (forge .A 20 0 1001 0 [])]) = none ∧
    rfcCause (.segment false true false false) (some .SynSent) none = false ∧
    rfcCause (.segment true true false false) (some .SynSent) none = true := by
  decide

end C03
end Elvis.Tcp
