import ElvisVerif.Lemmas.NdlTotal
/-!
# NDL parser: totality with the sharp bound — only the number of newlines matters

`Lemmas/NdlTotal.lean` proves that no panic site is reachable under `line + s.length ≤ i32Max`.
The only place the bound is used is the checked `*line_num += num_new_line as i32`, and the line
counter only ever grows by the number of *newline characters* consumed.  Here the second measure
is `nlCount` (the number of `'\n'` in the text) instead of the length; the loop fuel is still
measured by the length.  Result: `parse_total_lines` — every text with fewer than 2^31 − 1
newline characters parses to a value or a reported error, whatever its length.
-/
namespace Elvis.Ndl
open Elvis.Gen.Ndl

/-- the number of newline characters of a text -/
def nlCount (s : Text) : Nat := s.count '\n'

/-! ### `nlCount` arithmetic -/

theorem nlCount_nil : nlCount [] = 0 := rfl

theorem nlCount_cons_nl (r : Text) : nlCount ('\n' :: r) = nlCount r + 1 := by
  unfold nlCount; simp

theorem nlCount_cons_ne (c : Char) (r : Text) (h : c ≠ '\n') : nlCount (c :: r) = nlCount r := by
  unfold nlCount; rw [List.count_cons]; simp [h]

theorem nlCount_cons_ge (c : Char) (r : Text) : nlCount r ≤ nlCount (c :: r) := by
  unfold nlCount; rw [List.count_cons]; omega

theorem nlCount_append (a b : Text) : nlCount (a ++ b) = nlCount a + nlCount b := by
  unfold nlCount; exact List.count_append

theorem nlCount_replicate_space (k : Nat) : nlCount (List.replicate k ' ') = 0 := by
  induction k with
  | zero => rfl
  | succ k ih => rw [List.replicate_succ, nlCount_cons_ne _ _ (by decide), ih]

theorem nlCount_drop_le : ∀ (n : Nat) (s : Text), nlCount (s.drop n) ≤ nlCount s
  | 0, s => by simp
  | _ + 1, [] => by simp
  | n + 1, c :: r => by
    have h1 := nlCount_drop_le n r
    have h2 := nlCount_cons_ge c r
    simp only [List.drop_succ_cons]; omega

/-- the leading newlines are newlines -/
theorem nlCount_drop_countNl : ∀ s : Text, nlCount (s.drop (countNl s)) + countNl s = nlCount s
  | [] => by simp [countNl]
  | c :: r => by
    by_cases hc : c = '\n'
    · subst hc
      have ih := nlCount_drop_countNl r
      have e : countNl ('\n' :: r) = countNl r + 1 := by simp [countNl, List.takeWhile]
      rw [e, List.drop_succ_cons, nlCount_cons_nl]; omega
    · have e : countNl (c :: r) = 0 := by simp [countNl, List.takeWhile, hc]
      rw [e]; simp

theorem countNl_le_nlCount (s : Text) : countNl s ≤ nlCount s := by
  have := nlCount_drop_countNl s; omega

theorem sectionP_nl (s inside after : Text) (h : sectionP s = some (inside, after)) :
    nlCount after ≤ nlCount s := by
  unfold sectionP at h
  split at h
  · rename_i r
    split at h
    · rename_i ins x aft heq
      simp at h; obtain ⟨rfl, rfl⟩ := h
      have := takeUntil_eq ']' r ins (x :: aft) heq
      subst this
      have h1 := nlCount_cons_ge '[' (ins ++ x :: aft)
      have h2 := nlCount_append ins (x :: aft)
      have h3 := nlCount_cons_ge x aft
      omega
    · simp at h
  · simp at h

/-! ### lexer -/

/-- `general_parser` consumes at least `[` and `]`, and its line counter grows by no more than the
    number of newline characters it consumes -/
theorem generalParser_safe2 (s : Text) (line : Nat) (hb : line + nlCount s ≤ i32Max) :
    Safe (generalParser s line)
      (fun r => r.rest.length < s.length ∧ r.line + nlCount r.rest ≤ line + nlCount s) := by
  unfold generalParser
  cases hs : sectionP s with
  | none => exact Safe.err _ _
  | some p =>
    obtain ⟨inside, after⟩ := p
    have hl := sectionP_len s inside after hs
    have hnl := sectionP_nl s inside after hs
    simp only []
    have hg := getType_safe inside line
    cases hgt : getType inside line with
    | error e =>
      rw [hgt] at hg
      cases e with
      | err k l => exact Safe.err _ _
      | panic p => exact hg.elim
      | fuel => exact hg.elim
    | ok p =>
      obtain ⟨r1, dt⟩ := p
      simp only []
      split
      · exact Safe.err _ _
      · cases insertAll (arguments r1).2 [] with
        | none => exact Safe.err _ _
        | some params =>
          simp only []
          have hn := countNl_le_nlCount after
          have hd := nlCount_drop_countNl after
          have : ¬ (line + countNl after > i32Max) := by omega
          simp only [this, if_false, byteDrop_nl]
          show (after.drop (countNl after)).length < s.length ∧
            line + countNl after + nlCount (after.drop (countNl after)) ≤ line + nlCount s
          simp only [List.length_drop]
          constructor <;> omega

/-! ### tree builder -/

/-- what every builder function guarantees about the text it hands back: no longer (fuel), and
    the line counter plus the newlines still to come has not grown (overflow) -/
def Shrinks2 (s : Text) (line : Nat) (rest : Text) (line' : Nat) : Prop :=
  rest.length ≤ s.length ∧ line' + nlCount rest ≤ line + nlCount s

theorem leafLoop_safe2 (exp : DecType) (nt : Nat) : ∀ (fuel : Nat) (s : Text) (line : Nat),
    s.length < fuel → line + nlCount s ≤ i32Max → (s ≠ [] → nt ≤ countTabs s) →
    Safe (leafLoop exp nt fuel s line) (fun p => Shrinks2 s line p.2.1 p.2.2)
  | 0, s, line, hf, _, _ => by omega
  | fuel + 1, s, line, hf, hb, ht => by
    unfold leafLoop
    split
    · rename_i hs; subst hs; exact ⟨Nat.le_refl _, Nat.le_refl _⟩
    · rename_i hs
      rw [byteDrop_tabs s nt (ht hs)]
      simp only []
      have hlen : (s.drop nt).length ≤ s.length := by simp
      have hnl := nlCount_drop_le nt s
      have hg := generalParser_safe2 (s.drop nt) line (by omega)
      cases hgp : generalParser (s.drop nt) line with
      | error e =>
        rw [hgp] at hg
        cases e with
        | err k l => exact Safe.err _ _
        | panic p => exact hg.elim
        | fuel => exact hg.elim
      | ok r =>
        rw [hgp] at hg
        obtain ⟨h1, h2⟩ := hg
        simp only []
        split
        · exact Safe.err _ _
        · split
          · exact ⟨by show r.rest.length ≤ s.length; omega,
              by show r.line + nlCount r.rest ≤ line + nlCount s; omega⟩
          · split
            · exact Safe.err _ _
            · rename_i hlt hgt
              have ih := leafLoop_safe2 exp nt fuel r.rest r.line (by omega) (by omega) (fun _ => by omega)
              cases hrec : leafLoop exp nt fuel r.rest r.line with
              | error e =>
                rw [hrec] at ih
                cases e with
                | err k l => exact Safe.err _ _
                | panic p => exact ih.elim
                | fuel => exact ih.elim
              | ok q =>
                rw [hrec] at ih
                obtain ⟨ls, rest, line'⟩ := q
                obtain ⟨i1, i2⟩ := ih
                simp only [] at i1 i2
                exact ⟨by show rest.length ≤ s.length; omega,
                  by show line' + nlCount rest ≤ line + nlCount s; omega⟩

theorem leafList_safe2 (exp : DecType) (first : ErrKind) (nt : Nat) (s : Text) (line : Nat)
    (hb : line + nlCount s ≤ i32Max) :
    Safe (leafList exp first nt s line) (fun p => Shrinks2 s line p.2.1 p.2.2) := by
  unfold leafList
  split
  · exact Safe.err _ _
  · rename_i h
    exact leafLoop_safe2 exp nt (s.length + 1) s line (by omega) hb (fun _ => by omega)

theorem networkParser_safe2 (args : Params) (nt : Nat) (s : Text) (line : Nat)
    (hb : line + nlCount s ≤ i32Max) :
    Safe (networkParser args nt s line) (fun p => Shrinks2 s line p.2.1 p.2.2) := by
  unfold networkParser
  have h := leafList_safe2 .ip .expectedTabs nt s line hb
  cases hl : leafList .ip .expectedTabs nt s line with
  | error e =>
    rw [hl] at h
    cases e with
    | err k l => exact Safe.err _ _
    | panic p => exact h.elim
    | fuel => exact h.elim
  | ok q =>
    rw [hl] at h
    obtain ⟨ips, rest, line'⟩ := q
    exact h

theorem networksLoop_safe2 (nt : Nat) : ∀ (fuel : Nat) (s : Text) (line : Nat) (seen : List (Text × Network)),
    s.length < fuel → line + nlCount s ≤ i32Max →
    Safe (networksLoop nt fuel s line seen) (fun p => Shrinks2 s line p.2.1 p.2.2)
  | 0, s, line, seen, hf, _ => by omega
  | fuel + 1, s, line, seen, hf, hb => by
    unfold networksLoop
    split
    · exact ⟨Nat.le_refl _, Nat.le_refl _⟩
    · simp only []
      split
      · exact ⟨Nat.le_refl _, Nat.le_refl _⟩
      · split
        · exact Safe.err _ _
        · rename_i hlt hgt
          rw [byteDrop_tabs s nt (by omega)]
          simp only []
          have hlen : (s.drop nt).length ≤ s.length := by simp
          have hnl := nlCount_drop_le nt s
          have hg := generalParser_safe2 (s.drop nt) line (by omega)
          cases hgp : generalParser (s.drop nt) line with
          | error e =>
            rw [hgp] at hg
            cases e with
            | err k l => exact Safe.err _ _
            | panic p => exact hg.elim
            | fuel => exact hg.elim
          | ok r =>
            rw [hgp] at hg
            obtain ⟨h1, h2⟩ := hg
            simp only []
            split
            · have hn := networkParser_safe2 r.params (nt + 1) r.rest r.line (by omega)
              cases hnp : networkParser r.params (nt + 1) r.rest r.line with
              | error e =>
                rw [hnp] at hn
                cases e with
                | err k l => exact Safe.err _ _
                | panic p => exact hn.elim
                | fuel => exact hn.elim
              | ok q =>
                rw [hnp] at hn
                obtain ⟨net, rest, line'⟩ := q
                obtain ⟨n1, n2⟩ := hn
                simp only [] at n1 n2 ⊢
                split
                · exact Safe.err _ _
                · split
                  · exact Safe.err _ _
                  · rename_i id _ _
                    have ih := networksLoop_safe2 nt fuel rest line' (seen ++ [(id, net)]) (by omega) (by omega)
                    cases hrec : networksLoop nt fuel rest line' (seen ++ [(id, net)]) with
                    | error e =>
                      rw [hrec] at ih
                      cases e with
                      | err k l => exact Safe.err _ _
                      | panic p => exact ih.elim
                      | fuel => exact ih.elim
                    | ok q =>
                      rw [hrec] at ih
                      obtain ⟨i1, i2⟩ := ih
                      exact ⟨by omega, by omega⟩
            · exact Safe.err _ _

theorem networksParser_safe2 (nt : Nat) (s : Text) (line : Nat) (hb : line + nlCount s ≤ i32Max) :
    Safe (networksParser nt s line) (fun p => Shrinks2 s line p.2.1 p.2.2) :=
  networksLoop_safe2 nt (s.length + 1) s line [] (by omega) hb

theorem machineLoop_safe2 (nt : Nat) : ∀ (fuel : Nat) (s : Text) (line : Nat) (a : MAcc),
    s.length < fuel → line + nlCount s ≤ i32Max →
    Safe (machineLoop nt fuel s line a) (fun p => Shrinks2 s line p.2.1 p.2.2)
  | 0, s, line, a, hf, _ => by omega
  | fuel + 1, s, line, a, hf, hb => by
    unfold machineLoop
    split
    · exact ⟨Nat.le_refl _, Nat.le_refl _⟩
    · simp only []
      split
      · exact ⟨Nat.le_refl _, Nat.le_refl _⟩
      · split
        · exact Safe.err _ _
        · rename_i hlt hgt
          rw [byteDrop_tabs s nt (by omega)]
          simp only []
          have hlen : (s.drop nt).length ≤ s.length := by simp
          have hnl := nlCount_drop_le nt s
          have hg := generalParser_safe2 (s.drop nt) line (by omega)
          cases hgp : generalParser (s.drop nt) line with
          | error e =>
            rw [hgp] at hg
            cases e with
            | err k l => exact Safe.err _ _
            | panic p => exact hg.elim
            | fuel => exact hg.elim
          | ok r =>
            rw [hgp] at hg
            obtain ⟨h1, h2⟩ := hg
            simp only []
            split
            · rename_i hc
              obtain ⟨i, hi⟩ := idxOf?_of_contains a.req r.dectype hc
              simp only [hi]
              -- the three sections share one argument
              have sect : ∀ (exp : DecType) (upd : List Leaf → MAcc),
                  Safe (match leafList exp .formatting (nt + 1) r.rest r.line with
                    | .error e => .error e
                    | .ok (ls, rest, line') => machineLoop nt fuel rest line' (upd ls))
                    (fun p => Shrinks2 s line p.2.1 p.2.2) := by
                intro exp upd
                have hl := leafList_safe2 exp .formatting (nt + 1) r.rest r.line (by omega)
                cases hll : leafList exp .formatting (nt + 1) r.rest r.line with
                | error e =>
                  rw [hll] at hl
                  cases e with
                  | err k l => exact Safe.err _ _
                  | panic p => exact hl.elim
                  | fuel => exact hl.elim
                | ok q =>
                  rw [hll] at hl
                  obtain ⟨ls, rest, line'⟩ := q
                  obtain ⟨l1, l2⟩ := hl
                  simp only [] at l1 l2 ⊢
                  have ih := machineLoop_safe2 nt fuel rest line' (upd ls) (by omega) (by omega)
                  cases hrec : machineLoop nt fuel rest line' (upd ls) with
                  | error e =>
                    rw [hrec] at ih
                    cases e with
                    | err k l => exact Safe.err _ _
                    | panic p => exact ih.elim
                    | fuel => exact ih.elim
                  | ok q =>
                    rw [hrec] at ih
                    obtain ⟨i1, i2⟩ := ih
                    exact ⟨by omega, by omega⟩
              split
              · exact sect .network _
              · exact sect .protocol _
              · exact sect .application _
              · exact Safe.err _ _
            · exact Safe.err _ _

theorem machineParser_safe2 (args : Params) (nt : Nat) (s : Text) (line : Nat)
    (hb : line + nlCount s ≤ i32Max) :
    Safe (machineParser args nt s line) (fun p => Shrinks2 s line p.2.1 p.2.2) := by
  unfold machineParser
  have h := machineLoop_safe2 nt (s.length + 1) s line ⟨requiredSections, [], [], []⟩ (by omega) hb
  cases hl : machineLoop nt (s.length + 1) s line ⟨requiredSections, [], [], []⟩ with
  | error e =>
    rw [hl] at h
    cases e with
    | err k l => exact Safe.err _ _
    | panic p => exact h.elim
    | fuel => exact h.elim
  | ok q =>
    rw [hl] at h
    obtain ⟨a, rest, line'⟩ := q
    simp only []
    split
    · exact Safe.err _ _
    · exact h

theorem machinesLoop_safe2 (nt : Nat) : ∀ (fuel : Nat) (s : Text) (line : Nat),
    s.length < fuel → line + nlCount s ≤ i32Max →
    Safe (machinesLoop nt fuel s line) (fun p => Shrinks2 s line p.2.1 p.2.2)
  | 0, s, line, hf, _ => by omega
  | fuel + 1, s, line, hf, hb => by
    unfold machinesLoop
    split
    · exact ⟨Nat.le_refl _, Nat.le_refl _⟩
    · simp only []
      split
      · exact ⟨Nat.le_refl _, Nat.le_refl _⟩
      · split
        · exact Safe.err _ _
        · rename_i hlt hgt
          rw [byteDrop_tabs s nt (by omega)]
          simp only []
          have hlen : (s.drop nt).length ≤ s.length := by simp
          have hnl := nlCount_drop_le nt s
          have hg := generalParser_safe2 (s.drop nt) line (by omega)
          cases hgp : generalParser (s.drop nt) line with
          | error e =>
            rw [hgp] at hg
            cases e with
            | err k l => exact Safe.err _ _
            | panic p => exact hg.elim
            | fuel => exact hg.elim
          | ok r =>
            rw [hgp] at hg
            obtain ⟨h1, h2⟩ := hg
            simp only []
            split
            · have hm := machineParser_safe2 r.params (nt + 1) r.rest r.line (by omega)
              cases hmp : machineParser r.params (nt + 1) r.rest r.line with
              | error e =>
                rw [hmp] at hm
                cases e with
                | err k l => exact Safe.err _ _
                | panic p => exact hm.elim
                | fuel => exact hm.elim
              | ok q =>
                rw [hmp] at hm
                obtain ⟨m, rest, line'⟩ := q
                obtain ⟨m1, m2⟩ := hm
                simp only [] at m1 m2 ⊢
                have ih := machinesLoop_safe2 nt fuel rest line' (by omega) (by omega)
                cases hrec : machinesLoop nt fuel rest line' with
                | error e =>
                  rw [hrec] at ih
                  cases e with
                  | err k l => exact Safe.err _ _
                  | panic p => exact ih.elim
                  | fuel => exact ih.elim
                | ok q =>
                  rw [hrec] at ih
                  obtain ⟨ms, rest', line''⟩ := q
                  obtain ⟨i1, i2⟩ := ih
                  simp only [] at i1 i2
                  exact ⟨by show rest'.length ≤ s.length; omega,
                    by show line'' + nlCount rest' ≤ line + nlCount s; omega⟩
            · exact Safe.err _ _

theorem machinesParser_safe2 (nt : Nat) (s : Text) (line : Nat) (hb : line + nlCount s ≤ i32Max) :
    Safe (machinesParser nt s line) (fun p => Shrinks2 s line p.2.1 p.2.2) :=
  machinesLoop_safe2 nt (s.length + 1) s line (by omega) hb

theorem coreLoop_safe2 : ∀ (fuel : Nat) (s : Text) (line : Nat) (nets : List (Text × Network))
    (ms : List Machine), s.length < fuel → line + nlCount s ≤ i32Max →
    Safe (coreLoop fuel s line nets ms) (fun _ => True)
  | 0, s, line, nets, ms, hf, _ => by omega
  | fuel + 1, s, line, nets, ms, hf, hb => by
    unfold coreLoop
    split
    · trivial
    · have hg := generalParser_safe2 s line hb
      cases hgp : generalParser s line with
      | error e =>
        rw [hgp] at hg
        cases e with
        | err k l => exact Safe.err _ _
        | panic p => exact hg.elim
        | fuel => exact hg.elim
      | ok r =>
        rw [hgp] at hg
        obtain ⟨h1, h2⟩ := hg
        simp only []
        split
        · exact coreLoop_safe2 fuel r.rest r.line nets ms (by omega) (by omega)
        · have hn := networksParser_safe2 1 r.rest r.line (by omega)
          cases hnp : networksParser 1 r.rest r.line with
          | error e =>
            rw [hnp] at hn
            cases e with
            | err k l => exact Safe.err _ _
            | panic p => exact hn.elim
            | fuel => exact hn.elim
          | ok q =>
            rw [hnp] at hn
            obtain ⟨ns, rest, line'⟩ := q
            obtain ⟨n1, n2⟩ := hn
            simp only [] at n1 n2 ⊢
            have hm := mergeNets_safe ns nets
            cases hmn : mergeNets nets ns with
            | error e =>
              rw [hmn] at hm
              cases e with
              | err k l => exact Safe.err _ _
              | panic p => exact hm.elim
              | fuel => exact hm.elim
            | ok nets' => exact coreLoop_safe2 fuel rest line' nets' ms (by omega) (by omega)
        · have hn := machinesParser_safe2 1 r.rest r.line (by omega)
          cases hnp : machinesParser 1 r.rest r.line with
          | error e =>
            rw [hnp] at hn
            cases e with
            | err k l => exact Safe.err _ _
            | panic p => exact hn.elim
            | fuel => exact hn.elim
          | ok q =>
            rw [hnp] at hn
            obtain ⟨m, rest, line'⟩ := q
            obtain ⟨n1, n2⟩ := hn
            simp only [] at n1 n2 ⊢
            exact coreLoop_safe2 fuel rest line' nets (ms ++ m) (by omega) (by omega)
        · exact Safe.err _ _

/-! ### normalisation keeps the newlines -/

theorem nlCount_dropCR (s : Text) : nlCount (dropCR s) = nlCount s := by
  induction s with
  | nil => rfl
  | cons c r ih =>
    unfold dropCR at ih ⊢
    by_cases hc : c = '\r'
    · subst hc
      have e : List.filter (fun x => decide (x ≠ '\r')) ('\r' :: r) = List.filter (fun x => decide (x ≠ '\r')) r := by
        simp [List.filter]
      rw [e, ih, nlCount_cons_ne _ _ (by decide)]
    · have e : List.filter (fun x => decide (x ≠ '\r')) (c :: r) = c :: List.filter (fun x => decide (x ≠ '\r')) r := by
        simp [List.filter, hc]
      rw [e]
      by_cases hn : c = '\n'
      · subst hn; rw [nlCount_cons_nl, nlCount_cons_nl, ih]
      · rw [nlCount_cons_ne _ _ hn, nlCount_cons_ne _ _ hn, ih]

theorem nlCount_fourSpFrom : ∀ (s : Text) (k : Nat), nlCount (fourSpFrom k s) = nlCount s
  | [], k => by simp [fourSpFrom, nlCount_replicate_space, nlCount_nil]
  | c :: r, k => by
    unfold fourSpFrom
    split
    · rename_i hc
      subst hc
      rw [nlCount_cons_ne ' ' r (by decide)]
      split
      · rw [nlCount_cons_ne '\t' _ (by decide)]; exact nlCount_fourSpFrom r 0
      · exact nlCount_fourSpFrom r (k + 1)
    · rw [nlCount_append, nlCount_replicate_space, Nat.zero_add]
      by_cases hn : c = '\n'
      · subst hn; rw [nlCount_cons_nl, nlCount_cons_nl, nlCount_fourSpFrom r 0]
      · rw [nlCount_cons_ne _ _ hn, nlCount_cons_ne _ _ hn, nlCount_fourSpFrom r 0]

theorem nlCount_normalise (s : Text) : nlCount (normalise s) = nlCount s := by
  unfold normalise fourSp
  rw [nlCount_fourSpFrom, nlCount_dropCR]

theorem nlCount_normalise_le (s : Text) : nlCount (normalise s) ≤ nlCount s :=
  Nat.le_of_eq (nlCount_normalise s)

/-! ### the whole parser -/

theorem build_safe2 (s : Text) (h : nlCount s < i32Max) : Safe (build s) (fun _ => True) :=
  coreLoop_safe2 (s.length + 1) s 1 [] [] (by omega) (by omega)

/-- never a panic, never out of fuel, for every text with fewer than 2^31 − 1 newline characters
    (whatever its length): a value or a reported error -/
theorem parse_total_lines (text : Text) (h : nlCount text < i32Max) :
    (∃ sim, parse text = .ok sim) ∨ (∃ k l, parse text = .error (.err k l)) := by
  have hs := build_safe2 (normalise text) (Nat.lt_of_le_of_lt (nlCount_normalise_le text) h)
  unfold parse
  cases hb : build (normalise text) with
  | ok sim => exact .inl ⟨sim, rfl⟩
  | error e =>
    rw [hb] at hs
    cases e with
    | err k l => exact .inr ⟨k, l, rfl⟩
    | panic p => exact hs.elim
    | fuel => exact hs.elim

/-- `nlCount text ≤ text.length`: `parse_total_lines` implies the length form `c14_ndl_total` -/
theorem nlCount_le_length (s : Text) : nlCount s ≤ s.length := List.count_le_length

end Elvis.Ndl
