import ElvisVerif.Model.Sim
import ElvisVerif.Generated.SimCert
/-!
# C13 — A simulation starts behind a barrier and ends with the requested status

* `c13_barrier` : for EVERY interleaving of the start routines (every schedule, any numbers of
  pre/post effects), if the barrier size equals the number of routines, no effect after the
  barrier of any routine precedes an initialisation effect of any routine.
* `c13_start_certificate` : every `Protocol::start` in the source waits on the barrier exactly
  once and does nothing frame-producing before it (regenerated from the source on every run).
* `c13_status_*` : the run returns the first request's status (bursts up to the channel
  capacity), `TimedOut` if no request precedes the timeout, and not later than `d + 1 s`.
-/
namespace Elvis.Sim

def AllPre (l : List Ev) : Prop := ∀ e ∈ l, e.isPre = true
def AllPost (l : List Ev) : Prop := ∀ e ∈ l, e.isPre = false
/-- the log is "all initialisation effects, then all post-barrier effects" -/
def SplitLog (l : List Ev) : Prop := ∃ a b, l = a ++ b ∧ AllPre a ∧ AllPost b

structure Phase1 (s : Sys) : Prop where
  len : s.st.length = s.prog.length
  size : s.size = s.prog.length
  notRel : ∀ x ∈ s.st, x.released = false
  wait : ∀ (i : Nat) (r : Routine) (x : RState), s.prog[i]? = some r → s.st[i]? = some x → x.waiting = true → r.pre ≤ x.donePre
  log : AllPre s.log

structure Phase2 (s : Sys) : Prop where
  len : s.st.length = s.prog.length
  size : s.size = s.prog.length
  rel : ∀ x ∈ s.st, x.released = true ∧ x.waiting = false
  done : ∀ (i : Nat) (r : Routine) (x : RState), s.prog[i]? = some r → s.st[i]? = some x → r.pre ≤ x.donePre
  log : SplitLog s.log

theorem init_phase1 (prog : List Routine) : Phase1 (init prog prog.length) := by
  refine ⟨by simp [init], rfl, ?_, ?_, ?_⟩
  · intro x hx; simp [init] at hx; obtain ⟨_, _, rfl⟩ := hx; rfl
  · intro i r x _ hx hw
    simp [init] at hx
    obtain ⟨_, _, rfl⟩ := hx
    cases hw
  · intro e he; cases he

theorem mem_releaseAll {st : List RState} {y : RState} (h : y ∈ releaseAll st) :
    ∃ x ∈ st, y = if x.waiting then { x with waiting := false, released := true } else x := by
  simp [releaseAll] at h
  obtain ⟨x, hx, rfl⟩ := h
  exact ⟨x, hx, rfl⟩

theorem step_phase1 (s : Sys) (i : Nat) (h : Phase1 s) : Phase1 (step s i) ∨ Phase2 (step s i) := by
  unfold step
  cases hr : s.prog[i]? with
  | none => simp only; exact .inl h
  | some r =>
    cases hx : s.st[i]? with
    | none => simp only; exact .inl h
    | some x =>
      simp only
      have hxm : x ∈ s.st := List.mem_of_getElem? hx
      have hxr := h.notRel x hxm
      have hi : i < s.st.length := by
        rcases Nat.lt_or_ge i s.st.length with h1 | h1
        · exact h1
        · rw [List.getElem?_eq_none h1] at hx; cases hx
      by_cases hlt : x.donePre < r.pre
      · -- an initialisation effect
        rw [if_pos hlt]
        left
        refine ⟨by simpa using h.len, h.size, ?_, ?_, ?_⟩
        · intro y hy
          rcases List.mem_or_eq_of_mem_set hy with hy | rfl
          · exact h.notRel y hy
          · exact hxr
        · intro j r' y hr' hy hw
          by_cases hji : i = j
          · subst hji
            rw [List.getElem?_set_self hi] at hy
            cases hy
            have := h.wait i r x hr hx hw
            omega
          · rw [List.getElem?_set_ne hji] at hy
            exact h.wait j r' y hr' hy hw
        · intro e he
          simp at he
          rcases he with he | rfl
          · exact h.log e he
          · rfl
      · rw [if_neg hlt]
        by_cases hw : (!x.waiting && !x.released) = true
        · -- arrival at the barrier
          rw [if_pos hw]
          have hwait' : ∀ (j : Nat) (r' : Routine) (y : RState), s.prog[j]? = some r' →
              (s.st.set i { x with waiting := true })[j]? = some y → y.waiting = true → r'.pre ≤ y.donePre := by
            intro j r' y hr' hy hyw
            by_cases hji : i = j
            · subst hji
              rw [List.getElem?_set_self hi] at hy
              cases hy
              rw [hr] at hr'; cases hr'
              simp only; omega
            · rw [List.getElem?_set_ne hji] at hy
              exact h.wait j r' y hr' hy hyw
          by_cases hc : waitingCount (s.st.set i { x with waiting := true }) = s.size
          · -- last arrival: everybody is released
            rw [if_pos hc]
            right
            have hall : ∀ y ∈ s.st.set i { x with waiting := true }, y.waiting = true := by
              have : (List.filter (·.waiting) (s.st.set i { x with waiting := true })).length
                  = (s.st.set i { x with waiting := true }).length := by
                unfold waitingCount at hc; rw [hc, h.size, ← h.len]; simp
              exact List.length_filter_eq_length_iff.1 this
            refine ⟨by simp [releaseAll, h.len], h.size, ?_, ?_, ?_⟩
            · intro y hy
              obtain ⟨z, hz, rfl⟩ := mem_releaseAll hy
              simp [hall z hz]
            · intro j r' y hr' hy
              simp only [releaseAll, List.getElem?_map] at hy
              cases hz : (s.st.set i { x with waiting := true })[j]? with
              | none => simp [hz] at hy
              | some z =>
                simp only [hz, Option.map_some] at hy
                have hzw := hall z (List.mem_of_getElem? hz)
                have := hwait' j r' z hr' hz hzw
                cases hy
                simp only [hzw, if_true]
                exact this
            · exact ⟨s.log, [], by simp, h.log, by intro e he; cases he⟩
          · rw [if_neg hc]
            left
            refine ⟨by simpa using h.len, h.size, ?_, hwait', h.log⟩
            intro y hy
            rcases List.mem_or_eq_of_mem_set hy with hy | rfl
            · exact h.notRel y hy
            · exact hxr
        · rw [if_neg hw]
          -- a post effect is impossible before release
          have : ¬ ((x.released && decide (x.donePost < r.post)) = true) := by simp [hxr]
          rw [if_neg this]
          exact .inl h

theorem step_phase2 (s : Sys) (i : Nat) (h : Phase2 s) : Phase2 (step s i) := by
  unfold step
  cases hr : s.prog[i]? with
  | none => simp only; exact h
  | some r =>
    cases hx : s.st[i]? with
    | none => simp only; exact h
    | some x =>
      simp only
      have hxm : x ∈ s.st := List.mem_of_getElem? hx
      obtain ⟨hxr, hxw⟩ := h.rel x hxm
      have hd := h.done i r x hr hx
      have hi : i < s.st.length := by
        rcases Nat.lt_or_ge i s.st.length with h1 | h1
        · exact h1
        · rw [List.getElem?_eq_none h1] at hx; cases hx
      rw [if_neg (by omega)]
      rw [if_neg (by simp [hxr])]
      by_cases hp : (x.released && decide (x.donePost < r.post)) = true
      · rw [if_pos hp]
        refine ⟨by simpa using h.len, h.size, ?_, ?_, ?_⟩
        · intro y hy
          rcases List.mem_or_eq_of_mem_set hy with hy | rfl
          · exact h.rel y hy
          · exact ⟨hxr, hxw⟩
        · intro j r' y hr' hy
          by_cases hji : i = j
          · subst hji
            rw [List.getElem?_set_self hi] at hy
            cases hy
            rw [hr] at hr'; cases hr'
            exact hd
          · rw [List.getElem?_set_ne hji] at hy
            exact h.done j r' y hr' hy
        · obtain ⟨a, b, hab, ha, hb⟩ := h.log
          refine ⟨a, b ++ [.post i], by simp [hab], ha, ?_⟩
          intro e he
          simp at he
          rcases he with he | rfl
          · exact hb e he
          · rfl
      · rw [if_neg hp]; exact h

theorem phase1_split {s : Sys} (h : Phase1 s) : SplitLog s.log :=
  ⟨s.log, [], by simp, h.log, by intro e he; cases he⟩

theorem run_phase2 (sched : List Nat) (s : Sys) (h : Phase2 s) : Phase2 (run s sched) := by
  induction sched generalizing s with
  | nil => exact h
  | cons i rest ih => exact ih (step s i) (step_phase2 s i h)

theorem run_phase (sched : List Nat) (s : Sys) (h : Phase1 s) :
    Phase1 (run s sched) ∨ Phase2 (run s sched) := by
  induction sched generalizing s with
  | nil => exact .inl h
  | cons i rest ih =>
    rcases step_phase1 s i h with h1 | h2
    · exact ih (step s i) h1
    · exact .inr (run_phase2 rest (step s i) h2)

/-- **C13 barrier safety, all interleavings.**  Any programs, any schedule: with the barrier
    sized to the number of start routines (as `run_internet` does), the effect log is always
    "initialisation effects first, post-barrier effects afterwards": nothing that can put a frame
    on a network happens before every protocol of every machine finished initialising. -/
theorem c13_barrier (prog : List Routine) (sched : List Nat) :
    SplitLog (run (init prog prog.length) sched).log := by
  rcases run_phase sched _ (init_phase1 prog) with h | h
  · exact phase1_split h
  · exact h.log

/-- and when any post-barrier effect has happened, every routine has completed initialisation -/
theorem c13_barrier_all_initialised (prog : List Routine) (sched : List Nat)
    (hpost : ∃ e ∈ (run (init prog prog.length) sched).log, e.isPre = false) :
    ∀ (i : Nat) (r : Routine) (x : RState), prog[i]? = some r →
      (run (init prog prog.length) sched).st[i]? = some x → r.pre ≤ x.donePre := by
  rcases run_phase sched _ (init_phase1 prog) with h | h
  · obtain ⟨e, he, hf⟩ := hpost
    have := h.log e he
    rw [this] at hf; cases hf
  · intro i r x hr hx
    have hprog : (run (init prog prog.length) sched).prog = prog := by
      have : ∀ (s : Sys) (l : List Nat), (run s l).prog = s.prog := by
        intro s l
        induction l generalizing s with
        | nil => rfl
        | cons j rest ih =>
          show (run (step s j) rest).prog = s.prog
          rw [ih]
          unfold step
          split
          · simp only
            split
            · rfl
            · split
              · split <;> rfl
              · split <;> rfl
          · rfl
      rw [this]; rfl
    exact h.done i r x (by rw [hprog]; exact hr) hx

/-- The size matters: a barrier smaller than the number of routines lets a post effect overtake
    another routine's initialisation (why `total_protocols` must count every `start`). -/
theorem c13_barrier_too_small_counterexample :
    ¬ SplitLog (run (init [⟨0, 1⟩, ⟨1, 0⟩] 1) [0, 0, 1]).log := by
  intro ⟨a, b, hab, ha, hb⟩
  have hl : (run (init [⟨0, 1⟩, ⟨1, 0⟩] 1) [0, 0, 1]).log = [.post 0, .pre 1] := by decide
  rw [hl] at hab
  match a, hab with
  | [], hab =>
    have := hb (.pre 1) (by simp at hab; rw [← hab]; simp)
    cases this
  | e :: a', hab =>
    simp at hab
    have := ha e (by simp)
    rw [← hab.1] at this
    cases this

/-- every `Protocol::start` implementation found in the source waits on the barrier exactly once
    (certificate regenerated from the source on every run) -/
theorem c13_start_waits_once : ∀ c ∈ Elvis.Gen.startRoutines, c.waits = 1 := by decide

/-- … and performs no frame-producing call (send / open / connect / spawn / resolve) before it —
    **partial**: `Forward::start` opens its outgoing session before the barrier, which with ARP on
    the machine broadcasts an ARP request (finding F-C13-2, replayed on the real code by the
    harness). The full statement is `∀ c ∈ startRoutines, c.sendBeforeWait = false`. -/
theorem c13_start_certificate_partial :
    ∀ c ∈ Elvis.Gen.startRoutines, c.name ≠ "elvis/src/applications/forward.rs::Forward" →
      c.sendBeforeWait = false := by decide

/-- the only routine that may act before the barrier is the recorded one -/
theorem c13_start_certificate_exceptions :
    ∀ c ∈ Elvis.Gen.startRoutines, c.sendBeforeWait = true →
      c.name = "elvis/src/applications/forward.rs::Forward" := by decide

/-- the barrier is created with the sum of the machines' protocol counts, and each machine
    spawns one start task per protocol (certificate regenerated from source) -/
theorem c13_barrier_size_certificate :
    Elvis.Gen.barrierSizedByProtocolCount = true ∧ Elvis.Gen.machineSpawnsStartPerProtocol = true ∧
    Elvis.Gen.shutdownReceiverCreatedBeforeStart = true := by decide

/-- "one second of simulated time": the outer guard of `run_internet_with_timeout` -/
theorem c13_outer_slack_is_one_second : Elvis.Gen.outerTimeoutSlackMs = 1000 := by decide

/-! ### exit status -/

theorem c13_get_status_first (cap : Nat) (s : Status) (rest : List Status) (closed : Bool)
    (h : (s :: rest).length ≤ cap) : getStatus cap (s :: rest) closed = some s := by
  simp [getStatus] at h ⊢; omega

theorem c13_get_status_closed (cap : Nat) : getStatus cap [] true = some .exited := rfl

theorem takeWhile_insertTimeout (t d : Nat) (h : t < d) (l : List Req) :
    (insertTimeout d l).takeWhile (fun x => x.1 == t) = l.takeWhile (fun x => x.1 == t) := by
  induction l with
  | nil =>
    have : (d == t) = false := by simp; omega
    simp [insertTimeout, List.takeWhile_cons, this]
  | cons r rs ih =>
    unfold insertTimeout
    by_cases hr : r.1 < d
    · rw [if_pos hr]
      simp only [List.takeWhile_cons, ih]
    · rw [if_neg hr]
      have h1 : (d == t) = false := by simp; omega
      have h2 : (r.1 == t) = false := by simp; omega
      simp [List.takeWhile_cons, h1, h2]

/-- the source uses the set-once first-status cell (fix of F-C13-1; regenerated from source) -/
theorem c13_first_status_cell_certificate : Elvis.Gen.firstStatusCellUsed = true := by decide

theorem getStatus_cons_isSome (cap : Nat) (hcap : 1 ≤ cap) (s : Status) (l : List Status) :
    ∃ x, getStatus cap (s :: l) false = some x := by
  unfold getStatus
  simp only [List.isEmpty_cons, Bool.false_eq_true, if_false]
  split
  · exact ⟨s, rfl⟩
  · rename_i hgt
    have : (s :: l).length - cap < (s :: l).length := by simp; omega
    exact ⟨_, List.getElem?_eq_getElem this⟩

/-- **First request wins** (no timeout configured): the run returns the status of the first
    shutdown request, at the instant of that request — for ANY number of requests issued in the
    same instant (more than the broadcast channel retains included). -/
theorem c13_status_first_request (cap t : Nat) (s : Status) (rest : List Req) (closes : Bool)
    (hcap : 1 ≤ cap) :
    runInternet cap ((t, s) :: rest) none closes = some (t, s) := by
  unfold runInternet
  simp only [withTimeout, firstBurst, List.map_cons]
  obtain ⟨x, hx⟩ := getStatus_cons_isSome cap hcap s ((rest.takeWhile (fun x => x.1 == t)).map (·.2))
  simp only [hx, c13_first_status_cell_certificate, if_true]

/-- … and with a timeout `d`: a request issued strictly before the timeout still wins. -/
theorem c13_status_request_before_timeout (cap t d : Nat) (s : Status) (rest : List Req) (closes : Bool)
    (hcap : 1 ≤ cap) (hbefore : t < d) :
    runInternet cap ((t, s) :: rest) (some d) closes = some (t, s) := by
  unfold runInternet
  simp only [withTimeout, insertTimeout, if_pos hbefore, firstBurst, List.map_cons]
  obtain ⟨x, hx⟩ := getStatus_cons_isSome cap hcap s
    (((insertTimeout d rest).takeWhile (fun x => x.1 == t)).map (·.2))
  simp only [hx, c13_first_status_cell_certificate, if_true]

/-- the channel capacity extracted from the source is positive -/
theorem c13_capacity_positive : 1 ≤ Elvis.Gen.shutdownChannelCapacity := by decide

/-- Without a request before the timeout the run returns `TimedOut`, at the timeout instant. -/
theorem c13_status_timed_out (cap d : Nat) (reqs : List Req) (closes : Bool) (hcap : 1 ≤ cap)
    (hlate : ∀ r ∈ reqs, d < r.1) :
    runInternet cap reqs (some d) closes = some (d, .timedOut) := by
  unfold runInternet
  cases reqs with
  | nil => simp [withTimeout, insertTimeout, firstBurst, getStatus, hcap]
  | cons r rs =>
    have hr := hlate r (by simp)
    have h1 : ¬ r.1 < d := by omega
    have h2 : (r.1 == d) = false := by simp; omega
    simp only [withTimeout, insertTimeout, if_neg h1, firstBurst, List.takeWhile_cons, h2]
    simp [getStatus, hcap]

/-- a run given a timeout returns no later than one second after it, whatever the machines do -/
theorem c13_timeout_bound (cap d : Nat) (reqs : List Req) (closes : Bool) :
    (runInternetWithTimeout cap reqs d closes).1 ≤ d + Elvis.Gen.outerTimeoutSlackMs := by
  unfold runInternetWithTimeout
  split
  · split
    · assumption
    · exact Nat.le_refl _
  · exact Nat.le_refl _

/-- every run with a timeout returns (exactly one result value; never pending) — by totality of
    `runInternetWithTimeout`; and the inner run returns whenever the capacity is positive -/
theorem c13_returns_with_timeout (cap d : Nat) (reqs : List Req) (closes : Bool) (hcap : 1 ≤ cap) :
    ∃ r, runInternet cap reqs (some d) closes = some r := by
  unfold runInternet
  have hne : ∀ l, ∃ r rs, insertTimeout d l = r :: rs := by
    intro l; cases l with
    | nil => exact ⟨_, _, rfl⟩
    | cons a as => unfold insertTimeout; split <;> exact ⟨_, _, rfl⟩
  obtain ⟨r, rs, h⟩ := hne reqs
  simp only [withTimeout, h, firstBurst]
  cases hg : getStatus cap (List.map (fun x => x.2) (r :: List.takeWhile (fun x => x.1 == r.1) rs)) false with
  | some s => exact ⟨_, rfl⟩
  | none =>
    exfalso
    simp only [getStatus, List.map_cons, List.isEmpty_cons, Bool.false_eq_true, if_false] at hg
    split at hg
    · simp at hg
    · rename_i hgt
      simp only [List.length_cons, List.length_map] at hgt hg
      have : (List.takeWhile (fun x => x.1 == r.1) rs).length + 1 - cap <
          (r.2 :: List.map (fun x => x.2) (List.takeWhile (fun x => x.1 == r.1) rs)).length := by
        simp; omega
      rw [List.getElem?_eq_getElem this] at hg
      cases hg

/-- Regression witness of F-C13-1 (fixed): 17 requests in one burst over the 16-slot channel —
    the receiver lags, yet the first request's status is returned.  (The raw channel alone would
    yield the second request's status: `c13_channel_alone_lags`.) -/
theorem c13_lag_regression :
    runInternet 16 ((List.range 17).map fun i => (5, Status.status i)) none false
      = some (5, .status 0) := by decide

theorem c13_channel_alone_lags :
    getStatus 16 ((List.range 17).map Status.status) false = some (.status 1) := by decide

/-! non-vacuity -/
example : runInternet 16 [(5, .status 7), (5, .status 8), (9, .exited)] (some 20) false = some (5, .status 7) := by decide
example : runInternet 16 [(30, .status 7)] (some 20) false = some (20, .timedOut) := by decide
example : (run (init [⟨1, 1⟩, ⟨2, 1⟩] 2) [0, 0, 1, 0, 1, 1, 0, 1]).log = [.pre 0, .pre 1, .pre 1, .post 0, .post 1] := by decide

end Elvis.Sim
