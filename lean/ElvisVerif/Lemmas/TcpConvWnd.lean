import ElvisVerif.Lemmas.TcpConvLive
/-!
# Advertised windows and the shape of pure ACKs

Second structural pass over `process_segment` (the first is `QStep`, `Lemmas/TcpAckBlocks.lean`):

* `SND.WND` changes only to the window field of the segment being processed (and is set from it
  when the TCB leaves SYN-SENT);
* `SND.NXT` and `RCV.WND` are untouched;
* every header newly queued advertises `RCV.WND`; a header newly put on the one-shot queue is a RST
  or a pure ACK numbered `SND.NXT` (`OneNew`).

With every endpoint advertising the constant 65535 this gives `SND.WND = 65535` outside SYN-SENT
(`Lemmas/TcpConvInv2.lean`), and a pure ACK is never "ahead" of what its receiver expects once
everything sent has arrived.
-/
namespace Elvis.Tcp
open Elvis.ModCmp
namespace Tcb

/-- a header newly put on the one-shot queue -/
def OneNew (s' : Tcb) (h : Hdr) : Prop :=
  h.wnd = s'.rcv.wnd ∧
    (h.ctl.rst = true ∨ (h.seq = s'.snd.nxt ∧ h.ctl.ack = true ∧ h.ctl.syn = false ∧ h.ctl.fin = false))

theorem OneNew.congr {a b : Tcb} {h : Hdr} (hn : OneNew a h) (h1 : b.rcv.wnd = a.rcv.wnd)
    (h2 : b.snd.nxt = a.snd.nxt) : OneNew b h := by
  unfold OneNew at *
  rw [h1, h2]; exact hn

theorem oneNew_ackHdr (s : Tcb) : OneNew s s.ackHdr.built := ⟨rfl, Or.inr ⟨rfl, rfl, rfl, rfl⟩⟩

structure SStep (W : U16 → Prop) (s s' : Tcb) : Prop where
  wnd : s'.snd.wnd = s.snd.wnd ∨ W s'.snd.wnd
  wnd1 : s.state = .SynSent → s'.state ≠ .SynSent → W s'.snd.wnd
  nxt : s'.snd.nxt = s.snd.nxt
  rwnd : s'.rcv.wnd = s.rcv.wnd
  one : ∀ h ∈ s'.outgoing.oneshot, h ∈ s.outgoing.oneshot ∨ OneNew s' h
  rtx : ∀ tr ∈ s'.outgoing.retransmit,
    (∃ t0 ∈ s.outgoing.retransmit, t0.segment = tr.segment) ∨
      (tr.segment.hdr.wnd = s'.rcv.wnd ∧ (tr.segment.hdr.ctl.ack = true ∨ tr.segment.hdr.ctl.syn = true))
  back : s.state ≠ .SynSent → s'.state ≠ .SynSent

theorem SStep.refl {W : U16 → Prop} (s : Tcb) : SStep W s s :=
  ⟨Or.inl rfl, fun h h' => absurd h h', rfl, rfl, fun _ h => Or.inl h, fun tr h => Or.inl ⟨tr, h, rfl⟩, id⟩

theorem SStep.trans {W : U16 → Prop} {a b c : Tcb} (h1 : SStep W a b) (h2 : SStep W b c) : SStep W a c := by
  refine ⟨?_, fun ha hc => ?_, h2.nxt.trans h1.nxt, h2.rwnd.trans h1.rwnd, fun h hh => ?_, fun tr hh => ?_,
    fun ha => h2.back (h1.back ha)⟩
  · rcases h2.wnd with e | e
    · rcases h1.wnd with e1 | e1
      · exact Or.inl (e.trans e1)
      · exact Or.inr (e ▸ e1)
    · exact Or.inr e
  · by_cases hb : b.state = .SynSent
    · exact h2.wnd1 hb hc
    · have := h1.wnd1 ha hb
      rcases h2.wnd with e | e
      · rw [e]; exact this
      · exact e
  · rcases h2.one h hh with e | e
    · rcases h1.one h e with e1 | e1
      · exact Or.inl e1
      · exact Or.inr (e1.congr h2.rwnd h2.nxt)
    · exact Or.inr e
  · rcases h2.rtx tr hh with ⟨t0, e, es⟩ | e
    · rcases h1.rtx t0 e with ⟨t1, e1, es1⟩ | e1
      · exact Or.inl ⟨t1, e1, es1.trans es⟩
      · right; rw [← es, h2.rwnd]; exact e1
    · exact Or.inr e

theorem SStep.mono {W W' : U16 → Prop} {s s' : Tcb} (h : SStep W s s') (hw : ∀ w, W w → W' w) : SStep W' s s' :=
  ⟨h.wnd.imp id (hw _), fun a b => hw _ (h.wnd1 a b), h.nxt, h.rwnd, h.one, h.rtx, h.back⟩

/-- same state class, same `SND.WND`, `SND.NXT`, `RCV.WND`, same queues -/
theorem SStep.of_eq {W : U16 → Prop} {s s' : Tcb} (h1 : s'.snd.wnd = s.snd.wnd) (h2 : s'.snd.nxt = s.snd.nxt)
    (h3 : s'.rcv.wnd = s.rcv.wnd) (h4 : s'.outgoing.oneshot = s.outgoing.oneshot)
    (h5 : s'.outgoing.retransmit = s.outgoing.retransmit) (h6 : s.state = .SynSent → s'.state = .SynSent)
    (h7 : s.state ≠ .SynSent → s'.state ≠ .SynSent) : SStep W s s' :=
  ⟨Or.inl h1, fun a b => absurd (h6 a) b, h2, h3, fun _ h => Or.inl (h4 ▸ h), fun tr h => Or.inl ⟨tr, h5 ▸ h, rfl⟩, h7⟩

/-- queue a header that advertises `RCV.WND` and (if it goes to the one-shot queue) is `OneNew` -/
theorem sstep_enqueue {W : U16 → Prop} (s : Tcb) (hd : Hdr) (hw : hd.wnd = s.rcv.wnd)
    (ho : (hd.ctl.syn || hd.ctl.fin) = false → OneNew s hd)
    (ha : (hd.ctl.syn || hd.ctl.fin) = true → hd.ctl.ack = true ∨ hd.ctl.syn = true) :
    SStep W s (s.enqueueBuilt hd) := by
  have fr := enqueueBuilt_frame s hd
  refine ⟨Or.inl (by rw [fr.2.2.1]), fun a b => absurd (by rw [state_enqueueBuilt]; exact a) b, by rw [fr.2.2.1],
    by rw [fr.2.1], ?_, ?_, fun a => by rw [state_enqueueBuilt]; exact a⟩
  · intro h hh
    unfold enqueueBuilt at hh
    split at hh
    · exact Or.inl hh
    · rename_i hsf
      simp only [List.mem_append, List.mem_singleton] at hh
      rcases hh with hh | rfl
      · exact Or.inl hh
      · exact Or.inr ((ho (by simpa using hsf)).congr (by rw [fr.2.1]) (by rw [fr.2.2.1]))
  · intro tr hh
    unfold enqueueBuilt at hh
    split at hh
    · rename_i hsf
      simp only [List.mem_append, List.mem_singleton] at hh
      rcases hh with hh | rfl
      · exact Or.inl ⟨tr, hh, rfl⟩
      · right; rw [fr.2.1]; exact ⟨hw, ha hsf⟩
    · exact Or.inl ⟨tr, hh, rfl⟩

theorem sstep_enqueue_ack {W : U16 → Prop} (s : Tcb) : SStep W s (s.enqueueBuilt s.ackHdr.built) :=
  sstep_enqueue s _ rfl (fun _ => oneNew_ackHdr s) (fun h => by cases h)

/-- a state that differs from `s` in fields `SStep` tracks only through `h*`, then a queued header -/
theorem sstep_then {W : U16 → Prop} {s t : Tcb} (hd : Hdr) (base : SStep W s t) (hw : hd.wnd = t.rcv.wnd)
    (ho : (hd.ctl.syn || hd.ctl.fin) = false → OneNew t hd)
    (ha : (hd.ctl.syn || hd.ctl.fin) = true → hd.ctl.ack = true ∨ hd.ctl.syn = true) :
    SStep W s (t.enqueueBuilt hd) :=
  base.trans (sstep_enqueue t hd hw ho ha)

/-! ## the blocks -/

theorem seqCheck_s {W : U16 → Prop} (s : Tcb) (seg : Hdr) (tl : Seq) (s' : Tcb) (r : Option ProcessSegmentResult)
    (e : seqCheck s seg tl = .ok (s', r)) : SStep W s s' := by
  unfold seqCheck at e
  split at e
  · cases e; exact SStep.refl _
  · split at e
    · simp at e
    · cases e; exact SStep.refl _
    · rw [enqueueThen_eq] at e
      cases e
      exact sstep_enqueue_ack s

theorem ackEstablished_s (s : Tcb) (seg : Hdr) (hst : s.state ≠ .SynSent) :
    ∃ s' r, s.ackEstablishedProcessing seg = .ok (s', r) ∧ SStep (· = seg.wnd) s s' ∧ s'.state = s.state := by
  unfold ackEstablishedProcessing
  split
  · exact ⟨_, _, rfl, SStep.refl _, rfl⟩
  · split
    · rw [enqueue_eq]
      exact ⟨_, _, rfl, sstep_enqueue_ack s, state_enqueueBuilt _ _⟩
    · dsimp only
      have base : SStep (· = seg.wnd) s (({ s with snd.una := seg.ack } : Tcb).removeAckedFromRetransmission seg.ack) :=
        ⟨Or.inl rfl, fun a => absurd a hst, rfl, rfl, fun _ h => Or.inl h,
          fun tr h => Or.inl ⟨tr, (List.mem_filter.1 h).1, rfl⟩, id⟩
      split
      · refine ⟨_, _, rfl, ⟨Or.inr rfl, fun a => absurd a hst, rfl, rfl, base.one, base.rtx, id⟩, rfl⟩
      · exact ⟨_, _, rfl, base, rfl⟩

theorem afterAck_s (t : Tcb) (seg : Hdr) (hst : t.state ≠ .SynSent) (k : Tcb → ProcessSegmentResult → B)
    (Q : B → Prop) (h : ∀ s1 r1, SStep (· = seg.wnd) t s1 → s1.state = t.state → Q (k s1 r1)) :
    Q (afterAckEstablished (t.ackEstablishedProcessing seg) k) := by
  obtain ⟨s1, r1, h1, q1, st1⟩ := ackEstablished_s t seg hst
  unfold afterAckEstablished
  rw [h1]
  exact h s1 r1 q1 st1

theorem ackBlock_s (s : Tcb) (seg : Hdr) : ∃ s' r, ackBlock s seg = .ok (s', r) ∧ SStep (· = seg.wnd) s s' := by
  -- the arms that run `ack_established_processing` and then only change the state
  have est : ∀ (t : Tcb) (k : Tcb → ProcessSegmentResult → B), t.state ≠ .SynSent → s.state ≠ .SynSent →
      SStep (· = seg.wnd) s t →
      (∀ s1 r1, ∃ s2 r2, k s1 r1 = .ok (s2, r2) ∧ s2.outgoing = s1.outgoing ∧ s2.snd = s1.snd ∧ s2.rcv = s1.rcv ∧
        (s1.state ≠ .SynSent → s2.state ≠ .SynSent)) →
      ∃ s' r, afterAckEstablished (t.ackEstablishedProcessing seg) k = .ok (s', r) ∧ SStep (· = seg.wnd) s s' := by
    intro t k hst hss base hk
    refine afterAck_s t seg hst k (fun x => ∃ s' r, x = .ok (s', r) ∧ SStep (· = seg.wnd) s s') ?_
    intro s1 r1 q1 st1
    obtain ⟨s2, r2, e2, o2, sn2, rv2, ns2⟩ := hk s1 r1
    have n1 : s1.state ≠ .SynSent := by rw [st1]; exact hst
    refine ⟨s2, r2, e2, (base.trans q1).trans ?_⟩
    exact SStep.of_eq (by rw [sn2]) (by rw [sn2]) (by rw [rv2]) (by rw [o2]) (by rw [o2]) (fun a => absurd a n1) ns2
  unfold ackBlock
  split
  · exact ⟨_, _, rfl, SStep.refl _⟩
  · split
    · -- SYN-SENT
      rename_i hst
      split
      · split
        · exact ⟨_, _, rfl, SStep.refl _⟩
        · simp only [enqueueThen_eq]
          exact ⟨_, _, rfl, sstep_enqueue _ _ rfl (fun _ => ⟨rfl, Or.inl rfl⟩) (fun h => by cases h)⟩
      · split
        · split
          · refine ⟨_, _, rfl, ⟨Or.inl rfl, fun _ b => absurd hst b, rfl, rfl, fun _ h => Or.inl h,
              fun tr h => Or.inl ⟨tr, (List.mem_filter.1 h).1, rfl⟩, fun a => absurd hst a⟩⟩
          · exact ⟨_, _, rfl, SStep.refl _⟩
        · simp only [enqueueThen_eq]
          exact ⟨_, _, rfl, sstep_enqueue _ _ rfl (fun _ => ⟨rfl, Or.inl rfl⟩) (fun h => by cases h)⟩
    · -- SYN-RECEIVED
      rename_i hst
      split
      · dsimp only
        refine est _ _ (by simp) (by rw [hst]; simp) ?_ (fun s1 r1 => ?_)
        · exact ⟨Or.inr rfl, fun a => (by rw [hst] at a; cases a), rfl, rfl, fun _ h => Or.inl h,
            fun tr h => Or.inl ⟨tr, h, rfl⟩, fun _ => (by simp)⟩
        · split <;> exact ⟨_, _, rfl, rfl, rfl, rfl, id⟩
      · simp only [enqueueThen_eq]
        exact ⟨_, _, rfl, sstep_enqueue _ _ rfl (fun _ => ⟨rfl, Or.inl rfl⟩) (fun h => by cases h)⟩
    iterate 3
      · rename_i hst
        refine est s _ (by rw [hst]; simp) (by rw [hst]; simp) (SStep.refl _) (fun s1 r1 => ?_)
        split <;> exact ⟨_, _, rfl, rfl, rfl, rfl, id⟩
    iterate 2
      · rename_i hst
        refine est s _ (by rw [hst]; simp) (by rw [hst]; simp) (SStep.refl _) (fun s1 r1 => ?_)
        dsimp only
        split <;> split <;> refine ⟨_, _, rfl, rfl, rfl, rfl, fun _ => ?_⟩ <;> first | assumption | simp
    · rename_i hst
      refine est s _ (by rw [hst]; simp) (by rw [hst]; simp) (SStep.refl _) (fun s1 r1 => ?_)
      split
      · exact ⟨_, _, rfl, rfl, rfl, rfl, id⟩
      · split <;> exact ⟨_, _, rfl, rfl, rfl, rfl, id⟩
    · exact ⟨_, _, rfl, SStep.refl _⟩

theorem synBlock_s (s : Tcb) (seg : Hdr) (s' : Tcb) (r : Option ProcessSegmentResult)
    (e : synBlock s seg = .ok (s', r)) : SStep (· = seg.wnd) s s' := by
  unfold synBlock at e
  split at e
  · split at e <;> (cases e; exact SStep.refl _)
  · split at e
    · rename_i hst
      dsimp only at e
      split at e
      · rw [enqueueThen_eq] at e
        cases e
        refine sstep_then _ ⟨Or.inr rfl, fun _ _ => rfl, rfl, rfl, fun _ h => Or.inl h, fun tr h => Or.inl ⟨tr, h, rfl⟩,
          fun a => absurd hst a⟩ rfl (fun _ => ⟨rfl, Or.inr ⟨rfl, rfl, rfl, rfl⟩⟩) (fun h => by cases h)
      · rw [enqueueThen_eq] at e
        cases e
        refine sstep_then _ ⟨Or.inr rfl, fun _ _ => rfl, rfl, rfl, fun _ h => Or.inl h, fun tr h => Or.inl ⟨tr, h, rfl⟩,
          fun a => absurd hst a⟩ rfl (fun h => by simp [Hdr.built, Hdr.withWnd, Hdr.withAck, Hdr.withSyn] at h)
          (fun _ => Or.inl rfl)
    · rw [enqueueThen_eq] at e
      cases e
      exact sstep_enqueue_ack s

theorem textBlock_s {W : U16 → Prop} (s : Tcb) (seg : Hdr) (text : List UInt8) (tl : Seq) (s' : Tcb)
    (r : Option ProcessSegmentResult) (e : textBlock s seg text tl = .ok (s', r)) : SStep W s s' := by
  unfold textBlock at e
  split at e
  · cases e; exact SStep.refl _
  · split at e
    all_goals first
      | (cases e; exact SStep.refl _)
      | (dsimp only at e
         repeat' (split at e)
         all_goals first
           | (simp at e; done)
           | (rw [enqueueThen_eq] at e
              cases e
              refine sstep_then _ (SStep.of_eq ?_ ?_ ?_ ?_ ?_ ?_ ?_) ?_ ?_ ?_
              · rfl
              · rfl
              · rfl
              · rfl
              · rfl
              · exact id
              · exact id
              · rfl
              · exact fun _ => ⟨rfl, Or.inr ⟨rfl, rfl, rfl, rfl⟩⟩
              · exact fun h => by cases h))

theorem finBlock_s {W : U16 → Prop} (s : Tcb) (seg : Hdr) (tl : Seq) (s' : Tcb) (r : Option ProcessSegmentResult)
    (e : finBlock s seg tl = .ok (s', r)) : SStep W s s' := by
  unfold finBlock at e
  split at e
  · cases e; exact SStep.refl _
  · dsimp only at e
    have key : ∀ s1, (if s.state ≠ .SynSent then
          if (decide (s.rcv.nxt = seg.seq + tl) || decide (s.rcv.nxt = seg.seq + tl + 1)) = true then
            ({ s with rcv.nxt := seg.seq + tl + 1 } : Tcb).enqueue
              ({ s with rcv.nxt := seg.seq + tl + 1 } : Tcb).ackHdr
          else Except.ok s
        else Except.ok s) = .ok s1 → SStep W s s1 ∧ (s1.state = .SynSent ↔ s.state = .SynSent) := by
      intro s1 h1
      split at h1
      · split at h1
        · rw [enqueue_eq] at h1
          cases h1
          refine ⟨sstep_then _ (SStep.of_eq ?_ ?_ ?_ ?_ ?_ ?_ ?_) ?_ ?_ ?_, by rw [state_enqueueBuilt]⟩
          · rfl
          · rfl
          · rfl
          · rfl
          · rfl
          · exact id
          · exact id
          · rfl
          · exact fun _ => ⟨rfl, Or.inr ⟨rfl, rfl, rfl, rfl⟩⟩
          · exact fun h => by cases h
        · cases h1; exact ⟨SStep.refl _, Iff.rfl⟩
      · cases h1; exact ⟨SStep.refl _, Iff.rfl⟩
    split at e
    · simp at e
    · rename_i s1 h1
      obtain ⟨k, kst⟩ := key s1 h1
      have lift : ∀ s2 : Tcb, s2.rcv = s1.rcv → s2.outgoing = s1.outgoing → s2.snd = s1.snd →
          (s1.state = .SynSent → s2.state = .SynSent) → (s2.state = s1.state ∨ s2.state ≠ .SynSent) → SStep W s s2 := by
        intro s2 a b c d d'
        refine k.trans (SStep.of_eq (by rw [c]) (by rw [c]) (by rw [a]) (by rw [b]) (by rw [b]) d ?_)
        rcases d' with d' | d'
        · rw [d']; exact id
        · exact fun _ => d'
      split at e
      all_goals first
        | (cases e; exact k)
        | (rename_i hs1
           cases e
           refine lift _ rfl rfl rfl (fun hx => ?_) ?_
           · rw [hs1] at hx; cases hx
           · first | exact Or.inl rfl | exact Or.inr (by simp))
        | (rename_i hs1
           split at e <;>
            (cases e
             refine lift _ rfl rfl rfl (fun hx => ?_) ?_
             · rw [hs1] at hx; cases hx
             · first | exact Or.inl rfl | exact Or.inr (by simp)))

theorem processSegment_s (s : Tcb) (segment : Segment) (s' : Tcb) (r : ProcessSegmentResult)
    (e : s.processSegment segment = .ok (s', r)) : SStep (· = segment.hdr.wnd) s s' := by
  unfold processSegment at e
  dsimp only at e
  cases h1 : seqCheck s segment.hdr (BitVec.ofNat 32 segment.text.length) with
  | error err => rw [h1] at e; simp [B.andThen] at e
  | ok p1 =>
    obtain ⟨s1, r1⟩ := p1
    have k1 : SStep (· = segment.hdr.wnd) s s1 := seqCheck_s _ _ _ _ _ h1
    rw [h1] at e
    cases r1 with
    | some x => simp only [andThen_some] at e; cases e; exact k1
    | none =>
      simp only [andThen_none] at e
      obtain ⟨s2, r2, e2, k2⟩ := ackBlock_s s1 segment.hdr
      rw [e2] at e
      cases r2 with
      | some x => simp only [andThen_some] at e; cases e; exact k1.trans k2
      | none =>
        simp only [andThen_none] at e
        obtain ⟨r3, e3⟩ := rstBlock_spec s2 segment.hdr
        rw [e3] at e
        cases r3 with
        | some x => simp only [andThen_some] at e; cases e; exact k1.trans k2
        | none =>
          simp only [andThen_none] at e
          cases h4 : synBlock s2 segment.hdr with
          | error err => rw [h4] at e; simp [B.andThen] at e
          | ok p4 =>
            obtain ⟨s4, r4⟩ := p4
            have k4 := synBlock_s _ _ _ _ h4
            rw [h4] at e
            cases r4 with
            | some x => simp only [andThen_some] at e; cases e; exact (k1.trans k2).trans k4
            | none =>
              simp only [andThen_none] at e
              cases h5 : textBlock s4 segment.hdr segment.text (BitVec.ofNat 32 segment.text.length) with
              | error err => rw [h5] at e; simp [B.andThen] at e
              | ok p5 =>
                obtain ⟨s5, r5⟩ := p5
                have k5 : SStep (· = segment.hdr.wnd) s4 s5 := textBlock_s _ _ _ _ _ _ h5
                rw [h5] at e
                cases r5 with
                | some x => simp only [andThen_some] at e; cases e; exact ((k1.trans k2).trans k4).trans k5
                | none =>
                  simp only [andThen_none] at e
                  cases h6 : finBlock s5 segment.hdr (BitVec.ofNat 32 segment.text.length) with
                  | error err => rw [h6] at e; simp at e
                  | ok p6 =>
                    obtain ⟨s6, r6⟩ := p6
                    have k6 : SStep (· = segment.hdr.wnd) s5 s6 := finBlock_s _ _ _ _ _ h6
                    rw [h6] at e
                    cases r6 <;> (cases e; exact (((k1.trans k2).trans k4).trans k5).trans k6)

theorem drain_s (fuel : Nat) (s s' : Tcb) (r : SegmentArrivesResult) (e : drain fuel s = .ok (s', r)) :
    SStep (fun w => ∃ σ ∈ s.incoming.segments, w = σ.hdr.wnd) s s' := by
  induction fuel generalizing s with
  | zero => unfold drain at e; cases e; exact SStep.refl _
  | succ n ih =>
    unfold drain at e
    split at e
    · cases e; exact SStep.refl _
    · rename_i top hpeek
      split at e
      · cases e; exact SStep.refl _
      · obtain ⟨rest, hpop⟩ := LHeap.pop_of_peek (le := segLe) hpeek
        rw [hpop] at e
        dsimp only at e
        have hmem := LHeap.mem_of_mem_pop hpop
        cases hp : processSegment { s with incoming.segments := rest } top with
        | error err => rw [hp] at e; simp at e
        | ok p1 =>
          obtain ⟨s1, r1⟩ := p1
          rw [hp] at e
          dsimp only at e
          have k0 := processSegment_s _ _ _ _ hp
          have k1 : SStep (fun w => ∃ σ ∈ s.incoming.segments, w = σ.hdr.wnd) s s1 :=
            (SStep.of_eq (W := fun w => ∃ σ ∈ s.incoming.segments, w = σ.hdr.wnd) (s := s)
              (s' := { s with incoming.segments := rest }) rfl rfl rfl rfl rfl id id).trans
              (k0.mono (fun w hw => ⟨top, hmem.1, hw⟩))
          split at e
          · cases e; exact k1
          · have heap1 : s1.incoming.segments = rest := processSegment_heap _ _ _ _ hp
            exact k1.trans ((ih s1 e).mono (fun w ⟨σ, hσ, hw⟩ => ⟨σ, hmem.2 σ (heap1 ▸ hσ), hw⟩))

theorem segmentArrives_s (s : Tcb) (segment : Segment) (s' : Tcb) (r : SegmentArrivesResult)
    (e : s.segmentArrives segment = .ok (s', r)) :
    SStep (fun w => ∃ σ ∈ segment :: s.incoming.segments, w = σ.hdr.wnd) s s' := by
  unfold segmentArrives at e
  dsimp only at e
  split at e
  · simp at e
  · rw [enqueue_eq] at e
    cases e
    exact sstep_enqueue_ack s
  · have k := drain_s _ _ _ _ e
    refine (SStep.of_eq (W := fun w => ∃ σ ∈ segment :: s.incoming.segments, w = σ.hdr.wnd) (s := s)
      (s' := { s with incoming.segments := LHeap.push segLe s.incoming.segments segment })
      rfl rfl rfl rfl rfl id id).trans (k.mono (fun w ⟨σ, hσ, hw⟩ => ⟨σ, ?_, hw⟩))
    rcases LHeap.mem_push.1 hσ with rfl | h
    · exact List.mem_cons_self
    · exact List.mem_cons_of_mem _ h

end Tcb
end Elvis.Tcp
