import ElvisVerif.Generated.DnsCert
/-
Model of name resolution (sim/elvis-core/src/protocols/dns/{dns_parsing,dns_server,dns_client}.rs
and the connected datagram sockets of socket_api/socket.rs they use).

* Wire format (`dns_parsing.rs`): 6 big-endian u16 header words, question = name bytes, the
  delimiter 0x20, qtype, qclass; answer = name bytes, 0x20, type, class, ttl (u32), rdlength,
  rdata.  `DnsMessage::from_bytes` reads names up to the first 0x20 and fails with
  `HeaderTooShort` (here: `none`) whenever the bytes run out.  (The full codec is property C08's,
  `Model/Codec/Dns.lean`; this file carries the part C20 needs.)
* Server (`dns_server.rs`): one responder task per accepted connection: read the request, parse,
  `query_name` (UTF-8), table lookup, `create_response` (id, question name, answer name and ttl
  are copied from the request, rdata = the record), send.  Every failure (`DnsServerError::Other`
  for an undecodable request, `Cache` for an unknown name) is returned by `respond_to_query`,
  logged by the responder task, and NO reply is sent (`.error "err:…"`).
* Client (`dns_client.rs`): `get_host_by_name`: cache hit -> address, nothing else happens;
  miss -> query with a random id on a FRESH connected datagram socket (ephemeral port), wait for
  one datagram (no timeout), parse, insert (answer.name -> rdata[0..4]) into the cache, look the
  requested name up.  An undecodable reply gives `Err(Other)`, a reply whose answer is for another
  name gives `Err(Cache)` AFTER that answer was cached.  The client compares neither the id nor
  the question name of the reply.
* Exchange: one server, N clients, a bag of datagrams in flight; the scheduler/network choice
  (which client starts which lookup, which datagram arrives next) is an explicit `Choice` list.

ASSUMPTION `FourTupleIsolation` (properties C04/C02, not proved here): a datagram is handed only
to the socket whose (local endpoint, remote endpoint) equals the datagram's (destination,
source), ephemeral ports of one machine are handed out once each, and the server's responder for
a connection reads exactly the datagrams of that connection.  It is built into `step`: delivery
looks the socket up by (client, port).

ASSUMPTION `EveryQueryAccepted`: a query datagram that reaches the server machine is handed to a
responder task.  The real `SocketAPI` keeps at most `listen(10)` = 10 not-yet-accepted
connections and discards the datagram of an 11th (`try_send` fails) — finding F-C20-3, known: such
a lookup never returns.  The model has no such bound; the runs replay a discarded query as an
explicit `drop` (see Driver/C20.lean).  For the observable events a discarded datagram is one that
is never delivered, and the theorems quantify over all choice lists, so the safety theorems
(`c20_resolve_correct`, `c20_cache_silent`) cover those runs; `c20_completes` (which assumes the
network drained by deliveries) does not.

No imports besides the generated certificate: linked into the native driver.
-/
namespace Elvis.Dns

abbrev Bytes := List UInt8

/-- the delimiter that ends a name on the wire (`b' '`) -/
def delim : UInt8 := 32

/-! ### primitive encoders / decoders (`BytesExt::next_u16_be` …) -/

def u16be (n : Nat) : Bytes := [UInt8.ofNat (n / 256), UInt8.ofNat (n % 256)]

def u32be (n : Nat) : Bytes :=
  [UInt8.ofNat (n / 16777216), UInt8.ofNat (n / 65536 % 256), UInt8.ofNat (n / 256 % 256), UInt8.ofNat (n % 256)]

def takeU16 : Bytes → Option (Nat × Bytes)
  | a :: b :: r => some (a.toNat * 256 + b.toNat, r)
  | _ => none

def takeU32 : Bytes → Option (Nat × Bytes)
  | a :: b :: c :: d :: r => some (a.toNat * 16777216 + b.toNat * 65536 + c.toNat * 256 + d.toNat, r)
  | _ => none

/-- `while current != b' ' { name.push(current); current = next? }` -/
def takeName : Bytes → Option (Bytes × Bytes)
  | [] => none
  | c :: r => if c = delim then some ([], r) else
    match takeName r with
    | some (n, r') => some (c :: n, r')
    | none => none

/-- `while i < rdlength { rdata.push(next?) }` -/
def takeN : Nat → Bytes → Option (Bytes × Bytes)
  | 0, r => some ([], r)
  | _ + 1, [] => none
  | k + 1, c :: r =>
    match takeN k r with
    | some (d, r') => some (c :: d, r')
    | none => none

/-! ### messages -/

structure Header where
  id : Nat
  properties : Nat
  qdcount : Nat
  ancount : Nat
  nscount : Nat
  arcount : Nat
deriving Repr, DecidableEq

structure Question where
  qname : Bytes
  qtype : Nat
  qclass : Nat
deriving Repr, DecidableEq

structure Record where
  name : Bytes
  recType : Nat
  cls : Nat
  ttl : Nat
  rdlength : Nat
  rdata : Bytes
deriving Repr, DecidableEq

structure DnsMsg where
  header : Header
  question : Question
  answer : Record
deriving Repr, DecidableEq

/-- an IPv4 address (`Ipv4Address([u8; 4])`) -/
structure Addr where
  a : UInt8
  b : UInt8
  c : UInt8
  d : UInt8
deriving Repr, DecidableEq

def Addr.toBytes (x : Addr) : Bytes := [x.a, x.b, x.c, x.d]

inductive MsgType
  | query
  | response
deriving Repr, DecidableEq

/-- `DnsHeader::new` -/
def Header.new (id : Nat) (t : MsgType) : Header :=
  { id := id, properties := (match t with | .query => 0 | .response => 32768),
    qdcount := 0, ancount := 0, nscount := 0, arcount := 0 }

/-- `DnsQuestion::new` -/
def Question.new (name : Bytes) : Question := { qname := name, qtype := 1, qclass := 1 }

/-- `DnsResourceRecord::new` -/
def Record.new (name : Bytes) (ttl : Nat) (a : Addr) : Record :=
  { name := name, recType := 1, cls := 1, ttl := ttl, rdlength := 4, rdata := a.toBytes }

def Header.build (h : Header) : Bytes :=
  u16be h.id ++ u16be h.properties ++ u16be h.qdcount ++ u16be h.ancount ++ u16be h.nscount ++ u16be h.arcount

def Question.build (q : Question) : Bytes :=
  q.qname ++ [delim] ++ u16be q.qtype ++ u16be q.qclass

def Record.build (r : Record) : Bytes :=
  r.name ++ [delim] ++ u16be r.recType ++ u16be r.cls ++ u32be r.ttl ++ u16be r.rdlength ++ r.rdata

/-- `DnsMessage::to_message` -/
def DnsMsg.build (m : DnsMsg) : Bytes := m.header.build ++ m.question.build ++ m.answer.build

/-- `DnsMessage::from_bytes`; `none` = `Err(HeaderTooShort)`.  Trailing bytes are ignored. -/
def fromBytes (b : Bytes) : Option DnsMsg :=
  match takeU16 b with
  | none => none
  | some (id, b) =>
  match takeU16 b with
  | none => none
  | some (properties, b) =>
  match takeU16 b with
  | none => none
  | some (qdcount, b) =>
  match takeU16 b with
  | none => none
  | some (ancount, b) =>
  match takeU16 b with
  | none => none
  | some (nscount, b) =>
  match takeU16 b with
  | none => none
  | some (arcount, b) =>
  match takeName b with
  | none => none
  | some (qname, b) =>
  match takeU16 b with
  | none => none
  | some (qtype, b) =>
  match takeU16 b with
  | none => none
  | some (qclass, b) =>
  match takeName b with
  | none => none
  | some (name, b) =>
  match takeU16 b with
  | none => none
  | some (recType, b) =>
  match takeU16 b with
  | none => none
  | some (cls, b) =>
  match takeU32 b with
  | none => none
  | some (ttl, b) =>
  match takeU16 b with
  | none => none
  | some (rdlength, b) =>
  match takeN rdlength b with
  | none => none
  | some (rdata, _) =>
    some { header := { id, properties, qdcount, ancount, nscount, arcount },
           question := { qname, qtype, qclass },
           answer := { name, recType, cls, ttl, rdlength, rdata } }

/-! ### UTF-8 (`String::from_utf8(..).unwrap()` on both sides) -/

/-- the validator as a scanner: `rem` continuation bytes are still owed, the next one must lie
    in `lo..hi` (well-formed UTF-8 as accepted by `std::str::from_utf8`, Unicode table 3-7) -/
def utf8Go : Nat → Nat → Nat → Bytes → Bool
  | 0, _, _, [] => true
  | _ + 1, _, _, [] => false
  | 0, _, _, a :: r =>
    let x := a.toNat
    if x ≤ 127 then utf8Go 0 0 0 r
    else if 194 ≤ x && x ≤ 223 then utf8Go 1 128 191 r
    else if x = 224 then utf8Go 2 160 191 r
    else if x = 237 then utf8Go 2 128 159 r
    else if 225 ≤ x && x ≤ 239 then utf8Go 2 128 191 r
    else if x = 240 then utf8Go 3 144 191 r
    else if x = 244 then utf8Go 3 128 143 r
    else if 241 ≤ x && x ≤ 243 then utf8Go 3 128 191 r
    else false
  | k + 1, lo, hi, a :: r => if lo ≤ a.toNat && a.toNat ≤ hi then utf8Go k 128 191 r else false

def utf8Valid (b : Bytes) : Bool := utf8Go 0 0 0 b

/-! ### record tables (`FxDashMap<String, Ipv4Address>`) -/

/-- association list; the first entry of a name is the live one -/
abbrev Table := List (Bytes × Addr)

def Table.get : Table → Bytes → Option Addr
  | [], _ => none
  | (k, v) :: t, n => if k = n then some v else Table.get t n

/-- `DashMap::insert` (replaces) -/
def Table.put (t : Table) (n : Bytes) (a : Addr) : Table := (n, a) :: t

def addrOfNats (x : Nat × Nat × Nat × Nat) : Addr :=
  ⟨UInt8.ofNat x.1, UInt8.ofNat x.2.1, UInt8.ofNat x.2.2.1, UInt8.ofNat x.2.2.2⟩

/-- the stand-in records `DnsServer::start` inserts itself (extracted from the source) -/
def builtinRecords : List (Bytes × Addr) :=
  Elvis.Gen.dnsBuiltinRecords.map fun e => (e.1.map UInt8.ofNat, addrOfNats e.2)

/-- The server's table when it serves: the configured records (`add_mapping` before the run, in
    call order; a later registration of a name replaces an earlier one) and the stand-in records
    `DnsServer::start` inserts itself: with `overrides` they replace configured records of the
    same name (`add_mapping`, the code before the fix of F-C20-2), without they are kept only for
    names not registered (`entry(name).or_insert(ip)`). -/
def serverTableWith (overrides : Bool) (builtin configured : List (Bytes × Addr)) : Table :=
  if overrides then builtin.reverse ++ configured.reverse else configured.reverse ++ builtin

/-- the table as the source builds it now -/
def serverTable (configured : List (Bytes × Addr)) : Table :=
  serverTableWith Elvis.Gen.dnsBuiltinOverrides builtinRecords configured

/-- the record registered for a name: its last registration -/
def registered (configured : List (Bytes × Addr)) (name : Bytes) : Option Addr :=
  Table.get configured.reverse name

/-! ### server -/

/-- what `respond_to_query` reads from its connection: the whole datagram (`recv_msg`,
    `budget = none`), or its first `n` bytes (`recv(n)`; the code before the fix of F-C20-1 had
    `recv(80)`) -/
def serverRead (budget : Option Nat) (datagram : Bytes) : Bytes :=
  match budget with
  | none => datagram
  | some n => datagram.take n

/-- `DnsServer::create_response` -/
def createResponse (q : DnsMsg) (a : Addr) : DnsMsg :=
  { header := Header.new q.header.id .response,
    question := Question.new q.question.qname,
    answer := Record.new q.answer.name q.answer.ttl a }

/-- `DnsServer::respond_to_query` on one request datagram: the reply datagram, or the error the
    responder task logs (then nothing is sent) -/
def respondWith (budget : Option Nat) (t : Table) (datagram : Bytes) : Except String Bytes :=
  match fromBytes (serverRead budget datagram) with
  | none => .error "err:Other:server_from_bytes"
  | some req =>
    if utf8Valid req.question.qname then
      match t.get req.question.qname with
      | none => .error "err:Cache:server_unknown_name"
      | some a => .ok (createResponse req a).build
    else .error "err:Other:server_query_name"

/-- the server as the source has it now (`Generated/DnsCert.lean` is rewritten from the source
    on every check) -/
def sourceBudget : Option Nat :=
  if Elvis.Gen.dnsServerReadsWholeDatagram then none else some Elvis.Gen.dnsServerRecvBudget

def respond (t : Table) (datagram : Bytes) : Except String Bytes :=
  respondWith sourceBudget t datagram

/-! ### client -/

/-- `DnsClient::create_request` (`id` = the `rand::random::<u16>()` draw) -/
def createRequest (name : Bytes) (id : Nat) : DnsMsg :=
  { header := Header.new id .query,
    question := Question.new name,
    answer := Record.new name 0 ⟨0, 0, 0, 0⟩ }

def queryBytes (name : Bytes) (id : Nat) : Bytes := (createRequest name id).build

/-- `Ipv4Address::new([rdata[0], rdata[1], rdata[2], rdata[3]])` -/
def addrOfRdata : Bytes → Option Addr
  | a :: b :: c :: d :: _ => some ⟨a, b, c, d⟩
  | _ => none

/-- the tail of `get_host_by_name` after `recv_msg`: parse the reply, cache (answer.name ->
    rdata), look the requested name up.  Result: the cache afterwards and what the call returns
    (the parsed reply and the address, or `DnsClientError`). -/
def onReply (cache : Table) (name reply : Bytes) : Table × Except String (DnsMsg × Addr) :=
  match fromBytes reply with
  | none => (cache, .error "err:Other")
  | some m =>
    if utf8Valid m.answer.name then
      match addrOfRdata m.answer.rdata with
      | none => (cache, .error "err:Other")
      | some a =>
        let cache' := cache.put m.answer.name a
        match cache'.get name with
        | none => (cache', .error "err:Cache")
        | some r => (cache', .ok (m, r))
    else (cache, .error "err:Other")

/-! ### the exchange as a transition system -/

/-- one side of a datagram: the server (`DNS_AUTH:53`) or (client index, ephemeral port) -/
inductive Ep
  | server
  | client (c : Nat) (port : Nat)
deriving Repr, DecidableEq

structure Datagram where
  src : Ep
  dst : Ep
  payload : Bytes
deriving Repr, DecidableEq

/-- a connected datagram socket of a lookup in progress (`done` once its reply was consumed) -/
structure Sock where
  client : Nat
  port : Nat
  name : Bytes
  id : Nat
  done : Bool
deriving Repr, DecidableEq

structure ClientSt where
  cache : Table := []
  /-- `SocketAPI::local_ports` -/
  nextPort : Nat := 49152
deriving Repr

inductive Event
  /-- `get_host_by_name(name)` of client `c` returned `a`; `cached` = answered from the cache -/
  | resolved (c : Nat) (name : Bytes) (a : Addr) (cached : Bool)
  /-- a datagram was put on the network -/
  | sent (d : Datagram)
  /-- client `c` consumed reply `reply` on the socket it opened for (`name`, `id`) -/
  | accepted (c : Nat) (name : Bytes) (id : Nat) (reply : DnsMsg)
  /-- `get_host_by_name(name)` of client `c` returned `Err(e)` -/
  | failed (c : Nat) (name : Bytes) (e : String)
  /-- the responder for the connection of `src` logged error `e` and sent nothing -/
  | unanswered (src : Ep) (e : String)
deriving Repr, DecidableEq

structure Sys where
  table : Table
  clients : List ClientSt
  socks : List Sock
  net : List Datagram
  events : List Event
  /-- a panic ended the process (only the ephemeral-port overflow is left, F-C20-4) -/
  crashed : Option String
deriving Repr

inductive Choice
  /-- client `c` calls `get_host_by_name(name)`; `id` is the random transaction id it draws on a miss -/
  | lookup (c : Nat) (name : Bytes) (id : Nat)
  /-- the `k`-th datagram in flight arrives (any order = any frame delays) -/
  | deliver (k : Nat)
deriving Repr, DecidableEq

def init (table : Table) (n : Nat) : Sys :=
  { table := table, clients := List.replicate n {}, socks := [], net := [], events := [], crashed := none }

/-- ASSUMPTION `FourTupleIsolation`: the socket a datagram for (client `c`, port `p`) is handed to -/
def findSock (socks : List Sock) (c p : Nat) : Option Sock :=
  socks.find? fun s => s.client = c && s.port = p

def markDone (socks : List Sock) (c p : Nat) : List Sock :=
  socks.map fun s => if s.client = c && s.port = p then { s with done := true } else s

def stepLookup (s : Sys) (c : Nat) (name : Bytes) (id : Nat) : Sys :=
  match s.clients[c]? with
  | none => s
  | some cl =>
    match cl.cache.get name with
    | some a => { s with events := s.events ++ [.resolved c name a true] }
    | none =>
      -- `get_ephemeral_port`: `*local_ports += 1` overflows after port 65535 was handed out
      if cl.nextPort ≥ 65535 then { s with crashed := some "panic:overflow:ephemeral_port" }
      else
        let d : Datagram := { src := .client c cl.nextPort, dst := .server, payload := queryBytes name id }
        { s with clients := s.clients.set c { cl with nextPort := cl.nextPort + 1 },
                 socks := s.socks ++ [{ client := c, port := cl.nextPort, name := name, id := id, done := false }],
                 net := s.net ++ [d],
                 events := s.events ++ [.sent d] }

def stepDeliver (s : Sys) (k : Nat) : Sys :=
  match s.net[k]? with
  | none => s
  | some d =>
    let net' := s.net.eraseIdx k
    match d.dst with
    | .server =>
      match respond s.table d.payload with
      | .error e => { s with net := net', events := s.events ++ [.unanswered d.src e] }
      | .ok r =>
        let d' : Datagram := { src := .server, dst := d.src, payload := r }
        { s with net := net' ++ [d'], events := s.events ++ [.sent d'] }
    | .client c p =>
      match findSock s.socks c p, s.clients[c]? with
      | some so, some cl =>
        if so.done then { s with net := net' }   -- nobody reads a second datagram on that socket
        else
          match onReply cl.cache so.name d.payload with
          | (cache', .error e) =>
            { s with net := net',
                     clients := s.clients.set c { cl with cache := cache' },
                     socks := markDone s.socks c p,
                     events := s.events ++ [.failed c so.name e] }
          | (cache', .ok (m, a)) =>
            { s with net := net',
                     clients := s.clients.set c { cl with cache := cache' },
                     socks := markDone s.socks c p,
                     events := s.events ++ [.accepted c so.name so.id m, .resolved c so.name a false] }
      | _, _ => { s with net := net' }            -- no such socket: the datagram is dropped

def step (s : Sys) (ch : Choice) : Sys :=
  match s.crashed with
  | some _ => s
  | none =>
    match ch with
    | .lookup c name id => stepLookup s c name id
    | .deliver k => stepDeliver s k

def run (s : Sys) (cs : List Choice) : Sys := cs.foldl step s

end Elvis.Dns
