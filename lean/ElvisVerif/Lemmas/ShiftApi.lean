import ElvisVerif.Lemmas.ShiftProcess
/-!
# The API calls of the TCB commute with the shift map (C12)

`open`, `send`, `receive`, `advance_time`, `close`, `abort`, `segments`.  One exclusion, stated
as a hypothesis: `segments()` on a SYN-SENT TCB whose send window is not 0 (never the case for a
TCB made by `open`: the pure-ACK header of a data segment would carry the unset `RCV.NXT`).
-/
namespace Elvis.Tcp
open Elvis.ModCmp
variable (ka kb : Seq)

/-! ## `open`, `send`, `receive`, `advance_time`, `close`, `abort` -/

theorem shift_open (lp rp : U16) (iss : Seq) (mtu : U16) :
    Tcb.open lp rp (iss + ka) mtu = shiftE ka kb (Tcb.open lp rp iss mtu) := by
  unfold Tcb.open
  simp only [Tcb.enqueue_eq, shiftE_ok]
  rw [add_right_comm' iss ka 1]
  rfl

theorem shift_send (s : Tcb) (m : List UInt8) : (s.shift ka kb).send m = (s.send m).shift ka kb := by
  obtain ⟨lp, rp, mtu, ini, st, snd, rcv, out, inc, tmo⟩ := s
  cases st <;> rfl

theorem shift_receive (s : Tcb) :
    (s.shift ka kb).receive = ((s.receive).1.shift ka kb, (s.receive).2) := by
  obtain ⟨lp, rp, mtu, ini, st, snd, rcv, out, inc, tmo⟩ := s
  cases st <;> rfl

theorem shift_advanceRetransmission (s : Tcb) (dt : Nat) :
    (s.shift ka kb).advanceRetransmission dt = shiftE ka kb (s.advanceRetransmission dt) := by
  unfold Tcb.advanceRetransmission
  rw [Tcb.shift_timeouts]
  split
  · simp only [shiftE_ok, Tcb.shift, List.map_map]
    rfl
  · repeat' split
    all_goals rfl

theorem shift_advanceTime (s : Tcb) (dt : Nat) :
    (s.shift ka kb).advanceTime dt = M.shift ka kb (s.advanceTime dt) := by
  unfold Tcb.advanceTime
  rw [shift_advanceRetransmission]
  cases s.advanceRetransmission dt with
  | error e => rfl
  | ok u =>
    simp only [shiftE_ok, Tcb.shift_timeouts]
    repeat' split
    all_goals rfl

/-- the bump of `SND.NXT` over the FIN in `queue_fin` -/
def bumpNxt (s : Tcb) : Tcb := { s with snd.nxt := s.snd.nxt + 1 }

theorem shift_bumpNxt (s : Tcb) : bumpNxt (s.shift ka kb) = (bumpNxt s).shift ka kb := by
  unfold bumpNxt
  rw [Tcb.shift_nxt, add_right_comm']
  rfl

theorem queueFin_eq (s : Tcb) :
    s.queueFin = if s.outgoing.text.isEmpty then .ok (bumpNxt (s.enqueueBuilt s.finHdr.built)) else .ok s := by
  unfold Tcb.queueFin
  rw [Tcb.enqueue_eq]
  rfl

/-- `queue_fin`: the FIN takes `SND.NXT` and acknowledges `RCV.NXT` (set outside SYN-SENT) -/
theorem shift_queueFin (s : Tcb) (h : s.state ≠ .SynSent) :
    (s.shift ka kb).queueFin = shiftE ka kb s.queueFin := by
  rw [queueFin_eq, queueFin_eq, Tcb.shift_otext, Tcb.shift_finHdr ka kb s h, Hdr.shift_built,
    Tcb.shift_enqueueBuilt, shift_bumpNxt]
  split <;> rfl

theorem finPending_state (s : Tcb) (h : s.finPending = true) :
    s.state = .FinWait1 ∨ s.state = .Closing ∨ s.state = .LastAck := by
  unfold Tcb.finPending at h
  cases hs : s.state <;> rw [hs] at h <;> simp at h ⊢

/-- `if fin_pending { queue_fin() }` of `segments()`; a FIN is pending only after `close` -/
theorem shift_finIfPending (b : Bool) (s : Tcb) (h : b = true → s.state ≠ .SynSent) :
    Tcb.finIfPending b (s.shift ka kb) = shiftE ka kb (Tcb.finIfPending b s) := by
  unfold Tcb.finIfPending
  by_cases hb : b = true
  · rw [if_pos hb, if_pos hb]; exact shift_queueFin ka kb s (h hb)
  · rw [if_neg hb, if_neg hb]; rfl

theorem shift_close (s : Tcb) : (s.shift ka kb).close = M.shift ka kb s.close := by
  unfold Tcb.close
  rw [Tcb.shift_state]
  cases hst : s.state <;> first
    | rfl
    | (have hne : s.state ≠ .SynSent := by rw [hst]; decide
       dsimp only
       have e := shift_setState_late ka kb s .FinWait1 hne (by decide)
       rw [e, shift_queueFin ka kb _ (by intro hh; cases hh)]
       cases Tcb.queueFin _ <;> rfl)
    | (have hne : s.state ≠ .SynSent := by rw [hst]; decide
       dsimp only
       have e := shift_setState_late ka kb s .LastAck hne (by decide)
       rw [e, shift_queueFin ka kb _ (by intro hh; cases hh)]
       cases Tcb.queueFin _ <;> rfl)

theorem shift_abort (s : Tcb) : (s.shift ka kb).abort = shiftE ka kb s.abort := by
  unfold Tcb.abort
  rw [Tcb.shift_state]
  have key : ∀ t : Tcb, t.outgoing = {} →
      (t.shift ka kb).enqueue (((t.shift ka kb).headerBuilder (t.shift ka kb).snd.nxt).withRst.withWnd (t.shift ka kb).rcv.wnd) =
        shiftE ka kb (t.enqueue ((t.headerBuilder t.snd.nxt).withRst.withWnd t.rcv.wnd)) := by
    intro t _
    refine Tcb.shift_enqueue ka kb t _ _ ?_
    rw [Tcb.shift_headerBuilder, Tcb.shift_nxt, Tcb.shift_rcvwnd]
    rfl
  obtain ⟨lp, rp, mtu, ini, st, snd, rcv, out, inc, tmo⟩ := s
  cases st <;> first
    | rfl
    | exact key ⟨lp, rp, mtu, ini, _, snd, rcv, {}, inc, tmo⟩ rfl

/-! ## `segments` -/

theorem Hdr.shift_build (k1 k2 : Seq) (h : Hdr) (n : Nat) :
    (h.shift k1 k2).build n = (h.build n).map (Hdr.shift k1 k2) := by
  unfold Hdr.build
  split <;> rfl

/-- one round of the segmentizing loop -/
def pushSeg (s : Tcb) (header : Hdr) (text rest : List UInt8) : Tcb :=
  { s with outgoing.text := rest,
           snd.nxt := s.snd.nxt + BitVec.ofNat 32 text.length,
           outgoing.retransmit := s.outgoing.retransmit ++ [Transmit.new ⟨header, text⟩] }

theorem shift_pushSeg (s : Tcb) (header : Hdr) (text rest : List UInt8) :
    pushSeg (s.shift ka kb) (header.shift ka kb) text rest = (pushSeg s header text rest).shift ka kb := by
  unfold pushSeg
  rw [Tcb.shift_nxt, add_right_comm']
  simp only [Tcb.shift, List.map_append, List.map_cons, List.map_nil]
  rfl

theorem segmentize_succ (m fuel : Nat) (s : Tcb) (q : Nat) :
    Tcb.segmentize m (fuel + 1) s q =
      if min (min m (s.snd.wnd.toNat - q)) s.outgoing.text.length = 0 then .ok s else
      match (s.ackHdr).build (s.outgoing.text.take (min (min m (s.snd.wnd.toNat - q)) s.outgoing.text.length)).length with
      | none => .error "panic:expect:segments.build"
      | some header =>
        Tcb.segmentize m fuel
          (pushSeg s header (s.outgoing.text.take (min (min m (s.snd.wnd.toNat - q)) s.outgoing.text.length))
            (s.outgoing.text.drop (min (min m (s.snd.wnd.toNat - q)) s.outgoing.text.length)))
          (q + min (min m (s.snd.wnd.toNat - q)) s.outgoing.text.length) := rfl

theorem shift_segmentize (m fuel : Nat) (s : Tcb) (q : Nat) (hq : s.state = .SynSent → s.snd.wnd = 0) :
    Tcb.segmentize m fuel (s.shift ka kb) q = shiftE ka kb (Tcb.segmentize m fuel s q) := by
  induction fuel generalizing s q with
  | zero => rfl
  | succ n ih =>
    rw [segmentize_succ, segmentize_succ, Tcb.shift_sndwnd, Tcb.shift_otext]
    generalize hb : min (min m (s.snd.wnd.toNat - q)) s.outgoing.text.length = bytes
    by_cases h0 : bytes = 0
    · rw [if_pos h0, if_pos h0]; rfl
    · rw [if_neg h0, if_neg h0]
      have hne : s.state ≠ .SynSent := by
        intro hs
        have hw := hq hs
        apply h0
        rw [← hb, hw]
        simp
      rw [Tcb.shift_ackHdr ka kb s hne, Hdr.shift_build]
      cases hbuild : s.ackHdr.build (List.take bytes s.outgoing.text).length with
      | none => rfl
      | some header =>
        simp only [Option.map_some]
        rw [shift_pushSeg]
        exact ih _ _ (fun hs => absurd hs hne)

theorem shift_segmentizeIfOpen (s : Tcb) (hq : s.state = .SynSent → s.snd.wnd = 0) :
    Tcb.segmentizeIfOpen (s.shift ka kb) = shiftE ka kb (Tcb.segmentizeIfOpen s) := by
  unfold Tcb.segmentizeIfOpen
  rw [Tcb.shift_state, Tcb.shift_mtu, Tcb.shift_otext, Tcb.shift_queuedBytes]
  cases hst : s.state <;> first
    | rfl
    | (dsimp only
       split
       · rfl
       · exact shift_segmentize ka kb _ _ s _ hq)

def clearOneshot (s : Tcb) : Tcb := { s with outgoing.oneshot := [] }

/-- the bookkeeping at the end of `segments` -/
def markSent (s : Tcb) (rearm : Bool) : Tcb :=
  let s := { s with outgoing.retransmit := s.outgoing.retransmit.map fun t => { t with needsTransmit := false } }
  if rearm then s else { s with timeouts.retransmission := RTO }

theorem shift_markSent (s : Tcb) (b : Bool) : markSent (s.shift ka kb) b = (markSent s b).shift ka kb := by
  unfold markSent
  cases b <;> simp only [Bool.false_eq_true, if_false, if_true, Tcb.shift, List.map_map] <;> rfl

theorem segmentize_state (m fuel : Nat) (s u : Tcb) (q : Nat) (h : Tcb.segmentize m fuel s q = .ok u) :
    u.state = s.state ∧ u.incoming = s.incoming := by
  induction fuel generalizing s q with
  | zero => cases h; exact ⟨rfl, rfl⟩
  | succ n ih =>
    rw [segmentize_succ] at h
    split at h
    · cases h; exact ⟨rfl, rfl⟩
    · split at h
      · cases h
      · have := ih _ _ h
        exact ⟨this.1, this.2⟩

theorem segmentizeIfOpen_state (s u : Tcb) (h : Tcb.segmentizeIfOpen s = .ok u) :
    u.state = s.state ∧ u.incoming = s.incoming := by
  unfold Tcb.segmentizeIfOpen at h
  repeat' (split at h)
  all_goals first
    | (cases h; done)
    | (cases h; exact ⟨rfl, rfl⟩)
    | exact segmentize_state _ _ _ _ _ h

theorem segments_eq (s : Tcb) :
    s.segments =
      match Tcb.segmentizeIfOpen (clearOneshot s) with
      | .error e => .error e
      | .ok u1 =>
        match Tcb.finIfPending s.finPending u1 with
        | .error e => .error e
        | .ok u =>
          .ok (markSent u ((s.outgoing.oneshot.map fun h => (⟨h, []⟩ : Segment)) ++
                  (u.outgoing.retransmit.filter (·.needsTransmit)).map (·.segment)).isEmpty,
               (s.outgoing.oneshot.map fun h => (⟨h, []⟩ : Segment)) ++
                  (u.outgoing.retransmit.filter (·.needsTransmit)).map (·.segment)) := by
  unfold Tcb.segments clearOneshot markSent
  dsimp only
  cases Tcb.segmentizeIfOpen _ with
  | error e => rfl
  | ok u1 =>
    dsimp only
    cases Tcb.finIfPending _ _ <;> rfl

theorem shift_segments (s : Tcb) (hq : s.state = .SynSent → s.snd.wnd = 0) :
    (s.shift ka kb).segments = M.shiftOut ka kb s.segments := by
  rw [segments_eq, segments_eq]
  have e0 : clearOneshot (s.shift ka kb) = (clearOneshot s).shift ka kb := rfl
  rw [e0, shift_segmentizeIfOpen ka kb (clearOneshot s) hq, Tcb.shift_finPending]
  cases hu1 : Tcb.segmentizeIfOpen (clearOneshot s) with
  | error e => rfl
  | ok u1 =>
    simp only [shiftE_ok]
    have hst : u1.state = s.state := (segmentizeIfOpen_state _ _ hu1).1
    rw [shift_finIfPending ka kb _ u1 (fun hb => by
      rw [hst]; rcases finPending_state s hb with e | e | e <;> rw [e] <;> decide)]
    cases Tcb.finIfPending s.finPending u1 with
    | error e => rfl
    | ok u =>
      simp only [shiftE_ok, M.shiftOut]
      have e1 : ((s.shift ka kb).outgoing.oneshot.map fun h => (⟨h, []⟩ : Segment)) ++
          ((u.shift ka kb).outgoing.retransmit.filter (·.needsTransmit)).map (·.segment) =
          ((s.outgoing.oneshot.map fun h => (⟨h, []⟩ : Segment)) ++
            (u.outgoing.retransmit.filter (·.needsTransmit)).map (·.segment)).map (Segment.shift ka kb) := by
        simp only [Tcb.shift_oneshot, Tcb.shift_retransmit, List.map_append, List.map_map, List.filter_map]
        rfl
      rw [e1, shift_markSent]
      simp only [List.isEmpty_map]

/-! ## outside a connection: CLOSED and LISTEN -/

/-- CLOSED: the RST for a segment that carries an ACK takes its SEQ from that ACK -/
theorem shift_closed (seg : Hdr) (tl : Seq) (h : seg.ctl.rst = true ∨ seg.ctl.ack = true) :
    segmentArrivesClosed (seg.shift kb ka) tl = (segmentArrivesClosed seg tl).map (Hdr.shift ka kb) := by
  unfold segmentArrivesClosed
  rw [Hdr.shift_ctl]
  by_cases hr : seg.ctl.rst = true
  · rw [if_pos hr, if_pos hr]; rfl
  · rw [if_neg hr, if_neg hr]
    have ha : seg.ctl.ack = true := h.resolve_left hr
    rw [if_pos ha, if_pos ha, Hdr.shift_ack_of kb ka seg ha]
    rfl

/-- CLOSED, segment without ACK: RFC 9293 3.10.7.1 prescribes `<SEQ=0><ACK=SEG.SEQ+SEG.LEN>`.
    The ACK moves with the peer's space, the SEQ is the constant 0 whatever the ISNs are: the one
    absolute number TCP puts on the wire by design -/
theorem closed_rst_seq_zero (seg : Hdr) (tl : Seq) (hr : seg.ctl.rst = false) (ha : seg.ctl.ack = false) :
    segmentArrivesClosed (seg.shift kb ka) tl = (segmentArrivesClosed seg tl).map (Hdr.shift 0 kb) ∧
    (segmentArrivesClosed (seg.shift kb ka) tl).map (·.seq) = some 0 := by
  unfold segmentArrivesClosed
  rw [Hdr.shift_ctl, hr, ha]
  simp only [Bool.false_eq_true, if_false, Hdr.shift_seq, Hdr.build_zero, Option.map_some]
  rw [add_right_comm' seg.seq kb tl]
  constructor <;> rfl

def ListenResult.shift (ka kb : Seq) : ListenResult → ListenResult
  | .Tcb t => .Tcb (t.shift ka kb)
  | .Response h => .Response (h.shift ka kb)

def shiftL (ka kb : Seq) (x : Except String (Option ListenResult)) : Except String (Option ListenResult) :=
  match x with
  | .error e => .error e
  | .ok o => .ok (o.map (ListenResult.shift ka kb))

theorem shift_listen (seg : Segment) (iss : Seq) (mtu : U16) :
    segmentArrivesListen (seg.shift kb ka) (iss + ka) mtu = shiftL ka kb (segmentArrivesListen seg iss mtu) := by
  unfold segmentArrivesListen
  simp only [Segment.shift_hdr, Hdr.shift_ctl, Segment.shift_text]
  by_cases hr : seg.hdr.ctl.rst = true
  · simp only [hr, if_true]; rfl
  · simp only [hr, if_false, Bool.false_eq_true]
    by_cases ha : seg.hdr.ctl.ack = true
    · simp only [ha, if_true, Hdr.shift_ack_of kb ka seg.hdr ha, Hdr.build_zero, Option.map_some, shiftL]
      rfl
    · have ha' : seg.hdr.ctl.ack = false := by simpa using ha
      simp only [ha', if_false, Bool.false_eq_true]
      by_cases hsyn : seg.hdr.ctl.syn = true
      · simp only [hsyn, if_true, Tcb.enqueue_eq, Hdr.shift_seq, Hdr.shift_ack_of_not kb ka seg.hdr ha', Hdr.shift_wnd,
          Hdr.shift_srcPort, Hdr.shift_dstPort, shiftL, Option.map_some, ListenResult.shift]
        rw [add_right_comm' iss ka 1, add_right_comm' seg.hdr.seq kb 1]
        rfl
      · simp only [hsyn, if_false, Bool.false_eq_true]; rfl

end Elvis.Tcp
