import Driver.Common
/-! Line-protocol handlers for C12 (sub-commands `c12` / `c12-*`). -/
namespace Driver.C12

def dispatch (_sub : String) (_i _o : IO.FS.Stream) : Option (IO Unit) := none

end Driver.C12
