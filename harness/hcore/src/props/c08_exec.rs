//! Executor shared by C08 / C14a / C18 for the IPv4, UDP and TCP codecs: one op line in, the
//! real code's canonical answer out, plus the property oracle (written against `c08_ref`, the
//! independent RFC implementation, and `etherparse`).  Every op line is self-contained, so
//! `--replay` re-runs the oracle too.
use super::c08_ref as rf;
use elvis_core::protocols::ipv4::ipv4_parsing as ip;
use elvis_core::protocols::ipv4::Ipv4Address;
use elvis_core::protocols::tcp::verif as tcp;
use elvis_core::protocols::udp::verif as udp;
use elvis_core::protocols::verif_utility::Checksum;
use hcommon::{catch, source_line_text, Out, PanicInfo};

/// lowercase hex, `-` for empty (payloads reach 64 KiB: table driven, not `write!` per byte)
pub fn hex(b: &[u8]) -> String {
    if b.is_empty() {
        return "-".into();
    }
    const D: &[u8; 16] = b"0123456789abcdef";
    let mut s = Vec::with_capacity(b.len() * 2);
    for x in b {
        s.push(D[(x >> 4) as usize]);
        s.push(D[(x & 15) as usize]);
    }
    String::from_utf8(s).unwrap()
}

pub fn unhex(s: &str) -> Vec<u8> {
    if s == "-" {
        return vec![];
    }
    let v = |c: u8| -> u8 {
        match c {
            b'0'..=b'9' => c - b'0',
            b'a'..=b'f' => c - b'a' + 10,
            _ => 0,
        }
    };
    s.as_bytes().chunks(2).filter(|c| c.len() == 2).map(|c| v(c[0]) << 4 | v(c[1])).collect()
}

/// Which property the run belongs to: the clause "re-encoding reproduces the consumed bytes" is
/// C08's; the C14 / C18 runs evaluate their own clauses (no panic; checksum acceptance and
/// detection) and leave that one to C08, so that a C08 finding is reported under C08 only.
pub static REENCODE_ORACLE: std::sync::atomic::AtomicBool = std::sync::atomic::AtomicBool::new(true);
fn reencode_oracle() -> bool {
    REENCODE_ORACLE.load(std::sync::atomic::Ordering::Relaxed)
}

/// is the code under test built with `compute_checksum`?
pub const CK: bool = cfg!(feature = "compute_checksum");

fn num<T: std::str::FromStr>(s: &str) -> Option<T> {
    s.parse::<T>().ok()
}

/// outcome class of an answer line, for the histogram: `ok`, `err_<Kind>`, `panic`
pub fn kind(res: &str) -> String {
    let mut w = res.split(' ');
    match w.next() {
        Some("ok") => "ok".into(),
        Some("err") => format!("err_{}", w.next().unwrap_or("")),
        Some(x) if x.starts_with("panic") => "panic".into(),
        _ => "other".into(),
    }
}

fn addr(v: u32) -> Ipv4Address {
    Ipv4Address::from(v)
}

/// canonical name of a caught panic: site by file + source-line text, never line numbers
pub fn panic_name(p: &PanicInfo) -> String {
    let text = source_line_text(&p.file, p.line);
    let f = p.file.rsplit('/').next().unwrap_or("");
    if f == "ipv4_parsing.rs" && text.contains("self.total_length - BASE_OCTETS") {
        "panic:sub-overflow:Ipv4Header::serialize".into()
    } else if f == "udp_parsing.rs" && text.contains("text_len + HEADER_OCTETS as usize") {
        "panic:add-overflow:build_udp_header".into()
    } else if f == "tcp_parsing.rs" && text.contains("text_len + BASE_HEADER_OCTETS as usize") {
        "panic:add-overflow:TcpHeaderBuilder::build".into()
    } else if f == "tcp_parsing.rs" && text.contains("self.data_offset * 4") {
        "panic:mul-overflow:TcpHeader::bytes".into()
    } else if f == "ipv4_parsing.rs" && text.contains("(self.0 >> 5).try_into().unwrap()") {
        "panic:unwrap:TypeOfService::precedence".into()
    } else if f == "ipv4_parsing.rs" && text.contains("((self.0 >> 4) & 0b1).try_into().unwrap()") {
        "panic:unwrap:TypeOfService::delay".into()
    } else if f == "ipv4_parsing.rs" && text.contains("((self.0 >> 3) & 0b1).try_into().unwrap()") {
        "panic:unwrap:TypeOfService::throughput".into()
    } else if f == "ipv4_parsing.rs" && text.contains("((self.0 >> 2) & 0b1).try_into().unwrap()") {
        "panic:unwrap:TypeOfService::reliability".into()
    } else {
        format!("panic:other:{}:{}", f, text.replace(' ', "_"))
    }
}

/// identity of a panic as an oracle failure (function-free: file + line text)
fn panic_ident(p: &PanicInfo) -> String {
    format!("panic {} {}", p.file.rsplit('/').next().unwrap_or(""), source_line_text(&p.file, p.line))
}

// ------------------------------------------------------------------------------------------
// IPv4
// ------------------------------------------------------------------------------------------

fn ip_perr(e: &ip::ParseError) -> String {
    use ip::ParseError as E;
    match e {
        E::HeaderTooShort => "err HeaderTooShort".into(),
        E::UsedReservedTos => "err UsedReservedTos".into(),
        E::IncorrectIpv4Version => "err IncorrectIpv4Version".into(),
        E::UsedReservedFlag => "err UsedReservedFlag".into(),
        E::InvalidHeaderLength => "err InvalidHeaderLength".into(),
        E::InvalidTotalLength => "err InvalidTotalLength".into(),
        E::Checksum { expected, actual } => format!("err Checksum expected={} actual={}", expected, actual),
        other => format!("err Other:{}", format!("{:?}", other).split(|c: char| !c.is_alphanumeric()).next().unwrap_or("")),
    }
}

fn ip_berr(e: &ip::HeaderBuildError) -> String {
    match e {
        ip::HeaderBuildError::OverlyLongPayload => "err OverlyLongPayload".into(),
        ip::HeaderBuildError::OverlyLongFragmentOffset => "err OverlyLongFragmentOffset".into(),
    }
}

fn ip_hdr_str(h: &ip::Ipv4Header) -> String {
    format!(
        "{} {} {} {} {} {} {} {} {} {} {}",
        h.ihl,
        h.type_of_service.as_u8(),
        h.total_length,
        h.identification,
        h.fragment_offset,
        h.flags.as_u8(),
        h.time_to_live,
        h.protocol,
        h.checksum,
        h.source.to_u32(),
        h.destination.to_u32()
    )
}

/// builder inputs: tos payload_len id fo flags ttl proto src dst
#[derive(Clone, Copy, Debug)]
pub struct Ip4B {
    pub tos: u8,
    pub plen: u16,
    pub id: u16,
    pub fo: u16,
    pub flags: u8,
    pub ttl: u8,
    pub proto: u8,
    pub src: u32,
    pub dst: u32,
}

impl Ip4B {
    pub fn parse(w: &[&str]) -> Option<Ip4B> {
        if w.len() != 9 {
            return None;
        }
        Some(Ip4B {
            tos: num(w[0])?,
            plen: num(w[1])?,
            id: num(w[2])?,
            fo: num(w[3])?,
            flags: num(w[4])?,
            ttl: num(w[5])?,
            proto: num(w[6])?,
            src: num(w[7])?,
            dst: num(w[8])?,
        })
    }
    pub fn line(&self) -> String {
        format!("{} {} {} {} {} {} {} {} {}", self.tos, self.plen, self.id, self.fo, self.flags, self.ttl, self.proto, self.src, self.dst)
    }
    /// a header the RFC can represent and the decoder must accept
    pub fn representable(&self) -> bool {
        self.tos & 3 == 0 && (self.plen as u32) + 20 <= 65535 && self.fo <= 0x1fff && self.flags < 4
    }
    /// the RFC 791 bytes for these values; checksum per RFC 1071 when `with_ck`, else zero
    pub fn reference_bytes(&self, with_ck: bool) -> Vec<u8> {
        let t = self.tos as u64;
        let mut vals: Vec<u64> = vec![
            4,
            5,
            t >> 5,
            (t >> 4) & 1,
            (t >> 3) & 1,
            (t >> 2) & 1,
            t & 3,
            self.plen as u64 + 20,
            self.id as u64,
            (self.flags as u64 >> 2) & 1,
            (self.flags as u64 >> 1) & 1,
            self.flags as u64 & 1,
            self.fo as u64,
            self.ttl as u64,
            self.proto as u64,
            0,
            self.src as u64,
            self.dst as u64,
        ];
        let b = rf::pack(&rf::IPV4_WIDTHS, &vals);
        if with_ck {
            vals[15] = rf::checksum(&b) as u64;
            rf::pack(&rf::IPV4_WIDTHS, &vals)
        } else {
            b
        }
    }
    fn etherparse(&self) -> etherparse::Ipv4Header {
        let mut h = etherparse::Ipv4Header::new(self.plen, self.ttl, etherparse::IpNumber::Udp, self.src.to_be_bytes(), self.dst.to_be_bytes());
        h.protocol = self.proto;
        h.differentiated_services_code_point = self.tos >> 2;
        h.explicit_congestion_notification = self.tos & 3;
        h.identification = self.id;
        h.dont_fragment = self.flags & 2 != 0;
        h.more_fragments = self.flags & 1 != 0;
        h.fragments_offset = self.fo;
        h
    }
    fn build(&self) -> Result<Result<Vec<u8>, ip::HeaderBuildError>, PanicInfo> {
        let b = *self;
        catch(move || ip::verif_build_header(b.tos, b.plen, b.id, b.fo, b.flags, b.ttl, b.proto, addr(b.src), addr(b.dst)))
    }
}

/// oracle for bytes the IPv4 encoder emitted for representable inputs
fn ip4_check_emitted(b: &Ip4B, bytes: &[u8], out: &mut Out, what: &str) {
    let refb = b.reference_bytes(CK);
    if CK {
        // C18: the emitted checksum verifies under RFC 1071 and denotes the reference value
        if bytes.len() != 20 || bytes[..10] != refb[..10] || bytes[12..] != refb[12..] {
            out.fail(&format!("{}: ipv4 encoder emitted {} but RFC 791 packing of the same values is {}", what, hex(bytes), hex(&refb)), "ipv4 encode differs from RFC 791");
            return;
        }
        if !rf::verifies(bytes) {
            out.fail(&format!("{}: ipv4 header {} does not verify under RFC 1071", what, hex(bytes)), "ipv4 emitted checksum does not verify");
        }
        let (e, r) = (u16::from_be_bytes([bytes[10], bytes[11]]), u16::from_be_bytes([refb[10], refb[11]]));
        if e != r {
            out.count("ip4.emitted_other_zero_representation");
            if !rf::same_value(e, r) {
                out.fail(&format!("{}: ipv4 checksum {:#06x} but RFC 1071 gives {:#06x}", what, e, r), "ipv4 emitted checksum wrong value");
            }
        }
        if let Ok(c) = b.etherparse().calc_header_checksum() {
            if !rf::same_value(c, e) {
                out.fail(&format!("{}: ipv4 checksum {:#06x} but etherparse computes {:#06x}", what, e, c), "ipv4 emitted checksum differs from etherparse");
            }
        }
    } else {
        if bytes != &refb[..] {
            out.fail(&format!("{}: ipv4 encoder emitted {} but RFC 791 packing of the same values (checksum zeroed) is {}", what, hex(bytes), hex(&refb)), "ipv4 encode differs from RFC 791");
        }
        let mut eb = vec![];
        let mut eh = b.etherparse();
        eh.header_checksum = 0;
        if eh.write_raw(&mut eb).is_ok() && eb != bytes {
            out.fail(&format!("{}: ipv4 encoder emitted {} but etherparse writes {}", what, hex(bytes), hex(&eb)), "ipv4 encode differs from etherparse");
        }
    }
}

/// `ip4build <b>` -> `ok <hex>` | `err <Kind>`
pub fn op_ip4build(w: &[&str], line: &str, out: &mut Out) {
    let Some(b) = Ip4B::parse(w) else { return out.line(line, "bad-op") };
    let res = match b.build() {
        Ok(Ok(bytes)) => {
            if b.representable() {
                ip4_check_emitted(&b, &bytes, out, line);
            }
            format!("ok {}", hex(&bytes))
        }
        Ok(Err(e)) => {
            if b.representable() {
                out.fail(&format!("`{}`: builder refused representable values: {:?}", line, e), "ipv4 build refuses representable header");
            }
            ip_berr(&e)
        }
        Err(p) => {
            out.fail(&format!("`{}`: builder panicked: {}", line, p.msg), &panic_ident(&p));
            panic_name(&p)
        }
    };
    out.count(&format!("ip4build.{}", kind(&res)));
    out.line(line, &res);
}

/// decode + re-serialise (what a router does); returns the canonical answer
fn ip4_decode_answer(bytes: &[u8], line: &str, out: &mut Out) -> (String, bool) {
    let data = bytes.to_vec();
    let dec = catch(move || ip::Ipv4Header::from_bytes(data.iter().cloned()));
    let refv = rf::unpack(&rf::IPV4_WIDTHS, bytes);
    // reference verdict on the first 20 bytes
    let ref_valid = refv.as_ref().map_or(false, |v| {
        v[0] == 4 && v[1] == 5 && v[6] == 0 && v[9] == 0 && v[7] >= 20 && if CK { rf::verifies(&bytes[..20]) } else { v[15] == 0 }
    });
    match dec {
        Err(p) => {
            out.fail(&format!("`{}`: Ipv4Header::from_bytes panicked: {}", line, p.msg), &panic_ident(&p));
            (panic_name(&p), false)
        }
        Ok(Err(e)) => {
            if ref_valid {
                let v = refv.unwrap();
                if CK && v[15] == 0 {
                    out.fail(&format!("`{}`: a header whose RFC 1071 checksum is 0x0000 (sum 0xffff) is rejected: {:?}", line, e), "ipv4 rejects reference checksum 0x0000");
                } else {
                    out.fail(&format!("`{}`: a valid RFC 791 header is rejected: {:?}", line, e), "ipv4 rejects valid header");
                }
            }
            (ip_perr(&e), false)
        }
        Ok(Ok(h)) => {
            let v = refv.clone().unwrap_or_default();
            let fields_ok = v.len() == 18
                && h.ihl as u64 == v[1]
                && h.type_of_service.as_u8() as u64 == (v[2] << 5 | v[3] << 4 | v[4] << 3 | v[5] << 2 | v[6])
                && h.total_length as u64 == v[7]
                && h.identification as u64 == v[8]
                && h.flags.as_u8() as u64 == (v[9] << 2 | v[10] << 1 | v[11])
                && h.flags.may_fragment() == (v[10] == 0)
                && h.flags.is_last_fragment() == (v[11] == 0)
                && h.fragment_offset as u64 == v[12]
                && h.time_to_live as u64 == v[13]
                && h.protocol as u64 == v[14]
                && h.checksum as u64 == v[15]
                && h.source.to_u32() as u64 == v[16]
                && h.destination.to_u32() as u64 == v[17];
            if !fields_ok {
                out.fail(&format!("`{}`: decoded {} but the RFC 791 fields of these bytes are {:?}", line, ip_hdr_str(&h), v), "ipv4 decoded fields differ from RFC 791");
            }
            if CK && bytes.len() >= 20 && !rf::verifies(&bytes[..20]) {
                out.fail(&format!("`{}`: header accepted although its RFC 1071 sum is not 0xffff", line), "ipv4 accepts non-verifying checksum");
            }
            if let Ok((eh, _)) = etherparse::Ipv4Header::from_slice(bytes) {
                if eh.identification != h.identification || eh.fragments_offset != h.fragment_offset || eh.total_len() != h.total_length
                    || eh.dont_fragment == h.flags.may_fragment() || eh.more_fragments == h.flags.is_last_fragment()
                    || eh.time_to_live != h.time_to_live || eh.protocol != h.protocol || eh.source != h.source.to_bytes() || eh.destination != h.destination.to_bytes()
                {
                    out.fail(&format!("`{}`: decoded {} but etherparse reads {:?}", line, ip_hdr_str(&h), eh), "ipv4 decoded fields differ from etherparse");
                }
            }
            // re-serialise: must reproduce the consumed 20 bytes, must not panic
            let re = match catch(move || h.serialize()) {
                Ok(Ok(b2)) => {
                    if reencode_oracle() && b2 != bytes[..20.min(bytes.len())] {
                        let only_ck = b2.len() == 20 && bytes.len() >= 20 && b2[..10] == bytes[..10] && b2[12..] == bytes[12..20];
                        if CK && only_ck {
                            out.count("ip4.reencode_other_zero_representation");
                        } else {
                            out.fail(&format!("`{}`: accepted, but re-serialising gives {} instead of the consumed bytes", line, hex(&b2)), "ipv4 reencode differs");
                        }
                    }
                    format!("re={}", hex(&b2))
                }
                Ok(Err(e)) => {
                    out.fail(&format!("`{}`: accepted, but re-serialising fails: {:?}", line, e), "ipv4 reencode fails");
                    format!("re={}", ip_berr(&e).replace(' ', ":"))
                }
                Err(p) => {
                    out.fail(&format!("`{}`: accepted (total_length {}), but re-serialising panics: {}", line, h.total_length, p.msg), &panic_ident(&p));
                    format!("re={}", panic_name(&p))
                }
            };
            (format!("ok {} {}", ip_hdr_str(&h), re), true)
        }
    }
}

/// `ip4dec <hex>` -> `ok <hdr> re=<hex>` | `err <Kind>`
pub fn op_ip4dec(w: &[&str], line: &str, out: &mut Out) {
    if w.len() != 1 {
        return out.line(line, "bad-op");
    }
    let bytes = unhex(w[0]);
    let (res, _) = ip4_decode_answer(&bytes, line, out);
    out.count(&format!("ip4dec.{}", kind(&res)));
    out.line(line, &res);
}

/// `ip4rt <b> <payload hex>`: build, append payload, decode -> `ok <hdr>`; oracle: same fields
pub fn op_ip4rt(w: &[&str], line: &str, out: &mut Out) {
    if w.len() != 10 {
        return out.line(line, "bad-op");
    }
    let Some(b) = Ip4B::parse(&w[..9]) else { return out.line(line, "bad-op") };
    let payload = unhex(w[9]);
    let res = match b.build() {
        Ok(Ok(mut bytes)) => {
            bytes.extend_from_slice(&payload);
            let data = bytes.clone();
            match catch(move || ip::Ipv4Header::from_bytes(data.iter().cloned())) {
                Ok(Ok(h)) => {
                    let same = h.ihl == 5 && h.type_of_service.as_u8() == b.tos && h.total_length as u32 == b.plen as u32 + 20 && h.identification == b.id
                        && h.fragment_offset == b.fo && h.flags.as_u8() == b.flags && h.time_to_live == b.ttl && h.protocol == b.proto
                        && h.source.to_u32() == b.src && h.destination.to_u32() == b.dst;
                    if !same {
                        out.fail(&format!("`{}`: decode(encode(h) ++ payload) = {} differs from h", line, ip_hdr_str(&h)), "ipv4 decode-encode differs");
                    }
                    format!("ok {}", ip_hdr_str(&h))
                }
                Ok(Err(e)) => {
                    if b.representable() {
                        out.fail(&format!("`{}`: decoder rejects the encoder's own output: {:?}", line, e), "ipv4 decode rejects own encoding");
                    }
                    ip_perr(&e)
                }
                Err(p) => {
                    out.fail(&format!("`{}`: decoder panicked: {}", line, p.msg), &panic_ident(&p));
                    panic_name(&p)
                }
            }
        }
        Ok(Err(e)) => ip_berr(&e),
        Err(p) => panic_name(&p),
    };
    out.count("ip4rt");
    out.line(line, &res);
}

/// `ip4ser ihl tos tl id fo flags ttl proto cksum src dst` -> `ok <hex>` | `err` | `panic`
pub fn op_ip4ser(w: &[&str], line: &str, out: &mut Out) {
    if w.len() != 11 {
        return out.line(line, "bad-op");
    }
    let (Some(ihl), Some(tos), Some(tl), Some(id), Some(fo), Some(fl), Some(ttl), Some(proto), Some(ck), Some(src), Some(dst)) = (
        num::<u8>(w[0]), num::<u8>(w[1]), num::<u16>(w[2]), num::<u16>(w[3]), num::<u16>(w[4]), num::<u8>(w[5]), num::<u8>(w[6]), num::<u8>(w[7]), num::<u16>(w[8]), num::<u32>(w[9]), num::<u32>(w[10]),
    ) else {
        return out.line(line, "bad-op");
    };
    let h = ip::Ipv4Header {
        ihl,
        type_of_service: tos.into(),
        total_length: tl,
        identification: id,
        fragment_offset: fo,
        flags: fl.into(),
        time_to_live: ttl,
        protocol: proto,
        checksum: ck,
        source: addr(src),
        destination: addr(dst),
    };
    let res = match catch(move || h.serialize()) {
        Ok(Ok(bytes)) => {
            let b = Ip4B { tos, plen: tl.wrapping_sub(20), id, fo, flags: fl, ttl, proto, src, dst };
            if tl >= 20 && b.representable() {
                ip4_check_emitted(&b, &bytes, out, line);
            }
            format!("ok {}", hex(&bytes))
        }
        Ok(Err(e)) => ip_berr(&e),
        Err(p) => {
            out.count("ip4ser.panic");
            panic_name(&p)
        }
    };
    out.count("ip4ser");
    out.line(line, &res);
}

/// `ip4tos <byte>` -> accessor values; `ip4tosnew p d t r` -> byte; `ip4flags may last`
pub fn op_ip4misc(op: &str, w: &[&str], line: &str, out: &mut Out) {
    let res = match (op, w) {
        ("ip4tos", [t]) => {
            let Some(t) = num::<u8>(t) else { return out.line(line, "bad-op") };
            let tos = ip::TypeOfService::from(t);
            match catch(move || (tos.precedence() as u8, tos.delay() as u8, tos.throughput() as u8, tos.reliability() as u8)) {
                Ok((p, d, th, r)) => {
                    if (p, d, th, r) != (t >> 5, (t >> 4) & 1, (t >> 3) & 1, (t >> 2) & 1) {
                        out.fail(&format!("`{}`: accessors give {} {} {} {} (RFC 791 bit positions differ)", line, p, d, th, r), "ipv4 tos accessor wrong bits");
                    }
                    format!("ok {} {} {} {}", p, d, th, r)
                }
                Err(p) => {
                    out.fail(&format!("`{}`: TypeOfService accessor panicked: {}", line, p.msg), &panic_ident(&p));
                    panic_name(&p)
                }
            }
        }
        ("ip4tosnew", [p, d, t, r]) => {
            let (Some(p), Some(d), Some(t), Some(r)) = (num::<u8>(p), num::<u8>(d), num::<u8>(t), num::<u8>(r)) else { return out.line(line, "bad-op") };
            let (Ok(pe), Ok(de), Ok(te), Ok(re)) = (ip::Precedence::try_from(p), ip::Delay::try_from(d), ip::Throughput::try_from(t), ip::Reliability::try_from(r)) else {
                return out.line(line, "bad-op");
            };
            let v = ip::TypeOfService::new(pe, de, te, re).as_u8();
            if v != (p << 5 | d << 4 | t << 3 | r << 2) {
                out.fail(&format!("`{}`: TypeOfService::new gives {:#04x}", line, v), "ipv4 tos new wrong bits");
            }
            format!("ok {}", v)
        }
        ("ip4flags", [m, l]) => {
            let (may, last) = (*m == "1", *l == "1");
            let f = ip::ControlFlags::new(may, last);
            let v = f.as_u8();
            // RFC 791: bit 1 = DF (don't fragment), bit 0 of the 3-bit field = MF (more fragments)
            if v != (((!may) as u8) << 1 | (!last) as u8) || f.may_fragment() != may || f.is_last_fragment() != last {
                out.fail(&format!("`{}`: ControlFlags::new gives {:#05b}", line, v), "ipv4 flags new wrong bits");
            }
            format!("ok {} {} {}", v, f.may_fragment() as u8, f.is_last_fragment() as u8)
        }
        _ => return out.line(line, "bad-op"),
    };
    out.count(op);
    out.line(line, &res);
}

/// `ip4flip <bits,..> <hex>`: decode the packet with the given bits flipped.
/// Oracle (checksums on): a corruption of an accepted header that changes the one's-complement
/// sum must be rejected; a single-bit corruption always.
pub fn op_ip4flip(w: &[&str], line: &str, out: &mut Out) {
    if w.len() != 2 {
        return out.line(line, "bad-op");
    }
    let bits: Vec<usize> = w[0].split(',').filter_map(|s| s.parse().ok()).collect();
    let orig = unhex(w[1]);
    let mut bytes = orig.clone();
    for b in &bits {
        rf::flip(&mut bytes, *b);
    }
    let o2 = orig.clone();
    let orig_ok = matches!(catch(move || ip::Ipv4Header::from_bytes(o2.iter().cloned())), Ok(Ok(_)));
    // the plain decode oracle applies to the corrupted bytes too
    let (res, accepted) = ip4_decode_answer(&bytes, line, out);
    if CK && orig_ok && orig.len() >= 20 && bytes != orig {
        let in_header = bits.iter().all(|b| *b < 160);
        let changed = rf::word_sum(&orig[..20]) % 65535 != rf::word_sum(&bytes[..20]) % 65535;
        let distinct: std::collections::BTreeSet<usize> = bits.iter().cloned().collect();
        if in_header && accepted && (changed || distinct.len() == 1) {
            out.fail(&format!("`{}`: corrupted header accepted although its one's-complement sum changed", line), "ipv4 accepts detectable corruption");
        }
        if in_header && distinct.len() == 2 && bits.len() == 2 {
            // exact characterisation of undetectable double flips
            let (a, b) = (bits[0], bits[1]);
            let bit_of = |v: &[u8], i: usize| (v[i / 8] >> (7 - i % 8)) & 1;
            let cancels = a % 16 == b % 16 && a / 16 != b / 16 && bit_of(&orig, a) != bit_of(&orig, b);
            if cancels == changed {
                out.fail(&format!("`{}`: double flip: sum changed = {} but characterisation says cancels = {}", line, changed, cancels), "double-bit characterisation wrong");
            }
            out.count(if cancels { "ip4flip.double_cancelling" } else { "ip4flip.double_detectable" });
        }
    }
    out.count(&format!("ip4flip.{}bit", bits.len().min(3)));
    out.line(line, &res);
}

// ------------------------------------------------------------------------------------------
// Checksum accumulator
// ------------------------------------------------------------------------------------------

/// `cksum <item>...` with items `h:<u16>` (add_u16) `b:<a>:<b>` (add_u8) `w:<u32>` (add_u32)
/// `r:<hex>` (accumulate_remainder) -> `raw=<acc> as=<as_u16>`
pub fn op_cksum(w: &[&str], line: &str, out: &mut Out) {
    let mut c = Checksum::new();
    let mut data: Vec<u8> = vec![];
    for it in w {
        let p: Vec<&str> = it.split(':').collect();
        match p.as_slice() {
            ["h", v] => {
                let Some(v) = num::<u16>(v) else { return out.line(line, "bad-op") };
                c.add_u16(v);
                data.extend_from_slice(&v.to_be_bytes());
            }
            ["b", a, b] => {
                let (Some(a), Some(b)) = (num::<u8>(a), num::<u8>(b)) else { return out.line(line, "bad-op") };
                c.add_u8(a, b);
                data.push(a);
                data.push(b);
            }
            ["w", v] => {
                let Some(v) = num::<u32>(v) else { return out.line(line, "bad-op") };
                c.add_u32(v.to_be_bytes());
                data.extend_from_slice(&v.to_be_bytes());
            }
            ["r", h] => {
                let b = unhex(h);
                c.accumulate_remainder(b.iter().cloned());
                data.extend_from_slice(&b);
                if b.len() % 2 == 1 {
                    data.push(0);
                }
            }
            _ => return out.line(line, "bad-op"),
        }
    }
    let (raw, as16) = (c.verif_raw(), c.as_u16());
    if CK {
        let s = rf::word_sum(&data);
        if raw != rf::fold(s) {
            out.fail(&format!("`{}`: accumulator {:#06x} but the folded sum of the words is {:#06x}", line, raw, rf::fold(s)), "checksum accumulator differs from RFC 1071 sum");
        }
        if !rf::same_value(as16, rf::checksum(&data)) {
            out.fail(&format!("`{}`: as_u16 {:#06x} but RFC 1071 checksum is {:#06x}", line, as16, rf::checksum(&data)), "checksum value differs from RFC 1071");
        }
        let mut all = data.clone();
        all.extend_from_slice(&as16.to_be_bytes());
        if !rf::verifies(&all) {
            out.fail(&format!("`{}`: data followed by as_u16 {:#06x} does not verify", line, as16), "checksum does not verify");
        }
        if raw == 0xffff {
            out.count("cksum.sum_ffff");
        }
        if raw == 0 {
            out.count("cksum.sum_0000");
        }
    } else if raw != 0 || as16 != 0 {
        out.fail(&format!("`{}`: checksums are compiled out but accumulator={} as_u16={}", line, raw, as16), "checksum not compiled out");
    }
    out.count("cksum");
    out.line(line, &format!("raw={} as={}", raw, as16));
}

// ------------------------------------------------------------------------------------------
// UDP
// ------------------------------------------------------------------------------------------

fn udp_perr(e: &udp::ParseError) -> String {
    match e {
        udp::ParseError::HeaderTooShort => "err HeaderTooShort".into(),
        udp::ParseError::LengthMismatch => "err LengthMismatch".into(),
        udp::ParseError::Checksum { actual, expected } => format!("err Checksum expected={} actual={}", expected, actual),
    }
}

fn udp_build(src: u32, sport: u16, dst: u32, dport: u16, text: &[u8], text_len: usize) -> Result<Result<Vec<u8>, udp::BuildHeaderError>, PanicInfo> {
    let t = text.to_vec();
    catch(move || udp::build_udp_header(addr(src), sport, addr(dst), dport, t.iter().cloned(), text_len))
}

/// RFC 768 bytes for these values; checksum over pseudo header + header + text when `with_ck`
pub fn udp_reference(src: u32, sport: u16, dst: u32, dport: u16, text: &[u8], with_ck: bool) -> Vec<u8> {
    let len = (text.len() + 8) as u64;
    let mut h = rf::pack(&rf::UDP_WIDTHS, &[sport as u64, dport as u64, len, 0]);
    if with_ck {
        let mut seg = h.clone();
        seg.extend_from_slice(text);
        let mut c = rf::checksum(&rf::with_pseudo(src, dst, 17, len as u16, &seg));
        if c == 0 {
            // RFC 768: a computed checksum of zero is transmitted as all ones
            c = 0xffff;
        }
        h = rf::pack(&rf::UDP_WIDTHS, &[sport as u64, dport as u64, len, c as u64]);
    }
    h
}

fn udp_check_emitted(src: u32, sport: u16, dst: u32, dport: u16, text: &[u8], bytes: &[u8], line: &str, out: &mut Out) {
    let refb = udp_reference(src, sport, dst, dport, text, CK);
    if bytes != &refb[..] {
        out.fail(&format!("`{}`: udp encoder emitted {} but RFC 768 gives {}", short(line), hex(bytes), hex(&refb)), "udp encode differs from RFC 768");
    }
    let eh = if CK {
        etherparse::UdpHeader { source_port: sport, destination_port: dport, length: (text.len() + 8) as u16, checksum: 0 }
            .calc_checksum_ipv4_raw(src.to_be_bytes(), dst.to_be_bytes(), text)
            .ok()
            .map(|c| etherparse::UdpHeader { source_port: sport, destination_port: dport, length: (text.len() + 8) as u16, checksum: c })
    } else {
        etherparse::UdpHeader::without_ipv4_checksum(sport, dport, text.len()).ok()
    };
    if let Some(eh) = eh {
        if eh.to_bytes() != bytes {
            out.fail(&format!("`{}`: udp encoder emitted {} but etherparse writes {}", short(line), hex(bytes), hex(&eh.to_bytes())), "udp encode differs from etherparse");
        }
    }
    if CK {
        let mut seg = bytes.to_vec();
        seg.extend_from_slice(text);
        if !rf::verifies(&rf::with_pseudo(src, dst, 17, (text.len() + 8) as u16, &seg)) {
            out.fail(&format!("`{}`: emitted udp datagram does not verify under RFC 1071", short(line)), "udp emitted checksum does not verify");
        }
    }
}

/// long op lines are abbreviated inside failure texts (the replay file carries the full ops)
fn short(line: &str) -> String {
    if line.len() > 300 {
        format!("{} …({} chars)", &line[..300], line.len())
    } else {
        line.to_string()
    }
}

/// `udpbuild src sport dst dport textlen <text hex>` -> `ok <hex>` | `err` | `panic`
pub fn op_udpbuild(w: &[&str], line: &str, out: &mut Out) {
    if w.len() != 6 {
        return out.line(line, "bad-op");
    }
    let (Some(src), Some(sport), Some(dst), Some(dport), Some(tl)) = (num::<u32>(w[0]), num::<u16>(w[1]), num::<u32>(w[2]), num::<u16>(w[3]), num::<usize>(w[4])) else {
        return out.line(line, "bad-op");
    };
    let text = unhex(w[5]);
    let res = match udp_build(src, sport, dst, dport, &text, tl) {
        Ok(Ok(b)) => {
            if tl == text.len() {
                udp_check_emitted(src, sport, dst, dport, &text, &b, line, out);
            }
            format!("ok {}", hex(&b))
        }
        Ok(Err(udp::BuildHeaderError::OverlyLongPayload)) => {
            if tl + 8 <= 65535 {
                out.fail(&format!("`{}`: builder refuses a payload that fits", short(line)), "udp build refuses representable datagram");
            }
            "err OverlyLongPayload".into()
        }
        Err(p) => {
            out.count("udpbuild.panic");
            panic_name(&p)
        }
    };
    out.count(&format!("udpbuild.{}", kind(&res)));
    out.line(line, &res);
}

fn udp_decode_answer(bytes: &[u8], plen: usize, src: u32, dst: u32, line: &str, out: &mut Out) -> (String, bool) {
    let data = bytes.to_vec();
    let dec = catch(move || udp::UdpHeader::from_bytes_ipv4(data.iter().cloned(), plen, addr(src), addr(dst)));
    let refv = rf::unpack(&rf::UDP_WIDTHS, bytes);
    let consistent = plen == bytes.len();
    let verifies = consistent && plen <= 65535 && rf::verifies(&rf::with_pseudo(src, dst, 17, plen as u16, bytes));
    let ref_valid = refv.as_ref().map_or(false, |v| consistent && v[2] as usize == plen && if CK { v[3] != 0 && verifies } else { v[3] == 0 });
    if CK && consistent && refv.as_ref().map_or(false, |v| v[3] == 0) {
        out.count("udp.no_checksum_field");
    }
    match dec {
        Err(p) => {
            out.fail(&format!("`{}`: UdpHeader::from_bytes_ipv4 panicked: {}", short(line), p.msg), &panic_ident(&p));
            (panic_name(&p), false)
        }
        Ok(Err(e)) => {
            if ref_valid {
                out.fail(&format!("`{}`: a valid RFC 768 datagram is rejected: {:?}", short(line), e), "udp rejects valid datagram");
            }
            (udp_perr(&e), false)
        }
        Ok(Ok(h)) => {
            let v = refv.unwrap_or_default();
            if v.len() != 4 || h.source as u64 != v[0] || h.destination as u64 != v[1] || h.length as u64 != v[2] || h.checksum as u64 != v[3] {
                out.fail(&format!("`{}`: decoded {} {} {} {} but the RFC 768 fields are {:?}", short(line), h.source, h.destination, h.length, h.checksum, v), "udp decoded fields differ from RFC 768");
            }
            if h.length as usize != plen {
                out.fail(&format!("`{}`: accepted although length field {} != datagram length {}", short(line), h.length, plen), "udp accepts length mismatch");
            }
            if CK && consistent && !verifies {
                out.fail(&format!("`{}`: datagram accepted although its RFC 1071 sum is not 0xffff", short(line)), "udp accepts non-verifying checksum");
            }
            if let Ok((eh, _)) = etherparse::UdpHeader::from_slice(bytes) {
                if eh.source_port != h.source || eh.destination_port != h.destination || eh.length != h.length || eh.checksum != h.checksum {
                    out.fail(&format!("`{}`: decoded fields differ from etherparse {:?}", short(line), eh), "udp decoded fields differ from etherparse");
                }
            }
            // re-encode from the decoded values and the text that followed the header
            let re = if consistent && bytes.len() >= 8 {
                match udp_build(src, h.source, dst, h.destination, &bytes[8..], bytes.len() - 8) {
                    Ok(Ok(b2)) => {
                        if reencode_oracle() && b2 != bytes[..8] {
                            let only_ck = b2[..6] == bytes[..6];
                            if CK && only_ck && h.checksum == 0 {
                                out.count("udp.reencode_other_zero_representation");
                            } else {
                                out.fail(&format!("`{}`: accepted, but re-encoding gives {} instead of the consumed bytes", short(line), hex(&b2)), "udp reencode differs");
                            }
                        }
                        format!("re={}", hex(&b2))
                    }
                    Ok(Err(_)) => {
                        out.fail(&format!("`{}`: accepted, but re-encoding fails", short(line)), "udp reencode fails");
                        "re=err:OverlyLongPayload".into()
                    }
                    Err(p) => {
                        out.fail(&format!("`{}`: accepted, but re-encoding panics: {}", short(line), p.msg), &panic_ident(&p));
                        format!("re={}", panic_name(&p))
                    }
                }
            } else {
                "re=skip".into()
            };
            (format!("ok {} {} {} {} {}", h.source, h.destination, h.length, h.checksum, re), true)
        }
    }
}

/// `udpdec plen src dst <hex>` -> `ok sport dport len cksum re=<hex>` | `err <Kind>`
pub fn op_udpdec(w: &[&str], line: &str, out: &mut Out) {
    if w.len() != 4 {
        return out.line(line, "bad-op");
    }
    let (Some(plen), Some(src), Some(dst)) = (num::<usize>(w[0]), num::<u32>(w[1]), num::<u32>(w[2])) else { return out.line(line, "bad-op") };
    let bytes = unhex(w[3]);
    let (res, _) = udp_decode_answer(&bytes, plen, src, dst, line, out);
    out.count(&format!("udpdec.{}", kind(&res)));
    out.line(line, &res);
}

/// `udprt src sport dst dport <text hex>`: build, append text, decode -> `ok sport dport len cksum`
pub fn op_udprt(w: &[&str], line: &str, out: &mut Out) {
    if w.len() != 5 {
        return out.line(line, "bad-op");
    }
    let (Some(src), Some(sport), Some(dst), Some(dport)) = (num::<u32>(w[0]), num::<u16>(w[1]), num::<u32>(w[2]), num::<u16>(w[3])) else { return out.line(line, "bad-op") };
    let text = unhex(w[4]);
    let res = match udp_build(src, sport, dst, dport, &text, text.len()) {
        Ok(Ok(mut b)) => {
            b.extend_from_slice(&text);
            let n = b.len();
            match catch(move || udp::UdpHeader::from_bytes_ipv4(b.iter().cloned(), n, addr(src), addr(dst))) {
                Ok(Ok(h)) => {
                    if h.source != sport || h.destination != dport || h.length as usize != n {
                        out.fail(&format!("`{}`: decode(encode(h) ++ text) = {} {} {} differs from h", short(line), h.source, h.destination, h.length), "udp decode-encode differs");
                    }
                    format!("ok {} {} {} {}", h.source, h.destination, h.length, h.checksum)
                }
                Ok(Err(e)) => {
                    out.fail(&format!("`{}`: decoder rejects the encoder's own output: {:?}", short(line), e), "udp decode rejects own encoding");
                    udp_perr(&e)
                }
                Err(p) => {
                    out.fail(&format!("`{}`: decoder panicked: {}", short(line), p.msg), &panic_ident(&p));
                    panic_name(&p)
                }
            }
        }
        Ok(Err(_)) => "err OverlyLongPayload".into(),
        Err(p) => panic_name(&p),
    };
    out.count("udprt");
    out.line(line, &res);
}

/// shared oracle of the `*flip` ops for the pseudo-header protocols
#[allow(clippy::too_many_arguments)]
fn flip_oracle(proto: &str, pnum: u8, bits: &[usize], orig: &[u8], bytes: &[u8], plen: usize, src: u32, dst: u32, orig_ok: bool, accepted: bool, line: &str, out: &mut Out) {
    if !(CK && orig_ok && bytes != orig && plen == orig.len() && plen <= 65535) {
        return;
    }
    let s0 = rf::word_sum(&rf::with_pseudo(src, dst, pnum, plen as u16, orig)) % 65535;
    let s1 = rf::word_sum(&rf::with_pseudo(src, dst, pnum, plen as u16, bytes)) % 65535;
    let changed = s0 != s1;
    let distinct: std::collections::BTreeSet<usize> = bits.iter().cloned().collect();
    if accepted && (changed || distinct.len() == 1) {
        out.fail(&format!("`{}`: corrupted {} packet accepted although its one's-complement sum changed", short(line), proto), &format!("{} accepts detectable corruption", proto));
    }
    if distinct.len() == 2 && bits.len() == 2 {
        let (a, b) = (bits[0], bits[1]);
        let bit_of = |v: &[u8], i: usize| (v[i / 8] >> (7 - i % 8)) & 1;
        let cancels = a % 16 == b % 16 && a / 16 != b / 16 && bit_of(orig, a) != bit_of(orig, b);
        if cancels == changed {
            out.fail(&format!("`{}`: double flip: sum changed = {} but characterisation says cancels = {}", short(line), changed, cancels), "double-bit characterisation wrong");
        }
        out.count(&format!("{}flip.double_{}", proto, if cancels { "cancelling" } else { "detectable" }));
    }
}

/// `udpflip <bits,..> plen src dst <hex>`
pub fn op_udpflip(w: &[&str], line: &str, out: &mut Out) {
    if w.len() != 5 {
        return out.line(line, "bad-op");
    }
    let bits: Vec<usize> = w[0].split(',').filter_map(|s| s.parse().ok()).collect();
    let (Some(plen), Some(src), Some(dst)) = (num::<usize>(w[1]), num::<u32>(w[2]), num::<u32>(w[3])) else { return out.line(line, "bad-op") };
    let orig = unhex(w[4]);
    let mut bytes = orig.clone();
    for b in &bits {
        rf::flip(&mut bytes, *b);
    }
    let o2 = orig.clone();
    let orig_ok = matches!(catch(move || udp::UdpHeader::from_bytes_ipv4(o2.iter().cloned(), plen, addr(src), addr(dst))), Ok(Ok(_)));
    let (res, accepted) = udp_decode_answer(&bytes, plen, src, dst, line, out);
    flip_oracle("udp", 17, &bits, &orig, &bytes, plen, src, dst, orig_ok, accepted, line, out);
    out.count(&format!("udpflip.{}bit", bits.len().min(3)));
    out.line(line, &res);
}

// ------------------------------------------------------------------------------------------
// TCP
// ------------------------------------------------------------------------------------------

fn tcp_perr(e: &tcp::ParseError) -> String {
    match e {
        tcp::ParseError::HeaderTooShort => "err HeaderTooShort".into(),
        tcp::ParseError::PacketTooLong => "err PacketTooLong".into(),
        tcp::ParseError::UnexpectedOptions => "err UnexpectedOptions".into(),
        tcp::ParseError::Checksum { actual, expected } => format!("err Checksum expected={} actual={}", expected, actual),
    }
}

fn tcp_hdr_str(h: &tcp::TcpHeader) -> String {
    format!("{} {} {} {} {} {} {} {} {}", h.src_port, h.dst_port, h.seq, h.ack, h.data_offset, u8::from(h.ctl), h.wnd, h.urg, h.checksum)
}

/// reference state of a TCP header in RFC 9293 terms
#[derive(Clone, Copy, Default, Debug)]
pub struct TcpRef {
    pub sp: u16,
    pub dp: u16,
    pub seq: u32,
    pub ack: u32,
    pub doff: u8,
    pub reserved: u8,
    pub cwr: bool,
    pub ece: bool,
    pub urg: bool,
    pub ackf: bool,
    pub psh: bool,
    pub rst: bool,
    pub syn: bool,
    pub fin: bool,
    pub wnd: u16,
    pub cksum: u16,
    pub urgp: u16,
}

impl TcpRef {
    pub fn values(&self) -> Vec<u64> {
        vec![
            self.sp as u64, self.dp as u64, self.seq as u64, self.ack as u64, self.doff as u64, self.reserved as u64,
            self.cwr as u64, self.ece as u64, self.urg as u64, self.ackf as u64, self.psh as u64, self.rst as u64, self.syn as u64, self.fin as u64,
            self.wnd as u64, self.cksum as u64, self.urgp as u64,
        ]
    }
    pub fn bytes(&self) -> Vec<u8> {
        rf::pack(&rf::TCP_WIDTHS, &self.values())
    }
    /// with the RFC 9293 checksum over pseudo header, header and text
    pub fn with_checksum(mut self, src: u32, dst: u32, text: &[u8]) -> TcpRef {
        self.cksum = 0;
        let mut seg = self.bytes();
        seg.extend_from_slice(text);
        self.cksum = rf::checksum(&rf::with_pseudo(src, dst, 6, seg.len() as u16, &seg));
        self
    }
    /// the six control bits as the low bits of a byte, URG first (RFC 9293 figure 1)
    pub fn ctl6(&self) -> u8 {
        (self.urg as u8) << 5 | (self.ackf as u8) << 4 | (self.psh as u8) << 3 | (self.rst as u8) << 2 | (self.syn as u8) << 1 | self.fin as u8
    }
    fn etherparse(&self) -> etherparse::TcpHeader {
        let mut h = etherparse::TcpHeader::new(self.sp, self.dp, self.seq, self.wnd);
        h.acknowledgment_number = self.ack;
        h.urg = self.urg;
        h.ack = self.ackf;
        h.psh = self.psh;
        h.rst = self.rst;
        h.syn = self.syn;
        h.fin = self.fin;
        h.ece = self.ece;
        h.cwr = self.cwr;
        h.urgent_pointer = self.urgp;
        h.checksum = self.cksum;
        h
    }
}

/// apply a builder setter list (`wnd=5,ack=7,psh,rst,syn,fin,urg=9` or `-`) to the real builder
/// and to the reference state
fn tcp_apply_setters(mut b: tcp::TcpHeaderBuilder, r: &mut TcpRef, setters: &str) -> Option<tcp::TcpHeaderBuilder> {
    if setters == "-" {
        return Some(b);
    }
    for s in setters.split(',') {
        let kv: Vec<&str> = s.split('=').collect();
        match kv.as_slice() {
            ["wnd", v] => {
                let v = num::<u16>(v)?;
                b = b.wnd(v);
                r.wnd = v;
            }
            ["ack", v] => {
                let v = num::<u32>(v)?;
                b = b.ack(v);
                r.ack = v;
                r.ackf = true;
            }
            ["urg", v] => {
                let v = num::<u16>(v)?;
                b = b.urg(v);
                r.urgp = v;
                r.urg = true;
            }
            ["psh"] => {
                b = b.psh();
                r.psh = true;
            }
            ["rst"] => {
                b = b.rst();
                r.rst = true;
            }
            ["syn"] => {
                b = b.syn();
                r.syn = true;
            }
            ["fin"] => {
                b = b.fin();
                r.fin = true;
            }
            _ => return None,
        }
    }
    Some(b)
}

fn tcp_check_emitted(r: &TcpRef, src: u32, dst: u32, text: &[u8], ser: &[u8], line: &str, out: &mut Out) {
    let refh = if CK { r.with_checksum(src, dst, text) } else { *r };
    let refb = refh.bytes();
    if ser.len() != 20 || ser[..16] != refb[..16] || ser[18..] != refb[18..] {
        out.fail(&format!("`{}`: tcp encoder emitted {} but RFC 9293 packing of the same values is {}", short(line), hex(ser), hex(&refb)), "tcp encode differs from RFC 9293");
        return;
    }
    let e = u16::from_be_bytes([ser[16], ser[17]]);
    if CK {
        let mut seg = ser.to_vec();
        seg.extend_from_slice(text);
        if !rf::verifies(&rf::with_pseudo(src, dst, 6, seg.len() as u16, &seg)) {
            out.fail(&format!("`{}`: emitted tcp segment does not verify under RFC 1071", short(line)), "tcp emitted checksum does not verify");
        }
        if e != refh.cksum {
            out.count("tcp.emitted_other_zero_representation");
            if !rf::same_value(e, refh.cksum) {
                out.fail(&format!("`{}`: tcp checksum {:#06x} but RFC 1071 gives {:#06x}", short(line), e, refh.cksum), "tcp emitted checksum wrong value");
            }
        }
        if let Ok(c) = r.etherparse().calc_checksum_ipv4_raw(src.to_be_bytes(), dst.to_be_bytes(), text) {
            if !rf::same_value(c, e) {
                out.fail(&format!("`{}`: tcp checksum {:#06x} but etherparse computes {:#06x}", short(line), e, c), "tcp emitted checksum differs from etherparse");
            }
        }
    } else {
        if e != 0 {
            out.fail(&format!("`{}`: checksums compiled out but field is {:#06x}", short(line), e), "tcp encode differs from RFC 9293");
        }
        let mut eb = vec![];
        if r.etherparse().write(&mut eb).is_ok() && eb != ser {
            out.fail(&format!("`{}`: tcp encoder emitted {} but etherparse writes {}", short(line), hex(ser), hex(&eb)), "tcp encode differs from etherparse");
        }
    }
}

/// `tcpbuild sp dp seq <setters> src dst textlen <text hex>` -> `ok <hdr> ser=<hex>`
pub fn op_tcpbuild(w: &[&str], line: &str, out: &mut Out) {
    if w.len() != 8 {
        return out.line(line, "bad-op");
    }
    let (Some(sp), Some(dp), Some(seq), Some(src), Some(dst), Some(tl)) = (num::<u16>(w[0]), num::<u16>(w[1]), num::<u32>(w[2]), num::<u32>(w[4]), num::<u32>(w[5]), num::<usize>(w[6])) else {
        return out.line(line, "bad-op");
    };
    let text = unhex(w[7]);
    let mut r = TcpRef { sp, dp, seq, doff: 5, ..Default::default() };
    let Some(b) = tcp_apply_setters(tcp::TcpHeaderBuilder::new(sp, dp, seq), &mut r, w[3]) else { return out.line(line, "bad-op") };
    let t = text.clone();
    let res = match catch(move || b.build(addr(src), addr(dst), t.iter().cloned(), tl)) {
        Ok(Ok(h)) => {
            let ser = h.serialize();
            if tl == text.len() {
                tcp_check_emitted(&r, src, dst, &text, &ser, line, out);
            }
            format!("ok {} ser={}", tcp_hdr_str(&h), hex(&ser))
        }
        Ok(Err(tcp::BuildHeaderError::OverlyLongPayload)) => {
            if tl + 20 <= 65535 {
                out.fail(&format!("`{}`: builder refuses a payload that fits", short(line)), "tcp build refuses representable segment");
            }
            "err OverlyLongPayload".into()
        }
        Err(p) => {
            out.count("tcpbuild.panic");
            panic_name(&p)
        }
    };
    out.count(&format!("tcpbuild.{}", kind(&res)));
    out.line(line, &res);
}

/// `tcpser sp dp seq ack doff ctl wnd urg cksum` -> `ok <hex> hb=<n>`
pub fn op_tcpser(w: &[&str], line: &str, out: &mut Out) {
    if w.len() != 9 {
        return out.line(line, "bad-op");
    }
    let (Some(sp), Some(dp), Some(seq), Some(ack), Some(doff), Some(ctl), Some(wnd), Some(urg), Some(ck)) = (
        num::<u16>(w[0]), num::<u16>(w[1]), num::<u32>(w[2]), num::<u32>(w[3]), num::<u8>(w[4]), num::<u8>(w[5]), num::<u16>(w[6]), num::<u16>(w[7]), num::<u16>(w[8]),
    ) else {
        return out.line(line, "bad-op");
    };
    let h = tcp::TcpHeader { src_port: sp, dst_port: dp, seq, ack, data_offset: doff, ctl: tcp::Control::from(ctl), wnd, urg, checksum: ck };
    let ser = h.serialize();
    if doff < 16 {
        let r = TcpRef {
            sp, dp, seq, ack, doff, reserved: 0, cwr: ctl & 0x80 != 0, ece: ctl & 0x40 != 0, urg: ctl & 0x20 != 0, ackf: ctl & 0x10 != 0,
            psh: ctl & 8 != 0, rst: ctl & 4 != 0, syn: ctl & 2 != 0, fin: ctl & 1 != 0, wnd, cksum: ck, urgp: urg,
        };
        if ser != r.bytes() {
            out.fail(&format!("`{}`: serialize gives {} but RFC 9293 packing is {}", line, hex(&ser), hex(&r.bytes())), "tcp serialize differs from RFC 9293");
        }
    }
    let hb = match catch(move || h.bytes()) {
        Ok(n) => n.to_string(),
        Err(p) => panic_name(&p),
    };
    out.count("tcpser");
    out.line(line, &format!("ok {} hb={}", hex(&ser), hb));
}

fn tcp_decode_answer(bytes: &[u8], plen: usize, src: u32, dst: u32, line: &str, out: &mut Out) -> (String, bool) {
    let data = bytes.to_vec();
    let dec = catch(move || tcp::TcpHeader::from_bytes(data.iter().cloned(), plen, addr(src), addr(dst)));
    let refv = rf::unpack(&rf::TCP_WIDTHS, bytes);
    let consistent = plen == bytes.len();
    let verifies = consistent && plen <= 65535 && rf::verifies(&rf::with_pseudo(src, dst, 6, plen as u16, bytes));
    let ref_valid = refv.as_ref().map_or(false, |v| consistent && plen <= 65535 && v[4] == 5 && if CK { verifies } else { v[15] == 0 });
    match dec {
        Err(p) => {
            out.fail(&format!("`{}`: TcpHeader::from_bytes panicked: {}", short(line), p.msg), &panic_ident(&p));
            (panic_name(&p), false)
        }
        Ok(Err(e)) => {
            if ref_valid {
                let v = refv.unwrap();
                if CK && v[15] == 0 {
                    out.fail(&format!("`{}`: a segment whose RFC 1071 checksum is 0x0000 (sum 0xffff) is rejected: {:?}", short(line), e), "tcp rejects reference checksum 0x0000");
                } else {
                    out.fail(&format!("`{}`: a valid RFC 9293 segment is rejected: {:?}", short(line), e), "tcp rejects valid segment");
                }
            }
            (tcp_perr(&e), false)
        }
        Ok(Ok(h)) => {
            let v = refv.unwrap_or_default();
            let c = h.ctl;
            let fields_ok = v.len() == 17
                && h.src_port as u64 == v[0] && h.dst_port as u64 == v[1] && h.seq as u64 == v[2] && h.ack as u64 == v[3] && h.data_offset as u64 == v[4]
                && c.urg() == (v[8] == 1) && c.ack() == (v[9] == 1) && c.psh() == (v[10] == 1) && c.rst() == (v[11] == 1) && c.syn() == (v[12] == 1) && c.fin() == (v[13] == 1)
                && h.wnd as u64 == v[14] && h.checksum as u64 == v[15] && h.urg as u64 == v[16];
            if !fields_ok {
                out.fail(&format!("`{}`: decoded {} but the RFC 9293 fields of these bytes are {:?}", short(line), tcp_hdr_str(&h), v), "tcp decoded fields differ from RFC 9293");
            }
            if CK && consistent && !verifies {
                out.fail(&format!("`{}`: segment accepted although its RFC 1071 sum is not 0xffff", short(line)), "tcp accepts non-verifying checksum");
            }
            if let Ok((eh, _)) = etherparse::TcpHeader::from_slice(bytes) {
                if eh.source_port != h.src_port || eh.destination_port != h.dst_port || eh.sequence_number != h.seq || eh.acknowledgment_number != h.ack
                    || eh.window_size != h.wnd || eh.urgent_pointer != h.urg || eh.fin != c.fin() || eh.syn != c.syn() || eh.rst != c.rst() || eh.psh != c.psh() || eh.ack != c.ack() || eh.urg != c.urg()
                {
                    out.fail(&format!("`{}`: decoded {} but etherparse reads {:?}", short(line), tcp_hdr_str(&h), eh), "tcp decoded fields differ from etherparse");
                }
            }
            let ser = h.serialize();
            if reencode_oracle() && bytes.len() >= 20 && ser != bytes[..20] {
                let mut masked = bytes[..20].to_vec();
                masked[12] &= 0xf0;
                masked[13] &= 0x3f;
                if ser == masked {
                    out.fail(
                        &format!("`{}`: accepted, but re-serialising gives {} : the reserved / ECN bits of bytes 12-13 ({:02x}{:02x}) are dropped", short(line), hex(&ser), bytes[12], bytes[13]),
                        "tcp reencode differs: reserved/ECN bits dropped",
                    );
                } else {
                    out.fail(&format!("`{}`: accepted, but re-serialising gives {} instead of the consumed bytes", short(line), hex(&ser)), "tcp reencode differs");
                }
            }
            (format!("ok {} re={}", tcp_hdr_str(&h), hex(&ser)), true)
        }
    }
}

/// `tcpdec plen src dst <hex>` -> `ok <hdr> re=<hex>` | `err <Kind>`
pub fn op_tcpdec(w: &[&str], line: &str, out: &mut Out) {
    if w.len() != 4 {
        return out.line(line, "bad-op");
    }
    let (Some(plen), Some(src), Some(dst)) = (num::<usize>(w[0]), num::<u32>(w[1]), num::<u32>(w[2])) else { return out.line(line, "bad-op") };
    let bytes = unhex(w[3]);
    let (res, _) = tcp_decode_answer(&bytes, plen, src, dst, line, out);
    out.count(&format!("tcpdec.{}", kind(&res)));
    out.line(line, &res);
}

/// `tcprt sp dp seq <setters> src dst <text hex>`: build, serialise, append text, decode
pub fn op_tcprt(w: &[&str], line: &str, out: &mut Out) {
    if w.len() != 7 {
        return out.line(line, "bad-op");
    }
    let (Some(sp), Some(dp), Some(seq), Some(src), Some(dst)) = (num::<u16>(w[0]), num::<u16>(w[1]), num::<u32>(w[2]), num::<u32>(w[4]), num::<u32>(w[5])) else {
        return out.line(line, "bad-op");
    };
    let text = unhex(w[6]);
    let mut r = TcpRef { sp, dp, seq, doff: 5, ..Default::default() };
    let Some(b) = tcp_apply_setters(tcp::TcpHeaderBuilder::new(sp, dp, seq), &mut r, w[3]) else { return out.line(line, "bad-op") };
    let t = text.clone();
    let res = match catch(move || b.build(addr(src), addr(dst), t.iter().cloned(), t.len())) {
        Ok(Ok(h0)) => {
            let mut pkt = h0.serialize();
            pkt.extend_from_slice(&text);
            let n = pkt.len();
            match catch(move || tcp::TcpHeader::from_bytes(pkt.iter().cloned(), n, addr(src), addr(dst))) {
                Ok(Ok(h)) => {
                    let same = h == h0 && h.src_port == sp && h.dst_port == dp && h.seq == seq && h.ack == r.ack && h.data_offset == 5 && u8::from(h.ctl) == r.ctl6() && h.wnd == r.wnd && h.urg == r.urgp;
                    if !same {
                        out.fail(&format!("`{}`: decode(encode(h) ++ text) = {} differs from h = {}", short(line), tcp_hdr_str(&h), tcp_hdr_str(&h0)), "tcp decode-encode differs");
                    }
                    format!("ok {}", tcp_hdr_str(&h))
                }
                Ok(Err(e)) => {
                    out.fail(&format!("`{}`: decoder rejects the encoder's own output: {:?}", short(line), e), "tcp decode rejects own encoding");
                    tcp_perr(&e)
                }
                Err(p) => {
                    out.fail(&format!("`{}`: decoder panicked: {}", short(line), p.msg), &panic_ident(&p));
                    panic_name(&p)
                }
            }
        }
        Ok(Err(_)) => "err OverlyLongPayload".into(),
        Err(p) => panic_name(&p),
    };
    out.count("tcprt");
    out.line(line, &res);
}

/// `tcpctl u a p r s f` -> `ok <byte> u a p r s f`;  `tcpbits <byte>` -> `ok u a p r s f`
pub fn op_tcpmisc(op: &str, w: &[&str], line: &str, out: &mut Out) {
    let bits = |c: tcp::Control| format!("{} {} {} {} {} {}", c.urg() as u8, c.ack() as u8, c.psh() as u8, c.rst() as u8, c.syn() as u8, c.fin() as u8);
    let res = match (op, w) {
        ("tcpctl", [u, a, p, r, s, f]) => {
            let b = |x: &str| x == "1";
            let c = tcp::Control::new(b(u), b(a), b(p), b(r), b(s), b(f));
            let v = u8::from(c);
            let want = (b(u) as u8) << 5 | (b(a) as u8) << 4 | (b(p) as u8) << 3 | (b(r) as u8) << 2 | (b(s) as u8) << 1 | b(f) as u8;
            if v != want || (c.urg(), c.ack(), c.psh(), c.rst(), c.syn(), c.fin()) != (b(u), b(a), b(p), b(r), b(s), b(f)) {
                out.fail(&format!("`{}`: Control::new gives {:#010b}, RFC 9293 says {:#010b}", line, v, want), "tcp control bits wrong");
            }
            format!("ok {} {}", v, bits(c))
        }
        ("tcpbits", [v]) => {
            let Some(v) = num::<u8>(v) else { return out.line(line, "bad-op") };
            let c = tcp::Control::from(v);
            if (c.urg(), c.ack(), c.psh(), c.rst(), c.syn(), c.fin()) != (v & 32 != 0, v & 16 != 0, v & 8 != 0, v & 4 != 0, v & 2 != 0, v & 1 != 0) {
                out.fail(&format!("`{}`: accessors give {}", line, bits(c)), "tcp control bits wrong");
            }
            format!("ok {}", bits(c))
        }
        _ => return out.line(line, "bad-op"),
    };
    out.count(op);
    out.line(line, &res);
}

/// `tcpflip <bits,..> plen src dst <hex>`
pub fn op_tcpflip(w: &[&str], line: &str, out: &mut Out) {
    if w.len() != 5 {
        return out.line(line, "bad-op");
    }
    let bits: Vec<usize> = w[0].split(',').filter_map(|s| s.parse().ok()).collect();
    let (Some(plen), Some(src), Some(dst)) = (num::<usize>(w[1]), num::<u32>(w[2]), num::<u32>(w[3])) else { return out.line(line, "bad-op") };
    let orig = unhex(w[4]);
    let mut bytes = orig.clone();
    for b in &bits {
        rf::flip(&mut bytes, *b);
    }
    let o2 = orig.clone();
    let orig_ok = matches!(catch(move || tcp::TcpHeader::from_bytes(o2.iter().cloned(), plen, addr(src), addr(dst))), Ok(Ok(_)));
    let (res, accepted) = tcp_decode_answer(&bytes, plen, src, dst, line, out);
    flip_oracle("tcp", 6, &bits, &orig, &bytes, plen, src, dst, orig_ok, accepted, line, out);
    out.count(&format!("tcpflip.{}bit", bits.len().min(3)));
    out.line(line, &res);
}

/// dispatch one op line (used by every generator and by `--replay`)
pub fn apply(line: &str, out: &mut Out) {
    let w: Vec<&str> = line.split_whitespace().collect();
    let Some((op, rest)) = w.split_first() else { return out.line(line, "bad-op") };
    match *op {
        // the build configuration of the code under test; the line is rewritten to the truth
        "ck" => {
            let l = format!("ck {}", CK as u8);
            out.line(&l, &l)
        }
        "ip4build" => op_ip4build(rest, line, out),
        "ip4dec" => op_ip4dec(rest, line, out),
        "ip4rt" => op_ip4rt(rest, line, out),
        "ip4ser" => op_ip4ser(rest, line, out),
        "ip4tos" | "ip4tosnew" | "ip4flags" => op_ip4misc(op, rest, line, out),
        "ip4flip" => op_ip4flip(rest, line, out),
        "cksum" => op_cksum(rest, line, out),
        "udpbuild" => op_udpbuild(rest, line, out),
        "udpdec" => op_udpdec(rest, line, out),
        "udprt" => op_udprt(rest, line, out),
        "udpflip" => op_udpflip(rest, line, out),
        "tcpbuild" => op_tcpbuild(rest, line, out),
        "tcpser" => op_tcpser(rest, line, out),
        "tcpdec" => op_tcpdec(rest, line, out),
        "tcprt" => op_tcprt(rest, line, out),
        "tcpctl" | "tcpbits" => op_tcpmisc(op, rest, line, out),
        "tcpflip" => op_tcpflip(rest, line, out),
        _ => out.line(line, "bad-op"),
    }
}
