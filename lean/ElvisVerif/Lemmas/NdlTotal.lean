import ElvisVerif.Model.Ndl
/-!
# NDL parser: no panic site is reachable, the loop fuel suffices

`Safe x P`: the outcome `x` is a value satisfying `P` or a *reported* error — never a panic,
never the model's `fuel` marker.  Every function of the model is `Safe` provided
`line + s.length ≤ i32Max` (the line counter cannot overflow on a text shorter than 2^31).
The facts about the type tags are read off the generated source certificate by `decide`.
-/
namespace Elvis.Ndl
open Elvis.Gen.Ndl

def Safe {α : Type} (x : R α) (P : α → Prop) : Prop :=
  match x with
  | .ok a => P a
  | .error (.err _ _) => True
  | .error (.panic _) => False
  | .error .fuel => False

theorem Safe.err {α : Type} {P : α → Prop} (k : ErrKind) (l : Nat) : Safe (.error (.err k l) : R α) P := trivial

/-! ### lexer pieces -/

theorem takeUntil_eq (c : Char) : ∀ s a b, takeUntil c s = some (a, b) → s = a ++ b
  | [], a, b, h => by simp [takeUntil] at h
  | x :: r, a, b, h => by
    unfold takeUntil at h
    split at h
    · simp at h; obtain ⟨rfl, rfl⟩ := h; simp
    · split at h
      · rename_i a' b' heq
        simp at h; obtain ⟨rfl, rfl⟩ := h
        have := takeUntil_eq c r a' b' heq
        simp [this]
      · simp at h

theorem sectionP_len (s inside after : Text) (h : sectionP s = some (inside, after)) :
    s.length = inside.length + after.length + 2 := by
  unfold sectionP at h
  split at h
  · rename_i r
    split at h
    · rename_i ins x aft heq
      simp at h; obtain ⟨rfl, rfl⟩ := h
      have := takeUntil_eq ']' r ins (x :: aft) heq
      subst this; simp; omega
    · simp at h
  · simp at h

theorem byteDrop_takeWhile (p : Char → Bool) (hp : ∀ c, p c = true → c.utf8Size = 1) :
    ∀ (s : Text) (n : Nat), n ≤ (s.takeWhile p).length → byteDrop n s = some (s.drop n)
  | s, 0, _ => by simp [byteDrop]
  | [], n + 1, h => by simp at h
  | c :: r, n + 1, h => by
    by_cases hc : p c = true
    · simp [List.takeWhile, hc] at h
      have h1 := hp c hc
      simp only [byteDrop, h1]
      have : 1 ≤ n + 1 := by omega
      simp [this, byteDrop_takeWhile p hp r n h]
    · simp [List.takeWhile, hc] at h

theorem byteDrop_tabs (s : Text) (n : Nat) (h : n ≤ countTabs s) : byteDrop n s = some (s.drop n) :=
  byteDrop_takeWhile (· = '\t') (by intro c hc; simp at hc; subst hc; decide) s n h

theorem byteDrop_nl (s : Text) : byteDrop (countNl s) s = some (s.drop (countNl s)) :=
  byteDrop_takeWhile (· = '\n') (by intro c hc; simp at hc; subst hc; decide) s _ (Nat.le_refl _)

theorem length_takeWhile_le (p : Char → Bool) : ∀ s : Text, (s.takeWhile p).length ≤ s.length
  | [] => by simp
  | c :: r => by
    have := length_takeWhile_le p r
    by_cases hc : p c = true <;> simp [List.takeWhile, hc]; omega

theorem countNl_le (s : Text) : countNl s ≤ s.length := length_takeWhile_le _ s

theorem keyword_len : ∀ (t i rest : Text), keyword t i = some rest → rest.length ≤ i.length
  | [], i, rest, h => by simp [keyword] at h; subst h; exact Nat.le_refl _
  | _ :: _, [], rest, h => by simp [keyword] at h
  | k :: ks, c :: cs, rest, h => by
    unfold keyword at h
    split at h
    · have := keyword_len ks cs rest h; simp; omega
    · simp at h

/-- every alternative of `get_type` has a case in `DecType::from` (from the source certificate) -/
def tagsCovered : Bool :=
  tagAlt.all fun t => match decTypeFromWith decTypeTable t with
    | .ok _ => true
    | .error _ => false

theorem tagsCovered_true : tagsCovered = true := by decide
theorem tagMatcher_keyword : tagMatcher = "keyword" := by decide

theorem getTypeWith_safe (ts : List Text) (hts : ∀ t ∈ ts, ∃ d, decTypeFromWith decTypeTable t = .ok d)
    (i : Text) (line : Nat) :
    Safe (getTypeWith "keyword" decTypeTable ts i line) (fun p => p.1.length ≤ i.length) := by
  induction ts with
  | nil => exact Safe.err _ _
  | cons t ts ih =>
    unfold getTypeWith matchTag
    simp only [if_true]
    cases hk : keyword t i with
    | none => simp only []; exact ih (fun t' ht' => hts t' (List.mem_cons_of_mem _ ht'))
    | some rest =>
      obtain ⟨d, hd⟩ := hts t List.mem_cons_self
      simp only [hd]
      exact keyword_len t i rest hk

theorem getType_safe (i : Text) (line : Nat) :
    Safe (getType i line) (fun p => p.1.length ≤ i.length) := by
  unfold getType
  rw [tagMatcher_keyword]
  apply getTypeWith_safe
  intro t ht
  have h := tagsCovered_true
  unfold tagsCovered at h
  rw [List.all_eq_true] at h
  have := h t ht
  split at this
  · rename_i d hd; exact ⟨d, hd⟩
  · simp at this

/-- `general_parser` consumes at least `[` and `]`, and its line counter cannot overflow while
    `line + s.length ≤ i32Max` -/
theorem generalParser_safe (s : Text) (line : Nat) (hb : line + s.length ≤ i32Max) :
    Safe (generalParser s line)
      (fun r => r.rest.length < s.length ∧ r.line + r.rest.length ≤ line + s.length) := by
  unfold generalParser
  cases hs : sectionP s with
  | none => exact Safe.err _ _
  | some p =>
    obtain ⟨inside, after⟩ := p
    have hl := sectionP_len s inside after hs
    simp only []
    have hg := getType_safe inside line
    cases hgt : getType inside line with
    | error e =>
      rw [hgt] at hg
      cases e with
      | err k l => exact Safe.err _ _
      | panic p => exact hg.elim
      | fuel => exact hg.elim
    | ok p =>
      obtain ⟨r1, dt⟩ := p
      simp only []
      split
      · exact Safe.err _ _
      · cases insertAll (arguments r1).2 [] with
        | none => exact Safe.err _ _
        | some params =>
          simp only []
          have hn := countNl_le after
          have : ¬ (line + countNl after > i32Max) := by omega
          simp only [this, if_false, byteDrop_nl]
          show _ ∧ _
          simp only [List.length_drop]
          constructor <;> omega

/-! ### tree builder -/

/-- what every builder function guarantees about the text it hands back -/
def Shrinks (s : Text) (line : Nat) (rest : Text) (line' : Nat) : Prop :=
  rest.length ≤ s.length ∧ line' + rest.length ≤ line + s.length

theorem leafLoop_safe (exp : DecType) (nt : Nat) : ∀ (fuel : Nat) (s : Text) (line : Nat),
    s.length < fuel → line + s.length ≤ i32Max → (s ≠ [] → nt ≤ countTabs s) →
    Safe (leafLoop exp nt fuel s line) (fun p => Shrinks s line p.2.1 p.2.2)
  | 0, s, line, hf, _, _ => by omega
  | fuel + 1, s, line, hf, hb, ht => by
    unfold leafLoop
    split
    · rename_i hs; subst hs; exact ⟨Nat.le_refl _, Nat.le_refl _⟩
    · rename_i hs
      rw [byteDrop_tabs s nt (ht hs)]
      simp only []
      have hlen : (s.drop nt).length ≤ s.length := by simp
      have hg := generalParser_safe (s.drop nt) line (by omega)
      cases hgp : generalParser (s.drop nt) line with
      | error e =>
        rw [hgp] at hg
        cases e with
        | err k l => exact Safe.err _ _
        | panic p => exact hg.elim
        | fuel => exact hg.elim
      | ok r =>
        rw [hgp] at hg
        obtain ⟨h1, h2⟩ := hg
        simp only []
        split
        · exact Safe.err _ _
        · split
          · exact ⟨by show r.rest.length ≤ s.length; omega, by show r.line + r.rest.length ≤ line + s.length; omega⟩
          · split
            · exact Safe.err _ _
            · rename_i hlt hgt
              have ih := leafLoop_safe exp nt fuel r.rest r.line (by omega) (by omega) (fun _ => by omega)
              cases hrec : leafLoop exp nt fuel r.rest r.line with
              | error e =>
                rw [hrec] at ih
                cases e with
                | err k l => exact Safe.err _ _
                | panic p => exact ih.elim
                | fuel => exact ih.elim
              | ok q =>
                rw [hrec] at ih
                obtain ⟨ls, rest, line'⟩ := q
                obtain ⟨i1, i2⟩ := ih
                exact ⟨by show rest.length ≤ s.length; simp at i1; omega, by show line' + rest.length ≤ line + s.length; simp at i1 i2; omega⟩

theorem leafList_safe (exp : DecType) (first : ErrKind) (nt : Nat) (s : Text) (line : Nat)
    (hb : line + s.length ≤ i32Max) :
    Safe (leafList exp first nt s line) (fun p => Shrinks s line p.2.1 p.2.2) := by
  unfold leafList
  split
  · exact Safe.err _ _
  · rename_i h
    exact leafLoop_safe exp nt (s.length + 1) s line (by omega) hb (fun _ => by omega)

theorem networkParser_safe (args : Params) (nt : Nat) (s : Text) (line : Nat)
    (hb : line + s.length ≤ i32Max) :
    Safe (networkParser args nt s line) (fun p => Shrinks s line p.2.1 p.2.2) := by
  unfold networkParser
  have h := leafList_safe .ip .expectedTabs nt s line hb
  cases hl : leafList .ip .expectedTabs nt s line with
  | error e =>
    rw [hl] at h
    cases e with
    | err k l => exact Safe.err _ _
    | panic p => exact h.elim
    | fuel => exact h.elim
  | ok q =>
    rw [hl] at h
    obtain ⟨ips, rest, line'⟩ := q
    exact h

theorem networksLoop_safe (nt : Nat) : ∀ (fuel : Nat) (s : Text) (line : Nat) (seen : List (Text × Network)),
    s.length < fuel → line + s.length ≤ i32Max →
    Safe (networksLoop nt fuel s line seen) (fun p => Shrinks s line p.2.1 p.2.2)
  | 0, s, line, seen, hf, _ => by omega
  | fuel + 1, s, line, seen, hf, hb => by
    unfold networksLoop
    split
    · exact ⟨Nat.le_refl _, Nat.le_refl _⟩
    · simp only []
      split
      · exact ⟨Nat.le_refl _, Nat.le_refl _⟩
      · split
        · exact Safe.err _ _
        · rename_i hlt hgt
          rw [byteDrop_tabs s nt (by omega)]
          simp only []
          have hlen : (s.drop nt).length ≤ s.length := by simp
          have hg := generalParser_safe (s.drop nt) line (by omega)
          cases hgp : generalParser (s.drop nt) line with
          | error e =>
            rw [hgp] at hg
            cases e with
            | err k l => exact Safe.err _ _
            | panic p => exact hg.elim
            | fuel => exact hg.elim
          | ok r =>
            rw [hgp] at hg
            obtain ⟨h1, h2⟩ := hg
            simp only []
            split
            · have hn := networkParser_safe r.params (nt + 1) r.rest r.line (by omega)
              cases hnp : networkParser r.params (nt + 1) r.rest r.line with
              | error e =>
                rw [hnp] at hn
                cases e with
                | err k l => exact Safe.err _ _
                | panic p => exact hn.elim
                | fuel => exact hn.elim
              | ok q =>
                rw [hnp] at hn
                obtain ⟨net, rest, line'⟩ := q
                obtain ⟨n1, n2⟩ := hn
                simp only [] at n1 n2 ⊢
                split
                · exact Safe.err _ _
                · split
                  · exact Safe.err _ _
                  · rename_i id _ _
                    have ih := networksLoop_safe nt fuel rest line' (seen ++ [(id, net)]) (by omega) (by omega)
                    cases hrec : networksLoop nt fuel rest line' (seen ++ [(id, net)]) with
                    | error e =>
                      rw [hrec] at ih
                      cases e with
                      | err k l => exact Safe.err _ _
                      | panic p => exact ih.elim
                      | fuel => exact ih.elim
                    | ok q =>
                      rw [hrec] at ih
                      obtain ⟨i1, i2⟩ := ih
                      exact ⟨by omega, by omega⟩
            · exact Safe.err _ _

theorem networksParser_safe (nt : Nat) (s : Text) (line : Nat) (hb : line + s.length ≤ i32Max) :
    Safe (networksParser nt s line) (fun p => Shrinks s line p.2.1 p.2.2) :=
  networksLoop_safe nt (s.length + 1) s line [] (by omega) hb

theorem idxOf?_of_contains (l : List DecType) (d : DecType) (h : l.contains d = true) :
    ∃ i, l.idxOf? d = some i := by
  cases hi : l.idxOf? d with
  | some i => exact ⟨i, rfl⟩
  | none =>
    exfalso
    rw [List.idxOf?, List.findIdx?_eq_none_iff] at hi
    rw [List.contains_iff_mem] at h
    have := hi d h
    simp at this

theorem machineLoop_safe (nt : Nat) : ∀ (fuel : Nat) (s : Text) (line : Nat) (a : MAcc),
    s.length < fuel → line + s.length ≤ i32Max →
    Safe (machineLoop nt fuel s line a) (fun p => Shrinks s line p.2.1 p.2.2)
  | 0, s, line, a, hf, _ => by omega
  | fuel + 1, s, line, a, hf, hb => by
    unfold machineLoop
    split
    · exact ⟨Nat.le_refl _, Nat.le_refl _⟩
    · simp only []
      split
      · exact ⟨Nat.le_refl _, Nat.le_refl _⟩
      · split
        · exact Safe.err _ _
        · rename_i hlt hgt
          rw [byteDrop_tabs s nt (by omega)]
          simp only []
          have hlen : (s.drop nt).length ≤ s.length := by simp
          have hg := generalParser_safe (s.drop nt) line (by omega)
          cases hgp : generalParser (s.drop nt) line with
          | error e =>
            rw [hgp] at hg
            cases e with
            | err k l => exact Safe.err _ _
            | panic p => exact hg.elim
            | fuel => exact hg.elim
          | ok r =>
            rw [hgp] at hg
            obtain ⟨h1, h2⟩ := hg
            simp only []
            split
            · rename_i hc
              obtain ⟨i, hi⟩ := idxOf?_of_contains a.req r.dectype hc
              simp only [hi]
              -- the three sections share one argument
              have sect : ∀ (exp : DecType) (upd : List Leaf → MAcc),
                  Safe (match leafList exp .formatting (nt + 1) r.rest r.line with
                    | .error e => .error e
                    | .ok (ls, rest, line') => machineLoop nt fuel rest line' (upd ls))
                    (fun p => Shrinks s line p.2.1 p.2.2) := by
                intro exp upd
                have hl := leafList_safe exp .formatting (nt + 1) r.rest r.line (by omega)
                cases hll : leafList exp .formatting (nt + 1) r.rest r.line with
                | error e =>
                  rw [hll] at hl
                  cases e with
                  | err k l => exact Safe.err _ _
                  | panic p => exact hl.elim
                  | fuel => exact hl.elim
                | ok q =>
                  rw [hll] at hl
                  obtain ⟨ls, rest, line'⟩ := q
                  obtain ⟨l1, l2⟩ := hl
                  simp only [] at l1 l2 ⊢
                  have ih := machineLoop_safe nt fuel rest line' (upd ls) (by omega) (by omega)
                  cases hrec : machineLoop nt fuel rest line' (upd ls) with
                  | error e =>
                    rw [hrec] at ih
                    cases e with
                    | err k l => exact Safe.err _ _
                    | panic p => exact ih.elim
                    | fuel => exact ih.elim
                  | ok q =>
                    rw [hrec] at ih
                    obtain ⟨i1, i2⟩ := ih
                    exact ⟨by omega, by omega⟩
              split
              · exact sect .network _
              · exact sect .protocol _
              · exact sect .application _
              · exact Safe.err _ _
            · exact Safe.err _ _

theorem machineParser_safe (args : Params) (nt : Nat) (s : Text) (line : Nat)
    (hb : line + s.length ≤ i32Max) :
    Safe (machineParser args nt s line) (fun p => Shrinks s line p.2.1 p.2.2) := by
  unfold machineParser
  have h := machineLoop_safe nt (s.length + 1) s line ⟨requiredSections, [], [], []⟩ (by omega) hb
  cases hl : machineLoop nt (s.length + 1) s line ⟨requiredSections, [], [], []⟩ with
  | error e =>
    rw [hl] at h
    cases e with
    | err k l => exact Safe.err _ _
    | panic p => exact h.elim
    | fuel => exact h.elim
  | ok q =>
    rw [hl] at h
    obtain ⟨a, rest, line'⟩ := q
    simp only []
    split
    · exact Safe.err _ _
    · exact h

theorem machinesLoop_safe (nt : Nat) : ∀ (fuel : Nat) (s : Text) (line : Nat),
    s.length < fuel → line + s.length ≤ i32Max →
    Safe (machinesLoop nt fuel s line) (fun p => Shrinks s line p.2.1 p.2.2)
  | 0, s, line, hf, _ => by omega
  | fuel + 1, s, line, hf, hb => by
    unfold machinesLoop
    split
    · exact ⟨Nat.le_refl _, Nat.le_refl _⟩
    · simp only []
      split
      · exact ⟨Nat.le_refl _, Nat.le_refl _⟩
      · split
        · exact Safe.err _ _
        · rename_i hlt hgt
          rw [byteDrop_tabs s nt (by omega)]
          simp only []
          have hlen : (s.drop nt).length ≤ s.length := by simp
          have hg := generalParser_safe (s.drop nt) line (by omega)
          cases hgp : generalParser (s.drop nt) line with
          | error e =>
            rw [hgp] at hg
            cases e with
            | err k l => exact Safe.err _ _
            | panic p => exact hg.elim
            | fuel => exact hg.elim
          | ok r =>
            rw [hgp] at hg
            obtain ⟨h1, h2⟩ := hg
            simp only []
            split
            · have hm := machineParser_safe r.params (nt + 1) r.rest r.line (by omega)
              cases hmp : machineParser r.params (nt + 1) r.rest r.line with
              | error e =>
                rw [hmp] at hm
                cases e with
                | err k l => exact Safe.err _ _
                | panic p => exact hm.elim
                | fuel => exact hm.elim
              | ok q =>
                rw [hmp] at hm
                obtain ⟨m, rest, line'⟩ := q
                obtain ⟨m1, m2⟩ := hm
                simp only [] at m1 m2 ⊢
                have ih := machinesLoop_safe nt fuel rest line' (by omega) (by omega)
                cases hrec : machinesLoop nt fuel rest line' with
                | error e =>
                  rw [hrec] at ih
                  cases e with
                  | err k l => exact Safe.err _ _
                  | panic p => exact ih.elim
                  | fuel => exact ih.elim
                | ok q =>
                  rw [hrec] at ih
                  obtain ⟨ms, rest', line''⟩ := q
                  obtain ⟨i1, i2⟩ := ih
                  simp only [] at i1 i2
                  exact ⟨by show rest'.length ≤ s.length; omega, by show line'' + rest'.length ≤ line + s.length; omega⟩
            · exact Safe.err _ _

theorem machinesParser_safe (nt : Nat) (s : Text) (line : Nat) (hb : line + s.length ≤ i32Max) :
    Safe (machinesParser nt s line) (fun p => Shrinks s line p.2.1 p.2.2) :=
  machinesLoop_safe nt (s.length + 1) s line (by omega) hb

theorem mergeNets_safe : ∀ (ns acc : List (Text × Network)), Safe (mergeNets acc ns) (fun _ => True)
  | [], acc => trivial
  | (id, n) :: r, acc => by
    unfold mergeNets
    split
    · exact Safe.err _ _
    · exact mergeNets_safe r _

theorem coreLoop_safe : ∀ (fuel : Nat) (s : Text) (line : Nat) (nets : List (Text × Network))
    (ms : List Machine), s.length < fuel → line + s.length ≤ i32Max →
    Safe (coreLoop fuel s line nets ms) (fun _ => True)
  | 0, s, line, nets, ms, hf, _ => by omega
  | fuel + 1, s, line, nets, ms, hf, hb => by
    unfold coreLoop
    split
    · trivial
    · have hg := generalParser_safe s line hb
      cases hgp : generalParser s line with
      | error e =>
        rw [hgp] at hg
        cases e with
        | err k l => exact Safe.err _ _
        | panic p => exact hg.elim
        | fuel => exact hg.elim
      | ok r =>
        rw [hgp] at hg
        obtain ⟨h1, h2⟩ := hg
        simp only []
        split
        · exact coreLoop_safe fuel r.rest r.line nets ms (by omega) (by omega)
        · have hn := networksParser_safe 1 r.rest r.line (by omega)
          cases hnp : networksParser 1 r.rest r.line with
          | error e =>
            rw [hnp] at hn
            cases e with
            | err k l => exact Safe.err _ _
            | panic p => exact hn.elim
            | fuel => exact hn.elim
          | ok q =>
            rw [hnp] at hn
            obtain ⟨ns, rest, line'⟩ := q
            obtain ⟨n1, n2⟩ := hn
            simp only [] at n1 n2 ⊢
            have hm := mergeNets_safe ns nets
            cases hmn : mergeNets nets ns with
            | error e =>
              rw [hmn] at hm
              cases e with
              | err k l => exact Safe.err _ _
              | panic p => exact hm.elim
              | fuel => exact hm.elim
            | ok nets' => exact coreLoop_safe fuel rest line' nets' ms (by omega) (by omega)
        · have hn := machinesParser_safe 1 r.rest r.line (by omega)
          cases hnp : machinesParser 1 r.rest r.line with
          | error e =>
            rw [hnp] at hn
            cases e with
            | err k l => exact Safe.err _ _
            | panic p => exact hn.elim
            | fuel => exact hn.elim
          | ok q =>
            rw [hnp] at hn
            obtain ⟨m, rest, line'⟩ := q
            obtain ⟨n1, n2⟩ := hn
            simp only [] at n1 n2 ⊢
            exact coreLoop_safe fuel rest line' nets (ms ++ m) (by omega) (by omega)
        · exact Safe.err _ _

theorem fourSpFrom_length_le : ∀ (s : Text) (k : Nat), (fourSpFrom k s).length ≤ k + s.length
  | [], k => by simp [fourSpFrom]
  | c :: r, k => by
    unfold fourSpFrom
    split
    · split
      · have := fourSpFrom_length_le r 0; simp; omega
      · have := fourSpFrom_length_le r (k + 1); simp; omega
    · have := fourSpFrom_length_le r 0; simp; omega

theorem fourSp_length_le (s : Text) : (fourSp s).length ≤ s.length := by
  have := fourSpFrom_length_le s 0; unfold fourSp; omega

theorem normalise_length_le (s : Text) : (normalise s).length ≤ s.length := by
  unfold normalise dropCR
  exact Nat.le_trans (fourSp_length_le _) (List.length_filter_le _ _)

theorem build_safe (s : Text) (h : s.length < i32Max) : Safe (build s) (fun _ => True) :=
  coreLoop_safe (s.length + 1) s 1 [] [] (by omega) (by omega)

end Elvis.Ndl
