import ElvisVerif.Lemmas.TcbPath
/-!
# IRS is fixed once the peer's SYN has been accepted

Outside SYN-SENT no segment — in particular no old duplicate SYN of an earlier incarnation,
whatever its sequence number — changes `RCV.IRS`, and SYN-SENT is never entered again.
-/
namespace Elvis.Tcp
namespace Tcb

/-- not in SYN-SENT, and the same IRS -/
structure IrsKeep (s s' : Tcb) : Prop where
  irs : s'.rcv.irs = s.rcv.irs
  notSynSent : s'.state ≠ .SynSent

theorem seqCheck_irs (s : Tcb) (seg : Hdr) (tl : Seq) (s' : Tcb) (r : Option ProcessSegmentResult)
    (e : seqCheck s seg tl = .ok (s', r)) : s'.rcv = s.rcv := by
  unfold seqCheck at e
  split at e
  · cases e; rfl
  · split at e
    · simp at e
    · cases e; rfl
    · rw [enqueueThen_eq] at e
      cases e
      rw [(enqueueBuilt_frame _ _).2.1]

theorem synBlock_irs (s : Tcb) (seg : Hdr) (h : s.state ≠ .SynSent) (s' : Tcb)
    (r : Option ProcessSegmentResult) (e : synBlock s seg = .ok (s', r)) : s'.rcv = s.rcv ∧ s'.state = s.state := by
  unfold synBlock at e
  split at e
  · cases e; exact ⟨rfl, rfl⟩
  · split at e
    · rename_i hs; exact absurd hs h
    · rw [enqueueThen_eq] at e
      cases e
      exact ⟨(enqueueBuilt_frame _ _).2.1, state_enqueueBuilt _ _⟩

theorem textBlock_irs (s : Tcb) (seg : Hdr) (text : List UInt8) (tl : Seq) (s' : Tcb)
    (r : Option ProcessSegmentResult) (e : textBlock s seg text tl = .ok (s', r)) :
    s'.rcv.irs = s.rcv.irs := by
  unfold textBlock at e
  split at e
  · cases e; rfl
  · split at e
    all_goals first
      | (cases e; rfl)
      | (dsimp only at e
         repeat' (split at e)
         all_goals first
           | (simp at e; done)
           | (rw [enqueueThen_eq] at e
              cases e
              rw [(enqueueBuilt_frame _ _).2.1]))

theorem finBlock_irs (s : Tcb) (seg : Hdr) (tl : Seq) (s' : Tcb) (r : Option ProcessSegmentResult)
    (e : finBlock s seg tl = .ok (s', r)) : s'.rcv.irs = s.rcv.irs := by
  unfold finBlock at e
  split at e
  · cases e; rfl
  · dsimp only at e
    have key : ∀ s1, (if s.state ≠ .SynSent then
          if (decide (s.rcv.nxt = seg.seq + tl) || decide (s.rcv.nxt = seg.seq + tl + 1)) = true then
            ({ s with rcv.nxt := seg.seq + tl + 1 } : Tcb).enqueue
              ({ s with rcv.nxt := seg.seq + tl + 1 } : Tcb).ackHdr
          else Except.ok s
        else Except.ok s) = .ok s1 → s1.rcv.irs = s.rcv.irs := by
      intro s1 h1
      split at h1
      · split at h1
        · rw [enqueue_eq] at h1
          cases h1
          rw [(enqueueBuilt_frame _ _).2.1]
        · cases h1; rfl
      · cases h1; rfl
    split at e
    · simp at e
    · rename_i s1 h1
      have k := key s1 h1
      split at e
      all_goals first
        | (cases e; exact k)
        | (split at e <;> (cases e; exact k))

/-- **one segment, outside SYN-SENT: IRS unchanged, SYN-SENT not entered** -/
theorem processSegment_irs (s : Tcb) (segment : Segment) (h : s.state ≠ .SynSent) (s' : Tcb)
    (r : ProcessSegmentResult) (e : s.processSegment segment = .ok (s', r)) : IrsKeep s s' := by
  unfold processSegment at e
  dsimp only at e
  cases h1 : seqCheck s segment.hdr (BitVec.ofNat 32 segment.text.length) with
  | error err => rw [h1] at e; simp [B.andThen] at e
  | ok p1 =>
    obtain ⟨s1, r1⟩ := p1
    have g1 := seqCheck_irs _ _ _ _ _ h1
    have k1 := (seqCheck_edges _ _ _ _ _ h1).1
    have n1 : s1.state ≠ .SynSent := by rw [k1.state]; exact h
    rw [h1] at e
    cases r1 with
    | some x => simp only [andThen_some] at e; cases e; exact ⟨by rw [g1], n1⟩
    | none =>
      simp only [andThen_none] at e
      obtain ⟨s2, r2, e2, same2, iff2⟩ := ackBlock_spec s1 segment.hdr
      have g2 : s2.rcv.irs = s.rcv.irs := by rw [same2.rcv, g1]
      have n2 : s2.state ≠ .SynSent := fun hx => n1 (iff2.1 hx)
      rw [e2] at e
      cases r2 with
      | some x => simp only [andThen_some] at e; cases e; exact ⟨g2, n2⟩
      | none =>
        simp only [andThen_none] at e
        obtain ⟨r3, e3⟩ := rstBlock_spec s2 segment.hdr
        rw [e3] at e
        cases r3 with
        | some x => simp only [andThen_some] at e; cases e; exact ⟨g2, n2⟩
        | none =>
          simp only [andThen_none] at e
          cases h4 : synBlock s2 segment.hdr with
          | error err => rw [h4] at e; simp [B.andThen] at e
          | ok p4 =>
            obtain ⟨s4, r4⟩ := p4
            obtain ⟨q4, st4⟩ := synBlock_irs s2 segment.hdr n2 s4 r4 h4
            have g4 : s4.rcv.irs = s.rcv.irs := by rw [q4, g2]
            have n4 : s4.state ≠ .SynSent := by rw [st4]; exact n2
            rw [h4] at e
            cases r4 with
            | some x => simp only [andThen_some] at e; cases e; exact ⟨g4, n4⟩
            | none =>
              simp only [andThen_none] at e
              cases h5 : textBlock s4 segment.hdr segment.text (BitVec.ofNat 32 segment.text.length) with
              | error err => rw [h5] at e; simp [B.andThen] at e
              | ok p5 =>
                obtain ⟨s5, r5⟩ := p5
                have g5 : s5.rcv.irs = s.rcv.irs := by rw [textBlock_irs _ _ _ _ _ _ h5, g4]
                obtain ⟨k5, hr5⟩ := textBlock_edges _ _ _ _ _ _ h5
                have n5 : s5.state ≠ .SynSent := by rw [k5.state]; exact n4
                subst hr5
                rw [h5] at e
                simp only [andThen_none] at e
                cases h6 : finBlock s5 segment.hdr (BitVec.ofNat 32 segment.text.length) with
                | error err => rw [h6] at e; simp at e
                | ok p6 =>
                  obtain ⟨s6, r6⟩ := p6
                  have g6 : s6.rcv.irs = s.rcv.irs := by rw [finBlock_irs _ _ _ _ _ h6, g5]
                  obtain ⟨s6', r6', e6, rx6⟩ := finBlock_spec s5 segment.hdr (BitVec.ofNat 32 segment.text.length)
                  rw [e6] at h6
                  cases h6
                  rw [e6] at e
                  have n6 : s6.state ≠ .SynSent := fun hx => n5 (rx6.synsent hx)
                  cases r6 <;> (cases e; exact ⟨g6, n6⟩)

theorem drain_irs (fuel : Nat) (s : Tcb) (h : s.state ≠ .SynSent) (s' : Tcb) (r : SegmentArrivesResult)
    (e : drain fuel s = .ok (s', r)) : r = .Ok → IrsKeep s s' := by
  induction fuel generalizing s with
  | zero => unfold drain at e; cases e; exact fun _ => ⟨rfl, h⟩
  | succ n ih =>
    unfold drain at e
    split at e
    · cases e; exact fun _ => ⟨rfl, h⟩
    · split at e
      · cases e; exact fun _ => ⟨rfl, h⟩
      · split at e
        · simp at e
        · rename_i segment rest hpop
          cases hp : processSegment { s with incoming.segments := rest } segment with
          | error err => rw [hp] at e; simp at e
          | ok p1 =>
            obtain ⟨s1, r1⟩ := p1
            rw [hp] at e
            dsimp only at e
            have k := processSegment_irs { s with incoming.segments := rest } segment h s1 r1 hp
            split at e
            · cases e; exact fun hr => by simp at hr
            · intro hr
              have k2 := ih s1 k.notSynSent e hr
              exact ⟨k2.irs.trans k.irs, k2.notSynSent⟩

/-- **`segment_arrives` outside SYN-SENT never changes IRS** (and never returns to SYN-SENT) -/
theorem segmentArrives_irs (s : Tcb) (segment : Segment) (h : s.state ≠ .SynSent) (s' : Tcb)
    (e : s.segmentArrives segment = .ok (s', .Ok)) : IrsKeep s s' := by
  unfold segmentArrives at e
  dsimp only at e
  split at e
  · simp at e
  · rw [enqueue_eq] at e
    cases e
    exact ⟨by rw [(enqueueBuilt_frame _ _).2.1], by rw [state_enqueueBuilt]; exact h⟩
  · have k := drain_irs _ { s with incoming.segments := LHeap.push segLe s.incoming.segments segment } h _ _ e rfl
    exact ⟨k.irs, k.notSynSent⟩

end Tcb
end Elvis.Tcp
