import ElvisVerif.Model.Codec.Ipv4
import ElvisVerif.Model.Codec.Udp
import ElvisVerif.Model.Codec.Tcp
import Driver.Common
/-! Line-protocol handlers for the IPv4 / UDP / TCP codecs and the checksum accumulator:
sub-commands `c08-ipv4`, `c08-udp`, `c08-tcp` (also used by `c18-*` and `c14-ipv4/udp/tcp`).
Every op line is self-contained; the only state is the `ck` flag (is the code under test built
with `compute_checksum`), announced by the harness with a `ck 0|1` line after every `case`. -/
namespace Driver.C08
open Elvis.Codec Elvis.Ck

def nat? (s : String) : Option Nat := s.toNat?

def nats? (ws : List String) : Option (List Nat) := ws.mapM nat?

def failStr {ε : Type} (f : ε → String) : Fail ε → String
  | .err e => "err " ++ f e
  | .panic s => s

/-- flip bit `i` (bit 0 = most significant bit of byte 0); out of range = no-op -/
def flipBit : List UInt8 → Nat → List UInt8
  | [], _ => []
  | b :: r, i => if i < 8 then (b ^^^ ((0x80 : UInt8) >>> i.toUInt8)) :: r else b :: flipBit r (i - 8)

def parseBits (s : String) : List Nat := (s.splitOn ",").filterMap nat?

/-! ### IPv4 -/

def ip4PErr : Ipv4.ParseError → String
  | .headerTooShort => "HeaderTooShort"
  | .incorrectIpv4Version => "IncorrectIpv4Version"
  | .invalidHeaderLength => "InvalidHeaderLength"
  | .usedReservedTos => "UsedReservedTos"
  | .usedReservedFlag => "UsedReservedFlag"
  | .invalidTotalLength => "InvalidTotalLength"
  | .checksum e a => s!"Checksum expected={e} actual={a}"

def ip4BErr : Ipv4.BuildError → String
  | .overlyLongPayload => "OverlyLongPayload"
  | .overlyLongFragmentOffset => "OverlyLongFragmentOffset"

def ip4Hdr (h : Ipv4.Header) : String :=
  s!"{h.ihl} {h.tos} {h.totalLength} {h.identification} {h.fragmentOffset} {h.flags} {h.ttl} {h.protocol} {h.checksum} {h.source} {h.destination}"

def ip4Builder? (ws : List String) : Option Ipv4.Builder := do
  match ← nats? ws with
  | [tos, pl, id, fo, fl, ttl, pr, src, dst] =>
    pure { tos := tos, payloadLength := pl, identification := id, fragmentOffset := fo, flags := fl,
           ttl := ttl, protocol := pr, source := src, destination := dst }
  | _ => none

def ip4DecAnswer (ck : Bool) (bs : List UInt8) : String :=
  match Ipv4.fromBytes ck bs with
  | .error f => failStr ip4PErr f
  | .ok h =>
    let re := match Ipv4.serialize ck h with
      | .ok b => toHex b
      | .error (.err e) => "err:" ++ ip4BErr e
      | .error (.panic s) => s
    s!"ok {ip4Hdr h} re={re}"

def ip4Op (ck : Bool) (op : String) (ws : List String) : Option String :=
  match op, ws with
  | "ip4build", ws => do
    let b ← ip4Builder? ws
    pure (match Ipv4.build ck b with
      | .ok bytes => "ok " ++ toHex bytes
      | .error f => failStr ip4BErr f)
  | "ip4dec", [h] => do pure (ip4DecAnswer ck (← parseHex h))
  | "ip4flip", [bits, h] => do
    pure (ip4DecAnswer ck ((parseBits bits).foldl flipBit (← parseHex h)))
  | "ip4rt", ws => do
    if ws.length ≠ 10 then none
    let b ← ip4Builder? (ws.take 9)
    let payload ← parseHex (ws.getD 9 "")
    pure (match Ipv4.build ck b with
      | .error f => failStr ip4BErr f
      | .ok bytes =>
        match Ipv4.fromBytes ck (bytes ++ payload) with
        | .ok h => "ok " ++ ip4Hdr h
        | .error f => failStr ip4PErr f)
  | "ip4ser", ws => do
    match ← nats? ws with
    | [ihl, tos, tl, id, fo, fl, ttl, pr, c, src, dst] =>
      let h : Ipv4.Header :=
        { ihl := ihl, tos := tos, totalLength := tl, identification := id,
          fragmentOffset := fo, flags := fl, ttl := ttl, protocol := pr, checksum := c, source := src,
          destination := dst }
      pure (match Ipv4.serialize ck h with
        | .ok bytes => "ok " ++ toHex bytes
        | .error f => failStr ip4BErr f)
    | _ => none
  | "ip4tos", [t] => do
    let t ← nat? t
    pure (match Ipv4.tosPrecedence t, Ipv4.tosDelay t, Ipv4.tosThroughput t, Ipv4.tosReliability t with
      | .ok p, .ok d, .ok th, .ok r => s!"ok {p} {d} {th} {r}"
      | .error (.panic s), _, _, _ => s
      | _, .error (.panic s), _, _ => s
      | _, _, .error (.panic s), _ => s
      | _, _, _, .error (.panic s) => s
      | _, _, _, _ => "err")
  | "ip4tosnew", [p, d, t, r] => do
    pure s!"ok {Ipv4.tosNew (← nat? p) (← nat? d) (← nat? t) (← nat? r)}"
  | "ip4flags", [m, l] =>
    let v := Ipv4.flagsNew (m == "1") (l == "1")
    some s!"ok {v} {(Ipv4.flagsMayFragment v).toNat} {(Ipv4.flagsIsLastFragment v).toNat}"
  | _, _ => none

/-! ### checksum accumulator -/

def cksumItem (ck : Bool) (acc : Nat) (it : String) : Option Nat :=
  match it.splitOn ":" with
  | ["h", v] => do pure (add16 ck acc (← nat? v))
  | ["b", a, b] => do pure (addU8 ck acc (← nat? a) (← nat? b))
  | ["w", v] => do pure (addWord32 ck acc (← nat? v))
  | ["r", h] => do pure (accumulateRemainder ck acc (← parseHex h))
  | _ => none

def cksumOp (ck : Bool) (ws : List String) : Option String := do
  let acc ← ws.foldlM (cksumItem ck) 0
  pure s!"raw={acc} as={asU16 ck acc}"

/-! ### UDP -/

def udpPErr : Udp.ParseError → String
  | .headerTooShort => "HeaderTooShort"
  | .lengthMismatch => "LengthMismatch"
  | .checksum a e => s!"Checksum expected={e} actual={a}"

def udpDecAnswer (ck : Bool) (bs : List UInt8) (plen src dst : Nat) : String :=
  match Udp.fromBytes ck bs plen src dst with
  | .error f => failStr udpPErr f
  | .ok h =>
    let re :=
      if plen == bs.length && bs.length ≥ 8 then
        match Udp.build ck src h.source dst h.destination (bs.drop 8) (bs.length - 8) with
        | .ok b => toHex b
        | .error (.err .overlyLongPayload) => "err:OverlyLongPayload"
        | .error (.panic s) => s
      else "skip"
    s!"ok {h.source} {h.destination} {h.length} {h.checksum} re={re}"

def udpOp (ck : Bool) (op : String) (ws : List String) : Option String :=
  match op, ws with
  | "udpbuild", [src, sp, dst, dp, tl, h] => do
    pure (match Udp.build ck (← nat? src) (← nat? sp) (← nat? dst) (← nat? dp) (← parseHex h) (← nat? tl) with
      | .ok b => "ok " ++ toHex b
      | .error (.err .overlyLongPayload) => "err OverlyLongPayload"
      | .error (.panic s) => s)
  | "udpdec", [pl, src, dst, h] => do
    pure (udpDecAnswer ck (← parseHex h) (← nat? pl) (← nat? src) (← nat? dst))
  | "udpflip", [bits, pl, src, dst, h] => do
    pure (udpDecAnswer ck ((parseBits bits).foldl flipBit (← parseHex h)) (← nat? pl) (← nat? src) (← nat? dst))
  | "udprt", [src, sp, dst, dp, h] => do
    let (src, sp, dst, dp, text) := (← nat? src, ← nat? sp, ← nat? dst, ← nat? dp, ← parseHex h)
    pure (match Udp.build ck src sp dst dp text text.length with
      | .error (.err .overlyLongPayload) => "err OverlyLongPayload"
      | .error (.panic s) => s
      | .ok b =>
        match Udp.fromBytes ck (b ++ text) (b.length + text.length) src dst with
        | .ok h => s!"ok {h.source} {h.destination} {h.length} {h.checksum}"
        | .error f => failStr udpPErr f)
  | _, _ => none

/-! ### TCP -/

def tcpPErr : Tcp.ParseError → String
  | .headerTooShort => "HeaderTooShort"
  | .packetTooLong => "PacketTooLong"
  | .unexpectedOptions => "UnexpectedOptions"
  | .checksum a e => s!"Checksum expected={e} actual={a}"

def tcpHdr (h : Tcp.Header) : String :=
  s!"{h.srcPort} {h.dstPort} {h.seq} {h.ack} {h.dataOffset} {h.ctl} {h.wnd} {h.urg} {h.checksum}"

def tcpSetter (h : Tcp.Header) (s : String) : Option Tcp.Header :=
  match s.splitOn "=" with
  | ["wnd", v] => do pure (Tcp.builderWnd h (← nat? v))
  | ["ack", v] => do pure (Tcp.builderAck h (← nat? v))
  | ["urg", v] => do pure (Tcp.builderUrg h (← nat? v))
  | ["psh"] => some (Tcp.builderPsh h)
  | ["rst"] => some (Tcp.builderRst h)
  | ["syn"] => some (Tcp.builderSyn h)
  | ["fin"] => some (Tcp.builderFin h)
  | _ => none

def tcpBuilder? (sp dp seq setters : String) : Option Tcp.Header := do
  let h := Tcp.builderNew (← nat? sp) (← nat? dp) (← nat? seq)
  if setters == "-" then pure h else (setters.splitOn ",").foldlM tcpSetter h

def tcpDecAnswer (ck : Bool) (bs : List UInt8) (plen src dst : Nat) : String :=
  match Tcp.fromBytes ck bs plen src dst with
  | .error f => failStr tcpPErr f
  | .ok h => s!"ok {tcpHdr h} re={toHex (Tcp.serialize h)}"

def bit (b : Bool) : Nat := b.toNat

def tcpOp (ck : Bool) (op : String) (ws : List String) : Option String :=
  match op, ws with
  | "tcpbuild", [sp, dp, seq, setters, src, dst, tl, h] => do
    let b ← tcpBuilder? sp dp seq setters
    pure (match Tcp.build ck b (← nat? src) (← nat? dst) (← parseHex h) (← nat? tl) with
      | .ok hd => s!"ok {tcpHdr hd} ser={toHex (Tcp.serialize hd)}"
      | .error (.err .overlyLongPayload) => "err OverlyLongPayload"
      | .error (.panic s) => s)
  | "tcpser", ws => do
    match ← nats? ws with
    | [sp, dp, seq, ack, doff, ctl, wnd, urg, c] =>
      let h : Tcp.Header :=
        { srcPort := sp, dstPort := dp, seq := seq, ack := ack, dataOffset := doff,
          ctl := ctl, wnd := wnd, urg := urg, checksum := c }
      let hb := match Tcp.headerBytes h with
        | .ok n => toString n
        | .error (.panic s) => s
        | .error (.err _) => "err"
      pure s!"ok {toHex (Tcp.serialize h)} hb={hb}"
    | _ => none
  | "tcpdec", [pl, src, dst, h] => do
    pure (tcpDecAnswer ck (← parseHex h) (← nat? pl) (← nat? src) (← nat? dst))
  | "tcpflip", [bits, pl, src, dst, h] => do
    pure (tcpDecAnswer ck ((parseBits bits).foldl flipBit (← parseHex h)) (← nat? pl) (← nat? src) (← nat? dst))
  | "tcprt", [sp, dp, seq, setters, src, dst, h] => do
    let b ← tcpBuilder? sp dp seq setters
    let (src, dst, text) := (← nat? src, ← nat? dst, ← parseHex h)
    pure (match Tcp.build ck b src dst text text.length with
      | .error (.err .overlyLongPayload) => "err OverlyLongPayload"
      | .error (.panic s) => s
      | .ok hd =>
        match Tcp.fromBytes ck (Tcp.serialize hd ++ text) (20 + text.length) src dst with
        | .ok h2 => "ok " ++ tcpHdr h2
        | .error f => failStr tcpPErr f)
  | "tcpctl", [u, a, p, r, s, f] =>
    let b := fun (x : String) => x == "1"
    let v := Tcp.ctlNew (b u) (b a) (b p) (b r) (b s) (b f)
    some s!"ok {v} {bit (Tcp.ctlUrg v)} {bit (Tcp.ctlAck v)} {bit (Tcp.ctlPsh v)} {bit (Tcp.ctlRst v)} {bit (Tcp.ctlSyn v)} {bit (Tcp.ctlFin v)}"
  | "tcpbits", [v] => do
    let v ← nat? v
    pure s!"ok {bit (Tcp.ctlUrg v)} {bit (Tcp.ctlAck v)} {bit (Tcp.ctlPsh v)} {bit (Tcp.ctlRst v)} {bit (Tcp.ctlSyn v)} {bit (Tcp.ctlFin v)}"
  | _, _ => none

/-- state = the `ck` flag -/
def step (ck : Bool) (ws : List String) : Bool × String :=
  match ws with
  | ["case", id] => (ck, s!"case {id}")
  | ["ck", v] => (v == "1", s!"ck {v}")
  | op :: rest =>
    let r :=
      if op.startsWith "ip4" then ip4Op ck op rest
      else if op == "cksum" then cksumOp ck rest
      else if op.startsWith "udp" then udpOp ck op rest
      else if op.startsWith "tcp" then tcpOp ck op rest
      else none
    (ck, r.getD "bad-op")
  | [] => (ck, "bad-op")

def dispatch (sub : String) (i o : IO.FS.Stream) : Option (IO Unit) :=
  if sub == "c08-ipv4" || sub == "c08-udp" || sub == "c08-tcp" then
    some (Driver.loop i o step false)
  else none

end Driver.C08
