#!/usr/bin/env python3
"""Source -> Lean extraction (run on every check).

Reads /repo's *current* Rust sources and (re)writes lean/ElvisVerif/Generated/*.lean:
numeric constants, the one-expression arithmetic kernels, and structural certificates.
Fails closed: anything it cannot translate is an error (reported by ./check as a broken tie).
Files are rewritten only when their content changes, so Lean's build cache stays valid.
"""
import os, re, sys

REPO = os.environ.get("ELVIS_REPO") or os.path.normpath(os.path.join(os.path.dirname(os.path.abspath(__file__)), "..", "..", "repo"))
CORE = os.path.join(REPO, "sim", "elvis-core", "src")
ELVIS = os.path.join(REPO, "sim", "elvis", "src")
OUT = os.path.join(os.path.dirname(os.path.abspath(__file__)), "..", "lean", "ElvisVerif", "Generated")


class ExtractError(Exception):
    pass


def read(path):
    with open(path) as f:
        return f.read()


def strip_comments(src):
    src = re.sub(r"/\*.*?\*/", "", src, flags=re.S)
    return re.sub(r"//[^\n]*", "", src)


def write_if_changed(name, text):
    p = os.path.join(OUT, name)
    os.makedirs(OUT, exist_ok=True)
    if os.path.exists(p) and read(p) == text:
        return
    with open(p, "w") as f:
        f.write(text)


def check_message_immutability():
    """C07 structural certificate: message/ holds no unsafe code, no in-place mutation of shared
    chunk storage and no interior mutability."""
    bad = []
    files = [os.path.join(CORE, "message.rs")] + [os.path.join(CORE, "message", f) for f in sorted(os.listdir(os.path.join(CORE, "message")))]
    for p in files:
        src = strip_comments(read(p)).split("#[cfg(test)]")[0]
        for tok in ("unsafe", "get_mut(", "make_mut(", "RefCell", "Cell<", "Mutex", "RwLock", "Atomic", "as_mut_ptr", "get_mut_unchecked"):
            if tok in src:
                bad.append(f"{os.path.relpath(p, REPO)}: `{tok}`")
    if bad:
        raise ExtractError("message/ is no longer evidently immutable-by-construction: " + "; ".join(bad))


def fn_body(src, start):
    """text of the brace-balanced block that starts at the first '{' at or after `start`"""
    j = src.index("{", start)
    d = 0
    for k in range(j, len(src)):
        if src[k] == "{":
            d += 1
        elif src[k] == "}":
            d -= 1
            if d == 0:
                return src[j:k + 1]
    raise ExtractError("unbalanced braces")


SEND_LIKE = ["send(", "send_pci(", ".open(", "open_and_listen(", "open_for_sending(", "connect(", "spawn(", "send_message(", "send_to(", "resolve("]


def gen_sim_cert():
    """C13: per `Protocol::start` implementation: number of barrier waits and whether a
    frame-producing call precedes the wait; barrier sizing; shutdown channel capacity; outer
    timeout slack."""
    import glob
    rows = []
    files = sorted(glob.glob(os.path.join(CORE, "**", "*.rs"), recursive=True) + glob.glob(os.path.join(ELVIS, "**", "*.rs"), recursive=True))
    for p in files:
        src = strip_comments(read(p))
        if "impl Protocol for" not in src:
            continue
        for m in re.finditer(r"impl\s+Protocol\s+for\s+([A-Za-z0-9_<>:, ]+?)\s*\{", src):
            impl = fn_body(src, m.end() - 1)
            sm = re.search(r"async\s+fn\s+start\s*\(", impl)
            if not sm:
                raise ExtractError(f"{p}: impl Protocol for {m.group(1)} has no async fn start")
            sig_end = impl.index(")", sm.end())
            # skip to the body: first '{' after the return type
            body = fn_body(impl, impl.index("StartError", sig_end))
            waits = len(re.findall(r"\.wait\(\)\s*\.await", body))
            pre = re.split(r"\.wait\(\)\s*\.await", body)[0] if waits else body
            send_before = any(t in pre for t in SEND_LIKE)
            name = os.path.relpath(p, os.path.join(REPO, "sim")) + "::" + re.sub(r"\s+", "", m.group(1))
            rows.append((name, waits, send_before))
    if len(rows) < 10:
        raise ExtractError("found suspiciously few Protocol implementations: %d" % len(rows))
    inet = re.sub(r"\s+", " ", strip_comments(read(os.path.join(CORE, "internet.rs"))))
    mach = re.sub(r"\s+", " ", strip_comments(read(os.path.join(CORE, "machine.rs"))))
    shut = re.sub(r"\s+", " ", strip_comments(read(os.path.join(CORE, "shutdown.rs"))))
    sized = bool(re.search(r"let total_protocols: usize = machines \.iter\(\) \.map\(\|machine\| machine\.protocol_count\(\)\) \.sum\(\);", inet)) \
        and "Barrier::new(total_protocols)" in inet \
        and bool(re.search(r"for machine in machines \{.*?handles\.spawn\(machine\.start\(shutdown, initialized\)\);", inet))
    per_proto = bool(re.search(r"for protocol in self\.iter\(\) \{.*?\.start\(shutdown_clone, initialized_clone, self_clone\).*?handles\.spawn\(fut\);", mach)) \
        and bool(re.search(r"pub fn protocol_count\(&self\) -> usize \{ self\.protocols\.len\(\) \}", mach)) \
        and bool(re.search(r"pub fn iter\(&self\).*?\{ self\.protocols\.values\(\)", mach))
    mcap = re.search(r"broadcast::channel\((\d+)\)", shut)
    if not mcap:
        raise ExtractError("shutdown.rs: broadcast::channel(<literal>) not found")
    mslack = re.search(r"tokio::time::timeout\(duration \+ Duration::from_secs\((\d+)\), future\)", inet)
    if not mslack:
        raise ExtractError("internet.rs: outer timeout(duration + Duration::from_secs(<literal>)) not found")
    receiver_first = inet.find("shutdown.clone().receiver()") != -1 and inet.find("shutdown.clone().receiver()") < inet.find("handles.spawn(machine.start")
    cell = ("let _ = self.first.set(ExitStatus::Exited);" in shut and "let _ = self.first.set(status.clone());" in shut
            and inet.count("first_status.get().cloned().unwrap_or(result)") >= 2
            and inet.find("let first_status = shutdown.first_status();") != -1
            and inet.find("let first_status = shutdown.first_status();") < inet.find("handles.spawn(machine.start"))
    lines = ["-- GENERATED from /repo sources by tools/extract.py on every check; do not edit",
             "namespace Elvis.Gen",
             "structure StartCert where", "  name : String", "  waits : Nat", "  sendBeforeWait : Bool", "deriving Repr, DecidableEq", "",
             "/-- one row per `impl Protocol for T`: barrier waits in `start`, frame-producing call before the wait -/",
             "def startRoutines : List StartCert := ["]
    lines.append(",\n".join(f'  ⟨"{n}", {w}, {"true" if sb else "false"}⟩' for n, w, sb in rows))
    lines += ["]", "",
              f"def barrierSizedByProtocolCount : Bool := {'true' if sized else 'false'}",
              f"def machineSpawnsStartPerProtocol : Bool := {'true' if per_proto else 'false'}",
              f"def shutdownReceiverCreatedBeforeStart : Bool := {'true' if receiver_first else 'false'}",
              "/-- run_internet returns the set-once first-request status when one exists -/",
              f"def firstStatusCellUsed : Bool := {'true' if cell else 'false'}",
              f"def shutdownChannelCapacity : Nat := {mcap.group(1)}",
              f"def outerTimeoutSlackMs : Nat := {int(mslack.group(1)) * 1000}",
              "end Elvis.Gen", ""]
    write_if_changed("SimCert.lean", "\n".join(lines))


def gen_ndl_cert():
    """C19/C14: the type-tag alternatives of `get_type` in `alt` order and the matcher used for
    them, the string -> DecType table of `DecType::from` (with its fall-through), the DecType
    variants, and the sections `machine_parser` requires."""
    pu = strip_comments(read(os.path.join(ELVIS, "ndl", "parsing", "parser_util.rs")))
    pd = strip_comments(read(os.path.join(ELVIS, "ndl", "parsing", "parsing_data.rs")))
    mp = strip_comments(read(os.path.join(ELVIS, "ndl", "parsing", "machine_parser.rs")))
    m = re.search(r"fn\s+get_type\s*\(", pu)
    if not m:
        raise ExtractError("parser_util.rs: fn get_type not found")
    body = fn_body(pu, m.end())
    am = re.search(r"alt\s*\(\s*\((.*?)\)\s*,?\s*\)\s*,?\s*\)\s*\(input\)", body, flags=re.S)
    if not am:
        raise ExtractError("parser_util.rs: get_type is no longer `context(.., alt((..)))(input)`")
    entries = [e.strip() for e in am.group(1).split(",") if e.strip()]
    tags, matchers = [], set()
    for e in entries:
        em = re.fullmatch(r"([a-z_]+)\(\s*\"([A-Za-z]+)\"\s*\)", e)
        if not em:
            raise ExtractError(f"parser_util.rs: get_type alternative `{e}` is not <matcher>(\"<letters>\")")
        matchers.add(em.group(1))
        tags.append(em.group(2))
    if len(matchers) != 1 or not tags:
        raise ExtractError(f"parser_util.rs: get_type mixes matchers {sorted(matchers)}")
    matcher = matchers.pop()
    if matcher not in ("tag_no_case", "keyword"):
        raise ExtractError(f"parser_util.rs: unknown tag matcher `{matcher}` (model knows nom's tag_no_case and the local keyword)")
    if not re.search(r"\.map\(\|\(next_input, res\)\| \(next_input, res\.into\(\)\)\)", body):
        raise ExtractError("parser_util.rs: get_type no longer converts the matched tag with `.into()`")
    em = re.search(r"pub\s+enum\s+DecType\s*\{(.*?)\}", pd, flags=re.S)
    if not em:
        raise ExtractError("parsing_data.rs: enum DecType not found")
    variants = [v.strip() for v in em.group(1).split(",") if v.strip()]
    fm = re.search(r"impl\s+From<&str>\s+for\s+DecType", pd)
    if not fm:
        raise ExtractError("parsing_data.rs: impl From<&str> for DecType not found")
    fbody = fn_body(pd, fm.end())
    if "match i.to_lowercase().as_str()" not in re.sub(r"\s+", " ", fbody):
        raise ExtractError("parsing_data.rs: DecType::from no longer matches on i.to_lowercase()")
    table = re.findall(r"\"([a-z]+)\"\s*=>\s*DecType::([A-Za-z]+)\s*,", fbody)
    fall = re.search(r"_\s*=>\s*([a-z_]+!?)", fbody)
    if not table or not fall:
        raise ExtractError("parsing_data.rs: DecType::from arms not recognised")
    fallthrough = fall.group(1)
    if fallthrough not in ("unimplemented!", "panic!", "unreachable!", "todo!"):
        raise ExtractError(f"parsing_data.rs: DecType::from fall-through `{fallthrough}` not modelled")
    for _, v in table:
        if v not in variants:
            raise ExtractError(f"parsing_data.rs: DecType::{v} is not a variant")
    rm = re.search(r"let\s+mut\s+req\s*=\s*vec!\[(.*?)\]", mp, flags=re.S)
    if not rm:
        raise ExtractError("machine_parser.rs: `let mut req = vec![..]` not found")
    req = re.findall(r"DecType::([A-Za-z]+)", rm.group(1))
    # texts are emitted as `List Char` literals (the model is over `List Char`; kernel evaluation
    # of `String.toList` is avoided)
    cl = lambda x: "[" + ", ".join("'%s'" % c for c in x) + "]"
    q = lambda xs: "[" + ", ".join(cl(x) for x in xs) + "]"
    lines = ["-- GENERATED from /repo sources by tools/extract.py on every check; do not edit",
             "namespace Elvis.Gen.Ndl",
             "/-- alternatives of `get_type`'s `alt((..))`, in source order -/",
             f"def tagAlt : List (List Char) := {q(tags)}  -- {' '.join(tags)}",
             "/-- the combinator applied to each alternative: nom's `tag_no_case` or the local `keyword` -/",
             f'def tagMatcher : String := "{matcher}"',
             "/-- variants of `enum DecType`, in source order -/",
             f"def decTypeVariants : List (List Char) := {q(variants)}",
             "/-- arms of `DecType::from` (`i.to_lowercase()` => variant); anything else hits the fall-through -/",
             "def decTypeTable : List (List Char × List Char) := [" + ", ".join("(%s, %s)" % (cl(k), cl(v)) for k, v in table) + "]",
             f'def decTypeFallthrough : String := "{fallthrough}"',
             "/-- sections `machine_parser` requires exactly once each -/",
             f"def machineRequired : List (List Char) := {q(req)}",
             "end Elvis.Gen.Ndl", ""]
    write_if_changed("NdlCert.lean", "\n".join(lines))


def main():
    check_message_immutability()
    gen_sim_cert()
    gen_ndl_cert()
    consts = ["-- GENERATED from /repo sources by tools/extract.py on every check; do not edit", "namespace Elvis.Gen", "end Elvis.Gen", ""]
    write_if_changed("Consts.lean", "\n".join(consts))


if __name__ == "__main__":
    try:
        main()
    except ExtractError as e:
        print("EXTRACT-ERROR:", e)
        sys.exit(1)
