import ElvisVerif.Lemmas.TcpFullGap
/-!
# Every fair round is defined, from every reachable state

`step_any`: from a state satisfying `Good`, any plain op other than `write` succeeds (`c01_step_total`), is one step
of a `PlainRun`, leaves `Good` and does not touch the `submitted` logs.  `deliver_hist`: a delivery does not extend
the history (the LISTEN / CLOSED handlers would answer with a RST, which `NoRst` excludes).  `deliverRange_any`,
`phase_any`, `fairRound_any`: the same for a range of deliveries, an exchange phase and a fair round, with the
trace of the deliveries (every element emitted in the phase is delivered at some intermediate state that satisfies
`Good`).
-/
namespace Elvis.Tcp.Full
open Elvis.ModCmp Elvis.Tcp.Tcb

variable {iss : SideId → Seq}

theorem room_of_sub {s s1 : Sys} (h : RoomH s) (e : ∀ y, (s1.side y).submitted = (s.side y).submitted) : RoomH s1 := by
  have a := e .A
  have b := e .B
  exact ⟨by show (s1.side .A).submitted.length + 2 < _; rw [a]; exact h.1,
    by show (s1.side .B).submitted.length + 2 < _; rw [b]; exact h.2⟩

/-- any plain op but `write` -/
theorem step_any (s : Sys) (hg : Good iss s) (op : Op) (hp : Op.Plain s op) (hnw : ∀ x b, op ≠ .write x b) :
    ∃ s1 r, s.step op = .ok (s1, r) ∧ PlainRun s s1 ∧ Good iss s1 ∧
      (∀ y, (s1.side y).submitted = (s.side y).submitted) := by
  have hv : op.Valid := by
    cases op <;> first | trivial | exact hp.elim
  obtain ⟨s1, r, e, _⟩ := c01_step_total s hg.ext.wf op hv
  have hsub := fun y => C01.step_sub_eq hnw e y
  have r01 : PlainRun s s1 := .step (.refl _) hp e
  exact ⟨s1, r, e, r01, good_of_run hg r01 (room_of_sub hg.room hsub), hsub⟩

/-- a delivery does not extend the history -/
theorem deliver_hist (s : Sys) (hg : Good iss s) (x : SideId) (i : Nat) (s1 : Sys) (r : Res)
    (e : s.step (.deliver x i) = .ok (s1, r)) (hg1 : Good iss s1) :
    s1.history = s.history ∧ s1.historyLen = s.historyLen := by
  simp only [Sys.step, Op.side] at e
  split at e
  · cases e; exact ⟨rfl, rfl⟩
  · rename_i σ hn
    unfold Sys.arrive at e
    dsimp only at e
    split at e
    · split at e
      · cases e
      · cases e; exact ⟨history_setSide _ _ _, historyLen_setSide _ _ _⟩
      · cases e; exact ⟨history_setSide _ _ _, historyLen_setSide _ _ _⟩
    · rename_i htcb
      split at e
      · split at e
        · cases e
        · cases e; exact ⟨rfl, rfl⟩
        · cases e; exact ⟨history_setSide _ _ _, historyLen_setSide _ _ _⟩
        · rename_i hd h1
          exfalso
          simp only [Except.ok.injEq, Prod.mk.injEq] at e
          have hr : hd.ctl.rst = true := by
            unfold segmentArrivesListen at h1
            dsimp only at h1
            split at h1
            · cases h1
            · split at h1
              · rw [Hdr.build_zero] at h1
                simp only [Option.map_some, Except.ok.injEq, Option.some.injEq, ListenResult.Response.injEq] at h1
                rw [← h1]; rfl
              · split at h1
                · rw [Tcb.enqueue_eq] at h1
                  simp at h1
                · cases h1
          have := hg1.conv.nr.hist ⟨hd, []⟩ (by rw [← e.1, mem_history_record]; exact Or.inl (by simp))
          rw [hr] at this; cases this
      · rename_i hlis
        exfalso
        rcases hg.conv.nr.alive x with ha | ha
        · rw [htcb] at ha; cases ha
        · rw [hlis] at ha; cases ha

/-- a run of deliveries and reads (each delivery ends in a state satisfying the invariants) -/
inductive QuietRun (iss : SideId → Seq) : Sys → Sys → Prop
  | refl (s : Sys) : QuietRun iss s s
  | del {s s1 s2 : Sys} {x : SideId} {i : Nat} {r : Res} : QuietRun iss s s1 →
      s1.step (.deliver x i) = .ok (s2, r) → Good iss s2 → QuietRun iss s s2
  | rd {s s1 s2 : Sys} {x : SideId} {r : Res} : QuietRun iss s s1 → s1.step (.read x) = .ok (s2, r) → QuietRun iss s s2

theorem QuietRun.trans {a b c : Sys} (h1 : QuietRun iss a b) (h2 : QuietRun iss b c) : QuietRun iss a c := by
  induction h2 with
  | refl => exact h1
  | del _ e g ih => exact .del ih e g
  | rd _ e ih => exact .rd ih e

/-- what is recorded about one delivery of a range -/
structure Delivered (iss : SideId → Seq) (x : SideId) (i : Nat) (s0 sEnd : Sys) : Prop where
  ex : ∃ sa sb r, PlainRun s0 sa ∧ Good iss sa ∧ sa.step (.deliver x i) = .ok (sb, r) ∧ Good iss sb ∧ PlainRun sb sEnd ∧
    sa.history = s0.history ∧ sa.historyLen = s0.historyLen ∧ sa.side x.peer = s0.side x.peer ∧ QuietRun iss sb sEnd

theorem nth_of_hist {s s1 : Sys} (h1 : s1.history = s.history) (h2 : s1.historyLen = s.historyLen) (i : Nat) :
    s1.nth i = s.nth i := by
  unfold Sys.nth; rw [h1, h2]

/-- a delivery to `x` leaves the peer's side alone -/
theorem deliver_peer (s : Sys) (x : SideId) (i : Nat) (s1 : Sys) (r : Res) (e : s.step (.deliver x i) = .ok (s1, r))
    (hh : s1.history = s.history) : s1.side x.peer = s.side x.peer := by
  simp only [Sys.step, Op.side] at e
  split at e
  · cases e; rfl
  · unfold Sys.arrive at e
    dsimp only at e
    repeat' split at e
    all_goals first
      | (cases e; rfl)
      | (cases e; exact side_setSide_peer _ _ _)
      | (cases e; rw [side_record])
      | cases e

/-- a range of addressed deliveries -/
theorem deliverRange_any (n : Nat) : ∀ (s : Sys) (x : SideId) (lo : Nat), Good iss s →
    (∀ j, j < n → ∀ σ, s.nth (lo + j) = some σ → σ.hdr.srcPort = x.peer.port ∧ σ.hdr.dstPort = x.port) →
    ∃ s1, deliverRange s x lo n = .ok s1 ∧ PlainRun s s1 ∧ Good iss s1 ∧
      (∀ y, (s1.side y).submitted = (s.side y).submitted) ∧ s1.history = s.history ∧ s1.historyLen = s.historyLen ∧
      s1.side x.peer = s.side x.peer ∧ QuietRun iss s s1 ∧
      (∀ j, j < n → Delivered iss x (lo + j) s s1) := by
  induction n with
  | zero =>
    intro s x lo hg _
    exact ⟨s, rfl, .refl _, hg, fun _ => rfl, rfl, rfl, rfl, .refl _, fun j hj => absurd hj (Nat.not_lt_zero _)⟩
  | succ n ih =>
    intro s x lo hg hn
    have hp : Op.Plain s (.deliver x lo) := fun σ hσ => hn 0 (by omega) σ (by simpa using hσ)
    obtain ⟨s1, r1, e1, p1, g1, sub1⟩ := step_any s hg (.deliver x lo) hp (fun _ _ h => by cases h)
    obtain ⟨hh1, hl1⟩ := deliver_hist s hg x lo s1 r1 e1 g1
    have hpeer1 := deliver_peer s x lo s1 r1 e1 hh1
    obtain ⟨s2, e2, p2, g2, sub2, hh2, hl2, hpeer2, q2', tr2⟩ := ih s1 x (lo + 1) g1 (fun j hj σ hσ => by
      rw [nth_of_hist hh1 hl1] at hσ
      exact hn (j + 1) (by omega) σ (by rw [show lo + (j + 1) = lo + 1 + j by omega]; exact hσ))
    have q01 : QuietRun iss s s1 := .del (.refl _) e1 g1
    refine ⟨s2, ?_, p1.trans p2, g2, fun y => (sub2 y).trans (sub1 y), hh2.trans hh1, hl2.trans hl1,
      hpeer2.trans hpeer1, q01.trans q2', fun j hj => ?_⟩
    · simp only [deliverRange, e1]
      exact e2
    · cases j with
      | zero =>
        exact ⟨s, s1, r1, .refl _, hg, by simpa using e1, g1, p2, rfl, rfl, rfl, q2'⟩
      | succ j =>
        obtain ⟨sa, sb, r, q1, ga, ea, gb, q2, ha, hla, hpa, qq⟩ := (tr2 j (by omega)).ex
        exact ⟨sa, sb, r, p1.trans q1, ga, by rw [show lo + (j + 1) = lo + 1 + j by omega]; exact ea, gb, q2,
          ha.trans hh1, hla.trans hl1, hpa.trans hpeer1, qq⟩

/-! ## `emit`, `tick`, `read` with their traces -/

/-- what `emit x` does to the system -/
structure EmitT (iss : SideId → Seq) (x : SideId) (s s1 : Sys) (out : List Segment) : Prop where
  run : PlainRun s s1
  good : Good iss s1
  sub : ∀ y, (s1.side y).submitted = (s.side y).submitted
  len : s1.historyLen = s.historyLen + out.length
  new : ∀ j (hj : j < out.length), s1.nth (s.historyLen + j) = some out[j]
  old : ∀ i, i < s.historyLen → s1.nth i = s.nth i
  ports : ∀ σ ∈ out, σ.hdr.srcPort = x.port ∧ σ.hdr.dstPort = x.peer.port
  peer : s1.side x.peer = s.side x.peer
  tcb : ∀ t, (s.side x).tcb = some t → ∃ t', t.segments = .ok (t', out) ∧ (s1.side x).tcb = some t'
  none : (s.side x).tcb = none → out = [] ∧ s1 = s

theorem emit_any (s : Sys) (hg : Good iss s) (x : SideId) :
    ∃ s1 r out, s.step (.emit x) = .ok (s1, r) ∧ EmitT iss x s s1 out := by
  obtain ⟨s1, r, e, p1, g1, sub1⟩ := step_any s hg (.emit x) trivial (fun _ _ h => by cases h)
  cases ht : (s.side x).tcb with
  | none =>
    have : s1 = s := by
      simp only [Sys.step, Op.side, ht] at e
      cases e; rfl
    subst this
    exact ⟨s1, r, [], e, p1, g1, sub1, rfl, fun j hj => absurd hj (Nat.not_lt_zero _), fun _ _ => rfl,
      fun σ hσ => (by cases hσ), rfl, fun t h => (by rw [ht] at h; cases h), fun _ => ⟨rfl, rfl⟩⟩
  | some t =>
    cases hs : t.segments with
    | error err =>
      simp only [Sys.step, Op.side, ht, hs] at e
      cases e
    | ok p =>
      obtain ⟨t', out⟩ := p
      obtain ⟨s1', r1', st1, h1a, h1p, h1sub, _, h1len, h1new, h1old⟩ := emit_facts s x t t' out ht hs
      rw [st1] at e
      simp only [Except.ok.injEq, Prod.mk.injEq] at e
      obtain ⟨rfl, rfl⟩ := e
      obtain ⟨sb, lp, rp⟩ := (hg.conv.full.inv.link x).snd t ht
      have hroom := room_of_inv hg.conv.c01 hg.room x t ht
      obtain ⟨_, _, _, hout, _, _, _⟩ := segments_snd t t' out hs sb hroom
      refine ⟨s1', r1', out, st1, p1, g1, sub1, h1len, h1new, h1old, fun σ hσ => ?_, h1p,
        fun u hu => (by rw [ht] at hu; cases hu; exact ⟨t', hs, h1a⟩), fun h => (by rw [ht] at h; cases h)⟩
      exact ⟨by rw [(hout σ hσ).2.1, lp], by rw [(hout σ hσ).2.2, rp]⟩

/-- what `tick x (RTO + 1)` does -/
structure TickT (iss : SideId → Seq) (x : SideId) (s s1 : Sys) : Prop where
  run : PlainRun s s1
  good : Good iss s1
  sub : ∀ y, (s1.side y).submitted = (s.side y).submitted
  hist : s1.history = s.history ∧ s1.historyLen = s.historyLen
  peer : s1.side x.peer = s.side x.peer
  tcb : ∀ t, (s.side x).tcb = some t → ∃ t1, (s1.side x).tcb = some t1 ∧ Flagged t t1
  none : (s.side x).tcb = none → s1 = s

theorem tick_any {mt : SideId → U16} (s : Sys) (hg : Good iss s) (hf : FInv iss mt s) (x : SideId) :
    ∃ s1 r, s.step (.tick x (RTO + 1)) = .ok (s1, r) ∧ TickT iss x s s1 := by
  obtain ⟨s1, r, e, p1, g1, sub1⟩ := step_any s hg (.tick x (RTO + 1)) trivial (fun _ _ h => by cases h)
  cases ht : (s.side x).tcb with
  | none =>
    have : s1 = s := by
      simp only [Sys.step, Op.side, ht] at e
      cases e; rfl
    subst this
    exact ⟨s1, r, e, p1, g1, sub1, ⟨rfl, rfl⟩, rfl, fun t h => (by rw [ht] at h; cases h), fun _ => rfl⟩
  | some t =>
    have tw : t.timeouts.timeWait = none := by
      have := (hg.conv.nr.tcb x t ht).tw
      cases h : t.timeouts.timeWait with
      | none => rfl
      | some v =>
        have := this (by rw [h]; rfl)
        have h3 := (hg.tinv x t ht).st
        rw [this] at h3
        exact h3.elim
    obtain ⟨t1, e1, k1⟩ := advanceTime_expire t (RTO + 1) (by have := (hf.tcb x t ht).tmo; omega) tw
    have e' : s.step (.tick x (RTO + 1)) = .ok (s.setSide x { s.side x with tcb := some t1 }, .tick .Ignore) := by
      simp only [Sys.step, Op.side, ht, e1]
    rw [e'] at e
    simp only [Except.ok.injEq, Prod.mk.injEq] at e
    obtain ⟨rfl, rfl⟩ := e
    exact ⟨_, _, e', p1, g1, sub1, ⟨history_setSide _ _ _, historyLen_setSide _ _ _⟩, side_setSide_peer _ _ _,
      fun u hu => (by rw [ht] at hu; cases hu; exact ⟨t1, by rw [side_setSide_same], k1⟩),
      fun h => (by rw [ht] at h; cases h)⟩

/-- what `read x` does -/
structure ReadT (iss : SideId → Seq) (x : SideId) (s s1 : Sys) : Prop where
  run : PlainRun s s1
  good : Good iss s1
  sub : ∀ y, (s1.side y).submitted = (s.side y).submitted
  hist : s1.history = s.history ∧ s1.historyLen = s.historyLen
  peer : s1.side x.peer = s.side x.peer
  tcb : ∀ t, (s.side x).tcb = some t → (s1.side x).tcb = some t.receive.1
  none : (s.side x).tcb = none → s1 = s

theorem read_any (s : Sys) (hg : Good iss s) (x : SideId) :
    ∃ s1 r, s.step (.read x) = .ok (s1, r) ∧ ReadT iss x s s1 := by
  obtain ⟨s1, r, e, p1, g1, sub1⟩ := step_any s hg (.read x) trivial (fun _ _ h => by cases h)
  cases ht : (s.side x).tcb with
  | none =>
    have : s1 = s := by
      simp only [Sys.step, Op.side, ht] at e
      cases e; rfl
    subst this
    exact ⟨s1, r, e, p1, g1, sub1, ⟨rfl, rfl⟩, rfl, fun t h => (by rw [ht] at h; cases h), fun _ => rfl⟩
  | some t =>
    have e' := sys_read s x t ht
    rw [e'] at e
    simp only [Except.ok.injEq, Prod.mk.injEq] at e
    obtain ⟨rfl, rfl⟩ := e
    exact ⟨_, _, e', p1, g1, sub1, ⟨history_setSide _ _ _, historyLen_setSide _ _ _⟩, side_setSide_peer _ _ _,
      fun u hu => (by rw [ht] at hu; cases hu; rw [side_setSide_same]), fun h => (by rw [ht] at h; cases h)⟩

/-! ## the phase -/

/-- the trace of one exchange phase -/
structure PhaseT (iss : SideId → Seq) (s s' : Sys) : Prop where
  ex : ∃ (s1 s2 s3 s4 s5 : Sys) (outA outB : List Segment),
    EmitT iss .A s s1 outA ∧ EmitT iss .B s1 s2 outB ∧
    PlainRun s2 s3 ∧ Good iss s3 ∧ s3.history = s2.history ∧ s3.historyLen = s2.historyLen ∧ s3.side .A = s2.side .A ∧
    (∀ j, j < outA.length → Delivered iss .B (s.historyLen + j) s2 s3) ∧
    PlainRun s3 s4 ∧ Good iss s4 ∧ s4.history = s3.history ∧ s4.historyLen = s3.historyLen ∧ s4.side .B = s3.side .B ∧
    (∀ j, j < outB.length → Delivered iss .A (s1.historyLen + j) s3 s4) ∧
    ReadT iss .A s4 s5 ∧ ReadT iss .B s5 s' ∧ QuietRun iss s3 s' ∧ QuietRun iss s4 s'

theorem phase_any (s : Sys) (hg : Good iss s) :
    ∃ s', phase s = .ok s' ∧ PlainRun s s' ∧ Good iss s' ∧ (∀ y, (s'.side y).submitted = (s.side y).submitted) ∧
      PhaseT iss s s' := by
  obtain ⟨s1, r1, outA, e1, tA⟩ := emit_any s hg .A
  obtain ⟨s2, r2, outB, e2, tB⟩ := emit_any s1 tA.good .B
  have hnA : ∀ j, j < outA.length → ∀ σ, s2.nth (s.historyLen + j) = some σ →
      σ.hdr.srcPort = SideId.B.peer.port ∧ σ.hdr.dstPort = SideId.B.port := by
    intro j hj σ hσ
    rw [tB.old _ (by rw [tA.len]; omega), tA.new j hj] at hσ
    cases hσ
    exact tA.ports _ (List.getElem_mem hj)
  obtain ⟨s3, e3, p3, g3, sub3, hh3, hl3, hp3, q23, tr3⟩ := deliverRange_any outA.length s2 .B s.historyLen tB.good hnA
  have hnB : ∀ j, j < outB.length → ∀ σ, s3.nth (s1.historyLen + j) = some σ →
      σ.hdr.srcPort = SideId.A.peer.port ∧ σ.hdr.dstPort = SideId.A.port := by
    intro j hj σ hσ
    rw [nth_of_hist hh3 hl3, tB.new j hj] at hσ
    cases hσ
    exact tB.ports _ (List.getElem_mem hj)
  obtain ⟨s4, e4, p4, g4, sub4, hh4, hl4, hp4, q34, tr4⟩ := deliverRange_any outB.length s3 .A s1.historyLen g3 hnB
  obtain ⟨s5, r5, e5, t5⟩ := read_any s4 g4 .A
  obtain ⟨s6, r6, e6, t6⟩ := read_any s5 t5.good .B
  refine ⟨s6, ?_, ((((tA.run.trans tB.run).trans p3).trans p4).trans t5.run).trans t6.run, t6.good,
    fun y => by rw [t6.sub, t5.sub, sub4, sub3, tB.sub, tA.sub],
    ⟨s1, s2, s3, s4, s5, outA, outB, tA, tB, p3, g3, hh3, hl3, hp3, tr3, p4, g4, hh4, hl4, hp4, tr4, t5, t6,
      q34.trans (.rd (.rd (.refl _) e5) e6), .rd (.rd (.refl _) e5) e6⟩⟩
  unfold phase
  rw [e1]
  dsimp only
  rw [e2]
  dsimp only
  have l1 : s1.historyLen - s.historyLen = outA.length := by have := tA.len; omega
  have l2 : s2.historyLen - s1.historyLen = outB.length := by have := tB.len; omega
  rw [l1, e3]
  dsimp only
  rw [l2, e4]
  dsimp only
  rw [e5]
  dsimp only
  rw [e6]

/-- `k` phases -/
theorem phases_any (k : Nat) : ∀ (s : Sys), Good iss s →
    ∃ s', phases k s = .ok s' ∧ PlainRun s s' ∧ Good iss s' ∧ (∀ y, (s'.side y).submitted = (s.side y).submitted) := by
  induction k with
  | zero => intro s hg; exact ⟨s, rfl, .refl _, hg, fun _ => rfl⟩
  | succ k ih =>
    intro s hg
    obtain ⟨s1, e1, p1, g1, sub1, _⟩ := phase_any s hg
    obtain ⟨s2, e2, p2, g2, sub2⟩ := ih s1 g1
    exact ⟨s2, by simp only [phases, e1]; exact e2, p1.trans p2, g2, fun y => (sub2 y).trans (sub1 y)⟩

/-- **every fair round is defined**: from a state satisfying the invariants `fairRound k` succeeds, is a run of plain
    ops, keeps the invariants and does not touch the `submitted` logs -/
theorem fairRound_any {mt : SideId → U16} (k : Nat) (s : Sys) (hg : Good iss s) (hf : FInv iss mt s) :
    ∃ s', fairRound k s = .ok s' ∧ PlainRun s s' ∧ Good iss s' ∧ (∀ y, (s'.side y).submitted = (s.side y).submitted) := by
  obtain ⟨s1, r1, e1, t1⟩ := tick_any s hg hf .A
  have hf1 : FInv iss mt s1 := finv_run hg.conv hg.ext hf t1.run t1.good.room
  obtain ⟨s2, r2, e2, t2⟩ := tick_any s1 t1.good hf1 .B
  obtain ⟨s3, e3, p3, g3, sub3⟩ := phases_any k s2 t2.good
  refine ⟨s3, ?_, (t1.run.trans t2.run).trans p3, g3, fun y => by rw [sub3, t2.sub, t1.sub]⟩
  unfold fairRound
  rw [e1]
  dsimp only
  rw [e2]
  exact e3

end Elvis.Tcp.Full
