-- GENERATED from /repo sources (arp_parsing.rs, dns_parsing.rs, dhcp_parsing.rs) by tools/extract.py on every check; do not edit
namespace Elvis.Gen.CodecB
/-- the name delimiter literal of dns_parsing.rs (from_bytes x2, build x2) -/
def dnsDelim : UInt8 := 32
/-- the string terminator literal of dhcp_parsing.rs (from_bytes x2, to_message x2) -/
def dhcpTerm : UInt8 := 0
/-- `enum MessageType` discriminants (and `try_from` inverts them: checked by the extractor) -/
def dhcpTypeCodes : List (String × Nat) := [("Discover", 1), ("Offer", 2), ("Request", 3), ("Decline", 4), ("Ack", 5), ("Nack", 6), ("Release", 7)]
/-- `enum Operation` discriminants (and `from_bytes` inverts them: checked by the extractor) -/
def arpOperationCodes : List (String × Nat) := [("Request", 1), ("Reply", 2)]
def arpHtype : Nat := 1
def arpPtype : Nat := 2048
def arpHlen : Nat := 6
def arpPlen : Nat := 4
def arpSize : Nat := 28
end Elvis.Gen.CodecB
