//! harness-core: correspondence + oracle runs for properties that need `elvis-core` only.
mod props;
use hcommon::{install_panic_hook, parse_args};

fn main() {
    install_panic_hook();
    let args = parse_args();
    match args.prop.as_str() {
        "c07" => props::c07::run(&args),
        p => {
            eprintln!("hcore: unknown property {}", p);
            std::process::exit(2);
        }
    }
}
