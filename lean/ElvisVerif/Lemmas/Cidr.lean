import ElvisVerif.Lemmas.Subnet
/-!
Helper lemmas for C09 (CIDR text): rendering then parsing is the identity.
-/
namespace Elvis.Subnet

/-! ### decimal rendering -/

theorem isDigit_iff (c : Nat) : isDigit c = true ↔ 48 ≤ c ∧ c ≤ 57 := by
  unfold isDigit; rw [Bool.and_eq_true, decide_eq_true_iff, decide_eq_true_iff]

theorem digitsVal_append (xs ys : Str) (acc : Nat) :
    digitsVal acc (xs ++ ys) =
      match digitsVal acc xs with
      | some v => digitsVal v ys
      | none => none := by
  induction xs generalizing acc with
  | nil => simp [digitsVal]
  | cons c cs ih =>
    simp only [List.cons_append, digitsVal]
    split
    · exact ih _
    · rfl

theorem renderDecFuel_spec (f n : Nat) (h : n ≤ f) :
    digitsVal 0 (renderDecFuel f n) = some n ∧ (∀ c ∈ renderDecFuel f n, isDigit c = true) ∧
      renderDecFuel f n ≠ [] := by
  induction f generalizing n with
  | zero =>
    have : n = 0 := by omega
    subst this
    refine ⟨by decide, by decide, by decide⟩
  | succ f ih =>
    unfold renderDecFuel
    by_cases h10 : n < 10
    · rw [if_pos h10]
      have hd : isDigit (48 + n) = true := by rw [isDigit_iff]; omega
      refine ⟨?_, ?_, by simp⟩
      · simp only [digitsVal, hd, if_true, digitVal]; congr 1; omega
      · intro c hc; simp only [List.mem_singleton] at hc; rw [hc]; exact hd
    · rw [if_neg h10]
      obtain ⟨h1, h2, _⟩ := ih (n / 10) (by omega)
      have hd : isDigit (48 + n % 10) = true := by rw [isDigit_iff]; omega
      refine ⟨?_, ?_, by simp⟩
      · rw [digitsVal_append, h1]
        simp only [digitsVal, hd, if_true, digitVal]; congr 1; omega
      · intro c hc
        rw [List.mem_append] at hc
        cases hc with
        | inl hc => exact h2 c hc
        | inr hc => simp only [List.mem_singleton] at hc; rw [hc]; exact hd

theorem renderDec_val (n : Nat) : digitsVal 0 (renderDec n) = some n :=
  (renderDecFuel_spec n n (Nat.le_refl n)).1

theorem renderDec_digits (n : Nat) : ∀ c ∈ renderDec n, isDigit c = true :=
  (renderDecFuel_spec n n (Nat.le_refl n)).2.1

theorem renderDec_ne_nil (n : Nat) : renderDec n ≠ [] :=
  (renderDecFuel_spec n n (Nat.le_refl n)).2.2

/-- shape of the rendering of an octet: 1–3 digits, a leading `0` only for `0` itself -/
theorem table_octet : ∀ x : Fin 256,
    (renderDec x.val).length ≤ 3 ∧
      ((renderDec x.val).head? = some 48 → (renderDec x.val).length ≤ 1) := by decide +kernel

/-! ### parsing what was rendered -/

theorem readDigits3_digits (ds : Str) (acc cnt : Nat) (rest : Str) (v : Nat)
    (hv : digitsVal acc ds = some v) (hc : cnt + ds.length ≤ 3)
    (hr : rest = [] ∨ ∃ c cs, rest = c :: cs ∧ isDigit c = false) :
    readDigits3 acc cnt (ds ++ rest) = some (v, cnt + ds.length, rest) := by
  induction ds generalizing acc cnt with
  | nil =>
    simp only [digitsVal] at hv
    injection hv with hv
    subst hv
    cases hr with
    | inl h => subst h; simp [readDigits3]
    | inr h =>
      obtain ⟨c, cs, rfl, hcd⟩ := h
      simp [readDigits3, hcd]
  | cons d ds ih =>
    simp only [digitsVal] at hv
    split at hv
    · rename_i hd
      simp only [List.cons_append, readDigits3, hd, if_true]
      simp only [List.length_cons] at hc
      rw [if_neg (by omega)]
      rw [ih _ (cnt + 1) hv (by omega)]
      simp only [List.length_cons]
      congr 3; omega
    · cases hv

theorem readOctet_render (x : Nat) (hx : x < 256) (rest : Str)
    (hr : rest = [] ∨ ∃ c cs, rest = c :: cs ∧ isDigit c = false) :
    readOctet (renderDec x ++ rest) = some (x, rest) := by
  obtain ⟨hlen, hlead⟩ := table_octet ⟨x, hx⟩
  simp only at hlen hlead
  have hne := renderDec_ne_nil x
  have hrd := readDigits3_digits (renderDec x) 0 0 rest x (renderDec_val x) (by omega) hr
  unfold readOctet
  simp only [hrd, Nat.zero_add]
  have hpos : 0 < (renderDec x).length := List.length_pos_iff.mpr hne
  rw [if_neg (by omega), if_neg (by omega)]
  have hhead : (renderDec x ++ rest).head? = (renderDec x).head? := by
    cases h : renderDec x with
    | nil => exact absurd h hne
    | cons a as => rfl
  rw [hhead]
  by_cases h48 : (renderDec x).head? = some 48
  · have := hlead h48
    have hc : ¬ ((renderDec x).length > 1) := by omega
    simp [hc]
  · have : ((renderDec x).head? == some 48) = false := by
      rw [beq_eq_false_iff_ne]; exact h48
    simp [this]

theorem dot_not_digit (cs : Str) : (46 :: cs : Str) = [] ∨ ∃ c cs', (46 :: cs : Str) = c :: cs' ∧ isDigit c = false :=
  Or.inr ⟨46, cs, rfl, by decide⟩

theorem readIpv4_render (a b c d : Nat) (ha : a < 256) (hb : b < 256) (hc : c < 256) (hd : d < 256) :
    readIpv4 (renderDec a ++ 46 :: (renderDec b ++ 46 :: (renderDec c ++ 46 :: renderDec d))) =
      some (BitVec.ofNat 32 (((a * 256 + b) * 256 + c) * 256 + d), []) := by
  unfold readIpv4
  have h4 := readOctet_render d hd [] (Or.inl rfl)
  rw [List.append_nil] at h4
  simp only [readOctet_render a ha _ (dot_not_digit _), readOctet_render b hb _ (dot_not_digit _),
    readOctet_render c hc _ (dot_not_digit _), h4, readDot, bind, Option.bind, pure]

theorem renderIp_eq (ip : Addr) :
    renderIp ip = renderDec (ip.toNat / 16777216) ++ 46 :: (renderDec (ip.toNat / 65536 % 256) ++
      46 :: (renderDec (ip.toNat / 256 % 256) ++ 46 :: renderDec (ip.toNat % 256))) := by
  unfold renderIp
  simp only [List.append_assoc, List.cons_append, List.nil_append]

theorem ipv4FromStr_render (ip : Addr) : ipv4FromStr (renderIp ip) = some ip := by
  have hlt := ip.isLt
  have ha : ip.toNat / 16777216 < 256 := by omega
  have hb : ip.toNat / 65536 % 256 < 256 := by omega
  have hc : ip.toNat / 256 % 256 < 256 := by omega
  have hd : ip.toNat % 256 < 256 := by omega
  unfold ipv4FromStr
  have hlen : ¬ (renderIp ip).length > 15 := by
    rw [renderIp_eq]
    have l1 := (table_octet ⟨_, ha⟩).1
    have l2 := (table_octet ⟨_, hb⟩).1
    have l3 := (table_octet ⟨_, hc⟩).1
    have l4 := (table_octet ⟨_, hd⟩).1
    simp only at l1 l2 l3 l4
    simp only [List.length_append, List.length_cons]
    omega
  rw [if_neg hlen, renderIp_eq, readIpv4_render _ _ _ _ ha hb hc hd]
  simp only
  congr 1
  apply BitVec.eq_of_toNat_eq
  rw [BitVec.toNat_ofNat]
  omega

theorem u32FromStr_render (k : Nat) (hk : k < 2 ^ 32) : u32FromStr (renderDec k) = some k := by
  have hne := renderDec_ne_nil k
  have hdig := renderDec_digits k
  have hval := renderDec_val k
  cases h : renderDec k with
  | nil => exact absurd h hne
  | cons c cs =>
    rw [h] at hdig hval
    have hc : isDigit c = true := hdig c (List.mem_cons_self)
    rw [isDigit_iff] at hc
    have h43 : c ≠ 43 := by omega
    have h45 : c ≠ 45 := by omega
    unfold u32FromStr
    split
    · rename_i heq; cases heq
    · rename_i heq; injection heq with h1 _; exact absurd h1 h43
    · rename_i heq; injection heq with h1 _; exact absurd h1 h45
    · rename_i c' cs' _ _ heq
      injection heq with h1 h2
      subst h1; subst h2
      simp only [if_neg h43, hval, if_pos hk]

/-! ### splitting at `/` -/

theorem splitOn_no_sep (sep : Nat) (xs : Str) (h : sep ∉ xs) : splitOn sep xs = [xs] := by
  induction xs with
  | nil => rfl
  | cons c cs ih =>
    have hc : c ≠ sep := fun e => h (e ▸ List.mem_cons_self)
    have hcs : sep ∉ cs := fun e => h (List.mem_cons_of_mem _ e)
    simp only [splitOn, if_neg hc, ih hcs]

theorem splitOn_append (sep : Nat) (xs ys : Str) (h : sep ∉ xs) :
    splitOn sep (xs ++ sep :: ys) = xs :: splitOn sep ys := by
  induction xs with
  | nil => simp [splitOn]
  | cons c cs ih =>
    have hc : c ≠ sep := fun e => h (e ▸ List.mem_cons_self)
    have hcs : sep ∉ cs := fun e => h (List.mem_cons_of_mem _ e)
    simp only [List.cons_append, splitOn, if_neg hc, ih hcs]

theorem slash_not_in_dec (n : Nat) : 47 ∉ renderDec n := by
  intro h
  have := renderDec_digits n 47 h
  revert this; decide

theorem slash_not_in_ip (ip : Addr) : 47 ∉ renderIp ip := by
  rw [renderIp_eq]
  intro h
  simp only [List.mem_append, List.mem_cons] at h
  have := slash_not_in_dec
  rcases h with h | h | h | h | h | h | h
  · exact this _ h
  · cases h
  · exact this _ h
  · cases h
  · exact this _ h
  · cases h
  · exact this _ h

theorem cidrToIp_render (ip : Addr) (k : Nat) (hk : k < 2 ^ 32) :
    cidrToIp (renderCidr ip k) = .ok (ip, Mask.fromBitcount k) := by
  unfold cidrToIp renderCidr
  rw [List.append_assoc, List.singleton_append, splitOn_append 47 _ _ (slash_not_in_ip ip),
    splitOn_no_sep 47 _ (slash_not_in_dec k)]
  simp only [ipv4FromStr_render, u32FromStr_render k hk]

end Elvis.Subnet
