/-
Model of the `BytesExt` readers of sim/elvis-core/src/protocols/utility.rs and the result type
shared by the header codecs.  A reader consumes from the front of a byte list and returns the
value with the rest; `none` is "the iterator ran dry" (the callers turn it into
`HeaderTooShort`).  Values are `Nat` (the big-endian number).  No imports.
-/
namespace Elvis.Codec

/-- outcome of a codec function that can fail: a reported error of kind `ε`, or a panic of the
    dev profile at the named site -/
inductive Fail (ε : Type) where
  | err (e : ε)
  | panic (site : String)
deriving DecidableEq, Repr

abbrev Res (ε α : Type) := Except (Fail ε) α

def Res.isPanic {ε α : Type} : Res ε α → Bool
  | .error (.panic _) => true
  | _ => false

/-- `u8` from a number (`as u8` / one element of `to_be_bytes`) -/
def n2b (n : Nat) : UInt8 := UInt8.ofNat n

/-- `BytesExt::next_u8` -/
def nextU8 : List UInt8 → Option (Nat × List UInt8)
  | a :: r => some (a.toNat, r)
  | [] => none

/-- `BytesExt::next_u16_be` -/
def nextU16 : List UInt8 → Option (Nat × List UInt8)
  | a :: b :: r => some (a.toNat * 256 + b.toNat, r)
  | _ => none

/-- `BytesExt::next_u32_be` (also `next_ipv4addr`) -/
def nextU32 : List UInt8 → Option (Nat × List UInt8)
  | a :: b :: c :: d :: r =>
    some (a.toNat * 16777216 + b.toNat * 65536 + c.toNat * 256 + d.toNat, r)
  | _ => none

/-- `u16::to_be_bytes` -/
def be16 (v : Nat) : List UInt8 := [n2b (v / 256), n2b v]

/-- `u32::to_be_bytes` -/
def be32 (v : Nat) : List UInt8 := [n2b (v / 16777216), n2b (v / 65536), n2b (v / 256), n2b v]

end Elvis.Codec
