//! C06: correspondence + oracle runs (sub-commands `c06` / `c06-*`).
use hcommon::*;

pub fn run(args: &Args) {
    eprintln!("hfull: {} not implemented yet", args.prop);
    std::process::exit(2);
}
