import ElvisVerif.Lemmas.C01Blocks
import ElvisVerif.Model.TcpSys
/-!
# C01 — the stream invariant through `process_segment`, `segment_arrives` and the API calls

`processSegment_inv` composes the block lemmas; `drain_inv` / `segmentArrives_inv` carry the
invariant through the reorder heap and its gate (`SEG.SEQ ≤ RCV.NXT`, which under H31 orders the
offsets linearly).  `send_inv`, `receive_inv`, `segments_inv`, `advanceTime_fr`, `open_inv`,
`listen_inv`, `closed_plain` cover everything else a step of the closed system can do.
-/
namespace Elvis.Tcp.C01
open Elvis.ModCmp Elvis.Tcp.Tcb

@[simp] theorem andThen_error (x : String) (f : Tcb → B) : B.andThen (.error x) f = .error x := rfl

section
variable {port : U16} {issX issY : Seq} {subX subY delX : List UInt8}

/-- `process_segment` keeps the invariant for a valid segment that passed the heap gate -/
theorem processSegment_inv {t t' : Tcb} {g : Segment} {r : ProcessSegmentResult}
    (h : TInv port issX issY subX subY delX t) (hv : Valid issY subY g) (h31 : subY.length < 2147483648)
    (hgate : t.state ≠ .SynSent → modGt g.hdr.seq t.rcv.nxt = false)
    (e : t.processSegment g = .ok (t', r)) : TInv port issX issY subX subY delX t' := by
  unfold processSegment at e
  dsimp only at e
  have hv' : Valid issY subY ⟨g.hdr, g.text⟩ := hv
  cases h1 : seqCheck t g.hdr (BitVec.ofNat 32 g.text.length) with
  | error x => rw [h1] at e; simp at e
  | ok p1 =>
    obtain ⟨t1, r1⟩ := p1
    rw [h1] at e
    have i1 := h.of_fr (seqCheck_fr h1)
    cases r1 with
    | some r1 => simp only [andThen_some, Except.ok.injEq, Prod.mk.injEq] at e; rw [← e.1]; exact i1
    | none =>
      have e1 : t1 = t := seqCheck_none h1
      subst e1
      simp only [andThen_none] at e
      cases h2 : ackBlock t1 g.hdr with
      | error x => rw [h2] at e; simp at e
      | ok p2 =>
        obtain ⟨t2, r2⟩ := p2
        rw [h2] at e
        have f2 := ackBlock_fr h.st h2
        have i2 := h.of_fr f2
        cases r2 with
        | some r2 => simp only [andThen_some, Except.ok.injEq, Prod.mk.injEq] at e; rw [← e.1]; exact i2
        | none =>
          simp only [andThen_none] at e
          cases h3 : rstBlock t2 g.hdr with
          | error x => rw [h3] at e; simp at e
          | ok p3 =>
            obtain ⟨t3, r3⟩ := p3
            rw [h3] at e
            have e3 : t3 = t2 := rstBlock_eq h3
            subst e3
            cases r3 with
            | some r3 => simp only [andThen_some, Except.ok.injEq, Prod.mk.injEq] at e; rw [← e.1]; exact i2
            | none =>
              simp only [andThen_none] at e
              cases h4 : synBlock t3 g.hdr with
              | error x => rw [h4] at e; simp at e
              | ok p4 =>
                obtain ⟨t4, r4⟩ := p4
                rw [h4] at e
                -- the invariant after block 4, and what block 5 needs when block 4 falls through
                have k4 : TInv port issX issY subX subY delX t4 ∧
                    (r4 = none → t4.state ≠ .SynSent ∧ (g.text ≠ [] → modGt g.hdr.seq t4.rcv.nxt = false)) := by
                  by_cases hs : t3.state = .SynSent
                  · obtain ⟨i4, n4⟩ := synBlock_synSent i2 hs hv' h4
                    exact ⟨i4, fun hr => ⟨(n4 hr).1, fun hne => absurd (n4 hr).2 hne⟩⟩
                  · have f4 := synBlock_fr hs h4
                    refine ⟨i2.of_fr f4, fun _ => ⟨fun h0 => hs (f4.synSent.1 h0), fun _ => ?_⟩⟩
                    rw [f4.rcv, f2.rcv]
                    exact hgate (fun h0 => hs (f2.synSent.2 h0))
                obtain ⟨i4, n4⟩ := k4
                cases r4 with
                | some r4 => simp only [andThen_some, Except.ok.injEq, Prod.mk.injEq] at e; rw [← e.1]; exact i4
                | none =>
                  simp only [andThen_none] at e
                  obtain ⟨hns4, hg4⟩ := n4 rfl
                  cases h5 : textBlock t4 g.hdr g.text (BitVec.ofNat 32 g.text.length) with
                  | error x => rw [h5] at e; simp at e
                  | ok p5 =>
                    obtain ⟨t5, r5⟩ := p5
                    rw [h5] at e
                    have i5 := textBlock_inv i4 hns4 hv' h31 hg4 h5
                    cases r5 with
                    | some r5 => simp only [andThen_some, Except.ok.injEq, Prod.mk.injEq] at e; rw [← e.1]; exact i5
                    | none =>
                      simp only [andThen_none] at e
                      cases h6 : finBlock t5 g.hdr (BitVec.ofNat 32 g.text.length) with
                      | error x => rw [h6] at e; simp at e
                      | ok p6 =>
                        obtain ⟨t6, r6⟩ := p6
                        rw [h6] at e
                        have e6 : t6 = t5 := finBlock_eq hv.fin h6
                        subst e6
                        cases r6 <;>
                          (simp only [Except.ok.injEq, Prod.mk.injEq] at e; rw [← e.1]; exact i5)

/-- the processing loop of `segment_arrives` keeps the invariant -/
theorem drain_inv (fuel : Nat) {t t' : Tcb} {r : SegmentArrivesResult}
    (h : TInv port issX issY subX subY delX t) (h31 : subY.length < 2147483648)
    (e : drain fuel t = .ok (t', r)) : TInv port issX issY subX subY delX t' := by
  induction fuel generalizing t with
  | zero => unfold drain at e; cases e; exact h
  | succ n ih =>
    unfold drain at e
    split at e
    · cases e; exact h
    · rename_i top hpeek
      split at e
      · cases e; exact h
      · rename_i hgate
        obtain ⟨rest, hpop⟩ := LHeap.pop_of_peek (le := segLe) hpeek
        rw [hpop] at e
        dsimp only at e
        have hmem := LHeap.mem_of_mem_pop hpop
        have h0 : TInv port issX issY subX subY delX { t with incoming.segments := rest } :=
          ⟨h.lp, h.st, h.iss, h.out, h.rtx, h.one, fun g hg => h.heap g (hmem.2 g hg), h.rcv0, h.rcv1, h.irs⟩
        have hg : ({ t with incoming.segments := rest } : Tcb).state ≠ .SynSent →
            modGt top.hdr.seq ({ t with incoming.segments := rest } : Tcb).rcv.nxt = false := by
          intro hne
          cases hm : modGt top.hdr.seq t.rcv.nxt with
          | false => rfl
          | true =>
            exfalso; apply hgate
            have hne' : t.state ≠ .SynSent := hne
            simp [hne', hm]
        cases hp : processSegment { t with incoming.segments := rest } top with
        | error x => rw [hp] at e; cases e
        | ok p =>
          obtain ⟨s1, r1⟩ := p
          rw [hp] at e
          dsimp only at e
          have i1 := processSegment_inv h0 (h.heap top hmem.1) h31 hg hp
          split at e
          · cases e; exact i1
          · exact ih i1 e

/-- **`segment_arrives` keeps the invariant** for every valid segment of the peer -/
theorem segmentArrives_inv {t t' : Tcb} {g : Segment} {r : SegmentArrivesResult}
    (h : TInv port issX issY subX subY delX t) (hv : Valid issY subY g) (h31 : subY.length < 2147483648)
    (e : t.segmentArrives g = .ok (t', r)) : TInv port issX issY subX subY delX t' := by
  unfold segmentArrives at e
  dsimp only at e
  split at e
  · cases e
  · rw [enqueue_eq] at e
    cases e
    exact h.of_fr (Fr.enqAck _)
  · refine drain_inv _ ?_ h31 e
    refine ⟨h.lp, h.st, h.iss, h.out, h.rtx, h.one, fun x hx => ?_, h.rcv0, h.rcv1, h.irs⟩
    rcases LHeap.mem_push.1 hx with rfl | hx
    · exact hv
    · exact h.heap x hx

/-! ## the API calls -/

theorem TInv.buffered_prefix {t : Tcb} (h : TInv port issX issY subX subY delX t) :
    delX ++ t.incoming.text <+: subY := by
  by_cases hs : t.state = .SynSent
  · obtain ⟨a, b⟩ := h.rcv0 hs
    rw [a, b]; exact List.nil_prefix
  · exact (h.rcv1 hs).2

/-- `send`: the ghost log and the outgoing text grow together -/
theorem send_inv {t : Tcb} (h : TInv port issX issY subX subY delX t) (m : List UInt8) :
    TInv port issX issY (subX ++ (if sendAccepts t.state then m else [])) subY delX (t.send m) := by
  obtain ⟨pre, hpre, hnxt⟩ := h.out
  have key : sendAccepts t.state = true ∧ t.send m = { t with outgoing.text := t.outgoing.text ++ m } := by
    unfold send
    rcases h.st.cases with hs | hs | hs <;> rw [hs] <;> exact ⟨rfl, rfl⟩
  rw [key.1, key.2, if_pos rfl]
  refine ⟨h.lp, h.st, h.iss, ⟨pre, ?_, hnxt⟩, fun g hg => ⟨(h.rtx g hg).1.mono m, (h.rtx g hg).2⟩, h.one, h.heap,
    h.rcv0, h.rcv1, h.irs⟩
  show subX ++ m = pre ++ (t.outgoing.text ++ m)
  rw [hpre, List.append_assoc]

/-- `receive`: the buffered text moves to the delivered log -/
theorem receive_inv {t : Tcb} (h : TInv port issX issY subX subY delX t) :
    TInv port issX issY subX subY (delX ++ t.receive.2) t.receive.1 := by
  have key : t.receive = ({ t with incoming.text := [] }, t.incoming.text) := by
    unfold receive
    rcases h.st.cases with hs | hs | hs <;> rw [hs]
  rw [key]
  refine ⟨h.lp, h.st, h.iss, h.out, h.rtx, h.one, h.heap, fun hs => ?_, fun hs => ?_, h.irs⟩
  · obtain ⟨a, b⟩ := h.rcv0 hs
    exact ⟨by show delX ++ t.incoming.text = []; rw [a, b]; rfl, rfl⟩
  · obtain ⟨a, b⟩ := h.rcv1 hs
    refine ⟨?_, ?_⟩
    · show t.rcv.nxt = issY + 1 + BitVec.ofNat 32 ((delX ++ t.incoming.text).length + 0)
      rw [a, List.length_append, Nat.add_zero]
    · show (delX ++ t.incoming.text) ++ [] <+: subY
      rw [List.append_nil]; exact b

theorem build_some {h h' : Hdr} {n : Nat} (e : h.build n = some h') : h' = h.built := by
  unfold Hdr.build at e
  split at e
  · cases e
  · cases e; rfl

theorem take_length_take {α : Type} (b : Nat) (l : List α) : l.take (l.take b).length = l.take b := by
  rw [List.length_take]
  by_cases hb : b ≤ l.length
  · rw [Nat.min_eq_left hb]
  · rw [Nat.min_eq_right (by omega), List.take_length, List.take_of_length_le (by omega)]

/-- the segmentizing loop of `segments()` cuts valid slices off the outgoing text -/
theorem segmentize_inv (maxSeg fuel : Nat) {t t' : Tcb} (qb : Nat)
    (h : TInv port issX issY subX subY delX t) (e : segmentize maxSeg fuel t qb = .ok t') :
    TInv port issX issY subX subY delX t' := by
  induction fuel generalizing t qb with
  | zero => unfold segmentize at e; cases e; exact h
  | succ n ih =>
    unfold segmentize at e
    dsimp only at e
    split at e
    · cases e; exact h
    · split at e
      · cases e
      · rename_i header hb
        have hh := build_some hb
        subst hh
        refine ih _ ?_ e
        obtain ⟨pre, hpre, hnxt⟩ := h.out
        generalize min (min maxSeg (t.snd.wnd.toNat - qb)) t.outgoing.text.length = b
        refine ⟨h.lp, h.st, h.iss, ⟨pre ++ t.outgoing.text.take b, ?_, ?_⟩, fun g hg => ?_, h.one, h.heap, h.rcv0, h.rcv1, h.irs⟩
        · show subX = (pre ++ t.outgoing.text.take b) ++ t.outgoing.text.drop b
          rw [List.append_assoc, List.take_append_drop]; exact hpre
        · show t.snd.nxt + BitVec.ofNat 32 (t.outgoing.text.take b).length = _
          rw [hnxt, add_ofNat_assoc, List.length_append]
        · have hg' : g ∈ t.outgoing.retransmit.map (·.segment) ∨ g = ⟨t.ackHdr.built, t.outgoing.text.take b⟩ := by
            simpa [Transmit.new] using hg
          rcases hg' with hg' | rfl
          · exact h.rtx g hg'
          · refine ⟨⟨rfl, (fun h0 => by cases h0), fun _ => ⟨pre.length, ?_, ?_, ?_⟩⟩, h.lp⟩
            · exact hnxt
            · show pre.length + (t.outgoing.text.take b).length ≤ subX.length
              rw [hpre, List.length_append, List.length_take]; omega
            · show t.outgoing.text.take b = (subX.drop pre.length).take (t.outgoing.text.take b).length
              rw [hpre, List.drop_left, take_length_take]

/-- **`segments()` keeps the invariant and emits only valid segments carrying our port** -/
theorem segments_inv {t t' : Tcb} {out : List Segment}
    (h : TInv port issX issY subX subY delX t) (e : t.segments = .ok (t', out)) :
    TInv port issX issY subX subY delX t' ∧ ∀ g ∈ out, Valid issX subX g ∧ g.hdr.srcPort = port := by
  unfold segments at e
  dsimp only at e
  have h0 : TInv port issX issY subX subY delX { t with outgoing.oneshot := [] } :=
    ⟨h.lp, h.st, h.iss, h.out, h.rtx, (fun x hx => by cases hx), h.heap, h.rcv0, h.rcv1, h.irs⟩
  cases hs : segmentizeIfOpen { t with outgoing.oneshot := [] } with
  | error x => rw [hs] at e; cases e
  | ok s1 =>
    rw [hs] at e
    dsimp only at e
    have i1 : TInv port issX issY subX subY delX s1 := by
      unfold segmentizeIfOpen at hs
      split at hs
      all_goals first
        | (split at hs
           · cases hs
           · exact segmentize_inv _ _ _ h0 hs)
        | (cases hs; exact h0)
    -- nobody closed: no FIN is pending, `finIfPending` is the identity
    rw [h.st.finPending] at e
    unfold finIfPending at e
    rw [if_neg Bool.false_ne_true] at e
    dsimp only at e
    simp only [Except.ok.injEq, Prod.mk.injEq] at e
    obtain ⟨e1, e2⟩ := e
    have i2 : TInv port issX issY subX subY delX
        { s1 with outgoing.retransmit := s1.outgoing.retransmit.map fun t => { t with needsTransmit := false } } := by
      refine ⟨i1.lp, i1.st, i1.iss, i1.out, fun g hg => i1.rtx g ?_, i1.one, i1.heap, i1.rcv0, i1.rcv1, i1.irs⟩
      simpa [List.map_map, Function.comp_def] using hg
    refine ⟨?_, fun g hg => ?_⟩
    · rw [← e1]
      split
      · exact i2
      · exact ⟨i2.lp, i2.st, i2.iss, i2.out, i2.rtx, i2.one, i2.heap, i2.rcv0, i2.rcv1, i2.irs⟩
    · rw [← e2, List.mem_append] at hg
      rcases hg with hg | hg
      · rw [List.mem_map] at hg
        obtain ⟨hd, hhd, rfl⟩ := hg
        obtain ⟨a, b, c⟩ := h.one hd hhd
        exact ⟨Valid.plain hd a b, c⟩
      · exact i1.rtx g (mem_map_filter _ _ _ g hg)

/-- `advance_time` is a frame step -/
theorem advanceTime_fr {t t' : Tcb} {dt : Nat} {r : AdvanceTimeResult}
    (e : t.advanceTime dt = .ok (t', r)) : Fr t t' := by
  unfold advanceTime at e
  have f1 : ∀ s1, t.advanceRetransmission dt = .ok s1 → Fr t s1 := by
    intro s1 h1
    unfold advanceRetransmission at h1
    split at h1
    · cases h1
      refine ⟨rfl, rfl, rfl, rfl, rfl, rfl, Or.inl rfl, fun g hg => ?_, fun _ h => Or.inl h⟩
      simpa [List.map_map, Function.comp_def] using hg
    · first
        | (cases h1; fr_fields)
        | (split at h1
           · cases h1
           · cases h1; fr_fields)
  split at e
  · cases e
  · rename_i s1 h1
    have f := f1 s1 h1
    split at e
    · split at e
      · cases e; exact f
      · first
        | (cases e
           refine f.trans ?_
           fr_fields)
        | (split at e
           · cases e
           · cases e
             refine f.trans ?_
             fr_fields)
    · cases e; exact f

/-- an actively opened TCB satisfies the invariant with empty logs -/
theorem open_inv {lp rp : U16} {iss : Seq} {mtu : U16} {t : Tcb} (e : Tcb.open lp rp iss mtu = .ok t) :
    TInv lp iss issY [] subY [] t := by
  unfold Tcb.open at e
  dsimp only at e
  rw [enqueue_eq] at e
  cases e
  refine TInv.enqSyn ?_ _ rfl rfl rfl rfl
  refine ⟨rfl, trivial, rfl, ⟨[], rfl, ?_⟩, (fun g hg => by cases hg), (fun x hx => by cases hx), (fun g hg => by cases hg),
    fun _ => ⟨rfl, rfl⟩, fun h0 => absurd rfl h0, fun h0 => absurd rfl h0⟩
  show iss + 1 = iss + 1 + BitVec.ofNat 32 0
  simp

/-- LISTEN: a valid SYN creates a TCB satisfying the invariant with empty logs; a response is a
    plain header from the port the segment was addressed to -/
theorem listen_inv {g : Segment} {iss : Seq} {mtu : U16} {res : Option ListenResult}
    (hv : Valid issY subY g) (e : segmentArrivesListen g iss mtu = .ok res) :
    (∀ t, res = some (.Tcb t) → TInv g.hdr.dstPort iss issY [] subY [] t) ∧
    (∀ hd, res = some (.Response hd) → hd.ctl.syn = false ∧ hd.ctl.fin = false ∧ hd.srcPort = g.hdr.dstPort) := by
  unfold segmentArrivesListen at e
  dsimp only at e
  split at e
  · cases e; exact ⟨(fun _ h0 => by cases h0), (fun _ h0 => by cases h0)⟩
  · split at e
    · cases e
      refine ⟨fun t h0 => ?_, fun hd h0 => ?_⟩
      · cases hb : (Hdr.builder g.hdr.dstPort g.hdr.srcPort g.hdr.ack).withRst.build 0 <;> simp [hb] at h0
      · rw [Hdr.build_zero] at h0
        simp only [Option.map_some, Option.some.injEq, ListenResult.Response.injEq] at h0
        subst h0
        exact ⟨rfl, rfl, rfl⟩
    · split at e
      · rename_i hsyn
        obtain ⟨hseq, htext⟩ := hv.syn hsyn
        rw [enqueue_eq] at e
        dsimp only at e
        cases e
        refine ⟨fun t h0 => ?_, (fun _ h0 => by cases h0)⟩
        simp only [Option.some.injEq, ListenResult.Tcb.injEq] at h0
        subst h0
        -- the TCB before the SYN-ACK is queued and the SYN is parked
        have base : TInv g.hdr.dstPort iss issY [] subY []
            ({ localPort := g.hdr.dstPort, remotePort := g.hdr.srcPort, mtu, initiation := .Listen,
               state := .SynReceived,
               snd := { iss := iss, una := iss, nxt := iss + 1, wnd := g.hdr.wnd, wl1 := g.hdr.seq, wl2 := iss },
               rcv := { irs := g.hdr.seq, nxt := g.hdr.seq + 1 } } : Tcb) := by
          refine ⟨rfl, trivial, rfl, ⟨[], rfl, ?_⟩, (fun x hx => by cases hx), (fun x hx => by cases hx),
            (fun x hx => by cases hx), (fun h0 => by cases h0), fun _ => ⟨?_, List.nil_prefix⟩, fun _ => hseq⟩
          · show iss + 1 = iss + 1 + BitVec.ofNat 32 0
            simp
          · show g.hdr.seq + 1 = issY + 1 + BitVec.ofNat 32 (0 + 0)
            rw [hseq]; simp
        have i1 := base.enqSyn
          ((((Hdr.builder g.hdr.dstPort g.hdr.srcPort iss).withSyn).withAck (g.hdr.seq + 1)).withWnd ({} : Rcv).wnd).built
          rfl rfl rfl rfl
        refine ⟨i1.lp, i1.st, i1.iss, i1.out, i1.rtx, i1.one, fun x hx => ?_, i1.rcv0, i1.rcv1, i1.irs⟩
        rcases LHeap.mem_push.1 hx with rfl | hx
        · exact ⟨hv.fin, (fun h0 => by cases h0), fun hne => absurd htext hne⟩
        · exact i1.heap x hx
      · cases e; exact ⟨(fun _ h0 => by cases h0), (fun _ h0 => by cases h0)⟩

/-- CLOSED: the response is a plain header from the port the segment was addressed to -/
theorem closed_plain {seg : Hdr} {tl : Seq} {hd : Hdr} (e : segmentArrivesClosed seg tl = some hd) :
    hd.ctl.syn = false ∧ hd.ctl.fin = false ∧ hd.srcPort = seg.dstPort := by
  unfold segmentArrivesClosed at e
  split at e
  · cases e
  · split at e <;> (rw [Hdr.build_zero] at e; cases e; exact ⟨rfl, rfl, rfl⟩)

end
end Elvis.Tcp.C01
