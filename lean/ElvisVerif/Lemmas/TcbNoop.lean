import ElvisVerif.Lemmas.TcbInv
/-!
# Unacceptable segments: specification (written from RFC 9293, independent of `is_seq_ok`) and
the bridge to the code's acceptability test
-/
namespace Elvis.Tcp
open Elvis.ModCmp
namespace Tcb

/-- sequence number `n` lies in the receive window `[RCV.NXT, RCV.NXT + RCV.WND)` widened by
    `RCV.NXT − 1` on the left (the rule this implementation documents for keep-alives) -/
def InWindow (s : Tcb) (n : Seq) : Prop := (n - (s.rcv.nxt - 1)).toNat ≤ s.rcv.wnd.toNat

/-- none of the sequence numbers the segment occupies (its `SEG.SEQ` when it occupies none)
    lies in the window -/
def EntirelyOutside (s : Tcb) (seg : Segment) : Prop :=
  ∀ k, k < max 1 seg.segLen → ¬ InWindow s (seg.hdr.seq + BitVec.ofNat 32 k)

/-- what a conforming receiver must treat as unacceptable: in SYN-SENT a segment with neither
    SYN nor RST (RFC 9293 3.10.7.3); otherwise a segment entirely outside the receive window
    (3.10.7.4, first) -/
def Unacceptable (s : Tcb) (seg : Segment) : Prop :=
  if s.state = .SynSent then seg.hdr.ctl.syn = false ∧ seg.hdr.ctl.rst = false
  else EntirelyOutside s seg

/-- `s'` equals `s` in every field except that at most one header was appended to the one-shot
    output queue -/
structure OnlyOneshot (s s' : Tcb) : Prop where
  localPort : s'.localPort = s.localPort
  remotePort : s'.remotePort = s.remotePort
  mtu : s'.mtu = s.mtu
  initiation : s'.initiation = s.initiation
  state : s'.state = s.state
  snd : s'.snd = s.snd
  rcv : s'.rcv = s.rcv
  incoming : s'.incoming = s.incoming
  timeouts : s'.timeouts = s.timeouts
  text : s'.outgoing.text = s.outgoing.text
  retransmit : s'.outgoing.retransmit = s.outgoing.retransmit
  oneshot : ∃ l : List Hdr, l.length ≤ 1 ∧ s'.outgoing.oneshot = s.outgoing.oneshot ++ l

theorem inWindow_iff (s : Tcb) (n : Seq) : s.isInRcvWindow n = true ↔ InWindow s n := by
  rw [isInRcvWindow_iff]
  unfold InWindow
  have e : n - (s.rcv.nxt - 1) = (n - s.rcv.nxt) + 1 := by bv_omega
  rw [e]
  generalize (n - s.rcv.nxt) = d
  have h1 : (1 : BitVec 32).toNat = 1 := rfl
  simp only [BitVec.toNat_add, h1]
  have := d.isLt
  have := s.rcv.wnd.isLt
  omega

theorem ofNat_pred (n : Nat) (h : 0 < n) : BitVec.ofNat 32 n - 1 = BitVec.ofNat 32 (n - 1) := by
  have : n = (n - 1) + 1 := by omega
  conv => lhs; rw [this, BitVec.ofNat_add]
  bv_omega

/-- a segment entirely outside the window fails `is_seq_ok` -/
theorem isSeqOk_of_outside (s : Tcb) (seg : Segment) (hw : s.rcv.wnd ≠ 0)
    (hp : seg.text.length ≤ MAX_PAYLOAD) (ho : EntirelyOutside s seg) :
    s.isSeqOk (BitVec.ofNat 32 seg.text.length) seg.hdr.seq seg.hdr.ctl.syn seg.hdr.ctl.fin = .ok false := by
  have htl : (BitVec.ofNat 32 seg.text.length).toNat = seg.text.length := by
    simp only [BitVec.toNat_ofNat]; unfold MAX_PAYLOAD at hp; omega
  unfold isSeqOk
  dsimp only
  rw [htl]
  have hlen : seg.text.length + seg.hdr.ctl.fin.toNat + seg.hdr.ctl.syn.toNat = seg.segLen := by
    unfold Segment.segLen; omega
  rw [hlen]
  have hb : seg.segLen < 4294967296 := by
    unfold Segment.segLen MAX_PAYLOAD at *
    have := Bool.toNat_le seg.hdr.ctl.syn; have := Bool.toNat_le seg.hdr.ctl.fin
    omega
  rw [if_neg (by omega)]
  have h0 : ¬ InWindow s seg.hdr.seq := by
    have := ho 0 (by omega)
    simpa using this
  split
  · congr 1
    rw [Bool.eq_false_iff]
    intro h
    exact h0 ((inWindow_iff _ _).1 h)
  · rename_i hne
    congr 1
    rw [Bool.eq_false_iff]
    intro h
    rw [Bool.or_eq_true] at h
    rcases h with h | h
    · exact h0 ((inWindow_iff _ _).1 h)
    · have hk := ho (seg.segLen - 1) (by omega)
      apply hk
      have := (inWindow_iff _ _).1 h
      have e : seg.hdr.seq + BitVec.ofNat 32 seg.segLen - 1 = seg.hdr.seq + BitVec.ofNat 32 (seg.segLen - 1) := by
        rw [← ofNat_pred _ (by omega)]
        bv_omega
      rw [e] at this
      exact this

theorem OnlyOneshot.refl (s : Tcb) : OnlyOneshot s s :=
  ⟨rfl, rfl, rfl, rfl, rfl, rfl, rfl, rfl, rfl, rfl, rfl, [], Nat.zero_le _, by simp⟩

/-- enqueueing a header without SYN and FIN only appends it to the one-shot queue -/
theorem onlyOneshot_enqueue (s : Tcb) (h : Hdr) (hs : h.ctl.syn = false) (hf : h.ctl.fin = false) :
    OnlyOneshot s (s.enqueueBuilt h) := by
  unfold enqueueBuilt
  rw [if_neg (by simp [hs, hf])]
  exact ⟨rfl, rfl, rfl, rfl, rfl, rfl, rfl, rfl, rfl, rfl, rfl, [h], Nat.le_refl _, rfl⟩

/-- synchronised states: an entirely-outside segment is acknowledged and dropped -/
theorem segmentArrives_outside (s : Tcb) (seg : Segment) (h : Wf s) (hst : s.state ≠ .SynSent)
    (hp : seg.text.length ≤ MAX_PAYLOAD) (ho : EntirelyOutside s seg) :
    ∃ s', s.segmentArrives seg = .ok (s', .Ok) ∧ OnlyOneshot s s' := by
  unfold segmentArrives
  dsimp only
  rw [if_neg hst, isSeqOk_of_outside s seg (by rw [h.rcv_wnd]; decide) hp ho]
  dsimp only
  rw [enqueue_eq]
  exact ⟨_, rfl, onlyOneshot_enqueue _ _ rfl rfl⟩

/-- SYN-SENT: a segment with neither SYN nor RST is dropped by `process_segment`; at most one
    RST (for an unacceptable ACK) is queued -/
theorem processSegment_synsent_noop (s : Tcb) (seg : Segment) (hst : s.state = .SynSent)
    (hsyn : seg.hdr.ctl.syn = false) (hrst : seg.hdr.ctl.rst = false) :
    ∃ s' r, s.processSegment seg = .ok (s', r) ∧ OnlyOneshot s s' ∧ r.shouldDeleteTcb = false := by
  unfold processSegment
  dsimp only
  have e1 : seqCheck s seg.hdr (BitVec.ofNat 32 seg.text.length) = .ok (s, none) := by
    unfold seqCheck; rw [hst]
  rw [e1, andThen_none]
  -- after the ACK block: unchanged and falling through, or one RST queued and `InvalidAck`
  have e2 : (ackBlock s seg.hdr = .ok (s, none)) ∨
      (ackBlock s seg.hdr = .ok (s.enqueueBuilt (s.rstForAck seg.hdr).built, some .InvalidAck)) := by
    unfold ackBlock
    split
    · exact Or.inl rfl
    · rw [hst]
      dsimp only
      split
      · rw [hrst, if_neg (by simp), enqueueThen_eq]
        exact Or.inr rfl
      · split
        · rw [hsyn]
          exact Or.inl rfl
        · rw [enqueueThen_eq]
          exact Or.inr rfl
  rcases e2 with e2 | e2
  · rw [e2, andThen_none]
    have e3 : rstBlock s seg.hdr = .ok (s, none) := by
      unfold rstBlock; rw [hrst]; rfl
    rw [e3, andThen_none]
    have e4 : synBlock s seg.hdr = .ok (s, some .DiscardSegment) := by
      unfold synBlock; rw [hsyn, hst]; rfl
    rw [e4]
    exact ⟨_, _, rfl, OnlyOneshot.refl _, rfl⟩
  · rw [e2]
    refine ⟨_, _, rfl, onlyOneshot_enqueue _ _ ?_ ?_, rfl⟩ <;> rfl

/-- one round of the processing loop on a heap holding exactly `seg`, in SYN-SENT -/
theorem drain_singleton (t s0 s1 : Tcb) (seg : Segment) (r1 : ProcessSegmentResult)
    (ht : t.state = .SynSent) (hh : t.incoming.segments = [seg])
    (hs0 : ({ t with incoming.segments := [] } : Tcb) = s0)
    (proc : s0.processSegment seg = .ok (s1, r1)) (nd : r1.shouldDeleteTcb = false)
    (h1 : s1.incoming.segments = []) : drain 2 t = .ok (s1, .Ok) := by
  unfold drain
  rw [hh]
  have hpeek : LHeap.peek [seg] = some seg := rfl
  rw [hpeek]
  dsimp only
  rw [if_neg (by simp [ht])]
  have hpop : LHeap.pop segLe [seg] = (some seg, []) := rfl
  rw [hpop]
  dsimp only
  rw [hs0, proc]
  dsimp only
  rw [nd]
  simp only [Bool.false_eq_true, if_false]
  unfold drain
  rw [h1]
  rfl

/-- SYN-SENT with an idle heap: the segment is pushed, popped and dropped -/
theorem segmentArrives_synsent_noop (s : Tcb) (seg : Segment) (hst : s.state = .SynSent)
    (hi : HeapIdle s) (hsyn : seg.hdr.ctl.syn = false) (hrst : seg.hdr.ctl.rst = false) :
    ∃ s', s.segmentArrives seg = .ok (s', .Ok) ∧ OnlyOneshot s s' := by
  have hheap : s.incoming.segments = [] := hi hst
  obtain ⟨s1, r1, e1, oo1, nd1⟩ := processSegment_synsent_noop s seg hst hsyn hrst
  refine ⟨s1, ?_, oo1⟩
  unfold segmentArrives
  dsimp only
  rw [if_pos hst]
  dsimp only
  rw [hheap]
  have hpush : LHeap.push segLe [] seg = [seg] := rfl
  rw [hpush]
  refine drain_singleton _ s s1 seg r1 hst rfl ?_ e1 nd1 (by rw [oo1.incoming]; exact hheap)
  cases s with
  | mk lp rp mtu ini st snd rcv out inc tmo =>
    cases inc with
    | mk segs text => simp only at hheap; subst hheap; rfl

end Tcb
end Elvis.Tcp
