import ElvisVerif.Lemmas.NdlNorm
/-!
# NDL: the grammar of the tree builder, stated on the line structure of a text

`LineAt d dt ps s l tail l'` — the text `s` begins with a declaration line: exactly `d` tabs, then
a bracket that the line lexer (started with line counter `l`) reads as type `dt` with arguments
`ps`, leaving `tail` and the counter `l'`.  Nothing else about the spelling of the line is fixed
(letter case of the tag, number of trailing newlines, separators between arguments …).

On top of it the block structure is declared inductively (`LeavesAt`, `NetsAt`, `SecsAt`,
`MachsAt`, `BlockAt`, `DocAt`) — no reference to the parser's loops — and every loop of the builder
is shown to compute exactly what the declared structure says (`*_of` lemmas).  These are the
"what precedes parses" halves of the whole-file rejection theorems and the engine of the
any-order round trip.
-/
namespace Elvis.Ndl
open Elvis.Gen.Ndl

/-! ### the lexer hands back a strictly shorter text -/

theorem byteDrop_length_le : ∀ (s : Text) (n : Nat) (r : Text), byteDrop n s = some r → r.length ≤ s.length
  | s, 0, r, h => by simp [byteDrop] at h; subst h; exact Nat.le_refl _
  | [], _ + 1, r, h => by simp [byteDrop] at h
  | c :: s, n + 1, r, h => by
    unfold byteDrop at h
    split at h
    · have := byteDrop_length_le s _ r h
      simp; omega
    · simp at h

theorem generalParser_rest_lt (s : Text) (l : Nat) (r : LexOk) (h : generalParser s l = .ok r) :
    r.rest.length < s.length := by
  unfold generalParser at h
  cases hs : sectionP s with
  | none => simp [hs] at h
  | some p =>
    obtain ⟨inside, after⟩ := p
    have hl := sectionP_len s inside after hs
    simp only [hs] at h
    cases hg : getType inside l with
    | error e => simp [hg] at h
    | ok q =>
      obtain ⟨r1, dt⟩ := q
      simp only [hg] at h
      split at h
      · cases h
      · cases hi : insertAll (arguments r1).2 [] with
        | none => simp [hi] at h
        | some params =>
          simp only [hi] at h
          split at h
          · cases h
          · cases hb : byteDrop (countNl after) after with
            | none => simp [hb] at h
            | some rest =>
              simp only [hb] at h
              have := byteDrop_length_le after _ rest hb
              cases h
              show rest.length < s.length
              omega

/-! ### one declaration line -/

/-- the text `s` begins with a declaration line at depth `d` which the lexer reads as `dt ps` -/
def LineAt (d : Nat) (dt : DecType) (ps : Params) (s : Text) (l : Nat) (tail : Text) (l' : Nat) : Prop :=
  countTabs s = d ∧ generalParser (s.drop d) l = .ok ⟨dt, ps, tail, l'⟩

theorem generalParser_nil (l : Nat) : generalParser [] l = .error (.err .section l) := rfl

theorem LineAt.ne_nil {d dt ps s l tail l'} (h : LineAt d dt ps s l tail l') : s ≠ [] := by
  intro hs; subst hs
  have := h.2
  simp [generalParser_nil] at this

theorem LineAt.byteDrop {d dt ps s l tail l'} (h : LineAt d dt ps s l tail l') :
    byteDrop d s = some (s.drop d) := byteDrop_tabs s d (by rw [h.1]; exact Nat.le_refl _)

theorem LineAt.length {d dt ps s l tail l'} (h : LineAt d dt ps s l tail l') : tail.length < s.length := by
  have := generalParser_rest_lt _ _ _ h.2
  simp only [List.length_drop] at this
  show tail.length < s.length
  omega

/-! ### one iteration of every loop on a declaration line -/

theorem leafLoop_line {d dt ps s l tail l'} (h : LineAt d dt ps s l tail l') (exp : DecType) (fuel : Nat) :
    leafLoop exp d (fuel + 1) s l =
      if dt ≠ exp then .error (.err .wrongType 0)
      else if countTabs tail < d then .ok ([⟨dt, ps⟩], tail, l')
      else if countTabs tail > d then .error (.err .tabs 0)
      else match leafLoop exp d fuel tail l' with
        | .error e => .error e
        | .ok (ls, rest, line') => .ok (⟨dt, ps⟩ :: ls, rest, line') := by
  rw [leafLoop]
  simp only [h.ne_nil, if_false, h.byteDrop, h.2]
  rfl

theorem networksLoop_line {d dt ps s l tail l'} (h : LineAt d dt ps s l tail l') (fuel : Nat)
    (seen : List (Text × Network)) :
    networksLoop d (fuel + 1) s l seen =
      if dt = .network then
        match networkParser ps (d + 1) tail l' with
        | .error e => .error e
        | .ok (net, rest, line') =>
          match net.options.get? ['i', 'd'] with
          | none => .error (.err .missingId 0)
          | some id =>
            if seen.any (fun e => e.1 == id) then .error (.err .dupId 0)
            else networksLoop d fuel rest line' (seen ++ [(id, net)])
      else .error (.err .wrongType 0) := by
  rw [networksLoop]
  simp only [h.ne_nil, if_false, h.1, Nat.lt_irrefl, gt_iff_lt, h.byteDrop, h.2]
  rfl

theorem machinesLoop_line {d dt ps s l tail l'} (h : LineAt d dt ps s l tail l') (fuel : Nat) :
    machinesLoop d (fuel + 1) s l =
      if dt = .machine then
        match machineParser ps (d + 1) tail l' with
        | .error e => .error e
        | .ok (m, rest, line') =>
          match machinesLoop d fuel rest line' with
          | .error e => .error e
          | .ok (ms, rest', line'') => .ok (m :: ms, rest', line'')
      else .error (.err .wrongType 0) := by
  rw [machinesLoop]
  simp only [h.ne_nil, if_false, h.1, Nat.lt_irrefl, gt_iff_lt, h.byteDrop, h.2]
  rfl

/-- the three section kinds of a machine -/
def IsSec (k : DecType) : Prop := k = .networks ∨ k = .protocols ∨ k = .applications

instance (k : DecType) : Decidable (IsSec k) := by unfold IsSec; exact inferInstance

/-- what a section of kind `k` lists -/
def secLeaf : DecType → DecType
  | .networks => .network
  | .protocols => .protocol
  | _ => .application

/-- `machine_parser` files the entries of a section under its kind -/
def MAcc.add (a : MAcc) (k : DecType) (ls : List Leaf) : MAcc :=
  match k with
  | .networks => { a with nets := a.nets ++ ls }
  | .protocols => { a with prots := a.prots ++ ls }
  | _ => { a with apps := a.apps ++ ls }

/-- `req.remove(req.iter().position(|x| x == k).unwrap())` -/
def reqDrop (req : List DecType) (k : DecType) : List DecType :=
  match req.idxOf? k with
  | some i => req.eraseIdx i
  | none => req

theorem machineLoop_line {d k ps s l tail l'} (h : LineAt d k ps s l tail l') (fuel : Nat) (a : MAcc) :
    machineLoop d (fuel + 1) s l a =
      if a.req.contains k ∧ IsSec k then
        match leafList (secLeaf k) .formatting (d + 1) tail l' with
        | .error e => .error e
        | .ok (ls, rest, line') =>
          machineLoop d fuel rest line' { a.add k ls with req := reqDrop a.req k }
      else .error (.err .unexpected 0) := by
  rw [machineLoop]
  simp only [h.ne_nil, if_false, h.1, Nat.lt_irrefl, gt_iff_lt, h.byteDrop, h.2]
  by_cases hc : a.req.contains k = true
  · obtain ⟨i, hi⟩ := idxOf?_of_contains a.req k hc
    simp only [hc, if_true, hi, true_and, reqDrop]
    cases k <;> simp [IsSec, secLeaf, MAcc.add] <;> rfl
  · have hm : ¬ k ∈ a.req := by simpa using hc
    simp [hm]

theorem coreLoop_line {dt ps s l tail l'} (h : LineAt 0 dt ps s l tail l') (fuel : Nat)
    (nets : List (Text × Network)) (ms : List Machine) :
    coreLoop (fuel + 1) s l nets ms =
      match (generalizing := false) dt with
      | .template => coreLoop fuel tail l' nets ms
      | .networks =>
        match networksParser 1 tail l' with
        | .error e => .error e
        | .ok (ns, rest, line') =>
          match mergeNets nets ns with
          | .error e => .error e
          | .ok nets' => coreLoop fuel rest line' nets' ms
      | .machines =>
        match machinesParser 1 tail l' with
        | .error e => .error e
        | .ok (m, rest, line') => coreLoop fuel rest line' nets (ms ++ m)
      | _ => .error (.err .cannotDeclare 0) := by
  rw [coreLoop]
  have h2 := h.2
  simp only [List.drop_zero] at h2
  simp only [h.ne_nil, if_false, h2]
  cases dt <;> rfl

/-! ### leaf lists -/

/-- `s` reads as the non-empty list `ls` of `exp` lines at depth `d`, up to `rest` (a shallower
    line or the end of the text) -/
inductive LeavesAt (exp : DecType) (d : Nat) : List Leaf → Text → Nat → Text → Nat → Prop
  | last {ps s l tail l'} : LineAt d exp ps s l tail l' → countTabs tail < d →
      LeavesAt exp d [⟨exp, ps⟩] s l tail l'
  | cons {ps s l tail l' ls rest l''} : LineAt d exp ps s l tail l' →
      LeavesAt exp d ls tail l' rest l'' → LeavesAt exp d (⟨exp, ps⟩ :: ls) s l rest l''

theorem LeavesAt.countTabs {exp d ls s l rest l'} (h : LeavesAt exp d ls s l rest l') : countTabs s = d := by
  cases h with
  | last h _ => exact h.1
  | cons h _ => exact h.1

theorem LeavesAt.length {exp d ls s l rest l'} (h : LeavesAt exp d ls s l rest l') : rest.length < s.length := by
  induction h with
  | last h _ => exact h.length
  | cons h _ ih => have := h.length; omega

theorem LeavesAt.rest {exp d ls s l rest l'} (h : LeavesAt exp d ls s l rest l') : Elvis.Ndl.countTabs rest < d := by
  induction h with
  | last _ h => exact h
  | cons _ _ ih => exact ih

theorem leafLoop_of {exp : DecType} {d : Nat} (_hd : 0 < d) {ls s l rest l'} (h : LeavesAt exp d ls s l rest l') :
    ∀ fuel, s.length < fuel → leafLoop exp d fuel s l = .ok (ls, rest, l') := by
  induction h with
  | last h ht =>
    intro fuel hf
    obtain ⟨f, rfl⟩ : ∃ f, fuel = f + 1 := ⟨fuel - 1, by omega⟩
    rw [leafLoop_line h]
    simp [ht]
  | @cons ps s l tail l' ls rest l'' h hr ih =>
    intro fuel hf
    obtain ⟨f, rfl⟩ : ∃ f, fuel = f + 1 := ⟨fuel - 1, by omega⟩
    rw [leafLoop_line h]
    have hl := h.length
    have hc := hr.countTabs
    simp [hc, ih f (by omega)]

theorem leafList_of {exp : DecType} {d : Nat} (hd : 0 < d) {ls s l rest l'} (h : LeavesAt exp d ls s l rest l')
    (first : ErrKind) : leafList exp first d s l = .ok (ls, rest, l') := by
  unfold leafList
  simp only [h.countTabs, ne_eq, not_true_eq_false, if_false]
  exact leafLoop_of hd h _ (Nat.lt_succ_self _)

/-! ### `[Networks]` blocks -/

/-- a `[Network …]` line with its `[IP …]` lines -/
def NetBodyAt (ps : Params) (ips : List Leaf) (s : Text) (l : Nat) (rest : Text) (l' : Nat) : Prop :=
  ∃ tail l1, LineAt 1 .network ps s l tail l1 ∧ LeavesAt .ip 2 ips tail l1 rest l'

theorem NetBodyAt.length {ps ips s l rest l'} (h : NetBodyAt ps ips s l rest l') : rest.length < s.length := by
  obtain ⟨_, _, h1, h2⟩ := h
  have := h1.length; have := h2.length; omega

/-- one entry of the network map: the body, filed under its `id` argument -/
def NetworkAt (id : Text) (n : Network) (s : Text) (l : Nat) (rest : Text) (l' : Nat) : Prop :=
  n.dectype = .network ∧ n.options.get? ['i', 'd'] = some id ∧ NetBodyAt n.options n.ip s l rest l'

theorem networkParser_of {ps ips s l rest l'} (h : NetBodyAt ps ips s l rest l') :
    ∃ tail l1, LineAt 1 .network ps s l tail l1 ∧
      networkParser ps 2 tail l1 = .ok (⟨.network, ps, ips⟩, rest, l') := by
  obtain ⟨tail, l1, h1, h2⟩ := h
  refine ⟨tail, l1, h1, ?_⟩
  unfold networkParser
  rw [leafList_of (by omega) h2]

/-- the body of a `[Networks]` block: its entries, up to a line at depth 0 or the end -/
inductive NetsAt : List (Text × Network) → Text → Nat → Text → Nat → Prop
  | nil {s l} : countTabs s < 1 → NetsAt [] s l s l
  | cons {id n s l mid l1 ns rest l'} : NetworkAt id n s l mid l1 → NetsAt ns mid l1 rest l' →
      NetsAt ((id, n) :: ns) s l rest l'

theorem NetsAt.length {ns s l rest l'} (h : NetsAt ns s l rest l') : rest.length ≤ s.length := by
  induction h with
  | nil _ => exact Nat.le_refl _
  | cons h _ ih => have := h.2.2.length; omega

theorem NetsAt.rest {ns s l rest l'} (h : NetsAt ns s l rest l') : countTabs rest < 1 := by
  induction h with
  | nil h => exact h
  | cons _ _ ih => exact ih

theorem networksLoop_stop {s : Text} (h : countTabs s < 1) (l fuel : Nat) (seen : List (Text × Network)) :
    networksLoop 1 (fuel + 1) s l seen = .ok (seen, s, l) := by
  rw [networksLoop]
  split
  · rfl
  · simp [h]

theorem networksLoop_of {ns s l rest l'} (h : NetsAt ns s l rest l') :
    ∀ fuel seen, s.length < fuel → networksLoop 1 fuel s l seen =
      match mergeNets seen ns with
      | .error e => .error e
      | .ok r => .ok (r, rest, l') := by
  induction h with
  | nil h =>
    intro fuel seen hf
    obtain ⟨f, rfl⟩ : ∃ f, fuel = f + 1 := ⟨fuel - 1, by omega⟩
    rw [networksLoop_stop h]; rfl
  | @cons id n s l mid l1 ns rest l' h _ ih =>
    intro fuel seen hf
    obtain ⟨f, rfl⟩ : ∃ f, fuel = f + 1 := ⟨fuel - 1, by omega⟩
    obtain ⟨hdt, hid, hb⟩ := h
    have hlen := hb.length
    obtain ⟨tail, l2, h1, h2⟩ := networkParser_of hb
    have he : (⟨DecType.network, n.options, n.ip⟩ : Network) = n := by
      cases n; simp at hdt; subst hdt; rfl
    rw [networksLoop_line h1, h2]
    simp only [if_true, he, hid, mergeNets]
    split
    · rfl
    · exact ih f _ (by omega)

theorem networksParser_of {ns s l rest l'} (h : NetsAt ns s l rest l') :
    networksParser 1 s l = match mergeNets [] ns with
      | .error e => .error e
      | .ok r => .ok (r, rest, l') :=
  networksLoop_of h _ _ (Nat.lt_succ_self _)

/-! ### machines -/

/-- the body of a `[Machine …]`: section headers at depth 2 (their own arguments are ignored by
    the code) each with its entries at depth 3, up to a line at depth < 2 or the end -/
inductive SecsAt : List (DecType × List Leaf) → Text → Nat → Text → Nat → Prop
  | nil {s l} : countTabs s < 2 → SecsAt [] s l s l
  | cons {k ps ls s l tail l1 mid l2 secs rest l'} : IsSec k → LineAt 2 k ps s l tail l1 →
      LeavesAt (secLeaf k) 3 ls tail l1 mid l2 → SecsAt secs mid l2 rest l' →
      SecsAt ((k, ls) :: secs) s l rest l'

theorem SecsAt.length {secs s l rest l'} (h : SecsAt secs s l rest l') : rest.length ≤ s.length := by
  induction h with
  | nil _ => exact Nat.le_refl _
  | cons _ h1 h2 _ ih => have := h1.length; have := h2.length; omega

theorem SecsAt.rest {secs s l rest l'} (h : SecsAt secs s l rest l') : countTabs rest < 2 := by
  induction h with
  | nil h => exact h
  | cons _ _ _ _ ih => exact ih

/-- what `machine_parser`'s loop does with a list of sections; `none` = "Unexpected type"
    (a section twice) -/
def runSecs : MAcc → List (DecType × List Leaf) → Option MAcc
  | a, [] => some a
  | a, (k, ls) :: r =>
    if a.req.contains k then runSecs { a.add k ls with req := reqDrop a.req k } r else none

theorem machineLoop_stop {s : Text} (h : countTabs s < 2) (l fuel : Nat) (a : MAcc) :
    machineLoop 2 (fuel + 1) s l a = .ok (a, s, l) := by
  rw [machineLoop]
  split
  · rfl
  · simp [h]

theorem machineLoop_of {secs s l rest l'} (h : SecsAt secs s l rest l') :
    ∀ fuel a, s.length < fuel → machineLoop 2 fuel s l a =
      match runSecs a secs with
      | none => .error (.err .unexpected 0)
      | some a' => .ok (a', rest, l') := by
  induction h with
  | nil h =>
    intro fuel a hf
    obtain ⟨f, rfl⟩ : ∃ f, fuel = f + 1 := ⟨fuel - 1, by omega⟩
    rw [machineLoop_stop h]; rfl
  | @cons k ps ls s l tail l1 mid l2 secs rest l' hk h1 h2 _ ih =>
    intro fuel a hf
    obtain ⟨f, rfl⟩ : ∃ f, fuel = f + 1 := ⟨fuel - 1, by omega⟩
    have := h1.length
    have := h2.length
    rw [machineLoop_line h1, leafList_of (by omega) h2]
    simp only [hk, and_true, runSecs]
    split
    · exact ih f _ (by omega)
    · rfl

/-- `machine_parser` on a machine body -/
theorem machineParser_of {secs s l rest l'} (h : SecsAt secs s l rest l') (args : Params) :
    machineParser args 2 s l =
      match runSecs ⟨requiredSections, [], [], []⟩ secs with
      | none => .error (.err .unexpected 0)
      | some a => if a.req ≠ [] then .error (.err .required 0)
          else .ok (⟨.machine, args, a.nets, a.prots, a.apps⟩, rest, l') := by
  unfold machineParser
  rw [machineLoop_of h _ _ (Nat.lt_succ_self _)]
  cases runSecs ⟨requiredSections, [], [], []⟩ secs <;> rfl

/-- a `[Machine …]` line and a body holding each of the three sections exactly once, in any order -/
def MachineAt (m : Machine) (s : Text) (l : Nat) (rest : Text) (l' : Nat) : Prop :=
  m.dectype = .machine ∧ ∃ secs tail l1, LineAt 1 .machine m.options s l tail l1 ∧
    SecsAt secs tail l1 rest l' ∧
    runSecs ⟨requiredSections, [], [], []⟩ secs = some ⟨[], m.networks, m.protocols, m.applications⟩

theorem MachineAt.length {m s l rest l'} (h : MachineAt m s l rest l') : rest.length < s.length := by
  obtain ⟨_, _, _, _, h1, h2, _⟩ := h
  have := h1.length; have := h2.length; omega

inductive MachsAt : List Machine → Text → Nat → Text → Nat → Prop
  | nil {s l} : countTabs s < 1 → MachsAt [] s l s l
  | cons {m s l mid l1 ms rest l'} : MachineAt m s l mid l1 → MachsAt ms mid l1 rest l' →
      MachsAt (m :: ms) s l rest l'

theorem MachsAt.length {ms s l rest l'} (h : MachsAt ms s l rest l') : rest.length ≤ s.length := by
  induction h with
  | nil _ => exact Nat.le_refl _
  | cons h _ ih => have := h.length; omega

theorem machinesLoop_stop {s : Text} (h : countTabs s < 1) (l fuel : Nat) :
    machinesLoop 1 (fuel + 1) s l = .ok ([], s, l) := by
  rw [machinesLoop]
  split
  · simp_all
  · simp [h]

theorem machinesLoop_of {ms s l rest l'} (h : MachsAt ms s l rest l') :
    ∀ fuel, s.length < fuel → machinesLoop 1 fuel s l = .ok (ms, rest, l') := by
  induction h with
  | nil h =>
    intro fuel hf
    obtain ⟨f, rfl⟩ : ∃ f, fuel = f + 1 := ⟨fuel - 1, by omega⟩
    exact machinesLoop_stop h _ _
  | @cons m s l mid l1 ms rest l' h _ ih =>
    intro fuel hf
    obtain ⟨f, rfl⟩ : ∃ f, fuel = f + 1 := ⟨fuel - 1, by omega⟩
    have hlen := h.length
    obtain ⟨hdt, secs, tail, l2, h1, h2, h3⟩ := h
    have he : (⟨DecType.machine, m.options, m.networks, m.protocols, m.applications⟩ : Machine) = m := by
      cases m; simp at hdt; subst hdt; rfl
    rw [machinesLoop_line h1, machineParser_of h2, h3]
    simp [he, ih f (by omega)]

/-! ### the whole file -/

/-- a top-level block -/
inductive Block
  | template
  | nets (ns : List (Text × Network))
  | machs (ms : List Machine)

/-- `[Template …]` (ignored), `[Networks …]` with its entries, `[Machines …]` with its entries;
    the arguments of the three headers are ignored by the code -/
def BlockAt : Block → Text → Nat → Text → Nat → Prop
  | .template, s, l, rest, l' => ∃ ps, LineAt 0 .template ps s l rest l'
  | .nets ns, s, l, rest, l' => ∃ ps tail l1, LineAt 0 .networks ps s l tail l1 ∧ NetsAt ns tail l1 rest l'
  | .machs ms, s, l, rest, l' => ∃ ps tail l1, LineAt 0 .machines ps s l tail l1 ∧ MachsAt ms tail l1 rest l'

theorem BlockAt.length {b s l rest l'} (h : BlockAt b s l rest l') : rest.length < s.length := by
  cases b with
  | template => obtain ⟨_, h⟩ := h; exact h.length
  | nets ns => obtain ⟨_, _, _, h1, h2⟩ := h; have := h1.length; have := h2.length; omega
  | machs ms => obtain ⟨_, _, _, h1, h2⟩ := h; have := h1.length; have := h2.length; omega

inductive DocAt : List Block → Text → Nat → Text → Nat → Prop
  | nil {s l} : DocAt [] s l s l
  | cons {b s l mid l1 bs rest l'} : BlockAt b s l mid l1 → DocAt bs mid l1 rest l' →
      DocAt (b :: bs) s l rest l'

theorem mergeNets_ok : ∀ (ns acc r : List (Text × Network)), mergeNets acc ns = .ok r → r = acc ++ ns
  | [], acc, r, h => by simp [mergeNets] at h; simp [h]
  | (id, n) :: ns, acc, r, h => by
    unfold mergeNets at h
    split at h
    · cases h
    · have := mergeNets_ok ns _ r h
      simp [this]

/-- what `core_parser`'s loop does with one block -/
def stepBlock (nets : List (Text × Network)) (ms : List Machine) : Block → R (List (Text × Network) × List Machine)
  | .template => .ok (nets, ms)
  | .nets ns =>
    match mergeNets [] ns with
    | .error e => .error e
    | .ok _ =>
      match mergeNets nets ns with
      | .error e => .error e
      | .ok nets' => .ok (nets', ms)
  | .machs m => .ok (nets, ms ++ m)

def runDoc : List (Text × Network) → List Machine → List Block → R (List (Text × Network) × List Machine)
  | nets, ms, [] => .ok (nets, ms)
  | nets, ms, b :: bs =>
    match stepBlock nets ms b with
    | .error e => .error e
    | .ok (nets', ms') => runDoc nets' ms' bs

theorem coreLoop_block {b s l rest l'} (h : BlockAt b s l rest l') (fuel : Nat)
    (nets : List (Text × Network)) (ms : List Machine) :
    coreLoop (fuel + 1) s l nets ms =
      match stepBlock nets ms b with
      | .error e => .error e
      | .ok (nets', ms') => coreLoop fuel rest l' nets' ms' := by
  cases b with
  | template =>
    obtain ⟨ps, h⟩ := h
    rw [coreLoop_line h]; rfl
  | nets ns =>
    obtain ⟨ps, tail, l1, h1, h2⟩ := h
    rw [coreLoop_line h1]
    simp only [networksParser_of h2, stepBlock]
    cases hm : mergeNets [] ns with
    | error e => rfl
    | ok r =>
      have := mergeNets_ok ns [] r hm
      simp only [List.nil_append] at this
      subst this
      simp only []
      cases mergeNets nets r <;> rfl
  | machs m =>
    obtain ⟨ps, tail, l1, h1, h2⟩ := h
    rw [coreLoop_line h1]
    simp only [machinesParser, machinesLoop_of h2 _ (Nat.lt_succ_self _), stepBlock]

theorem coreLoop_of {bs s l rest l'} (h : DocAt bs s l rest l') :
    ∀ fuel nets ms, s.length < fuel → ∃ fuel', rest.length < fuel' ∧
      coreLoop fuel s l nets ms =
        match runDoc nets ms bs with
        | .error e => .error e
        | .ok (nets', ms') => coreLoop fuel' rest l' nets' ms' := by
  induction h with
  | nil => intro fuel nets ms hf; exact ⟨fuel, hf, rfl⟩
  | @cons b s l mid l1 bs rest l' h _ ih =>
    intro fuel nets ms hf
    obtain ⟨f, rfl⟩ : ∃ f, fuel = f + 1 := ⟨fuel - 1, by omega⟩
    have hlen := h.length
    rw [coreLoop_block h]
    simp only [runDoc]
    cases hs : stepBlock nets ms b with
    | error e => exact ⟨rest.length + 1, Nat.lt_succ_self _, rfl⟩
    | ok p =>
      obtain ⟨nets', ms'⟩ := p
      exact ih f nets' ms' (by omega)

/-- a text that is a sequence of blocks is parsed to what the blocks add up to -/
theorem build_of {bs s l'} (h : DocAt bs s 1 [] l') :
    build s = match runDoc [] [] bs with
      | .error e => .error e
      | .ok (nets, ms) => .ok ⟨nets, ms⟩ := by
  unfold build
  obtain ⟨fuel', hf, he⟩ := coreLoop_of h (s.length + 1) [] [] (Nat.lt_succ_self _)
  rw [he]
  cases runDoc [] [] bs with
  | error e => rfl
  | ok p =>
    obtain ⟨nets, ms⟩ := p
    obtain ⟨f, rfl⟩ : ∃ f, fuel' = f + 1 := ⟨fuel' - 1, by simp at hf; omega⟩
    simp [coreLoop]

end Elvis.Ndl
