import ElvisVerif.Model.Checksum
import ElvisVerif.Model.Codec.Bytes
/-
Model of sim/elvis-core/src/protocols/ipv4/ipv4_parsing.rs:
`Ipv4Header::from_bytes`, `Ipv4Header::serialize`, `Ipv4HeaderBuilder::build`,
`TypeOfService::{new, precedence, delay, throughput, reliability}`,
`ControlFlags::{new, may_fragment, is_last_fragment}`.

Code order is kept: bytes are consumed field by field, so "too short" is reported at the same
field as in the code and every error kind arises at the same point; the checksum accumulator is
threaded in the order of the `checksum.add_*` calls; `ck` is the cargo feature
`compute_checksum`.  Fields are `Nat`s (ranges are hypotheses of the theorems); addresses are the
`u32` value.  Only core imports (linked into the driver).
-/
namespace Elvis.Codec.Ipv4
open Elvis.Ck Elvis.Codec

/-- `Ipv4Header` (`type_of_service` and `flags` are the wrapped `u8`s) -/
structure Header where
  ihl : Nat
  tos : Nat
  totalLength : Nat
  identification : Nat
  fragmentOffset : Nat
  flags : Nat
  ttl : Nat
  protocol : Nat
  checksum : Nat
  source : Nat
  destination : Nat
deriving DecidableEq, Repr

/-- `ipv4_parsing::ParseError` (the variants `from_bytes` can return) -/
inductive ParseError where
  | headerTooShort
  | incorrectIpv4Version
  | invalidHeaderLength
  | usedReservedTos
  | usedReservedFlag
  | invalidTotalLength
  | checksum (expected actual : Nat)
deriving DecidableEq, Repr

/-- `ipv4_parsing::HeaderBuildError` -/
inductive BuildError where
  | overlyLongPayload
  | overlyLongFragmentOffset
deriving DecidableEq, Repr

/-- `Ipv4HeaderBuilder` -/
structure Builder where
  tos : Nat
  payloadLength : Nat
  identification : Nat
  fragmentOffset : Nat
  flags : Nat
  ttl : Nat
  protocol : Nat
  source : Nat
  destination : Nat
deriving DecidableEq, Repr

abbrev hts : Res ParseError Header := .error (.err .headerTooShort)

/-- `Ipv4Header::from_bytes` -/
def fromBytes (ck : Bool) (bs : List UInt8) : Res ParseError Header :=
  match nextU8 bs with
  | none => hts
  | some (vi, bs) =>
  -- let version = version_and_ihl >> 4; if version != 4 { IncorrectIpv4Version }
  if vi / 16 ≠ 4 then .error (.err .incorrectIpv4Version) else
  -- let ihl = version_and_ihl & 0b1111; if ihl != BASE_WORDS { InvalidHeaderLength }
  let ihl := vi % 16
  if ihl ≠ 5 then .error (.err .invalidHeaderLength) else
  match nextU8 bs with
  | none => hts
  | some (tos, bs) =>
  -- let reserved = type_of_service_byte & 0b11; if reserved != 0 { UsedReservedTos }
  if tos % 4 ≠ 0 then .error (.err .usedReservedTos) else
  let c := addU8 ck 0 vi tos
  match nextU16 bs with
  | none => hts
  | some (totalLength, bs) =>
  -- fix of F-C08-2: if total_length < ihl as u16 * 4 { InvalidTotalLength }
  if totalLength < ihl * 4 then .error (.err .invalidTotalLength) else
  let c := add16 ck c totalLength
  match nextU16 bs with
  | none => hts
  | some (identification, bs) =>
  let c := add16 ck c identification
  match nextU16 bs with
  | none => hts
  | some (ff, bs) =>
  -- fragment_offset = ff & 0x1fff; control_flag_bits = (ff >> 13) as u8
  let fragmentOffset := ff % 8192
  let flagBits := ff / 8192
  -- if control_flag_bits & 0b100 != 0 { UsedReservedFlag }
  if flagBits / 4 % 2 ≠ 0 then .error (.err .usedReservedFlag) else
  let c := add16 ck c ff
  match nextU8 bs with
  | none => hts
  | some (ttl, bs) =>
  match nextU8 bs with
  | none => hts
  | some (protocol, bs) =>
  let c := addU8 ck c ttl protocol
  match nextU16 bs with
  | none => hts
  | some (expected, bs) =>
  match nextU32 bs with
  | none => hts
  | some (source, bs) =>
  let c := addWord32 ck c source
  match nextU32 bs with
  | none => hts
  | some (destination, _) =>
  let c := addWord32 ck c destination
  -- fix of F-C18-1: if !checksum.matches(expected_checksum) { Checksum { expected, actual } }
  if ¬ matchesField ck c expected then
    .error (.err (.checksum expected (asU16 ck c)))
  else
    .ok { ihl := ihl, tos := tos, totalLength := totalLength, identification := identification,
          fragmentOffset := fragmentOffset, flags := flagBits, ttl := ttl, protocol := protocol,
          checksum := expected, source := source, destination := destination }

/-- `Ipv4HeaderBuilder::build` -/
def build (ck : Bool) (b : Builder) : Res BuildError (List UInt8) :=
  -- let version_and_ihl = (4u8 << 4) | BASE_WORDS;
  let vi := 69
  let c := addU8 ck 0 vi b.tos
  -- payload_length.checked_add(BASE_OCTETS).ok_or(OverlyLongPayload)?
  if b.payloadLength + 20 > 65535 then .error (.err .overlyLongPayload) else
  let totalLength := b.payloadLength + 20
  let c := add16 ck c totalLength
  let c := add16 ck c b.identification
  -- if self.fragment_offset > FRAGMENT_OFFSET_MASK { OverlyLongFragmentOffset }
  if b.fragmentOffset > 8191 then .error (.err .overlyLongFragmentOffset) else
  -- ((flags.as_u8() as u16) << 13) | (fragment_offset & 0x1fff): the shift drops all but the
  -- three low bits of `flags`; the two operands have no common bits
  let ff := b.flags % 8 * 8192 + b.fragmentOffset % 8192
  let c := add16 ck c ff
  let c := addU8 ck c b.ttl b.protocol
  let c := addWord32 ck c b.source
  let c := addWord32 ck c b.destination
  .ok ([n2b vi, n2b b.tos] ++ be16 totalLength ++ be16 b.identification ++ be16 ff
        ++ [n2b b.ttl, n2b b.protocol] ++ be16 (asU16 ck c) ++ be32 b.source ++ be32 b.destination)

/-- `Ipv4Header::serialize`: `payload_length: self.total_length - BASE_OCTETS` is a checked
    subtraction (dev profile), then `Ipv4HeaderBuilder::build` -/
def serialize (ck : Bool) (h : Header) : Res BuildError (List UInt8) :=
  if h.totalLength < 20 then .error (.panic "panic:sub-overflow:Ipv4Header::serialize") else
  build ck { tos := h.tos, payloadLength := h.totalLength - 20, identification := h.identification,
             fragmentOffset := h.fragmentOffset, flags := h.flags, ttl := h.ttl,
             protocol := h.protocol, source := h.source, destination := h.destination }

/-- `TypeOfService::new(precedence, delay, throughput, reliability)` (enum discriminants) -/
def tosNew (precedence delay throughput reliability : Nat) : Nat :=
  reliability * 4 + throughput * 8 + delay * 16 + precedence * 32

/-- `TypeOfService::precedence`: `(self.0 >> 5).try_into().unwrap()` -/
def tosPrecedence (tos : Nat) : Res Unit Nat :=
  let v := tos / 32
  if v ≤ 7 then .ok v else .error (.panic "panic:unwrap:TypeOfService::precedence")
/-- `TypeOfService::delay`: `((self.0 >> 4) & 0b1).try_into().unwrap()` -/
def tosDelay (tos : Nat) : Res Unit Nat :=
  let v := tos / 16 % 2
  if v ≤ 1 then .ok v else .error (.panic "panic:unwrap:TypeOfService::delay")
/-- `TypeOfService::throughput` -/
def tosThroughput (tos : Nat) : Res Unit Nat :=
  let v := tos / 8 % 2
  if v ≤ 1 then .ok v else .error (.panic "panic:unwrap:TypeOfService::throughput")
/-- `TypeOfService::reliability` -/
def tosReliability (tos : Nat) : Res Unit Nat :=
  let v := tos / 4 % 2
  if v ≤ 1 then .ok v else .error (.panic "panic:unwrap:TypeOfService::reliability")

/-- `ControlFlags::new(may_fragment, is_last_fragment)`:
    `(!is_last_fragment as u8) | ((!may_fragment as u8) << 1)` -/
def flagsNew (mayFragment isLastFragment : Bool) : Nat :=
  (if isLastFragment then 0 else 1) + (if mayFragment then 0 else 2)
/-- `ControlFlags::may_fragment`: `self.0 & 0b10 == 0` -/
def flagsMayFragment (f : Nat) : Bool := f / 2 % 2 == 0
/-- `ControlFlags::is_last_fragment`: `self.0 & 0b01 == 0` -/
def flagsIsLastFragment (f : Nat) : Bool := f % 2 == 0

end Elvis.Codec.Ipv4
