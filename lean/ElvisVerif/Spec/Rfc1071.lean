/-
RFC 1071 (and RFC 791 s3.1 / RFC 768 / RFC 9293 s3.1): the Internet checksum, written as the
specification the code is compared with — NOT derived from the code.

The one's-complement sum of 16-bit words is arithmetic modulo 65535 with two representations of
zero: `0x0000` (only for the empty/all-zero sum) and `0xffff`.  The checksum field is the
complement of that sum.  A datagram verifies when the sum over all its words including the
checksum field is `0xffff`.
-/
namespace Elvis.Rfc1071

/-- big-endian 16-bit words of a byte string; an odd last byte is padded with a zero byte -/
def wordsOf : List UInt8 → List Nat
  | a :: b :: rest => (a.toNat * 256 + b.toNat) :: wordsOf rest
  | [a] => [a.toNat * 256]
  | [] => []

/-- the one's-complement sum of a list of 16-bit words, as a 16-bit pattern: end-around carry
    makes it the residue modulo 65535, where a non-empty multiple of 65535 is `0xffff` and only
    the all-zero sum is `0x0000` -/
def onesSumOfTotal (s : Nat) : Nat :=
  if s = 0 then 0 else if s % 65535 = 0 then 65535 else s % 65535

def onesSum (ws : List Nat) : Nat := onesSumOfTotal ws.sum

/-- the checksum field of RFC 1071: the one's complement of the one's-complement sum -/
def checksum (ws : List Nat) : Nat := 65535 - onesSum ws

/-- the two bit patterns `0x0000` and `0xffff` both denote zero -/
def sameValue (a b : Nat) : Prop := a % 65535 = b % 65535

/-- RFC 1071 verification: the sum over all words, checksum field included, is all ones -/
def verifies (ws : List Nat) : Prop := onesSum ws = 65535

instance (ws : List Nat) : Decidable (verifies ws) := by unfold verifies; infer_instance

/-- pseudo header of RFC 768 / RFC 9293 s3.1 as words: source address, destination address,
    zero + protocol, length -/
def pseudoHeader (src dst proto len : Nat) : List Nat :=
  [src / 65536, src % 65536, dst / 65536, dst % 65536, proto, len]

/-- RFC 768: "If the computed checksum is zero, it is transmitted as all ones"; RFC 791/9293
    have no such substitution -/
def udpField (ws : List Nat) : Nat := if checksum ws = 0 then 65535 else checksum ws

end Elvis.Rfc1071
