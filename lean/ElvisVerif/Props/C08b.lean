import ElvisVerif.Lemmas.CodecB
/-!
# C08 (ARP, DNS, DHCP part) — the codecs round-trip

Property theorems only (helper lemmas: `Lemmas/CodecB.lean`; models: `Model/Codec/{Arp,Dns,Dhcp}`).

For each of the three codecs, with `decode : bytes → value × unread bytes` and an explicit,
decidable predicate `Wf` = "the value is representable" (every integer field within its Rust
type, and the clause-specific conditions of the property: 48-bit MACs; DNS names without the
delimiter `b' '` and `rdlength = |rdata|`; DHCP strings valid UTF-8 without the terminator NUL —
ARP operation ∈ {1,2} and DHCP message type ∈ 1…7 hold by the type of the field):

* `c08_<p>_decode_encode` : `Wf v → decode (encode v ++ rest) = ok (v, rest)` for ALL `v`, `rest`
* `c08_<p>_encode_decode` : `decode bs = ok (v, rest) → bs = encode v ++ rest ∧ Wf v` for ALL `bs`
  (re-encoding the decoded value reproduces exactly the bytes that were consumed, and every
  decoded value is representable).  This clause holds for all three codecs — no finding here.
-/
namespace Elvis.CodecB

/-! ## ARP -/

/-- representable `ArpPacket`: `u16`/`u8` fields, 48-bit MACs, 32-bit addresses -/
def Arp.Wf (p : Arp.ArpPacket) : Prop :=
  p.htype < 65536 ∧ p.ptype < 65536 ∧ p.hlen < 256 ∧ p.plen < 256 ∧
  p.senderMac < 281474976710656 ∧ p.senderIp < 4294967296 ∧
  p.targetMac < 281474976710656 ∧ p.targetIp < 4294967296

instance (p : Arp.ArpPacket) : Decidable (Arp.Wf p) := by unfold Arp.Wf; infer_instance

example : Arp.Wf (Arp.newReply 1337 2130706433 70368744177664 168496141) := by decide
example : ¬ Arp.Wf (Arp.newReply (2 ^ 48) 0 0 0) := by decide

theorem c08_arp_decode_encode (p : Arp.ArpPacket) (rest : Bytes) (h : Arp.Wf p) :
    Arp.fromBytes (Arp.build p ++ rest) = .ok (p, rest) := by
  obtain ⟨h1, h2, h3, h4, h5, h6, h7, h8⟩ := h
  have ho : p.oper.toNat < 65536 := by cases p.oper <;> simp [Arp.Operation.toNat]
  unfold Arp.build Arp.fromBytes
  simp only [List.append_assoc]
  simp only [nextU16_put _ _ h1, nextU16_put _ _ h2, nextU8_put _ _ h3, nextU8_put _ _ h4,
    nextU16_put _ _ ho, nextU48_put _ _ h5, nextIpv4_put _ _ h6, nextU48_put _ _ h7,
    nextIpv4_put _ _ h8, orShort, bind, Except.bind]
  cases hop : p.oper <;> simp [Arp.Operation.toNat, pure, Except.pure] <;> cases p <;> simp_all

theorem c08_arp_encode_decode (bs rest : Bytes) (p : Arp.ArpPacket)
    (h : Arp.fromBytes bs = .ok (p, rest)) : bs = Arp.build p ++ rest ∧ Arp.Wf p := by
  unfold Arp.fromBytes at h
  obtain ⟨⟨htype, b1⟩, e1, h⟩ := bind_ok_inv h
  obtain ⟨⟨ptype, b2⟩, e2, h⟩ := bind_ok_inv h
  obtain ⟨⟨hlen, b3⟩, e3, h⟩ := bind_ok_inv h
  obtain ⟨⟨plen, b4⟩, e4, h⟩ := bind_ok_inv h
  obtain ⟨⟨oper, b5⟩, e5, h⟩ := bind_ok_inv h
  obtain ⟨op, e6, h⟩ := bind_ok_inv h
  obtain ⟨⟨smac, b7⟩, e7, h⟩ := bind_ok_inv h
  obtain ⟨⟨sip, b8⟩, e8, h⟩ := bind_ok_inv h
  obtain ⟨⟨tmac, b9⟩, e9, h⟩ := bind_ok_inv h
  obtain ⟨⟨tip, b10⟩, e10, h⟩ := bind_ok_inv h
  simp only [pure, Except.pure, Except.ok.injEq, Prod.mk.injEq] at h
  obtain ⟨rfl, rfl⟩ := h
  obtain ⟨rfl, l1⟩ := nextU16_inv (orShort_ok.1 e1)
  obtain ⟨rfl, l2⟩ := nextU16_inv (orShort_ok.1 e2)
  obtain ⟨rfl, l3⟩ := nextU8_inv (orShort_ok.1 e3)
  obtain ⟨rfl, l4⟩ := nextU8_inv (orShort_ok.1 e4)
  obtain ⟨rfl, l5⟩ := nextU16_inv (orShort_ok.1 e5)
  obtain ⟨rfl, l7⟩ := nextU48_inv (orShort_ok.1 e7)
  obtain ⟨rfl, l8⟩ := nextIpv4_inv (orShort_ok.1 e8)
  obtain ⟨rfl, l9⟩ := nextU48_inv (orShort_ok.1 e9)
  obtain ⟨rfl, l10⟩ := nextIpv4_inv (orShort_ok.1 e10)
  have hop : oper = op.toNat := by
    split at e6
    · cases e6; simp [Arp.Operation.toNat, *]
    · split at e6
      · cases e6; simp [Arp.Operation.toNat, *]
      · cases e6
  subst hop
  exact ⟨by simp [Arp.build, List.append_assoc], l1, l2, l3, l4, l7, l8, l9, l10⟩

/-- the model's operation codes are the discriminants of `enum Operation` in the source
    (extracted on every check), and an encoded packet has `ArpPacket::SIZE` bytes -/
theorem c08_arp_codes_and_size :
    [Arp.Operation.request, Arp.Operation.reply].map Arp.Operation.toNat
        = Elvis.Gen.CodecB.arpOperationCodes.map (·.2)
    ∧ ∀ p : Arp.ArpPacket, (Arp.build p).length = Elvis.Gen.CodecB.arpSize := by
  refine ⟨by decide, fun p => ?_⟩
  simp [Arp.build, putU8, putU16, putU32, putU48, Elvis.Gen.CodecB.arpSize]

/-! ## DNS -/

/-- representable `DnsMessage`: `u16`/`u32` fields, names without the delimiter, and the record
    length field equal to the length of the record data -/
def Dns.Wf (m : Dns.DnsMessage) : Prop :=
  (m.header.id < 65536 ∧ m.header.properties < 65536 ∧ m.header.qdcount < 65536 ∧
    m.header.ancount < 65536 ∧ m.header.nscount < 65536 ∧ m.header.arcount < 65536) ∧
  (Dns.delim ∉ m.question.qname ∧ m.question.qtype < 65536 ∧ m.question.qclass < 65536) ∧
  (Dns.delim ∉ m.answer.name ∧ m.answer.recType < 65536 ∧ m.answer.cls < 65536 ∧
    m.answer.ttl < 4294967296 ∧ m.answer.rdlength < 65536 ∧
    m.answer.rdata.length = m.answer.rdlength)

instance (m : Dns.DnsMessage) : Decidable (Dns.Wf m) := by unfold Dns.Wf; infer_instance

example : Dns.Wf Dns.example1 := by decide
example : ¬ Dns.Wf { Dns.example1 with question := Dns.newQuestion [0x61, Dns.delim, 0x62] } := by
  decide

theorem c08_dns_decode_encode (m : Dns.DnsMessage) (rest : Bytes) (h : Dns.Wf m) :
    Dns.fromBytes (Dns.toMessage m ++ rest) = .ok (m, rest) := by
  obtain ⟨⟨h1, h2, h3, h4, h5, h6⟩, ⟨q1, q2, q3⟩, ⟨a1, a2, a3, a4, a5, a6⟩⟩ := h
  unfold Dns.toMessage Dns.buildHeader Dns.buildQuestion Dns.buildAnswer Dns.fromBytes
  simp only [List.append_assoc, List.cons_append, List.nil_append]
  have hrd := rdataLoop_append m.answer.rdlength (by omega) m.answer.rdlength 0 m.answer.rdata rest
    (by omega) (by omega)
  simp only [nextU16_put _ _ h1, nextU16_put _ _ h2, nextU16_put _ _ h3, nextU16_put _ _ h4,
    nextU16_put _ _ h5, nextU16_put _ _ h6, readUntil_append _ _ _ q1, nextU16_put _ _ q2,
    nextU16_put _ _ q3, readUntil_append _ _ _ a1, nextU16_put _ _ a2, nextU16_put _ _ a3,
    nextU32_put _ _ a4, nextU16_put _ _ a5, hrd, orShort, bind, Except.bind]
  rfl

theorem c08_dns_encode_decode (bs rest : Bytes) (m : Dns.DnsMessage)
    (h : Dns.fromBytes bs = .ok (m, rest)) : bs = Dns.toMessage m ++ rest ∧ Dns.Wf m := by
  unfold Dns.fromBytes at h
  obtain ⟨⟨id, b1⟩, e1, h⟩ := bind_ok_inv h
  obtain ⟨⟨pr, b2⟩, e2, h⟩ := bind_ok_inv h
  obtain ⟨⟨qd, b3⟩, e3, h⟩ := bind_ok_inv h
  obtain ⟨⟨an, b4⟩, e4, h⟩ := bind_ok_inv h
  obtain ⟨⟨ns, b5⟩, e5, h⟩ := bind_ok_inv h
  obtain ⟨⟨ar, b6⟩, e6, h⟩ := bind_ok_inv h
  obtain ⟨⟨qn, b7⟩, e7, h⟩ := bind_ok_inv h
  obtain ⟨⟨qt, b8⟩, e8, h⟩ := bind_ok_inv h
  obtain ⟨⟨qc, b9⟩, e9, h⟩ := bind_ok_inv h
  obtain ⟨⟨nm, b10⟩, e10, h⟩ := bind_ok_inv h
  obtain ⟨⟨ty, b11⟩, e11, h⟩ := bind_ok_inv h
  obtain ⟨⟨cl, b12⟩, e12, h⟩ := bind_ok_inv h
  obtain ⟨⟨ttl, b13⟩, e13, h⟩ := bind_ok_inv h
  obtain ⟨⟨rdl, b14⟩, e14, h⟩ := bind_ok_inv h
  obtain ⟨⟨rd, b15⟩, e15, h⟩ := bind_ok_inv h
  simp only [pure, Except.pure, Except.ok.injEq, Prod.mk.injEq] at h
  obtain ⟨rfl, rfl⟩ := h
  obtain ⟨rfl, l1⟩ := nextU16_inv (orShort_ok.1 e1)
  obtain ⟨rfl, l2⟩ := nextU16_inv (orShort_ok.1 e2)
  obtain ⟨rfl, l3⟩ := nextU16_inv (orShort_ok.1 e3)
  obtain ⟨rfl, l4⟩ := nextU16_inv (orShort_ok.1 e4)
  obtain ⟨rfl, l5⟩ := nextU16_inv (orShort_ok.1 e5)
  obtain ⟨rfl, l6⟩ := nextU16_inv (orShort_ok.1 e6)
  obtain ⟨rfl, l7⟩ := readUntil_inv _ (orShort_ok.1 e7)
  obtain ⟨rfl, l8⟩ := nextU16_inv (orShort_ok.1 e8)
  obtain ⟨rfl, l9⟩ := nextU16_inv (orShort_ok.1 e9)
  obtain ⟨rfl, l10⟩ := readUntil_inv _ (orShort_ok.1 e10)
  obtain ⟨rfl, l11⟩ := nextU16_inv (orShort_ok.1 e11)
  obtain ⟨rfl, l12⟩ := nextU16_inv (orShort_ok.1 e12)
  obtain ⟨rfl, l13⟩ := nextU32_inv (orShort_ok.1 e13)
  obtain ⟨rfl, l14⟩ := nextU16_inv (orShort_ok.1 e14)
  obtain ⟨rfl, l15⟩ := rdataLoop_inv rdl rdl 0 _ _ _ (by omega) (by omega) e15
  refine ⟨by simp [Dns.toMessage, Dns.buildHeader, Dns.buildQuestion, Dns.buildAnswer,
    List.append_assoc], ⟨l1, l2, l3, l4, l5, l6⟩, ⟨l7, l8, l9⟩, ⟨l10, l11, l12, l13, l14, by dsimp only; omega⟩⟩

/-! ## DHCP -/

/-- representable `DhcpMessage`: `u8`/`u16`/`u32` fields, both strings valid UTF-8 (they are Rust
    `String`s) and free of the terminator NUL -/
def Dhcp.Wf (m : Dhcp.DhcpMessage) : Prop :=
  (m.op < 256 ∧ m.htype < 256 ∧ m.hlen < 256 ∧ m.hops < 256 ∧ m.transactionId < 4294967296 ∧
    m.seconds < 65536 ∧ m.flags < 256) ∧
  (m.clientIp < 4294967296 ∧ m.yourIp < 4294967296 ∧ m.serverIp < 4294967296 ∧
    m.routerIp < 4294967296 ∧ m.clientHardwareAddress < 65536) ∧
  (Dhcp.term ∉ m.serverName ∧ utf8Valid m.serverName = true) ∧
  (Dhcp.term ∉ m.bootFile ∧ utf8Valid m.bootFile = true)

instance (m : Dhcp.DhcpMessage) : Decidable (Dhcp.Wf m) := by unfold Dhcp.Wf; infer_instance

example : Dhcp.Wf Dhcp.default := by decide
/-- "é€𝄞" (2-, 3- and 4-byte characters) is a representable server name … -/
example : Dhcp.Wf { Dhcp.default with
    serverName := [0xc3, 0xa9, 0xe2, 0x82, 0xac, 0xf0, 0x9d, 0x84, 0x9e], msgType := .release } := by
  decide
/-- … an embedded NUL, a surrogate, an overlong form are not -/
example : ¬ Dhcp.Wf { Dhcp.default with bootFile := [0x41, Dhcp.term, 0x42] } := by decide
example : ¬ Dhcp.Wf { Dhcp.default with bootFile := [0xed, 0xa0, 0x80] } := by decide
example : ¬ Dhcp.Wf { Dhcp.default with bootFile := [0xc0, 0x80] } := by decide

/-- the model's message type codes are the discriminants of `enum MessageType` in the source
    (extracted on every check) -/
theorem c08_dhcp_type_codes :
    [Dhcp.MessageType.discover, .offer, .request, .decline, .ack, .nack, .release].map
        Dhcp.MessageType.toNat = Elvis.Gen.CodecB.dhcpTypeCodes.map (·.2) := by
  decide

theorem c08_dhcp_decode_encode (m : Dhcp.DhcpMessage) (rest : Bytes) (h : Dhcp.Wf m) :
    Dhcp.fromBytes (Dhcp.toMessage m ++ rest) = .ok (m, rest) := by
  obtain ⟨⟨h1, h2, h3, h4, h5, h6, h7⟩, ⟨i1, i2, i3, i4, i5⟩, ⟨s1, s2⟩, ⟨f1, f2⟩⟩ := h
  have ht : m.msgType.toNat < 256 := by cases m.msgType <;> simp [Dhcp.MessageType.toNat]
  unfold Dhcp.toMessage Dhcp.fromBytes
  simp only [List.append_assoc, List.cons_append, List.nil_append]
  simp only [nextU8_put _ _ h1, nextU8_put _ _ h2, nextU8_put _ _ h3, nextU8_put _ _ h4,
    nextU32_put _ _ h5, nextU16_put _ _ h6, nextU8_put _ _ h7, nextIpv4_put _ _ i1,
    nextIpv4_put _ _ i2, nextIpv4_put _ _ i3, nextIpv4_put _ _ i4, nextU16_put _ _ i5,
    nextU8_put _ _ ht, msgTypeTryFrom_toNat, readUntil_append _ _ _ s1, readUntil_append _ _ _ f1,
    Dhcp.stringFromUtf8, s2, f2, if_true, orShort, bind, Except.bind]
  rfl

theorem c08_dhcp_encode_decode (bs rest : Bytes) (m : Dhcp.DhcpMessage)
    (h : Dhcp.fromBytes bs = .ok (m, rest)) : bs = Dhcp.toMessage m ++ rest ∧ Dhcp.Wf m := by
  unfold Dhcp.fromBytes at h
  obtain ⟨⟨op, b1⟩, e1, h⟩ := bind_ok_inv h
  obtain ⟨⟨ht, b2⟩, e2, h⟩ := bind_ok_inv h
  obtain ⟨⟨hl, b3⟩, e3, h⟩ := bind_ok_inv h
  obtain ⟨⟨hp, b4⟩, e4, h⟩ := bind_ok_inv h
  obtain ⟨⟨xid, b5⟩, e5, h⟩ := bind_ok_inv h
  obtain ⟨⟨secs, b6⟩, e6, h⟩ := bind_ok_inv h
  obtain ⟨⟨fl, b7⟩, e7, h⟩ := bind_ok_inv h
  obtain ⟨⟨ci, b8⟩, e8, h⟩ := bind_ok_inv h
  obtain ⟨⟨yi, b9⟩, e9, h⟩ := bind_ok_inv h
  obtain ⟨⟨si, b10⟩, e10, h⟩ := bind_ok_inv h
  obtain ⟨⟨ri, b11⟩, e11, h⟩ := bind_ok_inv h
  obtain ⟨⟨ch, b12⟩, e12, h⟩ := bind_ok_inv h
  obtain ⟨⟨t, b13⟩, e13, h⟩ := bind_ok_inv h
  obtain ⟨mt, e14, h⟩ := bind_ok_inv h
  obtain ⟨⟨sn, b15⟩, e15, h⟩ := bind_ok_inv h
  obtain ⟨sn', e16, h⟩ := bind_ok_inv h
  obtain ⟨⟨bf, b17⟩, e17, h⟩ := bind_ok_inv h
  obtain ⟨bf', e18, h⟩ := bind_ok_inv h
  simp only [pure, Except.pure, Except.ok.injEq, Prod.mk.injEq] at h
  obtain ⟨rfl, rfl⟩ := h
  obtain ⟨rfl, l1⟩ := nextU8_inv (orShort_ok.1 e1)
  obtain ⟨rfl, l2⟩ := nextU8_inv (orShort_ok.1 e2)
  obtain ⟨rfl, l3⟩ := nextU8_inv (orShort_ok.1 e3)
  obtain ⟨rfl, l4⟩ := nextU8_inv (orShort_ok.1 e4)
  obtain ⟨rfl, l5⟩ := nextU32_inv (orShort_ok.1 e5)
  obtain ⟨rfl, l6⟩ := nextU16_inv (orShort_ok.1 e6)
  obtain ⟨rfl, l7⟩ := nextU8_inv (orShort_ok.1 e7)
  obtain ⟨rfl, l8⟩ := nextIpv4_inv (orShort_ok.1 e8)
  obtain ⟨rfl, l9⟩ := nextIpv4_inv (orShort_ok.1 e9)
  obtain ⟨rfl, l10⟩ := nextIpv4_inv (orShort_ok.1 e10)
  obtain ⟨rfl, l11⟩ := nextIpv4_inv (orShort_ok.1 e11)
  obtain ⟨rfl, l12⟩ := nextU16_inv (orShort_ok.1 e12)
  obtain ⟨rfl, l13⟩ := nextU8_inv (orShort_ok.1 e13)
  have ht := msgTypeTryFrom_inv e14
  subst ht
  obtain ⟨rfl, l15⟩ := readUntil_inv _ (orShort_ok.1 e15)
  obtain ⟨rfl, l17⟩ := readUntil_inv _ (orShort_ok.1 e17)
  have u1 : utf8Valid sn = true ∧ sn' = sn := by
    unfold Dhcp.stringFromUtf8 at e16
    split at e16
    · cases e16; exact ⟨by assumption, rfl⟩
    · cases e16
  have u2 : utf8Valid bf = true ∧ bf' = bf := by
    unfold Dhcp.stringFromUtf8 at e18
    split at e18
    · cases e18; exact ⟨by assumption, rfl⟩
    · cases e18
  obtain ⟨u1, rfl⟩ := u1
  obtain ⟨u2, rfl⟩ := u2
  refine ⟨by simp [Dhcp.toMessage, List.append_assoc], ⟨l1, l2, l3, l4, l5, l6, l7⟩,
    ⟨l8, l9, l10, l11, l12⟩, ⟨l15, u1⟩, ⟨l17, u2⟩⟩

end Elvis.CodecB
