import ElvisVerif.Model.Frag
import Driver.Common
/-! Line-protocol handlers for C10 (sub-commands `c10` / `c10-*`).

```
case <id>
dgram <ihl> <tos> <tl> <ident> <fo> <flags> <ttl> <proto> <cksum> <src> <dst> <body>
frag <mtu>
```
`<body>` is `h:<hex>` or `g:<seed>:<len>` (byte i = ((seed+i)·2654435761 / 65536) % 256).
`dgram` makes the datagram the only current piece; `frag` runs `fragment` on every current piece
(one hop), prints the `Fragments` value per piece and makes the travelling pieces current. -/
namespace Driver.C10
open Elvis.Frag

def genBody (seed len : Nat) : List UInt8 :=
  (List.range len).map fun i => UInt8.ofNat (((seed + i) * 2654435761 / 65536) % 256)

def parseBody (s : String) : Option (List UInt8) :=
  match s.splitOn ":" with
  | ["h", hex] => Driver.parseHex hex
  | ["g", seed, len] => do pure (genBody (← seed.toNat?) (← len.toNat?))
  | _ => none

/-- FNV-1a, 64 bit -/
def fnv (b : List UInt8) : UInt64 :=
  b.foldl (fun h x => (h ^^^ x.toUInt64) * 0x100000001b3) 0xcbf29ce484222325

def digest (b : List UInt8) : String :=
  if b.length ≤ 32 then s!"{b.length}:{Driver.toHex b}" else s!"{b.length}:#{(fnv b).toNat}"

/-- long result lines (hundreds of pieces) are cut to head + length + FNV-64 of the whole + tail;
    both sides apply the same rule -/
def compress (s : String) : String :=
  let cs := s.toList
  if cs.length ≤ 1200 then s
  else
    let h := fnv (cs.map fun c => UInt8.ofNat c.toNat)
    String.ofList (cs.take 500) ++ s!" ...[{cs.length}:#{h.toNat}]... " ++ String.ofList (cs.drop (cs.length - 300))

def showHdr (h : Hdr) : String :=
  s!"{h.ihl},{h.tos},{h.totalLength},{h.ident},{h.fragOffset},{h.flags},{h.ttl},{h.proto},{h.checksum},{h.src},{h.dst}"

def showFrag (f : Frag) : String := "{" ++ showHdr f.1 ++ "|" ++ digest f.2 ++ "}"

def showFragments : Except String Fragments → String
  | .error e => "P:" ++ e
  | .ok (.dontFragment f) => "D" ++ showFrag f
  | .ok .discard => "X"
  | .ok (.fragmented l) => "F[" ++ ",".intercalate (l.map showFrag) ++ "]"

def parseHdr : List String → Option Hdr
  | [ihl, tos, tl, ident, fo, flags, ttl, proto, ck, src, dst] => do
    pure { ihl := ← ihl.toNat?, tos := ← tos.toNat?, totalLength := ← tl.toNat?, ident := ← ident.toNat?,
           fragOffset := ← fo.toNat?, flags := ← flags.toNat?, ttl := ← ttl.toNat?, proto := ← proto.toNat?,
           checksum := ← ck.toNat?, src := ← src.toNat?, dst := ← dst.toNat? }
  | _ => none

def step (cur : List Frag) (ws : List String) : List Frag × String :=
  match ws with
  | ["case", id] => ([], s!"case {id}")
  | "dgram" :: rest =>
    match rest.getLast?, parseHdr rest.dropLast with
    | some b, some h =>
      match parseBody b with
      | some body => ([(h, body)], "ok " ++ digest body)
      | none => (cur, "bad-op")
    | _, _ => (cur, "bad-op")
  | ["frag", m] =>
    match m.toNat? with
    | none => (cur, "bad-op")
    | some mtu =>
      let rs := cur.map fun f => fragment f.1 f.2 mtu
      let next := rs.flatMap fun r => match r with | .ok v => v.pieces | .error _ => []
      (next, compress (" ".intercalate (rs.map showFragments) ++ s!" n={next.length}"))
  | _ => (cur, "bad-op")

def dispatch (sub : String) (i o : IO.FS.Stream) : Option (IO Unit) :=
  if sub == "c10" || sub.startsWith "c10-" then some (Driver.loop i o step []) else none

end Driver.C10
