import ElvisVerif.Model.Router
import Driver.Common
/-! Line-protocol handlers for C16 (sub-command `c16`).

`topo` / `host` / `router` lines build the topology (`host … late=1`: a host that claims its address
only at a later `claim <node> ip= mask= gw= port=` op); `mute <node> out|in` / `mute - -` sets the
fault schedule (which ARP frames the networks lose from here on); `send` hands one datagram to a host's stack
and runs the concrete model (`cstep` under the canonical schedule `nextChoice`) to quiescence;
`bsend`* + `flush` hand several datagrams over before running.  The answer lists, canonically
sorted, every frame handed to a network (`W` IPv4, `A` ARP — omitted for bursts), every tap
delivery of an IPv4 frame (`D`) and every application delivery (`P`). -/
namespace Driver.C16
open Elvis.Router

structure St where
  topo : Topo := { nodes := [], mtus := [] }
  cs : CState := CState.init { nodes := [], mtus := [] }
  dead : Bool := false
  /-- the fault schedule in force: which ARP frames the networks lose (`mute` op) -/
  loss : Option ArpLoss := none

def parseAddr (s : String) : Option Nat :=
  match s.splitOn "." with
  | [a, b, c, d] => do
    let a ← a.toNat?; let b ← b.toNat?; let c ← c.toNat?; let d ← d.toNat?
    pure (((a * 256 + b) * 256 + c) * 256 + d)
  | _ => none

def kvs (ws : List String) : List (String × String) :=
  ws.filterMap fun w => match w.splitOn "=" with
    | [k, v] => some (k, v)
    | _ => none

def get (m : List (String × String)) (k : String) : Option String := (m.find? (·.1 == k)).map (·.2)
def getNat (m : List (String × String)) (k : String) : Option Nat := (get m k).bind (·.toNat?)
def getAddr (m : List (String × String)) (k : String) : Option Nat := (get m k).bind parseAddr

def routerBinds : List Bind := Elvis.Gen.routerWildcardListens.map fun pn => { addr := 0, pn := pn, up := .router }

def parseSlot (s : String) : Option ((NetId × Mac) × Addr) :=
  match s.splitOn ":" with
  | [n, m, a] => do pure (((← n.toNat?), (← m.toNat?)), (← parseAddr a))
  | _ => none

def parseRoute (s : String) : Option RouteEntry :=
  match s.splitOn "/" with
  | [a, l, g, sl] => do
    let gw ← if g == "-" then some none else (parseAddr g).map some
    pure { net := (← parseAddr a), len := (← l.toNat?), gw := gw, slot := (← sl.toNat?) }
  | _ => none

def parseSend (m : List (String × String)) : Option (Nat × Pkt) := do
  let tok ← getNat m "tok"
  let h ← getNat m "h"
  let src ← getAddr m "src"
  let dst ← getAddr m "dst"
  let pay ← (get m "pay").bind Driver.parseHex
  if get m "kind" == some "udp" then
    -- Ipv4Session::send: Ipv4HeaderBuilder::new(local, remote, UDP, length)
    pure (h, { tok := tok, payload := pay,
               hdr := { tos := 0, totalLength := 20 + pay.length, ident := 0, fragOffset := 0, flags := 0,
                        ttl := Elvis.Gen.ipv4DefaultTtl, proto := 17, src := src, dst := dst } })
  else
    pure (h, { tok := tok, payload := pay,
               hdr := { tos := (← getNat m "tos"), totalLength := 20 + pay.length, ident := (← getNat m "id"),
                        fragOffset := (← getNat m "off"), flags := (← getNat m "flags"), ttl := (← getNat m "ttl"),
                        proto := (← getNat m "proto"), src := src, dst := dst } })

def showIp (net smac dmac : Nat) (p : Pkt) : String :=
  s!"W:n{net}:{smac}>{dmac}:t{p.tok}:ttl{p.hdr.ttl}:{p.hdr.tos}.{p.hdr.totalLength}.{p.hdr.ident}.{p.hdr.flags}.{p.hdr.fragOffset}.{p.hdr.proto}.{p.hdr.src}.{p.hdr.dst}:{Driver.toHex p.payload}"

def showArp (f : ArpFrame) : String :=
  if f.isReq then s!"A:n{f.net}:{f.smac}>*:q:{f.sip}:{f.sha}:{f.tip}"
  else
    let d := match f.dmac with
      | some m => toString m
      | none => "*"
    s!"A:n{f.net}:{f.smac}>{d}:p:{f.sip}:{f.sha}:{f.tip}:{f.tha}"

def showEv : Ev → Option String
  | .wire f => some (showIp f.net f.smac f.dmac f.pkt)
  | .app n p port data => some s!"P:{n}:{port}:t{p.tok}:{Driver.toHex data}"
  | .hop _ _ => none

/-- is the a-th ARP frame in flight lost under the fault schedule in force? -/
def lostArp (topo : Topo) (loss : Option ArpLoss) (s : CState) (a : Nat) : Bool :=
  match loss, s.arpFlight[a]? with
  | some l, some fr => l.hits topo fr
  | _, _ => false

/-- the canonical schedule, recording the tap deliveries of IPv4 frames; an ARP frame the fault
    schedule loses is taken off the network (`dropArp`) instead of being delivered -/
def runTrace (topo : Topo) (loss : Option ArpLoss) : Nat → CState → List String → Except String (CState × List String)
  | 0, _, _ => .error "model-not-quiescent-within-step-budget"
  | fuel + 1, s, acc =>
    match nextChoice s with
    | none => .ok (s, acc)
    | some (.arp a) =>
      if lostArp topo loss s a then runTrace topo loss fuel (dropArp s a) acc
      else
        match cstep topo s (.arp a) with
        | .error e => .error e
        | .ok s' => runTrace topo loss fuel s' acc
    | some c =>
      let acc := match c with
        | .deliver i =>
          match s.flight[i]? with
          | some f =>
            match tapOwner topo f.net f.dmac with
            | some (n, _, _) => s!"D:{n}:t{f.pkt.tok}:ttl{f.pkt.hdr.ttl}" :: acc
            | none => acc
          | none => acc
        | _ => acc
      match cstep topo s c with
      | .error e => .error e
      | .ok s' => runTrace topo loss fuel s' acc

def sortStrings (l : List String) : List String := (l.toArray.qsort (fun a b => a < b)).toList

def settle (st : St) (withArp : Bool) (before : CState) : St × String :=
  match runTrace st.topo st.loss 40000 st.cs [] with
  | .error e => ({ st with dead := true }, e)
  | .ok (s, taps) =>
    let evs := (s.log.drop before.log.length).filterMap showEv
    let arps := if withArp then (s.arpLog.drop before.arpLog.length).map showArp else []
    let items := sortStrings (evs ++ arps ++ taps)
    ({ st with cs := s }, if items.isEmpty then "r -" else "r " ++ " ".intercalate items)

def step (st : St) (ws : List String) : St × String :=
  match ws with
  | ["case", id] => ({}, s!"case {id}")
  | "topo" :: rest =>
    let m := kvs rest
    match (get m "mtus").map (fun s => (s.splitOn ",").filterMap (·.toNat?)) with
    | some mtus => ({ st with topo := { nodes := [], mtus := mtus } }, "topo")
    | none => (st, "bad-op")
  | "host" :: _ :: rest =>
    let m := kvs rest
    match getNat m "net", getNat m "mac", getAddr m "ip", getNat m "mask", getAddr m "gw", getNat m "port" with
    | some net, some mac, some ip, some mask, some gw, some port =>
      -- `late=1`: the host claims its address (Arp::set_subnet + Udp::listen -> Ipv4::listen ->
      -- Arp::listen) only at its `claim` op; until then it answers no ARP request and binds nothing
      let late := getNat m "late" == some 1
      let nd : Node := { slots := [(net, mac)], binds := if late then [] else [{ addr := ip, pn := 17, up := .udp }],
                         udpPorts := if late then [] else [(ip, port)],
                         subnet := if late then none else some (ip, mask, gw), localIps := [ip],
                         table := [], arpIps := if late then [] else [ip] }
      let topo := { st.topo with nodes := st.topo.nodes ++ [nd] }
      ({ st with topo := topo, cs := CState.init topo }, "host")
    | _, _, _, _, _, _ => (st, "bad-op")
  | "router" :: _ :: rest =>
    let m := kvs rest
    let slots := (get m "slots").bind fun s => (s.splitOn ",").mapM parseSlot
    let routes := (get m "routes").bind fun s => if s == "-" then some [] else (s.splitOn ";").mapM parseRoute
    match slots, routes with
    | some sl, some rt =>
      let ips := sl.map (·.2)
      let nd : Node := { slots := sl.map (·.1), binds := routerBinds, udpPorts := [], subnet := none,
                         localIps := ips, table := rt, arpIps := ips ++ [0] }
      let topo := { st.topo with nodes := st.topo.nodes ++ [nd] }
      ({ st with topo := topo, cs := CState.init topo }, "router")
    | _, _ => (st, "bad-op")
  | ["mute", n, dir] =>
    -- fault schedule from here on: `mute - -` none; `mute <node> out|in` see `ArpLoss`
    match n.toNat?, dir with
    | some n, "out" => ({ st with loss := some { node := n, inbound := false } }, "mute")
    | some n, "in" => ({ st with loss := some { node := n, inbound := true } }, "mute")
    | none, _ => if n == "-" then ({ st with loss := none }, "mute") else (st, "bad-op")
    | _, _ => (st, "bad-op")
  | "claim" :: n :: rest =>
    let m := kvs rest
    match n.toNat?, getAddr m "ip", getNat m "mask", getAddr m "gw", getNat m "port" with
    | some n, some ip, some mask, some gw, some port =>
      match st.topo.nodes[n]? with
      | some nd =>
        let nd' : Node := { nd with binds := [{ addr := ip, pn := 17, up := .udp }], udpPorts := [(ip, port)],
                                    subnet := some (ip, mask, gw), arpIps := [ip] }
        ({ st with topo := { st.topo with nodes := st.topo.nodes.set n nd' } }, "claim")
      | none => (st, "bad-op")
    | _, _, _, _, _ => (st, "bad-op")
  | "send" :: rest =>
    if st.dead then (st, "dead") else
    match parseSend (kvs rest) with
    | none => (st, "bad-op")
    | some (h, pkt) =>
      match cstep st.topo st.cs (.send h pkt) with
      | .error e => ({ st with dead := true }, e)
      | .ok s => settle { st with cs := s } true st.cs
  | "bsend" :: rest =>
    if st.dead then (st, "q") else
    match parseSend (kvs rest) with
    | none => (st, "bad-op")
    | some (h, pkt) =>
      match cstep st.topo st.cs (.send h pkt) with
      | .error e => ({ st with dead := true }, e)
      | .ok s => ({ st with cs := s }, "q")
  | ["flush"] =>
    if st.dead then (st, "dead") else
    -- the datagrams of the burst wait as tasks; everything logged from here on belongs to it
    settle st false st.cs
  | _ => (st, "bad-op")

def dispatch (sub : String) (i o : IO.FS.Stream) : Option (IO Unit) :=
  if sub == "c16" then some (Driver.loop i o step {}) else none

end Driver.C16
