import ElvisVerif.Model.IpTable
import ElvisVerif.Lemmas.Subnet
/-!
Helper lemmas for C09 (IP table).  Route: `Obm::cmp` is a strict total order on networks whose
`Equal` is structural equality; the table is a strictly sorted list (invariant of every op), so
membership in the list is a function of the key and coincides with the abstract map the history
denotes; `get_recipient` on a sorted list of well-formed networks returns the first, hence the
longest, containing entry; two well-formed networks of equal mask length containing the same
address are equal, so the longest containing key is unique.
-/
namespace Elvis.IpTable
open Elvis.Subnet Elvis.IpTable.Spec

/-! ### `Obm::cmp` -/

theorem obmCmp_spec (a b : Net) :
    obmCmp a b =
      if b.mask.bits.toNat < a.mask.bits.toNat then .lt
      else if a.mask.bits.toNat < b.mask.bits.toNat then .gt
      else if a.id.toNat < b.id.toNat then .lt
      else if a.id.toNat = b.id.toNat then .eq else .gt := by
  have em : (a.mask.bits = b.mask.bits) ↔ a.mask.bits.toNat = b.mask.bits.toNat :=
    ⟨fun h => by rw [h], BitVec.eq_of_toNat_eq⟩
  have ei : (a.id = b.id) ↔ a.id.toNat = b.id.toNat :=
    ⟨fun h => by rw [h], BitVec.eq_of_toNat_eq⟩
  unfold obmCmp cmpU32
  simp only [BitVec.lt_def, em, ei]
  by_cases h1 : a.mask.bits.toNat < b.mask.bits.toNat
  · have h2 : ¬ b.mask.bits.toNat < a.mask.bits.toNat := by omega
    simp [h1, h2]
  · by_cases h2 : a.mask.bits.toNat = b.mask.bits.toNat
    · simp only [h2, Nat.lt_irrefl, if_false, if_true]
    · have h3 : b.mask.bits.toNat < a.mask.bits.toNat := by omega
      simp [h1, h2, h3]

theorem obm_lt_iff (a b : Net) : obmCmp a b = .lt ↔
    (b.mask.bits.toNat < a.mask.bits.toNat ∨
      (a.mask.bits.toNat = b.mask.bits.toNat ∧ a.id.toNat < b.id.toNat)) := by
  rw [obmCmp_spec]
  split
  · simp; omega
  · split
    · simp; omega
    · split
      · simp; omega
      · split <;> simp <;> omega

theorem obm_gt_iff (a b : Net) : obmCmp a b = .gt ↔ obmCmp b a = .lt := by
  rw [obm_lt_iff, obmCmp_spec]
  split
  · simp; omega
  · split
    · simp; omega
    · split
      · simp; omega
      · split <;> simp <;> omega

theorem net_ext {a b : Net} (h1 : a.mask.bits.toNat = b.mask.bits.toNat)
    (h2 : a.id.toNat = b.id.toNat) : a = b := by
  cases a with
  | mk ia ma =>
    cases b with
    | mk ib mb =>
      cases ma; cases mb
      simp only at h1 h2
      have := BitVec.eq_of_toNat_eq h1
      have := BitVec.eq_of_toNat_eq h2
      subst_vars; rfl

theorem obm_eq_iff (a b : Net) : obmCmp a b = .eq ↔ a = b := by
  constructor
  · intro h
    rw [obmCmp_spec] at h
    split at h
    · cases h
    · split at h
      · cases h
      · split at h
        · cases h
        · split at h
          · apply net_ext <;> omega
          · cases h
  · intro h
    subst h
    rw [obmCmp_spec]
    simp

theorem obm_irrefl (a : Net) : obmCmp a a ≠ .lt := by
  rw [(obm_eq_iff a a).2 rfl]; intro h; cases h

theorem obm_trans {a b c : Net} (h1 : obmCmp a b = .lt) (h2 : obmCmp b c = .lt) :
    obmCmp a c = .lt := by
  rw [obm_lt_iff] at *; omega

theorem obm_lt_ne {a b : Net} (h : obmCmp a b = .lt) : a ≠ b := by
  intro e; subst e; exact obm_irrefl a h

theorem obm_lt_mask {a b : Net} (h : obmCmp a b = .lt) : b.mask.bits ≤ a.mask.bits := by
  rw [obm_lt_iff] at h; rw [BitVec.le_def]; omega

/-! ### strictly sorted tables -/

def Sorted {V : Type} (t : Table V) : Prop := t.Pairwise (fun x y => obmCmp x.1 y.1 = .lt)

theorem mem_insert_subset {V : Type} (k : Net) (v : V) (t : Table V) :
    ∀ x ∈ insert k v t, x = (k, v) ∨ x ∈ t := by
  induction t with
  | nil => intro x hx; simp only [insert, List.mem_singleton] at hx; exact Or.inl hx
  | cons hd t ih =>
    obtain ⟨h, hv⟩ := hd
    intro x hx
    simp only [insert] at hx
    split at hx
    · rw [List.mem_cons] at hx
      cases hx with
      | inl e => exact Or.inl e
      | inr e => exact Or.inr e
    · rename_i heq
      have hk : k = h := (obm_eq_iff k h).1 heq
      rw [List.mem_cons] at hx
      cases hx with
      | inl e => left; rw [e, hk]
      | inr e => exact Or.inr (List.mem_cons_of_mem _ e)
    · rw [List.mem_cons] at hx
      cases hx with
      | inl e => right; rw [e]; exact List.mem_cons_self
      | inr e =>
        cases ih x e with
        | inl e' => exact Or.inl e'
        | inr e' => exact Or.inr (List.mem_cons_of_mem _ e')

theorem sorted_insert {V : Type} (k : Net) (v : V) (t : Table V) (hs : Sorted t) :
    Sorted (insert k v t) := by
  induction t with
  | nil => simp [insert, Sorted]
  | cons hd t ih =>
    obtain ⟨h, hv⟩ := hd
    unfold Sorted at hs
    rw [List.pairwise_cons] at hs
    obtain ⟨hhd, htl⟩ := hs
    simp only [insert]
    split
    · rename_i hlt
      unfold Sorted
      rw [List.pairwise_cons]
      refine ⟨?_, List.pairwise_cons.2 ⟨hhd, htl⟩⟩
      intro y hy
      rw [List.mem_cons] at hy
      cases hy with
      | inl e => rw [e]; exact hlt
      | inr e => exact obm_trans hlt (hhd y e)
    · unfold Sorted
      rw [List.pairwise_cons]
      exact ⟨hhd, htl⟩
    · rename_i hgt
      unfold Sorted
      rw [List.pairwise_cons]
      refine ⟨?_, ih htl⟩
      intro y hy
      cases mem_insert_subset k v t y hy with
      | inl e => rw [e]; exact (obm_gt_iff k h).1 hgt
      | inr e => exact hhd y e

theorem mem_insert_iff {V : Type} (k : Net) (v : V) (t : Table V) (hs : Sorted t) (k' : Net) (v' : V) :
    (k', v') ∈ insert k v t ↔ (k' = k ∧ v' = v) ∨ (k' ≠ k ∧ (k', v') ∈ t) := by
  induction t with
  | nil =>
    simp only [insert, List.mem_singleton, Prod.mk.injEq, List.not_mem_nil, and_false, or_false]
  | cons hd t ih =>
    obtain ⟨h, hv⟩ := hd
    unfold Sorted at hs
    rw [List.pairwise_cons] at hs
    obtain ⟨hhd, htl⟩ := hs
    simp only [insert]
    split
    · rename_i hlt
      rw [List.mem_cons, Prod.mk.injEq]
      constructor
      · intro hx
        cases hx with
        | inl e => exact Or.inl e
        | inr e =>
          right
          refine ⟨?_, e⟩
          intro ek; subst ek
          rw [List.mem_cons] at e
          cases e with
          | inl e => injection e with e1 _; subst e1; exact obm_irrefl _ hlt
          | inr e => exact obm_irrefl _ (obm_trans hlt (hhd _ e))
      · intro hx
        cases hx with
        | inl e => exact Or.inl e
        | inr e => exact Or.inr e.2
    · rename_i heq
      have hk : k = h := (obm_eq_iff k h).1 heq
      subst hk
      rw [List.mem_cons, List.mem_cons, Prod.mk.injEq, Prod.mk.injEq]
      constructor
      · intro hx
        cases hx with
        | inl e => exact Or.inl e
        | inr e =>
          right
          refine ⟨?_, Or.inr e⟩
          intro ek; subst ek
          exact obm_irrefl _ (hhd (_, v') e)
      · intro hx
        cases hx with
        | inl e => exact Or.inl e
        | inr e =>
          cases e.2 with
          | inl e' => exact absurd e'.1 e.1
          | inr e' => exact Or.inr e'
    · rename_i hgt
      have hne : h ≠ k := by
        intro e; subst e
        rw [(obm_eq_iff h h).2 rfl] at hgt; cases hgt
      rw [List.mem_cons, List.mem_cons, ih htl, Prod.mk.injEq]
      constructor
      · intro hx
        rcases hx with e | e | e
        · right; exact ⟨by rw [e.1]; exact hne, Or.inl e⟩
        · exact Or.inl e
        · exact Or.inr ⟨e.1, Or.inr e.2⟩
      · intro hx
        rcases hx with e | ⟨e1, e2 | e2⟩
        · exact Or.inr (Or.inl e)
        · exact Or.inl e2
        · exact Or.inr (Or.inr ⟨e1, e2⟩)

theorem mem_erase_subset {V : Type} (k : Net) (t : Table V) : ∀ x ∈ erase k t, x ∈ t := by
  induction t with
  | nil => intro x hx; exact hx
  | cons hd t ih =>
    obtain ⟨h, hv⟩ := hd
    intro x hx
    simp only [erase] at hx
    split at hx
    · exact hx
    · exact List.mem_cons_of_mem _ hx
    · rw [List.mem_cons] at hx
      cases hx with
      | inl e => rw [e]; exact List.mem_cons_self
      | inr e => exact List.mem_cons_of_mem _ (ih x e)

theorem sorted_erase {V : Type} (k : Net) (t : Table V) (hs : Sorted t) : Sorted (erase k t) := by
  induction t with
  | nil => exact hs
  | cons hd t ih =>
    obtain ⟨h, hv⟩ := hd
    have hs0 := hs
    unfold Sorted at hs
    rw [List.pairwise_cons] at hs
    obtain ⟨hhd, htl⟩ := hs
    simp only [erase]
    split
    · exact hs0
    · exact htl
    · unfold Sorted
      rw [List.pairwise_cons]
      exact ⟨fun y hy => hhd y (mem_erase_subset k t y hy), ih htl⟩

theorem mem_erase_iff {V : Type} (k : Net) (t : Table V) (hs : Sorted t) (k' : Net) (v' : V) :
    (k', v') ∈ erase k t ↔ k' ≠ k ∧ (k', v') ∈ t := by
  induction t with
  | nil => simp [erase]
  | cons hd t ih =>
    obtain ⟨h, hv⟩ := hd
    unfold Sorted at hs
    rw [List.pairwise_cons] at hs
    obtain ⟨hhd, htl⟩ := hs
    simp only [erase]
    split
    · rename_i hlt
      constructor
      · intro hx
        refine ⟨?_, hx⟩
        intro ek; subst ek
        rw [List.mem_cons] at hx
        cases hx with
        | inl e => injection e with e1 _; subst e1; exact obm_irrefl _ hlt
        | inr e => exact obm_irrefl _ (obm_trans hlt (hhd _ e))
      · intro hx; exact hx.2
    · rename_i heq
      have hk : k = h := (obm_eq_iff k h).1 heq
      subst hk
      rw [List.mem_cons, Prod.mk.injEq]
      constructor
      · intro hx
        refine ⟨?_, Or.inr hx⟩
        intro ek; subst ek
        exact obm_irrefl _ (hhd (_, v') hx)
      · intro hx
        cases hx.2 with
        | inl e => exact absurd e.1 hx.1
        | inr e => exact e
    · rename_i hgt
      have hne : h ≠ k := by
        intro e; subst e
        rw [(obm_eq_iff h h).2 rfl] at hgt; cases hgt
      rw [List.mem_cons, List.mem_cons, ih htl, Prod.mk.injEq]
      constructor
      · intro hx
        rcases hx with e | e
        · exact ⟨by rw [e.1]; exact hne, Or.inl e⟩
        · exact ⟨e.1, Or.inr e.2⟩
      · intro hx
        rcases hx with ⟨e1, e2 | e2⟩
        · exact Or.inl e2
        · exact Or.inr ⟨e1, e2⟩

/-- in a sorted table the value of a key is unique -/
theorem sorted_functional {V : Type} (t : Table V) (hs : Sorted t) (k : Net) (v w : V)
    (h1 : (k, v) ∈ t) (h2 : (k, w) ∈ t) : v = w := by
  induction t with
  | nil => cases h1
  | cons hd t ih =>
    unfold Sorted at hs
    rw [List.pairwise_cons] at hs
    obtain ⟨hhd, htl⟩ := hs
    rw [List.mem_cons] at h1 h2
    rcases h1 with e1 | e1 <;> rcases h2 with e2 | e2
    · rw [← e1] at e2; injection e2 with _ e; exact e.symm
    · subst e1; exact absurd (hhd _ e2) (obm_irrefl _)
    · subst e2; exact absurd (hhd _ e1) (obm_irrefl _)
    · exact ih htl e1 e2

/-- `BTreeMap::get` on the sorted list is membership -/
theorem find_eq_some_iff {V : Type} (t : Table V) (hs : Sorted t) (k : Net) (v : V) :
    find k t = some v ↔ (k, v) ∈ t := by
  induction t with
  | nil => simp [find]
  | cons hd t ih =>
    obtain ⟨h, hv⟩ := hd
    unfold Sorted at hs
    rw [List.pairwise_cons] at hs
    obtain ⟨hhd, htl⟩ := hs
    simp only [find]
    split
    · rename_i hlt
      constructor
      · intro e; cases e
      · intro hx
        exfalso
        rw [List.mem_cons] at hx
        cases hx with
        | inl e => injection e with e1 _; subst e1; exact obm_irrefl _ hlt
        | inr e => exact obm_irrefl _ (obm_trans hlt (hhd _ e))
    · rename_i heq
      have hk : k = h := (obm_eq_iff k h).1 heq
      subst hk
      rw [List.mem_cons, Prod.mk.injEq]
      constructor
      · intro e; injection e with e; exact Or.inl ⟨rfl, e.symm⟩
      · intro hx
        cases hx with
        | inl e => rw [e.2]
        | inr e => exact absurd (hhd _ e) (obm_irrefl _)
    · rename_i hgt
      have hne : k ≠ h := by
        intro e; subst e
        rw [(obm_eq_iff k k).2 rfl] at hgt; cases hgt
      rw [ih htl, List.mem_cons, Prod.mk.injEq]
      constructor
      · intro e; exact Or.inr e
      · intro e
        cases e with
        | inl e => exact absurd e.1 hne
        | inr e => exact e

/-! ### the representation invariant and its preservation -/

/-- the sorted list represents the abstract map -/
def Rep {V : Type} (t : Table V) (m : AMap V) : Prop :=
  Sorted t ∧ ∀ k v, (k, v) ∈ t ↔ m k = some v

/-- all keys of the abstract map are well-formed networks -/
def MapWF {V : Type} (m : AMap V) : Prop := ∀ k v, m k = some v → k.WF

/-- the networks an op carries are values of the (opaque) type `Ipv4Net` -/
def Op.WF {V : Type} : Op V → Prop
  | .add k _ => k.WF
  | .remove k => k.WF
  | _ => True

theorem rep_insert {V : Type} {t : Table V} {m : AMap V} (h : Rep t m) (k : Net) (v : V) :
    Rep (insert k v t) (update m k (some v)) := by
  refine ⟨sorted_insert k v t h.1, ?_⟩
  intro k' v'
  rw [mem_insert_iff k v t h.1, h.2]
  unfold update
  by_cases e : k' = k
  · simp [e]; exact eq_comm
  · simp [e]

theorem rep_erase {V : Type} {t : Table V} {m : AMap V} (h : Rep t m) (k : Net) :
    Rep (erase k t) (update m k none) := by
  refine ⟨sorted_erase k t h.1, ?_⟩
  intro k' v'
  rw [mem_erase_iff k t h.1, h.2]
  unfold update
  by_cases e : k' = k
  · simp [e]
  · simp [e]

theorem rep_step {V : Type} {t t' : Table V} {m : AMap V} (h : Rep t m) (op : Op V)
    (hs : step t op = .ok t') : Rep t' (denoteStep m op) := by
  cases op with
  | add k v => simp only [step] at hs; injection hs with hs; subst hs; exact rep_insert h k v
  | remove k => simp only [step] at hs; injection hs with hs; subst hs; exact rep_erase h k
  | addDirect ip v => simp only [step] at hs; injection hs with hs; subst hs; exact rep_insert h _ v
  | removeDirect ip => simp only [step] at hs; injection hs with hs; subst hs; exact rep_erase h _
  | addCidr s v =>
    simp only [step] at hs
    simp only [denoteStep]
    cases hc : Net.fromCidr s with
    | ok k =>
      rw [hc] at hs; simp only at hs ⊢
      injection hs with hs; subst hs; exact rep_insert h k v
    | error e =>
      rw [hc] at hs; simp only at hs ⊢
      injection hs with hs; subst hs; exact h
  | removeCidr s =>
    simp only [step] at hs
    simp only [denoteStep]
    cases hc : Net.fromCidr s with
    | ok k =>
      rw [hc] at hs; simp only at hs ⊢
      injection hs with hs; subst hs; exact rep_erase h k
    | error e =>
      rw [hc] at hs; simp only at hs
      cases hs

theorem mapwf_update {V : Type} {m : AMap V} (h : MapWF m) (k : Net) (r : Option V) (hk : k.WF) :
    MapWF (update m k r) := by
  intro k' v' hm
  unfold update at hm
  by_cases e : k' = k
  · rw [e]; exact hk
  · rw [if_neg e] at hm; exact h k' v' hm

theorem mapwf_step {V : Type} {m : AMap V} (h : MapWF m) (op : Op V) (hop : Op.WF op) :
    MapWF (denoteStep m op) := by
  cases op with
  | add k v => exact mapwf_update h k _ hop
  | remove k => exact mapwf_update h k _ hop
  | addDirect ip v => exact mapwf_update h _ _ (Net.wf_new ip _ (Mask.wf_fromBitcount 32))
  | removeDirect ip => exact mapwf_update h _ _ (Net.wf_new ip _ (Mask.wf_fromBitcount 32))
  | addCidr s v =>
    simp only [denoteStep]
    split
    · rename_i k hk; exact mapwf_update h k _ (Net.wf_fromCidr hk)
    · exact h
  | removeCidr s =>
    simp only [denoteStep]
    split
    · rename_i k hk; exact mapwf_update h k _ (Net.wf_fromCidr hk)
    · exact h

theorem rep_runFrom {V : Type} (ops : List (Op V)) (t t' : Table V) (m : AMap V) (h : Rep t m)
    (hr : runFrom t ops = .ok t') : Rep t' (denoteFrom m ops) := by
  induction ops generalizing t m with
  | nil => simp only [runFrom] at hr; injection hr with hr; subst hr; exact h
  | cons op ops ih =>
    simp only [runFrom] at hr
    split at hr
    · rename_i t1 h1
      exact ih t1 (denoteStep m op) (rep_step h op h1) hr
    · cases hr

theorem mapwf_denoteFrom {V : Type} (ops : List (Op V)) (m : AMap V) (h : MapWF m)
    (hops : ∀ op ∈ ops, Op.WF op) : MapWF (denoteFrom m ops) := by
  induction ops generalizing m with
  | nil => exact h
  | cons op ops ih =>
    simp only [denoteFrom]
    exact ih _ (mapwf_step h op (hops op List.mem_cons_self))
      (fun o ho => hops o (List.mem_cons_of_mem _ ho))

theorem rep_empty {V : Type} : Rep (new : Table V) (fun _ => none) := by
  refine ⟨List.Pairwise.nil, ?_⟩
  intro k v; simp [new]

theorem mapwf_empty {V : Type} : MapWF (fun _ => none : AMap V) := by
  intro k v h; cases h

/-! ### lookup -/

theorem len_le_of_mask_le {a b : Net} (ha : a.WF) (hb : b.WF) (h : b.mask.bits ≤ a.mask.bits) :
    len b ≤ len a := by
  obtain ⟨ea, la⟩ := ha.1.eq
  obtain ⟨eb, lb⟩ := hb.1.eq
  rw [ea, eb] at h
  exact (fromBitcount_le_iff lb la).1 h

theorem getRecipient_spec {V : Type} (t : Table V) (hs : Sorted t) (hw : ∀ x ∈ t, x.1.WF) (a : Addr) :
    match getRecipient t a with
    | none => ∀ x ∈ t, x.1.contains a = false
    | some v => ∃ k, (k, v) ∈ t ∧ k.contains a = true ∧
        ∀ x ∈ t, x.1.contains a = true → len x.1 ≤ len k := by
  induction t with
  | nil => simp [getRecipient]
  | cons hd t ih =>
    obtain ⟨n, v⟩ := hd
    unfold Sorted at hs
    rw [List.pairwise_cons] at hs
    obtain ⟨hhd, htl⟩ := hs
    have hwt : ∀ x ∈ t, x.1.WF := fun x hx => hw x (List.mem_cons_of_mem _ hx)
    have hwn : n.WF := hw (n, v) List.mem_cons_self
    simp only [getRecipient]
    by_cases hc : n.contains a = true
    · rw [if_pos hc]
      refine ⟨n, List.mem_cons_self, hc, ?_⟩
      intro x hx _
      rw [List.mem_cons] at hx
      cases hx with
      | inl e => rw [e]; exact Nat.le_refl _
      | inr e => exact len_le_of_mask_le hwn (hwt x e) (obm_lt_mask (hhd x e))
    · rw [if_neg hc]
      have ih' := ih htl hwt
      have hcf : n.contains a = false := by simpa using hc
      split
      · rename_i hnone
        rw [hnone] at ih'
        intro x hx
        rw [List.mem_cons] at hx
        cases hx with
        | inl e => rw [e]; exact hcf
        | inr e => exact ih' x e
      · rename_i w hsome
        rw [hsome] at ih'
        obtain ⟨k, hk1, hk2, hk3⟩ := ih'
        refine ⟨k, List.mem_cons_of_mem _ hk1, hk2, ?_⟩
        intro x hx hxc
        rw [List.mem_cons] at hx
        cases hx with
        | inl e => rw [e] at hxc; rw [hcf] at hxc; cases hxc
        | inr e => exact hk3 x e hxc

theorem getRecipient_isLpm {V : Type} {t : Table V} {m : AMap V} (h : Rep t m) (hw : MapWF m)
    (a : Addr) : IsLpm m a (getRecipient t a) := by
  have hwt : ∀ x ∈ t, x.1.WF := by
    intro x hx
    obtain ⟨k, v⟩ := x
    exact hw k v ((h.2 k v).1 hx)
  have hsp := getRecipient_spec t h.1 hwt a
  split at hsp
  · rename_i hnone
    left
    refine ⟨hnone, ?_⟩
    intro k v hm
    exact hsp (k, v) ((h.2 k v).2 hm)
  · rename_i v hsome
    right
    obtain ⟨k, hk1, hk2, hk3⟩ := hsp
    refine ⟨k, v, (h.2 k v).1 hk1, hk2, hsome, ?_⟩
    intro k' v' hm hc
    exact hk3 (k', v') ((h.2 k' v').2 hm) hc

/-- two well-formed networks of equal mask length containing the same address are equal -/
theorem net_unique {a b : Net} {x : Addr} (ha : a.WF) (hb : b.WF) (hl : len a = len b)
    (ca : a.contains x = true) (cb : b.contains x = true) : a = b := by
  have ea := ha.1.eq.1
  have eb := hb.1.eq.1
  have hm : a.mask = b.mask := by
    rw [ea, eb]; unfold len at hl; rw [hl]
  rw [Net.eq_new_of_contains ca, Net.eq_new_of_contains cb, hm]

/-- the longest-prefix answer is unique: the specification is deterministic -/
theorem isLpm_unique {V : Type} {m : AMap V} (hw : MapWF m) {a : Addr} {r1 r2 : Option V}
    (h1 : IsLpm m a r1) (h2 : IsLpm m a r2) : r1 = r2 := by
  rcases h1 with ⟨e1, n1⟩ | ⟨k1, v1, m1, c1, e1, x1⟩ <;>
    rcases h2 with ⟨e2, n2⟩ | ⟨k2, v2, m2, c2, e2, x2⟩
  · rw [e1, e2]
  · have := n1 k2 v2 m2; rw [c2] at this; cases this
  · have := n2 k1 v1 m1; rw [c1] at this; cases this
  · have l1 := x1 k2 v2 m2 c2
    have l2 := x2 k1 v1 m1 c1
    have hk : k1 = k2 := net_unique (hw k1 v1 m1) (hw k2 v2 m2) (by omega) c1 c2
    subst hk
    rw [m1] at m2
    rw [e1, e2, m2]

theorem lpmFrom_spec {V : Type} (m : AMap V) (a : Addr) (n : Nat) :
    match lpmFrom m a n with
    | none => ∀ j, j ≤ n → m (Net.new a (Mask.fromBitcount j)) = none
    | some v => ∃ j, j ≤ n ∧ m (Net.new a (Mask.fromBitcount j)) = some v ∧
        ∀ j', j < j' → j' ≤ n → m (Net.new a (Mask.fromBitcount j')) = none := by
  induction n with
  | zero =>
    simp only [lpmFrom]
    split
    · rename_i h
      intro j hj
      have : j = 0 := by omega
      rw [this]; exact h
    · rename_i v h
      exact ⟨0, Nat.le_refl 0, h, fun j' h1 h2 => by omega⟩
  | succ n ih =>
    simp only [lpmFrom]
    cases hcur : m (Net.new a (Mask.fromBitcount (n + 1))) with
    | some v =>
      simp only
      exact ⟨n + 1, Nat.le_refl _, hcur, fun j' h1 h2 => by omega⟩
    | none =>
      simp only
      split
      · rename_i hnone
        rw [hnone] at ih
        intro j hj
        by_cases e : j = n + 1
        · rw [e]; exact hcur
        · exact ih j (by omega)
      · rename_i v hsome
        rw [hsome] at ih
        obtain ⟨j, hj, hmj, hrest⟩ := ih
        refine ⟨j, by omega, hmj, ?_⟩
        intro j' h1 h2
        by_cases e : j' = n + 1
        · rw [e]; exact hcur
        · exact hrest j' h1 (by omega)

theorem lpm_isLpm {V : Type} {m : AMap V} (hw : MapWF m) (a : Addr) : IsLpm m a (lpm m a) := by
  have hsp := lpmFrom_spec m a 32
  have key : ∀ k v, m k = some v → k.contains a = true →
      k = Net.new a (Mask.fromBitcount (len k)) ∧ len k ≤ 32 := by
    intro k v hm hc
    obtain ⟨e, l⟩ := (hw k v hm).1.eq
    refine ⟨?_, l⟩
    have h := Net.eq_new_of_contains hc
    unfold len
    rw [← e]
    exact h
  unfold lpm
  split at hsp
  · rename_i hnone
    left
    refine ⟨hnone, ?_⟩
    intro k v hm
    cases hc : k.contains a with
    | false => rfl
    | true =>
      obtain ⟨e, l⟩ := key k v hm hc
      have := hsp (len k) l
      rw [← e, hm] at this
      cases this
  · rename_i v hsome
    right
    obtain ⟨j, hj, hmj, hrest⟩ := hsp
    refine ⟨_, v, hmj, Net.contains_new a _, hsome, ?_⟩
    intro k' v' hm' hc'
    obtain ⟨e, l⟩ := key k' v' hm' hc'
    have hlen : len (Net.new a (Mask.fromBitcount j)) = j := countOnes_fromBitcount hj
    rw [hlen]
    by_cases hgt : j < len k'
    · have := hrest (len k') hgt l
      rw [← e, hm'] at this
      cases this
    · omega

/-! ### canonical form: a sorted table is determined by its contents -/

theorem sorted_ext {V : Type} (t1 t2 : Table V) (h1 : Sorted t1) (h2 : Sorted t2)
    (h : ∀ x, x ∈ t1 ↔ x ∈ t2) : t1 = t2 := by
  induction t1 generalizing t2 with
  | nil =>
    cases t2 with
    | nil => rfl
    | cons y t2 => exact absurd ((h y).2 List.mem_cons_self) (by simp)
  | cons x t1 ih =>
    cases t2 with
    | nil => exact absurd ((h x).1 List.mem_cons_self) (by simp)
    | cons y t2 =>
      unfold Sorted at h1 h2
      rw [List.pairwise_cons] at h1 h2
      obtain ⟨hx, ht1⟩ := h1
      obtain ⟨hy, ht2⟩ := h2
      have hxy : x = y := by
        have m1 := (h x).1 List.mem_cons_self
        have m2 := (h y).2 List.mem_cons_self
        rw [List.mem_cons] at m1 m2
        cases m1 with
        | inl e => exact e
        | inr e1 =>
          cases m2 with
          | inl e => exact e.symm
          | inr e2 =>
            exact absurd (obm_trans (hx y e2) (hy x e1)) (obm_irrefl _)
      subst hxy
      congr 1
      apply ih t2 ht1 ht2
      intro z
      have hz := h z
      rw [List.mem_cons, List.mem_cons] at hz
      constructor
      · intro hz1
        cases hz.1 (Or.inr hz1) with
        | inl e => subst e; exact absurd (hx _ hz1) (obm_irrefl _)
        | inr e => exact e
      · intro hz2
        cases hz.2 (Or.inr hz2) with
        | inl e => subst e; exact absurd (hy _ hz2) (obm_irrefl _)
        | inr e => exact e

end Elvis.IpTable
