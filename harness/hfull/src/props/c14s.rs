//! `c14-stack` (C14) and `c17-demux` (C17): hostile frames through the REAL demux glue.
//!
//! 2-3 machines on one network with the real Pci / Ipv4 / Udp / Tcp (/ Arp), recorder applications
//! bound on UDP ports of the victim, one or two ESTABLISHED TCP connections carrying numbered
//! byte streams in both directions (`Tcp::open` / `Tcp::listen`, the reading application is a
//! harness protocol).  At chosen virtual times raw frames are injected into the victim's tap with
//! `PciSession::verif_receive`, interleaved with the legitimate traffic.  Two generator mixes:
//!
//!  * `c14-stack`: frames that do not decode at some layer (IPv4 / UDP / TCP / ARP / link),
//!    plus valid datagrams as positive controls and some unacceptable TCP segments;
//!  * `c17-demux`: syntactically valid TCP segments aimed at the connection's 4-tuple from the
//!    peer's address (64 flag combinations, seq far / just outside / inside the window, RST out
//!    of window, ACKs around SND.UNA/SND.NXT, zero and shrinking windows, lengths 0..MSS, during
//!    the handshake too) and segments for 4-tuples without a session (LISTEN / CLOSED paths).
//!
//! LENGTH CONSISTENCY (labels `len-cut-*`, `len-pad-*`): datagrams for the bound UDP ports whose frame
//! was cut by n octets or padded by n octets, with the IPv4 total length and the UDP length field each
//! either adjusted to the frame or left as sent (the 2 x 2 x {cut, pad} grid).  The reference judges
//! the UDP length field against the UDP octets that count (what arrived, cut at the IPv4 total length
//! when the frame is longer): a mismatch must be dropped at the UDP layer; a self-consistent datagram
//! in a frame that disagrees with the total length may be dropped or delivered, but only as itself.
//! TINY FRAGMENTS (labels `ip-frag-tiny`, `ip-frag-tiny-again`): header-only and 1..7-octet fragments,
//! MF set or last, at offsets 0, 1, around multiples of 8 / 64, at the largest offsets the 65535
//! guard lets through and beyond; duplicates and overlaps of the previous one.
//!
//! Every frame is classified at injection time by the reference in `c14s_wire.rs` (written from
//! the RFCs) and by the victim's TCB as published through the `verif` hooks.  Oracle (native, this
//! run has no Lean side): the worker process never dies; a frame that must be rejected, an
//! unacceptable segment and a segment for a non-existent connection reach no application, leave
//! the UDP/IPv4/TCP tables, the ARP table and every TCB unchanged; a valid datagram reaches exactly
//! its listener; the byte stream every application reads is a prefix of what its peer wrote at all
//! times, the transfers complete and data written after the last injection arrives (unless an
//! ACCEPTABLE forged segment legitimately reset or polluted that connection).
//!
//! Op lines (one case = one scenario; all randomness resolved by the parent):
//!   cfg mix=.. lat=<ms> mtu=.. arp=0|1 victim=0|1 conns=1|2 third=0|1 end=<ms>
//!   open <t> <conn> | w <t> <conn> <c|s> <len> | u <t> <len>
//!   raw <t> <label> tgt=.. smac=.. dst=.. bytes=<hex>
//!   seg <t> <label> conn=.. fl=.. seq=<n|a>:<off> ack=<u|x|a>:<off> wnd=.. len=.. doff=.. cut=.. sp=.. dp=..
//!   fin <t>
use crate::scaffold::*;
use hcommon::*;

#[path = "c14s_wire.rs"]
mod wire;
use wire::*;

#[path = "c14s_exec.rs"]
mod exec;

pub const RULE: &str = "one case = one paused-clock simulation of 2-3 real machines with 1-2 established TCP connections (numbered byte streams both ways), UDP listeners and ~40 raw frames injected into the victim's tap between the legitimate segments; every frame is classified by an RFC-written reference + the victim's TCB at that instant; oracles: process alive, must-reject / unacceptable / no-session frames (incl. UDP length fields that disagree with the UDP octets that arrived in cut / padded frames, header-only and 1..7-octet fragments) reach no application and leave all demux tables, the ARP table and every TCB unchanged, valid datagrams reach exactly their listener, streams are prefixes at all times, transfers complete and later data arrives; a case is non-trivial if at least 10 frames were injected and a legitimate transfer completed; distinct = hash of the op lines";

pub fn addr(i: usize) -> u32 {
    0x0a00_0001 + i as u32
}
pub const UDP_EXACT: u16 = 5000;
pub const UDP_WILD: u16 = 5001;
pub const UDP_SRC: u16 = 6000;

#[derive(Clone, Copy, Debug, PartialEq)]
pub struct ConnSpec {
    pub client: usize,
    pub cport: u16,
    pub sport: u16,
}
pub fn conn_spec(k: usize, third: bool) -> ConnSpec {
    ConnSpec { client: if k == 1 && third { 2 } else { 1 }, cport: 40000 + k as u16, sport: 8080 + k as u16 }
}

#[derive(Clone, Debug)]
pub struct Cfg {
    pub mix: String,
    pub lat: u64,
    pub mtu: u16,
    pub arp: bool,
    pub victim: usize,
    pub conns: usize,
    pub third: bool,
    pub end: u64,
}
impl Cfg {
    pub fn machines(&self) -> usize {
        if self.third {
            3
        } else {
            2
        }
    }
    pub fn conn(&self, k: usize) -> ConnSpec {
        conn_spec(k, self.third)
    }
    /// (local endpoint on the victim, remote endpoint, machine of the remote end) of conn `k`
    pub fn at_victim(&self, k: usize) -> Option<((u32, u16), (u32, u16), usize)> {
        let c = self.conn(k);
        if self.victim == 0 {
            Some(((addr(0), c.sport), (addr(c.client), c.cport), c.client))
        } else if c.client == self.victim {
            Some(((addr(c.client), c.cport), (addr(0), c.sport), 0))
        } else {
            None
        }
    }
    pub fn peer(&self) -> usize {
        if self.victim == 0 {
            1
        } else {
            0
        }
    }
    pub fn mss(&self) -> usize {
        self.mtu as usize - 50
    }
}

#[derive(Clone, Debug)]
pub enum Op {
    Open { t: u64, conn: usize },
    Write { t: u64, conn: usize, side: char, len: usize },
    Udp { t: u64, len: usize },
    Raw { t: u64, label: String, tgt: String, smac: u64, dst: Option<u64>, bytes: Vec<u8> },
    Seg { t: u64, label: String, conn: usize, fl: u8, seqb: char, seqo: i64, ackb: char, acko: i64, wnd: u16, len: usize, doff: u8, cut: Option<usize>, sp: Option<u16>, dp: Option<u16> },
    Fin { t: u64 },
}

fn kv<'a>(w: &'a [&'a str], k: &str) -> Option<&'a str> {
    w.iter().find_map(|x| x.strip_prefix(k).and_then(|r| r.strip_prefix('=')))
}
fn opt_num<T: std::str::FromStr>(s: &str) -> Option<Option<T>> {
    if s == "-" {
        Some(None)
    } else {
        s.parse().ok().map(Some)
    }
}

pub fn parse_cfg(line: &str) -> Option<Cfg> {
    let w: Vec<&str> = line.split_whitespace().collect();
    if w.first() != Some(&"cfg") {
        return None;
    }
    Some(Cfg {
        mix: kv(&w, "mix")?.to_string(),
        lat: kv(&w, "lat")?.parse().ok()?,
        mtu: kv(&w, "mtu")?.parse().ok()?,
        arp: kv(&w, "arp")? == "1",
        victim: kv(&w, "victim")?.parse().ok()?,
        conns: kv(&w, "conns")?.parse().ok()?,
        third: kv(&w, "third")? == "1",
        end: kv(&w, "end")?.parse().ok()?,
    })
}

pub fn parse_op(line: &str) -> Option<Op> {
    let w: Vec<&str> = line.split_whitespace().collect();
    match w.as_slice() {
        ["open", t, c] => Some(Op::Open { t: t.parse().ok()?, conn: c.parse().ok()? }),
        ["w", t, c, s, l] => Some(Op::Write { t: t.parse().ok()?, conn: c.parse().ok()?, side: s.chars().next()?, len: l.parse().ok()? }),
        ["u", t, l] => Some(Op::Udp { t: t.parse().ok()?, len: l.parse().ok()? }),
        ["fin", t] => Some(Op::Fin { t: t.parse().ok()? }),
        ["raw", t, label, rest @ ..] => Some(Op::Raw {
            t: t.parse().ok()?,
            label: label.to_string(),
            tgt: kv(rest, "tgt")?.to_string(),
            smac: kv(rest, "smac")?.parse().ok()?,
            dst: opt_num(kv(rest, "dst")?)?,
            bytes: unhex(kv(rest, "bytes")?),
        }),
        ["seg", t, label, rest @ ..] => {
            let rel = |s: &str| -> Option<(char, i64)> {
                let (b, o) = s.split_once(':')?;
                Some((b.chars().next()?, o.parse().ok()?))
            };
            let (seqb, seqo) = rel(kv(rest, "seq")?)?;
            let (ackb, acko) = rel(kv(rest, "ack")?)?;
            Some(Op::Seg {
                t: t.parse().ok()?,
                label: label.to_string(),
                conn: kv(rest, "conn")?.parse().ok()?,
                fl: kv(rest, "fl")?.parse().ok()?,
                seqb,
                seqo,
                ackb,
                acko,
                wnd: kv(rest, "wnd")?.parse().ok()?,
                len: kv(rest, "len")?.parse().ok()?,
                doff: kv(rest, "doff")?.parse().ok()?,
                cut: opt_num(kv(rest, "cut")?)?,
                sp: opt_num(kv(rest, "sp")?)?,
                dp: opt_num(kv(rest, "dp")?)?,
            })
        }
        _ => None,
    }
}

// ------------------------------------------------------------------------------------------
// generator (parent side)
// ------------------------------------------------------------------------------------------

struct Gen<'a> {
    r: &'a mut Rng,
    cfg: Cfg,
    /// running counter so that the 64 flag combinations are all visited
    flag_ctr: u64,
    /// the previous tiny fragment (header, data), for duplicates and overlaps of it
    last_frag: Option<(IpF, Vec<u8>)>,
}

fn o<T: std::fmt::Display>(x: Option<T>) -> String {
    x.map(|v| v.to_string()).unwrap_or("-".into())
}

impl<'a> Gen<'a> {
    fn flags(&mut self) -> u8 {
        self.flag_ctr += 1;
        (self.flag_ctr.wrapping_mul(37) % 64) as u8
    }
    fn conn_at_victim(&mut self) -> usize {
        let ks: Vec<usize> = (0..self.cfg.conns).filter(|k| self.cfg.at_victim(*k).is_some()).collect();
        *self.r.pick(&ks)
    }
    fn len(&mut self) -> usize {
        let mss = self.cfg.mss();
        let rnd = self.r.below(mss as u64 + 1) as usize;
        *self.r.pick(&[0, 0, 1, 2, mss / 2, mss - 1, mss, rnd])
    }
    fn wnd(&mut self) -> u16 {
        let rnd = (self.r.next() & 0xffff) as u16;
        *self.r.pick(&[0u16, 1, 100, 1000, 65535, 65535, rnd])
    }
    fn ack(&mut self) -> (char, i64) {
        let b = *self.r.pick(&['u', 'x']);
        let off = *self.r.pick(&[-1i64, 0, 0, 1, 2, 1000, 70000, 1 << 31, (1 << 31) - 1, -(1 << 30)]);
        (b, off)
    }
    #[allow(clippy::too_many_arguments)]
    fn seg_line(&self, t: u64, label: &str, conn: usize, fl: u8, seq: (char, i64), ack: (char, i64), wnd: u16, len: usize, doff: u8, cut: Option<usize>, sp: Option<u16>, dp: Option<u16>) -> String {
        format!(
            "seg {} {} conn={} fl={} seq={}:{} ack={}:{} wnd={} len={} doff={} cut={} sp={} dp={}",
            t, label, conn, fl, seq.0, seq.1, ack.0, ack.1, wnd, len, doff, o(cut), o(sp), o(dp)
        )
    }

    /// a segment a conforming receiver must treat as unacceptable (or harmless in SYN-SENT)
    fn seg_unacceptable(&mut self, t: u64) -> String {
        let conn = self.conn_at_victim();
        let mut fl = self.flags();
        let len = self.len();
        let seglen = len as i64 + ((fl & SYN != 0) as i64) + ((fl & FIN != 0) as i64);
        let kind = self.r.below(5);
        let (label, off): (&str, i64) = match kind {
            0 => ("far", *self.r.pick(&[1i64 << 31, (1 << 31) - 1, (1 << 31) + 1, 1 << 30, -(1 << 30), 65535 + 70000, -70000, 3_000_000_000])),
            1 => ("below", -(seglen.max(1)) - 1 - self.r.below(3) as i64 * 7),
            2 => ("above", 65535 + self.r.below(3) as i64 * 5),
            3 => {
                // the seeded C17-2 trigger: RST entirely outside the window
                fl = RST | if self.r.chance(1, 2) { ACK } else { 0 };
                ("rst-out", *self.r.pick(&[65535i64, 65536, 100_000, 1 << 31, -2 - len as i64, -100_000]))
            }
            _ => ("far-rnd", 70_000 + self.r.below(4_000_000_000) as i64),
        };
        let ack = self.ack();
        let wnd = self.wnd();
        self.seg_line(t, label, conn, fl, ('n', off), ack, wnd, len, 5, None, None, None)
    }

    /// during the handshake of connection 0 (victim in SYN-SENT or SYN-RECEIVED)
    fn seg_handshake(&mut self, t: u64) -> String {
        let mut fl = self.flags();
        if self.cfg.victim != 0 && self.r.chance(3, 4) {
            // SYN-SENT: unacceptable = neither SYN nor RST
            fl &= !(SYN | RST);
        }
        let len = *self.r.pick(&[0usize, 0, 1, 100]);
        let off = *self.r.pick(&[1i64 << 31, 1 << 30, 65535, 65536 + 5, -70000, -(len as i64) - 3]);
        let wnd = self.wnd();
        // a bad ACK in SYN-SENT is answered with <SEQ=SEG.ACK><CTL=RST>: keep that reflected RST far
        // outside the peer's window
        self.seg_line(t, "hs", 0, fl, ('n', off), ('x', 1 << 30), wnd, len, 5, None, None, None)
    }

    /// acceptable, zero length, no SYN/RST/FIN: may move SND.UNA / the send window, nothing else
    fn seg_harmless(&mut self, t: u64) -> String {
        let conn = self.conn_at_victim();
        let fl = *self.r.pick(&[ACK, ACK, ACK | PSH, ACK | URG, 0, PSH, URG | PSH | ACK]);
        let off = *self.r.pick(&[0i64, 0, 1, 100, 65534, -1]);
        let label = if self.r.chance(1, 2) { "ack-around" } else { "edge-in" };
        let ack = if label == "ack-around" {
            (*self.r.pick(&['u', 'x']), *self.r.pick(&[-1i64, 0, 1, 2, 1000, 1 << 31]))
        } else {
            ('x', 0)
        };
        let wnd = self.wnd();
        self.seg_line(t, label, conn, fl, ('n', off), ack, wnd, 0, 5, None, None, None)
    }

    /// acceptable and consequential: in-window data, FIN, SYN, RST
    fn seg_tainting(&mut self, t: u64) -> String {
        let conn = self.conn_at_victim();
        let (label, fl, off, len): (&str, u8, i64, usize) = match self.r.below(5) {
            0 => ("in-data", ACK | PSH, *self.r.pick(&[0i64, 1, 500, 60000]), 1 + self.r.below(self.cfg.mss() as u64) as usize),
            1 => ("in-rst", RST, 0, 0),
            2 => ("in-rst-window", RST | ACK, 1 + self.r.below(60000) as i64, 0),
            3 => ("in-syn", SYN | if self.r.chance(1, 2) { ACK } else { 0 }, self.r.below(1000) as i64, 0),
            _ => ("in-fin", FIN | ACK, 0, self.r.below(3) as usize),
        };
        self.seg_line(t, label, conn, fl, ('n', off), ('x', 0), 65535, len, 5, None, None, None)
    }

    /// valid segment for a 4-tuple without a session: LISTEN path (other source port) or CLOSED
    fn seg_nosession(&mut self, t: u64) -> String {
        let conn = self.conn_at_victim();
        let fl = self.flags();
        let len = *self.r.pick(&[0usize, 0, 1, 100]);
        let (label, sp, dp) = if self.r.chance(1, 2) {
            ("nosess-sport", Some(50000 + self.r.below(1000) as u16), None)
        } else {
            ("nosess-dport", None, Some(9000 + self.r.below(1000) as u16))
        };
        let ack = self.ack();
        let seq = self.r.next() as u32 as i64;
        self.seg_line(t, label, conn, fl, ('a', seq), ack, 65535, len, 5, None, sp, dp)
    }

    /// TCP segment that does not decode, aimed with live in-window numbers at the connection
    fn seg_undecodable(&mut self, t: u64) -> String {
        let conn = self.conn_at_victim();
        let len = *self.r.pick(&[0usize, 0, 1, 3, 8, 20, 40, 200]);
        let fl = *self.r.pick(&[ACK, ACK | PSH, RST, SYN, FIN | ACK, ACK | PSH | URG]);
        match self.r.below(4) {
            0 => {
                let cut = self.r.below(20) as usize;
                self.seg_line(t, "tcp-trunc", conn, fl, ('n', 0), ('x', 0), 65535, len, 5, Some(cut), None, None)
            }
            1 => {
                let doff = self.r.below(5) as u8;
                self.seg_line(t, "tcp-doff-small", conn, fl, ('n', 0), ('x', 0), 65535, len, doff, None, None, None)
            }
            2 => {
                // data offset points past the end of the segment (the seeded C14-2 trigger)
                let doff = 6 + self.r.below(10) as u8;
                let len = (self.r.below((doff as u64 - 5) * 4)) as usize;
                self.seg_line(t, "tcp-doff-beyond", conn, fl, ('n', 0), ('x', 0), 65535, len, doff, None, None, None)
            }
            _ => {
                // options this stack does not support, long enough: lenient class
                let doff = 6 + self.r.below(10) as u8;
                let len = (doff as usize - 5) * 4 + self.r.below(30) as usize;
                self.seg_line(t, "tcp-options", conn, fl, ('n', 0), ('x', 0), 65535, len, doff, None, None, None)
            }
        }
    }

    fn raw_line(&self, t: u64, label: &str, tgt: &str, smac: u64, bytes: &[u8]) -> String {
        format!("raw {} {} tgt={} smac={} dst={} bytes={}", t, label, tgt, smac, self.cfg.victim, hex(bytes))
    }

    /// frames whose IPv4 / UDP / ARP / link headers do not decode, plus positive controls
    fn raw_frame(&mut self, t: u64) -> String {
        let v = addr(self.cfg.victim);
        let p = addr(self.cfg.peer());
        let pm = if self.r.chance(1, 10) { 77 } else { self.cfg.peer() as u64 };
        let plen = *self.r.pick(&[0usize, 1, 7, 8, 64, 300]);
        let payload: Vec<u8> = (0..plen).map(|i| 0xd0 ^ (i as u8)).collect();
        let port = *self.r.pick(&[UDP_EXACT, UDP_EXACT, UDP_WILD]);
        let dgram = udp_pack(p, v, UDP_SRC + 1, port, None, &payload);
        let base = IpF::new(p, v, 17);
        let k = self.r.below(if self.cfg.arp { 28 } else { 25 });
        match k {
            0 => {
                let f = ip_pack(&base, &dgram);
                let n = self.r.below(20) as usize;
                self.raw_line(t, "ip-trunc", "ipv4", pm, &f[..n])
            }
            1 => {
                let mut f = base.clone();
                f.ver = *self.r.pick(&[0u8, 1, 5, 6, 15]);
                self.raw_line(t, "ip-version", "ipv4", pm, &ip_pack(&f, &dgram))
            }
            2 => {
                let mut f = base.clone();
                f.ihl = self.r.below(5) as u8;
                self.raw_line(t, "ip-ihl-small", "ipv4", pm, &ip_pack(&f, &dgram))
            }
            3 => {
                let mut f = base.clone();
                f.ihl = 6 + self.r.below(10) as u8;
                if self.r.chance(1, 2) {
                    f.opts = vec![1; (f.ihl as usize - 5) * 4];
                }
                self.raw_line(t, "ip-ihl-big", "ipv4", pm, &ip_pack(&f, &dgram))
            }
            4 => {
                let mut f = base.clone();
                f.tl = Some(self.r.below(20) as u16);
                self.raw_line(t, "ip-tl-small", "ipv4", pm, &ip_pack(&f, &dgram))
            }
            5 => {
                let mut f = base.clone();
                let real = 20 + dgram.len() as u16;
                f.tl = Some(if self.r.chance(1, 2) { real + 1 + self.r.below(2000) as u16 } else { *self.r.pick(&[65535u16, 65534, 32768]) });
                self.raw_line(t, "ip-tl-beyond", "ipv4", pm, &ip_pack(&f, &dgram))
            }
            6 => {
                let mut f = base.clone();
                f.tl = Some(20 + self.r.below(dgram.len() as u64) as u16);
                self.raw_line(t, "ip-tl-short", "ipv4", pm, &ip_pack(&f, &dgram))
            }
            7 => {
                let mut f = base.clone();
                if self.r.chance(1, 2) {
                    f.ffo |= 0x8000;
                } else {
                    f.tos = 1 + self.r.below(3) as u8;
                }
                self.raw_line(t, "ip-reserved-bits", "ipv4", pm, &ip_pack(&f, &dgram))
            }
            8 => {
                let mut f = base.clone();
                let rnd = self.r.next() as u8 | 0x80;
                f.proto = *self.r.pick(&[0u8, 1, 2, 41, 47, 50, 89, 132, 253, 254, 255, rnd]);
                self.raw_line(t, "ip-proto-bad", "ipv4", pm, &ip_pack(&f, &dgram))
            }
            9 => {
                // lone fragments, sane offsets
                let mut f = base.clone();
                f.id = self.r.next() as u16;
                f.ffo = *self.r.pick(&[0x2000u16, 0x2001, 0x0001, 0x0010, 0x2100]);
                self.raw_line(t, "ip-frag", "ipv4", pm, &ip_pack(&f, &dgram))
            }
            10 => {
                // fragments with absurd offsets / lengths ("ping of death" shapes)
                let mut f = base.clone();
                f.id = self.r.next() as u16;
                f.ffo = *self.r.pick(&[0x1fffu16, 0x1ffe, 0x3fff, 0x1000, 0x0002, 0x1f00]);
                f.tl = Some(*self.r.pick(&[65535u16, 65528, 60000, 20 + dgram.len() as u16, 28, 21]));
                self.raw_line(t, "ip-frag-absurd", "ipv4", pm, &ip_pack(&f, &dgram))
            }
            11 => {
                let n = self.r.below(70) as usize;
                let mut b = self.r.bytes(n);
                if n > 0 && self.r.chance(2, 3) {
                    b[0] = 0x45;
                }
                self.raw_line(t, "ip-random", "ipv4", pm, &b)
            }
            12 => {
                // a valid frame with one header octet changed: the reference decides
                let mut f = ip_pack(&base, &dgram);
                let i = self.r.below(28.min(f.len() as u64)) as usize;
                f[i] ^= 1 << self.r.below(8);
                self.raw_line(t, "ip-mutate", "ipv4", pm, &f)
            }
            13 => {
                let n = self.r.below(8) as usize;
                self.raw_line(t, "udp-trunc", "ipv4", pm, &ip_pack(&base, &dgram[..n]))
            }
            14 => {
                let d = udp_pack(p, v, UDP_SRC + 1, port, Some(self.r.below(8) as u16), &payload);
                self.raw_line(t, "udp-len-small", "ipv4", pm, &ip_pack(&base, &d))
            }
            15 => {
                let real = 8 + payload.len() as i64;
                let l = (real + *self.r.pick(&[-1i64, 1, 2, -3, 100, 65535 - real])).clamp(8, 65535) as u16;
                let l = if l as i64 == real { l + 1 } else { l };
                let d = udp_pack(p, v, UDP_SRC + 1, port, Some(l), &payload);
                self.raw_line(t, "udp-len-mismatch", "ipv4", pm, &ip_pack(&base, &d))
            }
            16 => {
                let d = udp_pack(p, v, UDP_SRC + 1, 5999 + self.r.below(3) as u16 * 1000, None, &payload);
                self.raw_line(t, "udp-unbound", "ipv4", pm, &ip_pack(&base, &d))
            }
            17 | 18 => self.raw_line(t, "udp-valid", "ipv4", pm, &ip_pack(&base, &dgram)),
            19 => {
                // transport datagram handed to the transport protocol without an IP header
                let tgt = *self.r.pick(&["udp", "tcp", "tcp"]);
                let b = if tgt == "udp" {
                    dgram.clone()
                } else {
                    tcp_pack(p, v, &TcpF { sp: 40000, dp: 8080, seq: self.r.next() as u32, ack: 0, doff: 5, flags: ACK, wnd: 65535, urg: 0, opts: vec![] }, &payload)
                };
                self.raw_line(t, "link-direct", tgt, pm, &b)
            }
            20 => self.raw_line(t, "link-unknown", "unknown", pm, &ip_pack(&base, &dgram)),
            21 | 22 => {
                // LENGTH CONSISTENCY at the UDP layer: a datagram for a bound port whose frame was cut by
                // n octets (21) or padded by n octets (22), the IPv4 total length adjusted to the frame or
                // left as sent, the UDP length field adjusted or left as sent: the 2 x 2 x {cut, pad} grid
                let cut = k == 21;
                let plen = *self.r.pick(&[1usize, 2, 7, 8, 9, 64, 300]);
                let payload: Vec<u8> = (0..plen).map(|i| 0xd0 ^ (i as u8)).collect();
                let orig = udp_pack(p, v, UDP_SRC + 1, port, None, &payload);
                let ip_adj = self.r.chance(1, 2);
                let udp_adj = self.r.chance(1, 2);
                let dgram: Vec<u8> = if cut {
                    // inside the payload; with the UDP length left as sent also into the UDP header
                    let into_header = plen + 1 + self.r.below(7) as usize;
                    let n = (*self.r.pick(&[1usize, 1, 2, 3, plen / 2, plen - 1, plen, if udp_adj { plen } else { into_header }])).clamp(1, if udp_adj { plen } else { plen + 7 });
                    if udp_adj {
                        udp_pack(p, v, UDP_SRC + 1, port, None, &payload[..plen - n])
                    } else {
                        orig[..orig.len() - n].to_vec()
                    }
                } else {
                    let n = *self.r.pick(&[1usize, 1, 2, 3, 7, 8, 18, 46usize.saturating_sub(28 + plen).max(1), 300]);
                    let fill = if self.r.chance(3, 4) { 0u8 } else { 0xee };
                    if udp_adj {
                        let mut pp = payload.clone();
                        pp.extend(std::iter::repeat(fill).take(n));
                        udp_pack(p, v, UDP_SRC + 1, port, None, &pp)
                    } else {
                        let mut d = orig.clone();
                        d.extend(std::iter::repeat(fill).take(n));
                        d
                    }
                };
                let mut f = base.clone();
                if !ip_adj {
                    f.tl = Some(20 + orig.len() as u16);
                }
                let label = format!("len-{}-ip{}-udp{}", if cut { "cut" } else { "pad" }, if ip_adj { "adj" } else { "kept" }, if udp_adj { "adj" } else { "kept" });
                self.raw_line(t, &label, "ipv4", pm, &ip_pack(&f, &dgram))
            }
            23 | 24 => {
                // header-only and 1..7-octet fragments (MF set / last fragment; offsets 0, 1, around the
                // byte boundaries of a block bit vector, the largest the 65535 guard lets through, beyond
                // it); 24: a duplicate or an overlap of the previous one (same identification)
                let prev = if k == 24 { self.last_frag.clone() } else { None };
                let (f, data, label) = match prev {
                    Some((mut f, mut data)) => {
                        match self.r.below(4) {
                            0 => {}
                            1 => {
                                let n = self.r.below(8) as usize;
                                data = dgram[..n.min(dgram.len())].to_vec();
                            }
                            2 => f.ffo ^= 0x2000,
                            _ => f.ffo = (f.ffo & 0xe000) | ((f.ffo & 0x1fff).wrapping_add(*self.r.pick(&[1u16, 0x1fff, 8])) & 0x1fff),
                        }
                        if f.ffo & 0x3fff == 0 {
                            f.ffo |= 0x2000;
                        }
                        f.tl = Some(20 + data.len() as u16);
                        (f, data, "ip-frag-tiny-again")
                    }
                    None => {
                        let rn = self.r.below(8) as usize;
                        let n = *self.r.pick(&[0usize, 0, 0, 1, 2, 7, rn]);
                        let mf = self.r.chance(1, 2);
                        let ro = self.r.below(8192) as u16;
                        let mut off = *self.r.pick(&[0u16, 0, 1, 2, 7, 8, 9, 16, 63, 64, 65, 512, 8184, 8188, 8189, 8190, 8191, ro]);
                        if !mf && off == 0 {
                            off = *self.r.pick(&[1u16, 8, 64]);
                        }
                        let mut f = base.clone();
                        f.id = self.r.below(3) as u16;
                        f.ffo = ((mf as u16) << 13) | off;
                        f.tl = Some(20 + n as u16);
                        (f, dgram[..n.min(dgram.len())].to_vec(), "ip-frag-tiny")
                    }
                };
                self.last_frag = Some((f.clone(), data.clone()));
                // the frame is the fragment; one time in four the rest of the datagram follows behind what
                // the total length says (the IPv4 decoder is not told the frame length)
                let body = if self.r.chance(1, 4) { dgram.clone() } else { data };
                self.raw_line(t, label, "ipv4", pm, &ip_pack(&f, &body))
            }
            25 => {
                let a = arp_pack(1, 0x0800, 6, 4, 1, 1, p, 0, v);
                let n = self.r.below(28) as usize;
                self.raw_line(t, "arp-trunc", "arp", pm, &a[..n])
            }
            26 => {
                let a = arp_pack(1, 0x0800, 6, 4, *self.r.pick(&[0u16, 3, 4, 0x0100, 0xffff]), 55, p, 0, v);
                self.raw_line(t, "arp-oper-bad", "arp", pm, &a)
            }
            _ => {
                let a = arp_pack(*self.r.pick(&[1u16, 6, 0]), *self.r.pick(&[0x0800u16, 0x86dd]), *self.r.pick(&[6u8, 0, 8, 255]), *self.r.pick(&[4u8, 0, 16]), 2, 0x0000_4242_0000 + self.r.below(9), 0x0a00_0063, 0, v);
                self.raw_line(t, "arp-lengths", "arp", pm, &a)
            }
        }
    }
}

/// the op lines of one case (without the `case` line)
pub fn gen_case(mix: &str, rng: &mut Rng) -> Vec<String> {
    // `c14-path` (mix `c14p`): per case one of the two blends, so that header failures at every
    // layer AND the session / LISTEN / CLOSED branches of `Tcp::demux` are walked
    let cfg_mix = mix;
    let mix = if mix == "c14p" {
        if rng.chance(2, 5) {
            "c17"
        } else {
            "c14"
        }
    } else {
        mix
    };
    let third = rng.chance(1, 3);
    let cfg = Cfg {
        mix: cfg_mix.to_string(),
        lat: *rng.pick(&[1u64, 1, 2, 3, 3, 5]),
        mtu: *rng.pick(&[1500u16, 1500, 1500, 576, 200]),
        arp: rng.chance(1, 4),
        victim: if rng.chance(2, 3) { 0 } else { 1 },
        conns: if rng.chance(1, 2) { 2 } else { 1 },
        third,
        end: 0,
    };
    let slots = 36 + rng.below(16);
    let first = 40u64;
    let last_slot = first + slots * 4;
    let end = last_slot + 120;
    let cfg = Cfg { end, ..cfg };
    let mut lines = vec![format!(
        "cfg mix={} lat={} mtu={} arp={} victim={} conns={} third={} end={}",
        cfg.mix, cfg.lat, cfg.mtu, cfg.arp as u8, cfg.victim, cfg.conns, cfg.third as u8, cfg.end
    )];
    let mut timed: Vec<(u64, usize, String)> = vec![];
    let push = |t: u64, s: String, timed: &mut Vec<(u64, usize, String)>| {
        let n = timed.len();
        timed.push((t, n, s));
    };
    for k in 0..cfg.conns {
        push(5 + k as u64, format!("open {} {}", 5 + k as u64, k), &mut timed);
    }
    let taint = mix == "c17" && rng.chance(2, 5);
    let mut g = Gen { r: rng, cfg: cfg.clone(), flag_ctr: 0, last_frag: None };
    g.flag_ctr = g.r.below(64);
    // injections during the handshake (victim in SYN-SENT / SYN-RECEIVED)
    if mix == "c17" && cfg.lat >= 2 && !cfg.arp && g.r.chance(1, 2) {
        // Tcp::open at 5 ms; the session task emits the SYN at its first 5 ms tick (10 ms), the
        // listener answers at its own first tick: client in SYN-SENT during (5, 15+2*lat), server in
        // SYN-RECEIVED during (10+lat, 15+3*lat)
        let t = if cfg.victim == 0 { 10 + cfg.lat + 1 } else { *g.r.pick(&[7u64, 12]) };
        let l = g.seg_handshake(t);
        push(t, l, &mut timed);
    }
    for s in 0..slots {
        let t = first + s * 4;
        let frac = s as f64 / slots as f64;
        let roll = g.r.below(100);
        if roll < 8 {
            // a write by the victim's own application
            let k = g.conn_at_victim();
            let side = if cfg.victim == 0 { 's' } else { 'c' };
            let len = 1 + g.r.below(2500) as usize;
            push(t, format!("w {} {} {} {}", t, k, side, len), &mut timed);
            continue;
        }
        if roll < 16 {
            continue;
        }
        let line = if mix == "c14" {
            match g.r.below(10) {
                0..=5 => g.raw_frame(t),
                6 | 7 => g.seg_undecodable(t),
                8 => g.seg_unacceptable(t),
                _ => g.seg_nosession(t),
            }
        } else if frac < 0.62 || (!taint && frac < 0.8) {
            match g.r.below(10) {
                0..=5 => g.seg_unacceptable(t),
                6 | 7 => g.seg_nosession(t),
                8 => g.seg_undecodable(t),
                _ => g.raw_frame(t),
            }
        } else if frac < 0.8 || !taint {
            if g.r.chance(3, 4) {
                g.seg_harmless(t)
            } else {
                g.seg_unacceptable(t)
            }
        } else if g.r.chance(1, 2) {
            g.seg_tainting(t)
        } else {
            g.seg_unacceptable(t)
        };
        push(t, line, &mut timed);
    }
    // legitimate traffic of the peers: writes on every connection, datagrams
    for k in 0..cfg.conns {
        let n = 4 + g.r.below(8);
        for _ in 0..n {
            let t = 30 + g.r.below(last_slot - 30);
            let rnd = 1 + g.r.below(4000) as usize;
            let len = *g.r.pick(&[1usize, 10, 100, 1000, cfg.mss(), cfg.mss() + 1, rnd]);
            // the side that is NOT on the victim writes at arbitrary times; the victim's own writes are slotted above
            let side = match cfg.at_victim(k) {
                Some(_) if cfg.victim == 0 => 'c',
                Some(_) => 's',
                None => *g.r.pick(&['c', 's']),
            };
            push(t, format!("w {} {} {} {}", t, k, side, len), &mut timed);
        }
        // after the last injection: both directions again (the connection must still be usable)
        push(last_slot + 40, format!("w {} {} c {}", last_slot + 40, k, 100 + g.r.below(900)), &mut timed);
        push(last_slot + 44, format!("w {} {} s {}", last_slot + 44, k, 100 + g.r.below(900)), &mut timed);
    }
    for _ in 0..3 + g.r.below(3) {
        let t = 30 + g.r.below(last_slot + 20);
        push(t, format!("u {} {}", t, 1 + g.r.below((cfg.mtu as u64 - 28).min(200))), &mut timed);
    }
    push(last_slot + 48, format!("u {} {}", last_slot + 48, 33), &mut timed);
    timed.sort_by_key(|x| (x.0, x.1));
    lines.extend(timed.into_iter().map(|x| x.2));
    lines.push(format!("fin {}", end));
    lines
}

/// Does the stack under test verify checksums (feature `compute_checksum`)?  Asked of the real
/// IPv4 decoder with one header whose RFC 1071 checksum is correct and non-zero.
pub fn init_checksum_mode() {
    let h = ip_pack(&IpF::new(addr(0), addr(1), 17), &[]);
    let on = elvis_core::protocols::ipv4::ipv4_parsing::Ipv4Header::from_bytes(h.iter().cloned()).is_ok();
    CHECKSUMS.store(on, std::sync::atomic::Ordering::SeqCst);
}

pub fn run(args: &Args) {
    init_checksum_mode();
    if is_worker(args) {
        worker_loop(|spec| exec::execute(&spec.lines().map(|s| s.to_string()).collect::<Vec<_>>()));
        return;
    }
    let mix = if args.prop.starts_with("c17") {
        "c17"
    } else if args.prop == "c14-path" {
        "c14p"
    } else {
        "c14"
    };
    let mut out = Out::new(&args.out);
    out.max_failures = 30;
    let cases: Vec<Vec<String>> = if let Some(rp) = &args.replay {
        vec![read_ops(rp).into_iter().filter(|l| !l.starts_with("case ") && !l.starts_with("crash") && !l.starts_with("frame ")).collect()]
    } else {
        let mut rng = Rng::new(args.seed ^ if mix == "c17" { 0x17de_0000 } else if mix == "c14p" { 0x14ba_0000 } else { 0x14de_0000 });
        (0..args.cases).map(|_| gen_case(mix, &mut rng.fork())).collect()
    };
    let specs: Vec<String> = cases.iter().map(|c| c.join("\n")).collect();
    let workers = args.extra.get("workers").and_then(|s| s.parse().ok()).unwrap_or_else(default_workers);
    let outcomes = run_cases(&args.prop, &specs, workers, 10, 90);
    for (c, o) in outcomes.iter().enumerate() {
        out.begin_case(c as u64);
        match o {
            CaseOutcome::Done(rep) => rep.emit(&mut out),
            CaseOutcome::Died { stderr, .. } => {
                for l in &cases[c] {
                    out.line(l, "?");
                }
                let (mut line, mut ident) = died_ident(o);
                // the worker's own watchdog (c14s_exec.rs) names what the stack was doing when it stopped
                if let Some(h) = stderr.lines().find_map(|l| l.strip_prefix("@@HANG ")) {
                    line = "hang".to_string();
                    let what = h.split(" of real time ").nth(1).unwrap_or("");
                    ident = format!("hang {}", what);
                }
                out.line("crash", &line);
                out.mark_nontrivial();
                out.count("died");
                out.fail(
                    &format!("the simulation process died while these frames were being injected: {} :: {}", ident, stderr.lines().filter(|l| l.starts_with("@@PANIC")).take(2).collect::<Vec<_>>().join(" / ")),
                    &ident,
                );
            }
        }
        out.end_case();
    }
    out.finish(RULE);
}
