import ElvisVerif.Lemmas.C01Progress
import ElvisVerif.Lemmas.C01Run
/-!
# C01 — progress (liveness), partial

The convergence clause of C01 ("after a loss-free phase everything submitted is delivered, the
retransmission queues are empty and both sides are silent") is NOT proved; its statement is kept
as `C01ConvergesStatement`.  What is proved here are the local progress facts it is built from.
-/
namespace Elvis.Tcp
open Elvis.Tcp.C01 Elvis.ModCmp

/-- **receive progress (partial convergence).**  In any state satisfying the stream invariant
    (every reachable state does: `C01.run_inv`) and H31: let `x` be ESTABLISHED with an empty
    reorder heap and `|buffered| < 65535 = RCV.WND`; let history element `i` be a plain data
    segment of the peer addressed to `x` that carries `submitted_peer[p, p+len)` and covers the next
    expected offset `q = |delivered_x| + |buffered_x|` (`p ≤ q < p + len`, `len ≤ 65535`), with an
    ACK field that does not acknowledge unsent data.  Then `deliver x i` succeeds, the TCB stays
    ESTABLISHED with an empty heap, nothing is delivered or lost, and the buffered text grows by
    exactly `submitted_peer[q, q+k)` with `k = min (p + len - q) (65535 - |buffered|) > 0`:
    the undelivered part of the peer's stream strictly shrinks. -/
theorem c01_progress_receive_partial (iss : SideId → Seq) (s : Sys) (hinv : Inv iss s) (h31 : Lt31 s)
    (x : SideId) (i : Nat) (g : Segment) (t : Tcb)
    (ht : (s.side x).tcb = some t) (hst : t.state = .Established) (hw : t.rcv.wnd = 65535#16)
    (hroom : t.incoming.text.length < 65535) (hheap : t.incoming.segments = [])
    (hn : s.nth i = some g) (ha : Addressed x g) (hg : PlainData t g) (hlen : g.text.length ≤ 65535)
    (p : Nat) (hseq : g.hdr.seq = iss x.peer + 1 + BitVec.ofNat 32 p)
    (hpq : p ≤ (s.side x).delivered.length + t.incoming.text.length)
    (hcov : (s.side x).delivered.length + t.incoming.text.length < p + g.text.length) :
    ∃ s' t' k, s.step (.deliver x i) = .ok (s', .arrived .Ok) ∧
      (s'.side x).tcb = some t' ∧ (s'.side x).delivered = (s.side x).delivered ∧
      (s'.side x.peer) = (s.side x.peer) ∧
      t'.state = .Established ∧ t'.incoming.segments = [] ∧
      0 < k ∧ k = min (p + g.text.length - ((s.side x).delivered.length + t.incoming.text.length))
                      (65535 - t.incoming.text.length) ∧
      t'.incoming.text = t.incoming.text ++
        ((s.side x.peer).submitted.drop ((s.side x).delivered.length + t.incoming.text.length)).take k := by
  have hsd := hinv.side x
  have ti := hsd.tcb t ht
  have hns : t.state ≠ .SynSent := by rw [hst]; simp
  obtain ⟨hnxt, hpre⟩ := ti.rcv1 hns
  have hmem := nth_mem s i g hn
  have hval : Valid (iss x.peer) (s.side x.peer).submitted g := hinv.hist g hmem x.peer ha.1
  have hne : g.text ≠ [] := by
    intro h0; rw [h0] at hcov; simp at hcov; omega
  obtain ⟨p', hseq', hlen', htext⟩ := hval.txt hne
  generalize hq : (s.side x).delivered.length + t.incoming.text.length = q at *
  have hqle : q ≤ (s.side x.peer).submitted.length := by
    have := hpre.length_le
    rw [List.length_append, hq] at this
    exact this
  have hb := h31.side x.peer
  obtain ⟨t', e, _, x', sg, st⟩ := segmentArrives_accept (t := t) (g := g) (base := iss x.peer + 1) hst hw
    (by omega) hheap hg hseq hnxt hpq (by omega) hcov hlen
  -- the two offsets of the segment agree
  have hpp : p' = p := by
    have h1 : iss x.peer + 1 + BitVec.ofNat 32 p' = iss x.peer + 1 + BitVec.ofNat 32 p := by
      rw [← hseq', hseq]
    have h2 : BitVec.ofNat 32 p' = BitVec.ofNat 32 p := by
      generalize BitVec.ofNat 32 p' = a at h1
      generalize BitVec.ofNat 32 p = b at h1
      bv_omega
    have h3 := congrArg BitVec.toNat h2
    simp only [BitVec.toNat_ofNat] at h3
    omega
  subst hpp
  refine ⟨s.setSide x { s.side x with tcb := some t' }, t', acceptLen t p' q g.text.length, ?_, ?_, ?_, ?_, st, sg,
    ?_, ?_, ?_⟩
  · simp only [Sys.step, Op.side, hn, Sys.arrive, ht, e]
  · simp
  · simp
  · simp
  · unfold acceptLen; omega
  · unfold acceptLen; omega
  · rw [x']
    congr 1
    have hk : acceptLen t p' q g.text.length ≤ g.text.length - min (q - p') g.text.length := by
      unfold acceptLen; omega
    have := slice_accept (s.side x.peer).submitted p' q g.text.length _ hpq hk
    rw [← htext] at this
    rw [Nat.min_eq_left (by omega)] at this
    exact this

/-! ### non-vacuity of `c01_progress_receive_partial` -/

/-- the state a run from the empty system ends in (`{}` if it panics) -/
def c01StateAfter (ops : List Op) : Sys :=
  match Sys.run {} ops with
  | .ok (s, _) => s
  | .error _ => {}

theorem c01StateAfter_run {ops : List Op} (h : (Sys.run {} ops).toBool = true) :
    ∃ rs, Sys.run {} ops = .ok (c01StateAfter ops, rs) := by
  unfold c01StateAfter
  cases h' : Sys.run {} ops with
  | error e => rw [h'] at h; cases h
  | ok p => exact ⟨p.2, rfl⟩

/-- handshake A → B, A writes 3 bytes and emits (history: 0 SYN, 1 SYN-ACK, 2 ACK, 3 data), the
    ACK reaches B -/
def c01ExOps : List Op :=
  [.open .A 1000 1500, .listen .B 5000 1500, .emit .A, .deliver .B 0, .emit .B, .deliver .A 1,
   .write .A [1, 2, 3], .emit .A, .deliver .B 2]
def c01ExIss : SideId → Seq | .A => 1000 | .B => 5000
def c01ExTcb : Tcb := ((c01StateAfter c01ExOps).side .B).tcb.getD default
def c01ExSeg : Segment := ((c01StateAfter c01ExOps).nth 3).getD default

/-- the hypotheses of `c01_progress_receive_partial` hold in that reachable state for the data
    segment (history element 3), and the theorem yields: delivering it puts `[1, 2, 3]` into B's
    buffer -/
example : ∃ s' t' k, (c01StateAfter c01ExOps).step (.deliver .B 3) = .ok (s', .arrived .Ok) ∧
    (s'.side .B).tcb = some t' ∧ 0 < k ∧ t'.incoming.text = [] ++ ([1, 2, 3] : List UInt8).take k := by
  obtain ⟨rs, hrun⟩ := c01StateAfter_run (ops := c01ExOps) (by decide)
  have h31 : Lt31 (c01StateAfter c01ExOps) := by unfold Lt31; decide
  have hinv : Inv c01ExIss (c01StateAfter c01ExOps) :=
    run_inv (Inv.init _) (runOkB_sound (by decide)) hrun h31
  obtain ⟨s', t', k, e, ht', _, _, _, _, hk, _, htext⟩ :=
    c01_progress_receive_partial c01ExIss (c01StateAfter c01ExOps) hinv h31 .B 3 c01ExSeg c01ExTcb
      (by decide) (by decide) (by decide) (by decide) (by decide) (by decide) ⟨by decide, by decide⟩
      ⟨by decide, by decide, by decide, by decide⟩ (by decide) 0 (by decide) (by decide) (by decide)
  refine ⟨s', t', k, e, ht', hk, ?_⟩
  rw [htext]
  have h1 : c01ExTcb.incoming.text = [] := by decide
  have h2 : ((c01StateAfter c01ExOps).side SideId.B.peer).submitted = [1, 2, 3] := by decide
  have h3 : ((c01StateAfter c01ExOps).side .B).delivered.length + c01ExTcb.incoming.text.length = 0 := by decide
  rw [h3, h1, h2]
  rfl

/-! ## retransmission and acknowledgment progress (TCB level) -/

/-- **retransmission progress.**  Whatever the state of the TCB: once the retransmission timer has
    expired (`dt` exceeds what is left of it) the next `segments()` returns every segment that is on
    the retransmission queue — unacknowledged data is offered to the network again after each RTO. -/
theorem c01_progress_retransmit_partial (t t1 t2 : Tcb) (dt : Nat) (r : AdvanceTimeResult) (out : List Segment)
    (hdt : dt > t.timeouts.retransmission) (e1 : t.advanceTime dt = .ok (t1, r))
    (e2 : t1.segments = .ok (t2, out)) :
    ∀ tr ∈ t.outgoing.retransmit, tr.segment ∈ out :=
  retransmit_all hdt e1 e2

/-- **acknowledgment progress.**  At an ESTABLISHED endpoint with an empty reorder heap, a pure ACK
    at `RCV.NXT` with `SND.UNA < SEG.ACK ≤ SND.NXT` (circular) is accepted, sets `SND.UNA = SEG.ACK`
    and removes from the retransmission queue exactly the segments with `SEG.SEQ + SEG.LEN ≤ SEG.ACK`
    (`remove_acked` keeps `mod_lt(SEG.ACK, seq + len)`); receive side, unsent text, `SND.NXT`, the
    one-shot queue and the state are untouched. -/
theorem c01_progress_ack_partial (t : Tcb) (g : Segment)
    (hst : t.state = .Established) (hw : t.rcv.wnd = 65535#16) (hheap : t.incoming.segments = [])
    (htext : g.text = []) (hrst : g.hdr.ctl.rst = false) (hsyn : g.hdr.ctl.syn = false)
    (hfin : g.hdr.ctl.fin = false) (hack : g.hdr.ctl.ack = true) (hseq : g.hdr.seq = t.rcv.nxt)
    (hnew : modLeq g.hdr.ack t.snd.una = false)
    (hok : modBounded t.snd.una .Lt g.hdr.ack .Leq t.snd.nxt = true) :
    ∃ t', t.segmentArrives g = .ok (t', .Ok) ∧ t'.snd.una = g.hdr.ack ∧
      t'.outgoing.retransmit = t.outgoing.retransmit.filter
        (fun tr => modLt g.hdr.ack (tr.segment.hdr.seq + BitVec.ofNat 32 tr.segment.segLen)) ∧
      t'.snd.nxt = t.snd.nxt ∧ t'.snd.iss = t.snd.iss ∧ t'.rcv = t.rcv ∧ t'.incoming = t.incoming ∧
      t'.state = .Established ∧ t'.outgoing.text = t.outgoing.text ∧ t'.outgoing.oneshot = t.outgoing.oneshot :=
  segmentArrives_ack hst hw hheap htext hrst hsyn hfin hack hseq hnew hok

/-- A's TCB after the example run: the 3-byte data segment waits on its retransmission queue -/
def c01ExTcbA : Tcb := ((c01StateAfter c01ExOps).side .A).tcb.getD default

/-- non-vacuity (retransmission): the timer (100 ms) has expired after 101 ms, both calls succeed, one
    segment is queued, and A's `segments()` re-emits the data segment -/
example : (match c01ExTcbA.advanceTime 101 with
    | .ok (t1, _) => (match t1.segments with
      | .ok (_, out) => out.map (·.text) == [[1, 2, 3]]
      | .error _ => false)
    | .error _ => false) = true ∧
    101 > c01ExTcbA.timeouts.retransmission ∧ c01ExTcbA.outgoing.retransmit.length = 1 := by decide

/-- B's data is acknowledged: the run continues with the data segment reaching B and B's ACK
    (history element 4) being emitted -/
def c01ExOps2 : List Op := c01ExOps ++ [.deliver .B 3, .emit .B]
def c01ExTcbA2 : Tcb := ((c01StateAfter c01ExOps2).side .A).tcb.getD default
def c01ExAck : Segment := ((c01StateAfter c01ExOps2).nth 4).getD default

/-- non-vacuity (acknowledgment): the hypotheses hold for A and B's ACK in that reachable state; the
    theorem yields that A's retransmission queue is empty afterwards -/
example : ∃ t', c01ExTcbA2.segmentArrives c01ExAck = .ok (t', .Ok) ∧ t'.outgoing.retransmit = [] ∧
    t'.snd.una = t'.snd.nxt := by
  obtain ⟨t', e, u, r, n, _⟩ := c01_progress_ack_partial c01ExTcbA2 c01ExAck (by decide) (by decide) (by decide)
    (by decide) (by decide) (by decide) (by decide) (by decide) (by decide) (by decide) (by decide)
  refine ⟨t', e, ?_, ?_⟩
  · rw [r]; decide
  · rw [u, n]; decide

/-- The convergence clause, as a statement (NOT proved; checked by the native oracle of the `sched`
    run on the real code).  `fairRound` = each side ticks past the retransmission timeout and emits,
    everything emitted is delivered to its addressee in emission order (responses included) until
    nobody emits.  Claim: from every reachable state without close/abort/reset, some number of fair
    rounds leads to a state in which everything submitted has been handed to the peer's TCB, both
    retransmission queues are empty and `emit` returns nothing on both sides.
    Missing for a proof: acknowledgment facts in the invariant (`SEG.ACK = ISS_peer + 1 + r` with
    `r ≤ sent_peer` for every history element, `SND.UNA ≤ RCV.NXT_peer ≤ SND.NXT` across the two
    endpoints), the `Chain` invariant of `Lemmas/TcbWindow.lean` for the retransmission queue, an
    induction over the list of segments delivered within one round (the reorder heap may fill
    up when the receive buffer does), and "no RST is ever emitted between two synchronised
    endpoints". -/
def C01ConvergesStatement : Prop :=
  ∀ (iss : SideId → Seq) (ops : List Op), RunOk iss {} ops →
    ∀ (s : Sys) (rs : List Res), Sys.run {} ops = .ok (s, rs) → Lt31 s →
      (∀ x t, (s.side x).tcb = some t → t.state = .Established) →
      ∃ (ops' : List Op) (s' : Sys) (rs' : List Res),
        (∀ op ∈ ops', ∃ x, (∃ ms, op = .tick x ms) ∨ op = .emit x ∨ (∃ i, op = .deliver x i) ∨ op = .read x) ∧
        RunOk iss s ops' ∧ s.run ops' = .ok (s', rs') ∧
        (∀ x t, (s'.side x).tcb = some t →
          (s'.side x).delivered ++ t.incoming.text = (s'.side x.peer).submitted ∧
          t.outgoing.retransmit = [] ∧ t.outgoing.text = [] ∧ t.outgoing.oneshot = [])

end Elvis.Tcp
