import ElvisVerif.Model.Arp
/-! The 28-byte wire form of an ARP packet: `from_bytes ∘ build = id` (helper lemmas for C06). -/
namespace Elvis.Arp
open Elvis.Gen.Arp

theorem be_length (w n : Nat) : (be w n).length = w := by
  induction w with
  | zero => rfl
  | succ w ih => simp [be, ih]

theorem fromBe_be (w n : Nat) : fromBe (be w n) = n % 256 ^ w := by
  induction w with
  | zero => simp [be, fromBe, Nat.mod_one]
  | succ w ih =>
    have h1 : (UInt8.ofNat (n / 256 ^ w % 256)).toNat = n / 256 ^ w % 256 := by
      rw [UInt8.toNat_ofNat']
      exact Nat.mod_mod _ _
    simp only [be, fromBe, be_length, ih, h1]
    rw [Nat.mod_pow_succ (b := 256), Nat.mul_comm, Nat.add_comm]

theorem rd_be (w n : Nat) (rest : List UInt8) : rd w (be w n ++ rest) = .ok (n % 256 ^ w, rest) := by
  unfold rd
  have hl : ¬ (be w n ++ rest).length < w := by simp [be_length]
  simp only [hl, if_false]
  rw [List.take_left' (be_length w n), List.drop_left' (be_length w n), fromBe_be]

/-- the field widths of the wire form -/
structure Packet.WF (p : Packet) : Prop where
  htype : p.htype < 256 ^ 2
  ptype : p.ptype < 256 ^ 2
  hlen : p.hlen < 256 ^ 1
  plen : p.plen < 256 ^ 1
  smac : p.smac < 256 ^ 6
  sip : p.sip < 256 ^ 4
  tmac : p.tmac < 256 ^ 6
  tip : p.tip < 256 ^ 4

theorem build_length (p : Packet) : (build p).length = packetSize := by
  simp [build, be_length, packetSize]

/-- parsing what `build` wrote gives the packet back (fields within their wire widths); trailing
    bytes are ignored -/
theorem fromBytes_build (p : Packet) (h : p.WF) (rest : List UInt8) : fromBytes (build p ++ rest) = .ok p := by
  unfold fromBytes build
  simp only [List.append_assoc, rd_be]
  rw [Nat.mod_eq_of_lt h.htype, Nat.mod_eq_of_lt h.ptype, Nat.mod_eq_of_lt h.hlen, Nat.mod_eq_of_lt h.plen,
    Nat.mod_eq_of_lt h.smac, Nat.mod_eq_of_lt h.sip, Nat.mod_eq_of_lt h.tmac, Nat.mod_eq_of_lt h.tip]
  obtain ⟨a1, a2, a3, a4, oper, a6, a7, a8, a9⟩ := p
  cases oper <;> simp [Oper.code, operRequest, operReply]

end Elvis.Arp
