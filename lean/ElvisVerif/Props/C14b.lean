import ElvisVerif.Lemmas.CodecB
/-!
# C14 (ARP, DNS, DHCP part) — malformed input is rejected with an error, never with a crash

Property theorems only (helper lemmas: `Lemmas/CodecB.lean`; models: `Model/Codec/{Arp,Dns,Dhcp}`).

* `c14_arp_total`, `c14_dns_total`, `c14_dhcp_total`: for EVERY byte string the decoder returns a
  value or a reported error — the outcome is never one of the panic sites of the model (every
  `unwrap`, `unreachable!`, checked addition of the Rust functions is such a site).
* `c14_*_errors`: which errors can be reported.
* `c14_*_demux_total`, `c14_*_drop_on_header_error`: the `demux` functions that hand a datagram from
  the network to these decoders (`Arp::demux`, `DhcpClient::demux`, `DhcpServer::demux`) do not
  panic on any datagram and drop an undecodable one without any other effect;
  `c14_dns_query_name_total` for `DnsQuestion::query_name`.
* `c14_dhcp_v0_counterexample`, `c14_dhcp_client_demux_v0_counterexample`,
  `c14_dns_query_name_v0_counterexample`: the code as it was before the `fix:` commits
  (findings F-C14-1, F-C14-3) did panic — concrete witnesses, replayed on the real code by the
  harness (`corpus/C14/*`).
-/
namespace Elvis.CodecB

/-- one `let (v, bs) ← orShort (reader bs)` step of a decoder -/
local macro "np_short" : tactic =>
  `(tactic| (refine noPanic_bind (noPanic_orShort _) ?_; rintro ⟨_, _⟩ -; dsimp only))

/-! ## ARP -/

theorem c14_arp_total (bs : Bytes) : NoPanic (Arp.fromBytes bs) := by
  unfold Arp.fromBytes
  np_short; np_short; np_short; np_short; np_short
  refine noPanic_bind ?_ ?_
  · intro s h; split at h
    · cases h
    · split at h <;> cases h
  · intro _ _
    np_short; np_short; np_short; np_short
    exact noPanic_pure _

/-- `Arp::demux` never panics on a datagram, and a datagram the decoder rejects is dropped:
    the ARP table is not touched (`dropped`) -/
theorem c14_arp_demux_total (bs : Bytes) : NoPanic (Arp.demux bs) := by
  have h := c14_arp_total bs
  unfold Arp.demux
  cases hr : Arp.fromBytes bs with
  | ok p => exact noPanic_ok _
  | error e =>
    cases e with
    | panic s => exact absurd hr (h s)
    | _ => exact noPanic_ok _

theorem c14_arp_drop_on_header_error (bs : Bytes) (e : DecErr) (h : Arp.fromBytes bs = .error e) :
    Arp.demux bs = .ok .dropped := by
  have hp := c14_arp_total bs
  unfold Arp.demux
  rw [h]
  cases e with
  | panic s => exact absurd h (hp s)
  | _ => rfl

/-! ## DNS -/

theorem c14_dns_total (bs : Bytes) : NoPanic (Dns.fromBytes bs) := by
  unfold Dns.fromBytes
  np_short; np_short; np_short; np_short; np_short; np_short   -- header
  np_short; np_short; np_short                                 -- question
  np_short; np_short; np_short; np_short                       -- answer up to ttl
  refine noPanic_bind (noPanic_orShort _) ?_
  rintro ⟨rdlength, bs'⟩ hrd
  dsimp only
  have hlt := (nextU16_inv (orShort_ok.1 hrd)).2
  refine noPanic_bind (rdataLoop_noPanic rdlength (by omega) _ _ _) ?_
  rintro ⟨_, _⟩ -
  exact noPanic_pure _

/-- `DnsQuestion::query_name` (current code) reports a non-UTF-8 name as an error -/
theorem c14_dns_query_name_total (q : Dns.DnsQuestion) : NoPanic (Dns.queryName q) := by
  unfold Dns.queryName
  intro s h
  split at h <;> cases h

/-- before the fix (F-C14-3) `query_name` unwrapped: the one-byte name `ff` crashed the caller
    (the DNS responder) -/
theorem c14_dns_query_name_v0_counterexample :
    Dns.queryNameV0 (Dns.newQuestion [0xff]) = .error (.panic "panic:unwrap:dns_query_name") := by
  decide

/-- `DnsServer::respond_to_query` (current code) on ANY datagram: a reply is sent or the task ends
    with a logged error; no panic site is reached -/
theorem c14_dns_server_respond_total (d : Bytes) : NoPanic (Dns.serverRespond d) := by
  have h := c14_dns_total (d.take 80)
  unfold Dns.serverRespond
  cases hr : Dns.fromBytes (d.take 80) with
  | error e =>
    cases e with
    | panic s => exact absurd hr (h s)
    | _ => exact noPanic_ok _
  | ok p =>
    obtain ⟨m, r⟩ := p
    dsimp only
    have hq := c14_dns_query_name_total m.question
    cases hn : Dns.queryName m.question with
    | error e =>
      cases e with
      | panic s => exact absurd hn (hq s)
      | _ => exact noPanic_ok _
    | ok name =>
      dsimp only
      cases Dns.serverTable.lookup name <;> exact noPanic_ok _

/-- the response handling of `DnsClient::get_host_by_name` (current code) on ANY response
    datagram: `Ok(address)` or `Err(DnsClientError)`; no panic site is reached -/
theorem c14_dns_client_handle_total (name resp : Bytes) : NoPanic (Dns.clientHandle name resp) := by
  have h := c14_dns_total resp
  unfold Dns.clientHandle
  cases hr : Dns.fromBytes resp with
  | error e =>
    cases e with
    | panic s => exact absurd hr (h s)
    | _ => exact noPanic_ok _
  | ok p =>
    obtain ⟨m, r⟩ := p
    dsimp only
    split
    · split
      · split <;> exact noPanic_ok _
      · exact noPanic_ok _
    · exact noPanic_ok _

/-- before the fix (F-C14-4): an empty datagram (at shutdown), a truncated query, a query name that is not UTF-8 and a query for
    an unknown name each panicked the DNS server; a truncated response, an answer name that is
    not UTF-8, a record shorter than 4 bytes and an answer for another name each panicked the
    client.  (12 header bytes, `name SP type class`, `name SP type class ttl rdlength rdata`.) -/
theorem c14_dns_responder_v0_counterexample :
    Dns.serverRespondV0 [] = .error (.panic "panic:unwrap:dns_server_recv")
    ∧ Dns.serverRespondV0 [1, 2, 3] = .error (.panic "panic:unwrap:dns_server_from_bytes")
    ∧ Dns.serverRespondV0 (Dns.toMessage { Dns.example1 with question := Dns.newQuestion [0xff] })
        = .error (.panic "panic:unwrap:dns_server_query_name")
    ∧ Dns.serverRespondV0 (Dns.toMessage { Dns.example1 with question := Dns.newQuestion [0x78] })
        = .error (.panic "panic:unwrap:dns_server_task")
    ∧ Dns.clientHandleV0 [0x78] [] = .error (.panic "panic:unwrap:dns_client_from_bytes")
    ∧ Dns.clientHandleV0 [0x78] (Dns.toMessage { Dns.example1 with answer := Dns.newRecord [0xff] 0 1 })
        = .error (.panic "panic:unwrap:dns_client_answer_name")
    ∧ Dns.clientHandleV0 [0x78] (Dns.toMessage { Dns.example1 with
          answer := { Dns.newRecord [0x78] 0 1 with rdlength := 3, rdata := [1, 2, 3] } })
        = .error (.panic "panic:index:dns_client_rdata")
    ∧ Dns.clientHandleV0 [0x78] (Dns.toMessage { Dns.example1 with answer := Dns.newRecord [0x79] 0 1 })
        = .error (.panic "panic:unwrap:dns_client_get_mapping") := by
  decide

/-- non-vacuity: a well-formed exchange still resolves -/
example : Dns.serverRespond (Dns.toMessage Dns.example1)
    = .ok (some (Dns.toMessage (Dns.createResponse Dns.example1 2066563900))) := by decide
example : Dns.clientHandle Dns.example1.question.qname
    (Dns.toMessage (Dns.createResponse Dns.example1 2066563900)) = .ok (some 2066563900) := by decide

/-! ## DHCP -/

theorem c14_dhcp_total (bs : Bytes) : NoPanic (Dhcp.fromBytes bs) := by
  unfold Dhcp.fromBytes
  np_short; np_short; np_short; np_short; np_short; np_short; np_short
  np_short; np_short; np_short; np_short; np_short; np_short
  refine noPanic_bind (noPanic_msgTypeTryFrom _) ?_
  intro _ _
  np_short
  refine noPanic_bind (noPanic_stringFromUtf8 _) ?_
  intro _ _
  np_short
  refine noPanic_bind (noPanic_stringFromUtf8 _) ?_
  intro _ _
  exact noPanic_pure _

/-- The three design-phase witnesses of F-C14-1 on the code as it was (`fromBytesV0`):
    message type 0 reached `unreachable!()`, type 9 an `unwrap()` of `Err(InvalidDhcpType)`,
    a server name containing the byte `ff` an `unwrap()` of `Err(FromUtf8Error)`.
    (29 header bytes, the type byte, then the two NUL-terminated strings.) -/
theorem c14_dhcp_v0_counterexample :
    Dhcp.fromBytesV0 (List.replicate 29 1 ++ [0] ++ [0x53, 0] ++ [0x42, 0])
        = .error (.panic "panic:unreachable:dhcp_msg_type")
    ∧ Dhcp.fromBytesV0 (List.replicate 29 1 ++ [9] ++ [0x53, 0] ++ [0x42, 0])
        = .error (.panic "panic:unwrap:dhcp_msg_type")
    ∧ Dhcp.fromBytesV0 (List.replicate 29 1 ++ [1] ++ [0xff, 0] ++ [0x42, 0])
        = .error (.panic "panic:unwrap:dhcp_server_name")
    ∧ Dhcp.fromBytesV0 (List.replicate 29 1 ++ [1] ++ [0x53, 0] ++ [0xc0, 0x80, 0])
        = .error (.panic "panic:unwrap:dhcp_boot_file") := by
  decide

/-- the same four byte strings on the current code: reported errors -/
theorem c14_dhcp_witnesses_rejected :
    Dhcp.fromBytes (List.replicate 29 1 ++ [0] ++ [0x53, 0] ++ [0x42, 0]) = .error .invalidDhcpType
    ∧ Dhcp.fromBytes (List.replicate 29 1 ++ [9] ++ [0x53, 0] ++ [0x42, 0]) = .error .invalidDhcpType
    ∧ Dhcp.fromBytes (List.replicate 29 1 ++ [1] ++ [0xff, 0] ++ [0x42, 0]) = .error .invalidString
    ∧ Dhcp.fromBytes (List.replicate 29 1 ++ [1] ++ [0x53, 0] ++ [0xc0, 0x80, 0])
        = .error .invalidString := by
  decide

/-- `DhcpClient::demux` never panics on a datagram -/
theorem c14_dhcp_client_demux_total (bs : Bytes) : NoPanic (Dhcp.clientDemux bs) := by
  have h := c14_dhcp_total bs
  unfold Dhcp.clientDemux
  cases hr : Dhcp.fromBytes bs with
  | ok p =>
    obtain ⟨m, r⟩ := p
    dsimp only
    cases m.msgType <;> exact noPanic_ok _
  | error e =>
    cases e with
    | panic s => exact absurd hr (h s)
    | _ => exact noPanic_ok _

/-- a datagram the decoder rejects is dropped by the client: `Err(DemuxError::Header)`, nothing
    sent, no address assigned -/
theorem c14_dhcp_client_drop_on_header_error (bs : Bytes) (e : DecErr)
    (h : Dhcp.fromBytes bs = .error e) : Dhcp.clientDemux bs = .ok .errHeader := by
  have hp := c14_dhcp_total bs
  unfold Dhcp.clientDemux
  rw [h]
  cases e with
  | panic s => exact absurd h (hp s)
  | _ => rfl

/-- `DhcpServer::demux` never panics on a datagram as long as the address pool is not exhausted
    (`fetch_ip()` returns `Some`; the `unwrap()` of an exhausted pool is reached by a well-formed
    Discover and belongs to C15, not to malformed input) -/
theorem c14_dhcp_server_demux_total (bs : Bytes) (ip : Nat) :
    NoPanic (Dhcp.serverDemux (some ip) bs) := by
  have h := c14_dhcp_total bs
  unfold Dhcp.serverDemux
  cases hr : Dhcp.fromBytes bs with
  | ok p =>
    obtain ⟨m, r⟩ := p
    dsimp only
    cases m.msgType <;> exact noPanic_ok _
  | error e =>
    cases e with
    | panic s => exact absurd hr (h s)
    | _ => exact noPanic_ok _

/-- … and an undecodable datagram never reaches the address generator, whatever its state -/
theorem c14_dhcp_server_drop_on_header_error (bs : Bytes) (e : DecErr) (fetch : Option Nat)
    (h : Dhcp.fromBytes bs = .error e) : Dhcp.serverDemux fetch bs = .ok .errHeader := by
  have hp := c14_dhcp_total bs
  unfold Dhcp.serverDemux
  rw [h]
  cases e with
  | panic s => exact absurd h (hp s)
  | _ => rfl

/-- before the fix (F-C14-3) both `demux` functions unwrapped the decode result: the empty
    datagram (or any truncated one) crashed the client and the server -/
theorem c14_dhcp_client_demux_v0_counterexample :
    Dhcp.clientDemuxV0 [] = .error (.panic "panic:unwrap:dhcp_client_demux")
    ∧ Dhcp.serverDemuxV0 (some 1) [1, 2, 3] = .error (.panic "panic:unwrap:dhcp_server_demux") := by
  decide

/-! ## Non-vacuity: the decoders do accept packets and do report each error kind -/

example : Arp.fromBytes (Arp.build (Arp.newReply 1337 2130706433 70368744177664 168496141) ++ [7])
    = .ok (Arp.newReply 1337 2130706433 70368744177664 168496141, [7]) := by decide
example : Arp.fromBytes [0, 1, 8, 0, 6, 4, 0, 3] = .error .invalidOperation := by decide
example : Arp.fromBytes [1, 2, 3, 4, 5, 6, 7] = .error .tooShort := by decide
example : Dhcp.fromBytes (Dhcp.toMessage Dhcp.default) = .ok (Dhcp.default, []) := by decide
example : Dhcp.clientDemux (Dhcp.toMessage { Dhcp.default with msgType := .ack, yourIp := 7 })
    = .ok (.assigned 7) := by decide

end Elvis.CodecB
