import ElvisVerif.Props.C19
import ElvisVerif.Lemmas.NdlWhole2
import ElvisVerif.Lemmas.NdlDup2
import ElvisVerif.Lemmas.NdlPrefix2
/-!
# C19, second part — whole-file rejection, every written form, the exact normal form

Property theorems only.  Model: `Model/Ndl.lean` (`parse` = `core_parser` from the file's text on).
Lemmas: `Lemmas/Ndl{Gram2,Reject2,Norm2,Doc2,Whole2}.lean`.

**The line structure of a text** (`Lemmas/NdlGram2.lean`) is declared on the model's own notions:
`LineAt d dt ps s l tail l'` = "`s` begins with `d` tabs and a bracket the line lexer reads as type
`dt` with arguments `ps`"; blocks (`NetBodyAt`, `NetsAt`, `SecsAt`, `MachineAt`, `BlockAt`, `DocAt`)
are declared inductively from lines and tab counts, without reference to the parser's loops.

1. **Whole-file rejection.**  `InFile off s 1` (`Lemmas/NdlReject2.lean`) is a path from the top of
   the normalised text to an offending line, anywhere in the file: through blocks that read as
   blocks, into a block, through entries that read as entries, into an entry, through lines that
   read as lines.  Nothing is assumed about the text after the offending line.
   `c19_rejects_whole_file_{depth,unknown_type,dup_argument,misplaced_type,missing_section,dup_id}`:
   `parse text` is a reported `Err`.
2. **Every written form.**  A `Doc` (`Lemmas/NdlDoc2.lean`) is a description as laid out in a file:
   any number of `[Template]`/`[Networks]`/`[Machines]` blocks in any order, each machine's three
   sections in any of the six orders, every line with its own letter case of the type tag and its
   own number of blank lines, arguments on the block/section headers.
   `c19_parse_render_any_order`: `parse (renderDoc lay doc)` is the meaning of the `Doc`, in all
   three layouts; `c19_any_order_same_maps`: for every `Doc` that arranges a description `t` the
   result has `t`'s (normalised) networks and machines.
3. **The exact normal form** (F-C19-1 made exact).  `c19_parse_render_normalised`:
   `parse (render lay t) = ok (normSim t)` with no hypothesis on the contents of keys and values —
   `normSim` applies the file-level rewriting to every key, value and id; `c19_normalise_id_iff`:
   `normSim t = t` iff no id, key or value contains `\r` or four consecutive spaces.
-/
namespace Elvis.Ndl
open Elvis.Gen.Ndl

/-! ## 1. whole-file rejection -/

/-- the engine: a fatal offence anywhere in the line structure of the normalised text -/
theorem c19_rejects_whole_file (off : Off) (hf : Fatal off) (text : Text) (h : InFile off (normalise text) 1) :
    ∃ k n, parse text = .error (.err k n) := build_rejects hf h

/-- (a) a declaration at a wrong nesting depth — deeper than the enclosing block allows, or a
    first child that is not exactly one level below its parent (including a block left empty) —
    anywhere in the file ⇒ `Err` -/
theorem c19_rejects_whole_file_depth (text : Text) (h : InFile depthOff (normalise text) 1) :
    ∃ k n, parse text = .error (.err k n) := c19_rejects_whole_file _ fatal_depth text h

/-- (b) a line whose bracket does not begin with a type tag, where a declaration is expected,
    anywhere in the file ⇒ `Err` -/
theorem c19_rejects_whole_file_unknown_type (text : Text) (h : InFile (lexOff .dectype) (normalise text) 1) :
    ∃ k n, parse text = .error (.err k n) := c19_rejects_whole_file _ (fatal_lex _) text h

/-- (e) a line with a duplicate argument anywhere in the file ⇒ `Err` -/
theorem c19_rejects_whole_file_dup_argument (text : Text) (h : InFile (lexOff .dupArg) (normalise text) 1) :
    ∃ k n, parse text = .error (.err k n) := c19_rejects_whole_file _ (fatal_lex _) text h

/-- … and so does every other complaint of the line lexer (`extra argument`, no `[`…`]`) -/
theorem c19_rejects_whole_file_lexer (k : ErrKind) (text : Text) (h : InFile (lexOff k) (normalise text) 1) :
    ∃ k n, parse text = .error (.err k n) := c19_rejects_whole_file _ (fatal_lex k) text h

/-- a well-formed line of a type that may not be declared where it stands (only Template /
    Networks / Machines at the top, Network in `[Networks]`, Machine in `[Machines]`, the three
    sections in a machine, IP / Network / Protocol / Application in their lists) ⇒ `Err` -/
theorem c19_rejects_whole_file_misplaced_type (text : Text) (h : InFile typeOff (normalise text) 1) :
    ∃ k n, parse text = .error (.err k n) := c19_rejects_whole_file _ fatal_type text h

/-- (c) a machine, anywhere in any `[Machines]` block, whose body lacks one of Networks /
    Protocols / Applications ⇒ `Err` -/
theorem c19_rejects_whole_file_missing_section (text : Text) (h : InFile lacksOff (normalise text) 1) :
    ∃ k n, parse text = .error (.err k n) := c19_rejects_whole_file _ fatal_lacks text h

/-- (d) two networks with the same id, in the same or in different `[Networks]` blocks, anywhere
    in the file ⇒ `Err` -/
theorem c19_rejects_whole_file_dup_id (text : Text) (h : DupFile [] (normalise text) 1) :
    ∃ k n, parse text = .error (.err k n) := build_rejects_dup h

/-- (d'), different blocks, with NOTHING asked of the text after the repeated id (`DupFileAny`: blocks
    that read as blocks, then a `[Networks]` block whose entries read as entries up to one whose id
    an earlier block used): never an accepted `Sim` — `networks_parser`'s loop only adds to its map,
    so the repeated id reaches `core_parser`'s merge if the block is read at all -/
theorem c19_rejects_whole_file_dup_id_any_tail (text : Text) (h : DupFileAny [] (normalise text) 1) (sim : Sim) :
    parse text ≠ .ok sim := build_not_ok_dup h sim

/-- … and a reported `Err` for every text with fewer than 2^31 − 1 lines (by `c14_ndl_total_lines`) -/
theorem c19_rejects_whole_file_dup_id_any_tail_err (text : Text) (h : DupFileAny [] (normalise text) 1)
    (hl : nlCount text < i32Max) : ∃ k n, parse text = .error (.err k n) := parse_dup_any_tail text h hl

/-- never an accepted `Sim` -/
theorem c19_rejects_whole_file_not_ok (off : Off) (hf : Fatal off) (text : Text)
    (h : InFile off (normalise text) 1) (sim : Sim) : parse text ≠ .ok sim :=
  IsErr.not_ok (c19_rejects_whole_file off hf text h) sim

/-! ### what the offences look like on written lines -/

/-- a bracket whose content begins with none of the type tags is an "unknown type" offence,
    at any depth, whatever follows the bracket -/
theorem c19_offence_unknown_type (c : Ctx) (inside after : Text) (l : Nat) (hb : ∀ ch ∈ inside, ch ≠ ']')
    (hun : ∀ t ∈ tagAlt, keyword t inside = none) :
    lexOff .dectype c (List.replicate c.depth '\t' ++ '[' :: (inside ++ ']' :: after)) l := by
  refine ⟨by simp, ?_, ?_⟩
  · apply countTabs_replicate; intro r h; simp at h
  · rw [List.drop_left' (by simp)]
    exact c19_rejects_unknown_type inside after l hb hun

/-- a written line (any letter case of the tag) with two arguments of the same key is a
    "duplicate argument" offence, at any depth, whatever follows the bracket -/
theorem c19_offence_dup_argument (c : Ctx) (dt : DecType) (tag : Text) (htag : SameCase tag dt.name) (ps : Params)
    (hps : ∀ kv ∈ ps, KeyOk kv.1 ∧ valOk kv.2 = true) (hdup : ¬ (ps.map (·.1)).Nodup) (after : Text) (l : Nat) :
    lexOff .dupArg c (List.replicate c.depth '\t' ++ ('[' :: (tag ++ (renderArgs ps ++ [']']))) ++ after) l := by
  refine ⟨by simp, ?_, ?_⟩
  · rw [List.append_assoc]; apply countTabs_replicate; intro r h; simp at h
  · rw [List.append_assoc, List.drop_left' (by simp)]
    have hnb : ∀ d ∈ tag ++ renderArgs ps, d ≠ ']' := by
      intro d hd
      rcases List.mem_append.1 hd with hd | hd
      · exact tag_no_bracket dt tag htag d hd
      · exact renderArgs_no_bracket ps hps d hd
    have hsec : sectionP (('[' :: (tag ++ (renderArgs ps ++ [']']))) ++ after) =
        some (tag ++ renderArgs ps, after) := by
      have := takeUntil_append ']' (tag ++ renderArgs ps) after hnb
      simp only [List.cons_append, List.append_assoc, sectionP] at this ⊢
      simp [this]
    unfold generalParser
    rw [hsec]
    simp only [getType_spelled dt tag htag]
    have ha : arguments (renderArgs ps) = ([], ps) := arguments_render ps _ hps (Nat.le_refl _)
    simp [ha, insertAll_dup ps [] hdup]

/-- a well-formed written line of a type that is not allowed where it stands is a "misplaced
    type" offence -/
theorem c19_offence_misplaced_type (c : Ctx) (x : RLine) (hx : x.Ok) (hd : x.depth = c.depth)
    (hna : c.allowed.contains x.dt = false) (tail : Text) (htail : NoNl tail) (l : Nat)
    (hb : l + (x.deco.blank + 1) ≤ i32Max) : typeOff c (x.text .tabs ++ tail) l :=
  ⟨x.dt, x.ps, tail, _, hd ▸ lineAt_rline x hx tail htail l hb, hna⟩

/-- a written machine whose sections are well-formed but do not include the kind `k` is a
    "missing section" offence, whatever follows the machine -/
theorem c19_offence_missing_section (m : DMach) (hs : ∀ s ∈ m.secs, s.Shape) (hok : ∀ x ∈ m.lines, x.Ok)
    (k : DecType) (hk : IsSec k) (hmiss : k ∉ m.secs.map (·.kind)) (rest : Text) (hr : countTabs rest < 2)
    (hn : NoNl rest) (l : Nat) (hb : l + lc m.lines ≤ i32Max) :
    lacksOff ⟨1, [.machine], false⟩ (rlText .tabs m.lines ++ rest) l := by
  have hl : m.lines = m.hd.rl 1 .machine :: m.secs.flatMap DSec.lines := rfl
  rw [hl, lc_cons] at hb
  have h2 := secsAt_render m.secs rest (l + ((m.hd.rl 1 .machine).deco.blank + 1)) hs
    (fun x hx => hok x (by rw [hl]; exact List.mem_cons_of_mem _ hx)) hr hn (by omega)
  have h1 := lineAt_rline (m.hd.rl 1 .machine) (hok _ (by rw [hl]; exact List.mem_cons_self))
    (rlText .tabs (m.secs.flatMap DSec.lines) ++ rest) (rlText_noNl _ _ hn) l (by omega)
  refine ⟨rfl, rfl, m.hd.ps, _, _, m.secs.map DSec.sec, rest, _, ?_, h2, k, hk, ?_⟩
  · rw [hl, rlText_cons, List.append_assoc]; exact h1
  · simpa [List.map_map, Function.comp_def, DSec.sec] using hmiss

/-- "whatever precedes, as long as it parses": the path may start after any well-formed written
    description -/
theorem c19_offence_after_any_doc (off : Off) (doc : Doc) (hd : doc.Ok) (rest : Text)
    (hr : countTabs rest < 1) (hn : NoNl rest) (h : InFile off rest (1 + lc doc.lines)) :
    InFile off (renderDoc .tabs doc ++ rest) 1 :=
  inFile_after_doc (docAt_render doc rest 1 hd.2.1 hd.1 hr hn hd.2.2.2) h

/-- … written in any layout (the rewriting restarts at every line end, so it acts on the
    description and on what follows it separately) -/
theorem c19_offence_after_any_doc_any_layout (off : Off) (doc : Doc) (lay : Layout) (hd : (normDoc doc).Ok)
    (rest : Text) (hr : countTabs (normalise rest) < 1) (hn : NoNl (normalise rest))
    (h : InFile off (normalise rest) (1 + lc doc.lines)) :
    InFile off (normalise (renderDoc lay doc ++ rest)) 1 := by
  rw [normalise_renderDoc_append lay doc hd rest]
  exact c19_offence_after_any_doc off (normDoc doc) hd (normalise rest) hr hn
    (by rw [normDoc_lines, lc_norm]; exact h)

theorem doc_ids (doc : Doc) : (doc.map DBlock.block).flatMap Block.ids = doc.sim.networks.map (·.1) := by
  induction doc with
  | nil => rfl
  | cons b doc ih =>
    simp only [Doc.sim, List.map_cons, List.flatMap_cons, List.map_append] at ih ⊢
    rw [ih]
    cases b <;> rfl

/-- … the same for duplicate ids: `ids` are then the ids of that description -/
theorem c19_dup_id_after_any_doc (doc : Doc) (hd : doc.Ok) (rest : Text) (hr : countTabs rest < 1) (hn : NoNl rest)
    (h : DupFile (doc.sim.networks.map (·.1)) rest (1 + lc doc.lines)) :
    DupFile [] (renderDoc .tabs doc ++ rest) 1 :=
  dupFile_after_doc (docAt_render doc rest 1 hd.2.1 hd.1 hr hn hd.2.2.2) [] (by simpa [doc_ids] using h)

theorem c19_dup_id_any_tail_after_any_doc (doc : Doc) (hd : doc.Ok) (rest : Text) (hr : countTabs rest < 1)
    (hn : NoNl rest) (h : DupFileAny (doc.sim.networks.map (·.1)) rest (1 + lc doc.lines)) :
    DupFileAny [] (renderDoc .tabs doc ++ rest) 1 :=
  dupFileAny_after_doc (docAt_render doc rest 1 hd.2.1 hd.1 hr hn hd.2.2.2) [] (by simpa [doc_ids] using h)

/-! ### non-vacuity: concrete files with the offence in the middle -/

instance (d : Nat) (dt : DecType) (ps : Params) (s : Text) (l : Nat) (tail : Text) (l' : Nat) :
    Decidable (LineAt d dt ps s l tail l') := by unfold LineAt; exact inferInstance

namespace Ex

def kId : Text := ['i','d']
def kName : Text := ['n','a','m','e']
def pl (dt : DecType) (ps : Params) : DLine := ⟨⟨dt.name, 0⟩, ps⟩
def net (id : Char) : DNet := ⟨pl .network [(kId, [id])], [pl .ip []]⟩
def mach : DMach :=
  ⟨pl .machine [(kName, ['m'])],
    [⟨.networks, pl .networks [], [pl .network [(kId, ['1'])]]⟩,
     ⟨.protocols, pl .protocols [], [pl .protocol [(kName, ['U','D','P'])]]⟩,
     ⟨.applications, pl .applications [], [pl .application [(kName, ['c','a','p'])]]⟩]⟩

/-- a well-formed file: `[Networks]` with network 1, `[Machines]` with one machine -/
def good : Doc := [.nets (pl .networks []) [net '1'], .machs (pl .machines []) [mach]]

theorem good_ok : good.Ok := Doc.ok_of_B good (by decide +kernel)

/-- … followed by a second `[Machines]` block whose first entry is indented twice, and junk -/
def badDepth : Text := renderDoc .tabs good ++
  ['[','M','a','c','h','i','n','e','s',']','\n','\t','\t','[','M','a','c','h','i','n','e',']','\n','?','?']

example : InFile depthOff badDepth 1 := by
  refine c19_offence_after_any_doc depthOff good good_ok _ (by decide) (by intro r h; cases h) ?_
  refine InFile.inMachs (ps := []) (tail := ['\t','\t','[','M','a','c','h','i','n','e',']','\n','?','?'])
    (l' := 1 + lc good.lines + 1) (by decide +kernel) (InMachs.here ?_)
  show 1 < countTabs _
  decide

example : parse badDepth = .error (.err .tabs 0) := by decide +kernel

/-- the same file written with four spaces per level and CRLF line ends in the offending block -/
def badDepthSpaces : Text := renderDoc .spaces good ++
  ['[','M','a','c','h','i','n','e','s',']','\r','\n',' ',' ',' ',' ',' ',' ',' ',' ','[','M','a','c','h','i','n','e',']','\r','\n']

example : ∃ k n, parse badDepthSpaces = .error (.err k n) := by
  refine c19_rejects_whole_file_depth _ ?_
  refine c19_offence_after_any_doc_any_layout depthOff good .spaces (Doc.ok_of_B _ (by decide +kernel)) _
    (by decide) ?_ ?_
  · intro r h
    have h0 : (normalise ['[','M','a','c','h','i','n','e','s',']','\r','\n',' ',' ',' ',' ',' ',' ',' ',' ','[','M','a','c','h','i','n','e',']','\r','\n']).head? = some '[' := by
      decide
    rw [h] at h0
    cases h0
  · refine InFile.inMachs (ps := []) (tail := ['\t','\t','[','M','a','c','h','i','n','e',']','\n'])
      (l' := 1 + lc good.lines + 1) (by decide +kernel) (InMachs.here ?_)
    show 1 < countTabs _
    decide

example : parse badDepthSpaces = .error (.err .tabs 0) := by decide +kernel

/-- … followed by a `[Machines]` block whose machine has no `[Protocols]`, and a `[Template]` -/
def noProt : DMach :=
  ⟨pl .machine [(kName, ['m'])],
    [⟨.networks, pl .networks [], [pl .network [(kId, ['1'])]]⟩,
     ⟨.applications, pl .applications [], [pl .application [(kName, ['c','a','p'])]]⟩]⟩
def tmpl : Text := ['[','T','e','m','p','l','a','t','e',']','\n']
def machsHdr : Text := ['[','M','a','c','h','i','n','e','s',']','\n']
def badMach : Text := renderDoc .tabs good ++ (machsHdr ++ (rlText .tabs noProt.lines ++ tmpl))

example : InFile lacksOff badMach 1 := by
  refine c19_offence_after_any_doc _ good good_ok _ (by decide) (by intro r h; cases h) ?_
  have hl : 1 + lc good.lines = 12 := by decide
  rw [hl]
  refine InFile.inMachs (ps := []) (tail := rlText .tabs noProt.lines ++ tmpl) (l' := 13) (by decide +kernel)
    (InMachs.here ?_)
  exact c19_offence_missing_section noProt (fun s hs => DSec.shape_of_B s (List.all_eq_true.1 (by decide) s hs))
    (fun x hx => RLine.ok_of_B x (List.all_eq_true.1 (by decide) x hx)) .protocols (.inr (.inl rfl)) (by decide)
    tmpl (by decide) (by intro r h; cases h) 13 (by decide)

example : parse badMach = .error (.err .required 0) := by decide +kernel

def router : Text := ['\t','[','R','o','u','t','e','r',' ','i','d','=','\'','3','\'',']','\n','?']
def netsHdr : Text := ['[','N','e','t','w','o','r','k','s',']','\n']

/-- … followed by a `[Networks]` block whose second entry has an unknown type, and junk -/
def badType : Text := renderDoc .tabs good ++ (netsHdr ++ (rlText .tabs (net '2').lines ++ router))

theorem net_body (n : DNet) (hs : n.shapeB = true) (hok : n.lines.all RLine.okB = true) (rest : Text) (l : Nat)
    (hr : countTabs rest < 2) (hn : NoNl rest) (hb : l + lc n.lines ≤ i32Max) :
    NetBodyAt n.net.2.options n.net.2.ip (rlText .tabs n.lines ++ rest) l rest (l + lc n.lines) :=
  (netAt_render n (DNet.shape_of_B _ hs) (fun x hx => RLine.ok_of_B x (List.all_eq_true.1 hok x hx))
    rest l hr hn hb).2.2

example : InFile (lexOff .dectype) badType 1 := by
  refine c19_offence_after_any_doc _ good good_ok _ (by decide) (by intro r h; cases h) ?_
  have hl : 1 + lc good.lines = 12 := by decide
  rw [hl]
  refine InFile.inNets (ps := []) (tail := rlText .tabs (net '2').lines ++ router) (l' := 13) (by decide +kernel) ?_
  refine InNets.later (l' := 15) (net_body (net '2') (by decide) (by decide) router 13 (by decide) (by intro r h; cases h) (by decide)) (InNets.here ?_)
  exact c19_offence_unknown_type ⟨1, [.network], false⟩ ['R','o','u','t','e','r',' ','i','d','=','\'','3','\'']
    ['\n','?'] 15 (by decide) (by decide)

example : parse badType = .error (.err .dectype 15) := by decide +kernel

/-- … followed by a `[Networks]` block that uses id 1 again -/
def badDup : Text :=
  renderDoc .tabs good ++ (netsHdr ++ (rlText .tabs ([net '2', net '1'].flatMap DNet.lines) ++ []))

example : DupFile [] badDup 1 := by
  refine c19_dup_id_after_any_doc good good_ok _ (by decide) (by intro r h; cases h) ?_
  have hl : 1 + lc good.lines = 12 := by decide
  rw [hl]
  refine DupFile.otherBlock (ps := []) (l1 := 13) (by decide +kernel)
    (netsAt_render [net '2', net '1'] [] 13 (fun n hn => DNet.shape_of_B n (List.all_eq_true.1 (by decide) n hn))
      (fun x hx => RLine.ok_of_B x (List.all_eq_true.1 (by decide) x hx)) (by decide) (by intro r h; cases h)
      (by decide)) ⟨['1'], by decide, by decide⟩

example : parse badDup = .error (.err .dupId 0) := by decide +kernel

/-- … the same with a broken line right after the repeated id: another error, still no `Sim` -/
def junk : Text := ['\t','[','B','o','g','u','s',']','\n']
def badDupJunk : Text :=
  renderDoc .tabs good ++ (netsHdr ++ (rlText .tabs (net '2').lines ++ (rlText .tabs (net '1').lines ++ junk)))

example : DupFileAny [] badDupJunk 1 := by
  refine c19_dup_id_any_tail_after_any_doc good good_ok _ (by decide) (by intro r h; cases h) ?_
  have hl : 1 + lc good.lines = 12 := by decide
  rw [hl]
  refine DupFileAny.block (ps := []) (l' := 13)
    (tail := rlText .tabs (net '2').lines ++ (rlText .tabs (net '1').lines ++ junk)) (by decide +kernel) ?_
  have h2 := netAt_render (net '2') (DNet.shape_of_B _ (by decide))
    (fun x hx => RLine.ok_of_B x (List.all_eq_true.1 (by decide) x hx))
    (rlText .tabs (net '1').lines ++ junk) 13 (by decide) (by intro r h; cases h) (by decide)
  have h1 := netAt_render (net '1') (DNet.shape_of_B _ (by decide))
    (fun x hx => RLine.ok_of_B x (List.all_eq_true.1 (by decide) x hx))
    junk 15 (by decide) (by intro r h; cases h) (by decide)
  exact DupAcross.later h2 (DupAcross.here h1 (by decide))

example : parse badDupJunk = .error (.err .dectype 17) := by decide +kernel

end Ex

/-! ## 2. every written form -/

/-- every written form of a description — blocks in any order and number, sections in any order,
    tags in any letter case, blank lines anywhere, arguments on headers — in every layout, parses
    to what it says, with every key and value in the file's normal form.
    `(normDoc doc).Ok` is well-formedness *after* the rewriting (what the parser gets to see). -/
theorem c19_parse_render_any_order (doc : Doc) (lay : Layout) (h : (normDoc doc).Ok) :
    parse (renderDoc lay doc) = .ok (normDoc doc).sim := parse_renderDoc doc lay h

/-- … in particular all layouts of all written forms with the same meaning agree -/
theorem c19_any_order_layouts_agree (d1 d2 : Doc) (l1 l2 : Layout) (h1 : (normDoc d1).Ok) (h2 : (normDoc d2).Ok)
    (hs : (normDoc d1).sim = (normDoc d2).sim) : parse (renderDoc l1 d1) = parse (renderDoc l2 d2) := by
  rw [c19_parse_render_any_order d1 l1 h1, c19_parse_render_any_order d2 l2 h2, hs]

/-- `doc` is a way of writing the description `t`: its `[Networks]` blocks hold `t`'s networks and
    its `[Machines]` blocks `t`'s machines, split over any number of blocks in any order -/
def Arranges (doc : Doc) (t : Sim) : Prop :=
  doc.sim.networks.Perm t.networks ∧ doc.sim.machines.Perm t.machines

/-- every written form of `t` parses to `normSim t` as maps: the same (id ↦ network) entries, ids
    pairwise distinct, and the same machines -/
theorem c19_any_order_same_maps (t : Sim) (doc : Doc) (lay : Layout) (harr : Arranges doc t)
    (hs : ∀ b ∈ doc, b.Shape) (h : (normDoc doc).Ok) :
    ∃ t', parse (renderDoc lay doc) = .ok t' ∧ t'.networks.Perm (normSim t).networks ∧
      (t'.networks.map (·.1)).Nodup ∧ (∀ e, e ∈ t'.networks ↔ e ∈ (normSim t).networks) ∧
      t'.machines.Perm (normSim t).machines := by
  refine ⟨_, c19_parse_render_any_order doc lay h, ?_⟩
  rw [normDoc_sim doc hs h.1]
  have hn : (normSim doc.sim).networks.Perm (normSim t).networks := harr.1.map _
  have hm : (normSim doc.sim).machines.Perm (normSim t).machines := harr.2.map _
  refine ⟨hn, ?_, fun e => hn.mem_iff, hm⟩
  rw [← normDoc_sim doc hs h.1]
  exact h.2.2.1

/-- the canonical rendering of `Props/C19.lean` is one of the written forms -/
theorem c19_render_is_a_written_form (s : Sim) (hs : SimOk s) (lay : Layout) :
    renderDoc lay (canon s) = render lay s := renderDoc_canon lay s hs

namespace Ex

def dl (tag : Text) (blank : Nat) (ps : Params) : DLine := ⟨⟨tag, blank⟩, ps⟩

/-- two `[Networks]` blocks around a `[Template]` and the `[Machines]` block, sections in the
    order Applications, Networks, Protocols, mixed letter case, blank lines, a header argument -/
def shuffled : Doc :=
  [.nets (dl ['N','E','T','W','O','R','K','S'] 1 []) [⟨dl ['n','e','t','w','o','r','k'] 0 [(kId, ['2'])], [dl ['i','p'] 2 []]⟩],
   .template (dl ['t','E','M','P','L','A','T','E'] 0 [(kName, ['x'])]),
   .machs (dl ['m','a','c','h','i','n','e','s'] 0 [(kName, ['i','g','n','o','r','e','d'])])
     [⟨dl ['M','A','C','H','I','N','E'] 0 [(kName, ['m'])],
       [⟨.applications, dl ['A','p','p','l','i','c','a','t','i','o','n','S'] 0 [], [dl ['a','P','P','L','I','C','A','T','I','O','N'] 1 [(kName, ['c','a','p'])]]⟩,
        ⟨.networks, dl ['n','e','t','w','o','r','k','s'] 0 [], [dl ['N','e','t','w','o','r','k'] 0 [(kId, ['1'])]]⟩,
        ⟨.protocols, dl ['P','R','O','T','O','C','O','L','S'] 3 [], [dl ['p','r','o','t','o','c','o','l'] 0 [(kName, ['U','D','P'])]]⟩]⟩],
   .nets (dl ['N','e','t','w','o','r','k','s'] 0 []) [⟨dl ['N','e','t','w','o','r','k'] 0 [(kId, ['1'])], [dl ['I','P'] 0 []]⟩]]

example : (normDoc shuffled).Ok := Doc.ok_of_B _ (by decide +kernel)

/-- the same description as `good`, written differently: same machines, networks 2 and 1 -/
example : parse (renderDoc .crlf shuffled) = .ok ⟨[(net '2').net, (net '1').net], good.sim.machines⟩ ∧
    parse (renderDoc .spaces shuffled) = parse (renderDoc .tabs shuffled) := by decide +kernel

end Ex

/-! ## 3. the exact normal form (F-C19-1 made exact) -/

/-- no hypothesis on what keys and values contain: every layout of `t` parses to `t` with every
    id, key and value rewritten the way the file is (`\r` dropped, every run of four spaces → tab).
    `SimOk (normSim t)` is well-formedness of what the parser gets to see (the rewriting can merge
    two keys or two ids, or uncover a blank at the start of a key: `c19_normalised_needs_wf`). -/
theorem c19_parse_render_normalised (t : Sim) (h : SimOk (normSim t)) (lay : Layout) :
    parse (render lay t) = .ok (normSim t) := by
  unfold parse
  rw [normalise_render_exact lay t (sim_keysStart t h)]
  exact build_render _ h

/-- `normSim t = t` exactly for the descriptions `c19_parse_render_partial` is about -/
theorem c19_normalise_id_iff (t : Sim) : normSim t = t ↔ CalmTree t := normSim_eq_self_iff t

/-- … down to single texts: unchanged iff no `\r` and no four consecutive spaces -/
theorem c19_normalise_text_id_iff (x : Text) : normalise x = x ↔ ('\r' ∉ x ∧ quadFree 0 x = true) :=
  normalise_eq_self_iff x

/-- the hypothesis-free theorem contains the partial one -/
theorem c19_parse_render_of_calm (t : Sim) (hs : SimOk t) (hc : CalmTree t) (lay : Layout) :
    parse (render lay t) = .ok t := by
  have he := (c19_normalise_id_iff t).2 hc
  have := c19_parse_render_normalised t (by rw [he]; exact hs) lay
  rw [he] at this
  exact this

/-- the counterexample of `Props/C19.lean` is an instance: the value `a␣␣␣␣b` comes back as `a⇥b` -/
example :
    let s : Sim := ⟨[(['1'], ⟨.network, [(['i','d'], ['1']), (['n'], ['a',' ',' ',' ',' ','b'])], [⟨.ip, []⟩]⟩)], []⟩
    normSim s = ⟨[(['1'], ⟨.network, [(['i','d'], ['1']), (['n'], ['a','\t','b'])], [⟨.ip, []⟩]⟩)], []⟩ := by
  decide

/-- why the hypothesis is on `normSim t`: a well-formed tree whose keys `a` and `a\r` merge under
    the rewriting is rejected ("duplicate argument") -/
theorem c19_normalised_needs_wf :
    let s : Sim := ⟨[(['1'], ⟨.network, [(['i','d'], ['1']), (['a'], ['x']), (['a','\r'], ['y'])], [⟨.ip, []⟩]⟩)], []⟩
    (s.networks.map (·.1)).Nodup ∧ parse (render .tabs s) = .error (.err .dupArg 2) := by decide

end Elvis.Ndl
